import EsbuildModel.Lemmas.ExportMatchTop
/-! The symbol that step 5 of `scanImportsAndExports` compares (`mainRef` / `ambiguousRef`, model: `finalRef`) for a
holder is the code of THE binding the holder provides. -/
namespace EsbuildModel.ExportMatch
open EsbuildModel.Spec EsbuildModel.Spec.EsModules

theorem holder_final {t : Table} {rs : List Resolved} (H : Hyps t rs) {k : Bool}
    {results : List (List (Nat × MResult))} (hres : matchAll ⟨t, rs, k⟩ = some results) {o : Nat} {a : Name}
    {d : ImportData} (hd : IsHolder t o a d) :
    ∃ b, Reaches (toSpec t) (d.src, a) b ∧ (∀ b', Reaches (toSpec t) (d.src, a) b' → b' = b) ∧
      finalRef results d.src d.ref = code t b ∧ isTSType results d.src d.ref = false := by
  obtain ⟨⟨fo, e, hfo, he, her, hel⟩, _⟩ := hd
  have hlook := matchAll_lookup hres hfo d.ref
  cases hnid : findImport fo d.ref with
  | none =>
    rw [hnid] at hlook
    simp only at hlook
    obtain ⟨h1, _⟩ := holder_local (d := d) H.wf hfo he her hnid
    refine ⟨⟨d.src, .name d.ref⟩, (h1 _).2 rfl, fun b' hb' => (h1 b').1 hb', ?_, ?_⟩
    · simp [finalRef, boundTo, hlook, code, normalOf]
    · simp [isTSType, hlook]
  | some nid =>
    rw [hnid] at hlook
    simp only at hlook
    obtain ⟨hiff, _⟩ := holder_import H.wf H.esm hfo he her hnid
    obtain ⟨b, hb, hu⟩ := pointed_unique H.wf H.esm H.link hfo he her hnid
    obtain ⟨R, hR, _, hbind, _⟩ := matchImport_spec H k hfo hnid
    have hRb : noLoc R = normalOf t b := hbind b hb hu
    obtain ⟨hk, hsrc, href⟩ := noLoc_fields hRb
    rw [normalOf_kind] at hk
    rw [hR] at hlook
    refine ⟨b, (hiff b).2 hb, fun b' hb' => hu b' ((hiff b').1 hb'), ?_, ?_⟩
    · simp [finalRef, boundTo, hlook, hk, hsrc, href, code]
    · simp [isTSType, hlook, hk]

/-- the three-way correspondence between `ResolveExport(m, a)` and the entry of `a` in `ResolvedExports[m]` -/
theorem resolvedExports_core {t : Table} {rs : List Resolved} (H : Hyps t rs) {k : Bool} {m : Nat} (hm : m < t.length)
    {res : Resolved} (hres2 : resolvedExports t m = some res) {results : List (List (Nat × MResult))}
    (hresults : matchAll ⟨t, rs, k⟩ = some results) (a : Name) :
    match resolveExport (toSpec t) m a with
    | some .null => res.lookup a = none
    | some .ambiguous => ∃ ex, res.lookup a = some ex ∧ keepAlias results ex = false
    | some (.binding b) => ∃ ex, res.lookup a = some ex ∧ keepAlias results ex = true ∧
        bindingOf t (finalRef results ex.src ex.ref) = b
    | none => False := by
  obtain ⟨r, hr, hrnull, hrbind, hramb⟩ :=
    resolveExport_spec (toSpec_wellFormed H.wf) (by rw [toSpec_length]; exact hm) a
  rw [hr]
  obtain ⟨hnoneCase, hsomeCase⟩ := holders_of H.wf H.esm hm hres2 a
  cases hl : res.lookup a with
  | none =>
    have hno := hnoneCase hl
    cases r with
    | null => rfl
    | binding b => exact absurd (hrbind b rfl).1 (hno b)
    | ambiguous => obtain ⟨b1, _, h1, _, _⟩ := hramb rfl; exact absurd h1 (hno b1)
  | some ex =>
    obtain ⟨hhold, hcover⟩ := hsomeCase ex hl
    -- the binding of every holder, and the symbol step 5 sees for it
    have hfin : ∀ d ∈ (⟨ex.src, ex.ref, ex.loc⟩ : ImportData) :: ex.ambs, ∃ b, Reaches (toSpec t) (m, a) b ∧
        (∀ b', Reaches (toSpec t) (d.src, a) b' → b' = b) ∧ finalRef results d.src d.ref = code t b ∧
        isTSType results d.src d.ref = false := by
      intro d hd
      obtain ⟨b, hb, hu, hf, hts⟩ := holder_final H hresults (hhold d hd)
      obtain ⟨z, hz, htz⟩ := hb
      exact ⟨b, ⟨z, (hhold d hd).2.trans hz, htz⟩, hu, hf, hts⟩
    obtain ⟨b0, hb0, hu0, hf0, hts0⟩ := hfin ⟨ex.src, ex.ref, ex.loc⟩ (by simp)
    simp only at hu0 hf0 hts0
    cases hkeep : keepAlias results ex with
    | true =>
      -- every potentially ambiguous export is bound to the same symbol: one binding
      have hsame : ∀ b, Reaches (toSpec t) (m, a) b → b = b0 := by
        intro b hb
        obtain ⟨d, hd, hdb⟩ := hcover b hb
        rcases List.mem_cons.1 hd with rfl | hd'
        · exact hu0 b hdb
        · obtain ⟨bd, hbd, hud, hfd, _⟩ := hfin d hd
          have heq : finalRef results d.src d.ref = finalRef results ex.src ex.ref := by
            simp only [keepAlias, Bool.and_eq_true, Bool.not_eq_true', List.any_eq_false] at hkeep
            have := hkeep.1 d hd'
            simpa using this
          rw [hfd, hf0] at heq
          have : bd = b0 := by
            have h1 := bindingOf_code (reaches_good H.wf hbd)
            have h2 := bindingOf_code (reaches_good H.wf hb0)
            rw [heq] at h1
            exact h1.symm.trans h2
          rw [hud b hdb, this]
      cases r with
      | null => exact absurd hb0 (hrnull rfl b0)
      | ambiguous =>
        obtain ⟨b1, b2, h1, h2, hne⟩ := hramb rfl
        exact absurd ((hsame b1 h1).trans (hsame b2 h2).symm) hne
      | binding b =>
        refine ⟨ex, rfl, hkeep, ?_⟩
        rw [hf0, bindingOf_code (reaches_good H.wf hb0)]
        exact (hsame b (hrbind b rfl).1).symm
    | false =>
      -- some potentially ambiguous export is bound to a different symbol: two bindings
      have hdiff : ∃ d ∈ ex.ambs, finalRef results d.src d.ref ≠ finalRef results ex.src ex.ref := by
        simp only [keepAlias, hts0, Bool.not_false, Bool.and_true, Bool.not_eq_false', List.any_eq_true] at hkeep
        obtain ⟨d, hd, hne⟩ := hkeep
        exact ⟨d, hd, by simpa using hne⟩
      obtain ⟨d, hd, hne⟩ := hdiff
      obtain ⟨bd, hbd, _, hfd, _⟩ := hfin d (by simp [hd])
      have hbne : bd ≠ b0 := by
        intro h
        apply hne
        rw [hfd, hf0, h]
      cases r with
      | null => exact absurd hb0 (hrnull rfl b0)
      | binding b =>
        obtain ⟨_, hu⟩ := hrbind b rfl
        exact absurd ((hu bd hbd).trans (hu b0 hb0).symm) hbne
      | ambiguous => exact ⟨ex, rfl, hkeep⟩


end EsbuildModel.ExportMatch
