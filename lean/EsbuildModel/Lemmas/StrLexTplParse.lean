import EsbuildModel.Lemmas.StrLexTplRaw
import EsbuildModel.Lemmas.StrLexStrSound
/-! Templates, soundness direction: every text the scanning loop accepts between template delimiters is derived by
TemplateCharacters (a derivation is constructed character by character). -/
namespace EsbuildModel.StrLex
open EsbuildModel.Spec.StrLit
open EsbuildModel.Spec.JsString (hexVal? utf16)

/-- the item needs no side condition beyond the next character -/
def TplItem (text : List Nat) : Prop := ∃ (x : TplChar) (rest : List Nat), text = x.render ++ rest ∧ x.ok rest.head? = true

theorem hexRun (r : List Nat) : ∃ ds tail, r = ds ++ tail ∧ (∀ c ∈ ds, isHexDigit c = true) ∧
    lookNot isHexDigit tail.head? = true := by
  refine ⟨r.takeWhile isHexDigit, r.dropWhile isHexDigit, List.takeWhile_append_dropWhile.symm,
    fun c hc => List.all_eq_true.1 List.all_takeWhile c hc, ?_⟩
  have := List.head?_dropWhile_not isHexDigit r
  cases h : (r.dropWhile isHexDigit).head? with
  | none => rfl
  | some c => rw [h] at this; simpa [lookNot] using this

theorem all_of_mem {ds : List Nat} (h : ∀ c ∈ ds, isHexDigit c = true) : ds.all isHexDigit = true :=
  List.all_eq_true.2 h

theorem tpl_item_x (r : List Nat) : TplItem (92 :: 120 :: r) := by
  obtain ⟨ds, tail, rfl, hall, hlook⟩ := hexRun r
  match ds, hall with
  | [], _ => exact ⟨.notEsc (.xShort []), tail, rfl, by simp [TplChar.ok, NotEsc.wf, NotEsc.look, hlook]⟩
  | [a], hall =>
    exact ⟨.notEsc (.xShort [a]), tail, rfl, by simp [TplChar.ok, NotEsc.wf, NotEsc.look, hlook, hall a (by simp)]⟩
  | a :: b :: ds', hall =>
    exact ⟨.esc (.hex a b), ds' ++ tail, by simp [TplChar.render, CEsc.render],
      by simp [TplChar.ok, CEsc.wf, CEsc.look, hall a (by simp), hall b (by simp)]⟩

theorem tpl_item_u (r : List Nat) (h123 : r.head? ≠ some 123) : TplItem (92 :: 117 :: r) := by
  obtain ⟨ds, tail, rfl, hall, hlook⟩ := hexRun r
  match ds, hall, h123 with
  | [], _, h123 =>
    refine ⟨.notEsc (.uShort []), tail, rfl, ?_⟩
    have : lookNot (fun x => decide (x = 123)) tail.head? = true := by
      cases tail with
      | nil => rfl
      | cons a t => simpa [lookNot] using h123
    simp [TplChar.ok, NotEsc.wf, NotEsc.look, hlook, this]
  | [a], hall, _ =>
    exact ⟨.notEsc (.uShort [a]), tail, rfl, by simp [TplChar.ok, NotEsc.wf, NotEsc.look, hlook, hall a (by simp)]⟩
  | [a, b], hall, _ =>
    exact ⟨.notEsc (.uShort [a, b]), tail, rfl,
      by simp [TplChar.ok, NotEsc.wf, NotEsc.look, hlook, hall a (by simp), hall b (by simp)]⟩
  | [a, b, c], hall, _ =>
    exact ⟨.notEsc (.uShort [a, b, c]), tail, rfl,
      by simp [TplChar.ok, NotEsc.wf, NotEsc.look, hlook, hall a (by simp), hall b (by simp), hall c (by simp)]⟩
  | a :: b :: c :: d :: ds', hall, _ =>
    exact ⟨.esc (.u4 a b c d), ds' ++ tail, by simp [TplChar.render, CEsc.render],
      by simp [TplChar.ok, CEsc.wf, CEsc.look, hall a (by simp), hall b (by simp), hall c (by simp), hall d (by simp)]⟩

theorem tpl_item_ubrace (r : List Nat) : TplItem (92 :: 117 :: 123 :: r) := by
  obtain ⟨ds, tail, rfl, hall, hlook⟩ := hexRun r
  by_cases hne : ds = []
  · subst hne
    exact ⟨.notEsc .uBraceEmpty, tail, rfl, by simp [TplChar.ok, NotEsc.wf, NotEsc.look, hlook]⟩
  have hne' : ds.isEmpty = false := by cases ds <;> simp at hne ⊢
  by_cases hmv : digitsMV 16 ds > 1114111
  · exact ⟨.notEsc (.uBraceNot ds), tail, by simp [TplChar.render, NotEsc.render],
      by simp [TplChar.ok, NotEsc.wf, NotEsc.look, hlook, hne', all_of_mem hall, hmv]⟩
  have hmv' : digitsMV 16 ds ≤ 1114111 := by omega
  by_cases h125 : tail.head? = some 125
  · cases tail with
    | nil => simp at h125
    | cons a tl =>
      simp at h125; subst h125
      exact ⟨.esc (.uBrace ds), tl, by simp [TplChar.render, CEsc.render],
        by simp [TplChar.ok, CEsc.wf, CEsc.look, hne', all_of_mem hall, hmv']⟩
  · have : lookNot (fun x => decide (x = 125)) tail.head? = true := by
      cases tail with
      | nil => rfl
      | cons a t => simpa [lookNot] using h125
    exact ⟨.notEsc (.uBraceOpen ds), tail, by simp [TplChar.render, NotEsc.render],
      by simp [TplChar.ok, NotEsc.wf, NotEsc.look, hlook, this, hne', all_of_mem hall, hmv']⟩

theorem tpl_item_escape (c2 : Nat) (r : List Nat) (hc2 : c2 ≤ 1114111) : TplItem (92 :: c2 :: r) := by
  by_cases hs : (singleEscape? c2).isSome = true
  · exact ⟨.esc (.single c2), r, rfl, by simp [TplChar.ok, CEsc.wf, CEsc.look, hs]⟩
  have hs' : (singleEscape? c2).isSome = false := by simpa using hs
  by_cases h48 : c2 = 48
  · subst h48
    by_cases hd : lookNot isDecimalDigit r.head? = true
    · exact ⟨.esc .nul, r, rfl, by simp [TplChar.ok, CEsc.wf, CEsc.look, hd]⟩
    · cases r with
      | nil => simp [lookNot] at hd
      | cons d r' =>
        have : isDecimalDigit d = true := by simpa [lookNot] using hd
        exact ⟨.notEsc (.zeroDigit d), r', rfl, by simp [TplChar.ok, NotEsc.wf, NotEsc.look, this]⟩
  by_cases hdig : 49 ≤ c2 ∧ c2 ≤ 57
  · exact ⟨.notEsc (.digit c2), r, rfl, by simp [TplChar.ok, NotEsc.wf, NotEsc.look, hdig]⟩
  by_cases h120 : c2 = 120
  · subst h120; exact tpl_item_x r
  by_cases h117 : c2 = 117
  · subst h117
    cases r with
    | nil => exact tpl_item_u [] (by simp)
    | cons a r' =>
      by_cases ha : a = 123
      · subst ha; exact tpl_item_ubrace r'
      · exact tpl_item_u (a :: r') (by simp [ha])
  by_cases h13 : c2 = 13
  · subst h13
    cases r with
    | nil => exact ⟨.cont .cr, [], rfl, rfl⟩
    | cons a r' =>
      by_cases ha : a = 10
      · subst ha; exact ⟨.cont .crlf, r', rfl, rfl⟩
      · exact ⟨.cont .cr, a :: r', rfl, by simp [TplChar.ok, LTS.look, lookNot, ha]⟩
  by_cases h10 : c2 = 10
  · subst h10; exact ⟨.cont .lf, r, rfl, rfl⟩
  by_cases hls : c2 = 8232
  · subst hls; exact ⟨.cont .ls, r, rfl, rfl⟩
  by_cases hps : c2 = 8233
  · subst hps; exact ⟨.cont .ps, r, rfl, rfl⟩
  have hd : isDecimalDigit c2 = false := by simp [isDecimalDigit]; omega
  have hl : isLineTerminator c2 = false := by simp [isLineTerminator]; omega
  have hne : isNonEscapeCharacter c2 = true := by
    simp [isNonEscapeCharacter, isSourceChar, hc2, isEscapeCharacter, hs', hd, hl, h120, h117]
  exact ⟨.esc (.nonEsc c2), r, rfl, by simp [TplChar.ok, CEsc.wf, CEsc.look, hne]⟩

theorem tpl_item (c : Nat) (t : List Nat) (hsrc : ∀ x ∈ c :: t, x ≤ 1114111) (hb : bodyOK 96 true (c :: t) = true) :
    TplItem (c :: t) := by
  by_cases h92 : c = 92
  · subst h92
    cases t with
    | nil => rw [bodyOK.eq_def] at hb; simp at hb
    | cons c2 r => exact tpl_item_escape c2 r (hsrc c2 (by simp))
  by_cases h13 : c = 13
  · subst h13
    cases t with
    | nil => exact ⟨.lineTerm .cr, [], rfl, rfl⟩
    | cons a r' =>
      by_cases ha : a = 10
      · subst ha; exact ⟨.lineTerm .crlf, r', rfl, rfl⟩
      · exact ⟨.lineTerm .cr, a :: r', rfl, by simp [TplChar.ok, LTS.look, lookNot, ha]⟩
  by_cases h10 : c = 10
  · subst h10; exact ⟨.lineTerm .lf, t, rfl, rfl⟩
  by_cases hls : c = 8232
  · subst hls; exact ⟨.lineTerm .ls, t, rfl, rfl⟩
  by_cases hps : c = 8233
  · subst hps; exact ⟨.lineTerm .ps, t, rfl, rfl⟩
  by_cases h36 : c = 36
  · subst h36
    rw [bodyOK_dollar] at hb
    simp only [Bool.and_eq_true, decide_eq_true_eq] at hb
    refine ⟨.dollar, t, rfl, ?_⟩
    cases t with
    | nil => rfl
    | cons a r => simpa [TplChar.ok, lookNot] using hb.1
  rw [bodyOK_plain _ _ _ _ h92 h13 h10 (by simp [h36])] at hb
  simp only [Bool.and_eq_true, decide_eq_true_eq] at hb
  have hc := hsrc c (by simp)
  exact ⟨.plain c, t, rfl, by simp [TplChar.ok, isSourceChar, hc, hb.1, h92, h36, isLineTerminator, h10, h13, hls, hps]⟩

theorem tpl_parse (close : List Nat) (q0 : Nat) (hc : close.head? = some q0) (h0 : q0 = 96 ∨ q0 = 36) (n : Nat) :
    ∀ body : List Nat, body.length ≤ n → (∀ x ∈ body, x ≤ 1114111) → bodyOK 96 true body = true →
    ∃ ds, renderTpl ds = body ∧ tplOK close ds = true := by
  induction n with
  | zero =>
    intro body hn _ _
    have : body = [] := List.length_eq_zero_iff.1 (by omega)
    subst this
    exact ⟨[], rfl, rfl⟩
  | succ n ih =>
    intro body hn hsrc hb
    match body, hn, hsrc, hb with
    | [], _, _, _ => exact ⟨[], rfl, rfl⟩
    | c :: t, hn, hsrc, hb =>
      obtain ⟨x, rest, htext, hok⟩ := tpl_item c t hsrc hb
      have hb' : bodyOK 96 true rest = true := by
        rw [← bodyOK_tplChar x rest hok, ← htext]; exact hb
      have hlen : rest.length ≤ n := by
        have h1 : (c :: t).length = x.render.length + rest.length := by rw [htext]; simp
        have h2 : x.render.length ≥ 1 := by
          have := TplChar.render_ne_nil x
          cases hx : x.render with
          | nil => exact absurd hx this
          | cons a r => simp
        simp at h1 hn; omega
      obtain ⟨ds, h1, h2⟩ := ih rest hlen (fun y hy => hsrc y (by rw [htext]; simp [hy])) hb'
      refine ⟨x :: ds, by simp [renderTpl, h1, htext], ?_⟩
      simp only [tplOK, Bool.and_eq_true]
      refine ⟨?_, h2⟩
      rw [TplChar.ok_local x _ close q0 hc h0, h1]
      exact hok

/-- every template token the scanner returns is the text of a valid derivation, followed by the rest of the source -/
theorem tpl_of_token (rs : Bool) (src : List Nat) (t : Tok) (h : lexToken rs src = .tok t) (hk : t.kind ≠ .str)
    (hsrc : ∀ c ∈ src, c ≤ 1114111) :
    ∃ (d : TplTok) (tl : List Nat), d.valid = true ∧ rescanOf d.kind = rs ∧ kindOf d.kind = t.kind ∧ src = d.render ++ tl := by
  obtain ⟨q, s, tail, rfl, hopen, hs, hb, _, hclose⟩ := lexToken_tok rs _ t h
  -- the scanner ran with a backtick as the quote
  have hq' : (if rs = true then 96 else q) = 96 := by
    rcases hopen with ⟨hr, _⟩ | ⟨hr, hq⟩
    · simp [hr]
    · simp only [hr, Bool.false_eq_true, if_false]
      apply Classical.byContradiction
      intro hne
      rcases hclose.inv with ⟨tl, _, hk', _⟩ | ⟨tl, h96, _, _, _⟩
      · simp only [hr, Bool.false_eq_true, if_false] at hk'
        rw [if_pos hne] at hk'
        exact hk hk'
      · simp only [hr, Bool.false_eq_true, if_false] at h96; exact hne h96
  rw [hq'] at hb hclose
  simp only [decide_true] at hb
  have hsrcb : ∀ x ∈ t.body, x ≤ 1114111 := fun x hx => hsrc x (by rw [hs]; simp [hx])
  have hopening : ∀ k : TplKind, rescanOf k = rs → k.opening = [q] := by
    intro k hkk
    rcases hopen with ⟨hr, hq⟩ | ⟨hr, hq⟩
    · subst hq; cases k <;> simp [rescanOf, hr] at hkk <;> rfl
    · have : q = 96 := by simpa [hr] using hq'
      subst this; cases k <;> simp [rescanOf, hr] at hkk <;> rfl
  rcases hclose.inv with ⟨tl, rfl, hk', hsuf⟩ | ⟨tl, _, rfl, hk', hsuf⟩
  · -- closed by a backtick
    obtain ⟨ds, h1, h2⟩ := tpl_parse [96] 96 rfl (Or.inl rfl) _ t.body (Nat.le_refl _) hsrcb hb
    simp only [ne_eq, not_true_eq_false, if_false] at hk'
    cases hr : rs with
    | false =>
      refine ⟨⟨.noSubst, ds⟩, tl, h2, by simp [rescanOf], by simp [kindOf, hk', hr], ?_⟩
      have := hopening .noSubst (by simp [rescanOf, hr])
      simp [TplTok.render, this, TplKind.closing, h1, hs]
    | true =>
      refine ⟨⟨.tail, ds⟩, tl, h2, by simp [rescanOf], by simp [kindOf, hk', hr], ?_⟩
      have := hopening .tail (by simp [rescanOf, hr])
      simp [TplTok.render, this, TplKind.closing, h1, hs]
  · -- closed by `${`
    obtain ⟨ds, h1, h2⟩ := tpl_parse [36, 123] 36 rfl (Or.inr rfl) _ t.body (Nat.le_refl _) hsrcb hb
    cases hr : rs with
    | false =>
      refine ⟨⟨.head, ds⟩, tl, h2, by simp [rescanOf], by simp [kindOf, hk', hr], ?_⟩
      have := hopening .head (by simp [rescanOf, hr])
      simp [TplTok.render, this, TplKind.closing, h1, hs]
    | true =>
      refine ⟨⟨.middle, ds⟩, tl, h2, by simp [rescanOf], by simp [kindOf, hk', hr], ?_⟩
      have := hopening .middle (by simp [rescanOf, hr])
      simp [TplTok.render, this, TplKind.closing, h1, hs]

end EsbuildModel.StrLex
