import EsbuildModel.Lemmas.RealPathDirInfo
/-
The cache-free directory information `dirInfoPure` and its correctness: the invariant `Good`.
-/
namespace EsbuildModel.RealPath
open EsbuildModel.PosixFS

/-- `dirInfoCached` without the cache: parent first, then `dirInfoStep`; the argument is the path reversed -/
def dirInfoPure (t : Tree) (preserve : Bool) : List Name → Option DirInfo
  | [] => dirInfoStep t preserve [] none
  | b :: parentRev =>
    match dirInfoPure t preserve parentRev with
    | none => none
    | some pi => dirInfoStep t preserve (b :: parentRev).reverse (some pi)

/-- what a directory information must satisfy to be right -/
structure Good (t : Tree) (p : Path) (i : DirInfo) : Prop where
  abs : i.absPath = p
  res : ∃ n, n ≤ osLinkLimit ∧ Resolves t [] p i.eff n
  dir : t.raw i.eff = some .dir
  ents : i.entries = t.children i.eff

theorem eff_none {i : DirInfo} (h : i.absRealPath = none) : i.eff = i.absPath := by simp [DirInfo.eff, h]
theorem eff_some {i : DirInfo} {r : Path} (h : i.absRealPath = some r) : i.eff = r := by simp [DirInfo.eff, h]

/-- inversion of a one-component resolution of a clean name -/
theorem resolves_single {t : Tree} {m r : Path} {b : Name} {n : Nat} (hb1 : b ≠ dotN) (hb2 : b ≠ dotdotN)
    (h : Resolves t m [b] r n) :
    t.raw m = some .dir ∧
    ((∃ nd, t.raw (m ++ [b]) = some nd ∧ nd.isLink = false ∧ r = m ++ [b] ∧ n = 0) ∨
     (∃ abs tgt, t.raw (m ++ [b]) = some (.link abs tgt))) := by
  cases h with
  | dot _ _ => exact absurd rfl hb1
  | dotdot _ _ => exact absurd rfl hb2
  | step _ _ hd hr hl hres => cases hres; exact ⟨hd, .inl ⟨_, hr, hl, rfl, rfl⟩⟩
  | link _ _ hd hr _ => exact ⟨hd, .inr ⟨_, _, hr⟩⟩

theorem step_root_good {t : Tree} {preserve : Bool} {i : DirInfo} (h : dirInfoStep t preserve [] none = some i) :
    Good t [] i := by
  unfold dirInfoStep at h
  have hr : osReaddir t [] = some (t.children []) := by
    simp [osReaddir, osResolve, walk_nil, raw_nil]
  rw [hr] at h
  simp at h
  subst h
  exact ⟨rfl, ⟨0, Nat.zero_le _, .done _⟩, rfl, rfl⟩

/-- one step of `dirInfoUncached` keeps the invariant (this is where the ORDER "the entry's own symlink first, the
parent's real path second" matters) -/
theorem step_good {t : Tree} (hwf : t.WF) (hcc : NoCaseClash t) {P : Path} {b : Name} {pi i : DirInfo}
    (hb1 : b ≠ dotN) (hb2 : b ≠ dotdotN) (hpi : Good t P pi)
    (h : dirInfoStep t false (P ++ [b]) (some pi) = some i) : Good t (P ++ [b]) i := by
  unfold dirInfoStep at h
  cases hrd : osReaddir t (P ++ [b]) with
  | none => rw [hrd] at h; cases h
  | some names =>
    rw [hrd] at h
    obtain ⟨rd, n, hn, hres, hdir, hnames⟩ := osReaddir_sound hwf hrd
    obtain ⟨m, n1, n2, h1, h2, hsum⟩ := hres.split P [b] rfl
    obtain ⟨n0, hn0, hres0⟩ := hpi.res
    obtain ⟨hm, _⟩ := h1.det hres0
    subst hm
    have hn1 : n1 ≤ osLinkLimit := by omega
    obtain ⟨hmd, hcase⟩ := resolves_single hb1 hb2 h2
    simp only [splitLast_append, Bool.false_eq_true, if_false] at h
    rcases hcase with ⟨nd, hraw, hl, hrd', _⟩ | ⟨abs, tgt, hraw⟩
    · -- the entry is not a link: parent's real path + base, or nothing
      have hmem : b ∈ pi.entries := by rw [hpi.ents]; exact raw_snoc_mem_children hraw
      have hget : get pi.entries b = some b := get_of_mem (by rw [hpi.ents]; exact hcc.children _) hmem
      have hk := kindOfPath_nonlink (b := b) h1 hn1 hmd hraw hl
      rw [hget] at h
      simp only [realOfEntry, entrySymlink, hpi.abs, hk] at h
      cases hreal : pi.absRealPath with
      | none =>
        rw [hreal] at h
        simp at h; subst h
        have he : pi.eff = P := by rw [eff_none hreal, hpi.abs]
        subst hrd'
        rw [he] at hres hdir hnames
        exact ⟨rfl, ⟨n, hn, hres⟩, hdir, hnames⟩
      | some rp =>
        rw [hreal] at h
        simp at h; subst h
        have he : pi.eff = rp := eff_some hreal
        subst hrd'
        rw [he] at hres hdir hnames
        exact ⟨rfl, ⟨n, hn, hres⟩, hdir, hnames⟩
    · -- the entry is a link: its own, fully evaluated, real path
      have hmem : b ∈ pi.entries := by rw [hpi.ents]; exact raw_snoc_mem_children hraw
      have hget : get pi.entries b = some b := get_of_mem (by rw [hpi.ents]; exact hcc.children _) hmem
      have hle : n ≤ goLinkLimit := Nat.le_trans hn (by decide)
      obtain ⟨nd, hnd, hl, hk⟩ := kindOfPath_link h1 hn1 hmd hraw hres hle
      rw [hget] at h
      simp only [realOfEntry, entrySymlink, hpi.abs, hk] at h
      simp at h; subst h
      exact ⟨rfl, ⟨n, hn, by simpa [DirInfo.eff] using hres⟩, by simpa [DirInfo.eff] using hdir,
        by simpa [DirInfo.eff] using hnames⟩

/-- **the invariant holds for every directory information the resolver computes** -/
theorem pure_good {t : Tree} (hwf : t.WF) (hcc : NoCaseClash t) : ∀ (rp : List Name) (i : DirInfo),
    CleanPath rp.reverse → dirInfoPure t false rp = some i → Good t rp.reverse i := by
  intro rp
  induction rp with
  | nil => intro i _ h; exact step_root_good h
  | cons b pr ih =>
    intro i hc h
    unfold dirInfoPure at h
    cases hp : dirInfoPure t false pr with
    | none => rw [hp] at h; cases h
    | some pi =>
      rw [hp] at h
      have hc' : CleanPath pr.reverse := fun c hcm => hc c (by simp; exact .inl (by simpa using hcm))
      have hb := hc b (by simp)
      have e : (b :: pr).reverse = pr.reverse ++ [b] := by simp
      rw [e] at h ⊢
      exact step_good hwf hcc hb.1 hb.2 (ih pi hc' hp) h

end EsbuildModel.RealPath
