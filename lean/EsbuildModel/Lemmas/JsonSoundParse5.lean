import EsbuildModel.Lemmas.JsonSoundParse4
/-
Soundness of the parser (either flavour): the induction on the fuel.
-/
namespace EsbuildModel.Json
open EsbuildModel.Spec.Json EsbuildModel.Spec.NumLit

/-- what soundness says for an array loop that has read `items` (non-empty) and stands at `,` or `]` -/
def ArrTailSound (fl : Flavor) (Rd : Rat → F64) (o : Opts) (P : Params) (inp : List Cp) (items : List Ast) (a : Ast) (L' : Lx) : Prop :=
  ∃ (t : ETail) (asts : List Ast) (rest : List Cp) (s' : Bool), chars inp = t.render ++ ']' :: chars rest ∧
    t.ok (dialectOf fl) = true ∧ a = .arr (items ++ asts) s' ∧ RepT Rd o.objExt t asts ∧ After fl P rest L'

def ObjTailSound (fl : Flavor) (Rd : Rat → F64) (o : Opts) (P : Params) (inp : List Cp) (props : List (List Nat × Bool × Ast)) (a : Ast)
    (L' : Lx) : Prop :=
  ∃ (t : MTail) (asts : List (List Nat × Bool × Ast)) (rest : List Cp) (s' : Bool), chars inp = t.render ++ '}' :: chars rest ∧
    t.ok (dialectOf fl) = true ∧ a = .obj (props ++ asts) s' ∧ RepMT Rd o.objExt t asts ∧ After fl P rest L'

/-- an array loop that has read nothing yet and stands at the first token after `[` and the white space -/
def ArrFirstSound (fl : Flavor) (Rd : Rat → F64) (o : Opts) (P : Params) (inp : List Cp) (a : Ast) (L' : Lx) : Prop :=
  (∃ (rest : List Cp) (s' : Bool), chars inp = ']' :: chars rest ∧ a = .arr [] s' ∧ After fl P rest L') ∨
  (∃ (v : Val) (s2 : List SepItem) (t : ETail) (av : Ast) (asts : List Ast) (rest : List Cp) (s' : Bool),
    chars inp = v.render ++ (Sep.render s2 ++ (t.render ++ ']' :: chars rest)) ∧ v.ok (dialectOf fl) = true ∧
    Sep.ok (dialectOf fl) false false s2 = true ∧ t.ok (dialectOf fl) = true ∧ a = .arr (av :: asts) s' ∧
    RepV Rd o.objExt v av ∧ RepT Rd o.objExt t asts ∧ After fl P rest L')

def ObjFirstSound (fl : Flavor) (Rd : Rat → F64) (o : Opts) (P : Params) (inp : List Cp) (a : Ast) (L' : Lx) : Prop :=
  (∃ (rest : List Cp) (s' : Bool), chars inp = '}' :: chars rest ∧ a = .obj [] s' ∧ After fl P rest L') ∨
  (∃ (k : List SChar) (s2 s3 : List SepItem) (v : Val) (s4 : List SepItem) (t : MTail) (av : Ast)
      (asts : List (List Nat × Bool × Ast)) (rest : List Cp) (s' : Bool),
    chars inp = strTok k ++ (Sep.render s2 ++ (':' :: (Sep.render s3 ++ (v.render ++ (Sep.render s4 ++
      (t.render ++ '}' :: chars rest)))))) ∧ strOk (dialectOf fl) k = true ∧ Sep.ok (dialectOf fl) false false s2 = true ∧
    Sep.ok (dialectOf fl) false false s3 = true ∧ v.ok (dialectOf fl) = true ∧ Sep.ok (dialectOf fl) false false s4 = true ∧
    t.ok (dialectOf fl) = true ∧ a = .obj (propOf o.objExt k av :: asts) s' ∧ RepV Rd o.objExt v av ∧
    RepMT Rd o.objExt t asts ∧ After fl P rest L')

/-- the statements at fuel `n` -/
def SoundAt (fl : Flavor) (Rd : Rat → F64) (o : Opts) (P : Params) (n : Nat) : Prop :=
  (∀ L inp a L', AtTok fl Rd L inp → parseExpr o P n L = .ok (a, L') → L'.log.hasErrors = false → ValSound fl Rd o P inp a L') ∧
  (∀ L inp items single a L', items ≠ [] → AtTok fl Rd L inp → arrLoop o P n L items single = .ok (a, L') →
    L'.log.hasErrors = false → ArrTailSound fl Rd o P inp items a L') ∧
  (∀ L inp props seen single a L', props ≠ [] → AtTok fl Rd L inp → objLoop o P n L props seen single = .ok (a, L') →
    L'.log.hasErrors = false → ObjTailSound fl Rd o P inp props a L') ∧
  (∀ L inp single a L', AtTok fl Rd L inp → arrLoop o P n L [] single = .ok (a, L') →
    L'.log.hasErrors = false → ArrFirstSound fl Rd o P inp a L') ∧
  (∀ L inp seen single a L', AtTok fl Rd L inp → objLoop o P n L [] seen single = .ok (a, L') →
    L'.log.hasErrors = false → ObjFirstSound fl Rd o P inp a L')

section
variable {P : Params} {Rd : Rat → F64} (hP : ParamsOK P Rd) (o : Opts) {fl : Flavor} (hfl : o.flavor = fl)
include hP hfl

theorem closeStep_ok {L L' : Lx} {t : Tok} {s s' : Bool} (h : closeStep o P L t s = .ok (s', L')) :
    L.tok = t ∧ next fl P L = .ok L' := by
  unfold closeStep at h
  rw [hfl] at h
  obtain ⟨L1, he, h⟩ := R.bind_eq_ok h
  simp only [R.ok.injEq, Prod.mk.injEq] at h
  obtain ⟨_, rfl⟩ := h
  exact expect_ok he

/-- the comma step of a loop: a comma, then either a token that is not the closing token (go on), or the closing
token — an error in the strict flavour, the end of the loop in the tsconfig flavour -/
theorem sepStep_comma {L : Lx} {close : Tok} {single : Bool} {r : Sep}
    (h : sepStep o P L close true single = .ok r) :
    L.tok = .comma ∧ ∃ L1 s, next fl P L = .ok L1 ∧
      ((r = .go s L1 ∧ L1.tok ≠ close) ∨
       (∃ L1', r = .brk s L1' ∧ L1.tok = close ∧
          ((fl = .json ∧ L1'.log.hasErrors = true) ∨ (fl = .tsconfig ∧ L1' = L1)))) := by
  unfold sepStep maybeTrailingComma at h
  rw [hfl] at h
  simp only [Bool.not_true, Bool.false_eq_true, if_false, R.bind_assoc] at h
  obtain ⟨L1, he, h⟩ := R.bind_eq_ok h
  obtain ⟨t1, n1⟩ := expect_ok he
  refine ⟨t1, L1, ?_⟩
  by_cases hc : L1.tok = close
  · rw [if_pos hc] at h
    by_cases hj : fl = .json
    · rw [if_pos hj] at h
      simp only [R.bind_ok, Bool.not_false, if_true, R.ok.injEq] at h
      subst h
      exact ⟨_, n1, Or.inr ⟨_, rfl, hc, Or.inl ⟨hj, Log.hasErrors_error _ _⟩⟩⟩
    · rw [if_neg hj] at h
      simp only [R.bind_ok, Bool.not_false, if_true, R.ok.injEq] at h
      subst h
      have hts : fl = .tsconfig := by cases fl <;> simp_all
      exact ⟨_, n1, Or.inr ⟨_, rfl, hc, Or.inr ⟨hts, rfl⟩⟩⟩
  · rw [if_neg hc] at h
    simp only [R.bind_ok, Bool.not_true, Bool.false_eq_true, if_false, R.ok.injEq] at h
    subst h
    exact ⟨_, n1, Or.inl ⟨rfl, hc⟩⟩

end
end EsbuildModel.Json
