import EsbuildModel.Lemmas.AssetHash
import EsbuildModel.Lemmas.OutPathsRelSpec
/-! Lemmas for the importer's side of an asset (property C18): the path relative to the output directory, the
join with the public path, and parsed templates. -/
namespace EsbuildModel.AssetHash
open EsbuildModel.OutPaths EsbuildModel.Spec.OutPath

/-- a path made of `..` and real names never starts with "./" -/
theorem joinSlash_no_dotslash (x : Str) (X : List Str) (hx : x = dd ∨ ValidName x) :
    (lit "./").isPrefixOf (joinSlash (x :: X)) = false := by
  have hform : ∃ rest, joinSlash (x :: X) = x ++ rest ∧ (rest = [] ∨ ∃ q, rest = '/' :: q) := by
    cases X with
    | nil => exact ⟨[], by rw [joinSlash_singleton]; simp, Or.inl rfl⟩
    | cons y Y => exact ⟨'/' :: joinSlash (y :: Y), joinSlash_cons_cons x y Y, Or.inr ⟨_, rfl⟩⟩
  obtain ⟨rest, hj, hrest⟩ := hform
  rw [hj]
  rcases hx with rfl | hv
  · simp [dd, lit, List.isPrefixOf]
  · obtain ⟨hne, hns, hnd, _⟩ := hv
    match x, hne, hns, hnd with
    | [c], _, _, hnd =>
      have hc : c ≠ '.' := fun e => hnd (by rw [e])
      simp [lit, List.isPrefixOf, Ne.symm hc]
    | c1 :: c2 :: r, _, hns, _ =>
      have hc : c2 ≠ '/' := fun e => hns (by simp [e])
      simp [lit, List.isPrefixOf, Ne.symm hc]

/-- `Rel` from one absolute path to another: the result leads from the base to the target and never starts
with "./" -/
theorem fsRel_abs_shape {b t : Str} (hb : isAbs b = true) (ht : isAbs t = true) :
    ∃ r, fsRel b t = some r ∧ denote (b ++ '/' :: r) = denote t ∧ (lit "./").isPrefixOf r = false := by
  obtain ⟨r, h1, h2, h3⟩ := join_rel hb ht
  refine ⟨r, h1, h2, ?_⟩
  by_cases heq : denote t = denote b
  · have : r = ['.'] := by
      unfold fsRel at h1
      rw [rel_abs hb ht] at h1
      simp [heq] at h1
      exact h1.symm
    rw [this]; decide
  · rw [h3 heq]
    have hT := denote_valid t
    generalize hk : (relative (denote b) (denote t)).1 = k
    have hdown : ∀ x ∈ (relative (denote b) (denote t)).2, ValidName x := by
      intro x hx
      unfold relative at hx
      exact hT x (List.mem_of_mem_drop hx)
    generalize (relative (denote b) (denote t)).2 = down at hdown
    cases k with
    | zero =>
      cases down with
      | nil => simp [joinSlash_nil, lit, List.isPrefixOf]
      | cons x X => exact joinSlash_no_dotslash x X (Or.inr (hdown x (by simp)))
    | succ k =>
      rw [List.replicate_succ, List.cons_append]
      exact joinSlash_no_dotslash dd _ (Or.inl rfl)

/-- `joinWithPublicPath` on a path that does not start with "./" -/
theorem joinWithPublicPath_plain (pub rel : Str) (hp : pub ≠ []) (hr : (lit "./").isPrefixOf rel = false) :
    joinWithPublicPath pub rel = pub ++ (if pub.getLast? = some '/' then [] else ['/']) ++ rel := by
  have hs : stripLead rel = rel := by
    unfold stripLead
    split
    · simp [lit] at hr
    · rfl
  unfold joinWithPublicPath
  simp only [hp, if_false, hs]

/-- a parsed template with all four values written in is the textual expansion of the template string -/
theorem renderParts_parsed {s : Str} (hne : s ≠ []) (ho : ¬ EndsOpen s) (d n h e : Str) :
    renderParts d n h e (validatePathTemplate s) = '.' :: '/' :: expand d n h e (replaceBackslash s) := by
  rw [← renderWith_allValues]
  unfold validatePathTemplate
  simp only [hne, if_false]
  have hopen : ¬ EndsOpen (lit "./" ++ replaceBackslash s) := by
    intro hopen
    apply ho
    unfold EndsOpen at hopen ⊢
    have hne' : replaceBackslash s ≠ [] := by unfold replaceBackslash; simpa using hne
    rw [getLast?_append_ne_nil _ hne', getLast?_replaceBackslash] at hopen
    cases hl : s.getLast? with
    | none => rw [hl] at hopen; simp at hopen
    | some c =>
      rw [hl] at hopen
      simp only [Option.map_some, Option.some.injEq] at hopen
      by_cases hb : c = '\\'
      · simp [hb] at hopen
      · simp only [hb, if_false] at hopen
        rw [hopen]
  rw [renderWith_parseLoop d n h e _ _ [] (Nat.le_refl _) hopen (fun e' => by simp [lit] at e')]
  have h1 : matchPlaceholder ('.' :: '/' :: replaceBackslash s) = none := matchPlaceholder_ne_bracket (by decide) _
  have h2 : matchPlaceholder ('/' :: replaceBackslash s) = none := matchPlaceholder_ne_bracket (by decide) _
  have : lit "./" ++ replaceBackslash s = '.' :: '/' :: replaceBackslash s := rfl
  rw [this, expandFrom_match_none _ _ _ _ h1, expandFrom_match_none _ _ _ _ h2]
  simp [expand]

end EsbuildModel.AssetHash
