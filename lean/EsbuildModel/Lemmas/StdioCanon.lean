import EsbuildModel.Lemmas.Stdio
/-!
Whatever the decoder returns is in canonical form: every map node lists its keys strictly increasing (so two model
values are equal exactly when the Go values are).
-/
namespace EsbuildModel.Stdio

theorem mem_mapInsert {k : Bytes} {v : Val} {m : List (Bytes × Val)} {y : Bytes × Val}
    (h : y ∈ mapInsert k v m) : y = (k, v) ∨ y ∈ m := by
  induction m with
  | nil => simp only [mapInsert, List.mem_singleton] at h; exact Or.inl h
  | cons x xs ih =>
    obtain ⟨k', v'⟩ := x
    simp only [mapInsert] at h
    split at h
    · simp only [List.mem_cons] at h ⊢
      rcases h with h | h
      · exact Or.inl h
      · exact Or.inr (Or.inr h)
    · split at h
      · simp only [List.mem_cons] at h ⊢
        rcases h with h | h | h
        · exact Or.inl h
        · exact Or.inr (Or.inl h)
        · exact Or.inr (Or.inr h)
      · simp only [List.mem_cons] at h ⊢
        rcases h with h | h
        · exact Or.inr (Or.inl h)
        · rcases ih h with h | h
          · exact Or.inl h
          · exact Or.inr (Or.inr h)

theorem mapInsert_sorted (k : Bytes) (v : Val) (m : List (Bytes × Val)) (h : KeysSorted m) :
    KeysSorted (mapInsert k v m) := by
  induction m with
  | nil => simp [mapInsert, KeysSorted]
  | cons x xs ih =>
    obtain ⟨k', v'⟩ := x
    have hp := List.pairwise_cons.mp h
    simp only [mapInsert]
    split
    · rename_i heq
      subst heq
      exact List.pairwise_cons.mpr ⟨hp.1, hp.2⟩
    · rename_i hne
      split
      · rename_i hlt
        refine List.pairwise_cons.mpr ⟨?_, h⟩
        intro y hy
        simp only [List.mem_cons] at hy
        rcases hy with rfl | hy
        · exact hlt
        · exact bytesLt_trans _ _ _ hlt (hp.1 y hy)
      · rename_i hnlt
        have hgt : bytesLt k' k = true := by
          rcases bytesLt_total k k' hne with h1 | h1
          · exact absurd h1 hnlt
          · exact h1
        refine List.pairwise_cons.mpr ⟨?_, ih hp.2⟩
        intro y hy
        rcases mem_mapInsert hy with rfl | hy
        · exact hgt
        · exact hp.1 y hy

theorem foldl_mapInsert_sorted (es acc : List (Bytes × Val)) (h : KeysSorted acc) :
    KeysSorted (es.foldl (fun m e => mapInsert e.1 e.2 m) acc) := by
  induction es generalizing acc with
  | nil => exact h
  | cons e es ih => exact ih _ (mapInsert_sorted _ _ _ h)

theorem buildMap_sorted (es : List (Bytes × Val)) : KeysSorted (buildMap es) :=
  foldl_mapInsert_sorted es [] (by simp [KeysSorted])

theorem mem_foldl_mapInsert (es acc : List (Bytes × Val)) (y : Bytes × Val)
    (h : y ∈ es.foldl (fun m e => mapInsert e.1 e.2 m) acc) : y ∈ es ∨ y ∈ acc := by
  induction es generalizing acc with
  | nil => exact Or.inr h
  | cons e es ih =>
    rcases ih _ h with h | h
    · exact Or.inl (by simp [h])
    · rcases mem_mapInsert h with rfl | h
      · exact Or.inl (by simp)
      · exact Or.inr h

theorem mem_buildMap {es : List (Bytes × Val)} {y : Bytes × Val} (h : y ∈ buildMap es) : y ∈ es := by
  rcases mem_foldl_mapInsert es [] y h with h | h
  · exact h
  · cases h

theorem allSorted_iff (xs : List Val) : AllSorted xs ↔ ∀ x ∈ xs, MapsSorted x := by
  induction xs with
  | nil => simp [AllSorted]
  | cons x xs ih => simp [AllSorted, ih]

theorem allSortedKV_iff (kvs : List (Bytes × Val)) : AllSortedKV kvs ↔ ∀ kv ∈ kvs, MapsSorted kv.2 := by
  induction kvs with
  | nil => simp [AllSortedKV]
  | cons kv kvs ih => obtain ⟨k, v⟩ := kv; simp [AllSortedKV, ih]

theorem visit_canon_all : ∀ fuel,
    (∀ bs v rest, visit fuel bs = .ok v rest → MapsSorted v) ∧
    (∀ c bs xs rest, visitArr fuel c bs = .ok xs rest → AllSorted xs) ∧
    (∀ c bs es rest, visitMap fuel c bs = .ok es rest → AllSortedKV es)
  | 0 => by
    refine ⟨fun bs v rest h => by simp [visit] at h, fun c bs xs rest h => ?_, fun c bs es rest h => ?_⟩
    · cases c with
      | zero => simp only [visitArr, Res.ok.injEq] at h; rw [← h.1]; simp [AllSorted]
      | succ c => simp [visitArr] at h
    · cases c with
      | zero => simp only [visitMap, Res.ok.injEq] at h; rw [← h.1]; simp [AllSortedKV]
      | succ c => simp [visitMap] at h
  | f + 1 => by
    have ih := visit_canon_all f
    refine ⟨fun bs v rest h => ?_, fun c bs xs rest h => ?_, fun c bs es rest h => ?_⟩
    · cases bs with
      | nil => simp [visit] at h
      | cons kind bs =>
        simp only [visit] at h
        split at h
        · simp only [Res.ok.injEq] at h; rw [← h.1]; simp [MapsSorted]
        · split at h
          · cases h
          · simp only [Res.ok.injEq] at h; rw [← h.1]; simp [MapsSorted]
        · split at h
          · cases h
          · simp only [Res.ok.injEq] at h; rw [← h.1]; simp [MapsSorted]
        · split at h
          · cases h
          · simp only [Res.ok.injEq] at h; rw [← h.1]; simp [MapsSorted]
        · split at h
          · cases h
          · simp only [Res.ok.injEq] at h; rw [← h.1]; simp [MapsSorted]
        · split at h
          · cases h
          · split at h
            · rename_i xs rest' heq
              simp only [Res.ok.injEq] at h; rw [← h.1]
              simp only [MapsSorted]
              exact ih.2.1 _ _ _ _ heq
            · cases h
            · cases h
            · cases h
        · split at h
          · cases h
          · split at h
            · rename_i es rest' heq
              simp only [Res.ok.injEq] at h; rw [← h.1]
              simp only [MapsSorted]
              refine ⟨buildMap_sorted es, ?_⟩
              have hes := (allSortedKV_iff es).mp (ih.2.2 _ _ _ _ heq)
              exact (allSortedKV_iff _).mpr (fun kv hkv => hes kv (mem_buildMap hkv))
            · cases h
            · cases h
            · cases h
        · cases h
    · cases c with
      | zero => simp only [visitArr, Res.ok.injEq] at h; rw [← h.1]; simp [AllSorted]
      | succ c =>
        simp only [visitArr] at h
        split at h
        · rename_i item rest' heq
          split at h
          · rename_i items rest'' heq'
            simp only [Res.ok.injEq] at h; rw [← h.1]
            exact ⟨ih.1 _ _ _ heq, ih.2.1 _ _ _ _ heq'⟩
          · cases h
          · cases h
          · cases h
        · cases h
        · cases h
        · cases h
    · cases c with
      | zero => simp only [visitMap, Res.ok.injEq] at h; rw [← h.1]; simp [AllSortedKV]
      | succ c =>
        simp only [visitMap] at h
        split at h
        · cases h
        · split at h
          · rename_i item rest' heq
            split at h
            · rename_i items rest'' heq'
              simp only [Res.ok.injEq] at h; rw [← h.1]
              exact ⟨ih.1 _ _ _ heq, ih.2.2 _ _ _ _ heq'⟩
            · cases h
            · cases h
            · cases h
          · cases h
          · cases h
          · cases h

end EsbuildModel.Stdio
