import EsbuildModel.Impl.FsCacheRun
/-
Hypotheses (what "stat data can be trusted" means), invariants and helper lemmas for Props/C09FsCache.lean.
-/
namespace EsbuildModel.FsCache
open EsbuildModel.StatCache

/-! ## the hypotheses -/

/-- the safety gap in nanoseconds -/
def gapNs (cfg : Cfg) : Int := cfg.gapSec * nsPerSec

/-- the part of a time stamp that the platform's key keeps: all of it (unix), the whole second (other) -/
def keyTime : Platform → Int → Int
  | .unix, m => m
  | .other, m => secOf m

/-- the same, read back from a key -/
def keyT : Platform → ModKey → Int
  | .unix, k => k.mtimeSec * nsPerSec + k.mtimeNsec
  | .other, k => k.mtimeSec

/-- how much of the gap the key's own truncation eats -/
def slack : Platform → Int
  | .unix => 0
  | .other => nsPerSec - 1

/-- A time stamp `m'` is FRESH at time `t`: every time stamp that could have been usable (old enough) at or
before `t` is distinguished from it by the key. On unix this is `t < m' + gap`, i.e. `m'` is too new at `t`. -/
def Fresh (cfg : Cfg) (t m' : Int) : Prop := keyTime cfg.plat (t - gapNs cfg) < keyTime cfg.plat m'

/-- THE hypothesis, per change of one path at time `t` (`seen` = the inode numbers the path has held):
the path becomes empty, or the new file is fresh, or (unix) it has an inode number the path never held,
or the contents stay and the (key part of the) time stamp does not go backwards (and, on unix, the inode stays). -/
def StepOK (cfg : Cfg) (t : Int) (seen : List Nat) (old new : Option File) : Prop :=
  match new with
  | none => True
  | some f' =>
    Fresh cfg t f'.mtime ∨ (cfg.plat = .unix ∧ f'.inode ∉ seen) ∨
    (∃ o, old = some o ∧ f'.contents = o.contents ∧ keyTime cfg.plat o.mtime ≤ keyTime cfg.plat f'.mtime ∧
      (cfg.plat = .unix → f'.inode = o.inode))

def ActOK (cfg : Cfg) (s : State) : Act → Prop
  | .edit e => StepOK cfg s.clock (s.seen e.path) (s.world e.path) (e.result cfg.res s.clock (s.world e.path))
  | .tick _ => True
  | .setClock t => s.clock ≤ t           -- the clock never goes backwards

def ActsOK (cfg : Cfg) : State → List Act → Prop
  | _, [] => True
  | s, a :: as => ActOK cfg s a ∧ ActsOK cfg (stepAct cfg s a) as

def OpOK (cfg : Cfg) (s : State) : Op → Prop
  | .act a => ActOK cfg s a
  | .read p mids => ActsOK cfg (statPhase cfg s p) mids
  | .rawRead _ => True
  | .newBuild => True

/-- the semantic hypothesis over a whole history -/
def Trusted (cfg : Cfg) : State → List Op → Prop
  | _, [] => True
  | s, op :: ops => OpOK cfg s op ∧ Trusted cfg (step cfg s op) ops

/-- the operational hypothesis: only edits that stamp the file with the (rounded) clock or leave contents and
time stamp alone; time only passes -/
def Edit.Honest : Edit → Bool
  | .chtimes _ _ => false
  | .moveIn _ _ => false
  | _ => true

def Act.Honest : Act → Bool
  | .edit e => e.Honest
  | .tick _ => true
  | .setClock _ => false

def Op.Honest : Op → Bool
  | .act a => a.Honest
  | .read _ mids => mids.all Act.Honest
  | .rawRead _ => true
  | .newBuild => true

/-- every read goes through `FSCache.ReadFile` -/
def Op.viaCache : Op → Bool
  | .rawRead _ => false
  | _ => true

/-- resolution and gap fit together: `0 < res` and `res (+ what the key truncates) ≤ gap` -/
def ResFits (cfg : Cfg) : Prop := 0 < cfg.res ∧ cfg.res + slack cfg.plat ≤ gapNs cfg

/-! ## invariants -/

/-- key `K` with contents `C` can be trusted for a path whose current file is `fp`, at time `clock` -/
def Trusts (cfg : Cfg) (clock : Int) (seenp : List Nat) (fp : Option File) (K : ModKey) (C : Contents) : Prop :=
  keyT cfg.plat K ≤ keyTime cfg.plat (clock - gapNs cfg) ∧
  (cfg.plat = .unix → K.inode ∈ seenp) ∧
  (∀ f, fp = some f →
    keyT cfg.plat K < keyTime cfg.plat f.mtime ∨ (cfg.plat = .unix ∧ f.inode ≠ K.inode) ∨ f.contents = C)

def SeenInv (s : State) : Prop := ∀ p f, s.world p = some f → f.inode ∈ s.seen p

def CacheInv (cfg : Cfg) (s : State) : Prop :=
  ∀ p e, s.cache p = some e → e.isModKeyUsable = true →
    Trusts cfg s.clock (s.seen p) (s.world p) e.modKey e.contents

/-! ## arithmetic of the too-new rule -/

theorem keyTime_mono (plat : Platform) {a b : Int} (h : a ≤ b) : keyTime plat a ≤ keyTime plat b := by
  cases plat
  · exact h
  · simp only [keyTime, secOf, nsPerSec]; omega

/-- the lexicographic comparison of modkey_unix.go is the comparison in nanoseconds -/
theorem unix_tooNew_iff (gapSec now m : Int) :
    (secOf m + gapSec > secOf now ∨ (secOf m + gapSec = secOf now ∧ nsecOf m > nsecOf now)) ↔
      tooNewNs (gapSec * nsPerSec) m now := by
  unfold tooNewNs secOf nsecOf nsPerSec
  omega

/-- the `Duration` comparison of modkey_other.go is the comparison in nanoseconds -/
theorem other_tooNew_iff (gapSec now m : Int) :
    (m + gapSec * nsPerSec > now) ↔ tooNewNs (gapSec * nsPerSec) m now := by
  unfold tooNewNs; omega

/-- what an `ok` answer of `modKey` says -/
theorem modKey_ok {plat : Platform} {gapSec now : Int} {fo : Option File} {K : ModKey}
    (h : modKey plat gapSec now fo = .ok K) :
    ∃ f, fo = some f ∧ keyT plat K = keyTime plat f.mtime ∧ f.mtime + gapSec * nsPerSec ≤ now ∧
      (plat = .unix → K.inode = f.inode) ∧ K.size = f.size ∧ K.mode = f.mode ∧
      ¬ (K.mtimeSec = 0 ∧ K.mtimeNsec = 0) := by
  cases fo with
  | none => cases plat <;> simp [modKey, modKeyUnix, modKeyOther] at h
  | some f =>
    refine ⟨f, rfl, ?_⟩
    cases plat
    · simp only [modKey, modKeyUnix] at h
      split at h
      · cases h
      · rename_i hz
        split at h
        · cases h
        · rename_i hn
          injection h with h
          subst h
          rw [unix_tooNew_iff] at hn
          refine ⟨?_, ?_, fun _ => rfl, rfl, rfl, hz⟩
          · simp only [keyT, keyTime]; exact sec_nsec f.mtime
          · unfold tooNewNs at hn; omega
    · simp only [modKey, modKeyOther] at h
      split at h
      · cases h
      · rename_i hz
        split at h
        · cases h
        · rename_i hn
          injection h with h
          subst h
          refine ⟨rfl, (by omega), (fun h => by cases h), rfl, rfl, ?_⟩
          intro hh
          exact hz (Or.inr hh.1)

/-- an `ok` key is never `ModKey{}` (this is what the zero-mtime rule buys the watcher) -/
theorem modKey_ok_ne_zero {plat : Platform} {gapSec now : Int} {fo : Option File} {K : ModKey}
    (h : modKey plat gapSec now fo = .ok K) : K ≠ ModKey.zero := by
  obtain ⟨_, _, _, _, _, _, _, hz⟩ := modKey_ok h
  intro hk
  subst hk
  exact hz ⟨rfl, rfl⟩

/-- two files with the same `ok` key agree on what the key keeps -/
theorem modKey_ok_same {plat : Platform} {g1 n1 g2 n2 : Int} {f1 f2 : Option File} {K : ModKey}
    (h1 : modKey plat g1 n1 f1 = .ok K) (h2 : modKey plat g2 n2 f2 = .ok K) :
    ∃ a b, f1 = some a ∧ f2 = some b ∧ keyTime plat a.mtime = keyTime plat b.mtime ∧
      (plat = .unix → a.inode = b.inode) ∧ a.size = b.size := by
  obtain ⟨a, ha, hta, _, hia, hsa, _, _⟩ := modKey_ok h1
  obtain ⟨b, hb, htb, _, hib, hsb, _, _⟩ := modKey_ok h2
  exact ⟨a, b, ha, hb, (by omega), (fun hu => by rw [← hia hu, ← hib hu]), (by omega)⟩

end EsbuildModel.FsCache
