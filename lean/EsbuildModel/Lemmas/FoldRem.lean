import EsbuildModel.Lemmas.FoldNum
/-! `math.Mod` (Go) against Number::remainder (ECMA-262 6.1.6.1.6), for every pair of dyadic values. -/
set_option linter.unusedSimpArgs false
namespace EsbuildModel.Fold
open EsbuildModel F64 EsbuildModel.Spec.JsArith

theorem mag_def (m : Nat) (e e0 : Int) : m * 2 ^ (e - e0).toNat = mag m e e0 := rfl

theorem signed_natAbs (n : Bool) (k : Nat) : (if n = true then -(k : Int) else (k : Int)).natAbs = k := by
  cases n <;> simp
theorem signed_neg (n : Bool) (k : Nat) (h : k ≠ 0) : decide ((if n = true then -(k : Int) else (k : Int)) < 0) = n := by
  cases n <;> simp <;> omega
theorem signed_ne_zero (n : Bool) (k : Nat) (h : k ≠ 0) : (if n = true then -(k : Int) else (k : Int)) ≠ 0 := by
  split <;> omega

/-- truncating remainder of signed magnitudes -/
theorem tmod_signed (n1 n2 : Bool) (a b : Nat) :
    (if n1 then -(a : Int) else (a : Int)) - (if n2 then -(b : Int) else (b : Int)) *
      Int.tdiv (if n1 then -(a : Int) else (a : Int)) (if n2 then -(b : Int) else (b : Int))
    = if n1 then -((a % b : Nat) : Int) else ((a % b : Nat) : Int) := by
  rw [← Int.tmod_def]
  cases n1 <;> cases n2 <;> simp [Int.neg_tmod, Int.tmod_neg, ← Int.ofNat_tmod]

theorem rem_core (nn : Bool) (mn : Nat) (en e0 : Int) (a b : Nat) (hb : b ≠ 0) (hA : mag mn en e0 = a) (he : e0 ≤ en) :
    same (if a < b then fin nn mn en else fin nn (a % b) e0)
      (if mn = 0 then fin nn mn en
       else if (if nn = true then -((a % b : Nat) : Int) else ((a % b : Nat) : Int)) = 0 then fin nn 0 e0
       else fin (decide ((if nn = true then -((a % b : Nat) : Int) else ((a % b : Nat) : Int)) < 0))
         (if nn = true then -((a % b : Nat) : Int) else ((a % b : Nat) : Int)).natAbs e0) := by
  by_cases hmn : mn = 0
  · have ha0 : a = 0 := by rw [← hA, mag_eq_zero]; exact hmn
    have : a < b := by omega
    simp [this, hmn, same_refl]
  · simp only [hmn, if_false]
    have ha : a ≠ 0 := by rw [← hA, Ne, mag_eq_zero]; exact hmn
    by_cases hlt : a < b
    · simp only [hlt, if_true, Nat.mod_eq_of_lt hlt, signed_ne_zero nn a ha, if_false, signed_neg nn a ha,
        signed_natAbs]
      simp only [same, true_and]
      have hmin : min en e0 = e0 := by omega
      rw [hmin, ← hA, mag]
      simp
    · simp only [hlt, if_false]
      by_cases hr0 : a % b = 0
      · simp [hr0, same]
      · simp only [signed_ne_zero nn _ hr0, if_false, signed_neg nn _ hr0, signed_natAbs]
        exact same_refl _

theorem rem_correct (x y : F64) : same (goMod x y) (remainder x y) := by
  cases x with
  | nan => cases y <;> simp [goMod, remainder, isNaN, isInf, same]
  | inf xn => cases y <;> simp [goMod, remainder, isNaN, isInf, same]
  | fin nn mn en =>
    cases y with
    | nan => simp [goMod, remainder, isNaN, isInf, same]
    | inf yn => simp [goMod, remainder, isNaN, isInf, ieeeEq, zero, same_refl]
    | fin nd md ed =>
      simp only [goMod, remainder, ieeeEq_fin_zero, isNaN, isInf, Bool.or_false]
      by_cases hmd : md = 0
      · simp [hmd, same]
      · simp only [hmd, decide_false, if_false, Bool.false_eq_true, mag_def, scaled_eq, tmod_signed]
        have hb : mag md ed (min en ed) ≠ 0 := by rw [Ne, mag_eq_zero]; exact hmd
        exact rem_core nn mn en (min en ed) _ _ hb rfl (by omega)

end EsbuildModel.Fold
