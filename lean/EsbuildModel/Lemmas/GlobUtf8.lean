import EsbuildModel.Lemmas.Glob
import EsbuildModel.Lemmas.Wtf8Round
/-
The byte level: the translator works on bytes, Go's regexp on code points. For a pattern that is the UTF-8 of scalar
values the two views commute (all bytes with a role are ASCII, UTF-8 never produces an ASCII byte inside a multi-byte
sequence), the regexp text is valid UTF-8 and decodes to the code-point level text.
-/
namespace EsbuildModel.Glob
open EsbuildModel.Spec.MiniRegex
open EsbuildModel.Spec.Glob (Tok tokOf)
open EsbuildModel.Spec.Unicode (utf8 IsScalar)

/-- the UTF-8 of a sequence of code points -/
def utf8s (rs : List Nat) : List Nat := rs.flatMap utf8

theorem utf8s_nil : utf8s [] = [] := rfl
theorem utf8s_cons (c : Nat) (rs : List Nat) : utf8s (c :: rs) = utf8 c ++ utf8s rs := rfl
theorem utf8s_append (a b : List Nat) : utf8s (a ++ b) = utf8s a ++ utf8s b := by simp [utf8s]

theorem utf8_ascii (c : Nat) (h : c < 128) : utf8 c = [c] := by
  unfold utf8; simp [show c ≤ 127 by omega]

theorem utf8s_ascii (l : List Nat) (h : ∀ c ∈ l, c < 128) : utf8s l = l := by
  induction l with
  | nil => rfl
  | cons c l ih =>
    rw [utf8s_cons, utf8_ascii c (h c (by simp)), ih (fun x hx => h x (List.mem_cons_of_mem _ hx))]
    rfl

/-- a code point outside ASCII is encoded by a first byte and more bytes, all ≥ 0x80 -/
theorem utf8_high (c : Nat) (h : 128 ≤ c) : ∃ b1 bs, utf8 c = b1 :: bs ∧ 128 ≤ b1 ∧ ∀ x ∈ bs, 128 ≤ x := by
  unfold utf8
  simp only [show ¬ c ≤ 127 by omega, if_false]
  split
  · exact ⟨_, _, rfl, by omega, by simp⟩
  · split
    · refine ⟨_, _, rfl, by omega, ?_⟩
      intro x hx
      simp only [List.mem_cons, List.not_mem_nil, or_false] at hx
      rcases hx with rfl | rfl <;> omega
    · refine ⟨_, _, rfl, by omega, ?_⟩
      intro x hx
      simp only [List.mem_cons, List.not_mem_nil, or_false] at hx
      rcases hx with rfl | rfl | rfl <;> omega

/-! ### Go's decoder on valid UTF-8 -/

theorem goRunes_nil : goRunes [] = [] := rfl

theorem goRunesAux_drop (k : Nat) (l : List Nat) : goRunesAux k l = goRunesAux 0 (l.drop k) := by
  induction k generalizing l with
  | zero => rfl
  | succ k ih =>
    cases l with
    | nil => rfl
    | cons a l => rw [List.drop_succ_cons, ← ih]; rfl

theorem goRunes_cons (s0 : Nat) (rest : List Nat) :
    goRunes (s0 :: rest) = Wtf8.goDecodeRune s0 rest :: goRunes (rest.drop ((Wtf8.goDecodeRune s0 rest).2 - 1)) := by
  unfold goRunes
  rw [← goRunesAux_drop]
  rfl

theorem goRunes_utf8s (rs : List Nat) (h : ∀ cp ∈ rs, IsScalar cp) :
    goRunes (utf8s rs) = rs.map (fun cp => (cp, (utf8 cp).length)) := by
  induction rs with
  | nil => exact goRunes_nil
  | cons cp rs ih =>
    obtain ⟨a, t, hat, hdec, hdrop⟩ := Wtf8.goDecode_enc cp (h cp (by simp)) (utf8s rs)
    rw [Wtf8.encA_eq_utf8] at hat hdec hdrop
    rw [utf8s_cons, hat, goRunes_cons, hdec]
    simp only [hdrop, List.map_cons]
    rw [ih (fun c hc => h c (List.mem_cons_of_mem _ hc))]

theorem runesOf_utf8s (rs : List Nat) (h : ∀ cp ∈ rs, IsScalar cp) : runesOf (utf8s rs) = rs := by
  unfold runesOf
  rw [goRunes_utf8s rs h, List.map_map]
  conv => rhs; rw [← List.map_id rs]
  rfl

theorem utf8_length_one (cp : Nat) (h : (utf8 cp).length = 1) : cp ≤ 127 := by
  unfold utf8 at h
  split at h
  · assumption
  · split at h
    · simp at h
    · split at h <;> simp at h

theorem validUTF8_utf8s (rs : List Nat) (h : ∀ cp ∈ rs, IsScalar cp) : validUTF8 (utf8s rs) = true := by
  unfold validUTF8
  rw [goRunes_utf8s rs h, List.all_eq_true]
  intro cw hcw
  rw [List.mem_map] at hcw
  obtain ⟨cp, _, rfl⟩ := hcw
  simp only [Bool.not_eq_true', Bool.and_eq_false_imp, beq_iff_eq, beq_eq_false_iff_ne, ne_eq]
  intro hcp hlen
  have := utf8_length_one cp hlen
  rw [hcp] at this
  simp [Wtf8.runeError] at this

/-! ### the translator on bytes and on code points -/

/-- the regexp text of spec tokens -/
def text (ts : List Tok) : List Nat := (ts.map ofSpecTok).flatMap tokText

theorem text_nil : text [] = [] := rfl
theorem text_cons (t : Tok) (ts : List Tok) : text (t :: ts) = tokText (ofSpecTok t) ++ text ts := rfl
theorem text_append (a b : List Tok) : text (a ++ b) = text a ++ text b := by simp [text]

theorem isMeta_high (c : Nat) (h : 128 ≤ c) : isMeta c = false := by
  rw [isMeta_false_iff]; omega

theorem text_lits_high (bs : List Nat) (h : ∀ c ∈ bs, 128 ≤ c) : text (bs.map Tok.lit) = bs := by
  induction bs with
  | nil => rfl
  | cons c bs ih =>
    rw [List.map_cons, text_cons, ih (fun x hx => h x (List.mem_cons_of_mem _ hx))]
    simp [ofSpecTok, tokText, isMeta_high c (h c (by simp))]

theorem lex_high_bytes (bs : List Nat) (h : ∀ c ∈ bs, 128 ≤ c) (rest : List Nat) :
    EsbuildModel.Spec.Glob.lex false 0 (bs ++ rest) = bs.map Tok.lit ++ EsbuildModel.Spec.Glob.lex false 0 rest := by
  induction bs with
  | nil => rfl
  | cons c bs ih =>
    have hc := h c (by simp)
    rw [List.cons_append, EsbuildModel.Spec.Glob.lex]
    simp only [show c ≠ 42 by omega, if_false, if_true, show c ≠ 47 by omega, decide_false]
    rw [ih (fun x hx => h x (List.mem_cons_of_mem _ hx))]
    simp [tokOf, show c ≠ 63 by omega]

theorem tokText_ascii_tokOf (c : Nat) (h : c < 128) : ∀ x ∈ tokText (ofSpecTok (tokOf c)), x < 128 := by
  intro x hx
  unfold tokOf at hx
  split at hx
  · simp [ofSpecTok, tokText] at hx; omega
  · simp only [ofSpecTok, tokText] at hx
    split at hx
    · simp at hx; omega
    · simp at hx; omega

theorem gsText_ascii : ∀ x ∈ gsText, x < 128 := by decide
theorem starText_ascii : ∀ x ∈ starText, x < 128 := by decide

theorem text_lex_utf8 (rs : List Nat) :
    ∀ b n, text (EsbuildModel.Spec.Glob.lex b n (utf8s rs)) = utf8s (text (EsbuildModel.Spec.Glob.lex b n rs)) := by
  induction rs with
  | nil =>
    intro b n
    rw [utf8s_nil]
    cases n with
    | zero => rw [EsbuildModel.Spec.Glob.lex]; rfl
    | succ n =>
      rw [EsbuildModel.Spec.Glob.lex]
      split
      · exact (utf8s_ascii _ (by simpa [text, ofSpecTok, tokText] using gsText_ascii)).symm
      · exact (utf8s_ascii _ (by simpa [text, ofSpecTok, tokText] using starText_ascii)).symm
  | cons cp rs ih =>
    intro b n
    by_cases hcp : cp < 128
    · rw [utf8s_cons, utf8_ascii cp hcp, List.singleton_append]
      rw [EsbuildModel.Spec.Glob.lex, EsbuildModel.Spec.Glob.lex.eq_def b n (cp :: rs)]
      simp only
      have htok := utf8s_ascii _ (tokText_ascii_tokOf cp hcp)
      split
      · exact ih _ _
      · split
        · rw [text_cons, text_cons, ih, utf8s_append, htok]
        · split
          · rw [text_cons, text_cons, ih, utf8s_append]
            congr 1
          · rw [text_cons, text_cons, text_cons, text_cons, ih, utf8s_append, utf8s_append, htok]
            congr 1
    · have hcp' : 128 ≤ cp := by omega
      obtain ⟨b1, bs, hu, hb1, hbs⟩ := utf8_high cp hcp'
      rw [utf8s_cons, hu, List.cons_append]
      rw [EsbuildModel.Spec.Glob.lex, EsbuildModel.Spec.Glob.lex.eq_def b n (cp :: rs)]
      simp only [show b1 ≠ 42 by omega, show cp ≠ 42 by omega, if_false, show b1 ≠ 47 by omega, show cp ≠ 47 by omega,
        decide_false, Bool.and_false, Bool.false_eq_true]
      have hlit1 : tokOf b1 = Tok.lit b1 := by simp [tokOf, show b1 ≠ 63 by omega]
      have hlitc : tokOf cp = Tok.lit cp := by simp [tokOf, show cp ≠ 63 by omega]
      have ht1 : tokText (ofSpecTok (Tok.lit b1)) = [b1] := by simp [ofSpecTok, tokText, isMeta_high b1 hb1]
      have htc : tokText (ofSpecTok (Tok.lit cp)) = [cp] := by simp [ofSpecTok, tokText, isMeta_high cp hcp']
      have hu' : utf8s [cp] = b1 :: bs := by rw [utf8s_cons, utf8s_nil, List.append_nil, hu]
      rw [lex_high_bytes bs hbs, hlit1, hlitc]
      split
      · rw [text_cons, text_cons, text_append, text_lits_high bs hbs, ih, ht1, htc, utf8s_append, hu']
        simp
      · rw [text_cons, text_cons, text_cons, text_cons, text_append, text_lits_high bs hbs, ih, ht1, htc, utf8s_append,
          utf8s_append, hu']
        have := utf8s_ascii _ (show ∀ x ∈ tokText (ofSpecTok Tok.star), x < 128 by
          simpa [ofSpecTok, tokText] using starText_ascii)
        rw [this]
        simp

theorem hasWild_utf8s (rs : List Nat) : hasWild (utf8s rs) = hasWild rs := by
  induction rs with
  | nil => rfl
  | cons cp rs ih =>
    have hcons : hasWild (cp :: rs) = ((cp == 42 || cp == 63) || hasWild rs) := by simp [hasWild]
    have happ : ∀ a b : List Nat, hasWild (a ++ b) = (hasWild a || hasWild b) := by
      intro a b; simp [hasWild]
    rw [utf8s_cons, happ, ih, hcons]
    congr 1
    by_cases hcp : cp < 128
    · rw [utf8_ascii cp hcp]; simp [hasWild]
    · obtain ⟨b1, bs, hu, hb1, hbs⟩ := utf8_high cp (by omega)
      rw [hu]
      have h1 : (cp == 42 || cp == 63) = false := by
        simp only [Bool.or_eq_false_iff, beq_eq_false_iff_ne, ne_eq]; omega
      rw [h1]
      simp only [hasWild, List.any_eq_false, Bool.or_eq_true, beq_iff_eq, not_or]
      intro x hx
      rcases List.mem_cons.mp hx with rfl | hx
      · omega
      · have := hbs x hx; omega

theorem lit_mem_lex (c : Nat) (p : List Nat) : ∀ b n, Tok.lit c ∈ EsbuildModel.Spec.Glob.lex b n p → c ∈ p := by
  induction p with
  | nil =>
    intro b n h
    cases n with
    | zero => rw [EsbuildModel.Spec.Glob.lex] at h; simp at h
    | succ n => rw [EsbuildModel.Spec.Glob.lex] at h; split at h <;> simp at h
  | cons x p ih =>
    intro b n h
    rw [EsbuildModel.Spec.Glob.lex] at h
    have htok : Tok.lit c = tokOf x → c = x := by
      intro ht; unfold tokOf at ht; split at ht
      · cases ht
      · injection ht
    split at h
    · exact List.mem_cons_of_mem _ (ih _ _ h)
    · split at h
      · rcases List.mem_cons.mp h with h | h
        · rw [htok h]; simp
        · exact List.mem_cons_of_mem _ (ih _ _ h)
      · split at h
        · rcases List.mem_cons.mp h with h | h
          · cases h
          · exact List.mem_cons_of_mem _ (ih _ _ h)
        · rcases List.mem_cons.mp h with h | h
          · cases h
          · rcases List.mem_cons.mp h with h | h
            · rw [htok h]; simp
            · exact List.mem_cons_of_mem _ (ih _ _ h)

theorem scalar_ascii (x : Nat) (h : x < 128) : IsScalar x := by unfold IsScalar; omega

/-- the code points of the regexp text are ASCII or come from the pattern -/
theorem text_scalar (ts : List Tok) (rs : List Nat) (h : ∀ cp ∈ rs, IsScalar cp) (hl : ∀ c, Tok.lit c ∈ ts → c ∈ rs) :
    ∀ x ∈ text ts, IsScalar x := by
  induction ts with
  | nil => intro x hx; simp [text] at hx
  | cons t ts ih =>
    intro x hx
    rw [text_cons, List.mem_append] at hx
    rcases hx with hx | hx
    · cases t with
      | lit c =>
        have hc := h c (hl c (by simp))
        simp only [ofSpecTok, tokText] at hx
        split at hx
        · simp only [List.mem_cons, List.not_mem_nil, or_false] at hx
          rcases hx with rfl | rfl
          · exact scalar_ascii _ (by omega)
          · exact hc
        · simp only [List.mem_singleton] at hx; rw [hx]; exact hc
      | one => simp [ofSpecTok, tokText] at hx; rw [hx]; exact scalar_ascii _ (by omega)
      | star => exact scalar_ascii _ (starText_ascii x (by simpa [ofSpecTok, tokText] using hx))
      | dirs => exact scalar_ascii _ (gsText_ascii x (by simpa [ofSpecTok, tokText] using hx))
      | deep => exact scalar_ascii _ (gsText_ascii x (by simpa [ofSpecTok, tokText] using hx))
    · exact ih (fun c hc => hl c (List.mem_cons_of_mem _ hc)) x hx

/-- the code-point level regexp text of a pattern -/
def regexText (rs : List Nat) : List Nat := [94] ++ (codeToks rs).flatMap tokText ++ [36]

/-- on the UTF-8 of a code-point pattern the translator writes the UTF-8 of the code-point level text -/
theorem globstar_utf8 (rs : List Nat) :
    globstarToEscapedRegexp (utf8s rs) = .ok (utf8s (regexText rs), hasWild rs) := by
  rw [globstar_eq, hasWild_utf8s]
  have h1 : (codeToks (utf8s rs)).flatMap tokText = utf8s ((codeToks rs).flatMap tokText) :=
    text_lex_utf8 rs true 0
  rw [h1]
  unfold regexText
  rw [utf8s_append, utf8s_append]
  rfl

/-- … which Go's regexp package accepts, and reads as the regexp of the tokens -/
theorem compile_utf8 (rs : List Nat) (h : ∀ cp ∈ rs, IsScalar cp) :
    compile (utf8s (regexText rs)) = .ok (reOf (codeToks rs)) := by
  have hs : ∀ x ∈ regexText rs, IsScalar x := by
    intro x hx
    unfold regexText at hx
    simp only [List.mem_append, List.mem_singleton] at hx
    rcases hx with (rfl | hx) | rfl
    · exact scalar_ascii _ (by omega)
    · exact text_scalar _ rs h (fun c hc => lit_mem_lex c rs true 0 hc) x hx
    · exact scalar_ascii _ (by omega)
  unfold compile
  rw [validUTF8_utf8s _ hs, runesOf_utf8s _ hs]
  simp only [if_true]
  unfold regexText
  rw [parse_tokens]

end EsbuildModel.Glob
