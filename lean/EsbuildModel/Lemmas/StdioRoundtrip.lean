import EsbuildModel.Lemmas.Stdio
/-!
`decodePacket ∘ encodePacket`: the decoder reads back exactly what the encoder wrote (mutual recursion over the
nested value tree; `induction` does not apply to nested inductives).
-/
namespace EsbuildModel.Stdio

theorem fuel_succ {n fuel : Nat} (h : n + 1 ≤ fuel) : ∃ f, fuel = f + 1 := ⟨fuel - 1, by omega⟩

mutual
theorem visit_encV : ∀ (v : Val) (fuel : Nat) (rest : Bytes), MapsSorted v → (encV v).length < 4294967296 →
    2 * (encV v).length ≤ fuel → visit fuel (encV v ++ rest) = .ok (wireV v) rest
  | .nil, fuel, rest, _, _, hf => by
    simp only [encV, List.length_cons, List.length_nil] at hf
    obtain ⟨f, rfl⟩ : ∃ f, fuel = f + 1 := ⟨fuel - 1, by omega⟩
    simp [encV, visit, wireV]
  | .bool b, fuel, rest, _, _, hf => by
    simp only [encV, List.length_cons, List.length_nil] at hf
    obtain ⟨f, rfl⟩ : ∃ f, fuel = f + 1 := ⟨fuel - 1, by omega⟩
    cases b <;> simp [encV, visit, wireV]
  | .int n, fuel, rest, _, _, hf => by
    simp only [encV, List.length_cons, u32le_length] at hf
    obtain ⟨f, rfl⟩ : ∃ f, fuel = f + 1 := ⟨fuel - 1, by omega⟩
    have hm : (n % 4294967296).toNat < 4294967296 := by omega
    simp only [encV, List.cons_append, visit, readUint32_u32le _ _ hm, wireV]
    congr 2
    omega
  | .str s, fuel, rest, _, hl, hf => by
    simp only [encV, List.length_cons, List.length_append, u32le_length] at hf hl
    obtain ⟨f, rfl⟩ : ∃ f, fuel = f + 1 := ⟨fuel - 1, by omega⟩
    have hs : s.length < 4294967296 := by omega
    simp only [encV, List.cons_append, List.append_assoc, visit, readLPS_u32le _ _ hs, wireV]
  | .bytes s, fuel, rest, _, hl, hf => by
    simp only [encV, List.length_cons, List.length_append, u32le_length] at hf hl
    obtain ⟨f, rfl⟩ : ∃ f, fuel = f + 1 := ⟨fuel - 1, by omega⟩
    have hs : s.length < 4294967296 := by omega
    simp only [encV, List.cons_append, List.append_assoc, visit, readLPS_u32le _ _ hs, wireV]
  | .arr xs, fuel, rest, hs, hl, hf => by
    simp only [encV, List.length_cons, List.length_append, u32le_length] at hf hl
    obtain ⟨f, rfl⟩ : ∃ f, fuel = f + 1 := ⟨fuel - 1, by omega⟩
    have hn : xs.length < 4294967296 := by have := length_le_encList xs; omega
    simp only [MapsSorted] at hs
    simp only [encV, List.cons_append, List.append_assoc, visit, readUint32_u32le _ _ hn, wireV]
    rw [visitArr_encList xs f rest hs (by omega) (by omega)]
  | .map kvs, fuel, rest, hs, hl, hf => by
    simp only [MapsSorted] at hs
    have hsort : sortKV (encPairs kvs) = encPairs kvs :=
      sortKV_of_sorted _ (keysSorted_congr kvs _ (encPairs_keys kvs) hs.1)
    simp only [encV, hsort, List.length_cons, List.length_append, u32le_length] at hf hl
    obtain ⟨f, rfl⟩ : ∃ f, fuel = f + 1 := ⟨fuel - 1, by omega⟩
    have hn : kvs.length < 4294967296 := by
      have := length_le_catKV (encPairs kvs); rw [encPairs_length] at this; omega
    simp only [encV, hsort, List.cons_append, List.append_assoc, visit, readUint32_u32le _ _ hn, wireV]
    rw [visitMap_encPairs kvs f rest hs.2 (by omega) (by omega)]
    simp only
    rw [buildMap_of_sorted _ (keysSorted_congr kvs _ (wireKVs_keys kvs) hs.1)]
theorem visitArr_encList : ∀ (xs : List Val) (fuel : Nat) (rest : Bytes), AllSorted xs →
    (encList xs).length < 4294967296 → 2 * (encList xs).length + 1 ≤ fuel →
    visitArr fuel xs.length (encList xs ++ rest) = .ok (wireList xs) rest
  | [], fuel, rest, _, _, _ => by
    cases fuel <;> simp [encList, visitArr, wireList]
  | x :: xs, fuel, rest, hs, hl, hf => by
    simp only [AllSorted] at hs
    simp only [encList, List.length_append] at hf hl
    have := encV_length_pos x
    obtain ⟨f, rfl⟩ : ∃ f, fuel = f + 1 := ⟨fuel - 1, by omega⟩
    simp only [encList, List.length_cons, List.append_assoc, visitArr]
    rw [visit_encV x f (encList xs ++ rest) hs.1 (by omega) (by omega)]
    simp only
    rw [visitArr_encList xs f rest hs.2 (by omega) (by omega)]
    simp only [wireList]
theorem visitMap_encPairs : ∀ (kvs : List (Bytes × Val)) (fuel : Nat) (rest : Bytes), AllSortedKV kvs →
    (catKV (encPairs kvs)).length < 4294967296 → 2 * (catKV (encPairs kvs)).length + 1 ≤ fuel →
    visitMap fuel kvs.length (catKV (encPairs kvs) ++ rest) = .ok (wireKVs kvs) rest
  | [], fuel, rest, _, _, _ => by
    cases fuel <;> simp [encPairs, catKV, visitMap, wireKVs]
  | (k, v) :: kvs, fuel, rest, hs, hl, hf => by
    simp only [AllSortedKV] at hs
    simp only [encPairs, catKV, List.length_append, u32le_length] at hf hl
    have := encV_length_pos v
    obtain ⟨f, rfl⟩ : ∃ f, fuel = f + 1 := ⟨fuel - 1, by omega⟩
    have hk : k.length < 4294967296 := by omega
    simp only [encPairs, catKV, List.length_cons, List.append_assoc, visitMap, readLPS_u32le _ _ hk]
    rw [visit_encV v f (catKV (encPairs kvs) ++ rest) hs.1 (by omega) (by omega)]
    simp only
    rw [visitMap_encPairs kvs f rest hs.2 (by omega) (by omega)]
    simp only [wireKVs]
end

theorem decodePacket_encBody (p : Packet) (hs : MapsSorted p.value) (hl : (encV p.value).length < 4294967296) :
    decodePacket (encBody p) = .ok ⟨wireV p.value, p.id % 2147483648, p.isRequest⟩ [] := by
  obtain ⟨v, id, isReq⟩ := p
  simp only at hs hl
  have hv := visit_encV v (2 * (encV v).length + 1) [] hs hl (by omega)
  rw [List.append_nil] at hv
  cases isReq with
  | true =>
    simp only [decodePacket, encBody, if_true, readUint32_u32le_mod, hv]
    have h1 : id * 2 % 4294967296 / 2 = id % 2147483648 := by omega
    have h2 : id * 2 % 4294967296 % 2 = 0 := by omega
    simp [h1, h2]
  | false =>
    simp only [decodePacket, encBody, Bool.false_eq_true, if_false, readUint32_u32le_mod, hv]
    have h1 : (id * 2 + 1) % 4294967296 / 2 = id % 2147483648 := by omega
    have h2 : (id * 2 + 1) % 4294967296 % 2 = 1 := by omega
    simp [h1, h2]

theorem readLPS_encodePacket (p : Packet) (rest : Bytes) (hl : (encBody p).length < 4294967296) :
    readLPS (encodePacket p ++ rest) = some (encBody p, rest) := by
  simp only [encodePacket, List.append_assoc]
  exact readLPS_u32le _ _ hl

theorem encBody_length (p : Packet) : (encBody p).length = 4 + (encV p.value).length := by
  simp [encBody]

end EsbuildModel.Stdio
