import EsbuildModel.Lemmas.LineOffsetLookup
import EsbuildModel.Lemmas.LineOffsetSpec
/-!
The lookup on the tables of a text, character by character: at a character boundary it yields the specified
position; strictly inside a character it yields the position of the character's end, except inside a multi-byte
line end (LS, PS), where the column index is out of range.
-/
namespace EsbuildModel.LineOffset
open EsbuildModel.Spec.Unicode EsbuildModel.Spec.TextPosition

theorem bytes_take_le (p : List Ch) (k : Nat) : bytes (p.take k) ≤ bytes p := by
  have : bytes p = bytes (p.take k) + bytes (p.drop k) := by rw [← bytes_append, List.take_append_drop]
  omega

theorem take_succ_getElem (p : List Ch) (k : Nat) (hk : k < p.length) : p.take (k + 1) = p.take k ++ [p[k]] := by
  rw [List.take_add_one, List.getElem?_eq_getElem hk]; rfl

theorem split_at (p : List Ch) (k : Nat) (hk : k < p.length) : p = p.take k ++ p[k] :: p.drop (k + 1) := by
  rw [← List.drop_eq_getElem_cons hk, List.take_append_drop]

theorem bytes_take_succ_le (p : List Ch) (k : Nat) (hk : k < p.length) : bytes (p.take k) + p[k].width ≤ bytes p := by
  have := bytes_take_le p (k + 1)
  rw [take_succ_getElem p k hk, bytes_append, bytes_cons, bytes_nil] at this
  omega

theorem first_line_boundary (S : Nat) (p : List Ch) (na : Bool) (hv : Valid p) (k : Nat) :
    colOf (lineTableAt S 0 p na) (bytes (p.take k)) = some (unitsOf (p.take k)) := by
  rw [colOf_lineTable S p na hv _ (bytes_take_le p k)]
  congr 1
  have hv' : Valid (p.take k) := by
    have : Valid (p.take k ++ p.drop k) := by rw [List.take_append_drop]; exact hv
    exact this.append_left
  have := Ucol_boundary (p.take k) (p.drop k) hv'
  rw [List.take_append_drop] at this
  exact this

theorem first_line_interior (S : Nat) (p : List Ch) (na : Bool) (hv : Valid p) (k : Nat) (hk : k < p.length)
    (d : Nat) (hd : 0 < d) (hdw : d < p[k].width) :
    colOf (lineTableAt S 0 p na) (bytes (p.take k) + d) = some (unitsOf (p.take (k + 1))) := by
  have hle := bytes_take_succ_le p k hk
  rw [colOf_lineTable S p na hv _ (by omega)]
  congr 1
  have hv' : Valid (p.take k) := by
    have : Valid (p.take k ++ p.drop k) := by rw [List.take_append_drop]; exact hv
    exact this.append_left
  have := Ucol_after (p.take k) p[k] (p.drop (k + 1)) hv' d hd (by omega)
  rw [← split_at p k hk] at this
  rw [this, take_succ_getElem p k hk, unitsOf_append, unitsOf_cons, unitsOf_nil]
  omega

/-- a character that does not end a line is neither LS nor PS -/
theorem not_lsps_of_noEnd (c : Ch) (rest : List Ch) (h : ends c rest = false) : ¬ (c.cp = 0x2028 ∨ c.cp = 0x2029) := by
  intro hc
  unfold ends endsLine at h
  rcases hc with hc | hc <;> simp [hc] at h

theorem noEnd_getElem (p tail : List Ch) (h : NoEnd p tail) (k : Nat) (hk : k < p.length) :
    ¬ (p[k].cp = 0x2028 ∨ p[k].cp = 0x2029) := by
  induction p generalizing k with
  | nil => simp at hk
  | cons c r ih =>
    obtain ⟨he, hr⟩ := h
    cases k with
    | zero => exact not_lsps_of_noEnd c _ he
    | succ k => simpa using ih hr k (by simpa using hk)

/-- a line end that occupies more than one byte is LS or PS -/
theorem lsps_of_wide_end (t : Ch) (rest : List Ch) (ht : ends t rest = true) (hv : 1 ≤ t.width ∧ (t.cp ≤ 0x7F → t.width = 1))
    (hw : 1 < t.width) : (t.cp = 0x2028 ∨ t.cp = 0x2029) ∧ decide (t.cp > 0x7F) = true := by
  have hna : ¬ t.cp ≤ 0x7F := fun h => by have := hv.2 h; omega
  unfold ends endsLine at ht
  simp only [Bool.or_eq_true, beq_iff_eq, Bool.and_eq_true] at ht
  refine ⟨?_, by simp; omega⟩
  rcases ht with ((h | h) | h) | h
  · omega
  · exact Or.inl h
  · exact Or.inr h
  · omega

/-- the lookup at the boundary in front of character `k` -/
theorem lookup_boundary {S : Nat} {chs : List Ch} {ts : List Table} (h : Lines S chs ts) (hv : Valid chs) :
    ∀ k, k ≤ chs.length → lookupN ts (S + bytes (chs.take k)) = some ((pos chs k).line, (pos chs k).col) := by
  induction h with
  | last S p hp =>
    intro k hk
    have hpos := pos_first_line p [] hp k hk
    rw [List.append_nil] at hpos
    rw [lookupN_cons_lt _ [] _ (by rw [lineTableAt_start]; omega) (by simp), lineTableAt_start]
    have e : S + bytes (p.take k) - S = bytes (p.take k) := by omega
    rw [e, first_line_boundary S p false hv k, hpos]
    rfl
  | more S p t rest ts hp ht hl ih =>
    intro k hk
    have hvp := hv.append_left
    have hvt := hv.append_right.head
    have hvr := hv.append_right.tail
    by_cases hkp : k ≤ p.length
    · rw [List.take_append_of_le_length hkp]
      have hb := bytes_take_le p k
      rw [lookupN_cons_lt _ ts _ (by rw [lineTableAt_start]; omega)
        (by intro x hx; have := hl.all_ge x hx; omega), lineTableAt_start]
      have e : S + bytes (p.take k) - S = bytes (p.take k) := by omega
      rw [e, first_line_boundary S p _ hvp k, pos_first_line p (t :: rest) hp k hkp]
      rfl
    · have hk1 : p.length + 1 ≤ k := by omega
      obtain ⟨T1, ts1, rfl, hT1⟩ := hl.head_start
      have etake : (p ++ t :: rest).take k = p ++ t :: rest.take (k - (p.length + 1)) := by
        rw [List.take_append, List.take_of_length_le (by omega)]
        obtain ⟨j, hj⟩ : ∃ j, k - p.length = j + 1 := ⟨k - p.length - 1, by omega⟩
        rw [hj, List.take_succ_cons]
        have : k - (p.length + 1) = j := by omega
        rw [this]
      rw [etake, bytes_append, bytes_cons]
      have en : S + (bytes p + (t.width + bytes (rest.take (k - (p.length + 1)))))
          = S + bytes p + t.width + bytes (rest.take (k - (p.length + 1))) := by omega
      rw [en]
      rw [lookupN_cons_ge _ _ _ (by rw [lineTableAt_start]; omega)
        (by rw [List.countP_cons_of_pos (by simp [hT1])]; omega)]
      rw [ih hvr (k - (p.length + 1)) (by simp at hk; omega), pos_later p t rest hp ht k hk1]
      rfl

/-- the lookup strictly inside character `k` -/
theorem lookup_interior {S : Nat} {chs : List Ch} {ts : List Table} (h : Lines S chs ts) (hv : Valid chs) :
    ∀ k (hk : k < chs.length) (d : Nat), 0 < d → d < chs[k].width →
      lookupN ts (S + bytes (chs.take k) + d) =
        if chs[k].cp = 0x2028 ∨ chs[k].cp = 0x2029 then none
        else some ((pos chs (k + 1)).line, (pos chs (k + 1)).col) := by
  induction h with
  | last S p hp =>
    intro k hk d hd hdw
    have hpos := pos_first_line p [] hp (k + 1) hk
    rw [List.append_nil] at hpos
    rw [if_neg (noEnd_getElem p [] hp k hk)]
    rw [lookupN_cons_lt _ [] _ (by rw [lineTableAt_start]; omega) (by simp), lineTableAt_start]
    have e : S + bytes (p.take k) + d - S = bytes (p.take k) + d := by omega
    rw [e, first_line_interior S p false hv k hk d hd hdw, hpos]
    rfl
  | more S p t rest ts hp ht hl ih =>
    intro k hk d hd hdw
    have hvp := hv.append_left
    have hvt := hv.append_right.head
    have hvr := hv.append_right.tail
    by_cases hkp : k < p.length
    · -- a character of the line
      have eget : (p ++ t :: rest)[k] = p[k] := List.getElem_append_left hkp
      rw [eget] at hdw ⊢
      rw [if_neg (noEnd_getElem p _ hp k hkp)]
      rw [List.take_append_of_le_length (by omega)]
      have hb := bytes_take_succ_le p k hkp
      rw [lookupN_cons_lt _ ts _ (by rw [lineTableAt_start]; omega)
        (by intro x hx; have := hl.all_ge x hx; omega), lineTableAt_start]
      have e : S + bytes (p.take k) + d - S = bytes (p.take k) + d := by omega
      rw [e, first_line_interior S p _ hvp k hkp d hd hdw, pos_first_line p (t :: rest) hp (k + 1) hkp]
      rfl
    · by_cases hke : k = p.length
      · -- the line end itself: LS or PS
        subst hke
        have eget : (p ++ t :: rest)[p.length] = t := by simp
        rw [eget] at hdw ⊢
        obtain ⟨hls, hna⟩ := lsps_of_wide_end t rest ht hvt (by omega)
        rw [if_pos hls]
        rw [List.take_append_of_le_length (Nat.le_refl _), List.take_length]
        rw [lookupN_cons_lt _ ts _ (by rw [lineTableAt_start]; omega)
          (by intro x hx; have := hl.all_ge x hx; omega), lineTableAt_start, hna]
        have e : S + bytes p + d - S = bytes p + d := by omega
        rw [e, colOf_lineTable_beyond S p hvp _ (by omega)]
        rfl
      · -- a character of the rest
        have hk1 : p.length + 1 ≤ k := by omega
        obtain ⟨T1, ts1, rfl, hT1⟩ := hl.head_start
        have hk' : k - (p.length + 1) < rest.length := by simp at hk; omega
        have eget : (p ++ t :: rest)[k] = rest[k - (p.length + 1)] := by
          rw [List.getElem_append_right (by omega)]
          obtain ⟨j, hj⟩ : ∃ j, k - p.length = j + 1 := ⟨k - p.length - 1, by omega⟩
          simp only [hj, List.getElem_cons_succ]
          congr 1; omega
        rw [eget] at hdw ⊢
        have etake : (p ++ t :: rest).take k = p ++ t :: rest.take (k - (p.length + 1)) := by
          rw [List.take_append, List.take_of_length_le (by omega)]
          obtain ⟨j, hj⟩ : ∃ j, k - p.length = j + 1 := ⟨k - p.length - 1, by omega⟩
          rw [hj, List.take_succ_cons]
          have : k - (p.length + 1) = j := by omega
          rw [this]
        rw [etake, bytes_append, bytes_cons]
        have en : S + (bytes p + (t.width + bytes (rest.take (k - (p.length + 1))))) + d
            = S + bytes p + t.width + bytes (rest.take (k - (p.length + 1))) + d := by omega
        rw [en]
        rw [lookupN_cons_ge _ _ _ (by rw [lineTableAt_start]; omega)
          (by rw [List.countP_cons_of_pos (by simp [hT1]; omega)]; omega)]
        rw [ih hvr (k - (p.length + 1)) hk' d hd hdw]
        have ek : k + 1 - (p.length + 1) = k - (p.length + 1) + 1 := by omega
        rw [pos_later p t rest hp ht (k + 1) (by omega), ek]
        split <;> rfl

end EsbuildModel.LineOffset
