import EsbuildModel.Impl.CssBox
import EsbuildModel.Lemmas.CssBoxLast
/-
Vocabulary that ties the model (`Impl/CssBox`) to the specification (`Spec/BoxCascade`) and the token-level lemmas:
what the browser reads of a token (`Token.core`), how a model declaration looks to the cascade of one family
(`view`), which tokens are "universally supported" (`UnitSafe`, `Accepted`), the CSS facts assumed of the browser
(`CssFacts`), and the 1–4 value compaction/expansion lemmas.
-/
namespace EsbuildModel.CssBox
open EsbuildModel.Spec.BoxCascade

/-- what a browser reads of a token: its kind and text (not esbuild's whitespace flags / unit-offset cache) -/
abbrev Tok := Kind × List Nat
def Token.core (t : Token) : Tok := (t.kind, t.text)

def propOf (F : Family) : Key → Option BoxProp
  | .box f p => if f = F then some p else none
  | .other => none

/-- a model declaration as the cascade of family `F` sees it -/
def view (F : Family) (d : CssBox.Decl) : Spec.BoxCascade.Decl Tok :=
  { prop := propOf F d.key, value := d.value.map Token.core, important := d.important }

/-- the property names the tracker of family `F` looks at: the shorthand and the four physical longhands -/
def Tracked (F : Family) (k : Key) : Prop := k = .box F .shorthand ∨ ∃ s, k = .box F (.side s)

def famAllowAuto : Family → Bool
  | .padding => false
  | _ => true

def famName : Family → List Nat
  | .margin => b "margin"
  | .padding => b "padding"
  | .inset => b "inset"

/-- `0`, a percentage, or a dimension in cm/em/in/mm/pc/pt/px (esbuild's "safe" units) -/
def UnitSafe (t : Token) : Prop :=
  (t.kind = .number ∧ t.text = b "0") ∨ t.kind = .percentage ∨ (t.kind = .dimension ∧ t.unitIsSafeLength = true)

/-- component values esbuild merges when all units are safe: safe numerics and (margin, inset) `auto` -/
def Accepted (F : Family) (t : Token) : Prop :=
  (t.kind.isNumeric = true ∧ UnitSafe t) ∨ (famAllowAuto F = true ∧ t.kind = .ident ∧ lowerAscii t.text = b "auto")

/-- every component value the tracker looks at: a numeric token, or (margin, inset) `auto` in any case -/
def TrackerAccepts (F : Family) (t : Token) : Prop :=
  t.kind.isNumeric = true ∨ (famAllowAuto F = true ∧ t.kind = .ident ∧ lowerAscii t.text = b "auto")

/-- a dimension whose unit is NOT one of esbuild's safe units, with exactly this unit text -/
def UDim (u : List Nat) (t : Token) : Prop := t.kind = .dimension ∧ t.unitIsSafeLength = false ∧ t.dimUnit = u

/-- the user agent accepts this single component as the value of a physical longhand of the family -/
def okT {V : Type} (B : Browser Tok V) (t : Token) : Bool := B.ok (.side .top) [t.core]

/-- CSS facts assumed of the user agent for family `F` -/
structure CssFacts {V : Type} (B : Browser Tok V) (F : Family) : Prop where
  /-- numbers, percentages, dimensions and `auto` contain no substitution function -/
  plain : ∀ t, TrackerAccepts F t → B.plain t.core = true
  /-- "for zero lengths the unit identifier is optional" (CSS Values 4 §6.1) -/
  zero : ∀ t : Token, t.kind = .dimension → t.dimValue = b "0" → t.unitIsSafeLength = true →
    B.den t.core = B.den (.number, b "0")
  /-- the four physical longhands of a family have the same grammar -/
  ok_side : ∀ s t, TrackerAccepts F t → B.ok (.side s) [t.core] = okT B t
  /-- the shorthand is `<longhand>{1,4}` -/
  ok_shorthand : ∀ ts : List Token, 1 ≤ ts.length → ts.length ≤ 4 → (∀ t ∈ ts, TrackerAccepts F t) →
    B.ok .shorthand (ts.map Token.core) = ts.all (okT B)
  /-- `0`, percentages, lengths in cm/em/in/mm/pc/pt/px and `auto` are accepted (FALSE for negative paddings: see the report) -/
  ok_safe : ∀ t, Accepted F t → okT B t = true
  /-- whether a length in another unit is accepted depends on the unit only -/
  ok_unit : ∀ t t' : Token, t.kind = .dimension → t'.kind = .dimension → t.unitIsSafeLength = false →
    t'.unitIsSafeLength = false → t.dimUnit = t'.dimUnit → okT B t = okT B t'

theorem Accepted.tracker {F : Family} {t : Token} (h : Accepted F t) : TrackerAccepts F t := by
  rcases h with ⟨h, _⟩ | h
  · exact Or.inl h
  · exact Or.inr h

theorem UnitSafe_iff_status (t : Token) (hn : t.kind.isNumeric = true) :
    UnitSafe t ↔ (({} : Safety).includeUnitOf t) = {} := by
  unfold UnitSafe Safety.includeUnitOf
  cases hk : t.kind <;> simp_all [Kind.isNumeric]

theorem turn_fst_cases (t : Token) :
    (t.turn.1 = t ∧ t.turn.2 = false) ∨
    (t.kind = .dimension ∧ t.dimValue = b "0" ∧ t.turn.1 = { t with kind := .number, text := b "0" } ∧ t.turn.2 = true) := by
  unfold Token.turn
  by_cases h : t.kind = .dimension ∧ t.dimValue = b "0"
  · right; simp [h]
  · left; simp [h]

theorem turn_kind_ne_eof (t : Token) (h : t.kind ≠ .eof) : t.turn.1.kind ≠ .eof := by
  rcases turn_fst_cases t with ⟨h1, _⟩ | ⟨_, _, h1, _⟩ <;> rw [h1] <;> simp [h]

theorem Accepted_turn {F : Family} (t : Token) (h : Accepted F t) : Accepted F t.turn.1 := by
  rcases turn_fst_cases t with ⟨h1, _⟩ | ⟨_, _, h1, _⟩
  · rw [h1]; exact h
  · rw [h1]; left; simp [Kind.isNumeric, UnitSafe]

theorem Accepted_kind_ne_eof {F : Family} (t : Token) (h : Accepted F t) : t.kind ≠ .eof := by
  rcases h with ⟨h, _⟩ | ⟨_, h, _⟩
  · intro h'; simp [h', Kind.isNumeric] at h
  · simp [h]

theorem den_turn {V : Type} {B : Browser Tok V} {F : Family} (hB : CssFacts B F) (t : Token) (h : Accepted F t) :
    B.den t.turn.1.core = B.den t.core := by
  rcases turn_fst_cases t with ⟨h1, _⟩ | ⟨hk, hv, h1, _⟩
  · rw [h1]
  · rw [h1]
    have hs : t.unitIsSafeLength = true := by
      rcases h with ⟨_, hu⟩ | ⟨_, hi, _⟩
      · rcases hu with ⟨h', _⟩ | h' | ⟨_, h'⟩
        · simp [hk] at h'
        · simp [hk] at h'
        · exact h'
      · simp [hk] at hi
    exact (hB.zero t hk hv hs).symm

/-! ### 1–4 value forms -/

theorem eqIW_iff (a c : Token) : a.eqIW c = true ↔ a.core = c.core := by
  simp [Token.eqIW, Token.core, Prod.ext_iff]

theorem setWs_map_core (mw : Bool) (n i : Nat) (l : List Token) : (setWs mw n i l).map Token.core = l.map Token.core := by
  induction l generalizing i with
  | nil => rfl
  | cons t r ih => simp [setWs, ih, Token.core]

theorem setWs_length (mw : Bool) (n i : Nat) (l : List Token) : (setWs mw n i l).length = l.length := by
  induction l generalizing i with
  | nil => rfl
  | cons t r ih => simp [setWs, ih]

theorem setWs_mem_core (mw : Bool) (n i : Nat) (l : List Token) (t : Token) (h : t ∈ setWs mw n i l) :
    ∃ t' ∈ l, t'.kind = t.kind ∧ t'.text = t.text ∧ t'.unitOffset = t.unitOffset := by
  induction l generalizing i with
  | nil => simp [setWs] at h
  | cons x r ih =>
    simp only [setWs, List.mem_cons] at h
    rcases h with rfl | h
    · exact ⟨x, by simp, rfl, rfl, rfl⟩
    · obtain ⟨t', ht', h'⟩ := ih _ h
      exact ⟨t', by simp [ht'], h'⟩

/-- the raw (pre-whitespace) token list chosen by `compactTokenQuad` -/
def compactRaw (a c d e : Token) : List Token :=
  if e.eqIW c then
    if d.eqIW a then
      if c.eqIW a then [a] else [a, c]
    else [a, c, d]
  else [a, c, d, e]

theorem compactTokenQuad_eq (a c d e : Token) (mw : Bool) :
    compactTokenQuad a c d e mw = setWs mw (compactRaw a c d e).length 0 (compactRaw a c d e) := rfl

/-- `expand (compress s) = s`: the merged value expands (CSS rule) to the four tracked sides -/
theorem quad_compactTokenQuad (a c d e : Token) (mw : Bool) :
    quad ((compactTokenQuad a c d e mw).map Token.core) = some (a.core, c.core, d.core, e.core) := by
  rw [compactTokenQuad_eq, setWs_map_core]
  unfold compactRaw
  by_cases h1 : e.eqIW c = true
  · by_cases h2 : d.eqIW a = true
    · by_cases h3 : c.eqIW a = true
      · simp [h1, h2, h3, quad, (eqIW_iff _ _).mp h1, (eqIW_iff _ _).mp h2, (eqIW_iff _ _).mp h3]
      · simp [h1, h2, h3, quad, (eqIW_iff _ _).mp h1, (eqIW_iff _ _).mp h2]
    · simp [h1, h2, quad, (eqIW_iff _ _).mp h1]
  · simp [h1, quad]

theorem compactRaw_length (a c d e : Token) : 1 ≤ (compactRaw a c d e).length ∧ (compactRaw a c d e).length ≤ 4 := by
  unfold compactRaw; repeat' split
  all_goals simp

theorem compactRaw_mem (a c d e t : Token) (h : t ∈ compactRaw a c d e) : t = a ∨ t = c ∨ t = d ∨ t = e := by
  have hsub : ∀ x ∈ compactRaw a c d e, x ∈ [a, c, d, e] := by
    intro x hx
    unfold compactRaw at hx
    repeat' split at hx
    all_goals grind
  simpa using hsub t h

/-- the shortest form: no value list that expands to the same four sides is shorter -/
theorem compactTokenQuad_shortest (a c d e : Token) (mw : Bool) (ts : List Tok)
    (h : quad ts = some (a.core, c.core, d.core, e.core)) : (compactTokenQuad a c d e mw).length ≤ ts.length := by
  rw [compactTokenQuad_eq, setWs_length]
  unfold compactRaw
  match ts, h with
  | [], h => simp [quad] at h
  | _ :: _ :: _ :: _ :: _ :: _, h => simp [quad] at h
  | [x], h =>
    simp only [quad, Option.some.injEq, Prod.mk.injEq] at h
    obtain ⟨rfl, h2, h3, h4⟩ := h
    have e1 : e.eqIW c = true := (eqIW_iff _ _).mpr (by rw [← h4, ← h2])
    have e2 : d.eqIW a = true := (eqIW_iff _ _).mpr (by rw [← h3])
    have e3 : c.eqIW a = true := (eqIW_iff _ _).mpr (by rw [← h2])
    simp [e1, e2, e3]
  | [x, y], h =>
    simp only [quad, Option.some.injEq, Prod.mk.injEq] at h
    obtain ⟨rfl, rfl, h3, h4⟩ := h
    have e1 : e.eqIW c = true := (eqIW_iff _ _).mpr h4.symm
    have e2 : d.eqIW a = true := (eqIW_iff _ _).mpr h3.symm
    simp only [e1, e2, if_true]
    split <;> simp
  | [x, y, z], h =>
    simp only [quad, Option.some.injEq, Prod.mk.injEq] at h
    obtain ⟨rfl, rfl, rfl, h4⟩ := h
    have e1 : e.eqIW c = true := (eqIW_iff _ _).mpr h4.symm
    simp only [e1, if_true]
    repeat' split
    all_goals simp
  | [x, y, z, w], h =>
    repeat' split
    all_goals simp

end EsbuildModel.CssBox
