import EsbuildModel.Lemmas.CssBoxEff
/-
No index of `processDeclarations` is ever out of range (so Go cannot panic there), for every declaration list and
both option flags, including the `inset` lowering path.
-/
namespace EsbuildModel.CssBox
open EsbuildModel.Spec.BoxCascade

theorem St.get_put (st : St) (f f' : Family) (t : Tracker) (rs : RS) :
    (st.put f t rs).get f' = if f' = f then t else st.get f' := by
  cases f <;> cases f' <;> rfl

@[simp] theorem St.rs_put (st : St) (f : Family) (t : Tracker) (rs : RS) : (st.put f t rs).rs = rs := by
  cases f <;> rfl

@[simp] theorem pushRule_get (st : St) (d : CssBox.Decl) (f : Family) : (pushRule st d).get f = st.get f := by
  cases f <;> rfl

@[simp] theorem pushRule_rules (st : St) (d : CssBox.Decl) : (pushRule st d).rs.rules = st.rs.rules ++ [some d] := rfl
@[simp] theorem pushRule_panic (st : St) (d : CssBox.Decl) : (pushRule st d).rs.panic = st.rs.panic := rfl

/-- every tracked index is in range and nothing has panicked -/
def Bound (st : St) : Prop :=
  st.rs.panic = false ∧ ∀ f s, ((st.get f).sides.get s).present = true → ((st.get f).sides.get s).ruleIndex < st.rs.rules.length

theorem RS.eta (r : RS) (h : r.panic = false) : r = { rules := r.rules, panic := false } := by
  cases r; simp_all

/-- frame facts of `stepSide` after `pushRule` -/
theorem stepSide_eff (o : Opts) (st : St) (hb : Bound st) (f : Family) (d : CssBox.Decl) (s : Side) :
    Eff (st.get f) d st.rs.rules.length (st.rs.rules ++ [some d])
      ((stepSide o (pushRule st d) f d s).get f) (stepSide o (pushRule st d) f d s).rs := by
  unfold stepSide
  simp only [St.get_put, St.rs_put, if_true, pushRule_get]
  apply Eff.mangleSide (by simp) (by simp)
  · exact RS.eta _ (by simpa using hb.1)
  · intro s' hs'; have := hb.2 f s' hs'; simp; omega

theorem stepSides_eff (o : Opts) (st : St) (hb : Bound st) (f : Family) (d : CssBox.Decl) :
    Eff (st.get f) d st.rs.rules.length (st.rs.rules ++ [some d])
      ((stepSides o (pushRule st d) f d).get f) (stepSides o (pushRule st d) f d).rs := by
  unfold stepSides
  simp only [St.get_put, St.rs_put, if_true, pushRule_get]
  apply Eff.mangleSides (by simp) (by simp)
  · exact RS.eta _ (by simpa using hb.1)
  · intro s' hs'; have := hb.2 f s' hs'; simp; omega

theorem stepSide_get_ne (o : Opts) (st : St) (f f' : Family) (d : CssBox.Decl) (s : Side) (h : f' ≠ f) :
    (stepSide o st f d s).get f' = st.get f' := by
  unfold stepSide; simp [St.get_put, h]

theorem stepSides_get_ne (o : Opts) (st : St) (f f' : Family) (d : CssBox.Decl) (h : f' ≠ f) :
    (stepSides o st f d).get f' = st.get f' := by
  unfold stepSides; simp [St.get_put, h]

theorem Bound_of_eff {st st' : St} {f : Family} {d : CssBox.Decl} (hb : Bound st)
    (he : Eff (st.get f) d st.rs.rules.length (st.rs.rules ++ [some d]) (st'.get f) st'.rs)
    (hne : ∀ f', f' ≠ f → st'.get f' = st.get f') : Bound st' ∧ st'.rs.rules.length = st.rs.rules.length + 1 := by
  have hlen : st'.rs.rules.length = st.rs.rules.length + 1 := by rw [he.len]; simp
  refine ⟨⟨he.nopanic, ?_⟩, hlen⟩
  intro f' s' hs'
  by_cases hf : f' = f
  · subst hf
    rcases he.sides s' hs' with h1 | ⟨s0, hs0, h1⟩
    · rw [h1]; omega
    · rw [← h1]; have := hb.2 _ s0 hs0; omega
  · rw [hne f' hf] at hs' ⊢; have := hb.2 f' s' hs'; omega

theorem Bound_stepSide (o : Opts) (st : St) (hb : Bound st) (f : Family) (d : CssBox.Decl) (s : Side) :
    Bound (stepSide o (pushRule st d) f d s) ∧
      (stepSide o (pushRule st d) f d s).rs.rules.length = st.rs.rules.length + 1 :=
  Bound_of_eff hb (stepSide_eff o st hb f d s) (fun f' h => by rw [stepSide_get_ne _ _ _ _ _ _ h]; simp)

theorem Bound_stepSides (o : Opts) (st : St) (hb : Bound st) (f : Family) (d : CssBox.Decl) :
    Bound (stepSides o (pushRule st d) f d) ∧
      (stepSides o (pushRule st d) f d).rs.rules.length = st.rs.rules.length + 1 :=
  Bound_of_eff hb (stepSides_eff o st hb f d) (fun f' h => by rw [stepSides_get_ne _ _ _ _ _ h]; simp)

theorem Bound_pushRule (st : St) (hb : Bound st) (d : CssBox.Decl) : Bound (pushRule st d) := by
  refine ⟨by simpa using hb.1, ?_⟩
  intro f s hs
  simp only [pushRule_get] at hs ⊢
  have := hb.2 f s hs
  simp; omega

theorem dropLast_pushRule (st : St) (d : CssBox.Decl) :
    ({ (pushRule st d) with rs := { (pushRule st d).rs with rules := (pushRule st d).rs.rules.dropLast } } : St) = st := by
  cases st with | mk rs m p i => cases rs; simp [pushRule]

theorem Bound_step (o : Opts) (st : St) (hb : Bound st) (d : CssBox.Decl) : Bound (step o st d) := by
  unfold step
  simp only
  split
  · split
    · split
      · rename_i decls hl
        rw [dropLast_pushRule]
        have key : ∀ (l : List (Side × CssBox.Decl)) (st : St), Bound st →
            Bound (l.foldl (fun st sd => stepSide o (pushRule st sd.2) .inset sd.2 sd.1) st) := by
          intro l
          induction l with
          | nil => intro st h; exact h
          | cons x r ih => intro st h; exact ih _ (Bound_stepSide o st h _ _ _).1
        exact key _ _ hb
      · exact (Bound_stepSides o st hb _ d).1
    · exact (Bound_stepSides o st hb _ d).1
  · exact (Bound_stepSide o st hb _ d _).1
  · exact Bound_pushRule st hb d

theorem Bound_init (o : Opts) : Bound (initSt o) := by
  refine ⟨rfl, ?_⟩
  intro f s hs
  cases f <;> cases s <;> simp [initSt, St.get, Sides.get, BoxSide.present] at hs

theorem Bound_foldl (o : Opts) (ds : List CssBox.Decl) (st : St) (hb : Bound st) : Bound (ds.foldl (step o) st) := by
  induction ds generalizing st with
  | nil => exact hb
  | cons d r ih => exact ih _ (Bound_step o st hb d)

/-- Go never indexes `rewrittenRules` out of range in the modelled code -/
theorem processDeclarations_isSome (o : Opts) (ds : List CssBox.Decl) : (processDeclarations o ds).isSome = true := by
  unfold processDeclarations
  have := (Bound_foldl o ds _ (Bound_init o)).1
  simp [this]

end EsbuildModel.CssBox
