import EsbuildModel.Impl.LineOffset
import EsbuildModel.Spec.TextPosition
import EsbuildModel.Lemmas.Wtf8Round
/-!
Go's `range` decoding (`Wtf8.goDecodeRune`) is the decoding of `Spec/TextPosition.lean`: the scalar value whose
Table 3-6 encoding is a prefix of the input, else U+FFFD for one byte.
-/
namespace EsbuildModel.LineOffset
open EsbuildModel.Spec.Unicode EsbuildModel.Spec.TextPosition
open EsbuildModel.Wtf8 (goDecodeRune)

/-- the lead byte of an encoding determines its length -/
theorem utf8_head_class (cp : Nat) (h : cp ≤ 0x10FFFF) (b : Nat) (t : List Nat) (e : utf8 cp = b :: t) :
    (b < 0x80 ∧ t.length = 0) ∨ (0xC0 ≤ b ∧ b < 0xE0 ∧ t.length = 1) ∨ (0xE0 ≤ b ∧ b < 0xF0 ∧ t.length = 2)
      ∨ (0xF0 ≤ b ∧ b < 0xF8 ∧ t.length = 3) := by
  unfold utf8 at e
  split at e
  · simp only [List.cons.injEq] at e; obtain ⟨rfl, rfl⟩ := e; left; simp; omega
  · split at e
    · simp only [List.cons.injEq] at e; obtain ⟨rfl, rfl⟩ := e; right; left; simp; omega
    · split at e
      · simp only [List.cons.injEq] at e; obtain ⟨rfl, rfl⟩ := e; right; right; left; simp; omega
      · simp only [List.cons.injEq] at e; obtain ⟨rfl, rfl⟩ := e; right; right; right; simp; omega

theorem utf8_length (cp : Nat) : 1 ≤ (utf8 cp).length ∧ (utf8 cp).length ≤ 4 := by
  unfold utf8; split
  · simp only [List.length_cons, List.length_nil]; omega
  · split
    · simp only [List.length_cons, List.length_nil]; omega
    · split <;> (simp only [List.length_cons, List.length_nil]; omega)

theorem find1234 (P : Nat → Bool) (n : Nat) (h1 : 1 ≤ n) (h4 : n ≤ 4) (hp : P n = true)
    (hb : ∀ k, 1 ≤ k → k < n → P k = false) : [1, 2, 3, 4].find? P = some n := by
  have : n = 1 ∨ n = 2 ∨ n = 3 ∨ n = 4 := by omega
  rcases this with rfl | rfl | rfl | rfl
  · simp only [List.find?_cons, hp]
  · simp only [List.find?_cons, hp, hb 1 (by omega) (by omega)]
  · simp only [List.find?_cons, hp, hb 1 (by omega) (by omega), hb 2 (by omega) (by omega)]
  · simp only [List.find?_cons, hp, hb 1 (by omega) (by omega), hb 2 (by omega) (by omega), hb 3 (by omega) (by omega)]

theorem candidate_utf8 (cp : Nat) (h : cp ≤ 0x10FFFF) : candidate (utf8 cp) = cp := by
  unfold utf8
  split
  · rfl
  · split
    · show (0xC0 + cp / 64 - 0xC0) * 64 + (0x80 + cp % 64 - 0x80) = cp
      omega
    · split
      · show (0xE0 + cp / 4096 - 0xE0) * 4096 + (0x80 + cp / 64 % 64 - 0x80) * 64 + (0x80 + cp % 64 - 0x80) = cp
        omega
      · show (0xF0 + cp / 262144 - 0xF0) * 262144 + (0x80 + cp / 4096 % 64 - 0x80) * 4096
            + (0x80 + cp / 64 % 64 - 0x80) * 64 + (0x80 + cp % 64 - 0x80) = cp
        omega

theorem wellFormed_utf8 (cp : Nat) (h : IsScalar cp) : WellFormed (utf8 cp) := by
  unfold WellFormed
  rw [candidate_utf8 cp h.1]
  exact ⟨h, rfl⟩

/-- a well-formed sequence that is a prefix of an encoding is the whole encoding -/
theorem wellFormed_take_utf8 (cp : Nat) (h : IsScalar cp) (rest : List Nat) (k : Nat) (hk : 1 ≤ k)
    (hkl : k ≤ (utf8 cp ++ rest).length) (hw : WellFormed ((utf8 cp ++ rest).take k)) : k = (utf8 cp).length := by
  have hlen := utf8_length cp
  -- heads agree
  obtain ⟨b, t, hbt⟩ : ∃ b t, utf8 cp = b :: t := by
    cases hu : utf8 cp with
    | nil => rw [hu] at hlen; simp at hlen
    | cons b t => exact ⟨b, t, rfl⟩
  have htake : (utf8 cp ++ rest).take k = b :: (t ++ rest).take (k - 1) := by
    rw [hbt]
    obtain ⟨k', rfl⟩ : ∃ k', k = k' + 1 := ⟨k - 1, by omega⟩
    simp
  rw [htake] at hw
  obtain ⟨hs, he⟩ := hw
  have c1 := utf8_head_class _ hs.1 b _ he
  have c2 := utf8_head_class cp h.1 b t hbt
  have hl : ((t ++ rest).take (k - 1)).length ≤ k - 1 := by simp [List.length_take]; omega
  have hl2 : ((t ++ rest).take (k - 1)).length = min (k - 1) (t.length + rest.length) := by
    simp [List.length_take]
  rw [hbt] at hkl ⊢
  simp only [List.length_cons, List.length_append] at hkl ⊢
  omega

theorem firstChar_utf8 (cp : Nat) (h : IsScalar cp) (rest : List Nat) :
    firstChar (utf8 cp ++ rest) = ⟨cp, (utf8 cp).length⟩ := by
  have hlen := utf8_length cp
  have hw := wellFormed_utf8 cp h
  have key : [1, 2, 3, 4].find? (fun k => decide (k ≤ (utf8 cp ++ rest).length ∧ WellFormed ((utf8 cp ++ rest).take k)))
      = some (utf8 cp).length := by
    apply find1234 _ _ hlen.1 hlen.2
    · simp [hw]
    · intro k hk hlt
      simp only [decide_eq_false_iff_not]
      intro ⟨hkl, hwk⟩
      have := wellFormed_take_utf8 cp h rest k hk hkl hwk
      omega
  unfold firstChar
  rw [key]
  simp only [List.take_left', candidate_utf8 cp h.1]

/-- what `firstChar` returns -/
theorem firstChar_cases (bs : List Nat) :
    (firstChar bs = ⟨0xFFFD, 1⟩ ∧ ∀ k, 1 ≤ k → k ≤ 4 → k ≤ bs.length → ¬ WellFormed (bs.take k)) ∨
    (∃ k, 1 ≤ k ∧ k ≤ 4 ∧ k ≤ bs.length ∧ WellFormed (bs.take k) ∧ firstChar bs = ⟨candidate (bs.take k), k⟩) := by
  unfold firstChar
  cases hf : [1, 2, 3, 4].find? (fun k => decide (k ≤ bs.length ∧ WellFormed (bs.take k))) with
  | none =>
    left
    refine ⟨rfl, ?_⟩
    intro k h1 h4 hl hw
    rw [List.find?_eq_none] at hf
    have : k ∈ [1, 2, 3, 4] := by simp; omega
    have := hf k this
    simp [hl, hw] at this
  | some k =>
    right
    have hmem := List.mem_of_find?_eq_some hf
    have hp := List.find?_some hf
    simp only [decide_eq_true_eq] at hp
    refine ⟨k, ?_, ?_, hp.1, hp.2, rfl⟩ <;> (simp at hmem; omega)

/-! ### Go's decoder is sound: a multi-byte result is the encoding that was read -/

theorem utf8_1 (cp : Nat) (h : cp ≤ 0x7F) : utf8 cp = [cp] := by simp [utf8, h]
theorem utf8_2 (cp : Nat) (h1 : 0x7F < cp) (h2 : cp ≤ 0x7FF) : utf8 cp = [0xC0 + cp / 64, 0x80 + cp % 64] := by
  have : ¬ cp ≤ 0x7F := by omega
  simp [utf8, this, h2]
theorem utf8_3 (cp : Nat) (h1 : 0x7FF < cp) (h2 : cp ≤ 0xFFFF) :
    utf8 cp = [0xE0 + cp / 4096, 0x80 + cp / 64 % 64, 0x80 + cp % 64] := by
  have a : ¬ cp ≤ 0x7F := by omega
  have b : ¬ cp ≤ 0x7FF := by omega
  simp [utf8, a, b, h2]
theorem utf8_4 (cp : Nat) (h1 : 0xFFFF < cp) :
    utf8 cp = [0xF0 + cp / 262144, 0x80 + cp / 4096 % 64, 0x80 + cp / 64 % 64, 0x80 + cp % 64] := by
  have a : ¬ cp ≤ 0x7F := by omega
  have b : ¬ cp ≤ 0x7FF := by omega
  have c : ¬ cp ≤ 0xFFFF := by omega
  simp [utf8, a, b, c]

theorem isCont_iff (b : Nat) : Wtf8.isCont b = true ↔ 128 ≤ b ∧ b ≤ 191 := by simp [Wtf8.isCont]

/-- the outcome of `goDecodeRune`: U+FFFD for one byte, or a scalar value whose encoding are the first `width` bytes -/
def GoodDecode (s0 : Nat) (rest : List Nat) (r : Nat × Nat) : Prop :=
  r = (0xFFFD, 1) ∨ (IsScalar r.1 ∧ utf8 r.1 = (s0 :: rest).take r.2 ∧ r.2 ≤ (s0 :: rest).length)

theorem goDecode_sound2 (s0 s1 : Nat) (tl : List Nat) (h : 0xC2 ≤ s0 ∧ s0 ≤ 0xDF) (hc : Wtf8.isCont s1 = true) :
    GoodDecode s0 (s1 :: tl) (((s0 &&& 0x1F) <<< 6) ||| (s1 &&& 0x3F), 2) := by
  rw [Wtf8.dec2]
  rw [isCont_iff] at hc
  right
  refine ⟨?_, ?_, by simp⟩
  · unfold IsScalar; omega
  · show utf8 (s0 % 32 * 64 + s1 % 64) = [s0, s1]
    rw [utf8_2 _ (by omega) (by omega)]
    simp only [List.cons.injEq, and_true]
    omega

theorem goDecode_sound3 (s0 s1 s2 : Nat) (tl : List Nat) (h : 0xE0 ≤ s0 ∧ s0 ≤ 0xEF)
    (ha : Wtf8.acceptLo s0 ≤ s1 ∧ s1 ≤ Wtf8.acceptHi s0) (hc : Wtf8.isCont s2 = true) :
    GoodDecode s0 (s1 :: s2 :: tl) (((s0 &&& 0x0F) <<< 12) ||| ((s1 &&& 0x3F) <<< 6) ||| (s2 &&& 0x3F), 3) := by
  rw [Wtf8.dec3]
  rw [isCont_iff] at hc
  rw [Wtf8.acceptLo_eq, Wtf8.acceptHi_eq] at ha
  have hb : 128 ≤ s1 ∧ s1 ≤ 191 ∧ (s0 = 224 → 160 ≤ s1) ∧ (s0 = 237 → s1 ≤ 159) := by
    obtain ⟨a1, a2⟩ := ha
    split at a1 <;> split at a2 <;> (try split at a1) <;> (try split at a2) <;> omega
  right
  refine ⟨?_, ?_, by simp⟩
  · unfold IsScalar; omega
  · show utf8 (s0 % 16 * 4096 + s1 % 64 * 64 + s2 % 64) = [s0, s1, s2]
    rw [utf8_3 _ (by omega) (by omega)]
    simp only [List.cons.injEq, and_true]
    omega

theorem goDecode_sound4 (s0 s1 s2 s3 : Nat) (tl : List Nat) (h : 0xF0 ≤ s0 ∧ s0 ≤ 0xF4)
    (ha : Wtf8.acceptLo s0 ≤ s1 ∧ s1 ≤ Wtf8.acceptHi s0) (hc : Wtf8.isCont s2 = true) (hd : Wtf8.isCont s3 = true) :
    GoodDecode s0 (s1 :: s2 :: s3 :: tl)
      (((s0 &&& 0x07) <<< 18) ||| ((s1 &&& 0x3F) <<< 12) ||| ((s2 &&& 0x3F) <<< 6) ||| (s3 &&& 0x3F), 4) := by
  rw [Wtf8.dec4]
  rw [isCont_iff] at hc hd
  rw [Wtf8.acceptLo_eq, Wtf8.acceptHi_eq] at ha
  have hb : 128 ≤ s1 ∧ s1 ≤ 191 ∧ (s0 = 240 → 144 ≤ s1) ∧ (s0 = 244 → s1 ≤ 143) := by
    obtain ⟨a1, a2⟩ := ha
    split at a1 <;> split at a2 <;> (try split at a1) <;> (try split at a2) <;> omega
  right
  refine ⟨?_, ?_, by simp⟩
  · unfold IsScalar; omega
  · show utf8 (s0 % 8 * 262144 + s1 % 64 * 4096 + s2 % 64 * 64 + s3 % 64) = [s0, s1, s2, s3]
    rw [utf8_4 _ (by omega)]
    simp only [List.cons.injEq, and_true]
    omega

theorem goDecode_sound (s0 : Nat) (rest : List Nat) : GoodDecode s0 rest (goDecodeRune s0 rest) := by
  unfold goDecodeRune
  split
  · next h =>
    right
    refine ⟨?_, ?_, by simp⟩
    · unfold IsScalar; simp only; omega
    · simp only [utf8_1 s0 (by omega)]; simp
  · split
    · next h =>
      split
      · next s1 tl =>
        split
        · next hc => exact goDecode_sound2 s0 s1 tl h hc
        · left; rfl
      · left; rfl
    · split
      · next h =>
        split
        · next s1 s2 tl =>
          split
          · next hc => exact goDecode_sound3 s0 s1 s2 tl h ⟨hc.1, hc.2.1⟩ hc.2.2
          · left; rfl
        · left; rfl
      · split
        · next h =>
          split
          · next s1 s2 s3 tl =>
            split
            · next hc => exact goDecode_sound4 s0 s1 s2 s3 tl h ⟨hc.1, hc.2.1⟩ hc.2.2.1 hc.2.2.2
            · left; rfl
          · left; rfl
        · left; rfl

/-- Go's `range` decoding of the first character is the specified one -/
theorem goDecode_eq_firstChar (s0 : Nat) (rest : List Nat) :
    goDecodeRune s0 rest = ((firstChar (s0 :: rest)).cp, (firstChar (s0 :: rest)).width) := by
  by_cases hex : ∃ cp tail, IsScalar cp ∧ s0 :: rest = utf8 cp ++ tail
  · obtain ⟨cp, tail, hs, he⟩ := hex
    obtain ⟨a, t, hat, hdec, _⟩ := Wtf8.goDecode_enc cp hs tail
    rw [Wtf8.encA_eq_utf8] at hat hdec
    rw [he, firstChar_utf8 cp hs tail]
    rw [← he] at hat
    simp only [List.cons.injEq] at hat
    obtain ⟨rfl, rfl⟩ := hat
    exact hdec
  · have hno : ∀ k cp, IsScalar cp → utf8 cp = (s0 :: rest).take k → False := by
      intro k cp hs hu
      apply hex
      refine ⟨cp, (s0 :: rest).drop k, hs, ?_⟩
      rw [hu, List.take_append_drop]
    have hgo : goDecodeRune s0 rest = (0xFFFD, 1) := by
      rcases goDecode_sound s0 rest with h | ⟨hs, hu, _⟩
      · exact h
      · exact (hno _ _ hs hu).elim
    have hsp : firstChar (s0 :: rest) = ⟨0xFFFD, 1⟩ := by
      rcases firstChar_cases (s0 :: rest) with ⟨h, _⟩ | ⟨k, _, _, _, hw, _⟩
      · exact h
      · exact (hno k _ hw.1 hw.2).elim
    rw [hgo, hsp]

/-! ### properties of the decoded characters -/

theorem firstChar_width (b : Nat) (rest : List Nat) :
    1 ≤ (firstChar (b :: rest)).width ∧ (firstChar (b :: rest)).width ≤ (b :: rest).length := by
  rcases firstChar_cases (b :: rest) with ⟨h, _⟩ | ⟨k, h1, _, hl, _, h⟩
  · rw [h]; simp
  · rw [h]; exact ⟨h1, hl⟩

theorem firstChar_of_ascii (b : Nat) (rest : List Nat) (h : b ≤ 0x7F) : firstChar (b :: rest) = ⟨b, 1⟩ := by
  have hs : IsScalar b := by unfold IsScalar; omega
  have := firstChar_utf8 b hs rest
  rw [utf8_1 b h] at this
  exact this

theorem firstChar_ascii (b : Nat) (rest : List Nat) (h : (firstChar (b :: rest)).cp ≤ 0x7F) :
    firstChar (b :: rest) = ⟨b, 1⟩ := by
  rcases firstChar_cases (b :: rest) with ⟨h', _⟩ | ⟨k, h1, _, hl, hw, h'⟩
  · rw [h'] at h; simp at h
  · rw [h'] at h
    simp only at h
    have hu := hw.2
    rw [utf8_1 _ h] at hu
    have hlen : ((b :: rest).take k).length = k := by rw [List.length_take]; omega
    rw [← hu] at hlen
    simp only [List.length_cons, List.length_nil] at hlen
    subst hlen
    simp only [List.take_succ_cons, List.take_zero, List.cons.injEq, and_true] at hu
    rw [h', ← hu]; simp [hu]

theorem decodeAux_skip (k : Nat) (l : List Nat) : decodeAux k l = decodeAux 0 (l.drop k) := by
  induction k generalizing l with
  | zero => simp
  | succ k ih =>
    cases l with
    | nil => simp [decodeAux]
    | cons b t => simp only [decodeAux, List.drop_succ_cons]; exact ih t

theorem decode_nil : decode [] = [] := rfl

theorem decode_cons (b : Nat) (rest : List Nat) :
    decode (b :: rest) = firstChar (b :: rest) :: decode (rest.drop ((firstChar (b :: rest)).width - 1)) := by
  unfold decode
  rw [decodeAux]
  rw [decodeAux_skip]

theorem rangeAux_skip (k : Nat) (l : List Nat) : rangeAux k l = rangeAux 0 (l.drop k) := by
  induction k generalizing l with
  | zero => simp
  | succ k ih =>
    cases l with
    | nil => simp [rangeAux]
    | cons b t => simp only [rangeAux, List.drop_succ_cons]; exact ih t

theorem goRange_cons (b : Nat) (rest : List Nat) :
    goRange (b :: rest) = ⟨(goDecodeRune b rest).1, (goDecodeRune b rest).2, rest⟩
      :: goRange (rest.drop ((goDecodeRune b rest).2 - 1)) := by
  unfold goRange
  rw [rangeAux]
  rw [rangeAux_skip]

/-- the first decoded character is LF exactly when the first byte is -/
theorem decode_head_lf (l : List Nat) :
    (((decode l).head?.map (·.cp)) == some 10) = (l.head? == some 10) := by
  cases l with
  | nil => rfl
  | cons b t =>
    rw [decode_cons]
    simp only [List.head?_cons, Option.map_some]
    by_cases hb : b = 10
    · subst hb; rw [firstChar_of_ascii 10 t (by omega)]
    · have : (firstChar (b :: t)).cp ≠ 10 := by
        intro h
        have := firstChar_ascii b t (by omega)
        rw [this] at h
        exact hb h
      have e1 : (some (firstChar (b :: t)).cp == some 10) = false := by
        apply beq_false_of_ne; intro h; exact this (Option.some.inj h)
      have e2 : (some b == some 10) = false := by
        apply beq_false_of_ne; intro h; exact hb (Option.some.inj h)
      rw [e1, e2]

/-- characters paired with "is a CR directly in front of an LF" -/
def crlfs : List Ch → List (Ch × Bool)
  | [] => []
  | c :: rest => (c, c.cp == 13 && (rest.head?.map (·.cp)) == some 10) :: crlfs rest

/-- what the model's loops see of `range contents` is the specified decoding with the CR LF look-ahead -/
theorem goRange_eq_decode (bs : List Nat) :
    (goRange bs).map (fun it => ((⟨it.c, it.w⟩ : Ch), crBeforeLf it)) = crlfs (decode bs) := by
  induction hn : bs.length using Nat.strongRecOn generalizing bs with
  | _ n ih =>
    cases bs with
    | nil => rfl
    | cons b rest =>
      rw [goRange_cons, decode_cons, goDecode_eq_firstChar]
      simp only [List.map_cons, crlfs]
      have hw := firstChar_width b rest
      congr 1
      · congr 1
        unfold crBeforeLf
        by_cases h13 : (firstChar (b :: rest)).cp = 13
        · have := firstChar_ascii b rest (by omega)
          rw [this]
          simp only [Nat.sub_self, List.drop_zero]
          rw [decode_head_lf]
        · rw [beq_false_of_ne h13]; rfl
      · apply ih _ _ _ rfl
        subst hn
        simp only [List.length_drop, List.length_cons]
        omega

/-- what the position theory needs of a character list: every character occupies at least one byte, an ASCII
character exactly one -/
def Valid (chs : List Ch) : Prop := ∀ c ∈ chs, 1 ≤ c.width ∧ (c.cp ≤ 0x7F → c.width = 1)

/-- bytes occupied by the characters -/
def bytes (chs : List Ch) : Nat := (chs.map (·.width)).sum

@[simp] theorem bytes_nil : bytes [] = 0 := rfl
@[simp] theorem bytes_cons (c : Ch) (r : List Ch) : bytes (c :: r) = c.width + bytes r := by simp [bytes]
@[simp] theorem bytes_append (a b : List Ch) : bytes (a ++ b) = bytes a + bytes b := by simp [bytes]

theorem decode_valid_bytes_aux (n : Nat) : ∀ bs : List Nat, bs.length = n →
    Valid (decode bs) ∧ bytes (decode bs) = bs.length := by
  induction n using Nat.strongRecOn with
  | _ n ih =>
    intro bs hn
    cases bs with
    | nil => exact ⟨by intro c hc; simp [decode_nil] at hc, rfl⟩
    | cons b rest =>
      rw [decode_cons]
      have hw := firstChar_width b rest
      have hlen : (rest.drop ((firstChar (b :: rest)).width - 1)).length < n := by
        subst hn; simp only [List.length_drop, List.length_cons]; omega
      obtain ⟨iv, ib⟩ := ih _ hlen _ rfl
      constructor
      · intro c hc
        rcases List.mem_cons.mp hc with rfl | hc
        · refine ⟨hw.1, fun h => ?_⟩
          rw [firstChar_ascii b rest h]
        · exact iv c hc
      · rw [bytes_cons, ib]
        simp only [List.length_drop, List.length_cons] at hw ⊢
        omega

theorem decode_valid_bytes (bs : List Nat) : Valid (decode bs) ∧ bytes (decode bs) = bs.length :=
  decode_valid_bytes_aux _ bs rfl

theorem decode_valid (bs : List Nat) : Valid (decode bs) := (decode_valid_bytes bs).1
theorem decode_bytes (bs : List Nat) : bytes (decode bs) = bs.length := (decode_valid_bytes bs).2

theorem Valid.tail {c : Ch} {r : List Ch} (h : Valid (c :: r)) : Valid r := fun x hx => h x (List.mem_cons_of_mem _ hx)
theorem Valid.head {c : Ch} {r : List Ch} (h : Valid (c :: r)) : 1 ≤ c.width ∧ (c.cp ≤ 0x7F → c.width = 1) :=
  h c (List.mem_cons_self ..)
theorem Valid.append_left {a b : List Ch} (h : Valid (a ++ b)) : Valid a := fun x hx => h x (List.mem_append_left _ hx)
theorem Valid.append_right {a b : List Ch} (h : Valid (a ++ b)) : Valid b := fun x hx => h x (List.mem_append_right _ hx)

end EsbuildModel.LineOffset
