import EsbuildModel.Lemmas.CssBoxTok
/-
Frame lemmas for one tracker operation (`mangleSide` / `mangleSides`), valid for EVERY input (no assumption on
units): the operation never indexes out of range, keeps the length of the rule list, only writes to the slot of the
current declaration and to slots the tracker pointed to, and only writes "removed" or a declaration whose key text is
the tracker's shorthand name or the current declaration's; every side it tracks afterwards points either to the
current declaration or where it pointed before.
-/
namespace EsbuildModel.CssBox
open EsbuildModel.Spec.BoxCascade

def BoxSide.present (x : BoxSide) : Bool := x.token.kind != .eof

def Tracker.allPresent (box : Tracker) : Bool :=
  box.sides.top.present && box.sides.right.present && box.sides.bottom.present && box.sides.left.present

@[simp] theorem Sides.get_put_same (s : Sides) (i : Side) (v : BoxSide) : (s.put i v).get i = v := by
  cases i <;> rfl

theorem Sides.get_put_ne (s : Sides) (i j : Side) (v : BoxSide) (h : j ≠ i) : (s.put i v).get j = s.get j := by
  cases i <;> cases j <;> first | rfl | exact absurd rfl h

theorem Sides.get_put (s : Sides) (i j : Side) (v : BoxSide) : (s.put i v).get j = if j = i then v else s.get j := by
  by_cases h : j = i
  · subst h; simp
  · simp [h, Sides.get_put_ne _ _ _ _ h]

@[simp] theorem Sides.get_default (i : Side) : ({} : Sides).get i = {} := by cases i <;> rfl

@[simp] theorem BoxSide.present_default : ({} : BoxSide).present = false := rfl

def Touch (box : Tracker) (n : Nat) (i : Nat) : Prop :=
  i = n ∨ ∃ s, (box.sides.get s).present = true ∧ (box.sides.get s).ruleIndex = i

def NewContent (box : Tracker) (d : CssBox.Decl) (x : Option (Option CssBox.Decl)) : Prop :=
  x = some none ∨ ∃ e, x = some (some e) ∧ (e.keyText = box.keyText ∨ e.keyText = d.keyText)

structure Eff (box0 : Tracker) (d : CssBox.Decl) (n : Nat) (R0 : List (Option CssBox.Decl)) (box : Tracker) (rs : RS) : Prop where
  len : rs.rules.length = R0.length
  nopanic : rs.panic = false
  cfg : box.keyText = box0.keyText ∧ box.keyKnown = box0.keyKnown ∧ box.allowAuto = box0.allowAuto
  sides : ∀ s, (box.sides.get s).present = true → Touch box0 n (box.sides.get s).ruleIndex
  rules : ∀ i : Nat, rs.rules[i]? = R0[i]? ∨ (Touch box0 n i ∧ NewContent box0 d rs.rules[i]?)

section
variable {box0 : Tracker} {d : CssBox.Decl} {n : Nat} {R0 : List (Option CssBox.Decl)}

theorem Eff.refl : Eff box0 d n R0 box0 { rules := R0, panic := false } :=
  ⟨rfl, rfl, ⟨rfl, rfl, rfl⟩, fun s hs => Or.inr ⟨s, hs, rfl⟩, fun _ => Or.inl rfl⟩

theorem RS.setAt_lt (r : RS) (i : Nat) (v : Option CssBox.Decl) (h : i < r.rules.length) :
    r.setAt i v = { r with rules := r.rules.set i v } := by simp [RS.setAt, h]

theorem Eff.setAt {box : Tracker} {rs : RS} (h : Eff box0 d n R0 box rs) (i : Nat) (v : Option CssBox.Decl)
    (hi : i < R0.length) (ht : Touch box0 n i) (hv : NewContent box0 d (some v)) :
    Eff box0 d n R0 box (rs.setAt i v) := by
  rw [RS.setAt_lt _ _ _ (by rw [h.len]; exact hi)]
  refine ⟨by simp [h.len], h.nopanic, h.cfg, h.sides, ?_⟩
  intro j
  by_cases hj : i = j
  · subst hj
    right
    refine ⟨ht, ?_⟩
    simp [h.len, hi]
    exact hv
  · simp only [List.getElem?_set, hj, if_false]
    exact h.rules j

theorem Eff.clear {box : Tracker} {rs : RS} (h : Eff box0 d n R0 box rs) (imp : Bool) :
    Eff box0 d n R0 { box with sides := {}, important := imp } rs :=
  ⟨h.len, h.nopanic, h.cfg, fun s hs => by simp at hs, h.rules⟩

theorem Eff.clear' {box : Tracker} {rs : RS} (h : Eff box0 d n R0 box rs) :
    Eff box0 d n R0 { box with sides := {} } rs :=
  ⟨h.len, h.nopanic, h.cfg, fun s hs => by simp at hs, h.rules⟩

theorem Eff.sync {box : Tracker} {rs : RS} (h : Eff box0 d n R0 box rs) (d' : CssBox.Decl) :
    Eff box0 d n R0 (syncImportant box d') rs := by
  unfold syncImportant; split
  · exact h.clear _
  · exact h

theorem Touch.lt (hn : n < R0.length)
    (h0 : ∀ s, (box0.sides.get s).present = true → (box0.sides.get s).ruleIndex < R0.length) {i : Nat}
    (h : Touch box0 n i) : i < R0.length := by
  rcases h with rfl | ⟨s, hs, rfl⟩
  · exact hn
  · exact h0 s hs

/-- a tracked index is touched and in range -/
theorem Eff.idx_ok {box : Tracker} {rs : RS} (h : Eff box0 d n R0 box rs) (hn : n < R0.length)
    (h0 : ∀ s, (box0.sides.get s).present = true → (box0.sides.get s).ruleIndex < R0.length)
    (s : Side) (hs : (box.sides.get s).present = true) :
    (box.sides.get s).ruleIndex < R0.length ∧ Touch box0 n (box.sides.get s).ruleIndex :=
  ⟨(h.sides s hs).lt hn h0, h.sides s hs⟩

theorem Eff.updateSide {box : Tracker} {rs : RS} (h : Eff box0 d n R0 box rs) (hn : n < R0.length)
    (h0 : ∀ s, (box0.sides.get s).present = true → (box0.sides.get s).ruleIndex < R0.length)
    (side : Side) (new : BoxSide) (hnew : new.ruleIndex = n) :
    Eff box0 d n R0 (updateSide box rs side new).1 (updateSide box rs side new).2 := by
  unfold CssBox.updateSide
  simp only
  have hsides : ∀ s, ((box.sides.put side new).get s).present = true →
      Touch box0 n ((box.sides.put side new).get s).ruleIndex := by
    intro s hs
    rw [Sides.get_put] at hs ⊢
    by_cases hss : s = side
    · simp only [hss, if_true, hnew]; exact Or.inl rfl
    · simp only [hss, if_false] at hs ⊢; exact h.sides s hs
  split
  · rename_i hc
    have hp : (box.sides.get side).present = true := by
      simp only [Bool.and_eq_true] at hc
      exact hc.1.1.1
    obtain ⟨hlt, ht⟩ := h.idx_ok hn h0 side hp
    have h' := h.setAt _ none hlt ht (Or.inl rfl)
    exact ⟨h'.len, h'.nopanic, h'.cfg, hsides, h'.rules⟩
  · exact ⟨h.len, h.nopanic, h.cfg, hsides, h.rules⟩

/-- the conditions under which `compactRules` merges -/
def Tracker.fires (box : Tracker) : Bool :=
  box.keyKnown && box.allPresent &&
    (box.sides.right.unitSafety.isSafeWith box.sides.top.unitSafety &&
     box.sides.bottom.unitSafety.isSafeWith box.sides.top.unitSafety &&
     box.sides.left.unitSafety.isSafeWith box.sides.top.unitSafety)

/-- `lastRuleIndex` -/
def Tracker.lastIdx (box : Tracker) : Nat :=
  let last := box.sides.top.ruleIndex
  let last := if box.sides.right.ruleIndex > last then box.sides.right.ruleIndex else last
  let last := if box.sides.bottom.ruleIndex > last then box.sides.bottom.ruleIndex else last
  if box.sides.left.ruleIndex > last then box.sides.left.ruleIndex else last

def Tracker.merged (box : Tracker) (mw : Bool) : CssBox.Decl :=
  { keyText := box.keyText,
    value := compactTokenQuad box.sides.top.token box.sides.right.token box.sides.bottom.token box.sides.left.token mw,
    important := box.important }

def BoxSide.moved (x : BoxSide) (last : Nat) : BoxSide := { x with ruleIndex := last, wasSingleRule := false }

def Tracker.afterMerge (box : Tracker) : Tracker :=
  { box with sides := { top := box.sides.top.moved box.lastIdx, right := box.sides.right.moved box.lastIdx,
                        bottom := box.sides.bottom.moved box.lastIdx, left := box.sides.left.moved box.lastIdx } }

theorem compactRules_eq (box : Tracker) (rs : RS) (mw : Bool) :
    compactRules box rs mw =
      if box.fires = true then
        (box.afterMerge,
         ((((rs.setAt box.sides.top.ruleIndex none).setAt box.sides.right.ruleIndex none).setAt
            box.sides.bottom.ruleIndex none).setAt box.sides.left.ruleIndex none).setAt box.lastIdx (some (box.merged mw)))
      else (box, rs) := by
  unfold CssBox.compactRules Tracker.fires Tracker.allPresent BoxSide.present Tracker.afterMerge
  cases h1 : box.keyKnown
  · simp
  · cases h2 : (box.sides.top.token.kind == Kind.eof)
    · cases h3 : (box.sides.right.token.kind == Kind.eof)
      · cases h4 : (box.sides.bottom.token.kind == Kind.eof)
        · cases h5 : (box.sides.left.token.kind == Kind.eof)
          · cases h6 : box.sides.right.unitSafety.isSafeWith box.sides.top.unitSafety
            · simp [h2, h3, h4, h5, h6]
            · cases h7 : box.sides.bottom.unitSafety.isSafeWith box.sides.top.unitSafety
              · simp [h2, h3, h4, h5, h6, h7]
              · cases h8 : box.sides.left.unitSafety.isSafeWith box.sides.top.unitSafety
                · simp [h2, h3, h4, h5, h6, h7, h8]
                · have e2 : (box.sides.top.token.kind != Kind.eof) = true := by simp [bne, h2]
                  have e3 : (box.sides.right.token.kind != Kind.eof) = true := by simp [bne, h3]
                  have e4 : (box.sides.bottom.token.kind != Kind.eof) = true := by simp [bne, h4]
                  have e5 : (box.sides.left.token.kind != Kind.eof) = true := by simp [bne, h5]
                  simp only [Bool.not_true, Bool.false_eq_true, if_false, e2, e3, e4, e5, h2, h3, h4, h5,
                    h6, h7, h8, Bool.and_self, if_true, Bool.or_self]
                  rfl
          · simp [h5, bne]
        · simp [h4, bne]
      · simp [h3, bne]
    · simp [h2, bne]

theorem Tracker.lastIdx_mem (box : Tracker) :
    box.lastIdx = box.sides.top.ruleIndex ∨ box.lastIdx = box.sides.right.ruleIndex ∨
    box.lastIdx = box.sides.bottom.ruleIndex ∨ box.lastIdx = box.sides.left.ruleIndex := by
  unfold Tracker.lastIdx; simp only; repeat' split
  all_goals simp

theorem Tracker.lastIdx_ge (box : Tracker) (s : Side) : (box.sides.get s).ruleIndex ≤ box.lastIdx := by
  unfold Tracker.lastIdx; simp only
  cases s <;> simp only [Sides.get] <;> repeat' split
  all_goals omega

theorem Tracker.fires_present (box : Tracker) (h : box.fires = true) (s : Side) : (box.sides.get s).present = true := by
  simp only [Tracker.fires, Tracker.allPresent, Bool.and_eq_true] at h
  cases s <;> simp [Sides.get, h]

theorem Tracker.afterMerge_get (box : Tracker) (s : Side) :
    (box.afterMerge.sides.get s) = (box.sides.get s).moved box.lastIdx := by
  cases s <;> rfl

theorem Eff.compactRules {box : Tracker} {rs : RS} (h : Eff box0 d n R0 box rs) (hn : n < R0.length)
    (h0 : ∀ s, (box0.sides.get s).present = true → (box0.sides.get s).ruleIndex < R0.length) (mw : Bool) :
    Eff box0 d n R0 (compactRules box rs mw).1 (compactRules box rs mw).2 := by
  rw [compactRules_eq]
  split
  · rename_i hf
    have hp := box.fires_present hf
    have a := h.idx_ok hn h0 .top (hp _)
    have b' := h.idx_ok hn h0 .right (hp _)
    have c := h.idx_ok hn h0 .bottom (hp _)
    have e := h.idx_ok hn h0 .left (hp _)
    simp only [Sides.get] at a b' c e
    have hlast : Touch box0 n box.lastIdx := by
      rcases box.lastIdx_mem with h' | h' | h' | h' <;> rw [h']
      · exact a.2
      · exact b'.2
      · exact c.2
      · exact e.2
    have h5 := ((((h.setAt _ none a.1 a.2 (Or.inl rfl)).setAt _ none b'.1 b'.2 (Or.inl rfl)).setAt _ none c.1 c.2
        (Or.inl rfl)).setAt _ none e.1 e.2 (Or.inl rfl)).setAt box.lastIdx (some (box.merged mw))
        (hlast.lt hn h0) hlast (Or.inr ⟨_, rfl, Or.inl h.cfg.1⟩)
    refine ⟨h5.len, h5.nopanic, h.cfg, ?_, h5.rules⟩
    intro s _
    rw [Tracker.afterMerge_get]
    exact hlast
  · exact h

theorem Eff.mangleSide {rs : RS} (hn : n < R0.length) (hn' : R0.length - 1 = n) (hrs : rs = { rules := R0, panic := false })
    (h0 : ∀ s, (box0.sides.get s).present = true → (box0.sides.get s).ruleIndex < R0.length) (mw : Bool) (side : Side) :
    Eff box0 d n R0 (mangleSide box0 rs d mw side).1 (mangleSide box0 rs d mw side).2 := by
  subst hrs
  have hbase : Eff box0 d n R0 (syncImportant box0 d) { rules := R0, panic := false } := Eff.refl.sync d
  unfold CssBox.mangleSide
  simp only
  split
  · rename_i t hval
    split
    · generalize hU : (if (!(syncImportant box0 d).allowAuto || t.kind.isNumeric) = true then ({} : Safety).includeUnitOf t else {}) = U
      generalize hT : (if (U.status == Status.safe) = true then t.turn else (t, false)) = T
      obtain ⟨t', turned⟩ := T
      simp only
      have h1 : Eff box0 d n R0 (syncImportant box0 d)
          (if turned = true then ({ rules := R0, panic := false } : RS).setAt (R0.length - 1) (some { d with value := [t'] })
           else { rules := R0, panic := false }) := by
        split
        · rw [hn']
          exact hbase.setAt _ _ hn (Or.inl rfl) (Or.inr ⟨_, rfl, Or.inr rfl⟩)
        · exact hbase
      have hlen : (if turned = true then ({ rules := R0, panic := false } : RS).setAt (R0.length - 1) (some { d with value := [t'] })
           else { rules := R0, panic := false }).rules.length - 1 = n := by rw [h1.len, hn']
      have h2 := h1.updateSide hn h0 side
        { token := t', ruleIndex := n, wasSingleRule := true, unitSafety := U } rfl
      rw [hlen]
      exact h2.compactRules hn h0 mw
    · exact hbase.clear'
  · exact hbase.clear'

theorem Eff.mangleSides {rs : RS} (hn : n < R0.length) (hn' : R0.length - 1 = n) (hrs : rs = { rules := R0, panic := false })
    (h0 : ∀ s, (box0.sides.get s).present = true → (box0.sides.get s).ruleIndex < R0.length) (mw : Bool) :
    Eff box0 d n R0 (mangleSides box0 rs d mw).1 (mangleSides box0 rs d mw).2 := by
  subst hrs
  have hbase : Eff box0 d n R0 (syncImportant box0 d) { rules := R0, panic := false } := Eff.refl.sync d
  unfold CssBox.mangleSides
  simp only
  split
  · simp only [hn']
    refine Eff.compactRules ?_ hn h0 mw
    refine Eff.updateSide ?_ hn h0 _ _ rfl
    refine Eff.updateSide ?_ hn h0 _ _ rfl
    refine Eff.updateSide ?_ hn h0 _ _ rfl
    exact Eff.updateSide hbase hn h0 _ _ rfl
  · exact hbase.clear'

end
end EsbuildModel.CssBox
