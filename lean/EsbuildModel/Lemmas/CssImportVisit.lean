import EsbuildModel.Lemmas.CssImportDupEq
import EsbuildModel.Lemmas.Split
/-!
The traversal (`visit`) is the inlining of the specification: the style sheet that the traversal's list stands for is
`DupEq` to the flattened import tree (`flatten (unfold …)`), for graphs without anonymous `layer` imports.
Also: the traversal never fails on a well-formed graph (the fuel `number of files + 1` suffices), and shape facts
about the entries it produces.
-/
namespace EsbuildModel.CssImport
open EsbuildModel.Spec.CssCascade

-- ------------------------------------------------------------------ flatten without anonymous layers

def wrapOptN (c : Option Cond) (items : List Item) : List Item :=
  match c with
  | none => items
  | some c => wrap c [] items

/-- `flatten` when no import has an anonymous `layer` (places do not matter) -/
def flattenN (decl : Nat → Decl) (ext : Nat → List Item) : Sheet → List Item
  | .nil => []
  | .layers ns rest => layerItems ns ++ flattenN decl ext rest
  | .stmt s rest => stmtItems decl s ++ flattenN decl ext rest
  | .import c sub rest => wrapOptN c (flattenN decl ext sub) ++ flattenN decl ext rest
  | .external c p rest => wrapOptN c (ext p) ++ flattenN decl ext rest

def CondOptNoAnon (c : Option Cond) : Prop := ∀ c', c = some c' → c'.layer ≠ some LayerTok.anon

def SheetNoAnon : Sheet → Prop
  | .nil => True
  | .layers _ rest => SheetNoAnon rest
  | .stmt _ rest => SheetNoAnon rest
  | .import c sub rest => CondOptNoAnon c ∧ SheetNoAnon sub ∧ SheetNoAnon rest
  | .external c _ rest => CondOptNoAnon c ∧ SheetNoAnon rest

theorem wrapOpt_noAnon {c : Option Cond} (h : CondOptNoAnon c) (id : List Nat) (items : List Item) :
    wrapOpt c id items = wrapOptN c items := by
  cases c with
  | none => rfl
  | some c' => exact wrap_noAnon (h c' rfl) id []  items

theorem flatten_eq_flattenN (decl : Nat → Decl) (ext : Nat → List Item) (s : Sheet) (hs : SheetNoAnon s)
    (h : List Nat) (k : Nat) : flatten decl ext h k s = flattenN decl ext s := by
  induction s generalizing h k with
  | nil => rfl
  | layers ns rest ih => simp only [flatten, flattenN, layerItems]; rw [ih hs]
  | stmt s rest ih => simp only [flatten, flattenN]; rw [ih hs]
  | «import» c sub rest ih1 ih2 =>
    simp only [flatten, flattenN]
    rw [ih1 hs.2.1, ih2 hs.2.2, wrapOpt_noAnon hs.1]
  | external c p rest ih =>
    simp only [flatten, flattenN]
    rw [ih hs.2, wrapOpt_noAnon hs.1]

theorem flattenN_bodySheet (decl : Nat → Decl) (ext : Nat → List Item) (body : List Stmt) :
    flattenN decl ext (bodySheet body) = body.flatMap (stmtItems decl) := by
  induction body with
  | nil => rfl
  | cons s ss ih => simp [bodySheet, flattenN, ih]

def GraphNoAnon (g : Graph) : Prop := ∀ f ∈ g, ∀ im ∈ f.imports, CondOptNoAnon im.cond

theorem importsSheet_noAnon (sub : Nat → Option Sheet) (hsub : ∀ j s, sub j = some s → SheetNoAnon s)
    (ims : List Import) (hims : ∀ im ∈ ims, CondOptNoAnon im.cond) (rest : Sheet) (hrest : SheetNoAnon rest) :
    SheetNoAnon (importsSheet sub ims rest) := by
  induction ims with
  | nil => exact hrest
  | cons im ims ih =>
    have ih' := ih (fun x hx => hims x (List.mem_cons_of_mem _ hx))
    have hc := hims im (List.mem_cons_self ..)
    simp only [importsSheet]
    cases im.target with
    | file j =>
      simp only
      cases hj : sub j with
      | none => exact ih'
      | some s => exact ⟨hc, hsub j s hj, ih'⟩
    | ext p => exact ⟨hc, ih'⟩

theorem bodySheet_noAnon (body : List Stmt) : SheetNoAnon (bodySheet body) := by
  induction body with
  | nil => trivial
  | cons s ss ih => exact ih

theorem unfold_noAnon {g : Graph} (hg : GraphNoAnon g) (fuel : Nat) (chain : List Nat) (src : Nat) :
    SheetNoAnon (unfold g fuel chain src) := by
  induction fuel generalizing chain src with
  | zero => trivial
  | succ fuel ih =>
    simp only [unfold]
    cases hf : g[src]? with
    | none => trivial
    | some f =>
      simp only
      show SheetNoAnon (importsSheet _ f.imports (bodySheet f.body))
      apply importsSheet_noAnon
      · intro j s hj
        split at hj
        · cases hj
        · cases hj; exact ih _ _
      · exact hg f (List.mem_of_getElem? hf)
      · exact bodySheet_noAnon _

-- ------------------------------------------------------------------ the loop over the imports

theorem wrapN_wrapOptN (wrap : List Cond) (c : Option Cond) (items : List Item) :
    wrapN wrap (wrapOptN c items) = wrapN (match c with | none => wrap | some c => wrap ++ [c]) items := by
  cases c with
  | none => rfl
  | some c => exact (wrapN_snoc wrap c items).symm

theorem visitImports_dupEq (g : Graph) (decl : Nat → Decl) (ext : Nat → List Item)
    (rec : Nat → List Cond → Option (List Entry)) (sub : Nat → Option Sheet)
    (hrec : ∀ j conds es, rec j conds = some es →
      match sub j with
      | none => es = []
      | some s => DupEq (semN g decl ext es) (wrapN conds (flattenN decl ext s)))
    (wrap : List Cond) (rest : Sheet) (ims : List Import) (mid : List Entry)
    (h : visitImports rec wrap ims = some mid) :
    DupEq (semN g decl ext mid ++ wrapN wrap (flattenN decl ext rest))
      (wrapN wrap (flattenN decl ext (importsSheet sub ims rest))) := by
  induction ims generalizing mid with
  | nil =>
    simp only [visitImports, Option.some.injEq] at h
    subst h
    exact .refl _
  | cons im ims ih =>
    simp only [visitImports] at h
    cases ht : im.target with
    | file j =>
      simp only [ht] at h
      split at h
      · cases h
      · rename_i a ha
        split at h
        · cases h
        · rename_i b hb
          simp only [Option.some.injEq] at h
          subst h
          have ihb := ih b hb
          have hr := hrec j _ a ha
          simp only [importsSheet, ht]
          cases hj : sub j with
          | none =>
            simp only [hj] at hr
            subst hr
            simpa using ihb
          | some s =>
            simp only [hj] at hr
            simp only [flattenN]
            refine DupEq.trans ?_ (wrapN_append wrap _ _).symm
            rw [wrapN_wrapOptN, semN_append, List.append_assoc]
            exact hr.append ihb
    | ext p =>
      simp only [ht] at h
      split at h
      · cases h
      · rename_i b hb
        simp only [Option.some.injEq] at h
        subst h
        have ihb := ih b hb
        simp only [importsSheet, ht, flattenN]
        refine DupEq.trans ?_ (wrapN_append wrap _ _).symm
        rw [wrapN_wrapOptN, semN_cons, List.append_assoc]
        refine (DupEq.of_eq ?_).append ihb
        simp only [semEntryN, entryContent]
        cases im.cond <;> rfl

-- ------------------------------------------------------------------ the traversal of one file

theorem visit_dupEq (g : Graph) (decl : Nat → Decl) (ext : Nat → List Item) (fuel : Nat) :
    ∀ (src : Nat) (chain : List Nat) (wrap : List Cond) (es : List Entry),
      visit g fuel src chain wrap = some es →
      (chain.contains src = true → es = []) ∧
      (chain.contains src = false →
        DupEq (semN g decl ext es) (wrapN wrap (flattenN decl ext (unfold g fuel chain src)))) := by
  induction fuel with
  | zero => intro src chain wrap es h; simp [visit] at h
  | succ fuel ih =>
    intro src chain wrap es h
    simp only [visit] at h
    split at h
    · rename_i hc
      simp only [Option.some.injEq] at h
      exact ⟨fun _ => h.symm, fun hn => by rw [hc] at hn; cases hn⟩
    · rename_i hc
      refine ⟨fun ht => absurd ht hc, fun _ => ?_⟩
      split at h
      · cases h
      · rename_i f hf
        split at h
        · cases h
        · rename_i mid hmid
          simp only [Option.some.injEq] at h
          subst h
          -- the specification side
          simp only [unfold, hf, flattenN]
          have himp := visitImports_dupEq g decl ext
            (fun j c => visit g fuel j (chain ++ [src]) c)
            (fun j => if (chain ++ [src]).contains j then none else some (unfold g fuel (chain ++ [src]) j))
            (by
              intro j conds es' hes'
              have := ih j (chain ++ [src]) conds es' hes'
              by_cases hj : (chain ++ [src]).contains j = true
              · simp only [hj, ↓reduceIte]; exact this.1 hj
              · simp only [hj, Bool.false_eq_true, ↓reduceIte]
                exact this.2 (by simpa using hj))
            wrap (bodySheet f.body) f.imports mid hmid
          rw [flattenN_bodySheet] at himp
          have hfile : semN g decl ext [{ kind := Kind.file, conds := wrap, src := src }] =
              wrapN wrap (f.body.flatMap (stmtItems decl)) := by
            simp [semN, semEntryN, entryContent, hf, bodyItems]
          rw [semN_append, semN_append, hfile, List.append_assoc]
          by_cases hpre : f.pre.isEmpty = true
          · have : f.pre = [] := by simpa using hpre
            simp only [hpre, ↓reduceIte, semN, List.flatMap_nil, List.nil_append, this, layerItems, List.map_nil]
            exact himp
          · simp only [hpre, Bool.false_eq_true, ↓reduceIte]
            refine DupEq.trans ?_ (wrapN_append wrap _ _).symm
            refine (DupEq.of_eq ?_).append himp
            simp [semN, semEntryN, entryContent]

/-- the whole traversal from the entry points, as the specification's inlining -/
theorem visitAll_dupEq (g : Graph) (decl : Nat → Decl) (ext : Nat → List Item) (eps : List Nat) (es : List Entry)
    (h : visitAll g eps = some es) :
    DupEq (semN g decl ext es) (eps.flatMap (fun e => flattenN decl ext (unfold g (g.length + 1) [] e))) := by
  induction eps generalizing es with
  | nil =>
    simp only [visitAll, Option.some.injEq] at h
    subst h
    exact .refl _
  | cons e eps ih =>
    simp only [visitAll] at h
    split at h
    · cases h
    · rename_i a ha
      split at h
      · cases h
      · rename_i b hb
        simp only [Option.some.injEq] at h
        subst h
        rw [semN_append, List.flatMap_cons]
        refine DupEq.append ?_ (ih b hb)
        have := (visit_dupEq g decl ext (g.length + 1) e [] [] a ha).2 (by simp)
        simpa [wrapN] using this

-- ------------------------------------------------------------------ the traversal never fails

/-- every internal import names a file of the graph -/
def GraphWF (g : Graph) : Prop := ∀ f ∈ g, ∀ im ∈ f.imports, ∀ j, im.target = Target.file j → j < g.length

theorem visitImports_some (rec : Nat → List Cond → Option (List Entry)) (wrap : List Cond) (ims : List Import)
    (hrec : ∀ im ∈ ims, ∀ j, im.target = Target.file j → ∀ conds, ∃ es, rec j conds = some es) :
    ∃ mid, visitImports rec wrap ims = some mid := by
  induction ims with
  | nil => exact ⟨[], rfl⟩
  | cons im ims ih =>
    obtain ⟨b, hb⟩ := ih (fun x hx => hrec x (List.mem_cons_of_mem _ hx))
    simp only [visitImports]
    cases ht : im.target with
    | file j =>
      cases hcond : im.cond with
      | none =>
        obtain ⟨a, ha⟩ := hrec im (List.mem_cons_self ..) j ht wrap
        simp only [ha, hb]
        exact ⟨_, rfl⟩
      | some c =>
        obtain ⟨a, ha⟩ := hrec im (List.mem_cons_self ..) j ht (wrap ++ [c])
        simp only [ha, hb]
        exact ⟨_, rfl⟩
    | ext p =>
      simp only [hb]
      exact ⟨_, rfl⟩

open EsbuildModel.Split (Inv inv_length_le) in
theorem visit_some {g : Graph} (hwf : GraphWF g) (fuel : Nat) :
    ∀ (src : Nat) (chain : List Nat) (wrap : List Cond), src < g.length → Inv g.length chain →
      g.length < chain.length + fuel → ∃ es, visit g fuel src chain wrap = some es := by
  induction fuel with
  | zero =>
    intro src chain wrap _ hinv hlen
    have := inv_length_le hinv
    omega
  | succ fuel ih =>
    intro src chain wrap hsrc hinv hlen
    simp only [visit]
    split
    · exact ⟨[], rfl⟩
    · rename_i hc
      have hf : g[src]? = some g[src] := List.getElem?_eq_getElem hsrc
      simp only [hf]
      have hinv' : Inv g.length (chain ++ [src]) := by
        refine ⟨?_, ?_⟩
        · rw [List.nodup_append]
          refine ⟨hinv.1, by simp, ?_⟩
          intro a ha b hb
          simp only [List.mem_singleton] at hb
          subst hb
          intro hab
          subst hab
          exact hc (by simpa using ha)
        · intro x hx
          rcases List.mem_append.1 hx with h | h
          · exact hinv.2 x h
          · simp only [List.mem_singleton] at h; omega
      obtain ⟨mid, hmid⟩ := visitImports_some (fun j c => visit g fuel j (chain ++ [src]) c) wrap g[src].imports
        (by
          intro im him j hj conds
          apply ih j (chain ++ [src]) conds (hwf g[src] (List.getElem_mem hsrc) im him j hj) hinv'
          simp only [List.length_append, List.length_singleton]
          omega)
      simp only [hmid]
      exact ⟨_, rfl⟩

theorem visitAll_some {g : Graph} (hwf : GraphWF g) (eps : List Nat) (heps : ∀ e ∈ eps, e < g.length) :
    ∃ es, visitAll g eps = some es := by
  induction eps with
  | nil => exact ⟨[], rfl⟩
  | cons e eps ih =>
    obtain ⟨b, hb⟩ := ih (fun x hx => heps x (List.mem_cons_of_mem _ hx))
    obtain ⟨a, ha⟩ := visit_some hwf (g.length + 1) e [] [] (heps e (List.mem_cons_self ..))
      ⟨List.nodup_nil, by simp⟩ (by simp)
    simp only [visitAll, ha, hb]
    exact ⟨_, rfl⟩

-- ------------------------------------------------------------------ the shape of the entries

/-- every condition of every import satisfies `P` -/
def GraphSat (P : Cond → Prop) (g : Graph) : Prop := ∀ f ∈ g, ∀ im ∈ f.imports, ∀ c, im.cond = some c → P c

/-- what every entry produced by the traversal satisfies -/
def EntryOkP (P : Cond → Prop) (g : Graph) (e : Entry) : Prop :=
  (∀ c ∈ e.conds, P c) ∧ (e.kind = .ext → e.layers = []) ∧ (e.kind = .file → e.src < g.length)

theorem sat_snoc {P : Cond → Prop} {wrap : List Cond} (h : ∀ c ∈ wrap, P c) {c : Cond} (hc : P c) :
    ∀ x ∈ wrap ++ [c], P x := by
  intro x hx
  rcases List.mem_append.1 hx with h' | h'
  · exact h x h'
  · simp only [List.mem_singleton] at h'; subst h'; exact hc

theorem visitImports_entries (P : Cond → Prop) (g : Graph) (rec : Nat → List Cond → Option (List Entry))
    (hrec : ∀ j conds es, rec j conds = some es → (∀ c ∈ conds, P c) → ∀ e ∈ es, EntryOkP P g e)
    (wrap : List Cond) (hwrap : ∀ c ∈ wrap, P c) (ims : List Import)
    (hims : ∀ im ∈ ims, ∀ c, im.cond = some c → P c)
    (mid : List Entry) (h : visitImports rec wrap ims = some mid) : ∀ e ∈ mid, EntryOkP P g e := by
  induction ims generalizing mid with
  | nil =>
    simp only [visitImports, Option.some.injEq] at h
    subst h
    intro e he; cases he
  | cons im ims ih =>
    have hc := hims im (List.mem_cons_self ..)
    have ih' := ih (fun x hx => hims x (List.mem_cons_of_mem _ hx))
    simp only [visitImports] at h
    have hconds : ∀ c ∈ (match im.cond with | none => wrap | some c => wrap ++ [c]), P c := by
      cases hcond : im.cond with
      | none => exact hwrap
      | some c => exact sat_snoc hwrap (hc c hcond)
    cases ht : im.target with
    | file j =>
      simp only [ht] at h
      split at h
      · cases h
      · rename_i a ha
        split at h
        · cases h
        · rename_i b hb
          simp only [Option.some.injEq] at h
          subst h
          intro e he
          rcases List.mem_append.1 he with h1 | h1
          · exact hrec j _ a ha hconds e h1
          · exact ih' b hb e h1
    | ext p =>
      simp only [ht] at h
      split at h
      · cases h
      · rename_i b hb
        simp only [Option.some.injEq] at h
        subst h
        intro e he
        rcases List.mem_cons.1 he with rfl | h1
        · exact ⟨hconds, fun _ => rfl, fun hk => by cases hk⟩
        · exact ih' b hb e h1

theorem visit_entries {P : Cond → Prop} {g : Graph} (hg : GraphSat P g) (fuel : Nat) :
    ∀ (src : Nat) (chain : List Nat) (wrap : List Cond) (es : List Entry),
      visit g fuel src chain wrap = some es → (∀ c ∈ wrap, P c) → ∀ e ∈ es, EntryOkP P g e := by
  induction fuel with
  | zero => intro src chain wrap es h; simp [visit] at h
  | succ fuel ih =>
    intro src chain wrap es h hwrap
    simp only [visit] at h
    split at h
    · simp only [Option.some.injEq] at h
      subst h
      intro e he; cases he
    · split at h
      · cases h
      · rename_i f hf
        split at h
        · cases h
        · rename_i mid hmid
          simp only [Option.some.injEq] at h
          subst h
          have hm := visitImports_entries P g (fun j c => visit g fuel j (chain ++ [src]) c)
            (fun j conds es' hes' hcn => ih j _ conds es' hes' hcn) wrap hwrap f.imports
            (hg f (List.mem_of_getElem? hf)) mid hmid
          have hlt : src < g.length := by
            have := List.getElem?_eq_some_iff.1 hf
            exact this.1
          intro e he
          rcases List.mem_append.1 he with h1 | h1
          · rcases List.mem_append.1 h1 with h2 | h2
            · split at h2
              · cases h2
              · simp only [List.mem_singleton] at h2
                subst h2
                exact ⟨hwrap, (fun hk => by cases hk), (fun hk => by cases hk)⟩
            · exact hm e h2
          · simp only [List.mem_singleton] at h1
            subst h1
            exact ⟨hwrap, (fun hk => by cases hk), (fun _ => hlt)⟩

theorem visitAll_entries {P : Cond → Prop} {g : Graph} (hg : GraphSat P g) (eps : List Nat) (es : List Entry)
    (h : visitAll g eps = some es) : ∀ e ∈ es, EntryOkP P g e := by
  induction eps generalizing es with
  | nil =>
    simp only [visitAll, Option.some.injEq] at h
    subst h
    intro e he; cases he
  | cons x eps ih =>
    simp only [visitAll] at h
    split at h
    · cases h
    · rename_i a ha
      split at h
      · cases h
      · rename_i b hb
        simp only [Option.some.injEq] at h
        subst h
        intro e he
        rcases List.mem_append.1 he with h1 | h1
        · exact visit_entries hg _ x [] [] a ha (fun c hc => by cases hc) e h1
        · exact ih b hb e h1

theorem graphSat_of_noAnon {g : Graph} (h : GraphNoAnon g) : GraphSat (fun c => c.layer ≠ some LayerTok.anon) g :=
  fun f hf im him c hc => h f hf im him c hc

end EsbuildModel.CssImport
