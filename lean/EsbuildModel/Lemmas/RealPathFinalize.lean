import EsbuildModel.Lemmas.RealPathCache
/-
`finalizeResolve` without the cache, existence of directory information, and the two halves of "the resolver finds
the file and rewrites it to its real path".
-/
namespace EsbuildModel.RealPath
open EsbuildModel.PosixFS

/-- `finalize` with the cache-free directory information -/
def finalizePure (t : Tree) (preserve : Bool) (p : Path) : Path :=
  match splitLast p with
  | none => p
  | some (d, base) =>
    match dirInfoPure t preserve d.reverse with
    | none => p
    | some di =>
      if preserve then p else
      match get di.entries base with
      | none => p
      | some stored =>
        match realOfEntry t di.absPath di.absRealPath stored base with
        | none => p
        | some s => s

theorem finalize_spec {t : Tree} {preserve : Bool} {c : Cache} (hc : Coherent t preserve c) (p : Path) :
    (finalize t preserve c p).2 = finalizePure t preserve p ∧ Coherent t preserve (finalize t preserve c p).1 := by
  unfold finalize finalizePure
  cases hs : splitLast p with
  | none => exact ⟨rfl, (dirInfoCached_spec hc []).2⟩
  | some db =>
    obtain ⟨d, base⟩ := db
    simp only
    obtain ⟨h1, h2⟩ := dirInfoCached_spec hc d
    cases hd : dirInfoCached t preserve c d with
    | mk c1 di =>
      rw [hd] at h1 h2
      simp only at h1 h2
      rw [← h1]
      cases di with
      | none => exact ⟨rfl, h2⟩
      | some di =>
        simp only
        cases preserve with
        | true => exact ⟨rfl, h2⟩
        | false =>
          simp only [Bool.false_eq_true, if_false]
          cases get di.entries base with
          | none => exact ⟨rfl, h2⟩
          | some stored =>
            simp only
            cases realOfEntry t di.absPath di.absRealPath stored base with
            | none => exact ⟨rfl, h2⟩
            | some s => exact ⟨rfl, (dirInfoCached_spec h2 _).2⟩

/-- every readable directory has directory information -/
theorem pure_isSome {t : Tree} (hwf : t.WF) (preserve : Bool) : ∀ (rp : List Name) (names : List Name),
    CleanPath rp.reverse → osReaddir t rp.reverse = some names → ∃ i, dirInfoPure t preserve rp = some i := by
  intro rp
  induction rp with
  | nil =>
    intro names _ h
    simp only [List.reverse_nil] at h
    simp [dirInfoPure, dirInfoStep, h]
  | cons b pr ih =>
    intro names hc h
    have e : (b :: pr).reverse = pr.reverse ++ [b] := by simp
    rw [e] at h
    have hc' : CleanPath pr.reverse := fun c hcm => hc c (by simp; exact .inl (by simpa using hcm))
    have hb := hc b (by simp)
    obtain ⟨rd, n, hn, hres, _, _⟩ := osReaddir_sound hwf h
    obtain ⟨m, n1, n2, h1, h2, hsum⟩ := hres.split _ [b] rfl
    obtain ⟨hmd, _⟩ := resolves_single hb.1 hb.2 h2
    obtain ⟨pi, hpi⟩ := ih _ hc' (osReaddir_of_resolves h1 (by omega) hmd)
    unfold dirInfoPure
    rw [hpi, e]
    simp [dirInfoStep, h]

theorem kindOfPath_link_none {t : Tree} {p : Path} {a : Bool} {tg : List Name}
    (h : osLstat t p = some (.link a tg)) (hn : (kindOfPath t p).1 = none) : (kindOfPath t p).2 = .none := by
  unfold kindOfPath at hn ⊢
  rw [h] at hn ⊢
  simp only at hn ⊢
  cases h2 : goEval t p with
  | none => rfl
  | some l =>
    rw [h2] at hn
    simp only at hn ⊢
    cases h3 : osLstat t l with
    | none => rfl
    | some nd =>
      rw [h3] at hn
      cases nd with
      | link _ _ => rfl
      | file => simp at hn
      | dir => simp at hn

theorem kindOf_file {nd : Node} (hl : nd.isLink = false) (h : kindOf nd = .file) : nd = .file := by
  cases nd with
  | file => rfl
  | dir => simp [kindOf] at h
  | link _ _ => simp [Node.isLink] at hl

/-- **soundness half**: when `loadAsFile` has found the entry (exact name, it exists, `Kind == FileEntry`), the path
after `finalizeResolve` is the POSIX real path of the file, and a regular file is there -/
theorem finalizePure_real {t : Tree} (hwf : t.WF) (hcc : NoCaseClash t) {p : Path} (hclean : CleanPath p)
    (hfound : loadAsFileExact t p = some p) (hex : osLstat t p ≠ none) :
    RealPath t p (finalizePure t false p) ∧ t.raw (finalizePure t false p) = some .file := by
  unfold loadAsFileExact at hfound
  cases hs : splitLast p with
  | none => rw [hs] at hfound; cases hfound
  | some db =>
    obtain ⟨d, b⟩ := db
    have hp := splitLast_eq_some hs
    subst hp
    rw [hs] at hfound
    simp only at hfound
    cases hrd : osReaddir t d with
    | none => rw [hrd] at hfound; cases hfound
    | some names =>
      rw [hrd] at hfound
      simp only at hfound
      obtain ⟨rd, n, hn, hres, hdir, hnames⟩ := osReaddir_sound hwf hrd
      rw [osLstat_snoc hres hn hdir] at hex
      obtain ⟨nd, hnd⟩ := Option.ne_none_iff_exists'.1 hex
      have hmem : b ∈ names := by rw [hnames]; exact raw_snoc_mem_children hnd
      have hget : get names b = some b := get_of_mem (by rw [hnames]; exact hcc.children _) hmem
      rw [hget] at hfound
      simp only at hfound
      have hkind : entryKind t d b = .file := by
        by_cases hk : entryKind t d b = .file
        · exact hk
        · rw [if_neg hk] at hfound; cases hfound
      have hcd : CleanPath d := fun c hcm => hclean c (by simp [hcm])
      have hb := hclean b (by simp)
      obtain ⟨di, hdi⟩ := pure_isSome hwf false d.reverse names (by simpa using hcd) (by simpa using hrd)
      have hgood := pure_good hwf hcc d.reverse di (by simpa using hcd) hdi
      simp only [List.reverse_reverse] at hgood
      obtain ⟨n0, hn0, hres0⟩ := hgood.res
      obtain ⟨heff, _⟩ := hres0.det hres
      have hents : di.entries = names := by rw [hgood.ents, heff, hnames]
      unfold finalizePure
      rw [hs]
      simp only [hdi, Bool.false_eq_true, if_false, hents, hget]
      unfold entryKind at hkind
      cases hkp : kindOfPath t (d ++ [b]) with
      | mk sym k =>
        rw [hkp] at hkind
        simp only at hkind
        subst hkind
        simp only [realOfEntry, entrySymlink, hgood.abs, hkp]
        cases sym with
        | some l =>
          simp only
          obtain ⟨n', nd', hres', hraw', hl', hk'⟩ := kindOfPath_symlink_sound hwf hkp
          exact ⟨⟨n', hres'⟩, by rw [hraw', kindOf_file hl' hk'.symm]⟩
        | none =>
          simp only
          have hnl : nd.isLink = false := by
            cases nd with
            | link a tg =>
              have := kindOfPath_link_none (t := t) (p := d ++ [b]) (a := a) (tg := tg)
                (by rw [osLstat_snoc hres hn hdir, hnd]) (by rw [hkp])
              rw [hkp] at this; cases this
            | file => rfl
            | dir => rfl
          have hk2 := kindOfPath_nonlink (b := b) hres hn hdir hnd hnl
          rw [hkp] at hk2
          have hfile : nd = .file := kindOf_file hnl (Prod.mk.inj hk2).2.symm
          subst hfile
          have hstep : Resolves t rd [b] (rd ++ [b]) 0 := .step hb.1 hb.2 hdir hnd rfl (.done _)
          have hfull : Resolves t [] (d ++ [b]) (rd ++ [b]) (n + 0) := hres.append hstep
          cases hreal : di.absRealPath with
          | none =>
            simp only
            have : rd = d := by rw [← heff, eff_none hreal, hgood.abs]
            subst this
            exact ⟨⟨_, hfull⟩, hnd⟩
          | some rp =>
            simp only
            have : rd = rp := by rw [← heff, eff_some hreal]
            subst this
            exact ⟨⟨_, hfull⟩, hnd⟩

/-- the dirCache after any sequence of earlier queries -/
inductive Reachable (t : Tree) (preserve : Bool) : Cache → Prop where
  | empty : Reachable t preserve []
  | dirInfo {c} (p : Path) : Reachable t preserve c → Reachable t preserve (dirInfoCached t preserve c p).1
  | finalize {c} (p : Path) : Reachable t preserve c → Reachable t preserve (finalize t preserve c p).1

theorem Reachable.coherent {t : Tree} {preserve : Bool} {c : Cache} (h : Reachable t preserve c) :
    Coherent t preserve c := by
  induction h with
  | empty => exact coherent_nil t preserve
  | dirInfo p _ ih => exact (dirInfoCached_spec ih p).2
  | finalize p _ ih => exact (finalize_spec ih p).2


theorem pure_preserve {t : Tree} : ∀ (rp : List Name) (i : DirInfo), dirInfoPure t true rp = some i →
    i.absRealPath = none ∧ i.absPath = rp.reverse := by
  intro rp i h
  cases rp with
  | nil =>
    simp only [dirInfoPure, dirInfoStep] at h
    cases hr : osReaddir t [] with
    | none => rw [hr] at h; cases h
    | some names => rw [hr] at h; simp at h; subst h; exact ⟨rfl, rfl⟩
  | cons b pr =>
    simp only [dirInfoPure] at h
    cases hp : dirInfoPure t true pr with
    | none => rw [hp] at h; cases h
    | some pi =>
      rw [hp] at h
      simp only [dirInfoStep] at h
      cases hr : osReaddir t (b :: pr).reverse with
      | none => rw [hr] at h; cases h
      | some names =>
        rw [hr] at h
        cases hs : splitLast (b :: pr).reverse with
        | none => rw [hs] at h; simp at h; subst h; exact ⟨rfl, by simp⟩
        | some db => rw [hs] at h; simp at h; subst h; exact ⟨rfl, by simp⟩


end EsbuildModel.RealPath
