import EsbuildModel.Lemmas.ScopesParseFacts
import EsbuildModel.Lemmas.ScopesHoistFlat
import EsbuildModel.Lemmas.ScopesStmtA
/-!
The "flat" fragment (Spec/JsScopes.lean, `Stmt.flat`): the items of a flat program, and why hoistSymbols leaves its
scope tree alone.
-/
namespace EsbuildModel.Scopes
open JsScopes

theorem factsItems_append {syms : Syms} {mem : Members} : ∀ (a b : List Item) (ds : List Nat) (ks : List Sc),
    factsItems syms mem (a ++ b) ds ks →
    ∃ d1 d2 k1 k2, ds = d1 ++ d2 ∧ ks = k1 ++ k2 ∧ factsItems syms mem a d1 k1 ∧ factsItems syms mem b d2 k2
  | [], b, ds, ks, h => ⟨[], ds, [], ks, rfl, rfl, by simp [factsItems], h⟩
  | i :: a, b, ds, ks, h => by
    simp only [List.cons_append, factsItems] at h
    obtain ⟨d1, d2, k1, k2, e1, e2, h1, h2⟩ := h
    obtain ⟨d3, d4, k3, k4, e3, e4, h3, h4⟩ := factsItems_append a b d2 k2 h2
    refine ⟨d1 ++ d3, d4, k1 ++ k3, k4, by rw [e1, e3, List.append_assoc], by rw [e2, e4, List.append_assoc], ?_, h4⟩
    simp only [factsItems]
    exact ⟨d1, d3, k1, k3, rfl, rfl, h1, h3⟩

theorem factsItems_singleton {syms : Syms} {mem : Members} {i : Item} {ds : List Nat} {ks : List Sc}
    (h : factsItems syms mem [i] ds ks) : factsItem syms mem i ds ks := by
  simp only [factsItems] at h
  obtain ⟨d1, d2, k1, k2, e1, e2, h1, h2, h3⟩ := h
  subst h2; subst h3
  simpa [e1, e2] using h1

mutual
/-- `stop`: the items are those of a scope that stops hoisting -/
def flatItem (stop : Bool) : Item → Bool
  | .decl k n => (stop || (!k.isHoisted && k != .generatorOrAsyncFunction)) && k.plain && n != argumentsName
  | .declArgs => stop
  | .scope k _ lbl body => k != .className && lbl.isNone && flatItems k.stopsHoisting body
  | .classInner _ => false
  | _ => true
def flatItems (stop : Bool) : List Item → Bool
  | [] => true
  | i :: is => flatItem stop i && flatItems stop is
end

theorem flatItems_append (stop : Bool) : ∀ (a b : List Item), flatItems stop (a ++ b) = (flatItems stop a && flatItems stop b)
  | [], b => by simp [flatItems]
  | i :: a, b => by simp [flatItems, flatItems_append stop a b, Bool.and_assoc]

theorem flatItems_noArg {stop : Bool} : ∀ {is : List Item}, flatItems stop is = true → noArgDeclL is = true
  | [], _ => rfl
  | i :: is, h => by
    simp only [flatItems, Bool.and_eq_true] at h
    simp only [noArgDeclL, Bool.and_eq_true]
    refine ⟨?_, flatItems_noArg h.2⟩
    cases i <;> simp_all [noArgDecl, flatItem]

/-- the kind a scope ends with for a name is that of one of its own declarations -/
theorem kindAfterL_some {n : Name} {k : SK} : ∀ {is : List Item} {x : Option SK}, kindAfterL n is x = some k →
    x = some k ∨ Item.decl k n ∈ is ∨ (k = .arguments ∧ Item.declArgs ∈ is)
  | [], x, h => Or.inl h
  | i :: is, x, h => by
    simp only [kindAfterL] at h
    rcases kindAfterL_some h with h1 | h1 | h1
    · cases i with
      | decl k' n' =>
        simp only [kindAfter] at h1
        split at h1
        · next hn => cases h1; subst hn; exact Or.inr (Or.inl (by simp))
        · exact Or.inl h1
      | declArgs =>
        simp only [kindAfter] at h1
        split at h1
        · split at h1
          · exact Or.inl h1
          · cases h1; exact Or.inr (Or.inr ⟨rfl, by simp⟩)
        · exact Or.inl h1
      | _ => exact Or.inl h1
    · exact Or.inr (Or.inl (by simp [h1]))
    · exact Or.inr (Or.inr ⟨h1.1, by simp [h1.2]⟩)

theorem flatItems_mem {stop : Bool} {i : Item} : ∀ {is : List Item}, flatItems stop is = true → i ∈ is → flatItem stop i = true
  | [], _, h => by simp at h
  | j :: is, hf, h => by
    simp only [flatItems, Bool.and_eq_true] at hf
    simp only [List.mem_cons] at h
    rcases h with h | h
    · subst h; exact hf.1
    · exact flatItems_mem hf.2 h

theorem noHoistKids_append {syms : Syms} : ∀ {a b : List Sc}, noHoistKids syms a → noHoistKids syms b →
    noHoistKids syms (a ++ b)
  | [], _, _, hb => hb
  | k :: a, b, ha, hb => by
    simp only [List.cons_append, noHoistKids] at ha ⊢
    exact ⟨ha.1, noHoistKids_append ha.2 hb⟩

mutual
theorem facts_noHoist_item {syms : Syms} : ∀ (i : Item) (mem : Members) (ds : List Nat) (ks : List Sc) (stop : Bool),
    factsItem syms mem i ds ks → flatItem stop i = true → noHoistKids syms ks
  | .decl _ _, _, _, _, _, h, _ => by simp only [factsItem] at h; rw [h.1]; trivial
  | .rawSym _, _, _, _, _, h, _ => by simp only [factsItem] at h; rw [h.1]; trivial
  | .declArgs, _, _, _, _, h, _ => by simp only [factsItem] at h; rw [h.2]; trivial
  | .genSym _, _, _, _, _, h, _ => by simp only [factsItem] at h; rw [h.2]; trivial
  | .classInner _, _, _, _, _, h, _ => by simp only [factsItem] at h; rw [h.2]; trivial
  | .ref _, _, _, _, _, h, _ => by simp only [factsItem] at h; rw [h.2]; trivial
  | .eval, _, _, _, _, h, _ => by simp only [factsItem] at h; rw [h.2]; trivial
  | .cut, _, _, _, _, h, _ => by simp only [factsItem] at h; rw [h.2]; trivial
  | .scope k _ _ body, mem, ds, ks, _, h, hf => by
    simp only [factsItem] at h
    simp only [flatItem, Bool.and_eq_true] at hf
    replace hf := hf.2
    obtain ⟨f, kids, e1, e2, _, ⟨hnm, hnd, _, hkind⟩, hbody⟩ := h
    subst e1
    simp only [noHoistKids, noHoistSc, and_true]
    refine ⟨?_, facts_noHoist_items body f.members ds kids _ hbody hf⟩
    cases hs : k.stopsHoisting with
    | true => exact Or.inl (by rw [e2]; exact hs)
    | false =>
      right
      intro m hm
      obtain ⟨n, hn⟩ := mem_refsOf_lookup hnd hm
      obtain ⟨s, hs', hsn⟩ := hnm n m hn
      refine ⟨s, hs', ?_⟩
      have hk : k ≠ .fnBody := by intro e; subst e; simp [ScK.stopsHoisting] at hs
      have := hkind n (Or.inr (flatItems_noArg hf))
      simp only [hk, if_false, memberKind, hn, Option.bind_some, kindOf?, hs', Option.map_some] at this
      rcases kindAfterL_some this.symm with h1 | h1 | h1
      · cases h1
      · have := flatItems_mem hf h1
        simp only [flatItem, hs, Bool.false_or, Bool.and_eq_true, Bool.not_eq_true'] at this
        exact this.1.1.1
      · have := flatItems_mem hf h1.2
        simp only [flatItem, hs] at this
        cases this
theorem facts_noHoist_items {syms : Syms} : ∀ (is : List Item) (mem : Members) (ds : List Nat) (ks : List Sc) (stop : Bool),
    factsItems syms mem is ds ks → flatItems stop is = true → noHoistKids syms ks
  | [], _, _, _, _, h, _ => by simp only [factsItems] at h; rw [h.2]; trivial
  | i :: is, mem, ds, ks, stop, h, hf => by
    simp only [factsItems] at h
    simp only [flatItems, Bool.and_eq_true] at hf
    obtain ⟨d1, d2, k1, k2, _, e2, h1, h2⟩ := h
    rw [e2]
    exact noHoistKids_append (facts_noHoist_item i mem d1 k1 stop h1 hf.1) (facts_noHoist_items is mem d2 k2 stop h2 hf.2)
end

-- the items of a flat program ---------------------------------------------------------------------------------------

def noBodyItems (is : List Item) : Bool := is.all (fun i => !isBodyItem i)

theorem okItems_append {seen : Bool} : ∀ (a b : List Item), noBodyItems a = true →
    okItems seen (a ++ b) = (okItems seen a && okItems seen b)
  | [], b, _ => by simp [okItems]
  | i :: a, b, h => by
    simp only [noBodyItems, List.all_cons, Bool.and_eq_true, Bool.not_eq_true'] at h
    have ih := okItems_append (seen := seen) a b (by simpa [noBodyItems] using h.2)
    simp only [List.cons_append, okItems, h.1, Bool.or_false, ih, Bool.and_assoc]

theorem noBodyItems_append (a b : List Item) : noBodyItems (a ++ b) = (noBodyItems a && noBodyItems b) := by
  simp [noBodyItems]

theorem params_flat (stop : Bool) : ∀ (ps : List Name), ps.all (· != argumentsName) = true →
    flatItems true (ps.map (Item.decl .hoisted)) = true ∧ okItems false (ps.map (Item.decl .hoisted)) = true ∧
    noBodyItems (ps.map (Item.decl .hoisted)) = true
  | [], _ => by simp [flatItems, okItems, noBodyItems]
  | p :: ps, h => by
    simp only [List.all_cons, Bool.and_eq_true] at h
    obtain ⟨h1, h2, h3⟩ := params_flat stop ps h.2
    simp only [noBodyItems] at h3
    simp [flatItems, flatItem, okItems, okItem, noBodyItems, isBodyItem, SK.plain, h1, h2, h3, JsScopes.argumentsName,
      Scopes.argumentsName] at h ⊢
    exact h.1

theorem catch_flat (c : CatchParam) (h : c.avoids JsScopes.argumentsName = true) :
    flatItems false (catchItems c) = true ∧ okItems false (catchItems c) = true ∧ noBodyItems (catchItems c) = true := by
  cases c with
  | none => simp [catchItems, flatItems, okItems, noBodyItems]
  | ident n =>
    simp [CatchParam.avoids, CatchParam.bound, JsScopes.argumentsName] at h
    simp [catchItems, flatItems, flatItem, okItems, okItem, noBodyItems, isBodyItem, SK.plain, SK.isHoisted,
      Scopes.argumentsName, h]
  | pattern ns =>
    simp only [CatchParam.avoids, CatchParam.bound] at h
    simp only [catchItems]
    induction ns with
    | nil => simp [flatItems, okItems, noBodyItems]
    | cons n ns ih =>
      simp only [List.all_cons, Bool.and_eq_true] at h
      obtain ⟨h1, h2, h3⟩ := ih h.2
      simp only [noBodyItems] at h3
      simp [flatItems, flatItem, okItems, okItem, noBodyItems, isBodyItem, SK.plain, SK.isHoisted, h1, h2, h3,
        JsScopes.argumentsName, Scopes.argumentsName] at h ⊢
      exact h.1

/-- the shape of the items of a function: parameters (after the optional name), the `arguments` step, the body -/
theorem fn_flat (name : Option Name) (ps : List Name) (hasArgs us : Bool) (bodyItems : List Item)
    (hn : (match name with | some n => n != JsScopes.argumentsName | none => true) = true)
    (hps : ps.all (· != JsScopes.argumentsName) = true)
    (hb : flatItems true bodyItems = true ∧ okItems false bodyItems = true) :
    flatItem true (fnItems name ps hasArgs us bodyItems) = true ∧ okItem false (fnItems name ps hasArgs us bodyItems) = true := by
  obtain ⟨p1, p2, p3⟩ := params_flat true ps hps
  have hnd : flatItems true ((nameDecl name).map (fun d => Item.decl d.1 d.2)) = true ∧
      okItems false ((nameDecl name).map (fun d => Item.decl d.1 d.2)) = true ∧
      noBodyItems ((nameDecl name).map (fun d => Item.decl d.1 d.2)) = true := by
    cases name with
    | none => simp [nameDecl, flatItems, okItems, noBodyItems]
    | some n =>
      simp [JsScopes.argumentsName] at hn
      simp [nameDecl, flatItems, flatItem, okItems, okItem, noBodyItems, isBodyItem, SK.plain, Scopes.argumentsName, hn]
  have hmap : (nameDecl name ++ ps.map (fun p => (SK.hoisted, p))).map (fun d => Item.decl d.1 d.2) =
      (nameDecl name).map (fun d => Item.decl d.1 d.2) ++ ps.map (Item.decl .hoisted) := by
    simp [List.map_map, Function.comp_def]
  simp only [fnItems, flatItem, okItem, ScK.stopsHoisting, hmap]
  have hnb : noBodyItems ((nameDecl name).map (fun d => Item.decl d.1 d.2) ++ ps.map (Item.decl .hoisted)) = true := by
    rw [noBodyItems_append, hnd.2.2, p3]; rfl
  rw [flatItems_append, flatItems_append, okItems_append _ _ hnb, okItems_append _ _ hnd.2.2]
  rw [hnd.1, hnd.2.1, p1, p2]
  cases hasArgs <;>
    simp [flatItems, flatItem, okItems, okItem, isBodyItem, ScK.stopsHoisting, hb.1, hb.2, hasBody]

mutual
theorem stmt_flatItems : ∀ (s : Stmt) (top : Bool), s.flat top = true →
    flatItems top (stmtItems s) = true ∧ okItems false (stmtItems s) = true ∧ noBodyItems (stmtItems s) = true
  | .var_ n, top, h => by
    simp [Stmt.flat, JsScopes.argumentsName] at h
    simp [stmtItems, flatItems, flatItem, okItems, okItem, noBodyItems, isBodyItem, SK.plain, Scopes.argumentsName, h]
  | .lex k n, top, h => by
    simp [Stmt.flat, JsScopes.argumentsName] at h
    cases k <;>
      simp_all [stmtItems, flatItems, flatItem, okItems, okItem, noBodyItems, isBodyItem, SK.plain, SK.isHoisted, lexSK,
        Scopes.argumentsName]
  | .ref n, top, _ => by simp [stmtItems, flatItems, flatItem, okItems, okItem, noBodyItems, isBodyItem]
  | .block b, top, h => by
    simp only [Stmt.flat] at h
    obtain ⟨h1, h2, _⟩ := list_flatItems b false h
    simp [stmtItems, flatItems, flatItem, okItems, okItem, noBodyItems, isBodyItem, ScK.stopsHoisting, h1, h2]
  | .try_ b c hd, top, h => by
    simp only [Stmt.flat, Bool.and_eq_true] at h
    obtain ⟨h1, h2, _⟩ := list_flatItems b false h.1.1
    obtain ⟨h3, h4, _⟩ := list_flatItems hd false h.2
    obtain ⟨c1, c2, c3⟩ := catch_flat c h.1.2
    simp only [stmtItems, flatItems, flatItem, okItems, okItem, noBodyItems, isBodyItem, ScK.stopsHoisting, h1, h2,
      flatItems_append, okItems_append _ _ c3, c1, c2, h3, h4]
    simp
  | .fn n gen ps us body, top, h => by
    simp only [Stmt.flat, Bool.and_eq_true] at h
    obtain ⟨⟨⟨ht, hn⟩, hps⟩, hb⟩ := h
    obtain ⟨h1, h2, _⟩ := list_flatItems body true hb
    obtain ⟨f1, f2⟩ := fn_flat none ps true us (listItems body) rfl hps ⟨h1, h2⟩
    rw [stmtItems_fn]
    simp [JsScopes.argumentsName] at hn
    simp only [flatItems, okItems, noBodyItems, List.all_cons, List.all_nil, f2, Bool.and_true]
    subst ht
    cases gen <;>
      simp [flatItem, okItem, isBodyItem, fnItems, SK.plain, Scopes.argumentsName, hn, ScK.stopsHoisting] at f1 ⊢ <;>
      exact f1
  | .fnExpr n ps us body, top, h => by
    simp only [Stmt.flat, Bool.and_eq_true] at h
    obtain ⟨⟨hn, hps⟩, hb⟩ := h
    obtain ⟨h1, h2, _⟩ := list_flatItems body true hb
    obtain ⟨f1, f2⟩ := fn_flat n ps true us (listItems body) hn hps ⟨h1, h2⟩
    rw [stmtItems_fnExpr]
    simp only [flatItems, okItems, noBodyItems, List.all_cons, List.all_nil, f2, Bool.and_true]
    simp [flatItem, isBodyItem, fnItems, ScK.stopsHoisting] at f1 ⊢
    exact f1
  | .arrow ps body, top, h => by
    simp only [Stmt.flat, Bool.and_eq_true] at h
    obtain ⟨hps, hb⟩ := h
    obtain ⟨h1, h2, _⟩ := list_flatItems body true hb
    obtain ⟨f1, f2⟩ := fn_flat none ps false false (listItems body) rfl hps ⟨h1, h2⟩
    rw [stmtItems_arrow]
    simp only [flatItems, okItems, noBodyItems, List.all_cons, List.all_nil, f2, Bool.and_true]
    simp [flatItem, isBodyItem, fnItems, ScK.stopsHoisting] at f1 ⊢
    exact f1
theorem list_flatItems : ∀ (ss : List Stmt) (top : Bool), flatL top ss = true →
    flatItems top (listItems ss) = true ∧ okItems false (listItems ss) = true ∧ noBodyItems (listItems ss) = true
  | [], _, _ => by simp [listItems, flatItems, okItems, noBodyItems]
  | s :: ss, top, h => by
    simp only [flatL, Bool.and_eq_true] at h
    obtain ⟨h1, h2, h3⟩ := stmt_flatItems s top h.1
    obtain ⟨h4, h5, h6⟩ := list_flatItems ss top h.2
    simp only [listItems, flatItems_append, okItems_append _ _ h3, noBodyItems_append, h1, h2, h3, h4, h5, h6]
    simp
end

end EsbuildModel.Scopes
