/-
Lemmas about the lazy-init wrappers of Impl/Interop.lean (`__esm`, `__esmMin`, `__commonJS`, `__commonJSMin`).
-/
import EsbuildModel.Impl.Interop
namespace EsbuildModel.Interop

/-- number of times a host function (a module body) was started -/
def callCount : List Ev → Nat
  | [] => 0
  | .call _ _ _ :: r => callCount r + 1
  | .reent _ :: r => callCount r

theorem callCount_append (a b : List Ev) : callCount (a ++ b) = callCount a + callCount b := by
  induction a with
  | nil => simp [callCount]
  | cons e r ih => cases e <;> simp [callCount, ih] <;> omega

/-- the wrapper will not start the body any more: `fn` was cleared or an error is cached -/
def EsmCell.spent (c : EsmCell) : Prop := c.err.isSome = true ∨ truthy c.fn = false

theorem callee_err {min : Bool} {h : Heap} {fn : Val} {x : Exc} (hc : callee min h fn = .err x) : x = .illFormed := by
  unfold callee at hc
  repeat' split at hc
  all_goals first | (cases hc; rfl) | cases hc

/-- a spent wrapper answers without running anything and without changing its state -/
theorem esmEnter_spent (min : Bool) (rb : EsmCell → St → Res Val × EsmCell × St) (cell : EsmCell) (s : St)
    (h : cell.spent) :
    esmEnter min rb cell s = ((match cell.err with | some e => .err e | none => .ok cell.res), cell, s) := by
  unfold esmEnter
  cases he : cell.err with
  | some e => rfl
  | none =>
    rcases h with h | h
    · simp [he] at h
    · simp [h]

theorem esmRun_spent (min : Bool) : ∀ (b : Body Empty) (cell : EsmCell) (s : St), cell.spent →
    ∃ r s', esmRun min b cell s = (r, cell, s') ∧ s'.heap = s.heap ∧ callCount s'.tr = callCount s.tr
  | .done (.ret v), cell, s, _ => ⟨_, _, rfl, rfl, rfl⟩
  | .done (.throw v), cell, s, _ => ⟨_, _, rfl, rfl, rfl⟩
  | .act a _, _, _, _ => nomatch a
  | .reenter nested rest, cell, s, h => by
    unfold esmRun
    rw [esmEnter_spent min _ cell s h]
    obtain ⟨r, s', e, hh, hc⟩ := esmRun_spent min rest cell
      { s with tr := s.tr ++ [.reent (match cell.err with | some e => .err e | none => .ok cell.res)] } h
    refine ⟨r, s', e, hh, ?_⟩
    rw [hc, callCount_append]; simp [callCount]

/-- one call from outside: the body is started at most once, and if it is started (or the call fails with a
TypeError) the wrapper is spent afterwards -/
theorem esmCall_once (min : Bool) (b : Body Empty) (cell : EsmCell) (s : St) :
    ∃ r cell' s', esmCall min b cell s = (r, cell', s') ∧
      callCount s'.tr ≤ callCount s.tr + 1 ∧
      (cell.spent → cell' = cell ∧ s' = s) ∧
      (callCount s'.tr = callCount s.tr + 1 → cell'.spent) := by
  by_cases hs : cell.spent
  · refine ⟨_, cell, s, esmEnter_spent min _ cell s hs, by omega, fun _ => ⟨rfl, rfl⟩, fun h => by omega⟩
  · have he : cell.err = none := by
      cases h : cell.err with
      | none => rfl
      | some e => exact absurd (Or.inl (by simp [h])) hs
    have hf : truthy cell.fn = true := by
      cases h : truthy cell.fn with
      | true => rfl
      | false => exact absurd (Or.inr h) hs
    unfold esmCall esmEnter
    simp only [he, hf, Bool.not_true, Bool.false_eq_true, if_false]
    cases hc : callee min s.heap cell.fn with
    | err x => exact ⟨_, _, _, rfl, by omega, fun h => absurd h hs, fun h => by omega⟩
    | ok c =>
      cases c with
      | none => exact ⟨_, _, _, rfl, by omega, fun h => absurd h hs, fun h => by omega⟩
      | some f =>
        obtain ⟨r, s', e, _, hcnt⟩ := esmRun_spent min b ⟨.num 0, cell.res, none⟩
          ⟨s.heap, s.tr ++ [.call f .undef [.num 0]]⟩ (Or.inr rfl)
        simp only [e]
        have hcnt' : callCount s'.tr = callCount s.tr + 1 := by
          rw [hcnt, callCount_append]; simp [callCount]
        cases r with
        | ok v => exact ⟨_, _, _, rfl, by omega, fun h => absurd h hs, fun _ => Or.inr rfl⟩
        | err x => exact ⟨_, _, _, rfl, by omega, fun h => absurd h hs, fun _ => Or.inl rfl⟩

theorem esmCalls_once (min : Bool) : ∀ (bs : List (Body Empty)) (cell : EsmCell) (s : St),
    ∃ rs cell' s', esmCalls min bs cell s = (rs, cell', s') ∧
      callCount s'.tr ≤ callCount s.tr + 1 ∧ (cell.spent → callCount s'.tr = callCount s.tr)
  | [], cell, s => ⟨[], cell, s, rfl, by omega, fun _ => rfl⟩
  | b :: bs, cell, s => by
    obtain ⟨r, c1, s1, e1, hle, hsp, hone⟩ := esmCall_once min b cell s
    obtain ⟨rs, c2, s2, e2, hle2, hsp2⟩ := esmCalls_once min bs c1 s1
    refine ⟨r :: rs, c2, s2, by simp [esmCalls, e1, e2], ?_, ?_⟩
    · by_cases h : callCount s1.tr = callCount s.tr + 1
      · have := hsp2 (hone h); omega
      · omega
    · intro h
      obtain ⟨hc, hs⟩ := hsp h
      subst hc; subst hs
      exact hsp2 h

/-- an error (other than the model's own `illFormed`) that a call ends with is cached … -/
theorem esmCall_error_cached (min : Bool) (b : Body Empty) (cell cell' : EsmCell) (s s' : St) (x : Exc)
    (h : esmCall min b cell s = (.err x, cell', s')) (hx : x ≠ .illFormed) : cell'.err = some x := by
  unfold esmCall esmEnter at h
  split at h
  · next e he => cases h; exact he
  · split at h
    · cases h
    · split at h
      · next y hy => cases h; exact absurd (callee_err hy) hx
      · cases h; rfl
      · split at h
        · cases h
        · cases h; rfl

/-- … and every later call throws it again without running anything -/
theorem esmCall_after_error (min : Bool) (b : Body Empty) (cell : EsmCell) (s : St) (x : Exc)
    (h : cell.err = some x) : esmCall min b cell s = (.err x, cell, s) := by
  unfold esmCall esmEnter
  simp [h]

/-- a call that returns a value leaves a wrapper that returns this value for ever after, running nothing -/
theorem esmCall_result_cached (min : Bool) (b : Body Empty) (cell cell' : EsmCell) (s s' : St) (v : Val)
    (h : esmCall min b cell s = (.ok v, cell', s')) :
    ∀ b2 s2, esmCall min b2 cell' s2 = (.ok v, cell', s2) := by
  have key : cell'.err = none ∧ truthy cell'.fn = false ∧ cell'.res = v := by
    unfold esmCall esmEnter at h
    split at h
    · cases h
    · next he =>
      split at h
      · next hf => cases h; exact ⟨he, by simpa using hf, rfl⟩
      · split at h
        · cases h
        · cases h
        · next f _ =>
          obtain ⟨r, s1, e, _, _⟩ := esmRun_spent min b ⟨.num 0, cell.res, cell.err⟩
            ⟨s.heap, s.tr ++ [.call f .undef [.num 0]]⟩ (Or.inr rfl)
          rw [e] at h
          cases r with
          | ok v' => simp only at h; cases h; exact ⟨he, rfl, rfl⟩
          | err y => simp only at h; cases h
  intro b2 s2
  unfold esmCall esmEnter
  simp [key.1, key.2.1, key.2.2]

end EsbuildModel.Interop
