import EsbuildModel.Lemmas.CssLexRedecode
import EsbuildModel.Lemmas.CssLexSuffix
/-!
Names and decoded texts in terms of CODE POINTS: `nameCps` (what `consumeName`'s loop reads) and `decCps`
(what `decodeEscapesInToken` writes), and the bridge from the byte-level functions of the model to them.
-/
namespace EsbuildModel.CssLex
open EsbuildModel.Spec.Unicode (IsScalar)

theorem IsDec.scalar {s : List Ch} (h : IsDec s) : ∀ c ∈ s, IsScalar c.cp := by
  obtain ⟨i, rfl⟩ := h; exact decodeAll_scalar i

/-- code points of the name that starts at `s`, and the state after it (the loop of `consumeName` with the
`strings.Builder` read as code points) -/
def nameCps (s : List Ch) : List Nat × List Ch :=
  match s with
  | [] => ([], [])
  | c :: t =>
    if isNameContinue c.cp then (c.cp :: (nameCps t).1, (nameCps t).2)
    else if isValidEscape (c :: t) then
      ((consumeEscape (c :: t)).1 :: (nameCps (consumeEscape (c :: t)).2).1, (nameCps (consumeEscape (c :: t)).2).2)
    else ([], c :: t)
termination_by s.length
decreasing_by
  · simp
  · have := consumeEscape_length c t; simp only [List.length_cons]; omega

/-- (N1) the byte loop writes the UTF-8 of `nameCps` -/
theorem nameLoop_eq (acc : List Nat) (s : List Ch) :
    nameLoop acc s = (acc ++ (nameCps s).1.flatMap encRune, (nameCps s).2) := by
  fun_induction nameLoop acc s with
  | case1 acc => simp [nameCps]
  | case2 acc c t h ih => rw [ih]; rw [nameCps]; simp [h]
  | case3 acc c t h1 h2 ih =>
    rw [ih]; conv => rhs; rw [nameCps]
    simp only [h1, h2, if_true, Bool.false_eq_true, if_false, List.flatMap_cons, List.append_assoc]
  | case4 acc c t h1 h2 => rw [nameCps]; simp [h1, h2]

/-- the fast loop of `consumeName` is the first rounds of `nameCps` -/
theorem nameCps_skip (s : List Ch) :
    nameCps s = (cpsOf (takeWhileCh isNameContinue s) ++ (nameCps (skipWhile isNameContinue s)).1,
                 (nameCps (skipWhile isNameContinue s)).2) := by
  induction s with
  | nil => simp [takeWhileCh, skipWhile, cpsOf, nameCps]
  | cons c t ih =>
    by_cases h : isNameContinue c.cp = true
    · rw [nameCps]; simp only [h, if_true, takeWhileCh, skipWhile, cpsOf, List.map_cons, List.cons_append]
      rw [ih]; simp [cpsOf]
    · simp [takeWhileCh, skipWhile, h, cpsOf]

/-- (N2) `consumeName` stops where `nameCps` stops -/
theorem consumeName_rest (s : List Ch) : (consumeName s).2 = (nameCps s).2 := by
  rw [nameCps_skip]
  unfold consumeName
  cases hs : skipWhile isNameContinue s with
  | nil => simp [isValidEscape, nameCps]
  | cons c t =>
    have hc : isNameContinue c.cp = false := by
      -- the rune at which the fast loop stops is not a name rune
      have : ∀ (s : List Ch) c t, skipWhile isNameContinue s = c :: t → isNameContinue c.cp = false := by
        intro s
        induction s with
        | nil => intro c t h; simp [skipWhile] at h
        | cons d u ih =>
          intro c t h
          simp only [skipWhile] at h
          split at h
          · exact ih c t h
          · next hd => simp only [List.cons.injEq] at h; rw [← h.1]; simpa using hd
      exact this s c t hs
    split
    · next hv => rw [nameLoop_eq]; conv => rhs; rw [nameCps]; simp [hc, hv]
    · next hv => rw [nameCps]; simp [hc, hv]

/-- code points that `decodeEscapesInToken`'s slow loop writes for the runes `s` -/
def decCps (s : List Ch) : List Nat :=
  match s with
  | [] => []
  | c :: t =>
    if c.cp != 92 then (if c.cp == 0 then runeError else c.cp) :: decCps t
    else
      match t with
      | [] => [runeError]
      | d :: u =>
        match isHex d.cp with
        | none =>
          if d.cp == 10 || d.cp == 12 then decCps u
          else if d.cp == 13 then
            match u with
            | [] => []
            | e :: v => if e.cp == 10 then decCps v else decCps (e :: v)
          else d.cp :: decCps u
        | some h => fixHex (hexLoop 5 h u).1 :: decCps (skipOneWs (hexLoop 5 h u).2)
termination_by s.length
decreasing_by
  all_goals simp only [List.length_cons]
  all_goals try omega
  have := skipOneWs_length (hexLoop 5 h u).2
  have := hexLoop_length 5 h u
  omega

/-- (D1) the byte loop writes the UTF-8 of `decCps` -/
theorem decLoop_eq (s : List Ch) : decLoop s = (decCps s).flatMap encRune := by
  fun_induction decLoop s <;> (rw [decCps.eq_def]; simp_all)

/-! ### `decodeEscapesInToken` on the bytes of a token = `decCps` on its runes -/

/-- not a backslash and not NUL -/
def plainCp (c : Nat) : Bool := c != 92 && c != 0

theorem decCps_plain (s : List Ch) (h : ∀ c ∈ s, plainCp c.cp = true) : decCps s = cpsOf s := by
  induction s with
  | nil => simp [decCps, cpsOf]
  | cons c t ih =>
    have hc := h c (by simp)
    simp only [plainCp, Bool.and_eq_true, bne_iff_ne, ne_eq] at hc
    rw [decCps.eq_def]
    have h1 : (c.cp != 92) = true := by simp [hc.1]
    have h2 : (c.cp == 0) = false := by simp [hc.2]
    simp only [h1, if_true, h2, Bool.false_eq_true, if_false, cpsOf, List.map_cons]
    rw [ih (fun x hx => h x (List.mem_cons_of_mem _ hx))]; rfl

theorem decCps_append_plain (a b : List Ch) (h : ∀ c ∈ a, plainCp c.cp = true) : decCps (a ++ b) = cpsOf a ++ decCps b := by
  induction a with
  | nil => simp [cpsOf]
  | cons c t ih =>
    have hc := h c (by simp)
    simp only [plainCp, Bool.and_eq_true, bne_iff_ne, ne_eq] at hc
    rw [List.cons_append, decCps.eq_def]
    have h1 : (c.cp != 92) = true := by simp [hc.1]
    have h2 : (c.cp == 0) = false := by simp [hc.2]
    simp only [h1, if_true, h2, Bool.false_eq_true, if_false, cpsOf, List.map_cons, List.cons_append]
    rw [ih (fun x hx => h x (List.mem_cons_of_mem _ hx))]; rfl

theorem takeWhileCh_all (p : Nat → Bool) (s : List Ch) : ∀ c ∈ takeWhileCh p s, p c.cp = true := by
  induction s with
  | nil => intro c hc; simp [takeWhileCh] at hc
  | cons d t ih =>
    intro c hc
    simp only [takeWhileCh] at hc
    split at hc
    · next hd => simp only [List.mem_cons] at hc; rcases hc with rfl | hc; exact hd; exact ih c hc
    · simp at hc

/-- the byte scan for the first `\` or NUL stops at a rune boundary -/
theorem bytes_takeWhile_plain (s : List Ch) (hw : WfS s) :
    (rawOf s).takeWhile (fun b => b != 92 && b != 0) = rawOf (takeWhileCh plainCp s) ∧
    (rawOf s).dropWhile (fun b => b != 92 && b != 0) = rawOf (skipWhile plainCp s) := by
  induction s with
  | nil => simp [rawOf, takeWhileCh, skipWhile]
  | cons c t ih =>
    have ih' := ih hw.tail
    rw [rawOf_cons]
    rcases hw.head with ⟨h1, h2⟩ | ⟨h1, h2, h3⟩
    · rw [h2]
      simp only [List.cons_append, List.nil_append, takeWhileCh, skipWhile, plainCp]
      by_cases hp : (c.cp != 92 && c.cp != 0) = true
      · simp only [List.takeWhile_cons, List.dropWhile_cons, hp, if_true, rawOf_cons, h2]
        simp [ih'.1, ih'.2]
      · simp only [List.takeWhile_cons, List.dropWhile_cons, hp, Bool.false_eq_true, if_false, rawOf_cons, h2, rawOf_nil]
        simp
    · have hall : ∀ b ∈ c.raw, (b != 92 && b != 0) = true := by
        intro b hb; have := h3 b hb
        simp only [Bool.and_eq_true, bne_iff_ne, ne_eq]; omega
      have hp : plainCp c.cp = true := by simp only [plainCp, Bool.and_eq_true, bne_iff_ne, ne_eq]; omega
      rw [List.takeWhile_append_of_pos hall, List.dropWhile_append_of_pos hall]
      simp only [takeWhileCh, skipWhile, hp, if_true, rawOf_cons]
      simp [ih'.1, ih'.2]

theorem fixHex_scalar (h : Nat) : IsScalar (fixHex h) := by
  unfold fixHex IsScalar; split
  · decide
  · omega

theorem decCps_scalar (s : List Ch) (hs : ∀ c ∈ s, IsScalar c.cp) : ∀ x ∈ decCps s, IsScalar x := by
  have herr : IsScalar runeError := by decide
  fun_induction decCps s with
  | case1 => intro x hx; simp at hx
  | case2 c t h ih =>
    intro x hx
    simp only [List.mem_cons] at hx
    rcases hx with rfl | hx
    · split
      · exact herr
      · exact hs c (by simp)
    · exact ih (fun y hy => hs y (List.mem_cons_of_mem _ hy)) x hx
  | case3 c h => intro x hx; simp at hx; rw [hx]; exact herr
  | case4 c h d u hh hd ih => exact ih (fun y hy => hs y (by simp [hy]))
  | case5 c h d hh hd1 hd2 => intro x hx; simp at hx
  | case6 c h d hh hd1 hd2 e v he ih => exact ih (fun y hy => hs y (by simp [hy]))
  | case7 c h d hh hd1 hd2 e v he ih => exact ih (fun y hy => hs y (List.mem_cons_of_mem _ (List.mem_cons_of_mem _ hy)))
  | case8 c h d u hh hd1 hd2 ih =>
    intro x hx
    simp only [List.mem_cons] at hx
    rcases hx with rfl | hx
    · exact hs d (by simp)
    · exact ih (fun y hy => hs y (by simp [hy])) x hx
  | case9 c h d u hv hh ih =>
    intro x hx
    simp only [List.mem_cons] at hx
    rcases hx with rfl | hx
    · exact fixHex_scalar _
    · refine ih (fun y hy => hs y ?_) x hx
      have h1 := (skipOneWs_suffix (hexLoop 5 hv u).2).trans (hexLoop_suffix 5 hv u)
      have := h1.subset hy
      simp [this]

/-- the UTF-8 of scalar values decodes to those scalar values -/
theorem decodeAll_flatMap_enc (cps : List Nat) (h : ∀ c ∈ cps, IsScalar c) (rest : List Nat) :
    decodeAll (cps.flatMap encRune ++ rest) = cps.map (fun c => ⟨c, encRune c⟩) ++ decodeAll rest := by
  induction cps with
  | nil => simp
  | cons c t ih =>
    simp only [List.flatMap_cons, List.append_assoc, List.map_cons, List.cons_append]
    rw [decodeAll_enc c (h c (by simp))]
    rw [ih (fun x hx => h x (List.mem_cons_of_mem _ hx))]

theorem encRune_head_nonCont (c : Nat) (hc : IsScalar c) : ∀ b, (encRune c).head? = some b → Wtf8.isCont b = false := by
  intro b hb
  rw [encRune_scalar c hc] at hb
  unfold IsScalar at hc
  unfold Wtf8.encA at hb
  simp only [Wtf8.isCont, Bool.and_eq_false_imp, decide_eq_true_eq, decide_eq_false_iff_not]
  split at hb
  · simp at hb; omega
  · split at hb
    · simp at hb; omega
    · split at hb
      · simp at hb; omega
      · simp at hb; omega

theorem flatMap_enc_nonCont (cps : List Nat) (h : ∀ c ∈ cps, IsScalar c) : NonContStart (cps.flatMap encRune) := by
  intro b hb
  cases cps with
  | nil => simp at hb
  | cons c t =>
    have hc := h c (by simp)
    simp only [List.flatMap_cons] at hb
    have hne : encRune c ≠ [] := by
      rw [encRune_scalar c hc]; have := (Wtf8.encA_length c).1; intro h0; rw [h0] at this; simp at this
    cases he : encRune c with
    | nil => exact absurd he hne
    | cons x xs =>
      rw [he] at hb; simp at hb
      exact encRune_head_nonCont c hc b (by rw [he, hb]; rfl)

theorem rawOf_eq_nil (s : List Ch) (hw : WfS s) (h : rawOf s = []) : s = [] := by
  cases s with
  | nil => rfl
  | cons c t =>
    rw [rawOf_cons] at h
    have := (hw.head).raw_ne_nil
    cases hr : c.raw with
    | nil => exact absurd hr this
    | cons x xs => rw [hr] at h; simp at h

theorem cpsOf_map_mk (cps : List Nat) : cpsOf (cps.map (fun c => (⟨c, encRune c⟩ : Ch))) = cps := by
  simp [cpsOf, List.map_map, Function.comp_def]

/-- (D5) the code points of `decodeEscapesInToken(raw)` for the bytes of any run of runes the lexer saw -/
theorem decodeEscapes_cps (chars b : List Ch) (h : IsDec (chars ++ b)) :
    cpsOf (decodeAll (decodeEscapes (rawOf chars))) = decCps chars := by
  have hwc : WfS chars := (h.prefix).wf
  obtain ⟨ht, hd⟩ := bytes_takeWhile_plain chars hwc
  unfold decodeEscapes
  simp only [ht, hd]
  have hsplit := takeWhile_skipWhile plainCp chars
  have hplain := takeWhileCh_all plainCp chars
  by_cases hb' : skipWhile plainCp chars = []
  · rw [hb', rawOf_nil]
    simp only [List.isEmpty_nil, if_true]
    rw [h.redecode]
    rw [hb', List.append_nil] at hsplit
    rw [hsplit] at hplain
    rw [decCps_plain _ hplain]
  · have hne : (rawOf (skipWhile plainCp chars)).isEmpty = false := by
      cases hr : rawOf (skipWhile plainCp chars) with
      | nil =>
        exfalso; apply hb'
        exact rawOf_eq_nil _ (hwc.suffix (skipWhile_suffix _ _)) hr
      | cons x xs => rfl
    simp only [hne, Bool.false_eq_true, if_false]
    -- both parts are runs of runes the lexer saw
    have hdec : IsDec (takeWhileCh plainCp chars ++ (skipWhile plainCp chars ++ b)) := by
      rw [← List.append_assoc, hsplit]; exact h
    have hdecb : IsDec (skipWhile plainCp chars ++ b) := hdec.drop_prefix
    rw [hdecb.redecode, decLoop_eq]
    have hsc : ∀ x ∈ decCps (skipWhile plainCp chars), IsScalar x :=
      decCps_scalar _ (fun c hc => hdecb.scalar c (by simp [hc]))
    rw [decodeAll_append_nonCont _ _ (flatMap_enc_nonCont _ hsc), hdec.redecode]
    have := decodeAll_flatMap_enc (decCps (skipWhile plainCp chars)) hsc []
    simp only [List.append_nil, decodeAll_nil] at this
    rw [this]
    simp only [cpsOf, List.map_append]
    have e2 := cpsOf_map_mk (decCps (skipWhile plainCp chars))
    simp only [cpsOf] at e2
    rw [e2]
    conv => rhs; rw [← hsplit]
    rw [decCps_append_plain _ _ hplain]; rfl

/-- every rune stands for its own UTF-8 (no ill-formed byte among them) -/
def WellEnc (s : List Ch) : Prop := ∀ c ∈ s, c.raw = encRune c.cp

theorem WellEnc.raw {s : List Ch} (h : WellEnc s) : rawOf s = (cpsOf s).flatMap encRune := by
  induction s with
  | nil => rfl
  | cons c t ih =>
    rw [rawOf_cons, h c (by simp), ih (fun x hx => h x (List.mem_cons_of_mem _ hx))]
    simp [cpsOf]

theorem WellEnc.append {a b : List Ch} (ha : WellEnc a) (hb : WellEnc b) : WellEnc (a ++ b) := by
  intro c hc; simp only [List.mem_append] at hc; rcases hc with h | h; exact ha c h; exact hb c h

/-- `decodeEscapesInToken` returns well-formed UTF-8 when it is given well-formed UTF-8 -/
theorem decodeEscapes_wellEnc (chars b : List Ch) (h : IsDec (chars ++ b)) (hwe : WellEnc chars) :
    WellEnc (decodeAll (decodeEscapes (rawOf chars))) := by
  have hwc : WfS chars := (h.prefix).wf
  obtain ⟨ht, hd⟩ := bytes_takeWhile_plain chars hwc
  unfold decodeEscapes
  simp only [ht, hd]
  have hsplit := takeWhile_skipWhile plainCp chars
  by_cases hb' : skipWhile plainCp chars = []
  · rw [hb', rawOf_nil]
    simp only [List.isEmpty_nil, if_true]
    rw [h.redecode]; exact hwe
  · have hne : (rawOf (skipWhile plainCp chars)).isEmpty = false := by
      cases hr : rawOf (skipWhile plainCp chars) with
      | nil =>
        exfalso; apply hb'
        exact rawOf_eq_nil _ (hwc.suffix (skipWhile_suffix _ _)) hr
      | cons x xs => rfl
    simp only [hne, Bool.false_eq_true, if_false]
    have hdec : IsDec (takeWhileCh plainCp chars ++ (skipWhile plainCp chars ++ b)) := by
      rw [← List.append_assoc, hsplit]; exact h
    have hdecb : IsDec (skipWhile plainCp chars ++ b) := hdec.drop_prefix
    rw [hdecb.redecode, decLoop_eq]
    have hsc : ∀ x ∈ decCps (skipWhile plainCp chars), IsScalar x :=
      decCps_scalar _ (fun c hc => hdecb.scalar c (by simp [hc]))
    rw [decodeAll_append_nonCont _ _ (flatMap_enc_nonCont _ hsc), hdec.redecode]
    have := decodeAll_flatMap_enc (decCps (skipWhile plainCp chars)) hsc []
    simp only [List.append_nil, decodeAll_nil] at this
    rw [this]
    apply WellEnc.append
    · intro c hc; exact hwe c (by rw [← hsplit]; simp [hc])
    · intro c hc
      simp only [List.mem_map] at hc
      obtain ⟨x, _, rfl⟩ := hc
      rfl

theorem slice_drop1 (b : Nat) (l : List Nat) : slice (b :: l) 1 (b :: l).length = some l := by
  simp [slice]

theorem slice_dropLast (l : List Nat) (b : Nat) : slice (l ++ [b]) 0 ((l ++ [b]).length - 1) = some l := by
  simp [slice]

theorem slice_inner (a : Nat) (l : List Nat) (b : Nat) :
    slice (a :: (l ++ [b])) 1 ((a :: (l ++ [b])).length - 1) = some l := by
  simp [slice]

end EsbuildModel.CssLex
