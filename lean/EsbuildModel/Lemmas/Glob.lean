import EsbuildModel.Impl.Glob
import EsbuildModel.Lemmas.MiniRegex
/-
Lemmas for Props/C04Glob.lean.

  A. the text of a token list lexes and parses (Spec/MiniRegex) to the intended regexp      `parse_tokens`
  B. the meaning of that regexp is `codeMatch`                                              `matches_tokens`
  C. globstarToEscapedRegexp never panics / diverges and writes the text of the tokens      `globstar_eq`
  D. the implemented dialect against the specified one                                      `codeMatch_of_spec`, …
-/
namespace EsbuildModel.Glob
open EsbuildModel.Spec.MiniRegex

/-! ## A. text → regexp -/

def tokText : CTok → List Nat
  | .lit c => if isMeta c then [92, c] else [c]
  | .one => [46]
  | .star => starText
  | .gstar => gsText

def tokLex : CTok → List RTok
  | .lit c => [.lit c]
  | .one => [.dot]
  | .star => [.notSlash, .rep]
  | .gstar => [.opn, .notSlash, .rep, .opn, .lit 47, .bar, .eol, .cls, .cls, .rep]

theorem isMeta_false_iff (c : Nat) : isMeta c = false ↔
    (c ≠ 92 ∧ c ≠ 46 ∧ c ≠ 43 ∧ c ≠ 42 ∧ c ≠ 63 ∧ c ≠ 40 ∧ c ≠ 41 ∧ c ≠ 124 ∧ c ≠ 91 ∧ c ≠ 93 ∧ c ≠ 123 ∧ c ≠ 125 ∧ c ≠ 94 ∧ c ≠ 36) := by
  simp [isMeta, and_assoc]

theorem isMeta_true_iff (c : Nat) : isMeta c = true ↔
    (c = 92 ∨ c = 46 ∨ c = 43 ∨ c = 42 ∨ c = 63 ∨ c = 40 ∨ c = 41 ∨ c = 124 ∨ c = 91 ∨ c = 93 ∨ c = 123 ∨ c = 125 ∨ c = 94 ∨ c = 36) := by
  simp [isMeta, or_assoc]

theorem isEscapable_of_isMeta (c : Nat) (h : isMeta c = true) : isEscapable c = true := by
  rw [isMeta_true_iff] at h
  rcases h with rfl | rfl | rfl | rfl | rfl | rfl | rfl | rfl | rfl | rfl | rfl | rfl | rfl | rfl <;> decide

theorem lex_plain (c : Nat) (h : isMeta c = false) (rest : List Nat) :
    lex (c :: rest) = consTok (.lit c) (lex rest) := by
  have hm := h
  rw [isMeta_false_iff] at h
  obtain ⟨h1, h2, h3, h4, h5, h6, h7, h8, h9, h10, h11, h12, h13, h14⟩ := h
  rw [lex.eq_def]
  simp only [h1, h2, h4, h6, h7, h8, h9, h13, h14, if_false, hm, Bool.false_eq_true]

theorem lex_escaped (c : Nat) (h : isMeta c = true) (rest : List Nat) :
    lex (92 :: c :: rest) = consTok (.lit c) (lex rest) := by
  rw [lex.eq_def]
  simp only [if_true, isEscapable_of_isMeta c h]

theorem lex_dot (rest : List Nat) : lex (46 :: rest) = consTok .dot (lex rest) := by
  rw [lex.eq_def]; simp

theorem lex_eol (rest : List Nat) : lex (36 :: rest) = consTok .eol (lex rest) := by
  rw [lex.eq_def]; simp

theorem lex_bol (rest : List Nat) : lex (94 :: rest) = consTok .bol (lex rest) := by
  rw [lex.eq_def]; simp

theorem lex_rep (rest : List Nat) (h : rest.head? ≠ some 42) : lex (42 :: rest) = consTok .rep (lex rest) := by
  rw [lex.eq_def]
  simp only [Nat.reduceEqDiff, if_false, if_true]
  cases rest with
  | nil => rfl
  | cons d rest =>
    have : d ≠ 42 := by simpa using h
    split
    · rename_i heq
      injection heq with h1 _
      exact absurd h1.symm (by omega)
    · rfl

theorem lex_notSlash (rest : List Nat) : lex (91 :: 94 :: 47 :: 93 :: rest) = consTok .notSlash (lex rest) := by
  rw [lex.eq_def]; simp

theorem lex_opn (rest : List Nat) : lex (40 :: 63 :: 58 :: rest) = consTok .opn (lex rest) := by
  rw [lex.eq_def]; simp

theorem lex_cls (rest : List Nat) : lex (41 :: rest) = consTok .cls (lex rest) := by
  rw [lex.eq_def]; simp

theorem lex_bar (rest : List Nat) : lex (124 :: rest) = consTok .bar (lex rest) := by
  rw [lex.eq_def]; simp

theorem lex_slash (rest : List Nat) : lex (47 :: rest) = consTok (.lit 47) (lex rest) :=
  lex_plain 47 (by decide) rest

theorem consTok_consTok (a : RTok) (r : Option (List RTok)) (l : List RTok) :
    consTok a (r.map (l ++ ·)) = r.map ((a :: l) ++ ·) := by
  cases r <;> simp [consTok]

theorem consTok_eq_map (a : RTok) (r : Option (List RTok)) : consTok a r = r.map ([a] ++ ·) := by
  cases r <;> simp [consTok]

/-- the text of one token is lexed on its own, whatever follows (a `*` must not follow directly) -/
theorem lex_tokText (t : CTok) (rest : List Nat) (h : rest.head? ≠ some 42) :
    lex (tokText t ++ rest) = (lex rest).map (tokLex t ++ ·) := by
  cases t with
  | lit c =>
    simp only [tokText, tokLex]
    by_cases hm : isMeta c = true
    · simp only [hm, if_true, List.cons_append, List.nil_append]
      rw [lex_escaped c hm]; cases lex rest <;> simp [consTok]
    · have hm' : isMeta c = false := by simpa using hm
      simp only [hm', Bool.false_eq_true, if_false, List.cons_append, List.nil_append]
      rw [lex_plain c hm']; cases lex rest <;> simp [consTok]
  | one =>
    simp only [tokText, tokLex, List.cons_append, List.nil_append]
    rw [lex_dot]; cases lex rest <;> simp [consTok]
  | star =>
    simp only [tokText, tokLex, starText, List.cons_append, List.nil_append]
    rw [lex_notSlash, lex_rep rest h]; cases lex rest <;> simp [consTok]
  | gstar =>
    simp only [tokText, tokLex, gsText, List.cons_append, List.nil_append]
    rw [lex_opn, lex_notSlash, lex_rep _ (by simp), lex_opn, lex_slash, lex_bar, lex_eol, lex_cls, lex_cls,
      lex_rep rest h]
    cases lex rest <;> simp [consTok]

theorem head_tokText (t : CTok) (rest : List Nat) : (tokText t ++ rest).head? ≠ some 42 := by
  cases t with
  | lit c =>
    simp only [tokText]
    by_cases hm : isMeta c = true
    · simp [hm]
    · have hm' : isMeta c = false := by simpa using hm
      have := (isMeta_false_iff c).mp hm'
      simp only [hm', Bool.false_eq_true, if_false, List.cons_append, List.nil_append, List.head?_cons, ne_eq,
        Option.some.injEq]
      exact this.2.2.2.1
  | one => simp [tokText]
  | star => simp [tokText, starText]
  | gstar => simp [tokText, gsText]

theorem lex_tokens (ts : List CTok) :
    lex (ts.flatMap tokText ++ [36]) = some (ts.flatMap tokLex ++ [.eol]) := by
  induction ts with
  | nil => simp only [List.flatMap_nil, List.nil_append]; rw [lex_eol]; rfl
  | cons t ts ih =>
    simp only [List.flatMap_cons, List.append_assoc]
    rw [lex_tokText t _ ?_, ih]
    · rfl
    · cases ts with
      | nil => simp
      | cons t' ts' =>
        simp only [List.flatMap_cons, List.append_assoc]
        exact head_tokText t' _

theorem pstep_tokLex (t : CTok) (f : Frame) (fs : List Frame) :
    (tokLex t).foldl pstep (some (f :: fs)) = some (f.push (tokRe t) :: fs) := by
  cases t <;> simp [tokLex, pstep, Frame.push, tokRe, gsRe, Frame.close, catOf, altOf]

theorem pstep_tokens (ts : List CTok) (f : Frame) (fs : List Frame) :
    (ts.flatMap tokLex).foldl pstep (some (f :: fs))
      = some ({ f with cur := (ts.map tokRe).reverse ++ f.cur } :: fs) := by
  induction ts generalizing f with
  | nil => simp
  | cons t ts ih =>
    simp only [List.flatMap_cons, List.foldl_append, pstep_tokLex, ih, Frame.push, List.map_cons, List.reverse_cons,
      List.append_assoc, List.singleton_append]

/-- **A.** `^` + the text of the tokens + `$` is inside the fragment and parses to `reOf` -/
theorem parse_tokens (ts : List CTok) : parse ([94] ++ ts.flatMap tokText ++ [36]) = some (reOf ts) := by
  unfold parse
  have hl : lex ([94] ++ ts.flatMap tokText ++ [36]) = some (.bol :: ts.flatMap tokLex ++ [.eol]) := by
    simp only [List.cons_append, List.nil_append]
    rw [lex_bol, lex_tokens]; rfl
  rw [hl]
  simp only [parseToks, List.cons_append, List.foldl_cons, List.foldl_append, List.foldl_nil, pstep, Frame.push,
    pstep_tokens]
  simp [Frame.close, reOf, altOf]

/-! ## B. the meaning of the regexp of a token list -/

open EsbuildModel.Spec.Glob (starLoop dirsLoop deepLoop)

theorem starLoop_iff (k : List Nat → Bool) (w : List Nat) :
    starLoop k w = true ↔ ∃ w1 w2, w = w1 ++ w2 ∧ (∀ c ∈ w1, c ≠ 47) ∧ k w2 = true := by
  induction w with
  | nil =>
    simp only [starLoop]
    constructor
    · intro h; exact ⟨[], [], rfl, by simp, h⟩
    · rintro ⟨w1, w2, h, _, hk⟩
      have h' := h.symm
      rw [List.append_eq_nil_iff] at h'
      rw [h'.2] at hk; exact hk
  | cons x xs ih =>
    simp only [starLoop, Bool.or_eq_true, Bool.and_eq_true, bne_iff_ne, ne_eq, ih]
    constructor
    · rintro (h | ⟨hx, w1, w2, rfl, hw1, hk⟩)
      · exact ⟨[], x :: xs, rfl, by simp, h⟩
      · refine ⟨x :: w1, w2, rfl, ?_, hk⟩
        intro c hc
        rcases List.mem_cons.mp hc with rfl | hc
        · exact hx
        · exact hw1 c hc
    · rintro ⟨w1, w2, h, hw1, hk⟩
      cases w1 with
      | nil => left; simp at h; rw [h]; exact hk
      | cons y w1 =>
        right
        simp only [List.cons_append, List.cons.injEq] at h
        obtain ⟨rfl, rfl⟩ := h
        exact ⟨hw1 x (by simp), w1, w2, rfl, fun c hc => hw1 c (List.mem_cons_of_mem _ hc), hk⟩

theorem dirsLoop_iff (k : List Nat → Bool) (b : Bool) (w : List Nat) :
    dirsLoop k b w = true ↔
      ∃ w1 w2, w = w1 ++ w2 ∧ ((w1 = [] ∧ b = true) ∨ w1.getLast? = some 47) ∧ k w2 = true := by
  induction w generalizing b with
  | nil =>
    simp only [dirsLoop, Bool.and_eq_true]
    constructor
    · rintro ⟨hb, hk⟩; exact ⟨[], [], rfl, Or.inl ⟨rfl, hb⟩, hk⟩
    · rintro ⟨w1, w2, h, hd, hk⟩
      have h' := h.symm
      rw [List.append_eq_nil_iff] at h'
      obtain ⟨rfl, rfl⟩ := h'
      rcases hd with ⟨_, hb⟩ | hd
      · exact ⟨hb, hk⟩
      · simp at hd
  | cons x xs ih =>
    simp only [dirsLoop, Bool.or_eq_true, Bool.and_eq_true, ih]
    constructor
    · rintro (⟨hb, hk⟩ | ⟨w1, w2, rfl, hd, hk⟩)
      · exact ⟨[], x :: xs, rfl, Or.inl ⟨rfl, hb⟩, hk⟩
      · refine ⟨x :: w1, w2, rfl, Or.inr ?_, hk⟩
        rcases hd with ⟨rfl, hx⟩ | hd
        · have : x = 47 := by simpa using hx
          subst this; rfl
        · cases w1 with
          | nil => simp at hd
          | cons y w1 => rw [List.getLast?_cons_cons]; exact hd
    · rintro ⟨w1, w2, h, hd, hk⟩
      cases w1 with
      | nil =>
        left
        rcases hd with ⟨_, hb⟩ | hd
        · simp at h; rw [h]; exact ⟨hb, hk⟩
        · simp at hd
      | cons y w1 =>
        right
        simp only [List.cons_append, List.cons.injEq] at h
        obtain ⟨rfl, rfl⟩ := h
        refine ⟨w1, w2, rfl, ?_, hk⟩
        rcases hd with ⟨h0, _⟩ | hd
        · simp at h0
        · cases w1 with
          | nil =>
            left
            have : x = 47 := by simpa using hd
            subst this; simp
          | cons z w1 => right; rw [List.getLast?_cons_cons] at hd; exact hd

theorem deepLoop_iff (k : List Nat → Bool) (w : List Nat) :
    deepLoop k w = true ↔ ∃ w1 w2, w = w1 ++ w2 ∧ k w2 = true := by
  induction w with
  | nil =>
    simp only [deepLoop]
    constructor
    · intro h; exact ⟨[], [], rfl, h⟩
    · rintro ⟨w1, w2, h, hk⟩
      have h' := h.symm
      rw [List.append_eq_nil_iff] at h'
      rw [h'.2] at hk; exact hk
  | cons x xs ih =>
    simp only [deepLoop, Bool.or_eq_true, ih]
    constructor
    · rintro (h | ⟨w1, w2, rfl, hk⟩)
      · exact ⟨[], x :: xs, rfl, h⟩
      · exact ⟨x :: w1, w2, rfl, hk⟩
    · rintro ⟨w1, w2, h, hk⟩
      cases w1 with
      | nil => left; simp at h; rw [h]; exact hk
      | cons y w1 =>
        right
        simp only [List.cons_append, List.cons.injEq] at h
        obtain ⟨rfl, rfl⟩ := h
        exact ⟨w1, w2, rfl, hk⟩

/-- `[^/]*` -/
theorem den_starNotSlash (l w r : List Nat) : Den (.star .notSlash) l w r ↔ ∀ c ∈ w, c ≠ 47 := by
  rw [den_star]
  constructor
  · rintro ⟨n, hp⟩
    induction n generalizing l w with
    | zero => rw [pow_zero] at hp; subst hp; simp
    | succ n ih =>
      rw [pow_succ] at hp
      obtain ⟨w1, w2, rfl, hd, hp2⟩ := hp
      rw [den_notSlash] at hd
      obtain ⟨c, hc, rfl⟩ := hd
      intro x hx
      rcases List.mem_append.mp hx with hx | hx
      · have : x = c := by simpa using hx
        subst this; exact hc
      · exact ih _ _ hp2 x hx
  · intro h
    refine ⟨w.length, ?_⟩
    induction w generalizing l with
    | nil => exact rfl
    | cons x xs ih =>
      rw [List.length_cons, pow_succ]
      refine ⟨[x], xs, rfl, ?_, ih _ (fun c hc => h c (List.mem_cons_of_mem _ hc))⟩
      rw [den_notSlash]
      exact ⟨x, h x (by simp), rfl⟩

/-- `[^/]*(?:/|$)` as parsed -/
def gsBody : Re := .seq (.star .notSlash) (.seq (.alt (.seq (.chr 47) .eps) (.seq .eol .eps)) .eps)

theorem den_gsBody (l w r : List Nat) :
    Den gsBody l w r ↔ ∃ seg, (∀ c ∈ seg, c ≠ 47) ∧ (w = seg ++ [47] ∨ (w = seg ∧ r = [])) := by
  unfold gsBody
  simp only [den_seq, den_alt, den_chr, den_eps, den_eol, den_starNotSlash]
  constructor
  · rintro ⟨w1, w2, rfl, hseg, w3, w4, rfl, h, rfl⟩
    refine ⟨w1, hseg, ?_⟩
    rcases h with ⟨w5, w6, rfl, rfl, rfl⟩ | ⟨w5, w6, rfl, ⟨hr, rfl⟩, rfl⟩
    · left; simp
    · right; simpa using hr
  · rintro ⟨seg, hseg, rfl | ⟨rfl, rfl⟩⟩
    · exact ⟨seg, [47], rfl, hseg, [47], [], by simp, Or.inl ⟨[47], [], by simp, rfl, rfl⟩, rfl⟩
    · exact ⟨w, [], by simp, hseg, [], [], by simp, Or.inr ⟨[], [], by simp, ⟨by simp, rfl⟩, rfl⟩, rfl⟩

theorem getLast?_append_ne_nil (a b : List Nat) (h : b ≠ []) : (a ++ b).getLast? = b.getLast? := by
  rw [List.getLast?_append]
  cases hb : b.getLast? with
  | none => simp at hb; exact absurd hb h
  | some x => simp

theorem mem_takeWhile_imp (p : Nat → Bool) (l : List Nat) (x : Nat) (h : x ∈ l.takeWhile p) : p x = true := by
  induction l with
  | nil => simp at h
  | cons a l ih =>
    rw [List.takeWhile_cons] at h
    split at h
    · rename_i hp
      rcases List.mem_cons.mp h with rfl | h
      · exact hp
      · exact ih h
    · simp at h

/-- "zero or more directories": empty, or ending with a slash -/
def DirsForm (w : List Nat) : Prop := w = [] ∨ w.getLast? = some 47

theorem dirsForm_append (w1 w2 : List Nat) (h2 : DirsForm w2) (h1 : w2 = [] → DirsForm w1) : DirsForm (w1 ++ w2) := by
  rcases h2 with rfl | h2
  · simpa using h1 rfl
  · right
    cases w2 with
    | nil => simp at h2
    | cons x xs => rw [getLast?_append_ne_nil _ _ (by simp)]; exact h2

/-- `(?:[^/]*(?:/|$))*` : zero or more directories — or anything at all when nothing follows in the subject -/
theorem den_gsRe (l w r : List Nat) : Den gsRe l w r ↔ (DirsForm w ∨ r = []) := by
  have hg : gsRe = .star gsBody := rfl
  rw [hg, den_star]
  constructor
  · rintro ⟨n, hp⟩
    induction n generalizing l w with
    | zero => rw [pow_zero] at hp; exact Or.inl (Or.inl hp)
    | succ n ih =>
      rw [pow_succ] at hp
      obtain ⟨w1, w2, rfl, hd, hp2⟩ := hp
      rw [den_gsBody] at hd
      obtain ⟨seg, _, hw1 | ⟨_, hr⟩⟩ := hd
      · rcases ih _ _ hp2 with h2 | h2
        · left
          refine dirsForm_append w1 w2 h2 (fun _ => ?_)
          right; rw [hw1]; simp
        · exact Or.inr h2
      · right
        have := List.append_eq_nil_iff.mp hr
        exact this.2
  · intro h
    -- cut the first segment off, by induction on the length
    generalize hn : w.length = n
    induction n using Nat.strongRecOn generalizing l w with
    | _ n ih =>
      cases hw : w.dropWhile (· != 47) with
      | nil =>
        -- no slash in `w`
        have hseg : ∀ c ∈ w, c ≠ 47 := by
          intro c hc
          have h1 : w.takeWhile (· != 47) = w := by
            have := List.takeWhile_append_dropWhile (p := (· != 47)) (l := w)
            rw [hw, List.append_nil] at this; exact this
          rw [← h1] at hc
          have := mem_takeWhile_imp _ _ _ hc
          simpa using this
        by_cases hwe : w = []
        · exact ⟨0, hwe⟩
        · have hr : r = [] := by
            rcases h with (h | h) | h
            · exact absurd h hwe
            · exfalso
              have hmem := List.mem_of_getLast? h
              exact hseg 47 hmem rfl
            · exact h
          refine ⟨1, ?_⟩
          rw [pow_succ]
          refine ⟨w, [], by simp, ?_, rfl⟩
          rw [den_gsBody]
          exact ⟨w, hseg, Or.inr ⟨rfl, by simpa using hr⟩⟩
      | cons x rest =>
        have hsplit := List.takeWhile_append_dropWhile (p := (· != 47)) (l := w)
        rw [hw] at hsplit
        have hx : x = 47 := by
          have := List.head_dropWhile_not (· != 47) (l := w) (by rw [hw]; simp)
          simp only [hw, List.head_cons] at this
          simpa using this
        subst hx
        have hseg : ∀ c ∈ w.takeWhile (· != 47), c ≠ 47 := by
          intro c hc
          have := mem_takeWhile_imp _ _ _ hc
          simpa using this
        have hlen : rest.length < n := by
          rw [← hn, ← hsplit]; simp; omega
        have hrest : DirsForm rest ∨ r = [] := by
          rcases h with (h | h) | h
          · rw [h] at hw; simp at hw
          · left
            by_cases hre : rest = []
            · exact Or.inl hre
            · right
              rw [← hsplit] at h
              rw [getLast?_append_ne_nil _ _ (by simp)] at h
              cases rest with
              | nil => exact absurd rfl hre
              | cons y ys => rw [List.getLast?_cons_cons] at h; exact h
          · exact Or.inr h
        obtain ⟨m, hm⟩ := ih rest.length hlen (l ++ (w.takeWhile (· != 47) ++ [47])) rest hrest rfl
        refine ⟨m + 1, ?_⟩
        rw [pow_succ]
        refine ⟨w.takeWhile (· != 47) ++ [47], rest, by simp only [List.append_assoc, List.singleton_append]; exact hsplit.symm, ?_, hm⟩
        rw [den_gsBody]
        exact ⟨_, hseg, Or.inl rfl⟩

theorem codeMatch_nil (w : List Nat) : codeMatch [] w = w.isEmpty := rfl
theorem codeMatch_lit (c : Nat) (ts : List CTok) (w : List Nat) :
    codeMatch (.lit c :: ts) w = (match w with | x :: xs => x == c && codeMatch ts xs | [] => false) := rfl
theorem codeMatch_one (ts : List CTok) (w : List Nat) :
    codeMatch (.one :: ts) w = (match w with | x :: xs => x != 10 && codeMatch ts xs | [] => false) := rfl
theorem codeMatch_star (ts : List CTok) (w : List Nat) :
    codeMatch (.star :: ts) w = starLoop (codeMatch ts) w := rfl
theorem codeMatch_gstar (ts : List CTok) (w : List Nat) :
    codeMatch (.gstar :: ts) w = (dirsLoop (codeMatch ts) true w || codeMatch ts []) := rfl

theorem den_chain (ts : List CTok) : ∀ l w r,
    Den (catOf (ts.map tokRe ++ [.eol])) l w r ↔ (r = [] ∧ codeMatch ts w = true) := by
  induction ts with
  | nil =>
    intro l w r
    simp only [List.map_nil, List.nil_append, catOf, den_seq, den_eol, den_eps, codeMatch_nil, List.isEmpty_iff]
    constructor
    · rintro ⟨w1, w2, rfl, ⟨h, rfl⟩, rfl⟩
      simp at h; exact ⟨h, rfl⟩
    · rintro ⟨rfl, rfl⟩
      exact ⟨[], [], rfl, ⟨rfl, rfl⟩, rfl⟩
  | cons t ts ih =>
    intro l w r
    simp only [List.map_cons, List.cons_append, catOf, den_seq, ih]
    cases t with
    | lit c =>
      simp only [tokRe, den_chr, codeMatch_lit]
      constructor
      · rintro ⟨w1, w2, rfl, rfl, hr, hk⟩
        exact ⟨hr, by simpa using hk⟩
      · rintro ⟨hr, hk⟩
        cases w with
        | nil => simp at hk
        | cons x xs =>
          simp only [Bool.and_eq_true, beq_iff_eq] at hk
          obtain ⟨rfl, hk⟩ := hk
          exact ⟨[x], xs, rfl, rfl, hr, hk⟩
    | one =>
      simp only [tokRe, den_dot, codeMatch_one]
      constructor
      · rintro ⟨w1, w2, rfl, ⟨c, hc, rfl⟩, hr, hk⟩
        exact ⟨hr, by simpa using ⟨hc, hk⟩⟩
      · rintro ⟨hr, hk⟩
        cases w with
        | nil => simp at hk
        | cons x xs =>
          simp only [Bool.and_eq_true, bne_iff_ne, ne_eq] at hk
          exact ⟨[x], xs, rfl, ⟨x, hk.1, rfl⟩, hr, hk.2⟩
    | star =>
      simp only [tokRe, den_starNotSlash, codeMatch_star, starLoop_iff]
      constructor
      · rintro ⟨w1, w2, rfl, hs, hr, hk⟩
        exact ⟨hr, w1, w2, rfl, hs, hk⟩
      · rintro ⟨hr, w1, w2, rfl, hs, hk⟩
        exact ⟨w1, w2, rfl, hs, hr, hk⟩
    | gstar =>
      simp only [tokRe, den_gsRe, codeMatch_gstar, Bool.or_eq_true, dirsLoop_iff]
      constructor
      · rintro ⟨w1, w2, rfl, hd, hr, hk⟩
        refine ⟨hr, ?_⟩
        rcases hd with hd | hd
        · left
          refine ⟨w1, w2, rfl, ?_, hk⟩
          rcases hd with hd | hd
          · exact Or.inl ⟨hd, trivial⟩
          · exact Or.inr hd
        · right
          have := (List.append_eq_nil_iff.mp hd).1
          rw [this] at hk; exact hk
      · rintro ⟨hr, h⟩
        rcases h with ⟨w1, w2, rfl, hd, hk⟩ | hk
        · refine ⟨w1, w2, rfl, Or.inl ?_, hr, hk⟩
          rcases hd with ⟨hd, _⟩ | hd
          · exact Or.inl hd
          · exact Or.inr hd
        · exact ⟨w, [], by simp, Or.inr (by simpa using hr), hr, hk⟩

/-- **B.** the regexp of a token list matches exactly the paths `codeMatch` accepts (whole path: `^…$`) -/
theorem matches_tokens (ts : List CTok) (s : List Nat) : Matches (reOf ts) s ↔ codeMatch ts s = true := by
  unfold Matches reOf
  simp only [List.cons_append, catOf, den_seq, den_bol, den_chain]
  constructor
  · rintro ⟨l, w, r, rfl, w1, w2, rfl, ⟨rfl, rfl⟩, rfl, hk⟩
    simpa using hk
  · intro hk
    exact ⟨[], s, [], by simp, [], s, rfl, ⟨rfl, rfl⟩, rfl, hk⟩

/-! ## C. globstarToEscapedRegexp writes the text of the tokens -/

open EsbuildModel.Spec.Glob (Tok tokOf)

/-- number of `*` at the front -/
def starsLen (l : List Nat) : Nat := (l.takeWhile (· == 42)).length

theorem starsLen_cons_star (l : List Nat) : starsLen (42 :: l) = starsLen l + 1 := by
  simp [starsLen]

theorem starsLen_cons_other (d : Nat) (l : List Nat) (h : d ≠ 42) : starsLen (d :: l) = 0 := by
  simp [starsLen, h]

theorem starsLen_nil : starsLen [] = 0 := rfl

theorem starScan_eq (glob : List Nat) : ∀ fuel i cnt, glob.length - i < fuel → i < glob.length →
    starScan glob glob.length fuel i cnt
      = .ok (i + starsLen (glob.drop (i + 1)), cnt + starsLen (glob.drop (i + 1))) := by
  intro fuel
  induction fuel with
  | zero => intro i cnt h; omega
  | succ k ih =>
    intro i cnt hf hi
    rw [starScan]
    by_cases h1 : i + 1 < glob.length
    · simp only [h1, if_true]
      rw [List.getElem?_eq_getElem h1, List.drop_eq_getElem_cons h1]
      simp only
      by_cases hd : glob[i + 1] = 42
      · simp only [hd, if_true]
        rw [ih (i + 1) (cnt + 1) (by omega) h1, starsLen_cons_star]
        congr 2 <;> omega
      · simp only [hd, if_false]
        rw [starsLen_cons_other _ _ hd]
        rfl
    · simp only [h1, if_false]
      have : glob.drop (i + 1) = [] := List.drop_eq_nil_iff.mpr (by omega)
      rw [this, starsLen_nil]
      rfl

/-- the text of the spec tokens -/
def body (b : Bool) (n : Nat) (p : List Nat) : List Nat :=
  ((EsbuildModel.Spec.Glob.lex b n p).map ofSpecTok).flatMap tokText

theorem lex_stars (b : Bool) (n : Nat) (p : List Nat) :
    EsbuildModel.Spec.Glob.lex b n p = EsbuildModel.Spec.Glob.lex b (n + starsLen p) (p.dropWhile (· == 42)) := by
  induction p generalizing n with
  | nil => simp [starsLen]
  | cons c p ih =>
    by_cases hc : c = 42
    · subst hc
      rw [starsLen_cons_star, List.dropWhile_cons]
      simp only [beq_self_eq_true, if_true]
      rw [EsbuildModel.Spec.Glob.lex]
      simp only [if_true]
      rw [ih (n + 1)]
      congr 1; omega
    · rw [starsLen_cons_other _ _ hc, List.dropWhile_cons]
      simp [hc]

theorem head_dropWhile_star (p : List Nat) : (p.dropWhile (· == 42)).head? ≠ some 42 := by
  induction p with
  | nil => simp
  | cons c p ih =>
    rw [List.dropWhile_cons]
    by_cases hc : c = 42
    · simp only [hc, beq_self_eq_true, if_true]; exact ih
    · simp [hc]

theorem dropWhile_eq_drop (p : List Nat) : p.dropWhile (· == 42) = p.drop (starsLen p) := by
  induction p with
  | nil => rfl
  | cons c p ih =>
    by_cases hc : c = 42
    · subst hc
      rw [starsLen_cons_star, List.dropWhile_cons]
      simp only [beq_self_eq_true, if_true, List.drop_succ_cons]
      exact ih
    · rw [starsLen_cons_other _ _ hc, List.dropWhile_cons]
      simp [hc]

def prevIsSeg (glob : List Nat) (i : Nat) : Bool := if i = 0 then true else glob[i - 1]? == some 47

/-- what the main loop returns when started at index `i` -/
def expected (glob : List Nat) (i : Nat) (sb : List Nat) (wild : Bool) : Out (List Nat × Bool) :=
  .ok (sb ++ body (prevIsSeg glob i) 0 (glob.drop i) ++ [36], wild || hasWild (glob.drop i))

def Good (glob : List Nat) (k : Nat) : Prop :=
  ∀ i sb wild, i ≤ glob.length → glob.length - i < k → mainLoop glob glob.length k i sb wild = expected glob i sb wild

theorem lex_nil0 (b : Bool) : EsbuildModel.Spec.Glob.lex b 0 [] = [] := by
  rw [EsbuildModel.Spec.Glob.lex]

theorem body_nil (b : Bool) : body b 0 [] = [] := by
  simp [body, lex_nil0]

theorem body_cons (b : Bool) (c : Nat) (rest : List Nat) (h : c ≠ 42) :
    body b 0 (c :: rest) = tokText (ofSpecTok (tokOf c)) ++ body (decide (c = 47)) 0 rest := by
  unfold body
  rw [EsbuildModel.Spec.Glob.lex]
  simp [h]

theorem mainLoop_done (glob : List Nat) (k i : Nat) (sb : List Nat) (wild : Bool) (h : glob.length ≤ i) :
    mainLoop glob glob.length (k + 1) i sb wild = .ok (sb ++ [36], wild) := by
  rw [mainLoop]
  simp [Nat.not_lt.mpr h]

theorem prevIsSeg_succ (glob : List Nat) (i : Nat) (c : Nat) (h : glob[i]? = some c) :
    prevIsSeg glob (i + 1) = decide (c = 47) := by
  rw [Bool.eq_iff_iff]
  simp [prevIsSeg, h]

theorem isEscaped_iff (c : Nat) : isEscaped c = true ↔
    (c = 92 ∨ c = 94 ∨ c = 36 ∨ c = 46 ∨ c = 43 ∨ c = 124 ∨ c = 40 ∨ c = 41 ∨ c = 91 ∨ c = 93 ∨ c = 123 ∨ c = 125) := by
  simp [isEscaped, or_assoc]

theorem isMeta_eq_isEscaped (c : Nat) (h1 : c ≠ 42) (h2 : c ≠ 63) : isMeta c = isEscaped c := by
  rw [Bool.eq_iff_iff, isMeta_true_iff, isEscaped_iff]
  constructor <;> intro h <;> omega

/-- one iteration on a code point that is not `*` -/
theorem step_plain (glob : List Nat) (k : Nat) (hk : Good glob k) (i : Nat) (sb : List Nat) (wild : Bool)
    (hi : i < glob.length) (hf : glob.length - i < k + 1) (hc : glob[i] ≠ 42) :
    mainLoop glob glob.length (k + 1) i sb wild = expected glob i sb wild := by
  have hget : glob[i]? = some glob[i] := List.getElem?_eq_getElem hi
  have hdrop := List.drop_eq_getElem_cons hi
  generalize glob[i] = c at hc hget hdrop
  rw [mainLoop]
  simp only [hi, if_true, hget]
  unfold expected
  rw [hdrop, body_cons _ _ _ hc]
  have hseg := prevIsSeg_succ glob i c hget
  have h42b : (c == 42) = false := by simpa using hc
  by_cases he : isEscaped c = true
  · have h63 : c ≠ 63 := by
      intro h; subst h; exact absurd he (by decide)
    simp only [he, if_true]
    rw [hk (i + 1) _ _ (by omega) (by omega)]
    unfold expected
    rw [hseg]
    have hm : isMeta c = true := by rw [isMeta_eq_isEscaped c hc h63]; exact he
    have h63b : (c == 63) = false := by simpa using h63
    simp [tokOf, h63, ofSpecTok, tokText, hm, hasWild, h42b, h63b]
  · have he' : isEscaped c = false := by simpa using he
    simp only [he', Bool.false_eq_true, if_false]
    by_cases hq : c = 63
    · subst hq
      simp only [if_true]
      rw [hk (i + 1) _ _ (by omega) (by omega)]
      unfold expected
      rw [hseg]
      simp [tokOf, ofSpecTok, tokText, hasWild]
    · simp only [hq, hc, if_false]
      rw [hk (i + 1) _ _ (by omega) (by omega)]
      unfold expected
      rw [hseg]
      have hm : isMeta c = false := by rw [isMeta_eq_isEscaped c hc hq]; exact he'
      have h63b : (c == 63) = false := by simpa using hq
      simp [tokOf, hq, ofSpecTok, tokText, hm, hasWild, h42b, h63b]

theorem lex_pending_nil (b : Bool) (m : Nat) :
    EsbuildModel.Spec.Glob.lex b (m + 1) [] = if b && decide (m + 1 ≥ 2) then [Tok.deep] else [Tok.star] := by
  rw [EsbuildModel.Spec.Glob.lex]

theorem lex_pending_cons (b : Bool) (m q : Nat) (p : List Nat) (hq : q ≠ 42) :
    EsbuildModel.Spec.Glob.lex b (m + 1) (q :: p)
      = if b && decide (m + 1 ≥ 2) && decide (q = 47) then Tok.dirs :: EsbuildModel.Spec.Glob.lex true 0 p
        else Tok.star :: tokOf q :: EsbuildModel.Spec.Glob.lex (decide (q = 47)) 0 p := by
  rw [EsbuildModel.Spec.Glob.lex]
  simp [hq]

theorem getElem?_stars (l : List Nat) : ∀ j, j ≤ starsLen l → (42 :: l)[j]? = some 42 := by
  induction l with
  | nil => intro j hj; simp [starsLen] at hj; subst hj; rfl
  | cons c l ih =>
    intro j hj
    cases j with
    | zero => rfl
    | succ j =>
      by_cases hc : c = 42
      · subst hc
        rw [starsLen_cons_star] at hj
        simp only [List.getElem?_cons_succ]
        exact ih j (by omega)
      · rw [starsLen_cons_other _ _ hc] at hj; omega

theorem prev_ok (glob : List Nat) (i : Nat) (hi : i < glob.length) :
    ∃ pc : Int, (if i > 0 then charAt glob (i - 1) else Out.ok (-1)) = Out.ok pc
      ∧ (pc == 47 || pc == -1) = prevIsSeg glob i := by
  by_cases h0 : i = 0
  · subst h0
    exact ⟨-1, by simp, by simp [prevIsSeg]⟩
  · have hlt : i - 1 < glob.length := by omega
    refine ⟨(glob[i - 1] : Int), ?_, ?_⟩
    · simp [charAt, Nat.pos_of_ne_zero h0, List.getElem?_eq_getElem hlt]
    · rw [Bool.eq_iff_iff]
      simp only [prevIsSeg, h0, if_false, List.getElem?_eq_getElem hlt, Bool.or_eq_true, beq_iff_eq,
        Option.some.injEq]
      omega

/-- is the code point after the run of stars a slash, or is there none -/
def nextOK (rest : List Nat) : Bool := match rest with | [] => true | q :: _ => q == 47

theorem next_ok (glob : List Nat) (j : Nat) :
    ∃ nc : Int, (if j < glob.length then charAt glob j else Out.ok (-1)) = Out.ok nc
      ∧ (nc == 47 || nc == -1) = nextOK (glob.drop j) := by
  by_cases hj : j < glob.length
  · refine ⟨(glob[j] : Int), by simp [charAt, hj], ?_⟩
    rw [List.drop_eq_getElem_cons hj, Bool.eq_iff_iff]
    simp only [nextOK, Bool.or_eq_true, beq_iff_eq]
    omega
  · refine ⟨-1, by simp [hj], ?_⟩
    rw [List.drop_eq_nil_iff.mpr (by omega)]
    simp [nextOK]

/-- one iteration on a run of `*` -/
theorem step_star (glob : List Nat) (k : Nat) (hk : Good glob k) (i : Nat) (sb : List Nat) (wild : Bool)
    (hi : i < glob.length) (hf : glob.length - i < k + 1) (hc : glob[i] = 42) :
    mainLoop glob glob.length (k + 1) i sb wild = expected glob i sb wild := by
  have hget : glob[i]? = some 42 := by rw [List.getElem?_eq_getElem hi, hc]
  have hdrop := List.drop_eq_getElem_cons hi
  rw [hc] at hdrop
  have hscan := starScan_eq glob (glob.length + 1) i 1 (by omega) hi
  rw [mainLoop]
  simp only [hi, if_true, hget, show isEscaped 42 = false by decide, Bool.false_eq_true, if_false,
    show (42 : Nat) ≠ 63 by decide, hscan]
  generalize hm : starsLen (List.drop (i + 1) glob) = m
  obtain ⟨pc, hpc, hpb⟩ := prev_ok glob i hi
  obtain ⟨nc, hnc, hnb⟩ := next_ok glob (i + m + 1)
  rw [hpc]
  simp only [hnc, hpb, hnb]
  -- the rest after the run of stars
  have hrest : (glob.drop (i + 1)).dropWhile (· == 42) = glob.drop (i + m + 1) := by
    rw [dropWhile_eq_drop, hm, List.drop_drop]; congr 1; omega
  have hnot42 := head_dropWhile_star (glob.drop (i + 1))
  rw [hrest] at hnot42
  -- the right-hand side
  unfold expected
  rw [hdrop]
  have hbody : body (prevIsSeg glob i) 0 (42 :: List.drop (i + 1) glob)
      = ((EsbuildModel.Spec.Glob.lex (prevIsSeg glob i) (m + 1) (glob.drop (i + m + 1))).map ofSpecTok).flatMap tokText := by
    unfold body
    rw [EsbuildModel.Spec.Glob.lex]
    simp only [if_true]
    rw [lex_stars, hm, hrest]
    congr 3; omega
  rw [hbody]
  have hw : (wild || hasWild (42 :: List.drop (i + 1) glob)) = true := by simp [hasWild]
  rw [hw]
  have hk1 : ∃ k', k = k' + 1 := ⟨k - 1, by omega⟩
  obtain ⟨k', rfl⟩ := hk1
  have h1m : (decide (1 + m > 1)) = decide (m + 1 ≥ 2) := by
    rw [Bool.eq_iff_iff]; simp only [decide_eq_true_eq]; omega
  rw [h1m]
  cases hr : glob.drop (i + m + 1) with
  | nil =>
    have hlen : glob.length ≤ i + m + 1 := List.drop_eq_nil_iff.mp hr
    rw [lex_pending_nil]
    simp only [nextOK, Bool.and_true]
    rw [mainLoop_done glob k' _ _ _ (by omega), mainLoop_done glob k' _ _ _ (by omega)]
    cases prevIsSeg glob i <;> cases decide (m + 1 ≥ 2) <;> simp [ofSpecTok, tokText]
  | cons q p =>
    rw [hr] at hnot42
    have hq : q ≠ 42 := by simpa using hnot42
    have hjlt : i + m + 1 < glob.length := by
      have := congrArg List.length hr
      simp only [List.length_drop, List.length_cons] at this; omega
    have hgetj : glob[i + m + 1]? = some q := by
      have h0 : (glob.drop (i + m + 1))[0]? = some q := by rw [hr]; rfl
      rw [List.getElem?_drop] at h0; simpa using h0
    have hdropj : glob.drop (i + m + 1 + 1) = p := by
      have := List.drop_eq_getElem_cons hjlt
      rw [hr] at this; injection this with _ h2; exact h2.symm
    have hnon : mainLoop glob glob.length (k' + 1) (i + m + 1) (sb ++ starText) true
        = .ok (sb ++ (starText ++ (tokText (ofSpecTok (tokOf q)) ++ body (decide (q = 47)) 0 p)) ++ [36], true) := by
      rw [hk (i + m + 1) _ _ (by omega) (by omega)]
      unfold expected
      rw [hr]
      have hps : prevIsSeg glob (i + m + 1) = false := by
        have h42 : glob[i + m]? = some 42 := by
          have := getElem?_stars (glob.drop (i + 1)) m (by omega)
          rw [← hdrop, List.getElem?_drop] at this; exact this
        simp [prevIsSeg, h42]
      rw [hps, body_cons _ _ _ hq]
      simp
    have hglob : decide (q = 47) = true → mainLoop glob glob.length (k' + 1) (i + m + 1 + 1) (sb ++ gsText) true
        = .ok (sb ++ (gsText ++ body true 0 p) ++ [36], true) := by
      intro h47
      rw [hk (i + m + 1 + 1) _ _ (by omega) (by omega)]
      unfold expected
      rw [prevIsSeg_succ glob (i + m + 1) q hgetj, hdropj, h47]
      simp
    rw [lex_pending_cons _ _ _ _ hq]
    have hno : nextOK (q :: p) = decide (q = 47) := by rw [Bool.eq_iff_iff]; simp [nextOK]
    simp only [hno, hnon]
    cases hb : prevIsSeg glob i <;> cases hd : decide (m + 1 ≥ 2) <;> cases he : decide (q = 47) <;>
      simp [ofSpecTok, tokText, body, hglob, he]

theorem good_all (glob : List Nat) : ∀ k, Good glob k := by
  intro k
  induction k with
  | zero => intro i sb wild _ h; omega
  | succ k ih =>
    intro i sb wild hi hf
    by_cases hlt : i < glob.length
    · by_cases hc : glob[i] = 42
      · exact step_star glob k ih i sb wild hlt hf hc
      · exact step_plain glob k ih i sb wild hlt hf hc
    · rw [mainLoop_done glob k i sb wild (by omega)]
      unfold expected
      rw [List.drop_eq_nil_iff.mpr (by omega), body_nil]
      simp [hasWild]

/-- **C.** the Go loop never indexes out of range, terminates, and writes `^`, the text of the tokens, `$` -/
theorem globstar_eq (glob : List Nat) :
    globstarToEscapedRegexp glob = .ok ([94] ++ (codeToks glob).flatMap tokText ++ [36], hasWild glob) := by
  unfold globstarToEscapedRegexp
  rw [good_all glob (glob.length + 1) 0 [94] false (by omega) (by omega)]
  simp [expected, prevIsSeg, body, codeToks, EsbuildModel.Spec.Glob.tokens]

/-! ## D. the implemented dialect against the specified one -/

open EsbuildModel.Spec.Glob (matchToks)

/-- a final-`**` token occurs only as the last token -/
def deepLast : List Tok → Bool
  | [] => true
  | .deep :: ts => ts.isEmpty
  | _ :: ts => deepLast ts

theorem deepLast_lex (p : List Nat) : ∀ b n, deepLast (EsbuildModel.Spec.Glob.lex b n p) = true := by
  induction p with
  | nil =>
    intro b n
    cases n with
    | zero => rw [EsbuildModel.Spec.Glob.lex]; rfl
    | succ n => rw [EsbuildModel.Spec.Glob.lex]; split <;> rfl
  | cons c p ih =>
    intro b n
    rw [EsbuildModel.Spec.Glob.lex]
    split
    · exact ih _ _
    · split
      · unfold tokOf; split <;> exact ih _ _
      · split
        · exact ih _ _
        · unfold tokOf; split <;> exact ih _ _

theorem one_not_mem_lex (p : List Nat) (h : 63 ∉ p) : ∀ b n, Tok.one ∉ EsbuildModel.Spec.Glob.lex b n p := by
  induction p with
  | nil =>
    intro b n
    cases n with
    | zero => rw [EsbuildModel.Spec.Glob.lex]; simp
    | succ n => rw [EsbuildModel.Spec.Glob.lex]; split <;> simp
  | cons c p ih =>
    intro b n
    have hc : c ≠ 63 := fun hc => h (by simp [hc])
    have ih' := ih (fun hm => h (List.mem_cons_of_mem _ hm))
    rw [EsbuildModel.Spec.Glob.lex]
    split
    · exact ih' _ _
    · split
      · simp [tokOf, hc, ih']
      · split
        · simp [ih']
        · simp [tokOf, hc, ih']

theorem matchToks_nil (w : List Nat) : matchToks [] w = w.isEmpty := rfl
theorem matchToks_lit (c : Nat) (ts : List Tok) (w : List Nat) :
    matchToks (.lit c :: ts) w = (match w with | x :: xs => x == c && matchToks ts xs | [] => false) := rfl
theorem matchToks_one (ts : List Tok) (w : List Nat) :
    matchToks (.one :: ts) w = (match w with | x :: xs => x != 47 && matchToks ts xs | [] => false) := rfl
theorem matchToks_star (ts : List Tok) (w : List Nat) : matchToks (.star :: ts) w = starLoop (matchToks ts) w := rfl
theorem matchToks_dirs (ts : List Tok) (w : List Nat) : matchToks (.dirs :: ts) w = dirsLoop (matchToks ts) true w := rfl
theorem matchToks_deep (ts : List Tok) (w : List Nat) : matchToks (.deep :: ts) w = deepLoop (matchToks ts) w := rfl

/-- **soundness of the implemented dialect**: whatever the specified glob names (and has no line feed in it) is accepted -/
theorem codeMatch_of_spec (ts : List Tok) (hd : deepLast ts = true) :
    ∀ w, 10 ∉ w → matchToks ts w = true → codeMatch (ts.map ofSpecTok) w = true := by
  induction ts with
  | nil => intro w _ h; exact h
  | cons t ts ih =>
    intro w hw h
    cases t with
    | lit c =>
      rw [matchToks_lit] at h
      simp only [List.map_cons, ofSpecTok, codeMatch_lit]
      cases w with
      | nil => simp at h
      | cons x xs =>
        simp only [Bool.and_eq_true] at h ⊢
        exact ⟨h.1, ih hd xs (fun hm => hw (List.mem_cons_of_mem _ hm)) h.2⟩
    | one =>
      rw [matchToks_one] at h
      simp only [List.map_cons, ofSpecTok, codeMatch_one]
      cases w with
      | nil => simp at h
      | cons x xs =>
        simp only [Bool.and_eq_true, bne_iff_ne, ne_eq] at h ⊢
        exact ⟨fun hx => hw (by simp [hx]), ih hd xs (fun hm => hw (List.mem_cons_of_mem _ hm)) h.2⟩
    | star =>
      rw [matchToks_star, starLoop_iff] at h
      simp only [List.map_cons, ofSpecTok, codeMatch_star, starLoop_iff]
      obtain ⟨w1, w2, rfl, hs, hk⟩ := h
      exact ⟨w1, w2, rfl, hs, ih hd w2 (fun hm => hw (List.mem_append_right _ hm)) hk⟩
    | dirs =>
      rw [matchToks_dirs, dirsLoop_iff] at h
      simp only [List.map_cons, ofSpecTok, codeMatch_gstar, Bool.or_eq_true, dirsLoop_iff]
      obtain ⟨w1, w2, rfl, hs, hk⟩ := h
      exact Or.inl ⟨w1, w2, rfl, by simpa using hs, ih hd w2 (fun hm => hw (List.mem_append_right _ hm)) hk⟩
    | deep =>
      have hts : ts = [] := by simpa [deepLast] using hd
      subst hts
      simp [ofSpecTok, codeMatch_gstar, codeMatch_nil]

end EsbuildModel.Glob
