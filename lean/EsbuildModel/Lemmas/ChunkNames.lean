import EsbuildModel.Impl.ChunkNames
import EsbuildModel.Lemmas.SlotsNumber
import EsbuildModel.Lemmas.SlotsCompose
import EsbuildModel.Lemmas.ScopeTree
/-!
Helper lemmas for Props/C15ChunkNames.lean.
-/
namespace EsbuildModel.ChunkNames
open Slots (Scope Name NSym Res declB allList Vis rootScope)

-- ------------------------------------------------------------------------------------------------
-- mapM on Option

theorem mapM_mem {α β : Type} {f : α → Option β} : ∀ {l : List α} {l' : List β}, l.mapM f = some l' →
    ∀ x, x ∈ l → ∃ y, f x = some y ∧ y ∈ l'
  | [], _, _, x, hx => by simp at hx
  | a :: as, l', h, x, hx => by
    rw [List.mapM_cons] at h
    cases ha : f a with
    | none => simp [ha] at h
    | some b =>
      cases has : as.mapM f with
      | none => simp [ha, has] at h
      | some bs =>
        simp [ha, has] at h
        subst h
        rcases List.mem_cons.mp hx with rfl | hx
        · exact ⟨b, ha, List.mem_cons_self⟩
        · obtain ⟨y, hy, hm⟩ := mapM_mem has x hx
          exact ⟨y, hy, List.mem_cons_of_mem _ hm⟩

theorem mapM_mem_inv {α β : Type} {f : α → Option β} : ∀ {l : List α} {l' : List β}, l.mapM f = some l' →
    ∀ y, y ∈ l' → ∃ x, x ∈ l ∧ f x = some y
  | [], l', h, y, hy => by simp at h; subst h; simp at hy
  | a :: as, l', h, y, hy => by
    rw [List.mapM_cons] at h
    cases ha : f a with
    | none => simp [ha] at h
    | some b =>
      cases has : as.mapM f with
      | none => simp [ha, has] at h
      | some bs =>
        simp [ha, has] at h
        subst h
        rcases List.mem_cons.mp hy with rfl | hy
        · exact ⟨a, List.mem_cons_self, ha⟩
        · obtain ⟨x, hx, hf⟩ := mapM_mem_inv has y hy
          exact ⟨x, List.mem_cons_of_mem _ hx, hf⟩

-- ------------------------------------------------------------------------------------------------
-- sort.Ints / sort.Sort on refs

theorem mem_insertNat {a x : Nat} : ∀ {l : List Nat}, x ∈ Slots.insertNat a l ↔ x = a ∨ x ∈ l
  | [] => by simp [Slots.insertNat]
  | b :: bs => by
    simp only [Slots.insertNat]
    split
    · simp
    · simp only [List.mem_cons, mem_insertNat (l := bs)]
      constructor
      · rintro (h | h | h)
        · exact Or.inr (Or.inl h)
        · exact Or.inl h
        · exact Or.inr (Or.inr h)
      · rintro (h | h | h)
        · exact Or.inr (Or.inl h)
        · exact Or.inl h
        · exact Or.inr (Or.inr h)

theorem mem_sortNat {x : Nat} : ∀ {l : List Nat}, x ∈ Slots.sortNat l ↔ x ∈ l
  | [] => by simp [Slots.sortNat]
  | a :: as => by
    have ih := mem_sortNat (x := x) (l := as)
    simp only [Slots.sortNat, List.foldr_cons] at ih ⊢
    rw [mem_insertNat, ih]
    simp

theorem insertNat_comm (a b : Nat) : ∀ (l : List Nat),
    Slots.insertNat a (Slots.insertNat b l) = Slots.insertNat b (Slots.insertNat a l)
  | [] => by
    simp only [Slots.insertNat]
    by_cases h1 : a ≤ b <;> by_cases h2 : b ≤ a <;> simp [h1, h2, Slots.insertNat] <;> omega
  | c :: cs => by
    have ih := insertNat_comm a b cs
    simp only [Slots.insertNat]
    by_cases h1 : a ≤ c <;> by_cases h2 : b ≤ c <;> by_cases h3 : a ≤ b <;> by_cases h4 : b ≤ a <;>
      simp [h1, h2, h3, h4, Slots.insertNat, ih] <;> omega

/-- sorting does not depend on the order in which a Go map was ranged over -/
theorem sortNat_perm {l l' : List Nat} (h : l.Perm l') : Slots.sortNat l = Slots.sortNat l' := by
  induction h with
  | nil => rfl
  | cons x _ ih => simp only [Slots.sortNat, List.foldr_cons] at ih ⊢; rw [ih]
  | swap x y l => simp only [Slots.sortNat, List.foldr_cons]; exact insertNat_comm y x _
  | trans _ _ ih1 ih2 => exact ih1.trans ih2

-- ------------------------------------------------------------------------------------------------
-- resolved scope trees

theorem resolveScopes_mem {f : Nat → Option Nat} : ∀ {l l' : List Scope}, resolveScopes f l = some l' →
    ∀ S, S ∈ l → ∃ S', resolveScope f S = some S' ∧ S' ∈ l'
  | [], _, _, S, hS => by simp at hS
  | a :: as, l', h, S, hS => by
    simp only [resolveScopes] at h
    cases ha : resolveScope f a with
    | none => simp [ha] at h
    | some a' =>
      cases has : resolveScopes f as with
      | none => simp [ha, has] at h
      | some as' =>
        simp [ha, has] at h
        subst h
        rcases List.mem_cons.mp hS with rfl | hS
        · exact ⟨a', ha, List.mem_cons_self⟩
        · obtain ⟨S', h1, h2⟩ := resolveScopes_mem has S hS
          exact ⟨S', h1, List.mem_cons_of_mem _ h2⟩

/-- what resolveScope does to one node -/
theorem resolveScope_node {f : Nat → Option Nat} {m g : List Nat} {l : Option Nat} {ch : List Scope} {S' : Scope}
    (h : resolveScope f ⟨m, g, l, ch⟩ = some S') :
    ∃ refs ch', (Slots.sortNat m ++ g).mapM f = some refs ∧ resolveScopes f ch = some ch' ∧ S' = ⟨[], refs, l, ch'⟩ := by
  simp only [resolveScope] at h
  cases h1 : (Slots.sortNat m ++ g).mapM f with
  | none => simp [h1] at h
  | some refs =>
    cases h2 : resolveScopes f ch with
    | none => simp [h1, h2] at h
    | some ch' =>
      simp [h1, h2] at h
      exact ⟨refs, ch', rfl, rfl, h.symm⟩

/-- a symbol declared by a scope is, followed, declared by the resolved scope -/
theorem resolveScope_decl {f : Nat → Option Nat} {S S' : Scope} (h : resolveScope f S = some S')
    {x : Nat} (hx : x ∈ declB S) : ∃ r, f x = some r ∧ r ∈ declB S' := by
  obtain ⟨m, g, l, ch⟩ := S
  obtain ⟨refs, ch', h1, _, rfl⟩ := resolveScope_node h
  have hx' : x ∈ Slots.sortNat m ++ g := by
    simp only [declB, List.mem_append] at hx
    rcases hx with hx | hx
    · exact List.mem_append_left _ (mem_sortNat.mpr hx)
    · exact List.mem_append_right _ hx
  obtain ⟨r, hr, hm⟩ := mapM_mem h1 x hx'
  exact ⟨r, hr, by simpa [declB] using hm⟩

mutual
theorem resolveScope_all {f : Nat → Option Nat} : (S : Scope) → ∀ {S' : Scope}, resolveScope f S = some S' →
    ∀ {x : Nat}, x ∈ S.all declB → ∃ r, f x = some r ∧ r ∈ S'.all declB
  | ⟨m, g, l, ch⟩, S', h, x, hx => by
    obtain ⟨refs, ch', h1, h2, rfl⟩ := resolveScope_node h
    simp only [Scope.all, List.mem_append] at hx
    rcases hx with hx | hx
    · obtain ⟨r, hr, hm⟩ := resolveScope_decl h hx
      exact ⟨r, hr, by simp only [Scope.all, List.mem_append]; exact Or.inl hm⟩
    · obtain ⟨r, hr, hm⟩ := resolveScopes_all ch h2 hx
      exact ⟨r, hr, by simp only [Scope.all, List.mem_append]; exact Or.inr hm⟩
theorem resolveScopes_all {f : Nat → Option Nat} : (l : List Scope) → ∀ {l' : List Scope}, resolveScopes f l = some l' →
    ∀ {x : Nat}, x ∈ allList declB l → ∃ r, f x = some r ∧ r ∈ allList declB l'
  | [], _, _, x, hx => by simp [allList] at hx
  | a :: as, l', h, x, hx => by
    simp only [resolveScopes] at h
    cases ha : resolveScope f a with
    | none => simp [ha] at h
    | some a' =>
      cases has : resolveScopes f as with
      | none => simp [ha, has] at h
      | some as' =>
        simp [ha, has] at h
        subst h
        simp only [allList, List.mem_append] at hx ⊢
        rcases hx with hx | hx
        · obtain ⟨r, hr, hm⟩ := resolveScope_all a ha hx
          exact ⟨r, hr, Or.inl hm⟩
        · obtain ⟨r, hr, hm⟩ := resolveScopes_all as has hx
          exact ⟨r, hr, Or.inr hm⟩
end

/-- visibility in a scope tree carries over to the resolved tree, between the followed symbols -/
theorem vis_resolve {f : Nat → Option Nat} {S : Scope} {x y : Nat} (hv : Vis declB S x y) :
    ∀ {S' : Scope}, resolveScope f S = some S' → ∃ s t, f x = some s ∧ f y = some t ∧ Vis declB S' s t := by
  induction hv with
  | here hs ht =>
    intro S' h
    obtain ⟨s, hs1, hs2⟩ := resolveScope_decl h hs
    obtain ⟨t, ht1, ht2⟩ := resolveScope_decl h ht
    exact ⟨s, t, hs1, ht1, .here hs2 ht2⟩
  | @inner sc c s t hc ht hs =>
    intro S' h
    obtain ⟨t', ht1, ht2⟩ := resolveScope_decl h ht
    obtain ⟨m, g, l, ch⟩ := sc
    obtain ⟨refs, ch', _, h2, rfl⟩ := resolveScope_node h
    obtain ⟨c', hc1, hc2⟩ := resolveScopes_mem h2 c hc
    obtain ⟨s', hs1, hs2⟩ := resolveScope_all c hc1 hs
    exact ⟨s', t', hs1, ht1, .inner (c := c') hc2 ht2 hs2⟩
  | @deeper sc c s t hc _ ih =>
    intro S' h
    obtain ⟨m, g, l, ch⟩ := sc
    obtain ⟨refs, ch', _, h2, rfl⟩ := resolveScope_node h
    obtain ⟨c', hc1, hc2⟩ := resolveScopes_mem h2 c hc
    obtain ⟨s', t', hs1, ht1, hv'⟩ := ih hc1
    exact ⟨s', t', hs1, ht1, .deeper (c := c') hc2 hv'⟩

end EsbuildModel.ChunkNames
