import EsbuildModel.Lemmas.SmParse
/-!
The two invariants of `ParseSourceMap`'s loops (model `Impl/SmParse.lean`):
* safety — every accepted mapping has its source index, name index and coordinates in range;
* order — while `needSort` is false the accepted mappings are sorted by generated position.
-/
namespace EsbuildModel.SmParse

/-- what the consumers of a parsed source map rely on (`sm.Sources[m.SourceIndex]`,
`sm.Names[m.OriginalName.GetIndex()]`, non-negative coordinates) -/
def Safe (sources names : Nat) (m : Mapping) : Prop :=
  0 ≤ m.srcIdx ∧ m.srcIdx < sources ∧ 0 ≤ m.genCol ∧ 0 ≤ m.origLine ∧ 0 ≤ m.origCol ∧
    ∀ k, m.name = some k → k < names

theorem Safe.mono {s n s' n' : Nat} {m : Mapping} (h : Safe s n m) (hs : s ≤ s') (hn : n ≤ n') : Safe s' n' m := by
  obtain ⟨h1, h2, h3, h4, h5, h6⟩ := h
  exact ⟨h1, by omega, h3, h4, h5, fun k hk => by have := h6 k hk; omega⟩

theorem index32_lt (v : Int) (k : Nat) (lo hi : Nat) (h1 : (lo : Int) ≤ v) (h2 : v < hi) (hhi : hi < 2147483648)
    (h : index32 v = some k) : k < hi := by
  unfold index32 at h
  simp only at h
  split at h
  · cases h
  · simp only [Option.some.injEq] at h
    omega

/-! ### safety -/

def AccSafe (a : Acc) : Prop := a.content ≤ a.sources ∧ ∀ m ∈ a.mappings, Safe a.sources a.names m

theorem loop_safe (c : Consts) (S L N K : Nat) (hS : c.sourceOffset = S) (hL : c.sourcesLen = L)
    (hN : c.nameOffset = N) (hK : c.namesLen = K) (hSL : S + L < 2147483648) (hNK : N + K < 2147483648)
    (fuel : Nat) (s : Loop) (hout : ∀ m ∈ s.out, Safe (S + L) (N + K) m) (hcur : s.current ≤ c.units.length)
    (hfuel : c.units.length - s.current < fuel) :
    LoopPost (fun s' => ∀ m ∈ s'.out, Safe (S + L) (N + K) m) (loop c fuel s) := by
  apply loop_good c (fun s => ∀ m ∈ s.out, Safe (S + L) (N + K) m) _ fuel s hout hcur hfuel
  intro s s' hP _ _ _ hrel
  rcases hrel with ⟨_, _, _, ho, _⟩ | ⟨_, _, _, _, _, ho, _⟩ | ⟨t, ⟨_, _, _, _, _, hto, hchk⟩, _, _, _, name, ho, h1, h2, h3, h4, h5⟩
  · rw [ho]; exact hP
  · rw [ho]; exact hP
  · rw [ho, hto]
    intro m hm
    rcases List.mem_append.mp hm with hm | hm
    · exact hP m hm
    · simp only [List.mem_singleton] at hm
      subst hm
      rw [hS, hL, wrap32_nat L (by omega), wrap32_id _ (by unfold InI32; omega)] at h2
      rw [hS] at h1
      refine ⟨by show 0 ≤ s'.srcIdx; omega, by show s'.srcIdx < ((S + L : Nat) : Int); omega,
        by show 0 ≤ t.genCol; omega, h3, h4, ?_⟩
      intro k hk
      rcases h5 with h5 | ⟨h5, h6, h7⟩
      · rw [h5] at hk; cases hk
      · rw [hN, hK, wrap32_nat K (by omega), wrap32_id _ (by unfold InI32; omega)] at h6
        rw [hN] at h5
        have hk' : index32 s'.origName = some k := by rw [← h7]; exact hk
        exact index32_lt _ k N (N + K) h5 (by omega) hNK hk'

theorem section_safe (a : Acc) (x : SectionIn) (hs : a.sources + x.sourcesLen < 2147483648)
    (hn : a.names + x.namesLen < 2147483648) (ha : AccSafe a) :
    SecPost (fun a' => AccSafe a' ∧ a'.sources ≤ a.sources + x.sourcesLen ∧ a'.names ≤ a.names + x.namesLen)
      (section_ a x) := by
  unfold section_
  split
  · exact ⟨ha, by omega, by omega⟩
  · split
    · exact ⟨ha, by omega, by omega⟩
    · simp only
      have hso : wrap32 (a.sources : Int) = a.sources := wrap32_nat _ (by omega)
      have hno : wrap32 (a.names : Int) = a.names := wrap32_nat _ (by omega)
      have hl := loop_safe
        { units := x.units, lineOffset := x.lineOffset, columnOffset := x.columnOffset,
          sourceOffset := wrap32 a.sources, nameOffset := wrap32 a.names, sourcesLen := x.sourcesLen,
          namesLen := x.namesLen } a.sources x.sourcesLen a.names x.namesLen hso rfl hno rfl hs hn
        (x.units.length + 1)
        ⟨0, x.lineOffset, x.columnOffset, wrap32 a.sources, 0, 0, wrap32 a.names,
          a.needSort || (decide (x.lineOffset < a.genLine) || (decide (x.lineOffset = a.genLine) && decide (x.columnOffset < a.genCol))),
          a.mappings⟩
        (fun m hm => (ha.2 m hm).mono (by omega) (by omega)) (Nat.zero_le _) (by show x.units.length - 0 < _; omega)
      split
      · next h => rw [h] at hl; exact hl
      · next h => rw [h] at hl; exact hl
      · trivial
      · next s' h =>
        rw [h] at hl
        rw [hso]
        split
        · next hc =>
          split at hc
          · split at hc
            · have := ha.1; omega
            · cases hc
          · cases hc
        · next content hc =>
          refine ⟨⟨?_, hl⟩, Nat.le_refl _, Nat.le_refl _⟩
          show content ≤ a.sources + x.sourcesLen
          split at hc
          · split at hc
            · cases hc
            · simp only [Option.some.injEq] at hc
              have := ha.1
              have : min x.contentLen x.sourcesLen ≤ x.sourcesLen := Nat.min_le_right _ _
              omega
          · simp only [Option.some.injEq] at hc
            have := ha.1; omega

def totalSources (xs : List SectionIn) : Nat := (xs.map (·.sourcesLen)).sum
def totalNames (xs : List SectionIn) : Nat := (xs.map (·.namesLen)).sum

theorem sections_safe (xs : List SectionIn) : ∀ (a : Acc), a.sources + totalSources xs < 2147483648 →
    a.names + totalNames xs < 2147483648 → AccSafe a → SecPost AccSafe (sections a xs) := by
  induction xs with
  | nil => intro a _ _ ha; exact ha
  | cons x xs ih =>
    intro a hs hn ha
    simp only [totalSources, totalNames, List.map_cons, List.sum_cons] at hs hn
    have h1 := section_safe a x (by omega) (by omega) ha
    cases hr : section_ a x with
    | ok a' =>
      rw [hr] at h1
      simp only [sections, hr]
      exact ih a' (by simp only [totalSources]; have := h1.2.1; omega) (by simp only [totalNames]; have := h1.2.2; omega) h1.1
    | err => simp only [sections, hr]; trivial
    | panic => rw [hr] at h1; exact h1.elim
    | hang => rw [hr] at h1; exact h1.elim

/-! ### order -/

/-- generated position `(l1, c1)` is not after `(l2, c2)` -/
def posLE (l1 c1 l2 c2 : Int) : Prop := l1 < l2 ∨ (l1 = l2 ∧ c1 ≤ c2)

theorem posLE.trans {l1 c1 l2 c2 l3 c3 : Int} (h1 : posLE l1 c1 l2 c2) (h2 : posLE l2 c2 l3 c3) :
    posLE l1 c1 l3 c3 := by
  unfold posLE at *; omega

theorem less_iff (a b : Mapping) : less a b = true ↔ posLE a.genLine a.genCol b.genLine b.genCol := by
  unfold less posLE; simp

/-- sorted by generated position (`mappingArray.Less` holds from every element to every later one) -/
def Sorted (ms : List Mapping) : Prop := ms.Pairwise (fun a b => less a b = true)

/-- the part of the state the order argument needs -/
def OrdInv (needSort : Bool) (out : List Mapping) (genLine genCol : Int) : Prop :=
  InI32 genLine ∧ InI32 genCol ∧
    (needSort = false → Sorted out ∧ ∀ m ∈ out, posLE m.genLine m.genCol genLine genCol)

theorem loop_sorted (c : Consts) (fuel : Nat) (s : Loop)
    (hinv : OrdInv s.needSort s.out s.genLine s.genCol)
    (hline : s.genLine + ((c.units.length - s.current : Nat) : Int) < 2147483648)
    (hcur : s.current ≤ c.units.length) (hfuel : c.units.length - s.current < fuel) :
    LoopPost (fun s' => OrdInv s'.needSort s'.out s'.genLine s'.genCol) (loop c fuel s) := by
  have := loop_good c (fun s => OrdInv s.needSort s.out s.genLine s.genCol ∧
      s.genLine + ((c.units.length - s.current : Nat) : Int) < 2147483648) ?_ fuel s ⟨hinv, hline⟩ hcur hfuel
  · exact this.mono (fun _ h => h.1)
  intro s s' ⟨⟨hL, hC, hS⟩, hbound⟩ hlt hadv hle hrel
  have colread : ∀ t : Loop, ColRead c s t → OrdInv t.needSort t.out t.genLine t.genCol := by
    intro t ⟨delta, hd, hl, hc, hns, ho, hchk⟩
    refine ⟨by rw [hl]; exact hL, by rw [hc]; exact wrap32_range _, ?_⟩
    intro hf
    rw [hns] at hf
    simp only [Bool.or_eq_false_iff, decide_eq_false_iff_not] at hf
    obtain ⟨hsorted, hall⟩ := hS hf.1
    rw [ho]
    refine ⟨hsorted, fun m hm => ?_⟩
    have hge : wrap32 (s.genCol + delta) = s.genCol + delta :=
      wrap32_add_nonneg _ _ hC hd (by omega) (by rw [← hc]; omega)
    have := hall m hm
    rw [hl, hc, hge]
    unfold posLE at *; omega
  rcases hrel with ⟨hl, hc, hns, ho, hcur'⟩ | hcr | ⟨t, hcr, hl, hc, hns, name, ho, _⟩
  · have hw : wrap32 (s.genLine + 1) = s.genLine + 1 := by
      apply wrap32_id; unfold InI32 at *; omega
    refine ⟨⟨by rw [hl, hw]; unfold InI32 at *; omega, by rw [hc]; unfold InI32; omega, ?_⟩, by rw [hl, hw, hcur']; omega⟩
    intro hf
    rw [hns] at hf
    obtain ⟨hsorted, hall⟩ := hS hf
    rw [ho]
    refine ⟨hsorted, fun m hm => ?_⟩
    have := hall m hm
    rw [hl, hw, hc]
    unfold posLE at *; omega
  · refine ⟨colread s' hcr, ?_⟩
    obtain ⟨_, _, hl, _⟩ := hcr
    rw [hl]; omega
  · have ht := colread t hcr
    obtain ⟨_, _, htl, _⟩ := hcr
    refine ⟨⟨by rw [hl]; exact ht.1, by rw [hc]; exact ht.2.1, ?_⟩, by rw [hl, htl]; omega⟩
    intro hf
    rw [hns] at hf
    obtain ⟨hsorted, hall⟩ := ht.2.2 hf
    rw [ho, hl, hc]
    constructor
    · unfold Sorted
      rw [List.pairwise_append]
      refine ⟨hsorted, List.pairwise_singleton _ _, ?_⟩
      intro a ha b hb
      simp only [List.mem_singleton] at hb
      subst hb
      exact (less_iff _ _).mpr (hall a ha)
    · intro m hm
      rcases List.mem_append.mp hm with hm | hm
      · exact hall m hm
      · simp only [List.mem_singleton] at hm
        subst hm
        exact Or.inr ⟨rfl, Int.le_refl _⟩


/-- partial-correctness postcondition (panic and hang are excluded by `sections_safe`) -/
def SecOk (Q : Acc → Prop) : SecResult → Prop
  | .ok a => Q a
  | _ => True

def AccOrd (a : Acc) : Prop := OrdInv a.needSort a.mappings a.genLine a.genCol

/-- offsets are int32 values and `generatedLine++` cannot overflow while the section is decoded -/
def LinesFit (x : SectionIn) : Prop :=
  InI32 x.lineOffset ∧ InI32 x.columnOffset ∧ x.lineOffset + (x.units.length : Int) < 2147483648

theorem section_sorted (a : Acc) (x : SectionIn) (hx : LinesFit x) (ha : AccOrd a) :
    SecOk AccOrd (section_ a x) := by
  obtain ⟨hlo, hco, hline⟩ := hx
  unfold section_
  split
  · exact ha
  · split
    · exact ha
    · simp only
      have hl := loop_sorted
        { units := x.units, lineOffset := x.lineOffset, columnOffset := x.columnOffset,
          sourceOffset := wrap32 a.sources, nameOffset := wrap32 a.names, sourcesLen := x.sourcesLen,
          namesLen := x.namesLen } (x.units.length + 1)
        ⟨0, x.lineOffset, x.columnOffset, wrap32 a.sources, 0, 0, wrap32 a.names,
          a.needSort || (decide (x.lineOffset < a.genLine) || (decide (x.lineOffset = a.genLine) && decide (x.columnOffset < a.genCol))),
          a.mappings⟩ ?_ (by show x.lineOffset + ((x.units.length - 0 : Nat) : Int) < _; simpa using hline)
        (Nat.zero_le _) (by show x.units.length - 0 < _; omega)
      · split
        · trivial
        · trivial
        · trivial
        · next s' h =>
          rw [h] at hl
          split
          · trivial
          · exact hl
      · refine ⟨hlo, hco, ?_⟩
        intro hf
        simp only [Bool.or_eq_false_iff, decide_eq_false_iff_not, Bool.and_eq_false_imp, decide_eq_true_eq] at hf
        obtain ⟨hns, h1, h2⟩ := hf
        obtain ⟨hsorted, hall⟩ := ha.2.2 hns
        refine ⟨hsorted, fun m hm => (hall m hm).trans ?_⟩
        show posLE a.genLine a.genCol x.lineOffset x.columnOffset
        unfold posLE
        by_cases heq : x.lineOffset = a.genLine
        · have := h2 heq; omega
        · omega

theorem sections_sorted (xs : List SectionIn) : ∀ (a : Acc), (∀ x ∈ xs, LinesFit x) → AccOrd a →
    SecOk AccOrd (sections a xs) := by
  induction xs with
  | nil => intro a _ ha; exact ha
  | cons x xs ih =>
    intro a hx ha
    have h1 := section_sorted a x (hx x (List.mem_cons_self)) ha
    cases hr : section_ a x with
    | ok a' =>
      rw [hr] at h1
      simp only [sections, hr]
      exact ih a' (fun y hy => hx y (List.mem_cons_of_mem _ hy)) h1
    | err => simp only [sections, hr]; trivial
    | panic => simp only [sections, hr]; trivial
    | hang => simp only [sections, hr]; trivial

end EsbuildModel.SmParse
