import EsbuildModel.Lemmas.CssBoxSides2
/-
The semantic core of `mangleSides`, and `mangleSides` as a whole.
-/
namespace EsbuildModel.CssBox
open EsbuildModel.Spec.BoxCascade

section
variable {V : Type} {B : Browser Tok V} {F : Family} {ds : List CssBox.Decl}

theorem quadSides_get (U : Safety) (n : Nat) (q : Token × Token × Token × Token) (s : Side) :
    ({ top := quadSide U n q.1, right := quadSide U n q.2.1, bottom := quadSide U n q.2.2.1,
       left := quadSide U n q.2.2.2 } : Sides).get s = quadSide U n (pickT q s) := by
  cases s <;> rfl

theorem sides_update (hB : CssFacts B F) {box : Tracker} {rules : List (Option CssBox.Decl)} (h : TInv B F ds box rules)
    (d : CssBox.Decl) (q : Token × Token × Token × Token) (himp : box.important = d.important)
    (hk : d.key = .box F .shorthand)
    (hq : expandTokenQuad d.value (if famAllowAuto F = true then b "auto" else []) = some q)
    (hown : Own ds F rules.length) :
    TInv B F ds
      { box with sides := ({ top := quadSide (quadSafety (famAllowAuto F) q) rules.length q.1,
                             right := quadSide (quadSafety (famAllowAuto F) q) rules.length q.2.1,
                             bottom := quadSide (quadSafety (famAllowAuto F) q) rules.length q.2.2.1,
                             left := quadSide (quadSafety (famAllowAuto F) q) rules.length q.2.2.2 } : Sides) }
      (rmOld box.sides.left (quadSafety (famAllowAuto F) q) (rmOld box.sides.bottom (quadSafety (famAllowAuto F) q)
        (rmOld box.sides.right (quadSafety (famAllowAuto F) q) (rmOld box.sides.top (quadSafety (famAllowAuto F) q)
          (rules ++ [some d]))))) ∧
    ∀ s imp, LS B F (rmOld box.sides.left (quadSafety (famAllowAuto F) q) (rmOld box.sides.bottom (quadSafety (famAllowAuto F) q)
        (rmOld box.sides.right (quadSafety (famAllowAuto F) q) (rmOld box.sides.top (quadSafety (famAllowAuto F) q)
          (rules ++ [some d]))))) s imp = (cD B F s imp d).or (LS B F rules s imp) := by
  obtain ⟨hacc, _⟩ := cD_shorthand hB .top true d _ q hk hq rfl
  obtain ⟨_, _, _, _, hpm, hall⟩ := expandTokenQuad_spec d.value _ q hq
  have hq' : ∀ s, TrackerAccepts F (pickT q s) := fun s => hacc _ (hpm s)
  have hcd : ∀ s imp, cD B F s imp d =
      if d.important = imp ∧ (okT B q.1 && okT B q.2.1 && okT B q.2.2.1 && okT B q.2.2.2) = true
      then some (.known (B.den (pickT q s).core)) else none := by
    intro s imp
    rw [(cD_shorthand hB s imp d _ q hk hq rfl).2, hall (okT B)]
  obtain ⟨hsafe, hunsafe, hcls⟩ := quadSafety_spec hB q hq'
  generalize quadSafety (famAllowAuto F) q = U at *
  generalize hA : (okT B q.1 && okT B q.2.1 && okT B q.2.2.1 && okT B q.2.2.2) = A at *
  -- the removals
  let Q : List (Option CssBox.Decl) → Prop := fun R =>
    R.length = rules.length + 1 ∧ (∀ s imp, cAt B F R s imp rules.length = cD B F s imp d) ∧
    (∀ s imp, LS B F R s imp = LS B F (rules ++ [some d]) s imp) ∧
    (∀ s imp j, j < rules.length → cAt B F R s imp j ≠ none → cAt B F R s imp j = cAt B F rules s imp j)
  have hQ0 : Q (rules ++ [some d]) := by
    refine ⟨by simp, fun s imp => ?_, fun _ _ => rfl, fun s imp j hj _ => cAt_append_left B F _ _ s imp j hj⟩
    rw [cAt_concat_last]; rfl
  have hQstep : ∀ s0 R, Q R → Q (rmOld (box.sides.get s0) U R) := by
    intro s0 R hQ
    unfold rmOld
    by_cases hc : (box.sides.get s0).present = true ∧ (box.sides.get s0).unitSafety.status = .safe ∧ U.status = .safe
    · rw [if_pos hc]
      obtain ⟨hl, hn, hls, hlow⟩ := hQ
      have hi := (h.pres s0 hc.1).1
      obtain ⟨v, _, _, h3⟩ := h.value s0 hc.1
      have hAt : A = true := hcls.1 hc.2.2
      refine ⟨by simp [hl], fun s imp => ?_, fun s imp => ?_, fun s imp j hj hne => ?_⟩
      · rw [cAt_set, if_neg (by omega)]; exact hn s imp
      · rw [LS_set_none_of_dominated (l := R) (i := (box.sides.get s0).ruleIndex) (n := rules.length) (by omega) hi ?_ s imp]
        · exact hls s imp
        · intro s2 imp2 hne
          have e1 := hlow s2 imp2 _ hi hne
          rw [e1] at hne
          have e2 := (h3 s2 imp2 hne).2
          rw [hn, hcd, if_pos ⟨by rw [← himp]; exact e2, hAt⟩]
          simp
      · rw [cAt_set] at hne ⊢
        by_cases hj' : (box.sides.get s0).ruleIndex = j ∧ j < R.length
        · rw [if_pos hj'] at hne; exact absurd rfl hne
        · rw [if_neg hj'] at hne ⊢; exact hlow s imp j hj hne
    · rw [if_neg hc]; exact hQ
  have hQ4 := hQstep .left _ (hQstep .bottom _ (hQstep .right _ (hQstep .top _ hQ0)))
  simp only [Sides.get] at hQ4
  generalize (rmOld box.sides.left U (rmOld box.sides.bottom U (rmOld box.sides.right U (rmOld box.sides.top U
    (rules ++ [some d]))))) = R4 at *
  obtain ⟨hl4, hn4, hls4, _⟩ := hQ4
  -- the stored tokens
  have htok : ∀ s, TrackerAccepts F (quadSide U rules.length (pickT q s)).token ∧
      B.den (quadSide U rules.length (pickT q s)).token.core = B.den (pickT q s).core ∧
      (U.status = .safe → okT B (quadSide U rules.length (pickT q s)).token = true) ∧
      (U.status ≠ .safe → (quadSide U rules.length (pickT q s)).token = pickT q s) := by
    intro s
    by_cases hs : U.status = .safe
    · have e : (quadSide U rules.length (pickT q s)).token = (pickT q s).turn.1 := if_pos hs
      rw [e]
      have ha := hsafe hs s
      exact ⟨(Accepted_turn _ ha).tracker, den_turn hB _ ha, fun _ => hB.ok_safe _ (Accepted_turn _ ha), fun h' => absurd hs h'⟩
    · have e : (quadSide U rules.length (pickT q s)).token = pickT q s := if_neg hs
      rw [e]
      exact ⟨hq' s, rfl, fun h' => absurd h' hs, fun _ => rfl⟩
  refine ⟨⟨h.kt, h.aa, ?_, ?_, ?_, ?_, ?_, ?_⟩, ?_⟩
  · intro s _
    simp only [quadSides_get]
    exact ⟨by rw [hl4]; exact Nat.lt_succ_self _, hown, (htok s).1⟩
  · intro s _ i hi imp
    simp only [quadSides_get] at hi
    exact cAt_ge B F R4 s imp i (by rw [hl4]; exact hi)
  · intro s _
    simp only [quadSides_get]
    refine ⟨A, hcls, ?_, ?_⟩
    · intro imp
      show cAt B F R4 s imp rules.length = _
      rw [hn4, hcd, himp, (htok s).2.1]
    · intro s' imp hne
      change cAt B F R4 s' imp rules.length ≠ none at hne
      rw [hn4, hcd] at hne
      by_cases hc : d.important = imp ∧ A = true
      · exact ⟨hc.2, by rw [himp]; exact hc.1⟩
      · rw [if_neg hc] at hne; exact absurd rfl hne
  · intro s _ hs
    simp only [quadSides_get] at hs
    simp [quadSide] at hs
  · intro s _
    simp only [quadSides_get]
    refine ⟨(htok s).2.2.1, fun hu => ?_⟩
    have hns : U.status ≠ .safe := by
      intro h'
      have : (quadSide U rules.length (pickT q s)).unitSafety.status = .safe := h'
      rw [this] at hu; cases hu
    rw [(htok s).2.2.2 hns]
    exact (hunsafe hu).1 s
  · intro s _ hu
    simp only [quadSides_get] at hu ⊢
    have hu' : U.status = .unsafeSingle := hu
    have hns : U.status ≠ .safe := by rw [hu']; simp
    obtain ⟨sw, hw⟩ := (hunsafe hu').2
    refine ⟨sw, Or.inr (Or.inr ?_)⟩
    rw [(htok sw).2.2.2 hns]
    exact hw
  · intro s imp
    rw [hls4, LS_concat]; rfl


theorem mangleSides_TInv (hB : CssFacts B F) {box : Tracker} {rules : List (Option CssBox.Decl)} (h : TInv B F ds box rules)
    (d : CssBox.Decl) (hk : d.key = .box F .shorthand) (hown : Own ds F rules.length) (mw : Bool) :
    TInv B F ds (mangleSides box { rules := rules ++ [some d], panic := false } d mw).1
      (mangleSides box { rules := rules ++ [some d], panic := false } d mw).2.rules ∧
    ∀ s imp, LS B F (mangleSides box { rules := rules ++ [some d], panic := false } d mw).2.rules s imp =
      (cD B F s imp d).or (LS B F rules s imp) := by
  obtain ⟨h1, himp⟩ := sync_TInv h d
  cases hq : expandTokenQuad d.value (if (syncImportant box d).allowAuto = true then b "auto" else []) with
  | some q =>
    rw [mangleSides_accepted box rules d mw q hq (fun s hp => by have := (h1.pres s hp).1; omega), h1.aa]
    rw [h1.aa] at hq
    obtain ⟨h2, h3⟩ := sides_update hB h1 d q himp hk hq hown
    obtain ⟨h4, h5⟩ := compactRules_TInv hB mw h2
    exact ⟨h4, fun s imp => by rw [h5, h3]⟩
  | none =>
    have : mangleSides box { rules := rules ++ [some d], panic := false } d mw =
        ({ syncImportant box d with sides := {} }, { rules := rules ++ [some d], panic := false }) := by
      unfold CssBox.mangleSides
      simp only [hq]
    rw [this]
    exact ⟨h1.reset _, fun s imp => LS_concat B F rules (some d) s imp⟩

end
end EsbuildModel.CssBox
