import EsbuildModel.Lemmas.Wtf8
/-!
The consumer loop `for i < n { c, width := DecodeWTF8Rune(text[i:]); …; i += width }` (model: `decodeAll`, the shape of
`helpers.internalQuote`'s loops) on ARBITRARY bytes: since the width is at least 1 on non-empty input, every round
consumes a byte, so the loop reaches the end of the input in at most `n` rounds; it is never stuck and never panics.
-/
namespace EsbuildModel.Wtf8

theorem decodeAll_total : ∀ (fuel : Nat) (s : List Nat), s.length ≤ fuel →
    ∃ cps, decodeAll fuel s = .runes cps ∧ cps.length ≤ s.length := by
  intro fuel
  induction fuel with
  | zero =>
    intro s h
    cases s with
    | nil => exact ⟨[], by simp [decodeAll], by simp⟩
    | cons a t => simp at h
  | succ fuel ih =>
    intro s h
    cases s with
    | nil => exact ⟨[], by simp [decodeAll], by simp⟩
    | cons a t =>
      obtain ⟨r, w, hd, hle, _, _, hpos, _, _⟩ := decodeWTF8Rune_total (a :: t)
      have hw : 1 ≤ w := hpos (by simp)
      rw [decodeAll, hd]
      simp only
      have hw0 : ¬ w = 0 := by omega
      simp only [hw0, if_false]
      obtain ⟨cps, hc, hl⟩ := ih ((a :: t).drop w) (by simp only [List.length_drop, List.length_cons] at h hle ⊢; omega)
      rw [hc]
      refine ⟨r :: cps, rfl, ?_⟩
      simp only [List.length_drop, List.length_cons] at hl hle ⊢
      omega

end EsbuildModel.Wtf8
