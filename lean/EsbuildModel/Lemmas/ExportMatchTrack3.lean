import EsbuildModel.Lemmas.ExportMatchTrack2
/-! What a holder (an export entry reachable through star requests) contributes: its own local binding, a namespace
object, or whatever the import it re-exports points to. -/
namespace EsbuildModel.ExportMatch
open EsbuildModel.Spec EsbuildModel.Spec.EsModules

def exportsRefOf (t : Table) (m : Nat) : Nat :=
  match t[m]? with
  | some f => f.exportsRef
  | none => 0

/-- the `matchImportResult` of kind Normal that names binding `b`, without its `nameLoc` -/
def normalOf (t : Table) (b : ResolvedBinding) : MResult :=
  match b.bindingName with
  | .name r => { kind := .normal, src := b.module, ref := r, loc := 0 }
  | .namespace => { kind := .normal, src := b.module, ref := exportsRefOf t b.module, loc := 0 }

/-- what the import `ni` points to, in the request graph -/
def Pointed (t : Table) (ni : NamedImport) (b : ResolvedBinding) : Prop :=
  match ni.target with
  | some tg => if ni.isStar then b = ⟨tg, .namespace⟩ else Reaches (toSpec t) (tg, ni.alias) b
  | none => False

/-- a holder whose symbol is a local binding provides exactly that binding -/
theorem holder_local {t : Table} (hwf : WF t) {a : Name} {d : ImportData} {fo : File}
    {e : NamedExport} (hfo : t[d.src]? = some fo) (he : entry fo a = some e) (her : e.ref = d.ref)
    (hni : findImport fo d.ref = none) :
    (∀ b, Reaches (toSpec t) (d.src, a) b ↔ b = ⟨d.src, .name d.ref⟩) ∧
      noLoc { kind := .normal, src := d.src, ref := d.ref, loc := d.loc } = normalOf t ⟨d.src, .name d.ref⟩ := by
  have hnode : node (toSpec t) d.src a = .loc d.ref := by
    rw [node_toSpec hwf.aliases]
    simp [nodeOf, hfo, he, her, hni]
  refine ⟨?_, rfl⟩
  intro b
  constructor
  · intro hr
    rcases hr.cases with ht | ⟨y, hy, _⟩
    · simp [term, hnode] at ht; exact ht.symm
    · simp [succ, hnode] at hy
  · rintro rfl
    exact Reaches.of_term (by simp [term, hnode])

/-- a holder whose symbol is an import provides what the import points to -/
theorem holder_import {t : Table} (hwf : WF t) (hesm : EsmOnly t) {a : Name} {d : ImportData} {fo : File}
    {e : NamedExport} (hfo : t[d.src]? = some fo) (he : entry fo a = some e) (her : e.ref = d.ref)
    {ni : NamedImport} (hni : findImport fo d.ref = some ni) :
    (∀ b, Reaches (toSpec t) (d.src, a) b ↔ Pointed t ni b) ∧
      (ni.isStar = false → ∀ tg, ni.target = some tg → node (toSpec t) d.src a = .ind tg ni.alias) := by
  have hfm := List.mem_of_getElem? hfo
  have htg : ∃ tg, ni.target = some tg := by
    cases h : ni.target with
    | none => exact absurd h (hesm.targets fo hfm ni (findImport_mem hni).1)
    | some tg => exact ⟨tg, rfl⟩
  obtain ⟨tg, htg⟩ := htg
  by_cases hs : ni.isStar = true
  · have hnode : node (toSpec t) d.src a = .ns tg := by
      rw [node_toSpec hwf.aliases]
      simp [nodeOf, hfo, he, her, hni, htg, hs]
    refine ⟨?_, fun h => by rw [hs] at h; cases h⟩
    intro b
    simp only [Pointed, htg, hs, if_true]
    constructor
    · intro hr
      rcases hr.cases with ht | ⟨y, hy, _⟩
      · simp [term, hnode] at ht; exact ht.symm
      · simp [succ, hnode] at hy
    · rintro rfl
      exact Reaches.of_term (by simp [term, hnode])
  · have hs' : ni.isStar = false := by simpa using hs
    have hnode : node (toSpec t) d.src a = .ind tg ni.alias := by
      rw [node_toSpec hwf.aliases]
      simp [nodeOf, hfo, he, her, hni, htg, hs']
    refine ⟨?_, fun _ tg' h' => by rw [htg] at h'; cases h'; exact hnode⟩
    intro b
    simp only [Pointed, htg, hs', Bool.false_eq_true, if_false]
    constructor
    · intro hr
      rcases hr.cases with ht | ⟨y, hy, hr'⟩
      · simp [term, hnode] at ht
      · simp [succ, hnode] at hy; subst hy; exact hr'
    · intro hr
      exact Reaches.of_succ (by simp [succ, hnode]) hr

/-- under `ReexportsLink` what an exported import points to is a single binding -/
theorem pointed_unique {t : Table} (hwf : WF t) (hesm : EsmOnly t) (hlink : ReexportsLink (toSpec t)) {a : Name}
    {d : ImportData} {fo : File} {e : NamedExport} (hfo : t[d.src]? = some fo) (he : entry fo a = some e)
    (her : e.ref = d.ref) {ni : NamedImport} (hni : findImport fo d.ref = some ni) :
    ∃ b, Pointed t ni b ∧ ∀ b', Pointed t ni b' → b' = b := by
  obtain ⟨hiff, hind⟩ := holder_import hwf hesm hfo he her hni
  have hfm := List.mem_of_getElem? hfo
  cases htg : ni.target with
  | none => exact absurd htg (hesm.targets fo hfm ni (findImport_mem hni).1)
  | some tg =>
    by_cases hs : ni.isStar = true
    · exact ⟨⟨tg, .namespace⟩, by simp [Pointed, htg, hs], fun b' hb' => by simpa [Pointed, htg, hs] using hb'⟩
    · have hs' : ni.isStar = false := by simpa using hs
      obtain ⟨b, hb, hu⟩ := link_unique hwf hlink (hind hs' tg htg)
      exact ⟨b, (hiff b).1 hb, fun b' hb' => hu b' ((hiff b').2 hb')⟩

theorem noLoc_normalOf (t : Table) (b : ResolvedBinding) : noLoc (normalOf t b) = normalOf t b := by
  unfold normalOf noLoc; split <;> rfl

end EsbuildModel.ExportMatch
