import EsbuildModel.Lemmas.ScopesParseConn
/-!
What the parse pass establishes about links, positionally over the items: every declaration is joined to the member its
scope has for the name at the end, and a function body scope holds (a symbol joined to) every parameter.
-/
namespace EsbuildModel.Scopes

/-- members only move along links (the name `arguments` excepted: its implicit symbol can be overwritten) -/
def MemCont (syms : Syms) (mem mem' : Members) : Prop :=
  ∀ n m, n ≠ argumentsName → lookup n mem = some m → ∃ m', lookup n mem' = some m' ∧ Conn syms m m'

theorem MemCont.refl (syms : Syms) (mem : Members) : MemCont syms mem mem := fun _ m _ h => ⟨m, h, .refl _⟩

theorem MemCont.trans {a b : Syms} {m1 m2 m3 : Members} (h1 : MemCont a m1 m2) (h2 : MemCont b m2 m3)
    (hk : LinksKept a b) : MemCont b m1 m3 := by
  intro n m hn hl
  obtain ⟨m', hl', hc⟩ := h1 n m hn hl
  obtain ⟨m'', hl'', hc'⟩ := h2 n m' hn hl'
  exact ⟨m'', hl'', (hc.mono hk).trans hc'⟩

theorem MemCont.mono {a b : Syms} {m1 m2 : Members} (h : MemCont a m1 m2) (hk : LinksKept a b) : MemCont b m1 m2 := by
  intro n m hn hl
  obtain ⟨m', hl', hc⟩ := h n m hn hl
  exact ⟨m', hl', hc.mono hk⟩

/-- the kind of the member of `n` after an item, from the kind before -/
def kindAfter (n : Name) : Item → Option SK → Option SK
  | .decl k n', x => if n' = n then some k else x
  | .declArgs, x => if n = argumentsName then (if x.isSome then x else some .arguments) else x
  | _, x => x
/-- the item does not declare the name `arguments` -/
def noArgDecl : Item → Bool
  | .decl _ n => n != argumentsName
  | _ => true
def noArgDeclL : List Item → Bool
  | [] => true
  | i :: is => noArgDecl i && noArgDeclL is
def kindAfterL (n : Name) : List Item → Option SK → Option SK
  | [], x => x
  | i :: is, x => kindAfterL n is (kindAfter n i x)
/-- is there a member for `n` after an item -/
def hasAfter (n : Name) : Item → Bool → Bool
  | .decl _ n', x => x || n' == n
  | .declArgs, x => x || n == argumentsName
  | _, x => x
def hasAfterL (n : Name) : List Item → Bool → Bool
  | [], x => x
  | i :: is, x => hasAfterL n is (hasAfter n i x)

/-- the members of a scope (which names, which kinds) in terms of the items of the scope -/
def ScopeEqs (syms : Syms) (mem : Members) (k : ScK) (f : Frame) (body : List Item) : Prop :=
  MemNames syms f.members ∧ (keys f.members).Nodup ∧
  (∀ n, (lookup n f.members).isSome =
    hasAfterL n body (if k = .fnBody then (copyKind (memberKind syms mem n)).isSome else false)) ∧
  (∀ n, (n ≠ argumentsName ∨ noArgDeclL body = true) → memberKind syms f.members n =
    kindAfterL n body (if k = .fnBody then copyKind (memberKind syms mem n) else none))

theorem ScopeEqs.mono {a b : Syms} {mem : Members} {k : ScK} {f : Frame} {body : List Item} (h : ScopeEqs a mem k f body)
    (he : SymsExt a b) (hm : MemNames a mem) : ScopeEqs b mem k f body := by
  obtain ⟨h1, h0, h2, h3⟩ := h
  refine ⟨h1.ext he, h0, ?_, ?_⟩
  · intro n; rw [memberKind_ext he hm]; exact h2 n
  · intro n hn; rw [memberKind_ext he hm, memberKind_ext he h1]; exact h3 n hn

/-- the function body scope holds (a symbol joined to) every non-function member of its argument scope -/
def CopyConn (syms : Syms) (mem : Members) (f : Frame) : Prop :=
  f.kind = .fnBody → ∀ n m, n ≠ argumentsName → lookup n mem = some m → kindOf? syms m ≠ some .hoistedFunction →
    ∃ m', lookup n f.members = some m' ∧ Conn syms m m'

mutual
def factsItem (syms : Syms) (mem : Members) : Item → List Nat → List Sc → Prop
  | .decl _ n, ds, ks => ks = [] ∧ ∃ d, ds = [d] ∧ (n ≠ argumentsName → ∃ m, lookup n mem = some m ∧ Conn syms d m)
  | .rawSym _, ds, ks => ks = [] ∧ ds.length = 1
  | .scope k _ _ body, ds, ks =>
    ∃ f kids, ks = [.node f kids] ∧ f.kind = k ∧ CopyConn syms mem f ∧ ScopeEqs syms mem k f body ∧
      factsItems syms f.members body ds kids
  | .declArgs, ds, ks => ds = [] ∧ ks = []
  | .genSym _, ds, ks => ds = [] ∧ ks = []
  | .classInner _, ds, ks => ds = [] ∧ ks = []
  | .ref _, ds, ks => ds = [] ∧ ks = []
  | .eval, ds, ks => ds = [] ∧ ks = []
  | .cut, ds, ks => ds = [] ∧ ks = []
def factsItems (syms : Syms) (mem : Members) : List Item → List Nat → List Sc → Prop
  | [], ds, ks => ds = [] ∧ ks = []
  | i :: is, ds, ks => ∃ d1 d2 k1 k2, ds = d1 ++ d2 ∧ ks = k1 ++ k2 ∧ factsItem syms mem i d1 k1 ∧ factsItems syms mem is d2 k2
end

theorem kindOf_ext {a b : Syms} (h : SymsExt a b) {r : Nat} {k : SK} (hk : kindOf? a r = some k) : kindOf? b r = some k := by
  unfold kindOf? at hk ⊢
  cases ha : a[r]? with
  | none => rw [ha] at hk; cases hk
  | some s =>
    rw [ha] at hk
    obtain ⟨s', hs', hk', _⟩ := h r s ha
    rw [hs']; simp only [Option.map_some, Option.some.injEq] at hk ⊢; rw [hk']; exact hk

theorem CopyConn.mono {a b : Syms} {mem : Members} {f : Frame} (h : CopyConn a mem f) (hk : LinksKept a b)
    (he : SymsExt a b) : CopyConn b mem f := by
  intro hf n m hn hl hkind
  have : kindOf? a m ≠ some .hoistedFunction := fun e => hkind (kindOf_ext he e)
  obtain ⟨m', hl', hc⟩ := h hf n m hn hl this
  exact ⟨m', hl', hc.mono hk⟩

mutual
theorem factsItem_mono {a b : Syms} (hk : LinksKept a b) (he : SymsExt a b) :
    ∀ (i : Item) (mem : Members) (ds : List Nat) (ks : List Sc), MemNames a mem → factsItem a mem i ds ks →
      factsItem b mem i ds ks
  | .decl _ n, mem, ds, ks, _, h => by
    simp only [factsItem] at h ⊢
    obtain ⟨h1, d, h2, h3⟩ := h
    exact ⟨h1, d, h2, fun hn => by obtain ⟨m, hm, hc⟩ := h3 hn; exact ⟨m, hm, hc.mono hk⟩⟩
  | .rawSym _, _, _, _, _, h => by simpa only [factsItem] using h
  | .scope k _ _ body, mem, ds, ks, hm, h => by
    simp only [factsItem] at h ⊢
    obtain ⟨f, kids, h1, h2, h3, h4, h5⟩ := h
    exact ⟨f, kids, h1, h2, h3.mono hk he, h4.mono he hm, factsItems_mono hk he body f.members ds kids h4.1 h5⟩
  | .declArgs, _, _, _, _, h => by simpa only [factsItem] using h
  | .genSym _, _, _, _, _, h => by simpa only [factsItem] using h
  | .classInner _, _, _, _, _, h => by simpa only [factsItem] using h
  | .ref _, _, _, _, _, h => by simpa only [factsItem] using h
  | .eval, _, _, _, _, h => by simpa only [factsItem] using h
  | .cut, _, _, _, _, h => by simpa only [factsItem] using h
theorem factsItems_mono {a b : Syms} (hk : LinksKept a b) (he : SymsExt a b) :
    ∀ (is : List Item) (mem : Members) (ds : List Nat) (ks : List Sc), MemNames a mem → factsItems a mem is ds ks →
      factsItems b mem is ds ks
  | [], _, _, _, _, h => by simpa only [factsItems] using h
  | i :: is, mem, ds, ks, hm, h => by
    simp only [factsItems] at h ⊢
    obtain ⟨d1, d2, k1, k2, h1, h2, h3, h4⟩ := h
    exact ⟨d1, d2, k1, k2, h1, h2, factsItem_mono hk he i mem d1 k1 hm h3, factsItems_mono hk he is mem d2 k2 hm h4⟩
end

/-- the facts of an item survive later changes of the scope it is in -/
theorem factsItem_cont {syms : Syms} {mem mem' : Members} (hc : MemCont syms mem mem') :
    ∀ (i : Item) (ds : List Nat) (ks : List Sc), (isBodyItem i = true → mem' = mem) →
      factsItem syms mem i ds ks → factsItem syms mem' i ds ks
  | .decl _ n, ds, ks, _, h => by
    simp only [factsItem] at h ⊢
    obtain ⟨h1, d, h2, h3⟩ := h
    refine ⟨h1, d, h2, fun hn => ?_⟩
    obtain ⟨m, hm, hcn⟩ := h3 hn
    obtain ⟨m', hm', hc'⟩ := hc n m hn hm
    exact ⟨m', hm', hcn.trans hc'⟩
  | .rawSym _, _, _, _, h => by simpa only [factsItem] using h
  | .scope k _ _ body, ds, ks, hb, h => by
    simp only [factsItem] at h ⊢
    obtain ⟨f, kids, h1, h2, h3, h4, h5⟩ := h
    by_cases hk : k = .fnBody
    · rw [hb (by subst hk; rfl)]; exact ⟨f, kids, h1, h2, h3, h4, h5⟩
    · refine ⟨f, kids, h1, h2, fun hf => absurd (h2 ▸ hf) hk, ?_, h5⟩
      obtain ⟨e1, e0, e2, e3⟩ := h4
      exact ⟨e1, e0, by simpa only [hk, if_false] using e2, by simpa only [hk, if_false] using e3⟩
  | .declArgs, _, _, _, h => by simpa only [factsItem] using h
  | .genSym _, _, _, _, h => by simpa only [factsItem] using h
  | .classInner _, _, _, _, h => by simpa only [factsItem] using h
  | .ref _, _, _, _, h => by simpa only [factsItem] using h
  | .eval, _, _, _, h => by simpa only [factsItem] using h
  | .cut, _, _, _, h => by simpa only [factsItem] using h

mutual
/-- the items of the fragment of the connectivity lemmas: no declaration after the function body scope of an argument
scope, no private getter/setter pairs, no explicit symbol of kind "arguments" -/
def okItem (seen : Bool) : Item → Bool
  | .decl k _ => !seen && k.plain
  | .declArgs => !seen
  | .scope k _ _ body => okItems false body && !(k == .fnBody && seen)
  | _ => true
def okItems (seen : Bool) : List Item → Bool
  | [] => true
  | i :: is => okItem seen i && okItems (seen || isBodyItem i) is
end

structure CInv (c : PCtx) : Prop where
  names : MemNames c.st.syms c.cur.members
  nodup : (keys c.cur.members).Nodup
  argsK : ArgsName c.st.syms
  unl : hasBody c.kids = false → ∀ n m, lookup n c.cur.members = some m → linkOf c.st.syms m = none

structure PExt (c c' : PCtx) : Prop where
  kept : LinksKept c.st.syms c'.st.syms
  ext : SymsExt c.st.syms c'.st.syms
  len : c.st.syms.length ≤ c'.st.syms.length
  kind : c'.cur.kind = c.cur.kind
  errs : ∃ e, c'.st.errs = c.st.errs ++ e
  mem : ∀ s, s ∈ refsOf c'.cur.members → s ∈ refsOf c.cur.members ∨ c.st.syms.length ≤ s
  frame : ∀ x, x < c.st.syms.length → x ∉ refsOf c.cur.members → linkOf c'.st.syms x = linkOf c.st.syms x
  cont : c'.st.errs = c.st.errs → MemCont c'.st.syms c.cur.members c'.cur.members

theorem PExt.refl (c : PCtx) : PExt c c :=
  ⟨.refl _, .refl _, Nat.le_refl _, rfl, ⟨[], by simp⟩, fun _ h => Or.inl h, fun _ _ _ => rfl, fun _ => .refl _ _⟩

theorem PExt.trans {a b c : PCtx} (h1 : PExt a b) (h2 : PExt b c) : PExt a c := by
  obtain ⟨e1, he1⟩ := h1.errs
  obtain ⟨e2, he2⟩ := h2.errs
  refine ⟨h1.kept.trans h2.kept, h1.ext.trans h2.ext, Nat.le_trans h1.len h2.len, h2.kind.trans h1.kind,
    ⟨e1 ++ e2, by rw [he2, he1, List.append_assoc]⟩, ?_, ?_, ?_⟩
  · intro s hs
    rcases h2.mem s hs with h | h
    · exact h1.mem s h
    · exact Or.inr (Nat.le_trans h1.len h)
  · intro x hx hxm
    rw [h2.frame x (Nat.lt_of_lt_of_le hx h1.len) ?_, h1.frame x hx hxm]
    intro hm
    rcases h1.mem x hm with h | h
    · exact hxm h
    · omega
  · intro he
    rw [he2, he1, List.append_assoc] at he
    have he' : e1 ++ e2 = [] := by simpa using he
    have h11 : e1 = [] := (List.append_eq_nil_iff.mp he').1
    have h22 : e2 = [] := (List.append_eq_nil_iff.mp he').2
    subst h11; subst h22
    exact (h1.cont (by simpa using he1)).trans (h2.cont (by simpa using he2)) h2.kept

/-- which names have a member in the current scope after a step, and of which kind -/
structure MemEqs (c c' : PCtx) (ok : Prop) (hf : Name → Bool → Bool) (kf : Name → Option SK → Option SK) : Prop where
  has : ∀ n, (lookup n c'.cur.members).isSome = hf n (lookup n c.cur.members).isSome
  kind : c'.st.errs = c.st.errs → ∀ n, (n ≠ argumentsName ∨ ok) →
    memberKind c'.st.syms c'.cur.members n = kf n (memberKind c.st.syms c.cur.members n)

theorem MemEqs.same {c c' : PCtx} (hm : c'.cur.members = c.cur.members) (he : SymsExt c.st.syms c'.st.syms)
    (hn : MemNames c.st.syms c.cur.members) (ok : Prop) : MemEqs c c' ok (fun _ x => x) (fun _ x => x) :=
  ⟨fun n => by rw [hm], fun _ n _ => by rw [hm]; exact memberKind_ext he hn n⟩

theorem MemEqs.same' {c c' : PCtx} (hm : c'.cur.members = c.cur.members) (he : SymsExt c.st.syms c'.st.syms)
    (hn : MemNames c.st.syms c.cur.members) (ok : Prop) {hf : Name → Bool → Bool} {kf : Name → Option SK → Option SK}
    (h1 : ∀ n x, hf n x = x) (h2 : ∀ n x, kf n x = x) : MemEqs c c' ok hf kf :=
  ⟨fun n => by rw [hm, h1], fun _ n _ => by rw [hm, h2]; exact memberKind_ext he hn n⟩

@[simp] theorem classStrict_members (f : Frame) : (classStrict f).members = f.members := by
  unfold classStrict; split <;> rfl
@[simp] theorem applyUseStrict_members1 (p c : Frame) : (applyUseStrict p c).1.members = p.members := by
  unfold applyUseStrict; simp only; split <;> rfl
@[simp] theorem applyUseStrict_members2 (p c : Frame) : (applyUseStrict p c).2.members = c.members := by
  unfold applyUseStrict; simp only; split <;> rfl

/-- after the function body scope, the members of an argument scope no longer change -/
theorem parseItems_members_seen : ∀ (is : List Item) (c c' : PCtx), parseItems is c = some c' → okItems true is = true →
    c'.cur.members = c.cur.members
  | [], c, c', h, _ => by simp only [parseItems] at h; cases h; rfl
  | i :: is, c, c', h, hok => by
    simp only [parseItems] at h
    simp only [okItems, Bool.and_eq_true, Bool.true_or] at hok
    split at h
    · cases h
    · next c1 h1 =>
      rw [parseItems_members_seen is c1 c' h hok.2]
      cases i with
      | decl k n => simp [okItem] at hok
      | declArgs => simp [okItem] at hok
      | rawSym n => simp only [parseItem, newSymbol] at h1; cases h1; rfl
      | genSym n => simp only [parseItem, newSymbol] at h1; cases h1; rfl
      | classInner n => simp only [parseItem] at h1; cases h1; rfl
      | ref n => simp only [parseItem] at h1; cases h1; rfl
      | eval => simp only [parseItem] at h1; cases h1; rfl
      | cut => simp only [parseItem] at h1; cases h1; rfl
      | scope k us l body =>
        simp only [parseItem] at h1
        split at h1
        · cases h1
        · split at h1
          · cases h1
          · cases h1
            split <;> simp

theorem linksKept_of_eq {a b : Syms} (h : ∀ x, x < a.length → linkOf b x = linkOf a x) : LinksKept a b := by
  intro i l hl
  rcases Nat.lt_or_ge i a.length with h1 | h1
  · rw [h i h1]; exact hl
  · rw [linkOf_none_of_ge a h1] at hl; cases hl

/-- a step that changes the symbol table but neither a link nor the members of the current scope -/
theorem CInv.step_syms {c : PCtx} (hi : CInv c) {cur' : Frame} {st' : PSt} (hm : cur'.members = c.cur.members)
    (hk : cur'.kind = c.cur.kind) (hl : ∀ x, x < c.st.syms.length → linkOf st'.syms x = linkOf c.st.syms x)
    (he : SymsExt c.st.syms st'.syms) (ha : ArgsName st'.syms) (hlen : c.st.syms.length ≤ st'.syms.length)
    (herr : st'.errs = c.st.errs) :
    CInv ⟨cur', c.kids, st'⟩ ∧ PExt c ⟨cur', c.kids, st'⟩ := by
  have hb := hi.names.bound hi.nodup
  refine ⟨⟨by simp only [hm]; exact hi.names.ext he, by simp only [hm]; exact hi.nodup, ha, ?_⟩,
    ⟨linksKept_of_eq hl, he, hlen, hk, ⟨[], by simp [herr]⟩, ?_, fun x hx _ => hl x hx, ?_⟩⟩
  · intro hb' n m hm'
    simp only [hm] at hm'
    rw [hl m (hb m (lookup_mem_refsOf hm'))]; exact hi.unl hb' n m hm'
  · intro s hs; simp only [hm] at hs; exact Or.inl hs
  · intro _; simp only [hm]; exact .refl _ _

theorem pushFrame_members {parent child : Frame} {k : ScK} {syms : Syms} (h : pushFrame parent k syms = some child) :
    child.kind = k ∧ ((k = .fnBody ∧ copyArgs syms parent.members = some child.members) ∨ (k ≠ .fnBody ∧ child.members = [])) := by
  unfold pushFrame at h
  split at h
  · next hk =>
    split at h
    · cases h
    · split at h
      · cases h
      · next m hm => cases h; exact ⟨rfl, Or.inl ⟨hk, hm⟩⟩
  · next hk => cases h; exact ⟨rfl, Or.inr ⟨hk, rfl⟩⟩

theorem errs_split {a e1 e2 : List Name} (h : (a ++ e1) ++ e2 = a) : e1 = [] ∧ e2 = [] := by
  rw [List.append_assoc] at h
  have : e1 ++ e2 = [] := by simpa using h
  exact List.append_eq_nil_iff.mp this

end EsbuildModel.Scopes

namespace EsbuildModel.Scopes

theorem parseItem_conn_decl {c c' : PCtx} {k : SK} {n : Name} (h : parseItem (.decl k n) c = some c') (hi : CInv c)
    (hok : okItem (hasBody c.kids) (.decl k n) = true) :
    CInv c' ∧ PExt c c' ∧ c'.kids = c.kids ∧ MemEqs c c' (n ≠ argumentsName) (fun q => hasAfter q (.decl k n)) (fun q => kindAfter q (.decl k n)) ∧
    ∃ d, c'.st.declRefs = c.st.declRefs ++ [d] ∧
      (c'.st.errs = c.st.errs → n ≠ argumentsName → ∃ m, lookup n c'.cur.members = some m ∧ Conn c'.st.syms d m) := by
  simp only [okItem, Bool.and_eq_true, Bool.not_eq_true'] at hok
  obtain ⟨hseen, hpl⟩ := hok
  have hnp := SK.plain_noPair hpl
  have hka := SK.plain_ne_arguments hpl
  simp only [parseItem] at h
  split at h
  · cases h
  · next cur st r hd =>
    cases h
    have hb := hi.names.bound hi.nodup
    obtain ⟨hframe, hkept, hrest⟩ := declareSymbol_conn hd hb hi.names (hi.unl hseen)
    have hunl := declareSymbol_unl hd hb hi.names (hi.unl hseen)
    obtain ⟨hext, herrs, hnames, hnodup, hargs, hdr⟩ := declareSymbol_cinv hd hnp (fun e => absurd e hka) (SK.plain_ne_unbound hpl) hi.names hi.nodup hi.argsK
    obtain ⟨hlen, hkind, _, _, _, hmem, _⟩ := declareSymbol_spec hd
    obtain ⟨hk1, hk2, hk3⟩ := declareSymbol_kind hd hpl hi.names hi.argsK
    refine ⟨⟨hnames, hnodup, hargs, fun _ => hunl⟩, ⟨hkept, hext, by simp [hlen], hkind, herrs, ?_, hframe, ?_⟩, rfl, ⟨?_, ?_⟩,
      r, by simp [hdr], ?_⟩
    · intro s hs
      rcases hmem s hs with h1 | h1
      · exact Or.inl h1
      · exact Or.inr (by simp [h1])
    · intro he
      rcases hrest with ⟨h1, _, _⟩ | ⟨_, h2, _⟩
      · exact absurd he h1
      · intro n' m hn' hl
        obtain ⟨m', hm', hc⟩ := h2 n' m hl
        refine ⟨m', hm', ?_⟩
        rcases hc with hc | hc
        · exact hc
        · exfalso
          obtain ⟨s, hs, hsn⟩ := hi.names n' m hl
          have : s.kind = .arguments := by simpa [kindOf?, hs] using hc
          exact hn' (hsn ▸ (hi.argsK m s hs).1 this)
    · intro q
      simp only [hasAfter]
      by_cases hq : q = n
      · subst hq; simp [hk2]
      · have : (n == q) = false := by simp; exact fun e => hq e.symm
        rw [hk1 q hq, this]; simp
    · intro he q hq
      simp only [kindAfter]
      by_cases hqn : n = q
      · subst hqn; simp only [if_true]; exact hk3 he (by rcases hq with h | h <;> exact h)
      · simp only [hqn, if_false]
        show memberKind st.syms cur.members q = _
        unfold memberKind
        rw [hk1 q (fun e => hqn e.symm)]
        exact memberKind_ext hext hi.names q
    · intro he hn
      rcases hrest with ⟨h1, _, _⟩ | ⟨h2, _, _⟩
      · exact absurd he h1
      · exact h2

theorem parseItem_conn_declArgs {c c' : PCtx} (h : parseItem .declArgs c = some c') (hi : CInv c)
    (hok : okItem (hasBody c.kids) .declArgs = true) :
    CInv c' ∧ PExt c c' ∧ c'.kids = c.kids ∧ c'.st.declRefs = c.st.declRefs ∧
    MemEqs c c' True (fun q => hasAfter q .declArgs) (fun q => kindAfter q .declArgs) := by
  simp only [okItem, Bool.not_eq_true'] at hok
  simp only [parseItem] at h
  split at h
  · next m hm =>
    cases h
    refine ⟨hi, .refl _, rfl, rfl, ⟨fun q => ?_, fun _ q _ => ?_⟩⟩
    · simp only [hasAfter]
      by_cases hq : q = argumentsName
      · subst hq; simp [hm]
      · simp [hq]
    · simp only [kindAfter]
      by_cases hq : q = argumentsName
      · subst hq
        obtain ⟨s, hs, _⟩ := hi.names _ _ hm
        simp [memberKind, hm, kindOf?, hs]
      · simp [hq]
  · next hlk =>
    split at h
    · cases h
    · next _ cur st r hd =>
      cases h
      have hb := hi.names.bound hi.nodup
      obtain ⟨hframe, hkept, hrest⟩ := declareSymbol_conn hd hb hi.names (hi.unl hok)
      have hunl := declareSymbol_unl hd hb hi.names (hi.unl hok)
      obtain ⟨hext, herrs, hnames, hnodup, hargs, hdr⟩ :=
        declareSymbol_cinv hd (by decide) (fun _ => rfl) (by decide) hi.names hi.nodup hi.argsK
      obtain ⟨hlen, hkind, _, _, _, hmem, _⟩ := declareSymbol_spec hd
      have hpl : ∀ x, linkOf (pin st.syms r) x = linkOf st.syms x := fun x => linkOf_pin _ _ _
      refine ⟨⟨hnames.ext (SymsExt.pin _ _), hnodup, hargs.modify _ _ (fun s => ⟨rfl, rfl⟩), ?_⟩,
        ⟨hkept.trans (LinksKept.pin _ _), hext.trans (SymsExt.pin _ _), by simp [hlen], hkind, herrs, ?_, ?_, ?_⟩, rfl, hdr,
        ⟨?_, ?_⟩⟩
      rotate_right 2
      · intro q
        have hcm := (declareSymbol_fresh hd hlk).1
        simp only [hasAfter, hcm]
        by_cases hq : q = argumentsName
        · subst hq; simp [lookup_insert_self]
        · rw [lookup_insert_ne hq]; simp [hq]
      · intro _ q _
        obtain ⟨hcm, _, hsy⟩ := declareSymbol_fresh hd hlk
        simp only [kindAfter]
        by_cases hq : q = argumentsName
        · subst hq
          have hx : memberKind c.st.syms c.cur.members argumentsName = none := by simp [memberKind, hlk]
          simp only [hx, if_true, Option.isSome_none, Bool.false_eq_true, if_false]
          have hk0 : kindOf? st.syms c.st.syms.length = some .arguments := by rw [hsy]; simp [kindOf?]
          have hk1 := kindOf_ext (SymsExt.pin st.syms r) hk0
          simp [memberKind, hcm, lookup_insert_self, hk1]
        · simp only [hq, if_false]
          unfold memberKind
          simp only [hcm, lookup_insert_ne hq]
          exact memberKind_ext (hext.trans (SymsExt.pin _ _)) hi.names q
      · intro _ n m hm; simp only [hpl]; exact hunl n m hm
      · intro s hs
        rcases hmem s hs with h1 | h1
        · exact Or.inl h1
        · exact Or.inr (by simp [h1])
      · intro x hx hxm; simp only [hpl]; exact hframe x hx hxm
      · intro he
        rcases hrest with ⟨h1, _, _⟩ | ⟨_, h2, _⟩
        · exact absurd he h1
        · intro n' m hn' hl
          obtain ⟨m', hm', hc⟩ := h2 n' m hl
          refine ⟨m', hm', ?_⟩
          rcases hc with hc | hc
          · exact hc.mono (LinksKept.pin _ _)
          · exfalso
            obtain ⟨s, hs, hsn⟩ := hi.names n' m hl
            have : s.kind = .arguments := by simpa [kindOf?, hs] using hc
            exact hn' (hsn ▸ (hi.argsK m s hs).1 this)

theorem parseItem_conn_new {c : PCtx} (hi : CInv c) (n : Name) {cur' : Frame} (hm : cur'.members = c.cur.members)
    (hk : cur'.kind = c.cur.kind) (dr : List Nat) :
    CInv ⟨cur', c.kids, { c.st with syms := c.st.syms ++ [⟨.other, n, none, false⟩], declRefs := dr }⟩ ∧
    PExt c ⟨cur', c.kids, { c.st with syms := c.st.syms ++ [⟨.other, n, none, false⟩], declRefs := dr }⟩ :=
  hi.step_syms hm hk (fun x hx => linkOf_append_old _ _ _ hx) (SymsExt.append _ _)
    (hi.argsK.ext_new (fun e => by cases e) (by decide)) (by simp) rfl

/-- the scope case, given the facts of the body -/
theorem parseItem_conn_scope {c r : PCtx} {k : ScK} {child0 : Frame} {pc : Frame × Frame} (hi : CInv c)
    (hp : pushFrame c.cur k c.st.syms = some child0)
    (hpc1 : pc.1.members = c.cur.members) (hpc1k : pc.1.kind = c.cur.kind)
    (hpc2 : pc.2.members = child0.members) (hpc2k : pc.2.kind = child0.kind)
    (hseen : ¬ (k = .fnBody ∧ hasBody c.kids = true)) :
    CInv ⟨pc.2, [], c.st⟩ ∧
    (CInv r → PExt ⟨pc.2, [], c.st⟩ r →
      CInv ⟨pc.1, c.kids ++ [.node r.cur r.kids], r.st⟩ ∧ PExt c ⟨pc.1, c.kids ++ [.node r.cur r.kids], r.st⟩ ∧
      r.cur.kind = k ∧ (r.st.errs = c.st.errs → CopyConn r.st.syms pc.1.members r.cur)) := by
  obtain ⟨hck, hcm⟩ := pushFrame_members hp
  have hb := hi.names.bound hi.nodup
  have hsub : ∀ n m, lookup n child0.members = some m → lookup n c.cur.members = some m := by
    intro n m hl
    rcases hcm with ⟨_, hcm⟩ | ⟨_, hcm⟩
    · exact copyArgs_lookup hcm hi.nodup hl
    · rw [hcm] at hl; simp [lookup] at hl
  have hsubr : ∀ s, s ∈ refsOf child0.members → s ∈ refsOf c.cur.members := by
    intro s hs
    rcases hcm with ⟨_, hcm⟩ | ⟨_, hcm⟩
    · exact copyArgs_sub hcm s hs
    · rw [hcm] at hs; simp [refsOf] at hs
  refine ⟨⟨?_, ?_, hi.argsK, ?_⟩, ?_⟩
  · intro n m hl; simp only [hpc2] at hl; exact hi.names n m (hsub n m hl)
  · simp only [hpc2]
    rcases hcm with ⟨_, hcm⟩ | ⟨_, hcm⟩
    · exact (copyArgs_keys hcm).nodup hi.nodup
    · rw [hcm]; simp [keys]
  · intro _ n m hl
    simp only [hpc2] at hl
    rcases hcm with ⟨hkb, _⟩ | ⟨_, hcm⟩
    · have hs : hasBody c.kids = false := by
        cases hh : hasBody c.kids with
        | false => rfl
        | true => exact absurd ⟨hkb, hh⟩ hseen
      exact hi.unl hs n m (hsub n m hl)
    · rw [hcm] at hl; simp [lookup] at hl
  · intro hr he
    have hrk : r.cur.kind = k := by rw [he.kind]; simp only [hpc2k, hck]
    refine ⟨⟨?_, ?_, hr.argsK, ?_⟩, ⟨he.kept, he.ext, he.len, hpc1k, he.errs, ?_, ?_, ?_⟩, hrk, ?_⟩
    · simp only [hpc1]; exact hi.names.ext he.ext
    · simp only [hpc1]; exact hi.nodup
    · intro hhb n m hl
      simp only [hpc1] at hl
      rw [hasBody_append, hasBody_singleton] at hhb
      simp only [Bool.or_eq_false_iff, Sc.frame, beq_eq_false_iff_ne, ne_eq] at hhb
      have hkn : k ≠ .fnBody := fun e => hhb.2 (hrk.trans e)
      have hcm' : child0.members = [] := by
        rcases hcm with ⟨hkb, _⟩ | ⟨_, hcm⟩
        · exact absurd hkb hkn
        · exact hcm
      have := he.frame m (hb m (lookup_mem_refsOf hl)) (by simp only [hpc2, hcm']; simp [refsOf])
      simp only at this
      rw [this]; exact hi.unl hhb.1 n m hl
    · intro s hs; simp only [hpc1] at hs; exact Or.inl hs
    · intro x hx hxm
      exact he.frame x hx (by simp only [hpc2]; exact fun hm => hxm (hsubr x hm))
    · intro _; simp only [hpc1]; exact .refl _ _
    · intro herr hf n m hn hl hkind
      simp only [hpc1] at hl
      have hkb : k = .fnBody := hrk.symm.trans hf
      rcases hcm with ⟨_, hcm⟩ | ⟨hkn, _⟩
      · have hk0 : kindOf? c.st.syms m ≠ some .hoistedFunction := fun e => hkind (kindOf_ext he.ext e)
        have hl0 := copyArgs_copied hcm hl hk0
        have := he.cont herr n m hn (by simp only [hpc2]; exact hl0)
        exact this
      · exact absurd hkb hkn

/-- the members of a popped scope in terms of its items -/
theorem scopeEqs_of {c r : PCtx} {k : ScK} {child0 pc1 pc2 : Frame} {body : List Item} (hi : CInv c)
    (hp : pushFrame c.cur k c.st.syms = some child0) (hpc1 : pc1.members = c.cur.members)
    (hpc2 : pc2.members = child0.members) (hr : CInv r) (he : PExt ⟨pc2, [], c.st⟩ r)
    (hm : MemEqs ⟨pc2, [], c.st⟩ r (noArgDeclL body = true) (fun q => hasAfterL q body) (fun q => kindAfterL q body))
    (herr : r.st.errs = c.st.errs) : ScopeEqs r.st.syms pc1.members k r.cur body := by
  obtain ⟨_, hcm⟩ := pushFrame_members hp
  have hpk : ∀ n, memberKind r.st.syms pc1.members n = memberKind c.st.syms c.cur.members n := by
    intro n; rw [hpc1]; exact memberKind_ext he.ext hi.names n
  refine ⟨hr.names, hr.nodup, ?_, ?_⟩
  · intro n
    rw [hm.has n, hpk]
    simp only [hpc2]
    rcases hcm with ⟨hk, hcm⟩ | ⟨hk, hcm⟩
    · simp only [hk, if_true]; rw [(copyArgs_memberKind hcm hi.nodup hi.names n).2]
    · simp only [hk, if_false, hcm, lookup]; rfl
  · intro n hn
    rw [hm.kind herr n hn, hpk]
    simp only [hpc2]
    rcases hcm with ⟨hk, hcm⟩ | ⟨hk, hcm⟩
    · simp only [hk, if_true]; rw [(copyArgs_memberKind hcm hi.nodup hi.names n).1]
    · simp only [hk, if_false, hcm, memberKind, lookup]; rfl

mutual
theorem parseItem_conn : ∀ (i : Item) (c c' : PCtx), parseItem i c = some c' → CInv c → okItem (hasBody c.kids) i = true →
    CInv c' ∧ PExt c c' ∧ hasBody c'.kids = (hasBody c.kids || isBodyItem i) ∧
    MemEqs c c' (noArgDecl i = true) (fun q => hasAfter q i) (fun q => kindAfter q i) ∧
    ∃ ds ks, c'.st.declRefs = c.st.declRefs ++ ds ∧ c'.kids = c.kids ++ ks ∧
      (c'.st.errs = c.st.errs → factsItem c'.st.syms c'.cur.members i ds ks)
  | .decl k n, c, c', h, hi, hok => by
    obtain ⟨h1, h2, h3, hm, d, h4, h5⟩ := parseItem_conn_decl h hi hok
    refine ⟨h1, h2, by simp [h3, isBodyItem], ⟨hm.has, fun he q hq => hm.kind he q (by simpa [noArgDecl] using hq)⟩,
      [d], [], h4, by simp [h3], fun he => ?_⟩
    simp only [factsItem, true_and]
    exact ⟨d, rfl, h5 he⟩
  | .declArgs, c, c', h, hi, hok => by
    obtain ⟨h1, h2, h3, h4, hm⟩ := parseItem_conn_declArgs h hi hok
    exact ⟨h1, h2, by simp [h3, isBodyItem], ⟨hm.has, fun he q _ => hm.kind he q (Or.inr trivial)⟩,
      [], [], by simp [h4], by simp [h3], fun _ => by simp [factsItem]⟩
  | .rawSym n, c, c', h, hi, _ => by
    simp only [parseItem, newSymbol] at h; cases h
    have := parseItem_conn_new hi n (cur' := c.cur) rfl rfl (c.st.declRefs ++ [c.st.syms.length])
    refine ⟨this.1, this.2, by simp [isBodyItem], ?_, [c.st.syms.length], [], rfl, by simp, fun _ => by simp [factsItem]⟩
    refine MemEqs.same' ?_ this.2.ext hi.names _ (fun _ _ => rfl) (fun _ _ => rfl)
    rfl
  | .genSym n, c, c', h, hi, _ => by
    simp only [parseItem, newSymbol] at h; cases h
    have := parseItem_conn_new hi n (cur' := { c.cur with generated := c.cur.generated ++ [c.st.syms.length] }) rfl rfl
      c.st.declRefs
    refine ⟨this.1, this.2, by simp [isBodyItem], ?_, [], [], by simp, by simp, fun _ => by simp [factsItem]⟩
    refine MemEqs.same' ?_ this.2.ext hi.names _ (fun _ _ => rfl) (fun _ _ => rfl)
    rfl
  | .classInner _, c, c', h, hi, _ => by
    simp only [parseItem] at h; cases h
    refine ⟨hi, .refl _, by simp [isBodyItem], ?_, [], [], by simp, by simp, fun _ => by simp [factsItem]⟩
    exact MemEqs.same' rfl (.refl _) hi.names _ (fun _ _ => rfl) (fun _ _ => rfl)
  | .ref _, c, c', h, hi, _ => by
    simp only [parseItem] at h; cases h
    refine ⟨hi, .refl _, by simp [isBodyItem], ?_, [], [], by simp, by simp, fun _ => by simp [factsItem]⟩
    exact MemEqs.same' rfl (.refl _) hi.names _ (fun _ _ => rfl) (fun _ _ => rfl)
  | .eval, c, c', h, hi, _ => by
    simp only [parseItem] at h; cases h
    refine ⟨hi, .refl _, by simp [isBodyItem], ?_, [], [], by simp, by simp, fun _ => by simp [factsItem]⟩
    exact MemEqs.same' rfl (.refl _) hi.names _ (fun _ _ => rfl) (fun _ _ => rfl)
  | .cut, c, c', h, hi, _ => by
    simp only [parseItem] at h; cases h
    refine ⟨hi, .refl _, by simp [isBodyItem], ?_, [], [], by simp, by simp, fun _ => by simp [factsItem]⟩
    exact MemEqs.same' rfl (.refl _) hi.names _ (fun _ _ => rfl) (fun _ _ => rfl)
  | .scope k us l body, c, c', h, hi, hok => by
    simp only [okItem, Bool.and_eq_true, Bool.not_eq_true', Bool.and_eq_false_iff, beq_eq_false_iff_ne, ne_eq] at hok
    have hseen : ¬ (k = .fnBody ∧ hasBody c.kids = true) := by
      rintro ⟨h1, h2⟩
      rcases hok.2 with h3 | h3
      · exact h3 h1
      · rw [h2] at h3; cases h3
    simp only [parseItem] at h
    split at h
    · cases h
    · next child0 hp =>
      split at h
      · cases h
      · next r hr =>
        cases h
        have hpc1 : (if us = true then applyUseStrict c.cur (classStrict child0) else (c.cur, classStrict child0)).1.members
            = c.cur.members := by split <;> simp
        have hpc2 : (if us = true then applyUseStrict c.cur (classStrict child0) else (c.cur, classStrict child0)).2.members
            = child0.members := by split <;> simp
        have hsc := parseItem_conn_scope (r := r) hi hp (pc := if us = true then applyUseStrict c.cur (classStrict child0)
            else (c.cur, classStrict child0))
          hpc1 (by split <;> simp) hpc2 (by split <;> simp) hseen
        obtain ⟨hr1, hr2, _, hmb, ds, ks, hds, hks, hfacts⟩ :=
          parseItems_conn body _ r hr hsc.1 (by simpa [hasBody] using hok.1)
        obtain ⟨h1, h2, h3, h4⟩ := hsc.2 hr1 hr2
        refine ⟨h1, h2, ?_, ?_, ds, [.node r.cur r.kids], hds, rfl, fun he => ?_⟩
        · rw [hasBody_append, hasBody_singleton, isBodyItem_scope]; simp only [Sc.frame, h3]
        · exact MemEqs.same' hpc1 h2.ext hi.names _ (fun _ _ => rfl) (fun _ _ => rfl)
        · simp only [factsItem]
          simp only [List.nil_append] at hks
          exact ⟨r.cur, r.kids, rfl, h3, h4 he, scopeEqs_of hi hp hpc1 hpc2 hr1 hr2 hmb he, hks ▸ hfacts he⟩
theorem parseItems_conn : ∀ (is : List Item) (c c' : PCtx), parseItems is c = some c' → CInv c →
    okItems (hasBody c.kids) is = true →
    CInv c' ∧ PExt c c' ∧ hasBody c'.kids = (hasBody c.kids || is.any isBodyItem) ∧
    MemEqs c c' (noArgDeclL is = true) (fun q => hasAfterL q is) (fun q => kindAfterL q is) ∧
    ∃ ds ks, c'.st.declRefs = c.st.declRefs ++ ds ∧ c'.kids = c.kids ++ ks ∧
      (c'.st.errs = c.st.errs → factsItems c'.st.syms c'.cur.members is ds ks)
  | [], c, c', h, hi, _ => by
    simp only [parseItems] at h; cases h
    exact ⟨hi, .refl _, by simp, ⟨fun _ => rfl, fun _ _ _ => rfl⟩, [], [], by simp, by simp, fun _ => by simp [factsItems]⟩
  | i :: is, c, c', h, hi, hok => by
    simp only [parseItems] at h
    simp only [okItems, Bool.and_eq_true] at hok
    split at h
    · cases h
    · next c1 h1 =>
      obtain ⟨hi1, he1, hb1, hm1, d1, k1, hd1, hk1, hf1⟩ := parseItem_conn i c c1 h1 hi hok.1
      obtain ⟨hi2, he2, hb2, hm2, d2, k2, hd2, hk2, hf2⟩ := parseItems_conn is c1 c' h hi1 (by rw [hb1]; exact hok.2)
      obtain ⟨e1, hee1⟩ := he1.errs
      obtain ⟨e2, hee2⟩ := he2.errs
      have hsplit : c'.st.errs = c.st.errs → c1.st.errs = c.st.errs ∧ c'.st.errs = c1.st.errs := by
        intro he
        have hsp := errs_split (a := c.st.errs) (e1 := e1) (e2 := e2) (by rw [← hee1, ← hee2]; exact he)
        exact ⟨by rw [hee1, hsp.1]; simp, by rw [hee2, hsp.2]; simp⟩
      refine ⟨hi2, he1.trans he2, by rw [hb2, hb1]; simp [Bool.or_assoc], ⟨?_, ?_⟩, d1 ++ d2, k1 ++ k2,
        by rw [hd2, hd1, List.append_assoc], by rw [hk2, hk1, List.append_assoc], fun he => ?_⟩
      · intro n; simp only [hasAfterL]; rw [hm2.has n, hm1.has n]
      · intro he n hn
        obtain ⟨hc1, hc2⟩ := hsplit he
        have hn1 : n ≠ argumentsName ∨ noArgDecl i = true := by
          rcases hn with h | h
          · exact Or.inl h
          · simp only [noArgDeclL, Bool.and_eq_true] at h; exact Or.inr h.1
        have hn2 : n ≠ argumentsName ∨ noArgDeclL is = true := by
          rcases hn with h | h
          · exact Or.inl h
          · simp only [noArgDeclL, Bool.and_eq_true] at h; exact Or.inr h.2
        simp only [kindAfterL]; rw [hm2.kind hc2 n hn2, hm1.kind hc1 n hn1]
      · obtain ⟨hc1, hc2⟩ := hsplit he
        simp only [factsItems]
        refine ⟨d1, d2, k1, k2, rfl, rfl, ?_, hf2 hc2⟩
        refine factsItem_cont (he2.cont hc2) i d1 k1 ?_ (factsItem_mono he2.kept he2.ext i _ d1 k1 hi1.names (hf1 hc1))
        intro hbi
        exact parseItems_members_seen is c1 c' h (by have := hok.2; rw [hbi] at this; simpa using this)
end

end EsbuildModel.Scopes
