import EsbuildModel.Impl.Determinism
/-!
Lemmas for C08: the message comparator is a strict weak order whose incomparable pairs have equal keys; the
serializer invariant (workers enter in index order, all but the latest have left).
-/
namespace EsbuildModel.Det

theorem less_irrefl (a : Msg) : less a a = false := by
  unfold less lessKT
  rcases a with ⟨_ | la, ka, ta, _⟩ <;> simp

theorem less_asymm (a b : Msg) (h : less a b = true) : less b a = false := by
  unfold less lessKT at *
  rcases a with ⟨_ | la, ka, ta, _⟩ <;> rcases b with ⟨_ | lb, kb, tb, _⟩ <;> simp at * <;> grind

theorem le_trans' (a b c : Msg) (h1 : less b a = false) (h2 : less c b = false) : less c a = false := by
  unfold less lessKT at *
  rcases a with ⟨_ | la, ka, ta, _⟩ <;> rcases b with ⟨_ | lb, kb, tb, _⟩ <;> rcases c with ⟨_ | lc, kc, tc, _⟩ <;> simp at * <;> grind

theorem less_total (a b : Msg) (h1 : less a b = false) (h2 : less b a = false) : key a = key b := by
  unfold less lessKT at *
  unfold key
  rcases a with ⟨_ | ⟨a1,a2,a3,a4⟩, ka, ta, _⟩ <;> rcases b with ⟨_ | ⟨b1,b2,b3,b4⟩, kb, tb, _⟩ <;> simp at * <;> grind

def Good (s : Ser) (k : Nat) : Prop :=
  k ≤ s.length ∧ (∀ i, i < k → s[i]? = some 1 ∨ s[i]? = some 2) ∧
  (∀ i, k ≤ i → i < s.length → s[i]? = some 0) ∧ (∀ i, i + 1 < k → s[i]? = some 2)

theorem good_init (n : Nat) : Good (Ser.init n) 0 := by
  refine ⟨Nat.zero_le _, ?_, ?_, ?_⟩
  · intro i hi; omega
  · intro i _ hi
    simp only [Ser.init, List.length_replicate] at hi
    simp [Ser.init, List.getElem?_replicate, hi]
  · intro i hi; omega

/-- a step either enters worker k (the next one in index order), or leaves, or does nothing -/
theorem good_step {s : Ser} {k : Nat} (h : Good s k) (i : Nat) :
    (s.enabled i = true ∧ s[i]? = some 0 ∧ i = k ∧ Good (s.step i) (k + 1)) ∨
    (¬ (s.enabled i = true ∧ s[i]? = some 0) ∧ Good (s.step i) k) := by
  obtain ⟨hk, h1, h0, h2⟩ := h
  by_cases hen : s.enabled i = true
  · have hen' := hen
    unfold Ser.enabled at hen
    cases hv : s[i]? with
    | none => simp [hv] at hen
    | some v =>
      have hil : i < s.length := by
        rcases Nat.lt_or_ge i s.length with h | h
        · exact h
        · simp [List.getElem?_eq_none h] at hv
      match v, hv with
      | 0, hv =>
        left
        simp [hv] at hen
        have hik : k ≤ i := by
          rcases Nat.lt_or_ge i k with h | h
          · rcases h1 i h with h | h <;> simp [hv] at h
          · exact h
        have hik2 : i = k := by
          rcases hen with h | h
          · omega
          · rcases Nat.lt_or_ge k i with hlt | hge
            · have := h0 (i - 1) (by omega) (by omega)
              simp [h] at this
            · omega
        subst hik2
        refine ⟨hen', rfl, rfl, ?_⟩
        simp only [Ser.step, hen', if_true]
        have hg : s.getD i 0 = 0 := by simp [List.getD_eq_getElem?_getD, hv]
        rw [hg]
        refine ⟨by simp; omega, ?_, ?_, ?_⟩
        · intro j hj
          rw [List.getElem?_set]
          by_cases hji : i = j
          · subst hji; simp [hil]
          · simp [hji]; exact h1 j (by omega)
        · intro j hj hjl
          rw [List.getElem?_set]
          have : i ≠ j := by omega
          simp [this]
          exact h0 j (by omega) (by simpa using hjl)
        · intro j hj
          rw [List.getElem?_set]
          have hne : i ≠ j := by omega
          simp [hne]
          by_cases hj2 : j + 1 < i
          · exact h2 j hj2
          · have : j = i - 1 := by omega
            subst this
            rcases hen with h | h
            · omega
            · exact h
      | 1, hv =>
        right
        refine ⟨by simp [hv], ?_⟩
        have hik : i < k := by
          rcases Nat.lt_or_ge i k with h | h
          · exact h
          · have := h0 i h hil; simp [hv] at this
        simp only [Ser.step, hen', if_true]
        have hg : s.getD i 0 = 1 := by simp [List.getD_eq_getElem?_getD, hv]
        rw [hg]
        refine ⟨by simpa using hk, ?_, ?_, ?_⟩
        · intro j hj
          rw [List.getElem?_set]
          by_cases hji : i = j
          · subst hji; simp [hil]
          · simp [hji]; exact h1 j hj
        · intro j hj hjl
          rw [List.getElem?_set]
          have : i ≠ j := by omega
          simp [this]
          exact h0 j hj (by simpa using hjl)
        · intro j hj
          rw [List.getElem?_set]
          by_cases hji : i = j
          · subst hji; simp [hil]
          · simp [hji]; exact h2 j hj
      | v + 2, hv => simp [hv] at hen
  · right
    refine ⟨fun h => hen h.1, ?_⟩
    simp only [Ser.step, hen]
    exact ⟨hk, h1, h0, h2⟩

theorem run_order : ∀ (sched : List Nat) (s : Ser) (log : List Nat) (k : Nat),
    Good s k → log.reverse = List.range k →
    ∃ k', Good (Ser.run s sched log).1 k' ∧ (Ser.run s sched log).2 = List.range k' := by
  intro sched
  induction sched with
  | nil => intro s log k h hl; exact ⟨k, h, hl⟩
  | cons i sched ih =>
    intro s log k h hl
    rcases good_step h i with ⟨hen, hv, hik, hg⟩ | ⟨hn, hg⟩
    · have : (s.enabled i && s[i]? == some 0) = true := by simp [hen, hv]
      simp only [Ser.run, this, if_true]
      apply ih _ _ (k + 1) hg
      subst hik
      simp [List.range_succ, hl]
    · have : (s.enabled i && s[i]? == some 0) = false := by
        cases he : s.enabled i <;> simp
        intro hv; exact hn ⟨he, hv⟩
      simp only [Ser.run, this]
      exact ih _ _ k hg hl

theorem Ser.step_length (s : Ser) (i : Nat) : (s.step i).length = s.length := by
  unfold Ser.step; split <;> simp

theorem Ser.run_length : ∀ (sched : List Nat) (s : Ser) (log : List Nat),
    (Ser.run s sched log).1.length = s.length := by
  intro sched
  induction sched with
  | nil => intro s log; rfl
  | cons i sched ih =>
    intro s log
    simp only [Ser.run]
    split <;> rw [ih] <;> exact Ser.step_length s i

end EsbuildModel.Det
