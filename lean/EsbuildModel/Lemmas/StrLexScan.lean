import EsbuildModel.Lemmas.StrLexBasic
/-! The scanning loop of `Next()`: what it accepts as the text between the delimiters (`bodyOK`), in both directions. -/
namespace EsbuildModel.StrLex

/-- the texts the `stringLiteral:` loop walks over completely, round by round, without meeting the end of the literal -/
def bodyOK (q : Nat) (tpl : Bool) : List Nat → Bool
  | [] => true
  | c :: rest =>
    if c = 92 then
      match rest with
      | [] => false
      | d :: r =>
        if d = 13 then
          match r with
          | [] => true
          | e :: r' => if e = 10 then bodyOK q tpl r' else bodyOK q tpl (e :: r')
        else bodyOK q tpl r
    else if c = 13 then tpl && bodyOK q tpl rest
    else if c = 10 then tpl && bodyOK q tpl rest
    else if c = 36 ∧ tpl = true then decide (rest.head? ≠ some 123) && bodyOK q tpl rest
    else decide (c ≠ q) && bodyOK q tpl rest

theorem bodyOK_bs (q tpl d r) (hd : d ≠ 13) : bodyOK q tpl (92 :: d :: r) = bodyOK q tpl r := by
  rw [bodyOK.eq_def]; simp [hd]
theorem bodyOK_bs_cr_lf (q tpl r) : bodyOK q tpl (92 :: 13 :: 10 :: r) = bodyOK q tpl r := by
  rw [bodyOK.eq_def]; simp
theorem bodyOK_bs_cr (q tpl e r) (he : e ≠ 10) : bodyOK q tpl (92 :: 13 :: e :: r) = bodyOK q tpl (e :: r) := by
  rw [bodyOK.eq_def]; simp [he]
theorem bodyOK_bs_cr_nil (q tpl) : bodyOK q tpl [92, 13] = true := by
  rw [bodyOK.eq_def]; simp
theorem bodyOK_cr (q tpl r) : bodyOK q tpl (13 :: r) = (tpl && bodyOK q tpl r) := by
  rw [bodyOK.eq_def]; simp
theorem bodyOK_lf (q tpl r) : bodyOK q tpl (10 :: r) = (tpl && bodyOK q tpl r) := by
  rw [bodyOK.eq_def]; simp
theorem bodyOK_dollar (q r) : bodyOK q true (36 :: r) = (decide (r.head? ≠ some 123) && bodyOK q true r) := by
  rw [bodyOK.eq_def]; simp
theorem bodyOK_plain (q tpl c r) (h1 : c ≠ 92) (h2 : c ≠ 13) (h3 : c ≠ 10) (h4 : ¬ (c = 36 ∧ tpl = true)) :
    bodyOK q tpl (c :: r) = (decide (c ≠ q) && bodyOK q tpl r) := by
  rw [bodyOK.eq_def]; simp [h1, h2, h3, h4]

/-- needsSlowPath after the loop -/
def slowBody (body : List Nat) : Bool := body.any (fun c => c = 92 || c = 13 || decide (c ≥ 128))

/-- the closing delimiter the loop stopped at -/
inductive Closing (q : Nat) (rs : Bool) : List Nat → Kind → Nat → Prop
  | quote (tail : List Nat) : Closing q rs (q :: tail) (if q ≠ 96 then .str else if rs then .tail else .noSubst) 1
  | subst (tail : List Nat) (hq : q = 96) : Closing q rs (36 :: 123 :: tail) (if rs then .middle else .head) 2

theorem Closing.inv {q : Nat} {rs : Bool} {tail : List Nat} {k : Kind} {suf : Nat} (h : Closing q rs tail k suf) :
    (∃ tl, tail = q :: tl ∧ k = (if q ≠ 96 then .str else if rs then .tail else .noSubst) ∧ suf = 1) ∨
    (∃ tl, q = 96 ∧ tail = 36 :: 123 :: tl ∧ k = (if rs then .middle else .head) ∧ suf = 2) := by
  cases h with
  | quote tl => exact Or.inl ⟨tl, rfl, rfl, rfl⟩
  | subst tl hq => exact Or.inr ⟨tl, hq, rfl, rfl, rfl⟩

theorem scan_sound (q : Nat) (rs : Bool) (s : List Nat) (i : Nat) (slow : Bool) (k : Kind) (m suf : Nat) (slow' : Bool)
    (h : scanLoop q rs s i slow = .ok k m suf slow') :
    ∃ body tail, s = body ++ tail ∧ m = i + body.length ∧ bodyOK q (decide (q = 96)) body = true ∧ slow' = (slow || slowBody body) ∧
      Closing q rs tail k suf := by
  fun_induction scanLoop q rs s i slow with
  | case1 i slow => cases h
  | case2 i slow => cases h
  | case3 i slow => cases h
  | case4 i slow r' ih =>
    obtain ⟨body, tail, h1, h2, h3, h4, h5⟩ := ih h
    refine ⟨92 :: 13 :: 10 :: body, tail, by simp [h1], by simp [h2]; omega, by rw [bodyOK_bs_cr_lf]; exact h3, ?_, h5⟩
    simp [h4, slowBody]
  | case5 i slow e r' he ih =>
    obtain ⟨body, tail, h1, h2, h3, h4, h5⟩ := ih h
    cases body with
    | nil =>
      refine ⟨[92, 13], tail, by simp at h1; simp [h1], by simp at h2; simp [h2], bodyOK_bs_cr_nil _ _, ?_, h5⟩
      simp [h4, slowBody]
    | cons b body =>
      have hb : b = e := by simp at h1; exact h1.1.symm
      subst hb
      refine ⟨92 :: 13 :: b :: body, tail, by simp at h1; simp [h1], by simp at h2 ⊢; omega, ?_, ?_, h5⟩
      · rw [bodyOK_bs_cr _ _ _ _ he]; exact h3
      · simp [h4, slowBody]
  | case6 i slow d r hd ih =>
    obtain ⟨body, tail, h1, h2, h3, h4, h5⟩ := ih h
    refine ⟨92 :: d :: body, tail, by simp [h1], by simp [h2]; omega, by rw [bodyOK_bs _ _ _ _ hd]; exact h3, ?_, h5⟩
    simp [h4, slowBody]
  | case7 rest i slow hq => cases h
  | case8 rest i slow hq _ ih =>
    obtain ⟨body, tail, h1, h2, h3, h4, h5⟩ := ih h
    have hq' : q = 96 := by simpa using hq
    refine ⟨13 :: body, tail, by simp [h1], by simp [h2]; omega, by rw [bodyOK_cr]; simp [hq'] at h3 ⊢; exact h3, ?_, h5⟩
    simp [h4, slowBody]
  | case9 rest i slow hq => cases h
  | case10 rest i slow hq _ _ ih =>
    obtain ⟨body, tail, h1, h2, h3, h4, h5⟩ := ih h
    have hq' : q = 96 := by simpa using hq
    refine ⟨10 :: body, tail, by simp [h1], by simp [h2]; omega, by rw [bodyOK_lf]; simp [hq'] at h3 ⊢; exact h3, ?_, h5⟩
    simp [h4, slowBody]
  | case11 c i slow hc hc13 hc10 hd => cases h
  | case12 c i slow hc hc13 hc10 hd r =>
    simp only [Scan.ok.injEq] at h
    obtain ⟨rfl, rfl, rfl, rfl⟩ := h
    refine ⟨[], 36 :: 123 :: r, by simp [hd.1], by simp, rfl, by simp [slowBody], ?_⟩
    exact Closing.subst r hd.2
  | case13 c i slow hc hc13 hc10 hd d r hd123 ih =>
    obtain ⟨body, tail, h1, h2, h3, h4, h5⟩ := ih h
    cases body with
    | nil =>
      refine ⟨[36], tail, by simp at h1; simp [hd.1, h1], by simp at h2; simp [h2], by simp [hd.2, bodyOK], ?_, h5⟩
      simp [h4, slowBody]
    | cons b body =>
      have hb : b = d := by simp at h1; exact h1.1.symm
      subst hb
      refine ⟨36 :: b :: body, tail, by simp at h1; simp [hd.1, h1], by simp at h2 ⊢; omega, ?_, ?_, h5⟩
      · simp only [hd.2, decide_true] at h3 ⊢; rw [bodyOK_dollar]; simp [hd123, h3]
      · simp [h4, slowBody]
  | case14 rest i slow h92 h13 h10 hd =>
    simp only [Scan.ok.injEq] at h
    obtain ⟨rfl, rfl, rfl, rfl⟩ := h
    exact ⟨[], q :: rest, by simp, by simp, rfl, by simp [slowBody], Closing.quote rest⟩
  | case15 c rest i slow hc hc13 hc10 hd hq ih =>
    obtain ⟨body, tail, h1, h2, h3, h4, h5⟩ := ih h
    refine ⟨c :: body, tail, by simp [h1], by simp [h2]; omega, ?_, ?_, h5⟩
    · have : ¬ (c = 36 ∧ q = 96) := hd
      rw [bodyOK_plain _ _ _ _ hc hc13 hc10 (by simpa using this)]; simp [hq, h3]
    · simp [h4, slowBody, hc, hc13, Bool.or_assoc]

/-! ### the loop, one round at a time -/

theorem scanLoop_bs_cr_lf (q rs r i slow) : scanLoop q rs (92 :: 13 :: 10 :: r) i slow = scanLoop q rs r (i + 3) true := by
  rw [scanLoop.eq_def]; simp
theorem scanLoop_bs_cr (q rs e r i slow) (he : e ≠ 10) :
    scanLoop q rs (92 :: 13 :: e :: r) i slow = scanLoop q rs (e :: r) (i + 2) true := by
  rw [scanLoop.eq_def]; simp [he]
theorem scanLoop_bs (q rs d r i slow) (hd : d ≠ 13) : scanLoop q rs (92 :: d :: r) i slow = scanLoop q rs r (i + 2) true := by
  rw [scanLoop.eq_def]; simp [hd]
theorem scanLoop_cr (rs r i slow) : scanLoop 96 rs (13 :: r) i slow = scanLoop 96 rs r (i + 1) true := by
  rw [scanLoop.eq_def]; simp
theorem scanLoop_lf (rs r i slow) : scanLoop 96 rs (10 :: r) i slow = scanLoop 96 rs r (i + 1) slow := by
  rw [scanLoop.eq_def]; simp
theorem scanLoop_dollar (rs d r i slow) (hd : d ≠ 123) :
    scanLoop 96 rs (36 :: d :: r) i slow = scanLoop 96 rs (d :: r) (i + 1) slow := by
  rw [scanLoop.eq_def]; simp [hd]
theorem scanLoop_dollar_brace (rs r i slow) :
    scanLoop 96 rs (36 :: 123 :: r) i slow = .ok (if rs then .middle else .head) i 2 slow := by
  rw [scanLoop.eq_def]; simp
theorem scanLoop_quote (q rs r i slow) (hq : q = 34 ∨ q = 39 ∨ q = 96) :
    scanLoop q rs (q :: r) i slow = .ok (if q ≠ 96 then .str else if rs then .tail else .noSubst) i 1 slow := by
  rw [scanLoop.eq_def]; rcases hq with rfl | rfl | rfl <;> simp
theorem scanLoop_plain (q rs c r i slow) (h1 : c ≠ 92) (h2 : c ≠ 13) (h3 : c ≠ 10) (h4 : ¬ (c = 36 ∧ q = 96)) (h5 : c ≠ q) :
    scanLoop q rs (c :: r) i slow = scanLoop q rs r (i + 1) (slow || decide (c ≥ 128)) := by
  rw [scanLoop.eq_def]; simp [h1, h2, h3, h4, h5]

theorem scan_close (q : Nat) (rs : Bool) (tail : List Nat) (k : Kind) (suf : Nat) (hq : q = 34 ∨ q = 39 ∨ q = 96)
    (hc : Closing q rs tail k suf) (i : Nat) (slow : Bool) : scanLoop q rs tail i slow = .ok k i suf slow := by
  cases hc with
  | quote t => exact scanLoop_quote q rs t i slow hq
  | subst t h => subst h; exact scanLoop_dollar_brace rs t i slow

theorem closing_head (q : Nat) (rs : Bool) (tail : List Nat) (k : Kind) (suf : Nat) (hq : q = 34 ∨ q = 39 ∨ q = 96)
    (hc : Closing q rs tail k suf) : ∃ e r, tail = e :: r ∧ e ≠ 10 ∧ e ≠ 123 ∧ (e = q ∨ e = 36) := by
  cases hc with
  | quote t => exact ⟨q, t, rfl, by omega, by omega, Or.inl rfl⟩
  | subst t h => exact ⟨36, _, rfl, by omega, by omega, Or.inr rfl⟩

theorem scan_complete (q : Nat) (rs : Bool) (tail : List Nat) (k : Kind) (suf : Nat) (hq : q = 34 ∨ q = 39 ∨ q = 96)
    (hc : Closing q rs tail k suf) (n : Nat) : ∀ (body : List Nat) (i : Nat) (slow : Bool), body.length ≤ n →
    bodyOK q (decide (q = 96)) body = true →
    scanLoop q rs (body ++ tail) i slow = .ok k (i + body.length) suf (slow || slowBody body) := by
  induction n with
  | zero =>
    intro body i slow hn _
    have : body = [] := List.length_eq_zero_iff.1 (by omega)
    subst this
    simpa [slowBody] using scan_close q rs tail k suf hq hc i slow
  | succ n ih =>
    intro body i slow hn hb
    obtain ⟨e0, r0, htail, he10, he123, heq⟩ := closing_head q rs tail k suf hq hc
    match body, hn, hb with
    | [], _, _ => simpa [slowBody] using scan_close q rs tail k suf hq hc i slow
    | c :: r, hn, hb =>
      by_cases hc92 : c = 92
      · subst hc92
        match r, hn, hb with
        | [], _, hb => rw [bodyOK.eq_def] at hb; simp at hb
        | d :: r, hn, hb =>
          by_cases hd : d = 13
          · subst hd
            match r, hn, hb with
            | [], _, _ =>
              rw [htail]
              show scanLoop q rs (92 :: 13 :: e0 :: r0) i slow = _
              rw [scanLoop_bs_cr _ _ _ _ _ _ he10, ← htail, scan_close q rs tail k suf hq hc]
              simp [slowBody]
            | e :: r, hn, hb =>
              by_cases he : e = 10
              · subst he
                rw [bodyOK_bs_cr_lf] at hb
                show scanLoop q rs (92 :: 13 :: 10 :: (r ++ tail)) i slow = _
                rw [scanLoop_bs_cr_lf, ih r _ _ (by simp at hn; omega) hb]
                simp [slowBody]; omega
              · rw [bodyOK_bs_cr _ _ _ _ he] at hb
                show scanLoop q rs (92 :: 13 :: e :: (r ++ tail)) i slow = _
                rw [scanLoop_bs_cr _ _ _ _ _ _ he]
                have := ih (e :: r) (i + 2) true (by simp at hn ⊢; omega) hb
                rw [List.cons_append] at this
                rw [this]
                simp [slowBody]; omega
          · rw [bodyOK_bs _ _ _ _ hd] at hb
            show scanLoop q rs (92 :: d :: (r ++ tail)) i slow = _
            rw [scanLoop_bs _ _ _ _ _ _ hd, ih r _ _ (by simp at hn; omega) hb]
            simp [slowBody]; omega
      · have hlen : r.length ≤ n := by simp at hn; omega
        show scanLoop q rs (c :: (r ++ tail)) i slow = _
        by_cases hc13 : c = 13
        · subst hc13
          rw [bodyOK_cr] at hb
          simp only [Bool.and_eq_true, decide_eq_true_eq] at hb
          obtain ⟨h96, hb⟩ := hb
          subst h96
          rw [scanLoop_cr, ih r _ _ hlen hb]
          simp [slowBody]; omega
        · by_cases hc10 : c = 10
          · subst hc10
            rw [bodyOK_lf] at hb
            simp only [Bool.and_eq_true, decide_eq_true_eq] at hb
            obtain ⟨h96, hb⟩ := hb
            subst h96
            rw [scanLoop_lf, ih r _ _ hlen hb]
            simp [slowBody]; omega
          · by_cases hd : c = 36 ∧ q = 96
            · obtain ⟨rfl, rfl⟩ := hd
              simp only [decide_true] at hb ih
              rw [bodyOK_dollar] at hb
              simp only [Bool.and_eq_true, decide_eq_true_eq] at hb
              match r, hb, hlen with
              | [], _, _ =>
                rw [List.nil_append, htail, scanLoop_dollar _ _ _ _ _ he123, ← htail, scan_close 96 rs tail k suf hq hc]
                simp [slowBody]
              | d :: r, hb, hlen =>
                have hd123 : d ≠ 123 := by simpa using hb.1
                rw [List.cons_append, scanLoop_dollar _ _ _ _ _ hd123]
                have := ih (d :: r) (i + 1) slow hlen hb.2
                rw [List.cons_append] at this
                rw [this]
                simp [slowBody]; omega
            · rw [bodyOK_plain _ _ _ _ hc92 hc13 hc10 (by simpa using hd)] at hb
              simp only [Bool.and_eq_true, decide_eq_true_eq] at hb
              rw [scanLoop_plain _ _ _ _ _ _ hc92 hc13 hc10 hd hb.1, ih r _ _ hlen hb.2]
              simp [slowBody, hc92, hc13, Bool.or_assoc]; omega

end EsbuildModel.StrLex
