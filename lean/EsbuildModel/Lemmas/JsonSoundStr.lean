import EsbuildModel.Lemmas.JsonSoundSkip
import EsbuildModel.Lemmas.JsonStrings
/-
Soundness for strings, part 1: what the scanner of `Next` accepts as the contents of a double-quoted string.
-/
namespace EsbuildModel.Json
open EsbuildModel.Spec.Json

/-- the contents of a double-quoted string token as the scanner sees them: ordinary characters, and a backslash
followed by any character (for the tsconfig flavour `\` CR LF counts as one unit) -/
inductive ScanClean (fl : Flavor) : List Char → Prop
  | nil : ScanClean fl []
  | plain (c : Char) (t : List Char) : c ≠ '\\' → c ≠ '\r' → c ≠ '\n' → c ≠ '"' →
      (c.toNat ≥ 0x80 ∨ ¬ (fl = .json ∧ c.toNat < 0x20)) → ScanClean fl t → ScanClean fl (c :: t)
  | esc (d : Char) (t : List Char) : ¬ (d = '\r' ∧ fl ≠ .json) → ScanClean fl t → ScanClean fl ('\\' :: d :: t)
  | crlf (t : List Char) : fl ≠ .json → ScanClean fl t → ScanClean fl ('\\' :: '\r' :: '\n' :: t)
  | cr (t : List Char) : fl ≠ .json → t.head? ≠ some '\n' → ScanClean fl t → ScanClean fl ('\\' :: '\r' :: t)

/-- the scanner's fast path: ASCII only, no backslash -/
def FastText (text : List Cp) : Prop := ∀ c ∈ text, c.c ≠ '\\' ∧ c.c.toNat < 0x80

theorem StrScan.cons_done' {pre : List Cp} {s : Bool} {x : StrScan} {t r : List Cp} {e : Nat} {sl : Bool}
    (h : x.cons pre s = .done t r e sl) : ∃ t' sl', x = .done t' r e sl' ∧ t = pre ++ t' ∧ sl = (s || sl') := by
  cases x with
  | done t' r' e' s' =>
    simp only [StrScan.cons, StrScan.done.injEq] at h
    obtain ⟨rfl, rfl, rfl, rfl⟩ := h
    exact ⟨_, _, rfl, rfl, rfl⟩
  | unterminated a => cases h
  | ctrl a => cases h

theorem scanStr_sound (fl : Flavor) (q : Char) (l : List Cp) (pos : Nat) (hq : q = '"') :
    ∀ text rest e slow, scanStr fl q l pos = .done text rest e slow →
      chars l = chars text ++ '"' :: chars rest ∧ ScanClean fl (chars text) ∧ (slow = false → FastText text) := by
  fun_induction scanStr fl q l pos <;> intro text rest e slow h
  all_goals try (cases h; done)
  all_goals subst hq
  all_goals try (exfalso; simp at *; done)
  case case3 c _ hb d hd e' r'' hl ih =>
    obtain ⟨t', sl', hx, rfl, rfl⟩ := StrScan.cons_done' h
    obtain ⟨k1, k2, k3⟩ := ih _ _ _ _ hx
    have he : e'.c = '\n' := by simpa [headIs] using hl
    refine ⟨by simp [k1], ?_, by simp⟩
    simp only [chars_append, chars_cons, chars_nil, List.cons_append, List.nil_append, hb, hd.1, he]
    exact ScanClean.crlf _ hd.2 k2
  case case5 c _ hb d r' hd hl ih =>
    obtain ⟨t', sl', hx, rfl, rfl⟩ := StrScan.cons_done' h
    obtain ⟨k1, k2, k3⟩ := ih _ _ _ _ hx
    refine ⟨by simp [k1], ?_, by simp⟩
    simp only [chars_append, chars_cons, chars_nil, List.cons_append, List.nil_append, hb, hd.1]
    refine ScanClean.cr _ hd.2 ?_ k2
    intro hh
    cases r' with
    | nil => cases t' <;> simp at k1
    | cons x xs =>
      have hx' : x.c ≠ '\n' := by simpa [headIs] using hl
      cases t' with
      | nil => simp at hh
      | cons y ys =>
        simp only [chars_cons, List.cons_append, List.cons.injEq] at k1
        simp only [chars_cons, List.head?_cons, Option.some.injEq] at hh
        exact hx' (k1.1.trans hh)
  case case6 c _ hb d r' hd ih =>
    obtain ⟨t', sl', hx, rfl, rfl⟩ := StrScan.cons_done' h
    obtain ⟨k1, k2, k3⟩ := ih _ _ _ _ hx
    refine ⟨by simp [k1], ?_, by simp⟩
    simp only [chars_append, chars_cons, chars_nil, List.cons_append, List.nil_append, hb]
    exact ScanClean.esc _ _ hd k2
  case case14 c r' _ hb hr hn _ hq =>
    simp only [StrScan.done.injEq] at h
    obtain ⟨rfl, rfl, _, rfl⟩ := h
    exact ⟨by simp [hq], ScanClean.nil, fun _ c hc => by cases hc⟩
  case case15 c r' _ hb hr hn h80 _ hq ih =>
    obtain ⟨t', sl', hx, rfl, rfl⟩ := StrScan.cons_done' h
    obtain ⟨k1, k2, k3⟩ := ih _ _ _ _ hx
    refine ⟨by simp [k1], ?_, by simp⟩
    simp only [chars_append, chars_cons, chars_nil, List.cons_append, List.nil_append]
    exact ScanClean.plain _ _ hb hr hn hq (Or.inl h80) k2
  case case17 c r' _ hb hr hn h80 hctl _ hq ih =>
    obtain ⟨t', sl', hx, rfl, rfl⟩ := StrScan.cons_done' h
    obtain ⟨k1, k2, k3⟩ := ih _ _ _ _ hx
    refine ⟨by simp [k1], ?_, ?_⟩
    · simp only [chars_append, chars_cons, chars_nil, List.cons_append, List.nil_append]
      exact ScanClean.plain _ _ hb hr hn hq (Or.inr hctl) k2
    · intro hs0
      have hs := k3 (by simpa using hs0)
      intro x hx
      rcases List.mem_append.1 hx with hx | hx
      · simp only [List.mem_singleton] at hx; subst hx
        exact ⟨hb, by omega⟩
      · exact hs x hx

end EsbuildModel.Json
