import EsbuildModel.Spec.EsModules
/-!
The request graph of `ResolveExport`: nodes are (module, export name) requests, a node is a terminal (it provides a
binding), has one successor (a named re-export) or the module's star exports as successors.  `Reaches T x b`: request
`x` can reach a terminal that provides binding `b`.  Lemmas/EsModulesResolve.lean proves that ResolveExport with its
shared, never rolled back `resolveSet` computes exactly: null if no binding is reachable, the binding if exactly one is,
ambiguous if two different ones are.
-/
namespace EsbuildModel.Spec.EsModules

abbrev Node := ModuleId × Name

inductive NodeKind where
  | missing
  | loc (b : BindingId)
  | ns (m : ModuleId)
  | ind (m : ModuleId) (n : Name)
  | dflt
  | stars (l : List ModuleId)
deriving DecidableEq, Repr

/-- what steps 4–7 of ResolveExport find for `exportName` in `module` -/
def node (T : Table) (m : ModuleId) (n : Name) : NodeKind :=
  match T[m]? with
  | none => .missing
  | some module =>
    match module.localExportEntries.find? (·.exportName = n) with
    | some e => .loc e.localName
    | none =>
      match module.indirectExportEntries.find? (·.exportName = n) with
      | some e =>
        match e.importName with
        | .all => .ns e.moduleRequest
        | .name n' => .ind e.moduleRequest n'
      | none => if n = "default" then .dflt else .stars module.starExportEntries

theorem resolveExportAux_succ (T : Table) (fuel : Nat) (m : ModuleId) (n : Name) (V : List Node) :
    resolveExportAux T (fuel + 1) m n V =
      match node T m n with
      | .missing => none
      | .loc b => if V.contains (m, n) then some (.null, V) else some (.binding ⟨m, .name b⟩, V ++ [(m, n)])
      | .ns m' => if V.contains (m, n) then some (.null, V) else
          if m' < T.length then some (.binding ⟨m', .namespace⟩, V ++ [(m, n)]) else none
      | .ind m' n' => if V.contains (m, n) then some (.null, V) else resolveExportAux T fuel m' n' (V ++ [(m, n)])
      | .dflt => if V.contains (m, n) then some (.null, V) else some (.null, V ++ [(m, n)])
      | .stars l => if V.contains (m, n) then some (.null, V) else
          starResolveLoop (fun e set => resolveExportAux T fuel e n set) l .null (V ++ [(m, n)]) := by
  unfold node
  rw [resolveExportAux]
  cases T[m]? with
  | none => rfl
  | some module =>
    simp only
    cases module.localExportEntries.find? (·.exportName = n) with
    | some e => simp only
    | none =>
      simp only
      cases module.indirectExportEntries.find? (·.exportName = n) with
      | some e =>
        simp only
        cases e.importName with
        | all => simp only
        | name n' => simp only
      | none =>
        simp only
        by_cases hd : n = "default"
        · simp only [hd, if_true]
        · simp only [hd, if_false]

def succ (T : Table) (x : Node) : List Node :=
  match node T x.1 x.2 with
  | .ind m' n' => [(m', n')]
  | .stars l => l.map (fun s => (s, x.2))
  | _ => []

def term (T : Table) (x : Node) : Option ResolvedBinding :=
  match node T x.1 x.2 with
  | .loc b => some ⟨x.1, .name b⟩
  | .ns m' => some ⟨m', .namespace⟩
  | _ => none

inductive Reach (T : Table) : Node → Node → Prop
  | refl (x : Node) : Reach T x x
  | step {x y z : Node} : Reach T x y → z ∈ succ T y → Reach T x z

theorem Reach.head {T : Table} {x y z : Node} (h : y ∈ succ T x) (h2 : Reach T y z) : Reach T x z := by
  induction h2 with
  | refl => exact .step (.refl x) h
  | step _ e ih => exact .step ih e

theorem Reach.trans {T : Table} {x y z : Node} (h1 : Reach T x y) (h2 : Reach T y z) : Reach T x z := by
  induction h2 with
  | refl => exact h1
  | step _ e ih => exact .step ih e

/-- request `x` can be answered with binding `b` along some path of re-exports -/
def Reaches (T : Table) (x : Node) (b : ResolvedBinding) : Prop := ∃ y, Reach T x y ∧ term T y = some b

theorem Reaches.of_succ {T : Table} {x y : Node} {b : ResolvedBinding} (h : y ∈ succ T x) (h2 : Reaches T y b) :
    Reaches T x b := by
  obtain ⟨z, hz, ht⟩ := h2
  exact ⟨z, Reach.head h hz, ht⟩

theorem Reaches.of_term {T : Table} {x : Node} {b : ResolvedBinding} (h : term T x = some b) : Reaches T x b :=
  ⟨x, .refl x, h⟩

/-- a node with successors is not a terminal -/
theorem term_none_of_succ {T : Table} {x y : Node} (h : y ∈ succ T x) : term T x = none := by
  unfold succ at h
  unfold term
  split at h <;> simp_all

theorem Reaches.cases {T : Table} {x : Node} {b : ResolvedBinding} (h : Reaches T x b) :
    term T x = some b ∨ ∃ y ∈ succ T x, Reaches T y b := by
  obtain ⟨z, hz, ht⟩ := h
  have : ∀ x z, Reach T x z → x = z ∨ ∃ y ∈ succ T x, Reach T y z := by
    intro x z h
    induction h with
    | refl => exact Or.inl rfl
    | step _ e ih =>
      rcases ih with rfl | ⟨y, hy, hr⟩
      · exact Or.inr ⟨_, e, .refl _⟩
      · exact Or.inr ⟨y, hy, .step hr e⟩
  rcases this x z hz with rfl | ⟨y, hy, hr⟩
  · exact Or.inl ht
  · exact Or.inr ⟨y, hy, z, hr, ht⟩

/-! ### well-formed tables: no request leaves the table -/

theorem node_ne_missing {T : Table} {m : ModuleId} (n : Name) (h : m < T.length) : node T m n ≠ .missing := by
  unfold node
  rw [List.getElem?_eq_getElem h]
  simp only
  split
  · simp
  · split
    · split <;> simp
    · split <;> simp

theorem wf_ind {T : Table} (hwf : WellFormed T) {m m' : ModuleId} {n n' : Name} (h : node T m n = .ind m' n') :
    m' < T.length := by
  unfold node at h
  split at h
  · cases h
  · rename_i module hm
    have hmem : module ∈ T := List.mem_of_getElem? hm
    split at h
    · cases h
    · split at h
      · rename_i e he
        have := (hwf module hmem).1 e (List.mem_of_find?_eq_some he)
        split at h
        · cases h
        · cases h; exact this
      · split at h <;> cases h

theorem wf_ns {T : Table} (hwf : WellFormed T) {m m' : ModuleId} {n : Name} (h : node T m n = .ns m') :
    m' < T.length := by
  unfold node at h
  split at h
  · cases h
  · rename_i module hm
    have hmem : module ∈ T := List.mem_of_getElem? hm
    split at h
    · cases h
    · split at h
      · rename_i e he
        have := (hwf module hmem).1 e (List.mem_of_find?_eq_some he)
        split at h
        · cases h; exact this
        · cases h
      · split at h <;> cases h

theorem wf_stars {T : Table} (hwf : WellFormed T) {m : ModuleId} {n : Name} {l : List ModuleId}
    (h : node T m n = .stars l) : ∀ s ∈ l, s < T.length := by
  unfold node at h
  split at h
  · cases h
  · rename_i module hm
    have hmem : module ∈ T := List.mem_of_getElem? hm
    split at h
    · cases h
    · split at h
      · split at h <;> cases h
      · split at h
        · cases h
        · cases h
          exact (hwf module hmem).2.1

theorem wf_succ {T : Table} (hwf : WellFormed T) {x y : Node} (h : y ∈ succ T x) : y.1 < T.length := by
  unfold succ at h
  split at h
  · rename_i m' n' hk
    simp at h; subst h
    exact wf_ind hwf hk
  · rename_i l hk
    simp at h
    obtain ⟨s, hs, rfl⟩ := h
    exact wf_stars hwf hk s hs
  · simp at h

end EsbuildModel.Spec.EsModules
