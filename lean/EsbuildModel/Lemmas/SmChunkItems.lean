import EsbuildModel.Impl.SmChunk
/-!
The bookkeeping of `generateSourceMapForChunk`'s first loop: the table `sourceIndexToSourcesIndex` always points at
the window of `items` that holds the sources of the file, whatever mixture of files with and without input source
maps (and however many sources each) came before.
-/
namespace EsbuildModel.SmChunk
open SmJoin

/-- the `sources` entries a file contributes -/
def fileSources (f : FileIn) : List Bytes :=
  match f.inputSources with
  | none => [simpleSource f]
  | some s => s

/-- `items[si ..]` holds the sources of `f`, and (unless excluded) its quoted contents, in order -/
def Window (exclude : Bool) (f : FileIn) (si : Nat) (items : List Item) : Prop :=
  ∀ a s, (fileSources f)[a]? = some s →
    ∃ it, items[si + a]? = some it ∧ it.source = s ∧ (exclude = false → f.quoted[a]? = some it.quoted)

theorem Window.append {exclude f si items} (h : Window exclude f si items) (ext : List Item) :
    Window exclude f si (items ++ ext) := by
  intro a s hs
  obtain ⟨it, h1, h2⟩ := h a s hs
  refine ⟨it, ?_, h2⟩
  have : si + a < items.length := by
    rcases Nat.lt_or_ge (si + a) items.length with h | h
    · exact h
    · rw [List.getElem?_eq_none h] at h1; cases h1
  rw [List.getElem?_append_left this]; exact h1

theorem nestedItems_spec (exclude : Bool) (quoted : List Bytes) : ∀ (srcs : List Bytes) (i : Nat) (its : List Item),
    nestedItems exclude quoted i srcs = some its →
    its.length = srcs.length ∧
    ∀ a s, srcs[a]? = some s →
      ∃ it, its[a]? = some it ∧ it.source = s ∧ (exclude = false → quoted[i + a]? = some it.quoted) := by
  intro srcs
  induction srcs with
  | nil =>
    intro i its h
    simp only [nestedItems, Option.some.injEq] at h
    subst h
    exact ⟨rfl, fun a s hs => by simp at hs⟩
  | cons s0 rest ih =>
    intro i its h
    simp only [nestedItems] at h
    split at h
    · cases h
    · next q hq =>
      cases hrec : nestedItems exclude quoted (i + 1) rest with
      | none => rw [hrec] at h; cases h
      | some r =>
        rw [hrec] at h
        simp only [Option.map_some, Option.some.injEq] at h
        subst h
        obtain ⟨hl, hw⟩ := ih (i + 1) r hrec
        refine ⟨by simp [hl], ?_⟩
        intro a s hs
        cases a with
        | zero =>
          simp only [List.getElem?_cons_zero, Option.some.injEq] at hs
          subst hs
          refine ⟨⟨s0, q⟩, by simp, rfl, ?_⟩
          intro he
          subst he
          simpa using hq
        | succ a =>
          simp only [List.getElem?_cons_succ] at hs
          obtain ⟨it, h1, h2, h3⟩ := hw a s hs
          refine ⟨it, by simpa using h1, h2, ?_⟩
          intro he
          have := h3 he
          rwa [show i + (a + 1) = i + 1 + a by omega]

/-- invariant of the first loop -/
structure ItemsInv (files : List FileIn) (exclude : Bool) (st : ItemsSt) : Prop where
  next : st.next = st.items.length
  win : ∀ k si, tblGet st.tbl k = some si → ∃ f, files[k]? = some f ∧ Window exclude f si st.items

/-- what one state keeps of an earlier one -/
structure ItemsLe (st st' : ItemsSt) : Prop where
  tbl : ∀ k si, tblGet st.tbl k = some si → tblGet st'.tbl k = some si
  items : ∃ ext, st'.items = st.items ++ ext

theorem ItemsLe.refl (st : ItemsSt) : ItemsLe st st := ⟨fun _ _ h => h, ⟨[], by simp⟩⟩

theorem ItemsLe.trans {a b c : ItemsSt} (h1 : ItemsLe a b) (h2 : ItemsLe b c) : ItemsLe a c := by
  refine ⟨fun k si h => h2.tbl k si (h1.tbl k si h), ?_⟩
  obtain ⟨e1, he1⟩ := h1.items
  obtain ⟨e2, he2⟩ := h2.items
  exact ⟨e1 ++ e2, by rw [he2, he1, List.append_assoc]⟩

theorem itemsStep_spec {files exclude st r st'} (hinv : ItemsInv files exclude st)
    (h : itemsStep files exclude st r = some st') :
    ItemsInv files exclude st' ∧ ItemsLe st st' ∧
      (r.isNullEntry = false → (tblGet st'.tbl r.sourceIndex).isSome = true) := by
  unfold itemsStep at h
  split at h
  · next hnull =>
    cases h
    exact ⟨hinv, ItemsLe.refl _, fun hn => by rw [hnull] at hn; cases hn⟩
  split at h
  · next _ hseen =>
    cases h
    exact ⟨hinv, ItemsLe.refl _, fun _ => hseen⟩
  next _ hnew =>
  have hnone : tblGet st.tbl r.sourceIndex = none := by
    cases hx : tblGet st.tbl r.sourceIndex with
    | none => rfl
    | some v => rw [hx] at hnew; simp at hnew
  simp only at h
  split at h
  · cases h
  next file hfile =>
  -- the new window, for both cases
  have key : ∀ its : List Item, (its.length = (fileSources file).length ∧
      ∀ (a : Nat) (s : Bytes), (fileSources file)[a]? = some s →
        ∃ it : Item, its[a]? = some it ∧ it.source = s ∧ (exclude = false → file.quoted[a]? = some it.quoted)) →
      let st2 : ItemsSt := { tbl := (r.sourceIndex, st.next) :: st.tbl, items := st.items ++ its,
                             next := st.next + its.length }
      ItemsInv files exclude st2 ∧ ItemsLe st st2 ∧ (tblGet st2.tbl r.sourceIndex).isSome = true := by
    intro its ⟨hlen, hwin⟩
    refine ⟨⟨?_, ?_⟩, ⟨?_, ⟨its, rfl⟩⟩, ?_⟩
    · simp [hinv.next]
    · intro k si hk
      simp only [tblGet] at hk
      split at hk
      · next hkeq =>
        cases hk
        subst hkeq
        refine ⟨file, hfile, ?_⟩
        intro a s hs
        obtain ⟨it, h1, h2, h3⟩ := hwin a s hs
        refine ⟨it, ?_, h2, h3⟩
        rw [hinv.next, List.getElem?_append_right (by omega)]
        simpa using h1
      · obtain ⟨f, hf, hw⟩ := hinv.win k si hk
        exact ⟨f, hf, hw.append its⟩
    · intro k si hk
      simp only [tblGet]
      split
      · next hkeq => subst hkeq; rw [hnone] at hk; cases hk
      · exact hk
    · simp [tblGet]
  split at h
  · next hsrc =>
    -- simple case
    split at h
    · cases h
    next q hq =>
    cases h
    have := key [⟨simpleSource file, q⟩] ⟨by simp [fileSources, hsrc], by
      intro a s hs
      simp only [fileSources, hsrc] at hs
      cases a with
      | zero =>
        simp only [List.getElem?_cons_zero, Option.some.injEq] at hs
        subst hs
        refine ⟨⟨simpleSource file, q⟩, by simp, rfl, ?_⟩
        intro he; subst he; simpa using hq
      | succ a => simp at hs⟩
    simpa using ⟨this.1, this.2.1, fun _ => this.2.2⟩
  · next srcs hsrc =>
    split at h
    · cases h
    next its hits =>
    cases h
    obtain ⟨hl, hw⟩ := nestedItems_spec exclude file.quoted srcs 0 its hits
    have := key its ⟨by simp [fileSources, hsrc, hl], by
      intro a s hs
      simp only [fileSources, hsrc] at hs
      obtain ⟨it, h1, h2, h3⟩ := hw a s hs
      exact ⟨it, h1, h2, fun he => by simpa using h3 he⟩⟩
    rw [hl] at this
    exact ⟨this.1, this.2.1, fun _ => this.2.2⟩

theorem itemsLoop_spec {files exclude} : ∀ (rs : List ResultIn) (st st' : ItemsSt), ItemsInv files exclude st →
    itemsLoop files exclude st rs = some st' →
    ItemsInv files exclude st' ∧ ItemsLe st st' ∧
      ∀ r ∈ rs, r.isNullEntry = false → (tblGet st'.tbl r.sourceIndex).isSome = true := by
  intro rs
  induction rs with
  | nil =>
    intro st st' hinv h
    simp only [itemsLoop, Option.some.injEq] at h
    subst h
    exact ⟨hinv, ItemsLe.refl _, fun r hr => by cases hr⟩
  | cons r rs ih =>
    intro st st' hinv h
    simp only [itemsLoop] at h
    split at h
    · cases h
    next st1 h1 =>
    obtain ⟨i1, l1, s1⟩ := itemsStep_spec hinv h1
    obtain ⟨i2, l2, s2⟩ := ih st1 st' i1 h
    refine ⟨i2, l1.trans l2, ?_⟩
    intro r' hr' hn
    simp only [List.mem_cons] at hr'
    rcases hr' with rfl | hr'
    · have := s1 hn
      cases hx : tblGet st1.tbl r'.sourceIndex with
      | none => rw [hx] at this; cases this
      | some v => rw [l2.tbl _ _ hx]; rfl
    · exact s2 r' hr' hn

theorem itemsInv_init (files : List FileIn) (exclude : Bool) : ItemsInv files exclude {} :=
  ⟨rfl, fun k si h => by simp [tblGet] at h⟩

end EsbuildModel.SmChunk
