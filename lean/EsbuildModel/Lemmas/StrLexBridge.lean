import EsbuildModel.Lemmas.StrLexTplParse
import EsbuildModel.Lemmas.Quote
/-! Bridge between the two specifications of literal values: whatever the functional decoder `Spec.JsString.decode`
(used for the PRINTING side, C01.string_literal_value_preserved) accepts is derived by the grammar of
`Spec.JsStringLiteral` with the same value and without legacy escapes; plus: the printer emits code points only. -/
namespace EsbuildModel.Quote

theorem hexChar_le (d : Nat) (h : d < 16) : hexChar d ≤ 70 := by unfold hexChar; split <;> omega

theorem hex4_bound (c : Nat) : ∀ x ∈ hex4 c, x ≤ 1114111 := by
  intro x hx
  have h1 := hexChar_le (c / 4096 % 16) (Nat.mod_lt _ (by decide))
  have h2 := hexChar_le (c / 256 % 16) (Nat.mod_lt _ (by decide))
  have h3 := hexChar_le (c / 16 % 16) (Nat.mod_lt _ (by decide))
  have h4 := hexChar_le (c % 16) (Nat.mod_lt _ (by decide))
  simp only [hex4, List.mem_cons, List.not_mem_nil, or_false] at hx
  omega

theorem hex2_bound (c : Nat) : ∀ x ∈ hex2 c, x ≤ 1114111 := by
  intro x hx
  have h3 := hexChar_le (c / 16 % 16) (Nat.mod_lt _ (by decide))
  have h4 := hexChar_le (c % 16) (Nat.mod_lt _ (by decide))
  simp only [hex2, List.mem_cons, List.not_mem_nil, or_false] at hx
  omega

theorem hexBrace_bound (r : Nat) : ∀ x ∈ hexBrace r, x ≤ 1114111 := by
  intro x hx
  have h0 := hexChar_le (r / 1048576 % 16) (Nat.mod_lt _ (by decide))
  have h1 := hexChar_le (r / 65536 % 16) (Nat.mod_lt _ (by decide))
  have h2 := hexChar_le (r / 4096 % 16) (Nat.mod_lt _ (by decide))
  have h3 := hexChar_le (r / 256 % 16) (Nat.mod_lt _ (by decide))
  have h4 := hexChar_le (r / 16 % 16) (Nat.mod_lt _ (by decide))
  have h5 := hexChar_le (r % 16) (Nat.mod_lt _ (by decide))
  unfold hexBrace at hx
  split at hx <;> simp only [List.mem_append, List.mem_cons, List.not_mem_nil, or_false] at hx <;> omega

theorem plainUnit_bound (o : Opts) (c : Nat) (hc : c < 65536) : ∀ x ∈ plainUnit o c, x ≤ 1114111 := by
  intro x hx
  unfold plainUnit at hx
  repeat' split at hx
  all_goals first
    | (have := hex4_bound c x hx; exact this)
    | (have := hex2_bound c x hx; exact this)
    | (simp at hx; omega)

theorem all_ite {p : Nat → Bool} {c : Prop} [Decidable c] {a b : List Nat} (ha : a.all p = true) (hb : b.all p = true) :
    (if c then a else b).all p = true := by split <;> assumption

theorem unitChunk_bound (o : Opts) (q : Nat) (prev : Option Nat) (c : Nat) (rest : List Nat) (hc : c < 65536) :
    ∀ x ∈ unitChunk o q prev c rest, x ≤ 1114111 := by
  have hp : (plainUnit o c).all (fun x => decide (x ≤ 1114111)) = true := by
    rw [List.all_eq_true]; intro x hx; simpa using plainUnit_bound o c hc x hx
  have : (unitChunk o q prev c rest).all (fun x => decide (x ≤ 1114111)) = true := by
    unfold unitChunk
    repeat' (first | exact hp | decide | apply all_ite | split)
  intro x hx
  simpa using List.all_eq_true.1 this x hx

theorem pairChunk_bound (o : Opts) (c c2 : Nat) (h1 : isHigh c = true) (h2 : isLow c2 = true) :
    ∀ x ∈ pairChunk o c c2, x ≤ 1114111 := by
  intro x hx
  simp only [isHigh, isLow, Bool.and_eq_true, decide_eq_true_eq] at h1 h2
  have hr := pair_le c c2 h1 h2
  unfold pairChunk at hx
  simp only at hx
  split at hx
  · split at hx
    · exact hexBrace_bound _ x hx
    · rw [List.mem_append] at hx
      rcases hx with hx | hx
      · exact hex4_bound _ x hx
      · exact hex4_bound _ x hx
  · simp at hx; omega

theorem go_bound (o : Opts) (q : Nat) (wrap : Bool) :
    ∀ (n : Nat) (text : List Nat), text.length = n → (∀ u ∈ text, u < 65536) →
      ∀ (sll : Int) (i : Nat) (prev : Option Nat), ∀ x ∈ go o q wrap sll i prev text, x ≤ 1114111 := by
  intro n
  induction n using Nat.strongRecOn with
  | _ n ih =>
    intro text hlen hu sll i prev x hx
    cases text with
    | nil => rw [go.eq_1] at hx; cases hx
    | cons c rest =>
      have hc : c < 65536 := hu c (by simp)
      have hrest : ∀ u ∈ rest, u < 65536 := fun u hm => hu u (by simp [hm])
      obtain ⟨pre, sll', hpre, hshape⟩ := go_shape o q wrap sll i prev c rest
      have hprex : x ∈ pre → x ≤ 1114111 := by
        intro hm
        rcases hpre with rfl | rfl
        · cases hm
        · simp at hm; omega
      rcases hshape with h | ⟨c2, rest2, hr, hh, hl, h⟩
      · rw [h] at hx
        simp only [List.mem_append] at hx
        rcases hx with (hx | hx) | hx
        · exact hprex hx
        · exact unitChunk_bound o q prev c rest hc x hx
        · exact ih rest.length (by simp at hlen; omega) rest rfl hrest sll' (i + 1) (some c) x hx
      · subst hr
        rw [h] at hx
        simp only [List.mem_append] at hx
        have hrest2 : ∀ u ∈ rest2, u < 65536 := fun u hm => hrest u (by simp [hm])
        rcases hx with (hx | hx) | hx
        · exact hprex hx
        · exact pairChunk_bound o c c2 hh hl x hx
        · exact ih rest2.length (by simp at hlen; omega) rest2 rfl hrest2 sll' (i + 2) (some c2) x hx

theorem printUnquoted_bound (o : Opts) (q cur : Nat) (text : List Nat) (hu : ∀ u ∈ text, u < 65536) :
    ∀ x ∈ printUnquoted o q cur text, x ≤ 1114111 := by
  unfold printUnquoted
  exact go_bound o q _ text.length text rfl hu _ 0 none

end EsbuildModel.Quote

namespace EsbuildModel.StrLex
open EsbuildModel.Spec.StrLit
open EsbuildModel.Spec.JsString (hexVal? utf16 braceHex)
open EsbuildModel.Spec (JsString.step JsString.isLineTerminator JsString.decode)

theorem braceHex_sound (fuel acc : Nat) (any : Bool) (r : List Nat) (cp : Nat) (r'' : List Nat)
    (h : braceHex fuel acc any r = some (cp, r'')) :
    ∃ ds, r = ds ++ 125 :: r'' ∧ (∀ c ∈ ds, isHexDigit c = true) ∧ cp = trueMV acc ds ∧ cp ≤ 1114111 ∧
      (any = true ∨ ds ≠ []) := by
  induction fuel generalizing acc any r with
  | zero => simp [braceHex] at h
  | succ fuel ih =>
    cases r with
    | nil => simp [braceHex] at h
    | cons c rest =>
      simp only [braceHex] at h
      split at h
      · rename_i hc
        subst hc
        split at h
        · rename_i hany
          simp only [Option.some.injEq, Prod.mk.injEq] at h
          obtain ⟨rfl, rfl⟩ := h
          exact ⟨[], rfl, by simp, rfl, hany.2, Or.inl hany.1⟩
        · cases h
      · split at h
        · cases h
        · rename_i d hd
          split at h
          · cases h
          · obtain ⟨ds, h1, h2, h3, h4, _⟩ := ih _ _ _ h
            refine ⟨c :: ds, by simp [h1], ?_, ?_, h4, Or.inr (by simp)⟩
            · intro x hx
              simp at hx
              rcases hx with rfl | hx
              · simp [isHexDigit, hd]
              · exact h2 x hx
            · simp [trueMV, hd] at h3 ⊢; exact h3

/-- what `Spec.JsString.step` reads after a backslash -/
inductive EscItem (text : List Nat) (units rest : List Nat) : Prop
  | esc (e : CEsc) (h1 : text = 92 :: e.render ++ rest) (h2 : e.wf = true) (h3 : e.look rest.head? = true) (h4 : e.sv = units)
  | cont (l : LTS) (h1 : text = 92 :: l.render ++ rest) (h2 : l.look rest.head? = true) (h3 : units = [])

theorem bridge_escape (q : Nat) (t : List Nat) (hsrc : ∀ c ∈ t, c ≤ 1114111) (units r' : List Nat)
    (h : JsString.step q (92 :: t) = some (units, r')) : EscItem (92 :: t) units r' := by
  unfold JsString.step at h
  split at h
  · rename_i heq; cases heq
  · rename_i rest heq
    simp only [List.cons.injEq, true_and] at heq
    subst heq
    split at h
    · cases h
    · simp only [Option.some.injEq, Prod.mk.injEq] at h
      obtain ⟨rfl, rfl⟩ := h
      exact .cont .crlf rfl rfl rfl
    · rename_i c r hncrlf
      have single : ∀ v, (singleEscape? c).isSome = true → (singleEscape? c).getD 0 = v → some ([v], r) = some (units, r') →
          EscItem (92 :: c :: r) units r' := by
        intro v h1 h2 h3
        simp only [Option.some.injEq, Prod.mk.injEq] at h3
        obtain ⟨rfl, rfl⟩ := h3
        exact .esc (.single c) rfl h1 rfl (by simp [CEsc.sv, h2])
      by_cases hlt : JsString.isLineTerminator c = true
      · rw [if_pos hlt] at h
        simp only [Option.some.injEq, Prod.mk.injEq] at h
        obtain ⟨rfl, rfl⟩ := h
        have hlt' : c = 10 ∨ c = 13 ∨ c = 8232 ∨ c = 8233 := by
          have := hlt; simp [JsString.isLineTerminator] at this; omega
        rcases hlt' with rfl | rfl | rfl | rfl
        · exact .cont .lf rfl rfl rfl
        · refine .cont .cr rfl ?_ rfl
          cases r with
          | nil => rfl
          | cons a r2 =>
            have : a ≠ 10 := fun ha => hncrlf r2 rfl (by rw [ha])
            simp [LTS.look, lookNot, this]
        · exact .cont .ls rfl rfl rfl
        · exact .cont .ps rfl rfl rfl
      have hnlt := hlt
      rw [if_neg hlt] at h
      by_cases h48 : c = 48
      · rw [if_pos h48] at h
        subst h48
        split at h
        · rename_i d tl
          split at h
          · cases h
          · rename_i hd
            simp only [Option.some.injEq, Prod.mk.injEq] at h
            obtain ⟨rfl, rfl⟩ := h
            exact .esc .nul rfl rfl (by simp [CEsc.look, lookNot, isDecimalDigit]; omega) rfl
        · simp only [Option.some.injEq, Prod.mk.injEq] at h
          obtain ⟨rfl, rfl⟩ := h
          exact .esc .nul rfl rfl rfl rfl
      rw [if_neg h48] at h
      by_cases hdig : 49 ≤ c ∧ c ≤ 57
      · rw [if_pos hdig] at h; cases h
      rw [if_neg hdig] at h
      have ndig := hdig
      by_cases n98 : c = 98
      · rw [if_pos n98] at h; subst n98; exact single 8 (by decide) (by decide) h
      rw [if_neg n98] at h
      by_cases n102 : c = 102
      · rw [if_pos n102] at h; subst n102; exact single 12 (by decide) (by decide) h
      rw [if_neg n102] at h
      by_cases n110 : c = 110
      · rw [if_pos n110] at h; subst n110; exact single 10 (by decide) (by decide) h
      rw [if_neg n110] at h
      by_cases n114 : c = 114
      · rw [if_pos n114] at h; subst n114; exact single 13 (by decide) (by decide) h
      rw [if_neg n114] at h
      by_cases n116 : c = 116
      · rw [if_pos n116] at h; subst n116; exact single 9 (by decide) (by decide) h
      rw [if_neg n116] at h
      by_cases n118 : c = 118
      · rw [if_pos n118] at h; subst n118; exact single 11 (by decide) (by decide) h
      rw [if_neg n118] at h
      by_cases n120 : c = 120
      · rw [if_pos n120] at h; subst n120
        split at h
        · rename_i a b r2
          split at h
          · rename_i x y hx hy
            simp only [Option.some.injEq, Prod.mk.injEq] at h
            obtain ⟨rfl, rfl⟩ := h
            exact .esc (.hex a b) rfl (by simp [CEsc.wf, isHexDigit, hx, hy]) rfl (by simp [CEsc.sv, digitsMV, hx, hy])
          · cases h
        · cases h
      rw [if_neg n120] at h
      by_cases n117 : c = 117
      · rw [if_pos n117] at h; subst n117
        split at h
        · rename_i r2
          split at h
          · rename_i cp r3 hb
            simp only [Option.some.injEq, Prod.mk.injEq] at h
            obtain ⟨rfl, rfl⟩ := h
            obtain ⟨ds, h1, h2, h3, h4, h5⟩ := braceHex_sound _ _ _ _ _ _ hb
            have hne : ds.isEmpty = false := by
              rcases h5 with h5 | h5
              · cases h5
              · cases ds <;> simp at h5 ⊢
            refine .esc (.uBrace ds) (by simp [CEsc.render, h1]) ?_ rfl (by simp [CEsc.sv, digitsMV_eq, h3])
            simp [CEsc.wf, hne, all_of_mem h2, digitsMV_eq, ← h3, h4]
          · cases h
        · rename_i a b c' d r2 _
          split at h
          · rename_i w x y z hw hx hy hz
            simp only [Option.some.injEq, Prod.mk.injEq] at h
            obtain ⟨rfl, rfl⟩ := h
            exact .esc (.u4 a b c' d) rfl (by simp [CEsc.wf, isHexDigit, hw, hx, hy, hz]) rfl
              (by simp [CEsc.sv, digitsMV, hw, hx, hy, hz])
          · cases h
        · cases h
      rw [if_neg n117] at h
      simp only [Option.some.injEq, Prod.mk.injEq] at h
      obtain ⟨rfl, rfl⟩ := h
      have hc := hsrc c (by simp)
      by_cases hs : (singleEscape? c).isSome = true
      · have := singleEscape_cases hs
        refine .esc (.single c) rfl hs rfl ?_
        rcases this with rfl | rfl | rfl | rfl | rfl | rfl | rfl | rfl | rfl <;> first | omega | rfl
      · have hs' : (singleEscape? c).isSome = false := by simpa using hs
        have hd : isDecimalDigit c = false := by simp [isDecimalDigit]; omega
        have hl : isLineTerminator c = false := by
          simpa [JsString.isLineTerminator, isLineTerminator] using hnlt
        exact .esc (.nonEsc c) rfl
          (by simp [CEsc.wf, isNonEscapeCharacter, isSourceChar, hc, isEscapeCharacter, hs', hd, hl, n120, n117]) rfl rfl
  · rename_i c rest hne heq
    simp only [List.cons.injEq] at heq
    exact (hne heq.1.symm).elim

theorem jsstep_plain (q c : Nat) (rest : List Nat) (h92 : c ≠ 92) :
    JsString.step q (c :: rest) =
      (if c = q then none
       else if q ≠ 96 ∧ (c = 10 ∨ c = 13) then none
       else if q = 96 ∧ c = 13 then
         (match rest with
          | 10 :: r => some ([10], r)
          | _ => some ([10], rest))
       else if q = 96 ∧ c = 36 then
         (match rest with
          | 123 :: _ => none
          | _ => some ([36], rest))
       else some (utf16 c, rest)) := by
  unfold JsString.step
  split
  · rename_i heq; cases heq
  · rename_i heq; simp only [List.cons.injEq] at heq; exact absurd heq.1 h92
  · rename_i c' rest' hne heq
    simp only [List.cons.injEq] at heq
    obtain ⟨rfl, rfl⟩ := heq
    rfl

theorem jsdecode_succ (q fuel : Nat) (c : Nat) (t : List Nat) (v : List Nat)
    (h : JsString.decode q (fuel + 1) (c :: t) = some v) :
    ∃ units rest more, JsString.step q (c :: t) = some (units, rest) ∧ JsString.decode q fuel rest = some more ∧
      v = units ++ more := by
  simp only [JsString.decode] at h
  split at h
  · cases h
  · rename_i units rest hs
    split at h
    · cases h
    · rename_i more hm
      simp only [Option.some.injEq] at h
      exact ⟨units, rest, more, hs, hm, h.symm⟩

theorem bridge_str (q : Nat) (hq : q = 34 ∨ q = 39) (fuel : Nat) : ∀ (body v : List Nat), (∀ c ∈ body, c ≤ 1114111) →
    JsString.decode q fuel body = some v →
    ∃ ds, renderChars ds = body ∧ charsOK q [q] ds = true ∧ svChars ds = v ∧ ds.any StrChar.isLegacy = false := by
  induction fuel with
  | zero =>
    intro body v _ h
    cases body with
    | nil => simp only [JsString.decode, Option.some.injEq] at h; subst h; exact ⟨[], rfl, rfl, rfl, rfl⟩
    | cons c t => simp [JsString.decode] at h
  | succ fuel ih =>
    intro body v hsrc h
    cases body with
    | nil => simp only [JsString.decode, Option.some.injEq] at h; subst h; exact ⟨[], rfl, rfl, rfl, rfl⟩
    | cons c t =>
      obtain ⟨units, rest, more, hs, hm, rfl⟩ := jsdecode_succ q fuel c t v h
      have key : ∃ x : StrChar, c :: t = x.render ++ rest ∧ x.ok q rest.head? = true ∧ x.sv = units ∧ x.isLegacy = false := by
        by_cases h92 : c = 92
        · subst h92
          cases bridge_escape q t (fun y hy => hsrc y (by simp [hy])) units rest hs with
          | esc e h1 h2 h3 h4 => exact ⟨.esc e, h1, by simp [StrChar.ok, h2, h3], h4, rfl⟩
          | cont l h1 h2 h3 => exact ⟨.cont l, h1, h2, h3.symm, rfl⟩
        · rw [jsstep_plain q c t h92] at hs
          have h96 : q ≠ 96 := by omega
          by_cases hcq : c = q
          · rw [if_pos hcq] at hs; cases hs
          rw [if_neg hcq] at hs
          by_cases hlt : q ≠ 96 ∧ (c = 10 ∨ c = 13)
          · rw [if_pos hlt] at hs; cases hs
          rw [if_neg hlt, if_neg (by omega), if_neg (by omega)] at hs
          simp only [Option.some.injEq, Prod.mk.injEq] at hs
          obtain ⟨rfl, rfl⟩ := hs
          have hc := hsrc c (by simp)
          refine ⟨.plain c, rfl, ?_, rfl, rfl⟩
          have : c ≠ 10 ∧ c ≠ 13 := by
            constructor <;> (intro hh; exact hlt ⟨h96, by simp [hh]⟩)
          simp [StrChar.ok, isSourceChar, hc, hcq, h92, this.1, this.2]
      obtain ⟨x, htext, hok, hsv, hleg⟩ := key
      obtain ⟨ds, h1, h2, h3, h4⟩ := ih rest more (fun y hy => hsrc y (by rw [htext]; simp [hy])) hm
      refine ⟨x :: ds, by simp [renderChars, h1, htext], ?_, by simp [svChars, hsv, h3], by simp [hleg, h4]⟩
      simp only [charsOK, Bool.and_eq_true]
      refine ⟨?_, h2⟩
      rw [StrChar.ok_local q x _ [q] q rfl (by unfold IsCloser; omega), h1]
      exact hok

theorem bridge_tpl (fuel : Nat) : ∀ (body v : List Nat), (∀ c ∈ body, c ≤ 1114111) →
    JsString.decode 96 fuel body = some v →
    ∃ ds, renderTpl ds = body ∧ tplOK [96] ds = true ∧ tvChars ds = some v := by
  induction fuel with
  | zero =>
    intro body v _ h
    cases body with
    | nil => simp only [JsString.decode, Option.some.injEq] at h; subst h; exact ⟨[], rfl, rfl, rfl⟩
    | cons c t => simp [JsString.decode] at h
  | succ fuel ih =>
    intro body v hsrc h
    cases body with
    | nil => simp only [JsString.decode, Option.some.injEq] at h; subst h; exact ⟨[], rfl, rfl, rfl⟩
    | cons c t =>
      obtain ⟨units, rest, more, hs, hm, rfl⟩ := jsdecode_succ 96 fuel c t v h
      have key : ∃ x : TplChar, c :: t = x.render ++ rest ∧ x.ok rest.head? = true ∧ x.tv = some units := by
        by_cases h92 : c = 92
        · subst h92
          cases bridge_escape 96 t (fun y hy => hsrc y (by simp [hy])) units rest hs with
          | esc e h1 h2 h3 h4 => exact ⟨.esc e, h1, by simp [TplChar.ok, h2, h3], by simp [TplChar.tv, h4]⟩
          | cont l h1 h2 h3 => exact ⟨.cont l, h1, h2, by simp [TplChar.tv, h3]⟩
        · rw [jsstep_plain 96 c t h92] at hs
          by_cases hcq : c = 96
          · rw [if_pos hcq] at hs; cases hs
          rw [if_neg hcq, if_neg (by simp)] at hs
          by_cases h13 : c = 13
          · subst h13
            rw [if_pos (by simp)] at hs
            split at hs
            · rename_i r
              simp only [Option.some.injEq, Prod.mk.injEq] at hs
              obtain ⟨rfl, rfl⟩ := hs
              exact ⟨.lineTerm .crlf, rfl, rfl, rfl⟩
            · rename_i hn10
              simp only [Option.some.injEq, Prod.mk.injEq] at hs
              obtain ⟨rfl, rfl⟩ := hs
              refine ⟨.lineTerm .cr, rfl, ?_, rfl⟩
              cases t with
              | nil => rfl
              | cons a r =>
                have : a ≠ 10 := by rintro rfl; exact hn10 r rfl
                simp [TplChar.ok, LTS.look, lookNot, this]
          rw [if_neg (by simp [h13])] at hs
          by_cases h36 : c = 36
          · subst h36
            rw [if_pos (by simp)] at hs
            split at hs
            · cases hs
            · rename_i hn123
              simp only [Option.some.injEq, Prod.mk.injEq] at hs
              obtain ⟨rfl, rfl⟩ := hs
              refine ⟨.dollar, rfl, ?_, rfl⟩
              cases t with
              | nil => rfl
              | cons a r =>
                have : a ≠ 123 := by rintro rfl; exact hn123 r rfl
                simp [TplChar.ok, lookNot, this]
          rw [if_neg (by simp [h36])] at hs
          simp only [Option.some.injEq, Prod.mk.injEq] at hs
          obtain ⟨rfl, rfl⟩ := hs
          have hc := hsrc c (by simp)
          by_cases h10 : c = 10
          · subst h10; exact ⟨.lineTerm .lf, rfl, rfl, rfl⟩
          by_cases hls : c = 8232
          · subst hls; exact ⟨.lineTerm .ls, rfl, rfl, rfl⟩
          by_cases hps : c = 8233
          · subst hps; exact ⟨.lineTerm .ps, rfl, rfl, rfl⟩
          exact ⟨.plain c, rfl, by simp [TplChar.ok, isSourceChar, hc, hcq, h92, h36, isLineTerminator, h10, h13, hls, hps], rfl⟩
      obtain ⟨x, htext, hok, htv⟩ := key
      obtain ⟨ds, h1, h2, h3⟩ := ih rest more (fun y hy => hsrc y (by rw [htext]; simp [hy])) hm
      refine ⟨x :: ds, by simp [renderTpl, h1, htext], ?_, by simp [tvChars, htv, h3]⟩
      simp only [tplOK, Bool.and_eq_true]
      refine ⟨?_, h2⟩
      rw [TplChar.ok_local x _ [96] 96 rfl (Or.inl rfl), h1]
      exact hok


open EsbuildModel.Quote in
/-- printed string body, wrapped in its quotes, lexed again -/
theorem print_lex_string (o : Opts) (q : Nat) (hq : q = 34 ∨ q = 39) (cur : Nat) (text : List Nat)
    (hu : ∀ u ∈ text, u < 65536) (rest : List Nat) :
    lexValue false (q :: (printUnquoted o q cur text ++ q :: rest))
      = .tok .str ((printUnquoted o q cur text).length + 2) (some text) [] none := by
  obtain ⟨fuel, hdec⟩ := decode_print o q (by omega) cur text hu
  obtain ⟨ds, h1, h2, h3, h4⟩ := bridge_str q hq fuel _ text (printUnquoted_bound o q cur text hu) hdec
  have hv : (StringLit.mk q ds).valid = true := by simp [StringLit.valid, h2]; omega
  obtain ⟨leg, hres, hleg⟩ := lexValue_string_complete ⟨q, ds⟩ rest hv
  have : leg = none := by
    simp only [StringLit.hasLegacy, h4] at hleg
    cases leg <;> simp at hleg ⊢
  subst this
  simp only [StringLit.render, StringLit.sv, h1, h3, List.cons_append, List.append_assoc, List.nil_append,
    List.length_cons, List.length_append, List.length_nil, Nat.zero_add] at hres
  rw [hres]

open EsbuildModel.Quote in
/-- printed template body between backticks, lexed again (both entry points) -/
theorem print_lex_template (o : Opts) (cur : Nat) (text : List Nat) (hu : ∀ u ∈ text, u < 65536) (rest : List Nat) :
    lexValue false (96 :: (printUnquoted o 96 cur text ++ 96 :: rest))
      = .tok .noSubst ((printUnquoted o 96 cur text).length + 2) (some text) [] none ∧
    ∃ raw, lexRaw false (96 :: (printUnquoted o 96 cur text ++ 96 :: rest))
      = .tok .noSubst ((printUnquoted o 96 cur text).length + 2) (some text) raw none := by
  obtain ⟨fuel, hdec⟩ := decode_print o 96 (by omega) cur text hu
  obtain ⟨ds, h1, h2, h3⟩ := bridge_tpl fuel _ text (printUnquoted_bound o 96 cur text hu) hdec
  have hv : (TplTok.mk .noSubst ds).valid = true := h2
  have hrender : (TplTok.mk .noSubst ds).render ++ rest = 96 :: (printUnquoted o 96 cur text ++ 96 :: rest) := by
    simp [TplTok.render, TplKind.opening, TplKind.closing, h1]
  have hlen : (TplTok.mk .noSubst ds).render.length = (printUnquoted o 96 cur text).length + 2 := by
    simp [TplTok.render, TplKind.opening, TplKind.closing, h1]
  constructor
  · have := (lexValue_tpl ⟨.noSubst, ds⟩ rest hv).1 text h3
    rw [hrender, hlen] at this
    exact this
  · have hres := lexRaw_tpl ⟨.noSubst, ds⟩ rest hv
    rw [hrender, hlen, show (TplTok.mk .noSubst ds).tv = some text from h3] at hres
    exact ⟨_, hres⟩

end EsbuildModel.StrLex
