/-
The decidable checks that the driver of kernel `crosschunk` runs on every observed build imply the hypotheses of
the theorems in Props/C10CrossChunk.lean.
-/
import EsbuildModel.Lemmas.CrossChunk
import EsbuildModel.Impl.CrossChunkDriver
namespace EsbuildModel.CrossChunk

theorem mem_allDeclared {g : G} {s : Ref} {A : Nat} :
    (s, A) ∈ allDeclared g ↔ ∃ cA, g.chunks[A]? = some cA ∧ Declares g cA s := by
  unfold allDeclared
  simp only [List.mem_flatMap, List.mem_map, Prod.mk.injEq]
  constructor
  · rintro ⟨⟨c, i⟩, hz, r, hr, rfl, rfl⟩
    have := List.mem_zipIdx_iff_getElem?.mp hz
    exact ⟨c, by simpa using this, mem_chunkDeclared.mp hr⟩
  · rintro ⟨cA, hA, hd⟩
    exact ⟨(cA, A), List.mem_zipIdx_iff_getElem?.mpr (by simpa using hA), s, mem_chunkDeclared.mpr hd, rfl, rfl⟩

/-- the driver's check `decl-unique` establishes the hypothesis `DeclUnique` -/
theorem declUnique_of_check {g : G} (h : declUniqueB g = true) : DeclUnique g := by
  intro A B cA cB s hA hB hdA hdB
  have h1 : (s, A) ∈ allDeclared g := mem_allDeclared.mpr ⟨cA, hA, hdA⟩
  have h2 : (s, B) ∈ allDeclared g := mem_allDeclared.mpr ⟨cB, hB, hdB⟩
  simp only [declUniqueB, List.all_eq_true] at h
  have := h _ h1 _ h2
  simpa using this

/-- the driver's check `nonjs-chunk` establishes the hypothesis `NonJSDeclareNothing` -/
theorem nonJS_of_check {g : G} (h : nonJSChunksB g = true) : NonJSDeclareNothing g := by
  intro c hc hj s ⟨f, p, ⟨src, hsrc, hf, hjs, _, _⟩, _⟩
  simp only [nonJSChunksB, List.all_eq_true, Bool.or_eq_true] at h
  rcases h c hc with h | h
  · simp [hj] at h
  · have := h src hsrc
    simp [hf, hjs] at this

end EsbuildModel.CrossChunk
