import EsbuildModel.Impl.StdioAsync
/-!
Helper lemmas for Props/C20Async.lean: how the helper functions of the model act on each field of the state, and an
induction principle over runs.
-/
namespace EsbuildModel.StdioAsync
set_option linter.unusedSimpArgs false

/-- states reachable from the initial state by any interleaving -/
def Reach (s : State) : Prop := ∃ pings as, run (init pings) as = some s

theorem run_append (s : State) (as bs : List Action) :
    run s (as ++ bs) = (run s as).bind (fun s' => run s' bs) := by
  induction as generalizing s with
  | nil => simp [run]
  | cons a as ih =>
    simp only [List.cons_append, run]
    cases step s a with
    | none => simp
    | some s1 => simpa using ih s1

theorem run_induction (P : State → Prop) (h0 : ∀ pings, P (init pings))
    (hstep : ∀ s a s', P s → step s a = some s' → P s') : ∀ s, Reach s → P s := by
  intro s ⟨pings, as, h⟩
  have : ∀ (as : List Action) (s0 s : State), P s0 → run s0 as = some s → P s := by
    intro as
    induction as with
    | nil => intro s0 s hp hr; simp only [run, Option.some.injEq] at hr; subst hr; exact hp
    | cons a as ih =>
      intro s0 s hp hr
      simp only [run] at hr
      cases hst : step s0 a with
      | none => simp [hst] at hr
      | some s1 => rw [hst] at hr; exact ih s1 s (hstep s0 a s1 hp hst) hr
  exact this as _ s (h0 pings) h

theorem Reach.step {s s' : State} {a : Action} (h : Reach s) (hs : step s a = some s') : Reach s' := by
  obtain ⟨p, as, hr⟩ := h
  refine ⟨p, as ++ [a], ?_⟩
  rw [run_append, hr]
  simp [run, hs]

/-! ## field projections of the helpers -/

section proj
variable (s : State)

@[simp] theorem setActive_tasks (a : Active) : (setActive s a).tasks = s.tasks := rfl
@[simp] theorem setActive_pending (a : Active) : (setActive s a).pending = s.pending := rfl
@[simp] theorem setActive_callbacks (a : Active) : (setActive s a).callbacks = s.callbacks := rfl
@[simp] theorem setActive_nextId (a : Active) : (setActive s a).nextId = s.nextId := rfl
@[simp] theorem setActive_writing (a : Active) : (setActive s a).writing = s.writing := rfl
@[simp] theorem setActive_written (a : Active) : (setActive s a).written = s.written := rfl
@[simp] theorem setActive_delivered (a : Active) : (setActive s a).delivered = s.delivered := rfl
@[simp] theorem setActive_stdin (a : Active) : (setActive s a).stdin = s.stdin := rfl
@[simp] theorem setActive_helpers (a : Active) : (setActive s a).helpers = s.helpers := rfl
@[simp] theorem setActive_closed (a : Active) : (setActive s a).closed = s.closed := rfl

@[simp] theorem removeActive_tasks (k : Nat) : (removeActive s k).tasks = s.tasks := rfl
@[simp] theorem removeActive_pending (k : Nat) : (removeActive s k).pending = s.pending := rfl
@[simp] theorem removeActive_callbacks (k : Nat) : (removeActive s k).callbacks = s.callbacks := rfl
@[simp] theorem removeActive_nextId (k : Nat) : (removeActive s k).nextId = s.nextId := rfl
@[simp] theorem removeActive_writing (k : Nat) : (removeActive s k).writing = s.writing := rfl
@[simp] theorem removeActive_written (k : Nat) : (removeActive s k).written = s.written := rfl
@[simp] theorem removeActive_delivered (k : Nat) : (removeActive s k).delivered = s.delivered := rfl
@[simp] theorem removeActive_stdin (k : Nat) : (removeActive s k).stdin = s.stdin := rfl
@[simp] theorem removeActive_helpers (k : Nat) : (removeActive s k).helpers = s.helpers := rfl
@[simp] theorem removeActive_closed (k : Nat) : (removeActive s k).closed = s.closed := rfl

@[simp] theorem panic_tasks : (panic s).tasks = s.tasks := rfl
@[simp] theorem panic_pending : (panic s).pending = s.pending := rfl
@[simp] theorem panic_callbacks : (panic s).callbacks = s.callbacks := rfl
@[simp] theorem panic_nextId : (panic s).nextId = s.nextId := rfl
@[simp] theorem panic_writing : (panic s).writing = s.writing := rfl
@[simp] theorem panic_written : (panic s).written = s.written := rfl
@[simp] theorem panic_delivered : (panic s).delivered = s.delivered := rfl
@[simp] theorem panic_stdin : (panic s).stdin = s.stdin := rfl
@[simp] theorem panic_helpers : (panic s).helpers = s.helpers := rfl
@[simp] theorem panic_closed : (panic s).closed = s.closed := rfl

@[simp] theorem destroy_tasks (k : Nat) : (destroy s k).tasks = s.tasks := by unfold destroy; split <;> rfl
@[simp] theorem destroy_pending (k : Nat) : (destroy s k).pending = s.pending := by unfold destroy; split <;> rfl
@[simp] theorem destroy_callbacks (k : Nat) : (destroy s k).callbacks = s.callbacks := by unfold destroy; split <;> rfl
@[simp] theorem destroy_nextId (k : Nat) : (destroy s k).nextId = s.nextId := by unfold destroy; split <;> rfl
@[simp] theorem destroy_writing (k : Nat) : (destroy s k).writing = s.writing := by unfold destroy; split <;> rfl
@[simp] theorem destroy_written (k : Nat) : (destroy s k).written = s.written := by unfold destroy; split <;> rfl
@[simp] theorem destroy_delivered (k : Nat) : (destroy s k).delivered = s.delivered := by unfold destroy; split <;> rfl
@[simp] theorem destroy_stdin (k : Nat) : (destroy s k).stdin = s.stdin := by unfold destroy; split <;> rfl
@[simp] theorem destroy_helpers (k : Nat) : (destroy s k).helpers = s.helpers := by unfold destroy; split <;> rfl
@[simp] theorem destroy_closed (k : Nat) : (destroy s k).closed = s.closed := by unfold destroy; split <;> rfl

@[simp] theorem addTask_tasks (t : Task) : (addTask s t).tasks = s.tasks ++ [t] := rfl
@[simp] theorem addTask_pending (t : Task) : (addTask s t).pending = s.pending := rfl
@[simp] theorem addTask_callbacks (t : Task) : (addTask s t).callbacks = s.callbacks := rfl
@[simp] theorem addTask_nextId (t : Task) : (addTask s t).nextId = s.nextId := rfl
@[simp] theorem addTask_writing (t : Task) : (addTask s t).writing = s.writing := rfl
@[simp] theorem addTask_written (t : Task) : (addTask s t).written = s.written := rfl
@[simp] theorem addTask_delivered (t : Task) : (addTask s t).delivered = s.delivered := rfl
@[simp] theorem addTask_stdin (t : Task) : (addTask s t).stdin = s.stdin := rfl
@[simp] theorem addTask_helpers (t : Task) : (addTask s t).helpers = s.helpers := rfl
@[simp] theorem addTask_closed (t : Task) : (addTask s t).closed = s.closed := rfl

@[simp] theorem enqueue_tasks (p : Pending) : (enqueue s p).tasks = s.tasks := rfl
@[simp] theorem enqueue_pending (p : Pending) : (enqueue s p).pending = s.pending ++ [p] := rfl
@[simp] theorem enqueue_callbacks (p : Pending) : (enqueue s p).callbacks = s.callbacks := rfl
@[simp] theorem enqueue_nextId (p : Pending) : (enqueue s p).nextId = s.nextId := rfl
@[simp] theorem enqueue_writing (p : Pending) : (enqueue s p).writing = s.writing := rfl
@[simp] theorem enqueue_written (p : Pending) : (enqueue s p).written = s.written := rfl
@[simp] theorem enqueue_delivered (p : Pending) : (enqueue s p).delivered = s.delivered := rfl
@[simp] theorem enqueue_stdin (p : Pending) : (enqueue s p).stdin = s.stdin := rfl
@[simp] theorem enqueue_helpers (p : Pending) : (enqueue s p).helpers = s.helpers := rfl
@[simp] theorem enqueue_closed (p : Pending) : (enqueue s p).closed = s.closed := rfl

@[simp] theorem removeTask_tasks (i : Nat) : (removeTask s i).tasks = s.tasks.eraseP (·.id == i) := rfl
@[simp] theorem removeTask_pending (i : Nat) : (removeTask s i).pending = s.pending := rfl
@[simp] theorem removeTask_callbacks (i : Nat) : (removeTask s i).callbacks = s.callbacks := rfl
@[simp] theorem removeTask_nextId (i : Nat) : (removeTask s i).nextId = s.nextId := rfl
@[simp] theorem removeTask_writing (i : Nat) : (removeTask s i).writing = s.writing := rfl
@[simp] theorem removeTask_written (i : Nat) : (removeTask s i).written = s.written := rfl
@[simp] theorem removeTask_delivered (i : Nat) : (removeTask s i).delivered = s.delivered := rfl
@[simp] theorem removeTask_stdin (i : Nat) : (removeTask s i).stdin = s.stdin := rfl
@[simp] theorem removeTask_helpers (i : Nat) : (removeTask s i).helpers = s.helpers := rfl
@[simp] theorem removeTask_closed (i : Nat) : (removeTask s i).closed = s.closed := rfl

end proj

/-! ## shapes: what a delivered request and a finishing handler do to the packet-level fields -/

/-- `s1` differs from `s` at most in the table of active builds, the group counter and the panic flag -/
structure Same (s s1 : State) : Prop where
  stdin : s1.stdin = s.stdin
  closed : s1.closed = s.closed
  delivered : s1.delivered = s.delivered
  tasks : s1.tasks = s.tasks
  callbacks : s1.callbacks = s.callbacks
  nextId : s1.nextId = s.nextId
  helpers : s1.helpers = s.helpers
  pending : s1.pending = s.pending
  writing : s1.writing = s.writing
  written : s1.written = s.written

theorem Same.rfl' (s : State) : Same s s := ⟨rfl, rfl, rfl, rfl, rfl, rfl, rfl, rfl, rfl, rfl⟩
theorem same_setActive (s : State) (a : Active) : Same s (setActive s a) := ⟨rfl, rfl, rfl, rfl, rfl, rfl, rfl, rfl, rfl, rfl⟩
theorem same_panic (s : State) : Same s (panic s) := ⟨rfl, rfl, rfl, rfl, rfl, rfl, rfl, rfl, rfl, rfl⟩
theorem same_destroy (s : State) (k : Nat) : Same s (destroy s k) := by
  constructor <;> simp
theorem same_setActive_group (s : State) (a : Active) (g : Nat) :
    Same s { setActive s a with nextGroup := g } := ⟨rfl, rfl, rfl, rfl, rfl, rfl, rfl, rfl, rfl, rfl⟩

/-- the commands whose handler registers with the build's disposeWaitGroup unconditionally -/
def waits3 : Cmd → Bool
  | .rebuild | .watch | .serve => true
  | _ => false

/-- a delivered request either spawns one handler for it or makes the reader answer it -/
theorem deliverRequest_shape (s : State) (id : Nat) (cmd : Cmd) (key : Nat) :
    ∃ s1, Same s s1 ∧
      ((∃ t : Task, t.id = id ∧ t.cmd = cmd ∧ t.key = key ∧ (waits3 cmd = true → t.hold = true) ∧
          deliverRequest s id cmd key = addTask s1 t) ∨
       (∃ tag, (waits3 cmd = true → tag = 1) ∧ deliverRequest s id cmd key = syncReply s1 id tag)) := by
  unfold deliverRequest
  cases cmd with
  | simple => exact ⟨s, Same.rfl' s, .inl ⟨_, rfl, rfl, rfl, by simp [waits3, mkTask], rfl⟩⟩
  | invalid => exact ⟨s, Same.rfl' s, .inr ⟨_, by simp [waits3], rfl⟩⟩
  | build c p => exact ⟨s, Same.rfl' s, .inl ⟨_, rfl, rfl, rfl, by simp [waits3, mkTask], rfl⟩⟩
  | resolve =>
    simp only
    split
    · split
      · exact ⟨s, Same.rfl' s, .inl ⟨_, rfl, rfl, rfl, by simp [waits3, mkTask], rfl⟩⟩
      · exact ⟨s, Same.rfl' s, .inr ⟨_, by simp [waits3], rfl⟩⟩
    · exact ⟨s, Same.rfl' s, .inr ⟨_, by simp [waits3], rfl⟩⟩
  | rebuild =>
    simp only
    split
    · split
      · split
        · exact ⟨_, same_setActive s _, .inl ⟨_, rfl, rfl, rfl, by simp [waits3, mkTask], rfl⟩⟩
        · exact ⟨_, same_setActive_group s _ _, .inl ⟨_, rfl, rfl, rfl, by simp [waits3, mkTask], rfl⟩⟩
      · exact ⟨s, Same.rfl' s, .inr ⟨_, by simp [waits3], rfl⟩⟩
    · exact ⟨s, Same.rfl' s, .inr ⟨_, by simp [waits3], rfl⟩⟩
  | watch =>
    simp only
    split
    · split
      · exact ⟨_, same_setActive s _, .inl ⟨_, rfl, rfl, rfl, by simp [waits3, mkTask], rfl⟩⟩
      · exact ⟨s, Same.rfl' s, .inr ⟨_, by simp [waits3], rfl⟩⟩
    · exact ⟨s, Same.rfl' s, .inr ⟨_, by simp [waits3], rfl⟩⟩
  | serve =>
    simp only
    split
    · split
      · exact ⟨_, same_setActive s _, .inl ⟨_, rfl, rfl, rfl, by simp [waits3, mkTask], rfl⟩⟩
      · exact ⟨s, Same.rfl' s, .inr ⟨_, by simp [waits3], rfl⟩⟩
    · exact ⟨s, Same.rfl' s, .inr ⟨_, by simp [waits3], rfl⟩⟩
  | cancel =>
    simp only
    split
    · split
      · exact ⟨_, same_setActive s _, .inl ⟨_, rfl, rfl, rfl, by simp [waits3, mkTask], rfl⟩⟩
      · exact ⟨_, same_setActive s _, .inr ⟨_, by simp [waits3], rfl⟩⟩
    · exact ⟨s, Same.rfl' s, .inr ⟨_, by simp [waits3], rfl⟩⟩
  | dispose =>
    simp only
    split
    · split
      · exact ⟨_, same_setActive s _, .inl ⟨_, rfl, rfl, rfl, by simp [waits3, mkTask], rfl⟩⟩
      · exact ⟨s, Same.rfl' s, .inr ⟨_, by simp [waits3], rfl⟩⟩
    · exact ⟨s, Same.rfl' s, .inr ⟨_, by simp [waits3], rfl⟩⟩

/-- a handler that reaches its final sendPacket had no request to the host outstanding, leaves the handler table
and hands exactly one response carrying its request's id to the writer's queue -/
theorem finishTask_shape (s s' : State) (t : Task) (ok : Bool) (h : finishTask s t ok = some s') :
    outstanding s t.id = 0 ∧ ∃ s1 hold, Same s s1 ∧ (waits3 t.cmd = true → hold = some t.key) ∧ s' = reply s1 t hold := by
  unfold finishTask at h
  split at h
  · cases h
  · rename_i hout
    refine ⟨by simpa using hout, ?_⟩
    cases hc : t.cmd <;> simp only [hc] at h
    case simple => exact ⟨s, _, Same.rfl' s, by simp [hc, waits3], by simpa using h.symm⟩
    case invalid => exact ⟨s, _, Same.rfl' s, by simp [hc, waits3], by simpa using h.symm⟩
    case build c p =>
      split at h
      · exact ⟨s, _, Same.rfl' s, by simp [hc, waits3], by simpa using h.symm⟩
      · split at h
        · split at h
          · exact ⟨_, _, same_setActive s _, by simp [hc, waits3], by simpa using h.symm⟩
          · cases h
        · exact ⟨_, _, same_destroy s _, by simp [hc, waits3], by simpa using h.symm⟩
    case resolve => exact ⟨s, _, Same.rfl' s, by simp [hc, waits3], by simpa using h.symm⟩
    case rebuild =>
      simp only [Option.some.injEq] at h
      split at h
      · split at h
        · exact ⟨_, _, same_setActive s _, by simp [hc, waits3], h.symm⟩
        · exact ⟨_, _, same_setActive s _, by simp [hc, waits3], h.symm⟩
      · exact ⟨s, _, Same.rfl' s, by simp [hc, waits3], h.symm⟩
    case watch => exact ⟨s, some t.key, Same.rfl' s, fun _ => rfl, by simpa using h.symm⟩
    case serve => exact ⟨s, some t.key, Same.rfl' s, fun _ => rfl, by simpa using h.symm⟩
    case cancel =>
      split at h
      · cases h
      · exact ⟨s, _, Same.rfl' s, by simp [hc, waits3], by simpa using h.symm⟩
    case dispose =>
      split at h
      · cases h
      · exact ⟨_, _, same_destroy s _, by simp [hc, waits3], by simpa using h.symm⟩


/-! ## every step, seen at packet level -/

def takeSel (isRequest : Bool) (id : Nat) (p : Pending) : Bool := p.pkt.isRequest == isRequest && p.pkt.id == id

/-- `sendRequest` up to the blocking sendPacket -/
def svcSend (s : State) (owner : Option Nat) (tag key : Nat) : State :=
  { s with callbacks := s.callbacks ++ [⟨s.nextId, owner, key⟩], nextId := s.nextId + 1,
           pending := s.pending ++ [⟨⟨true, s.nextId, tag, key⟩, false, none⟩] }

def isBuildCmd : Cmd → Bool
  | .build _ _ => true
  | _ => false

/-- what the host writes in one action -/
def hostWrote : Action → List HostPkt
  | .hostSend p => [p]
  | .hostAnswer id => [.response id]
  | _ => []

/-- `Shape s w s'`: one step from `s` to `s'` in which the host wrote the packets `w` -/
inductive Shape (s : State) : List HostPkt → State → Prop where
  | hostWrite (p : HostPkt) : Shape s [p] { s with stdin := s.stdin ++ [p] }
  | close : Shape s [] { s with closed := true }
  | garbage (rest : List HostPkt) : s.stdin = .garbage :: rest →
      Shape s [] { s with stdin := rest, delivered := s.delivered ++ [.garbage] }
  | answer (id : Nat) (rest : List HostPkt) (c : Callback) : s.stdin = .response id :: rest →
      s.callbacks.find? (·.id == id) = some c →
      Shape s [] ({ s with stdin := rest, delivered := s.delivered ++ [.response id],
                           callbacks := s.callbacks.eraseP (·.id == id) })
  | stale (id : Nat) (rest : List HostPkt) : s.stdin = .response id :: rest →
      s.callbacks.find? (·.id == id) = none →
      Shape s [] (panic { s with stdin := rest, delivered := s.delivered ++ [.response id] })
  | spawn (id : Nat) (cmd : Cmd) (key : Nat) (rest : List HostPkt) (s1 : State) (t : Task) :
      s.stdin = .request id cmd key :: rest →
      Same { s with stdin := rest, delivered := s.delivered ++ [.request id cmd key] } s1 →
      t.id = id → t.cmd = cmd → t.key = key → (waits3 cmd = true → t.hold = true) → Shape s [] (addTask s1 t)
  | refuse (id : Nat) (cmd : Cmd) (key : Nat) (rest : List HostPkt) (s1 : State) (tag : Nat) :
      s.stdin = .request id cmd key :: rest →
      Same { s with stdin := rest, delivered := s.delivered ++ [.request id cmd key] } s1 →
      (waits3 cmd = true → tag = 1) → Shape s [] (syncReply s1 id tag)
  | started (t : Task) (a : Active) : findTask s t.id = some t → t.started = false → isBuildCmd t.cmd = true →
      findActive s t.key = none → a.key = t.key → a.ctx = false →
      Shape s [] ({ s with actives := s.actives ++ [a], tasks := setStarted t.id s.tasks })
  | dupKey (t : Task) (a : Active) : findTask s t.id = some t → t.started = false → isBuildCmd t.cmd = true →
      findActive s t.key = some a → Shape s [] (panic s)
  | finish (t : Task) (s1 : State) (hold : Option Nat) : findTask s t.id = some t → outstanding s t.id = 0 →
      Same s s1 → (waits3 t.cmd = true → hold = some t.key) → Shape s [] (reply s1 t hold)
  | svcReq (owner : Option Nat) (tag key : Nat) : Shape s [] (svcSend s owner tag key)
  | take (isRequest : Bool) (id : Nat) (p : Pending) : s.writing = none →
      s.pending.find? (takeSel isRequest id) = some p →
      Shape s [] { s with writing := some p.pkt, pending := s.pending.eraseP (takeSel isRequest id) }
  | writeDone (p : OutPkt) : s.writing = some p →
      Shape s [] { s with writing := none, written := s.written ++ [p] }
  | helpers (hs : List Nat) : Shape s [] { s with helpers := hs }

theorem findTask_id {s : State} {tid : Nat} {t : Task} (h : findTask s tid = some t) : t.id = tid := by
  have := List.find?_some h
  simpa using this

theorem step_shape (s s' : State) (a : Action) (h : step s a = some s') : Shape s (hostWrote a) s' := by
  unfold step at h
  split at h
  · cases h
  cases a with
  | hostSend p =>
    simp only at h
    split at h
    · cases h
    · cases h; exact .hostWrite p
  | hostAnswer id =>
    simp only at h
    split at h
    · cases h
    · split at h
      · cases h; exact .hostWrite _
      · cases h
  | close =>
    simp only at h
    split at h
    · cases h
    · cases h; exact .close
  | deliver =>
    simp only at h
    split at h
    · cases h
    · split at h
      · cases h
      · rename_i p rest hst
        cases p with
        | garbage => simp only [Option.some.injEq] at h; subst h; exact .garbage rest hst
        | response id =>
          simp only at h
          split at h
          · rename_i c hf
            simp only [Option.some.injEq] at h; subst h
            exact .answer id rest c hst hf
          · rename_i hf
            simp only [Option.some.injEq] at h; subst h
            exact .stale id rest hst hf
        | request id cmd key =>
          simp only [Option.some.injEq] at h; subst h
          obtain ⟨s1, hsame, hcase⟩ :=
            deliverRequest_shape { s with stdin := rest, delivered := s.delivered ++ [.request id cmd key] } id cmd key
          rcases hcase with ⟨t, h1, h2, h3, h4, h5⟩ | ⟨tag, h1, h2⟩
          · rw [h5]; exact .spawn id cmd key rest s1 t hst hsame h1 h2 h3 h4
          · rw [h2]; exact .refuse id cmd key rest s1 tag hst hsame h1
  | start tid =>
    simp only at h
    split at h
    · rename_i t ht
      have hid := findTask_id ht
      split at h
      · rename_i c pl hc
        split at h
        · cases h
        · rename_i hst
          have hst' : t.started = false := by simpa using hst
          split at h
          · rename_i a ha
            cases h
            exact .dupKey t a (by rw [hid]; exact ht) hst' (by simp [hc, isBuildCmd]) ha
          · rename_i ha
            cases h
            rw [← hid]
            exact .started t _ (by rw [hid]; exact ht) hst' (by simp [hc, isBuildCmd]) ha rfl rfl
      · cases h
    · cases h
  | finish tid ok =>
    simp only at h
    split at h
    · rename_i t ht
      have hid := findTask_id ht
      obtain ⟨hout, s1, hold, hsame, hh, rfl⟩ := finishTask_shape s s' t ok h
      exact .finish t s1 hold (by rw [hid]; exact ht) hout hsame hh
    · cases h
  | svcReq owner tag key =>
    simp only at h
    repeat' split at h
    all_goals first
      | (cases h; done)
      | (simp only [Option.some.injEq] at h; subst h; exact .svcReq _ tag key)
  | take isRequest id =>
    simp only at h
    split at h
    · cases h
    · rename_i hw
      split at h
      · rename_i p hp
        cases h
        exact .take isRequest id p hw hp
      · cases h
  | writeDone =>
    simp only at h
    split at h
    · rename_i p hw
      cases h; exact .writeDone p hw
    · cases h
  | startCancel tid =>
    simp only at h
    repeat' split at h
    all_goals first
      | (cases h; done)
      | (cases h; exact .helpers _)
  | helperDone g =>
    simp only at h
    split at h
    · cases h; exact .helpers _
    · cases h


/-! ## `setStarted` -/

theorem setStarted_length (tid : Nat) : ∀ l : List Task, (setStarted tid l).length = l.length
  | [] => rfl
  | t :: ts => by
    unfold setStarted
    split
    · rfl
    · simp [setStarted_length tid ts]

/-- `setStarted` changes nothing but the `started` flag: any count over the other fields is unchanged -/
theorem countP_setStarted (tid : Nat) (q : Task → Bool) (hq : ∀ t : Task, q { t with started := true } = q t) :
    ∀ l : List Task, (setStarted tid l).countP q = l.countP q
  | [] => rfl
  | t :: ts => by
    unfold setStarted
    split
    · simp [List.countP_cons, hq]
    · simp [List.countP_cons, countP_setStarted tid q hq ts]

theorem mem_setStarted (tid : Nat) : ∀ (l : List Task) (u : Task), u ∈ l →
    ∃ u' ∈ setStarted tid l, u'.id = u.id ∧ u'.key = u.key ∧ u'.hold = u.hold ∧ u'.cmd = u.cmd ∧ u'.group = u.group
  | [], _, h => by cases h
  | t :: ts, u, h => by
    unfold setStarted
    rcases List.mem_cons.1 h with rfl | h
    · split
      · exact ⟨_, List.mem_cons_self .., rfl, rfl, rfl, rfl, rfl⟩
      · exact ⟨u, List.mem_cons_self .., rfl, rfl, rfl, rfl, rfl⟩
    · split
      · exact ⟨u, List.mem_cons_of_mem _ h, rfl, rfl, rfl, rfl, rfl⟩
      · obtain ⟨u', h1, h2⟩ := mem_setStarted tid ts u h
        exact ⟨u', List.mem_cons_of_mem _ h1, h2⟩

end EsbuildModel.StdioAsync
