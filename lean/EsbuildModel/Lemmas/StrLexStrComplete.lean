import EsbuildModel.Lemmas.StrLexEsc
import EsbuildModel.Lemmas.StrLexScan
/-! Completeness for string literals: every valid derivation is scanned as one token and decoded to its SV. -/
namespace EsbuildModel.StrLex
open EsbuildModel.Spec.StrLit
open EsbuildModel.Spec.JsString (hexVal? utf16)

/-- the characters that can follow the characters of a literal: a quote, or the `$` of `${` -/
def IsCloser (c : Nat) : Prop := c = 34 ∨ c = 39 ∨ c = 96 ∨ c = 36

theorem StrChar.ok_close (q : Nat) (x : StrChar) (q0 : Nat) (h0 : IsCloser q0) : x.ok q (some q0) = x.ok q none := by
  rcases h0 with rfl | rfl | rfl | rfl <;> cases x with
  | plain c => rfl
  | esc e => cases e <;> simp [StrChar.ok, CEsc.look, lookNot, isDecimalDigit]
  | octal o => cases o <;> simp [StrChar.ok, LegacyOctal.look, lookNot, lookIn, isOctalDigit]
  | nonOctal c => rfl
  | cont l => cases l <;> simp [StrChar.ok, LTS.look, lookNot]

theorem head?_append_closer (l close : List Nat) :
    (l ++ close).head? = l.head? ∨ (l = [] ∧ (l ++ close).head? = close.head?) := by
  cases l with
  | nil => right; simp
  | cons a l => left; simp

/-- the lookahead at the Go side (end of the decoded text = no character) agrees with the grammar's lookahead (the
closing delimiter follows) -/
theorem StrChar.ok_local (q : Nat) (x : StrChar) (l close : List Nat) (q0 : Nat) (hc : close.head? = some q0) (h0 : IsCloser q0) :
    x.ok q (l ++ close).head? = x.ok q l.head? := by
  rcases head?_append_closer l close with h | ⟨rfl, h⟩
  · rw [h]
  · rw [h, hc, StrChar.ok_close q x q0 h0]; rfl

theorem step_strChar (q : Nat) (x : StrChar) (rest : List Nat) (hok : x.ok q rest.head? = true) :
    ∃ c t', x.render = c :: t' ∧ step true c (t' ++ rest) = .emit x.sv (t'.length + 1) x.isLegacy := by
  cases x with
  | plain c =>
    simp only [StrChar.ok, Bool.and_eq_true, bne_iff_ne, ne_eq, isSourceChar, decide_eq_true_eq] at hok
    obtain ⟨⟨⟨⟨h0, _⟩, h92⟩, h10⟩, h13⟩ := hok
    exact ⟨c, [], rfl, by simp [step, h92, h13, encodeRune_eq c h0, StrChar.sv, StrChar.isLegacy]⟩
  | esc e =>
    simp only [StrChar.ok, Bool.and_eq_true] at hok
    refine ⟨92, e.render, rfl, ?_⟩
    simp [step, escape_cesc true e rest hok.1 hok.2, StrChar.sv, StrChar.isLegacy]
  | octal o =>
    simp only [StrChar.ok, Bool.and_eq_true] at hok
    refine ⟨92, o.render, rfl, ?_⟩
    simp [step, escape_octal o rest hok.1 hok.2, StrChar.sv, StrChar.isLegacy]
  | nonOctal c =>
    simp only [StrChar.ok, Bool.or_eq_true, decide_eq_true_eq] at hok
    refine ⟨92, [c], rfl, ?_⟩
    simp [step, escape_nonOctal c rest hok, StrChar.sv, StrChar.isLegacy]
  | cont l =>
    simp only [StrChar.ok] at hok
    refine ⟨92, l.render, rfl, ?_⟩
    simp [step, escape_cont true l rest hok, StrChar.sv, StrChar.isLegacy]

/-- the value left in LegacyOctalLoc: the position of the last legacy escape -/
def legacyPos : List StrChar → Nat → Option Nat
  | [], _ => none
  | x :: xs, i => legacyPos xs (i + x.render.length) <|> (if x.isLegacy then some i else none)

theorem legacyPos_isSome (ds : List StrChar) (i : Nat) : (legacyPos ds i).isSome = ds.any StrChar.isLegacy := by
  induction ds generalizing i with
  | nil => rfl
  | cons x xs ih =>
    simp only [legacyPos, List.any_cons]
    cases h1 : legacyPos xs (i + x.render.length) with
    | none =>
      have := ih (i + x.render.length); rw [h1] at this
      cases hx : x.isLegacy <;> simp [← this]
    | some p =>
      have := ih (i + x.render.length); rw [h1] at this
      simp [← this]

theorem decode_chars (q : Nat) (close : List Nat) (q0 : Nat) (hc : close.head? = some q0) (h0 : IsCloser q0)
    (ds : List StrChar) (hok : charsOK q close ds = true) (i : Nat) :
    decodeLoop true (renderChars ds) 0 i = .ok (svChars ds) (legacyPos ds i) := by
  induction ds generalizing i with
  | nil => rfl
  | cons x xs ih =>
    simp only [charsOK, Bool.and_eq_true] at hok
    rw [StrChar.ok_local q x _ close q0 hc h0] at hok
    obtain ⟨c, t', hr, hs⟩ := step_strChar q x (renderChars xs) hok.1
    have := decodeLoop_emit true c t' (renderChars xs) _ _ i hs
    simp only [renderChars, hr, svChars, legacyPos]
    rw [this, ih hok.2]
    simp [Dec.prepend, List.length_cons]

/-! ### the scanning loop on rendered derivations -/

/-- characters the scanning loop treats as ordinary text in every kind of literal -/
def Inert (c : Nat) : Prop := c ≠ 92 ∧ c ≠ 13 ∧ c ≠ 10 ∧ c ≠ 34 ∧ c ≠ 39 ∧ c ≠ 96 ∧ c ≠ 36

theorem bodyOK_inert (q : Nat) (tpl : Bool) (hq : q = 34 ∨ q = 39 ∨ q = 96) (xs rest : List Nat) (h : ∀ c ∈ xs, Inert c) :
    bodyOK q tpl (xs ++ rest) = bodyOK q tpl rest := by
  induction xs with
  | nil => rfl
  | cons c r ih =>
    obtain ⟨h1, h2, h3, h4, h5, h6, h7⟩ := h c (by simp)
    rw [List.cons_append, bodyOK_plain _ _ _ _ h1 h2 h3 (by simp [h7]), ih (fun x hx => h x (by simp [hx]))]
    have : c ≠ q := by omega
    simp [this]

/-- an escape that is not a line continuation: the backslash, one character that is not CR, then inert characters -/
theorem bodyOK_esc (q : Nat) (tpl : Bool) (hq : q = 34 ∨ q = 39 ∨ q = 96) (c2 : Nat) (xs rest : List Nat) (hc2 : c2 ≠ 13)
    (h : ∀ c ∈ xs, Inert c) : bodyOK q tpl (92 :: c2 :: xs ++ rest) = bodyOK q tpl rest := by
  rw [List.cons_append, List.cons_append, bodyOK_bs _ _ _ _ hc2, bodyOK_inert q tpl hq xs rest h]

theorem hexDigit_inert {c : Nat} (h : isHexDigit c = true) : Inert c := by
  obtain ⟨d, hd, _⟩ := (isHexDigit_iff c).1 h
  have := hexVal_range hd
  have h2 : c ≠ 92 ∧ c ≠ 96 := by
    unfold hexVal at hd
    constructor <;> (rintro rfl; simp at hd)
  unfold Inert; omega

theorem inert_of_range {c : Nat} (h : 48 ≤ c ∧ c ≤ 57) : Inert c := by unfold Inert; omega

theorem CEsc.shape {e : CEsc} (h : e.wf = true) : ∃ c2 xs, e.render = c2 :: xs ∧ c2 ≠ 13 ∧ ∀ c ∈ xs, Inert c := by
  cases e with
  | single c =>
    refine ⟨c, [], rfl, ?_, by simp⟩
    rcases singleEscape_cases h with rfl | rfl | rfl | rfl | rfl | rfl | rfl | rfl | rfl <;> omega
  | nonEsc c => exact ⟨c, [], rfl, (nonEscape_facts h).2.2.2.2.2.2.2.2.2.2.2.2.2.2.1, by simp⟩
  | nul => exact ⟨48, [], rfl, by omega, by simp⟩
  | hex a b =>
    simp only [CEsc.wf, Bool.and_eq_true] at h
    refine ⟨120, [a, b], rfl, by omega, ?_⟩
    intro c hc; simp at hc; rcases hc with rfl | rfl
    · exact hexDigit_inert h.1
    · exact hexDigit_inert h.2
  | u4 a b c d =>
    simp only [CEsc.wf, Bool.and_eq_true] at h
    refine ⟨117, [a, b, c, d], rfl, by omega, ?_⟩
    intro x hx; simp at hx; rcases hx with rfl | rfl | rfl | rfl
    · exact hexDigit_inert h.1.1.1
    · exact hexDigit_inert h.1.1.2
    · exact hexDigit_inert h.1.2
    · exact hexDigit_inert h.2
  | uBrace ds =>
    simp only [CEsc.wf, Bool.and_eq_true, List.all_eq_true] at h
    refine ⟨117, 123 :: (ds ++ [125]), rfl, by omega, ?_⟩
    intro x hx; simp at hx; rcases hx with rfl | hx | rfl
    · unfold Inert; omega
    · exact hexDigit_inert (h.1.2 x hx)
    · unfold Inert; omega

theorem LegacyOctal.shape {o : LegacyOctal} (h : o.wf = true) : ∃ c2 xs, o.render = c2 :: xs ∧ c2 ≠ 13 ∧ ∀ c ∈ xs, Inert c := by
  cases o with
  | zero89 => exact ⟨48, [], rfl, by omega, by simp⟩
  | one a =>
    simp only [LegacyOctal.wf, Bool.and_eq_true, decide_eq_true_eq] at h
    exact ⟨a, [], rfl, by omega, by simp⟩
  | two03 a b =>
    simp only [LegacyOctal.wf, Bool.and_eq_true, decide_eq_true_eq, isOctalDigit_iff] at h
    exact ⟨a, [b], rfl, by omega, by intro c hc; simp at hc; subst hc; exact inert_of_range (by omega)⟩
  | two47 a b =>
    simp only [LegacyOctal.wf, Bool.and_eq_true, decide_eq_true_eq, isOctalDigit_iff] at h
    exact ⟨a, [b], rfl, by omega, by intro c hc; simp at hc; subst hc; exact inert_of_range (by omega)⟩
  | three a b c =>
    simp only [LegacyOctal.wf, Bool.and_eq_true, decide_eq_true_eq, isOctalDigit_iff] at h
    refine ⟨a, [b, c], rfl, by omega, ?_⟩
    intro x hx; simp at hx; rcases hx with rfl | rfl <;> exact inert_of_range (by omega)

/-- a line continuation is walked over as one round -/
theorem bodyOK_cont (q : Nat) (tpl : Bool) (l : LTS) (rest : List Nat) (hlook : l.look rest.head? = true) :
    bodyOK q tpl (92 :: l.render ++ rest) = bodyOK q tpl rest := by
  cases l with
  | lf => exact bodyOK_bs _ _ _ _ (by omega)
  | ls => exact bodyOK_bs _ _ _ _ (by omega)
  | ps => exact bodyOK_bs _ _ _ _ (by omega)
  | crlf => exact bodyOK_bs_cr_lf _ _ _
  | cr =>
    cases rest with
    | nil => rw [bodyOK.eq_def]; simp [LTS.render]; rw [bodyOK.eq_def]
    | cons c r =>
      have : c ≠ 10 := by simpa [LTS.look, lookNot] using hlook
      exact bodyOK_bs_cr _ _ _ _ this

theorem bodyOK_strChar (q : Nat) (hq : q = 34 ∨ q = 39) (x : StrChar) (rest : List Nat) (hok : x.ok q rest.head? = true) :
    bodyOK q false (x.render ++ rest) = bodyOK q false rest := by
  have hq' : q = 34 ∨ q = 39 ∨ q = 96 := by omega
  cases x with
  | plain c =>
    simp only [StrChar.ok, Bool.and_eq_true, bne_iff_ne, ne_eq] at hok
    obtain ⟨⟨⟨⟨_, hcq⟩, h92⟩, h10⟩, h13⟩ := hok
    show bodyOK q false (c :: rest) = _
    rw [bodyOK_plain _ _ _ _ h92 h13 h10 (by simp)]; simp [hcq]
  | esc e =>
    simp only [StrChar.ok, Bool.and_eq_true] at hok
    obtain ⟨c2, xs, hr, hc2, hin⟩ := CEsc.shape hok.1
    simp only [StrChar.render, hr]
    exact bodyOK_esc q false hq' c2 xs rest hc2 hin
  | octal o =>
    simp only [StrChar.ok, Bool.and_eq_true] at hok
    obtain ⟨c2, xs, hr, hc2, hin⟩ := LegacyOctal.shape hok.1
    simp only [StrChar.render, hr]
    exact bodyOK_esc q false hq' c2 xs rest hc2 hin
  | nonOctal c =>
    simp only [StrChar.ok, Bool.or_eq_true, decide_eq_true_eq] at hok
    exact bodyOK_esc q false hq' c [] rest (by omega) (by simp)
  | cont l => exact bodyOK_cont q false l rest hok

theorem bodyOK_chars (q : Nat) (hq : q = 34 ∨ q = 39) (close : List Nat) (q0 : Nat) (hc : close.head? = some q0)
    (h0 : IsCloser q0) (ds : List StrChar) (hok : charsOK q close ds = true) : bodyOK q false (renderChars ds) = true := by
  induction ds with
  | nil => rfl
  | cons x xs ih =>
    simp only [charsOK, Bool.and_eq_true] at hok
    rw [StrChar.ok_local q x _ close q0 hc h0] at hok
    simp only [renderChars]
    rw [bodyOK_strChar q hq x _ hok.1]
    exact ih hok.2

theorem slowBody_append (a b : List Nat) : slowBody (a ++ b) = (slowBody a || slowBody b) := by
  simp [slowBody, List.any_append]

/-- fast path: a literal without backslash, CR and non-ASCII characters is its own value -/
theorem fast_chars (q : Nat) (close : List Nat) (ds : List StrChar) (hok : charsOK q close ds = true)
    (hs : slowBody (renderChars ds) = false) : svChars ds = renderChars ds ∧ ds.any StrChar.isLegacy = false := by
  induction ds with
  | nil => exact ⟨rfl, rfl⟩
  | cons x xs ih =>
    simp only [charsOK, Bool.and_eq_true] at hok
    simp only [renderChars, slowBody_append, Bool.or_eq_false_iff] at hs
    obtain ⟨i1, i2⟩ := ih hok.2 hs.2
    cases x with
    | plain c =>
      have hc : c < 128 := by have := hs.1; simp [slowBody, StrChar.render] at this; exact this.2
      simp [svChars, renderChars, StrChar.sv, StrChar.render, i1, i2, StrChar.isLegacy, utf16_small c (by omega)]
    | esc e => simp [slowBody, StrChar.render] at hs
    | octal o => simp [slowBody, StrChar.render] at hs
    | nonOctal c => simp [slowBody, StrChar.render] at hs
    | cont l => simp [slowBody, StrChar.render] at hs

theorem lexToken_string (l : StringLit) (rest : List Nat) (hv : l.valid = true) :
    lexToken false (l.render ++ rest) = .tok ⟨.str, renderChars l.chars, 1, slowBody (renderChars l.chars)⟩ := by
  simp only [StringLit.valid, Bool.and_eq_true, Bool.or_eq_true, decide_eq_true_eq] at hv
  obtain ⟨hq, hok⟩ := hv
  have hq3 : l.quote = 34 ∨ l.quote = 39 ∨ l.quote = 96 := by omega
  have hb := bodyOK_chars l.quote hq [l.quote] l.quote rfl (by unfold IsCloser; omega) l.chars hok
  have h96 : decide (l.quote = 96) = false := by simp; omega
  have hscan := scan_complete l.quote false (l.quote :: rest) _ 1 hq3 (Closing.quote rest) _ (renderChars l.chars) 0 false
    (Nat.le_refl _) (by rw [h96]; exact hb)
  have hk : (if l.quote ≠ 96 then Kind.str else if false = true then Kind.tail else Kind.noSubst) = Kind.str := by
    rw [if_pos (by omega)]
  rw [hk] at hscan
  have hcond : ((false && l.quote == 125) || (!false && (l.quote == 39 || l.quote == 34 || l.quote == 96))) = true := by
    rcases hq with h | h <;> simp [h]
  simp only [StringLit.render, List.cons_append, List.append_assoc, lexToken, hcond, if_true, Bool.false_eq_true, if_false]
  simp only [List.nil_append, hscan, Nat.zero_add, Bool.false_or, List.take_left']

theorem lexValue_string_complete (l : StringLit) (rest : List Nat) (hv : l.valid = true) :
    ∃ leg, lexValue false (l.render ++ rest) = .tok .str l.render.length (some l.sv) [] leg ∧ leg.isSome = l.hasLegacy := by
  have htok := lexToken_string l rest hv
  have hv' := hv
  simp only [StringLit.valid, Bool.and_eq_true, Bool.or_eq_true, decide_eq_true_eq] at hv'
  obtain ⟨hq, hok⟩ := hv'
  have hlen : (Tok.mk Kind.str (renderChars l.chars) 1 (slowBody (renderChars l.chars))).len = l.render.length := by
    simp [Tok.len, StringLit.render]; omega
  cases hs : slowBody (renderChars l.chars) with
  | false =>
    obtain ⟨h1, h2⟩ := fast_chars l.quote [l.quote] l.chars hok hs
    refine ⟨none, ?_, by simp [StringLit.hasLegacy, h2]⟩
    rw [hs] at htok hlen
    simp only [lexValue, htok, Tok.stringLiteral, Bool.false_eq_true, if_false, hlen, StringLit.sv, h1]
  | true =>
    have hd := decode_chars l.quote [l.quote] l.quote rfl (by unfold IsCloser; omega) l.chars hok 0
    refine ⟨(legacyPos l.chars 0).map (1 + ·), ?_, ?_⟩
    · rw [hs] at htok hlen
      simp only [lexValue, htok, Tok.stringLiteral, if_true, decode, hd, hlen, StringLit.sv]
    · rw [Option.isSome_map, legacyPos_isSome]; rfl

end EsbuildModel.StrLex
