import EsbuildModel.Lemmas.CommentIndentSplit
/-!
`CommentTextWithoutIndent` as a whole: the backward loop over the prefix terminates without slicing out of range,
the minimum-indent loop computes `Spec.commonIndent`, the trimming loop never slices out of range, and the routine
equals `Spec.dedent` at the column the backward loop counted.
-/
namespace EsbuildModel.CommentIndent
open EsbuildModel.Wtf8
open EsbuildModel.Spec.CommentIndent

/-! ### white-space prefix of a line -/

theorem wsLen_nil : wsLen [] = 0 := rfl

theorem wsLen_cons_ws (b : Nat) (rest : List Nat) (h : b = 32 ∨ b = 9) : wsLen (b :: rest) = wsLen rest + 1 := by
  have : isWs b = true := by rcases h with rfl | rfl <;> rfl
  simp [wsLen, List.takeWhile, this]

theorem wsLen_cons_other (b : Nat) (rest : List Nat) (h1 : b ≠ 32) (h2 : b ≠ 9) : wsLen (b :: rest) = 0 := by
  have : isWs b = false := by simp [isWs, h1, h2]
  simp [wsLen, List.takeWhile, this]

theorem wsLen_le_length (l : List Nat) : wsLen l ≤ l.length := by
  unfold wsLen
  exact (List.takeWhile_sublist isWs).length_le

theorem lineIndentLoop_eq : ∀ (line : List Nat) (n : Nat), lineIndentLoop 0 line n = n + wsLen line
  | [], n => by simp [lineIndentLoop, wsLen_nil]
  | b :: rest, n => by
    simp only [lineIndentLoop]
    by_cases hws : b = 32 ∨ b = 9
    · have hb : b < 128 := by omega
      rw [dec_ascii b rest hb]
      have : ¬ (b ≠ 32 ∧ b ≠ 9) := by omega
      simp only [this, if_false, Nat.sub_self]
      rw [lineIndentLoop_eq rest (n + 1), wsLen_cons_ws b rest hws]; omega
    · have h1 : (goDecodeRune b rest).1 ≠ 32 := fun h => hws (Or.inl ((dec_lt128 b rest 32 (by omega)).mp h))
      have h2 : (goDecodeRune b rest).1 ≠ 9 := fun h => hws (Or.inr ((dec_lt128 b rest 9 (by omega)).mp h))
      simp only [h1, h2, ne_eq, not_false_eq_true, and_self, if_true]
      rw [wsLen_cons_other b rest (by omega) (by omega)]; rfl

/-- counting RUNES that are space or tab = counting leading space / tab BYTES -/
theorem lineIndent_eq (line : List Nat) : lineIndent line = wsLen line := by
  simp [lineIndent, lineIndentLoop_eq]

theorem minIndent_eq : ∀ (later : List (List Nat)) (indent : Nat), minIndent indent later = commonIndent indent later
  | [], indent => rfl
  | l :: ls, indent => by
    simp only [minIndent, commonIndent, lineIndent_eq]
    rw [minIndent_eq ls]
    congr 1
    by_cases h : indent > wsLen l
    · simp [h]; omega
    · simp [h]; omega

theorem commonIndent_le_col : ∀ (ls : List (List Nat)) (col : Nat), commonIndent col ls ≤ col
  | [], col => Nat.le_refl _
  | l :: ls, col => by
    simp only [commonIndent]
    exact Nat.le_trans (commonIndent_le_col ls _) (Nat.min_le_left _ _)

/-- THE invariant behind `line[indent:]`: the final indent is at most the white-space prefix of every later line -/
theorem commonIndent_le_wsLen : ∀ (ls : List (List Nat)) (col : Nat) (l : List Nat), l ∈ ls → commonIndent col ls ≤ wsLen l
  | [], _, _, h => by cases h
  | m :: ms, col, l, h => by
    simp only [commonIndent]
    rcases List.mem_cons.mp h with rfl | h'
    · exact Nat.le_trans (commonIndent_le_col ms _) (Nat.min_le_right _ _)
    · exact commonIndent_le_wsLen ms _ l h'

/-- it is the LARGEST such number -/
theorem commonIndent_greatest : ∀ (ls : List (List Nat)) (col k : Nat), k ≤ col → (∀ l ∈ ls, k ≤ wsLen l) →
    k ≤ commonIndent col ls
  | [], _, _, h, _ => h
  | m :: ms, col, k, h, hl => by
    simp only [commonIndent]
    exact commonIndent_greatest ms _ k (Nat.le_min.mpr ⟨h, hl m (by simp)⟩) (fun l hl' => hl l (List.mem_cons_of_mem _ hl'))

theorem trimAll_ok : ∀ (ls : List (List Nat)) (k : Nat), (∀ l ∈ ls, k ≤ l.length) →
    trimAll k ls = .ok (ls.map (List.drop k))
  | [], _, _ => rfl
  | l :: ls, k, h => by
    have hl : k ≤ l.length := h l (by simp)
    simp only [trimAll, sliceN_ok l k l.length hl (Nat.le_refl _), List.take_length,
      trimAll_ok ls k (fun m hm => h m (List.mem_cons_of_mem _ hm)), List.map_cons]

theorem joinLines_eq (ls : List (List Nat)) : joinLines ls = joinLF ls := by
  cases ls <;> rfl


/-! ### `utf8.DecodeLastRuneInString` and the backward loop -/

theorem getAt_ok (s : List Nat) (i : Int) (h0 : 0 ≤ i) (h1 : i < s.length) : ∃ b, getAt s i = .ok b := by
  have hlt : i.toNat < s.length := by omega
  refine ⟨s[i.toNat], ?_⟩
  simp [getAt, h0, List.getElem?_eq_getElem hlt]

theorem scanBack_ok (s : List Nat) : ∀ (n : Nat) (start : Int), (n : Int) ≤ start + 1 → start < s.length →
    ∃ r, scanBack s n start = .ok r ∧ start - n ≤ r ∧ r ≤ start
  | 0, start, _, _ => ⟨start, rfl, by omega, by omega⟩
  | n + 1, start, h1, h2 => by
    obtain ⟨b, hb⟩ := getAt_ok s start (by omega) h2
    simp only [scanBack, hb]
    by_cases hr : runeStart b = true
    · simp only [hr, if_true]; exact ⟨start, rfl, by omega, by omega⟩
    · simp only [hr]
      obtain ⟨r, hr1, hr2, hr3⟩ := scanBack_ok s n (start - 1) (by omega) (by omega)
      exact ⟨r, hr1, by omega, by omega⟩

/-- on a non-empty string the backward decoder returns without indexing out of range, with `1 ≤ size ≤ len(s)` -/
theorem decodeLastRune_ok (s : List Nat) (hne : s ≠ []) :
    ∃ c size, decodeLastRune s = .ok (c, size) ∧ 1 ≤ size ∧ size ≤ s.length := by
  have hlen : 1 ≤ s.length := by
    cases s with
    | nil => exact absurd rfl hne
    | cons _ _ => simp
  unfold decodeLastRune
  have h0 : ¬ ((s.length : Int) = 0) := by omega
  simp only [h0, if_false]
  obtain ⟨r, hr⟩ := getAt_ok s ((s.length : Int) - 1) (by omega) (by omega)
  simp only [hr]
  by_cases hasc : r < 0x80
  · simp only [hasc, if_true]; exact ⟨r, 1, rfl, by omega, hlen⟩
  · simp only [hasc, if_false]
    generalize hlim : (if (s.length : Int) - 4 < 0 then (0 : Int) else (s.length : Int) - 4) = lim
    have hlim0 : 0 ≤ lim := by rw [← hlim]; split <;> omega
    have hlim1 : (s.length : Int) - 4 ≤ lim := by rw [← hlim]; split <;> omega
    obtain ⟨st, hst, hst1, hst2⟩ := scanBack_ok s ((s.length : Int) - 2 - lim + 1).toNat ((s.length : Int) - 2)
      (by omega) (by omega)
    simp only [hst]
    generalize hst' : (if st < 0 then (0 : Int) else st) = st'
    have hs0 : 0 ≤ st' := by rw [← hst']; split <;> omega
    have hs1 : st' < s.length := by rw [← hst']; split <;> omega
    have hslice : slice s st' (s.length : Int) = .ok ((s.take s.length).drop st'.toNat) := by
      simp [slice, hs0]; omega
    simp only [hslice, List.take_length]
    have hdl : (s.drop st'.toNat).length = s.length - st'.toNat := List.length_drop
    cases hd : s.drop st'.toNat with
    | nil => rw [hd] at hdl; simp at hdl; omega
    | cons s0 rest =>
      simp only
      by_cases hsz : st' + ((goDecodeRune s0 rest).2 : Int) ≠ (s.length : Int)
      · rw [if_pos hsz]; exact ⟨runeError, 1, rfl, by omega, hlen⟩
      · rw [if_neg hsz]
        have hw := (dec_width s0 rest).1
        exact ⟨(goDecodeRune s0 rest).1, (goDecodeRune s0 rest).2, rfl, hw, by omega⟩

/-- the backward loop returns a count: it neither slices out of range nor spins -/
theorem seekBack_ok : ∀ (fuel : Nat) (pre : List Nat) (indent : Nat), pre.length < fuel →
    ∃ n, seekBack fuel pre indent = .ok n
  | 0, _, _, h => by omega
  | fuel + 1, pre, indent, h => by
    simp only [seekBack]
    by_cases hz : pre.length = 0
    · simp only [hz, if_true]; exact ⟨indent, rfl⟩
    · simp only [hz, if_false]
      have hne : pre ≠ [] := fun e => hz (by rw [e]; rfl)
      obtain ⟨c, size, hd, hs1, hs2⟩ := decodeLastRune_ok pre hne
      simp only [hd]
      by_cases ht : isTermRune c = true
      · simp only [ht, if_true]; exact ⟨indent, rfl⟩
      · have hsz : ¬ size = 0 := by omega
        simp only [ht, hsz, hs2, if_true, if_false]
        rw [sliceN_ok pre 0 (pre.length - size) (Nat.zero_le _) (by omega)]
        simp only [List.drop_zero]
        exact seekBack_ok fuel _ (indent + 1) (by rw [List.length_take]; omega)

/-- the column the routine attributes to the comment: the number of backward decoding steps from the comment to
the previous line terminator (or the start of the file) -/
def column (pre : List Nat) : Nat :=
  match seekBack (pre.length + 1) pre 0 with
  | .ok n => n
  | _ => 0

theorem seekBack_column (pre : List Nat) : seekBack (pre.length + 1) pre 0 = .ok (column pre) := by
  obtain ⟨n, hn⟩ := seekBack_ok (pre.length + 1) pre 0 (by omega)
  simp [column, hn]


/-! ### the routine as a whole -/

/-- `contents[s:e]` -/
def textOf (c : List Nat) (s e : Int) : List Nat := (c.take e.toNat).drop s.toNat

/-- a comment token as far as the routine looks: at least two bytes, the first two are `/*` -/
def StartsComment (text : List Nat) : Prop := ¬ (text.length < 2 ∨ text.take 2 ≠ [0x2F, 0x2A])

instance (text : List Nat) : Decidable (StartsComment text) := by unfold StartsComment; exact inferInstance

/-- the value the routine returns for a range `[s, e)` that lies inside the contents -/
def specResult (c : List Nat) (s e : Int) : List Nat :=
  if StartsComment (textOf c s e) then dedent (column (c.take s.toNat)) (textOf c s e) else textOf c s e

theorem wrap32_id (x : Int) (h0 : -2147483648 ≤ x) (h1 : x < 2147483648) : wrap32 x = x := by
  unfold wrap32; omega

theorem dedent_eq_of_split (col : Nat) (text first : List Nat) (later : List (List Nat))
    (h : Spec.CommentIndent.splitLines text = first :: later) :
    dedent col text = joinLF (first :: later.map (List.drop (commonIndent col later))) := by
  simp [dedent, h, dedentLines]

/-- the whole routine: a range outside the contents panics (the first slice expression), every other call returns
`specResult` — no later slice or index expression can fail and no loop can spin -/
theorem run_eq (c : List Nat) (s n : Int) :
    commentTextWithoutIndent c s n =
      if 0 ≤ s ∧ s ≤ wrap32 (s + n) ∧ wrap32 (s + n) ≤ c.length then .ok (specResult c s (wrap32 (s + n)))
      else .panic := by
  unfold commentTextWithoutIndent
  generalize wrap32 (s + n) = e
  by_cases hr : 0 ≤ s ∧ s ≤ e ∧ e ≤ c.length
  · have h1 : slice c s e = .ok (textOf c s e) := by simp [slice, hr, textOf]
    simp only [hr, and_self, if_true, h1]
    unfold specResult
    by_cases hc : StartsComment (textOf c s e)
    · have hc' := hc
      unfold StartsComment at hc'
      simp only [hc', if_false, hc, if_true]
      have h2 : slice c 0 s = .ok (c.take s.toNat) := by
        have : s ≤ (c.length : Int) := by omega
        simp [slice, hr.1, this]
      simp only [h2, seekBack_column, splitLines_spec]
      cases hsp : Spec.CommentIndent.splitLines (textOf c s e) with
      | nil => exact absurd hsp (splitSkip_ne_nil _ 0)
      | cons first later =>
        simp only [minIndent_eq]
        rw [trimAll_ok later _ (fun l hl =>
          Nat.le_trans (commonIndent_le_wsLen later _ l hl) (wsLen_le_length l))]
        simp only [joinLines_eq, dedent_eq_of_split _ _ _ _ hsp]
    · have hc' := hc
      unfold StartsComment at hc'
      have hc'' : (textOf c s e).length < 2 ∨ (textOf c s e).take 2 ≠ [0x2F, 0x2A] := Classical.not_not.mp hc'
      simp only [hc'', if_true, hc, if_false]
  · simp [slice, hr]

end EsbuildModel.CommentIndent
