import EsbuildModel.Lemmas.JsonTotal2
/-
Totality of the lexer model, part 3: identifiers, `lexAt`, `next`.
-/
namespace EsbuildModel.Json

/-- `UTF16ToString` of units that start with `#` is a non-empty string -/
theorem utf16ToString_hash (t : List Nat) (ht : ∀ x ∈ t, x < 65536) :
    ∃ b bs, Wtf8.utf16ToString (35 :: t) = some (b :: bs) := by
  have hall : ∀ x ∈ 35 :: t, x < 65536 := by
    intro x hx
    rcases List.mem_cons.1 hx with rfl | hx
    · decide
    · exact ht x hx
  have h := Wtf8.utf16ToString_eq (35 :: t) hall
  have hp : ∃ ps, Wtf8.pairs (35 :: t) = 35 :: ps := by
    cases t with
    | nil => exact ⟨[], rfl⟩
    | cons c2 rest => exact ⟨Wtf8.pairs (c2 :: rest), by simp [Wtf8.pairs, Wtf8.isHigh]⟩
  obtain ⟨ps, hps⟩ := hp
  rw [hps] at h
  exact ⟨35, ps.flatMap Wtf8.encA, by rw [h]; simp [Wtf8.encA]⟩

theorem decodeEsc_head_hash (fl : Flavor) (c : Cp) (r : List Cp) (pos : Nat) (hc : c.c = '#') (us : List Nat)
    (h : decodeEsc fl .normal (c :: r) pos = .ok us) : ∃ t, us = 35 :: t ∧ ∀ x ∈ t, x < 65536 := by
  have h1 : c.c ≠ '\r' := by rw [hc]; decide
  have h2 : c.c ≠ '\\' := by rw [hc]; decide
  have hd : decodeEsc fl .normal (c :: r) pos = (decodeEsc fl .normal r (pos + c.w)).cons (unitsOf c.c.toNat) := by
    cases r <;> simp [decodeEsc, h1, h2]
  rw [hd] at h
  cases h' : decodeEsc fl .normal r (pos + c.w) with
  | ok t =>
    rw [h'] at h
    simp only [Dec.cons, Dec.ok.injEq] at h
    refine ⟨t, ?_, decodeEsc_unitsOK fl .normal r _ t h'⟩
    rw [← h, hc]
    simp [unitsOf, Wtf8.pushUTF16]
  | fail e => rw [h'] at h; cases h
  | oor a => rw [h'] at h; cases h

theorem idEscFinish_total (fl : Flavor) (P : Params) (L : Lx) (sk : Sk) (isPrivate : Bool) (raw rest : List Cp) (e : Nat)
    (hp : isPrivate = true → ∃ c r, raw = c :: r ∧ c.c = '#') :
    idEscFinish fl P L sk isPrivate raw rest e ≠ .crash ∧
      ∀ L', idEscFinish fl P L sk isPrivate raw rest e = .ok L' → mu L' ≤ rest.length + 1 := by
  unfold idEscFinish
  cases h : decodeEsc fl .normal raw sk.pos with
  | fail e' => exact ⟨by simp [syntaxError], by intro L' h; cases h⟩
  | oor a => exact ⟨by simp, by intro L' h; cases h⟩
  | ok us =>
    have hus := decodeEsc_unitsOK fl .normal raw sk.pos us h
    have hs := Wtf8.utf16ToString_eq us hus
    simp only [hs]
    cases isPrivate with
    | false =>
      simp only [Bool.false_eq_true, if_false]
      refine ⟨by simp, ?_⟩
      intro L' h'; cases h'
      exact mu_at_le ..
    | true =>
      obtain ⟨c, r, rfl, hc⟩ := hp rfl
      obtain ⟨t, rfl, ht⟩ := decodeEsc_head_hash fl c r sk.pos hc us h
      obtain ⟨b, bs, hb⟩ := utf16ToString_hash t ht
      rw [hb] at hs
      simp only [Option.some.injEq] at hs
      rw [← hs]
      simp only [if_true]
      refine ⟨by simp, ?_⟩
      intro L' h'; cases h'
      exact mu_at_le ..

theorem idEsc_total (fl : Flavor) (P : Params) (L : Lx) (sk : Sk) (isPrivate : Bool) (pre r : List Cp)
    (hp : isPrivate = true → ∃ c t, pre = c :: t ∧ c.c = '#') :
    idEsc fl P L sk isPrivate pre r ≠ .crash ∧
      ∀ L', idEsc fl P L sk isPrivate pre r = .ok L' → mu L' ≤ r.length + 1 := by
  unfold idEsc
  cases h : idScan P .normal r (sk.pos + widths pre) with
  | err a => exact ⟨by simp [syntaxError], by intro L' h; cases h⟩
  | ok consumed rest e =>
    have hle := idScan_le P .normal r _ _ _ _ h
    obtain ⟨h1, h2⟩ := idEscFinish_total fl P L sk isPrivate (pre ++ consumed) rest e (by
      intro hpr
      obtain ⟨c, t, rfl, hc⟩ := hp hpr
      exact ⟨c, t ++ consumed, rfl, hc⟩)
    exact ⟨h1, fun L' hL => by have := h2 L' hL; omega⟩

theorem lexIdent_total (fl : Flavor) (P : Params) (L : Lx) (sk : Sk) (isPrivate : Bool) (pre r : List Cp)
    (hp : isPrivate = true → ∃ c t, pre = c :: t ∧ c.c = '#') :
    lexIdent fl P L sk isPrivate pre r ≠ .crash ∧
      ∀ L', lexIdent fl P L sk isPrivate pre r = .ok L' → mu L' ≤ r.length + 1 := by
  unfold lexIdent
  simp only
  have hd : (r.dropWhile (fun c => isIdCont P c.c)).length ≤ r.length := by
    induction r with
    | nil => simp
    | cons a t ih => simp only [List.dropWhile_cons]; split <;> simp <;> omega
  split
  · obtain ⟨h1, h2⟩ := idEsc_total fl P L sk isPrivate (pre ++ r.takeWhile (fun c => isIdCont P c.c))
      (r.dropWhile (fun c => isIdCont P c.c)) (by
        intro hpr
        obtain ⟨c, t, rfl, hc⟩ := hp hpr
        exact ⟨c, _, rfl, hc⟩)
    exact ⟨h1, fun L' hL => by have := h2 L' hL; omega⟩
  · refine ⟨by simp, ?_⟩
    intro L' h'; cases h'
    have := mu_at_le L sk (if isPrivate = true then Tok.other else keywordTok (chars (pre ++ r.takeWhile (fun c => isIdCont P c.c))))
      (r.dropWhile (fun c => isIdCont P c.c)) (sk.pos + widths pre + widths (r.takeWhile (fun c => isIdCont P c.c)))
    omega

end EsbuildModel.Json
