import EsbuildModel.Lemmas.JsonStrItem
/-
Whole string bodies: a well-formed body followed by the closing quote is scanned exactly and decodes to its units.
-/
namespace EsbuildModel.Json
open EsbuildModel.Spec.Json

@[simp] theorem strRender_nil : strRender [] = [] := rfl
@[simp] theorem strRender_cons (c : SChar) (t : List SChar) : strRender (c :: t) = c.render ++ strRender t := by
  simp [strRender]
@[simp] theorem strUnits_nil : strUnits [] = [] := rfl
@[simp] theorem strUnits_cons (c : SChar) (t : List SChar) : strUnits (c :: t) = c.units ++ strUnits t := by
  simp [strUnits]

/-- **completeness for string bodies** -/
theorem str_complete (fl : Flavor) (cs : List SChar) (hok : strOk (dialectOf fl) cs = true) (rest : List Cp) :
    ∀ (pos p : Nat), ∃ slow,
      scanStr fl '"' (cps (strRender cs) ++ cpOf '"' :: rest) pos =
        .done (cps (strRender cs)) rest (pos + widths (cps (strRender cs)) + (cpOf '"').w) slow ∧
      decodeEsc fl .normal (cps (strRender cs)) p = .ok (strUnits cs) ∧
      (slow = false → (strRender cs).map Char.toNat = strUnits cs) := by
  induction cs with
  | nil =>
    intro pos p
    refine ⟨false, ?_, ?_, ?_⟩
    · simp only [strRender_nil, cps_nil, List.nil_append, widths_nil, Nat.add_zero]
      exact scanStr_quote fl (cpOf '"') rest pos rfl
    · simp [decodeEsc]
    · simp
  | cons it t ih =>
    intro pos p
    simp only [strOk, Bool.and_eq_true] at hok
    obtain ⟨h1, h2, h3⟩ := schar_complete fl it (strRender t) hok.1 (cps (strRender t) ++ cpOf '"' :: rest) (by
      intro hh
      cases hsr : strRender t with
      | nil => simp [headIs]
      | cons x xs => rw [hsr] at hh; simpa [headIs] using hh) pos p
    obtain ⟨slow, i1, i2, i3⟩ := ih hok.2 (pos + widths (cps it.render)) (p + widths (cps it.render))
    refine ⟨!scharFast it || slow, ?_, ?_, ?_⟩
    · simp only [strRender_cons, cps_append, List.append_assoc]
      rw [h1, i1]
      simp [StrScan.cons, widths_append, Nat.add_assoc]
    · simp only [strRender_cons, strUnits_cons]
      rw [h2, i2]
      rfl
    · intro hs
      simp only [Bool.or_eq_false_iff, Bool.not_eq_false'] at hs
      simp only [strRender_cons, strUnits_cons, List.map_append]
      rw [h3 hs.1, i3 hs.2]

end EsbuildModel.Json
