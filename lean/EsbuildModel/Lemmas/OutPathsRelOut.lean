import EsbuildModel.Lemmas.OutPathsRelDir2
/-
`fs.Rel` + the computation of (relDir, baseName) in `PathRelativeToOutbase`, for absolute paths, in terms
of names.
-/
namespace EsbuildModel.OutPaths
open EsbuildModel.Spec.OutPath

/-- the names of the `[dir]` value for a file `T` and outbase `B` -/
def dirNames (B T : List Str) : List Str :=
  let (B', T') := stripCommon B T
  if T' = [] then List.replicate (B'.length - 1) usus else List.replicate B'.length usus ++ T'.dropLast

/-- the base name (before the extension is removed) for a file `T` and outbase `B` -/
def lastName (B T : List Str) : Str :=
  let (B', T') := stripCommon B T
  match T'.getLast? with
  | some l => l
  | none => if B' = [] then ['.'] else dd

theorem relDirOf_dot : relDirOf ['.'] = ['/'] := by decide

theorem base_dot : base ['.'] = ['.'] := by decide

/-- what `PathRelativeToOutbase` computes after `fs.Rel` for two absolute paths -/
theorem relOut_abs {b t : Str} (hb : isAbs b = true) (ht : isAbs t = true)
    (hbs : ∀ x ∈ denote t, '\\' ∉ x) :
    ∃ r, fsRel b t = some r ∧ relDirOf r = render (dirNames (denote b) (denote t)) ∧
      base r = lastName (denote b) (denote t) := by
  have hB := denote_valid b
  have hT := denote_valid t
  unfold fsRel
  rw [rel_abs hb ht]
  by_cases heq : denote t = denote b
  · refine ⟨['.'], by simp [heq], ?_, ?_⟩
    · rw [relDirOf_dot, heq]
      have : stripCommon (denote b) (denote b) = ([], []) := by
        generalize denote b = B
        induction B with
        | nil => rfl
        | cons x B ih => simp [stripCommon, ih]
      simp [dirNames, this, render]
    · rw [base_dot, heq]
      have : stripCommon (denote b) (denote b) = ([], []) := by
        generalize denote b = B
        induction B with
        | nil => rfl
        | cons x B ih => simp [stripCommon, ih]
      simp [lastName, this]
  · refine ⟨joinSlash (upDown (denote b) (denote t)), by simp [heq], ?_⟩
    have hsc : stripCommon (denote b) (denote t) ≠ ([], []) := fun e => heq (stripCommon_nil_nil e).symm
    have hm := @stripCommon_mem (denote b) (denote t)
    unfold upDown dirNames lastName
    generalize hBT : stripCommon (denote b) (denote t) = BT at hsc hm
    obtain ⟨B', T'⟩ := BT
    simp only at hm ⊢
    have hT' : ∀ x ∈ T', ValidName x := fun x hx => hT x (hm.2 x hx)
    by_cases hTn : T' = []
    · subst hTn
      have hBn : B' ≠ [] := by intro e; subst e; exact hsc rfl
      obtain ⟨k, hk⟩ : ∃ k, B'.length = k + 1 := by
        cases B' with
        | nil => exact absurd rfl hBn
        | cons x B'' => exact ⟨B''.length, rfl⟩
      have hform : List.replicate B'.length dd ++ [] = (List.replicate k dd ++ []) ++ [dd] := by
        rw [hk, List.replicate_succ']; simp
      rw [hform]
      refine ⟨?_, ?_⟩
      · rw [relDirOf_joinSlash k [] (by simp) (by simp) (by simp [dd])]
        simp [hk]
      · rw [base_joinSlash _ elem_dd]
        simp [hBn]
    · have hform : List.replicate B'.length dd ++ T' = (List.replicate B'.length dd ++ T'.dropLast) ++ [T'.getLast hTn] := by
        rw [List.append_assoc, List.dropLast_concat_getLast]
      have hl := hT' (T'.getLast hTn) (List.getLast_mem hTn)
      rw [hform]
      refine ⟨?_, ?_⟩
      · rw [relDirOf_joinSlash B'.length T'.dropLast (fun x hx => hT' x (List.dropLast_subset _ hx))
          (fun x hx => hbs x (hm.2 x (List.dropLast_subset _ hx))) hl.2.1]
        simp [hTn]
      · rw [base_joinSlash _ (ValidName.elem hl)]
        simp [List.getLast?_eq_some_getLast hTn]

theorem dirNames_valid {B T : List Str} (hT : ∀ x ∈ T, ValidName x) : ∀ y ∈ dirNames B T, ValidName y := by
  have hm := @stripCommon_mem B T
  unfold dirNames
  generalize stripCommon B T = BT at hm
  obtain ⟨B', T'⟩ := BT
  simp only at hm ⊢
  intro y hy
  split at hy
  · rw [List.eq_of_mem_replicate hy]; exact validName_usus
  · rcases List.mem_append.mp hy with hy | hy
    · rw [List.eq_of_mem_replicate hy]; exact validName_usus
    · exact hT y (hm.2 y (List.dropLast_subset _ hy))

theorem lastName_noslash {B T : List Str} (hT : ∀ x ∈ T, ValidName x) : '/' ∉ lastName B T := by
  have hm := @stripCommon_mem B T
  unfold lastName
  generalize stripCommon B T = BT at hm
  obtain ⟨B', T'⟩ := BT
  simp only at hm ⊢
  cases h : T'.getLast? with
  | none =>
    simp only
    split <;> simp [dd]
  | some l =>
    simp only
    exact (hT l (hm.2 l (List.mem_of_getLast? h))).2.1

end EsbuildModel.OutPaths
