/-
Lemmas/MiniJSTypes — KnownPrimitiveType is sound: the value of a normally completing evaluation has the
statically computed type.
-/
import EsbuildModel.Lemmas.MiniJS
namespace EsbuildModel.MiniJS

/-- what a PrimitiveType claims about a value (`unknown`: nothing; `mixed`: some primitive, i.e. not an object) -/
def PType.has (t : PType) (v : Val) : Bool :=
  match t, v with
  | .unknown, _ => true
  | .mixed, .obj _ => false
  | .mixed, _ => true
  | .null, .null => true
  | .undefined, .undef => true
  | .boolean, .bool _ => true
  | .number, .num _ => true
  | .string, .str _ => true
  | .bigint, .bigint _ => true
  | _, _ => false

theorem bind_eq_val {α β : Type} (r : Res α × Trace) (k : α → Trace → Res β × Trace) (v : β) (tr' : Trace) :
    bind r k = (.val v, tr') ↔ ∃ u tr1, r = (.val u, tr1) ∧ k u tr1 = (.val v, tr') := by
  obtain ⟨r, tr⟩ := r
  cases r with
  | val u =>
    simp only [bind_val, Prod.mk.injEq, Res.val.injEq]
    constructor
    · intro h; exact ⟨u, tr, ⟨rfl, rfl⟩, h⟩
    · rintro ⟨_, _, ⟨rfl, rfl⟩, h⟩; exact h
  | throw e => simp

theorem merged_has_left (x y : PType) (v : Val) (h : x.has v = true) : (mergedTypes x y).has v = true := by
  cases x <;> cases y <;> cases v <;> simp_all [mergedTypes, PType.has]

theorem merged_has_right (x y : PType) (v : Val) (h : y.has v = true) : (mergedTypes x y).has v = true := by
  cases x <;> cases y <;> cases v <;> simp_all [mergedTypes, PType.has]

/-- ToPrimitive returns a primitive; a primitive is returned unchanged -/
theorem toPrimitive_val (w : World) (h : Hint) (v p : Val) (tr tr' : Trace)
    (hp : toPrimitive w h v tr = (.val p, tr')) : p.isObj = false ∧ (v.isObj = false → p = v ∧ tr' = tr) := by
  cases v with
  | obj k =>
    simp only [toPrimitive] at hp
    split at hp
    · simp at hp
    · rename_i hne
      rw [hp] at hne
      cases p <;> simp_all [Val.isObj]
  | _ =>
    simp only [toPrimitive, Prod.mk.injEq, Res.val.injEq] at hp
    obtain ⟨rfl, rfl⟩ := hp
    simp [Val.isObj]

theorem toPrimitive_prim (w : World) (h : Hint) (v : Val) (tr : Trace) (hv : v.isObj = false) :
    toPrimitive w h v tr = (.val v, tr) := by
  cases v <;> simp_all [toPrimitive, Val.isObj]

theorem toNumericV_type (w : World) (v : Val) (tr tr' : Trace) (n : Numeric)
    (h : toNumericV w v tr = (.val n, tr')) :
    (∀ i, v = .bigint i → n = .b i) ∧
    ((v = .undef ∨ v = .null ∨ (∃ b, v = .bool b) ∨ (∃ x, v = .num x) ∨ (∃ s, v = .str s)) → ∃ x, n = .n x) := by
  simp only [toNumericV, bind_eq_val] at h
  obtain ⟨p, tr1, hp, hn⟩ := h
  simp only [Prod.mk.injEq] at hn
  obtain ⟨hn, -⟩ := hn
  have := toPrimitive_val w .number v p tr tr1 hp
  constructor
  · intro i hi
    subst hi
    obtain ⟨rfl, -⟩ := this.2 rfl
    simpa [toNumeric] using hn.symm
  · intro hv
    rcases hv with rfl | rfl | ⟨b, rfl⟩ | ⟨x, rfl⟩ | ⟨s, rfl⟩ <;>
      (obtain ⟨rfl, -⟩ := this.2 rfl; simp [toNumeric, toNumber] at hn; exact ⟨_, hn.symm⟩)

theorem has_boolean (b : Bool) : PType.boolean.has (.bool b) = true := rfl
theorem has_string (s : JStr) : PType.string.has (.str s) = true := rfl
theorem has_number (n : Num) : PType.number.has (.num n) = true := rfl
theorem has_undefined : PType.undefined.has .undef = true := rfl

theorem applyUnary_type (w : World) (op : UnOp) (t : PType) (va v : Val) (tr tr' : Trace)
    (ht : t.has va = true) (h : applyUnary w op va tr = (.val v, tr')) : (kptUnary op t).has v = true := by
  cases op with
  | not =>
    simp only [applyUnary, Prod.mk.injEq, Res.val.injEq] at h
    obtain ⟨rfl, -⟩ := h; rfl
  | void =>
    simp only [applyUnary, Prod.mk.injEq, Res.val.injEq] at h
    obtain ⟨rfl, -⟩ := h; rfl
  | typeof f =>
    simp only [applyUnary, Prod.mk.injEq, Res.val.injEq] at h
    obtain ⟨rfl, -⟩ := h; rfl
  | pos =>
    simp only [applyUnary, bind_eq_val] at h
    obtain ⟨p, tr1, _, hn⟩ := h
    split at hn
    · simp only [Prod.mk.injEq, Res.val.injEq] at hn
      obtain ⟨rfl, -⟩ := hn; rfl
    · simp at hn
  | neg =>
    simp only [applyUnary, bind_eq_val] at h
    obtain ⟨n, tr1, hn, hr⟩ := h
    have hty := toNumericV_type w va tr tr1 n hn
    cases n with
    | n x =>
      simp only [Prod.mk.injEq, Res.val.injEq] at hr
      obtain ⟨rfl, -⟩ := hr
      cases t <;> cases va <;> simp_all [kptUnary, PType.has]
    | b i =>
      simp only [Prod.mk.injEq, Res.val.injEq] at hr
      obtain ⟨rfl, -⟩ := hr
      cases t <;> cases va <;> simp_all [kptUnary, PType.has]
  | cpl =>
    simp only [applyUnary, bind_eq_val] at h
    obtain ⟨n, tr1, hn, hr⟩ := h
    have hty := toNumericV_type w va tr tr1 n hn
    cases n with
    | n x =>
      simp only [Prod.mk.injEq, Res.val.injEq] at hr
      obtain ⟨rfl, -⟩ := hr
      cases t <;> cases va <;> simp_all [kptUnary, PType.has]
    | b i =>
      simp only [Prod.mk.injEq, Res.val.injEq] at hr
      obtain ⟨rfl, -⟩ := hr
      cases t <;> cases va <;> simp_all [kptUnary, PType.has]

theorem addPrim_str_left (w : World) (s : JStr) (pb v : Val) (h : addPrim w (.str s) pb = .val v) :
    PType.string.has v = true := by
  simp only [addPrim] at h
  split at h <;> simp at h <;> subst_vars <;> rfl

theorem addPrim_str_right (w : World) (t : JStr) (pa v : Val) (h : addPrim w pa (.str t) = .val v) :
    PType.string.has v = true := by
  cases pa <;> simp only [addPrim] at h <;> split at h <;> simp at h <;> subst_vars <;> rfl

theorem addPrim_mixed (w : World) (pa pb v : Val) (h : addPrim w pa pb = .val v) :
    PType.mixed.has v = true := by
  cases pa <;> cases pb <;> simp [addPrim, toNumeric, toNumber, toStr] at h <;>
    (try split at h) <;> (try simp at h) <;> subst_vars <;> rfl

theorem addPrim_num (w : World) (pa pb v : Val) (h : addPrim w pa pb = .val v)
    (ha : pa = .undef ∨ pa = .null ∨ (∃ b, pa = .bool b) ∨ (∃ x, pa = .num x))
    (hb : pb = .undef ∨ pb = .null ∨ (∃ b, pb = .bool b) ∨ (∃ x, pb = .num x)) :
    PType.number.has v = true := by
  rcases ha with rfl | rfl | ⟨b, rfl⟩ | ⟨x, rfl⟩ <;> rcases hb with rfl | rfl | ⟨b', rfl⟩ | ⟨x', rfl⟩ <;>
    simp [addPrim, toNumeric, toNumber] at h <;> subst_vars <;> rfl

theorem addPrim_big (w : World) (i j : Int) (v : Val) (h : addPrim w (.bigint i) (.bigint j) = .val v) :
    PType.bigint.has v = true := by
  simp [addPrim, toNumeric] at h; subst_vars; rfl

theorem arith_type (w : World) (f : Num → Num → Num) (g : Int → Int → Res Val) (a b v : Val) (tr tr' : Trace)
    (hg : ∀ i j u, g i j = .val u → PType.mixed.has u = true)
    (h : arith w f g a b tr = (.val v, tr')) : PType.mixed.has v = true := by
  simp only [arith, bind_eq_val] at h
  obtain ⟨na, tr1, -, nb, tr2, -, h⟩ := h
  split at h
  · simp only [Prod.mk.injEq, Res.val.injEq] at h; obtain ⟨rfl, -⟩ := h; rfl
  · simp only [Prod.mk.injEq] at h; exact hg _ _ _ h.1
  · simp at h

theorem relational_type (w : World) (swap : Bool) (want : Option Bool) (a b v : Val) (tr tr' : Trace)
    (h : relational w swap want a b tr = (.val v, tr')) : PType.boolean.has v = true := by
  simp only [relational, bind_eq_val] at h
  obtain ⟨pa, tr1, -, pb, tr2, -, h⟩ := h
  split at h
  · simp at h
  · simp only [Prod.mk.injEq, Res.val.injEq] at h; obtain ⟨rfl, -⟩ := h; rfl

theorem has_mixed_of_known (t : PType) (v : Val) (ht : t ≠ .unknown) (h : t.has v = true) :
    PType.mixed.has v = true := by
  cases t <;> cases v <;> simp_all [PType.has]

theorem has_unknown (v : Val) : PType.unknown.has v = true := by cases v <;> rfl

theorem nullish_type_right (tl tr : PType) (va vb : Val) (hn : va.nullish = true) (hl : tl.has va = true)
    (hr : tr.has vb = true) : (kptBinary .nullish tl tr).has vb = true := by
  cases tl <;> cases va <;> simp_all [PType.has, Val.nullish] <;> simp only [kptBinary] <;>
    simp [hr] <;>
    (by_cases h : tr = .unknown
     · simp [h]
     · simp [h]; exact has_mixed_of_known tr vb h hr)

theorem has_string_inv (v : Val) (h : PType.string.has v = true) : ∃ s, v = .str s := by
  cases v <;> simp_all [PType.has]
theorem has_bigint_inv (v : Val) (h : PType.bigint.has v = true) : ∃ s, v = .bigint s := by
  cases v <;> simp_all [PType.has]
theorem has_numberish_inv (t : PType) (v : Val) (h : t.has v = true)
    (h1 : t ≠ .unknown) (h2 : t ≠ .mixed) (h3 : t ≠ .bigint) (h4 : t ≠ .string) :
    v = .undef ∨ v = .null ∨ (∃ b, v = .bool b) ∨ (∃ x, v = .num x) := by
  cases t <;> cases v <;> simp_all [PType.has]

theorem short_type (op : BinOp) (tl tr : PType) (va r : Val) (hs : op.short va = some r)
    (hl : tl.has va = true) : (kptBinary op tl tr).has r = true := by
  cases op <;> simp only [BinOp.short] at hs
  · -- and
    split at hs <;> simp at hs; subst hs; exact merged_has_left _ _ _ hl
  · split at hs <;> simp at hs; subst hs; exact merged_has_left _ _ _ hl
  · split at hs <;> simp at hs; subst hs
    rename_i hn
    cases tl <;> cases tr <;> cases va <;> simp_all [kptBinary, PType.has, Val.nullish]
  all_goals simp at hs

theorem applyBinary_type (w : World) (op : BinOp) (tl tr : PType) (va vb v : Val) (t t' : Trace)
    (hs : op.short va = none) (hl : tl.has va = true) (hr : tr.has vb = true)
    (h : applyBinary w op va vb t = (.val v, t')) : (kptBinary op tl tr).has v = true := by
  cases op <;> simp only [applyBinary] at h
  case and => simp at h; obtain ⟨rfl, -⟩ := h; exact merged_has_right _ _ _ hr
  case or => simp at h; obtain ⟨rfl, -⟩ := h; exact merged_has_right _ _ _ hr
  case nullish =>
    simp at h; obtain ⟨rfl, -⟩ := h
    have hn : va.nullish = true := by
      simp only [BinOp.short] at hs; split at hs <;> simp_all
    exact nullish_type_right _ _ _ _ hn hl hr
  case comma => simp at h; obtain ⟨rfl, -⟩ := h; exact hr
  case strictEq => simp at h; obtain ⟨rfl, -⟩ := h; rfl
  case strictNe => simp at h; obtain ⟨rfl, -⟩ := h; rfl
  case looseEq =>
    simp only [bind_eq_val] at h; obtain ⟨r, t1, -, h⟩ := h
    simp at h; obtain ⟨rfl, -⟩ := h; rfl
  case looseNe =>
    simp only [bind_eq_val] at h; obtain ⟨r, t1, -, h⟩ := h
    simp at h; obtain ⟨rfl, -⟩ := h; rfl
  case sub => exact arith_type w _ _ _ _ _ _ _ (by intro i j u hu; simp at hu; subst hu; rfl) h
  case ushr => exact arith_type w _ _ _ _ _ _ _ (by intro i j u hu; simp at hu) h
  case lt => exact relational_type w _ _ _ _ _ _ _ h
  case gt => exact relational_type w _ _ _ _ _ _ _ h
  case le => exact relational_type w _ _ _ _ _ _ _ h
  case ge => exact relational_type w _ _ _ _ _ _ _ h
  case add =>
    simp only [bind_eq_val] at h
    obtain ⟨pa, t1, hpa, pb, t2, hpb, h⟩ := h
    simp only [Prod.mk.injEq] at h
    have h := h.1
    have ha := toPrimitive_val w _ _ _ _ _ hpa
    have hb := toPrimitive_val w _ _ _ _ _ hpb
    simp only [kptBinary]
    by_cases h1 : tl = .string ∨ tr = .string
    · simp only [h1, if_true]
      rcases h1 with rfl | rfl
      · obtain ⟨s, rfl⟩ := has_string_inv _ hl
        obtain ⟨rfl, -⟩ := ha.2 rfl
        exact addPrim_str_left w _ _ _ h
      · obtain ⟨s, rfl⟩ := has_string_inv _ hr
        obtain ⟨rfl, -⟩ := hb.2 rfl
        exact addPrim_str_right w _ _ _ h
    · simp only [h1, if_false]
      by_cases h2 : tl = .bigint ∧ tr = .bigint
      · simp only [h2, and_self, if_true]
        obtain ⟨rfl, rfl⟩ := h2
        obtain ⟨i, rfl⟩ := has_bigint_inv _ hl
        obtain ⟨j, rfl⟩ := has_bigint_inv _ hr
        obtain ⟨rfl, -⟩ := ha.2 rfl
        obtain ⟨rfl, -⟩ := hb.2 rfl
        exact addPrim_big w _ _ _ h
      · simp only [h2, if_false]
        split
        · rename_i h3
          have h1' := not_or.mp h1
          have hva := has_numberish_inv tl va hl h3.1 h3.2.1 h3.2.2.1 h1'.1
          have hvb := has_numberish_inv tr vb hr h3.2.2.2.1 h3.2.2.2.2.1 h3.2.2.2.2.2 h1'.2
          have e1 : pa = va := by
            rcases hva with rfl | rfl | ⟨b, rfl⟩ | ⟨x, rfl⟩ <;> exact (ha.2 rfl).1
          have e2 : pb = vb := by
            rcases hvb with rfl | rfl | ⟨b, rfl⟩ | ⟨x, rfl⟩ <;> exact (hb.2 rfl).1
          subst e1 e2
          exact addPrim_num w _ _ _ h hva hvb
        · exact addPrim_mixed w pa pb v h


/-- KnownPrimitiveType is sound -/
theorem kpt_sound (w : World) : ∀ (e : Expr) (tr tr' : Trace) (v : Val),
    eval w e tr = (.val v, tr') → (knownPrimitiveType e).has v = true
  | .undef, tr, tr', v, h => by simp [eval] at h; obtain ⟨rfl, -⟩ := h; rfl
  | .null, tr, tr', v, h => by simp [eval] at h; obtain ⟨rfl, -⟩ := h; rfl
  | .bool b, tr, tr', v, h => by simp [eval] at h; obtain ⟨rfl, -⟩ := h; rfl
  | .num n, tr, tr', v, h => by simp [eval] at h; obtain ⟨rfl, -⟩ := h; rfl
  | .str s, tr, tr', v, h => by simp [eval] at h; obtain ⟨rfl, -⟩ := h; rfl
  | .ident x, tr, tr', v, h => has_unknown v
  | .call f a, tr, tr', v, h => has_unknown v
  | .dot o n, tr, tr', v, h => has_unknown v
  | .index o k, tr, tr', v, h => has_unknown v
  | .cond c y n, tr, tr', v, h => by
    rw [eval_cond, bind_eq_val] at h
    obtain ⟨t, tr1, -, h⟩ := h
    simp only [knownPrimitiveType]
    cases t with
    | true => exact merged_has_left _ _ _ (kpt_sound w y _ _ _ h)
    | false => exact merged_has_right _ _ _ (kpt_sound w n _ _ _ h)
  | .unary op e, tr, tr', v, h => by
    simp only [eval] at h
    simp only [knownPrimitiveType]
    split at h
    · rename_i x hx
      simp only [Prod.mk.injEq, Res.val.injEq] at h
      obtain ⟨rfl, -⟩ := h
      cases op <;> simp [typeofIdent?] at hx
      rfl
    · rw [bind_eq_val] at h
      obtain ⟨va, tr1, ha, h⟩ := h
      exact applyUnary_type w op _ va v tr1 tr' (kpt_sound w e _ _ _ ha) h
  | .binary op a b, tr, tr', v, h => by
    simp only [eval, bind_eq_val] at h
    obtain ⟨va, tr1, ha, h⟩ := h
    simp only [knownPrimitiveType]
    have hl := kpt_sound w a _ _ _ ha
    split at h
    · rename_i r hs
      simp only [Prod.mk.injEq, Res.val.injEq] at h
      obtain ⟨rfl, -⟩ := h
      exact short_type op _ _ va r hs hl
    · rename_i hs
      rw [bind_eq_val] at h
      obtain ⟨vb, tr2, hb, h⟩ := h
      exact applyBinary_type w op _ _ va vb v tr2 tr' hs hl (kpt_sound w b _ _ _ hb) h

end EsbuildModel.MiniJS
