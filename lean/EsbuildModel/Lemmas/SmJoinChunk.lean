import EsbuildModel.Lemmas.SmJoinSorted
/-!
# Helper lemmas for `Props/C07Join.lean` — part 10: a builder driven by a list of absolute mappings
-/
namespace EsbuildModel.SmJoin
open Spec.SourceMapV3 (Ev Orig Seg segsOf LineCol place genLE SortedGen)

def toResolved (o : Orig) : Resolved := ⟨o.src, o.line, o.col, o.name⟩

/-- the events that make a builder record the absolute mappings `ms` one after the other when its output has
reached `(line, col)`: the missing line breaks, the missing columns, the mapping -/
def eventsFrom (line : Nat) (col : Int) : List Seg → List BEv
  | [] => []
  | m :: ms =>
    List.replicate (m.genLine - line) BEv.newline ++
      (BEv.cols (m.genCol - (if m.genLine = line then col else 0)).toNat ::
        BEv.map (m.orig.map toResolved) :: eventsFrom m.genLine m.genCol ms)

/-- what a `ChunkBuilder` (with an input source map, i.e. without the cover-lines rule) produces for one file whose
mappings are `ms`, starting from the zero state -/
def encodeChunk (ms : List Seg) : Chunk := buildChunk false (eventsFrom 0 0 ms)

theorem coverEv_false (s : LSt) (b : Bool) : coverEv false s b = [] := by
  unfold coverEv
  cases s.prevOrig with
  | none => rfl
  | some t => obtain ⟨a, l, c⟩ := t; simp

theorem lowerFrom_newlines (k : Nat) (s : LSt) (rest : List BEv) :
    lowerFrom false s (List.replicate k BEv.newline ++ rest) =
      List.replicate k Ev.nl ++
        lowerFrom false { s with gc := if k = 0 then s.gc else 0, lsm := if k = 0 then s.lsm else false } rest := by
  induction k generalizing s with
  | zero => simp
  | succ n ih =>
    simp only [List.replicate_succ, List.cons_append, lowerFrom, lowerStep, coverEv_false, List.nil_append, ih]
    congr 2
    by_cases hn : n = 0 <;> simp [hn]

theorem lower_events (ms : List Seg) (line : Nat) (col : Int) (s : LSt) (hgc : s.gc = col)
    (hsorted : SortedGen ms)
    (hfirst : ∀ m ∈ ms, line < m.genLine ∨ (m.genLine = line ∧ col ≤ m.genCol))
    (hwf : ∀ m ∈ ms, m.orig.isSome = true ∧ 0 ≤ m.genCol) :
    segsOf line (lowerFrom false s (eventsFrom line col ms)) = ms := by
  induction ms generalizing line col s with
  | nil => simp [eventsFrom, lowerFrom, segsOf]
  | cons m ms ih =>
    obtain ⟨hsrc, hcol0⟩ := hwf m (by simp)
    have hf := hfirst m (by simp)
    obtain ⟨gl, gc, orig⟩ := m
    simp only at hsrc hcol0 hf
    cases orig with
    | none => simp at hsrc
    | some o =>
      have hk : line + (gl - line) = gl := by omega
      simp only [eventsFrom, lowerFrom_newlines, segsOf_nls, hk, lowerFrom, lowerStep, coverEv_false,
        List.nil_append, Option.map_some, toResolved, List.cons_append, segsOf]
      have hcolEq : (if gl - line = 0 then s.gc else 0) + ((gc - if gl = line then col else 0).toNat : Int) = gc := by
        rcases hf with h | ⟨h, hc⟩
        · have h1 : ¬ gl - line = 0 := by omega
          have h2 : ¬ gl = line := by omega
          simp only [h1, h2, ↓reduceIte]; omega
        · subst h
          simp only [Nat.sub_self, ↓reduceIte, hgc]; omega
      rw [hcolEq]
      congr 1
      apply ih gl gc _ rfl
      · exact (List.pairwise_cons.1 hsorted).2
      · intro m' hm'
        have := (List.pairwise_cons.1 hsorted).1 m' hm'
        unfold genLE at this
        simp only at this
        rcases this with h | ⟨h, hc⟩
        · left; exact h
        · right; exact ⟨h.symm, hc⟩
      · intro m' hm'; exact hwf m' (by simp [hm'])

theorem lower_eventsOf (ms : List Seg) (hsorted : SortedGen ms)
    (hwf : ∀ m ∈ ms, m.orig.isSome = true ∧ 0 ≤ m.genCol) :
    segsOf 0 (lower false (eventsFrom 0 0 ms)) = ms := by
  apply lower_events ms 0 0 {} rfl hsorted _ hwf
  intro m hm
  have := (hwf m hm).2
  by_cases h : m.genLine = 0
  · right; exact ⟨h, this⟩
  · left; omega

/-! ## a chunk with a mapping is not ignorable -/

def hasSeg : List Ev → Bool
  | [] => false
  | .nl :: es => hasSeg es
  | .seg _ _ :: _ => true

theorem not_ignored_of_seg (evs : List Ev) (p : State) (l : Nat) (h : hasSeg evs = true) :
    (encEvs p l evs).bytes.all (· == 59) = false := by
  induction evs generalizing p l with
  | nil => simp [hasSeg] at h
  | cons e es ih =>
    cases e with
    | nl =>
      have := ih (encOne p l .nl).st (encOne p l .nl).last h
      simp only [encEvs, List.all_append, this, Bool.and_false]
    | seg c o =>
      obtain ⟨b, tl, hb, _, hb59, _, _⟩ := enc_cons ((curOf p c o).genCol - p.genCol)
      have : (encOne p l (.seg c o)).bytes.all (· == 59) = false := by
        simp only [encOne, amb_bytes, fieldsOf, List.cons_append, List.flatMap_cons, hb, List.all_append,
          List.all_cons]
        simp [hb59]
      simp only [encEvs, List.all_append, this, Bool.false_and]

theorem chunk_ok_of_seg (cover : Bool) (bevs : List BEv) (h : hasSeg (lower cover bevs) = true) :
    (buildChunk cover bevs).shouldIgnore = false := by
  rw [buildChunk_eq]; exact not_ignored_of_seg _ _ _ h

end EsbuildModel.SmJoin
