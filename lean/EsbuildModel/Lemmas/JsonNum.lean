import EsbuildModel.Lemmas.JsonTok2
/-
Numbers: `lexNumber` (through `LexNum.lexNum`) on the digits of a JSON number.  Completeness direction.
-/
namespace EsbuildModel.Json
open EsbuildModel.Spec.Json EsbuildModel.Spec.NumLit EsbuildModel.Spec.Num EsbuildModel.LexNum

/-- `lex_number_complete_partial` of `Props/C01LexNum.lean`, with the exclusion written as in `Spec/Json.lean` -/
theorem lexNum_complete {P : LexNum.Params} {R : Rat → F64} (hP : LexNum.ParamsOK P R) (l : Lit) (rest : List Char)
    (hv : l.valid = true) (hb : l.isBig = false) (hfol : FollowOK P rest) (hnd : legacyIntWithTail l = false) :
    lexNum P (l.render ++ rest) = .num l.render.length (R l.mv) l.isLegacy := by
  cases l with
  | dec i f e =>
    cases hso : secondIsOctal i with
    | false => exact dec_complete_float hP hv hfol hso
    | true =>
      have hfe : f = none ∧ e = none := by
        cases i with
        | nil => simp [secondIsOctal] at hso
        | cons a t =>
          cases t with
          | nil => simp [secondIsOctal] at hso
          | cons b t =>
            simp only [secondIsOctal, Bool.and_eq_true, beq_iff_eq] at hso
            simp only [legacyIntWithTail, hso.1, beq_self_eq_true, Bool.true_and, Bool.and_eq_false_iff,
              Bool.or_eq_false_iff] at hnd
            have h2 : Spec.Json.isOctDigit b = true := hso.2
            rcases hnd with hnd | hnd
            · rw [h2] at hnd; cases hnd
            · constructor
              · cases f <;> simp_all
              · cases e <;> simp_all
      obtain ⟨rfl, rfl⟩ := hfe
      exact decLegacyInt_complete hP hv hfol hso
  | legacyOctal ds => exact legacyOctal_complete hP hv hfol
  | nonDec r u ds => exact nonDec_complete hP r u hv hfol
  | bigDec ds => cases hb
  | bigNonDec r u ds => cases hb

theorem allDigits_iff (l : List Char) : Spec.Json.allDigits l = true ↔ AllDigits l := List.all_eq_true

theorem sepTail_of_allDigits {l : List Char} (h : AllDigits l) : sepTail Spec.Num.isDigit l = true := by
  induction l with
  | nil => rfl
  | cons c t ih =>
    have hc := h c (by simp)
    have hne : c ≠ '_' := by rintro rfl; revert hc; decide
    have iht := ih (fun x hx => h x (List.mem_cons_of_mem _ hx))
    cases t with
    | nil => simp [sepTail, hne, hc]
    | cons d t => rw [sepTail]; simp only [hne, if_false, hc, Bool.true_and]; exact iht

theorem sepDigits_of_allDigits {l : List Char} (h : AllDigits l) (hne : l ≠ []) : sepDigits Spec.Num.isDigit l = true := by
  cases l with
  | nil => exact absurd rfl hne
  | cons c t =>
    simp only [sepDigits, h c (by simp), Bool.true_and]
    exact sepTail_of_allDigits (fun x hx => h x (List.mem_cons_of_mem _ hx))

/-- the digits of a number of RFC 8259 (or with the `08` deviation) form a valid DecimalLiteral that the lexer reads
as one token and that passes its JSON check -/
theorem rfcLit_facts {d : Dialect} {l : Lit} (h : rfcLit d l = true) :
    l.valid = true ∧ l.isBig = false ∧ legacyIntWithTail l = false ∧
    ∃ i f e, l = .dec i f e ∧ AllDigits i ∧ i ≠ [] ∧ (rfcInt i = true ∨ zero89Int i = true) ∧ rfcFrac f = true ∧
      rfcExp e = true := by
  cases l with
  | dec i f e =>
    simp only [rfcLit, Bool.and_eq_true, Bool.or_eq_true] at h
    obtain ⟨⟨hi, hf⟩, he⟩ := h
    have hi' : rfcInt i = true ∨ zero89Int i = true := by
      rcases hi with hi | hi
      · exact Or.inl hi
      · exact Or.inr hi.2
    have hid : AllDigits i ∧ i ≠ [] := by
      rcases hi' with hi | hi
      · cases i with
        | nil => simp [rfcInt] at hi
        | cons a t =>
          cases t with
          | nil =>
            simp only [rfcInt] at hi
            exact ⟨fun x hx => by simp at hx; subst hx; exact hi, by simp⟩
          | cons b t =>
            simp only [rfcInt, Bool.and_eq_true, bne_iff_ne, ne_eq] at hi
            refine ⟨?_, by simp⟩
            intro x hx
            rcases List.mem_cons.1 hx with rfl | hx
            · exact hi.1.1
            · exact (allDigits_iff _).1 hi.2 x hx
      · cases i with
        | nil => simp [zero89Int] at hi
        | cons a t =>
          cases t with
          | nil => simp [zero89Int] at hi
          | cons b t =>
            simp only [zero89Int, Bool.and_eq_true, beq_iff_eq, Bool.or_eq_true] at hi
            refine ⟨?_, by simp⟩
            intro x hx
            rcases List.mem_cons.1 hx with rfl | hx
            · rw [hi.1.1]; decide
            · rcases List.mem_cons.1 hx with rfl | hx
              · rcases hi.1.2 with h | h <;> (rw [h]; decide)
              · exact (allDigits_iff _).1 hi.2 x hx
    have hint : decIntOk i = true := by
      rcases hi' with hi | hi
      · simp only [decIntOk, Bool.or_eq_true]; left
        cases i with
        | nil => simp [rfcInt] at hi
        | cons a t =>
          cases t with
          | nil =>
            simp only [rfcInt] at hi
            by_cases ha : a = '0'
            · simp [plainDecInt, ha]
            · simp [plainDecInt, ha, sepDigits, hi, sepTail]
          | cons b t =>
            simp only [rfcInt, Bool.and_eq_true, bne_iff_ne, ne_eq] at hi
            simp only [plainDecInt, hi.1.2, if_false]
            exact sepDigits_of_allDigits hid.1 (by simp)
      · simp only [decIntOk, Bool.or_eq_true]; right
        cases i with
        | nil => simp [zero89Int] at hi
        | cons a t =>
          cases t with
          | nil => simp [zero89Int] at hi
          | cons b t =>
            simp only [zero89Int, Bool.and_eq_true, beq_iff_eq, Bool.or_eq_true] at hi
            simp only [nonOctalDec, hi.1.1, beq_self_eq_true, List.isEmpty_cons, Bool.not_false, Bool.true_and,
              Bool.and_eq_true, List.any_cons, Bool.or_eq_true, beq_iff_eq]
            refine ⟨?_, Or.inl hi.1.2⟩
            exact (allDigits_iff _).2 (fun x hx => hid.1 x (List.mem_cons_of_mem _ hx))
    have hexp : expSOk e = true := by
      cases e with
      | none => rfl
      | some x =>
        simp only [rfcExp, Bool.and_eq_true, Bool.not_eq_true', List.isEmpty_eq_false_iff] at he
        exact sepDigits_of_allDigits ((allDigits_iff _).1 he.2) he.1
    have hval : (Lit.dec i f e).valid = true := by
      cases i with
      | nil => exact absurd rfl hid.2
      | cons a t =>
        cases f with
        | none => simp only [Lit.valid, hint, hexp, Bool.and_self]
        | some g =>
          simp only [rfcFrac, Bool.and_eq_true, Bool.not_eq_true', List.isEmpty_eq_false_iff] at hf
          simp only [Lit.valid, hint, hexp, Bool.and_true, Bool.true_and, Bool.or_eq_true]
          right
          exact sepDigits_of_allDigits ((allDigits_iff _).1 hf.2) hf.1
    refine ⟨hval, rfl, ?_, i, f, e, rfl, hid.1, hid.2, hi', hf, he⟩
    cases i with
    | nil => rfl
    | cons a t =>
      cases t with
      | nil => rfl
      | cons b t =>
        simp only [legacyIntWithTail, Bool.and_eq_false_iff]
        rcases hi' with hi | hi
        · simp only [rfcInt, Bool.and_eq_true, bne_iff_ne, ne_eq] at hi
          left; left; simp [hi.1.2]
        · simp only [zero89Int, Bool.and_eq_true, beq_iff_eq, Bool.or_eq_true] at hi
          left; right
          rcases hi.1.2 with h | h <;> (rw [h]; decide)
  | legacyOctal ds => simp [rfcLit] at h
  | nonDec r u ds => simp [rfcLit] at h
  | bigDec ds => simp [rfcLit] at h
  | bigNonDec r u ds => simp [rfcLit] at h

end EsbuildModel.Json
