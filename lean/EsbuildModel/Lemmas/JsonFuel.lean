import EsbuildModel.Lemmas.JsonParseC2
/-
Fuel: a run of the parser that does not run out of fuel gives the same result with more fuel.
-/
namespace EsbuildModel.Json

theorem R.bind_mono {α β : Type} {r : R α} {f g : α → R β} (hne : r.bind f ≠ .crash)
    (h : ∀ a, r = .ok a → f a ≠ .crash → g a = f a) : r.bind g = r.bind f := by
  cases r with
  | ok a => exact h a rfl hne
  | panic l => rfl
  | crash => rfl

theorem parseExpr_succ (o : Opts) (P : Params) (n : Nat) (L : Lx) :
    parseExpr o P (n + 1) L =
      match L.tok with
      | .tFalse => (next o.flavor P L).bind fun L1 => .ok (.bool false, L1)
      | .tTrue => (next o.flavor P L).bind fun L1 => .ok (.bool true, L1)
      | .tNull => (next o.flavor P L).bind fun L1 => .ok (.null, L1)
      | .str =>
        (stringLiteral o.flavor L).bind fun (u, L1) => (next o.flavor P L1).bind fun L2 => .ok (.str u, L2)
      | .num => (next o.flavor P L).bind fun L1 => .ok (.num L.number, L1)
      | .minus =>
        (next o.flavor P L).bind fun L1 => (expect o.flavor P L1 .num).bind fun L2 => .ok (.num (F64.neg L1.number), L2)
      | .openBracket => (next o.flavor P L).bind fun L1 => arrLoop o P n L1 [] (!L1.nl)
      | .openBrace => (next o.flavor P L).bind fun L1 => objLoop o P n L1 [] [] (!L1.nl)
      | _ => unexpected L.log L.start := by
  rw [parseExpr]
  cases L.tok <;> try rfl
  · cases next o.flavor P L <;> rfl
  · cases next o.flavor P L <;> rfl

/-- the three statements of fuel monotonicity at fuel `n` -/
def FuelMono (o : Opts) (P : Params) (n : Nat) : Prop :=
  (∀ L, parseExpr o P n L ≠ .crash → parseExpr o P (n + 1) L = parseExpr o P n L) ∧
  (∀ L items single, arrLoop o P n L items single ≠ .crash →
    arrLoop o P (n + 1) L items single = arrLoop o P n L items single) ∧
  (∀ L props seen single, objLoop o P n L props seen single ≠ .crash →
    objLoop o P (n + 1) L props seen single = objLoop o P n L props seen single)

theorem fuel_mono_step (o : Opts) (P : Params) : ∀ n, FuelMono o P n := by
  intro n
  induction n with
  | zero =>
    refine ⟨fun L h => ?_, fun L items single h => ?_, fun L props seen single h => ?_⟩
    · exact absurd (by rw [parseExpr]) h
    · exact absurd (by rw [arrLoop]) h
    · exact absurd (by rw [objLoop]) h
  | succ n ih =>
    obtain ⟨ih1, ih2, ih3⟩ := ih
    refine ⟨fun L h => ?_, fun L items single h => ?_, fun L props seen single h => ?_⟩
    · rw [parseExpr_succ] at h ⊢
      rw [parseExpr_succ o P n L]
      cases ht : L.tok <;> simp only [ht] at h ⊢
      · exact R.bind_mono h (fun L1 _ h1 => ih2 L1 _ _ h1)
      · exact R.bind_mono h (fun L1 _ h1 => ih3 L1 _ _ _ h1)
    · rw [arrLoop_succ] at h ⊢
      rw [arrLoop_succ o P n]
      split
      · rfl
      · rename_i hc
        rw [if_neg hc] at h
        refine R.bind_mono h (fun r _ hr => ?_)
        cases r with
        | brk s L1 => rfl
        | go s L1 =>
          simp only at hr ⊢
          have hp : parseExpr o P n L1 ≠ .crash := by
            intro hcr; rw [hcr] at hr; exact hr rfl
          rw [ih1 L1 hp]
          exact R.bind_mono hr (fun p _ h1 => ih2 _ _ _ h1)
    · rw [objLoop_succ] at h ⊢
      rw [objLoop_succ o P n]
      split
      · rfl
      · rename_i hc
        rw [if_neg hc] at h
        refine R.bind_mono h (fun r _ hr => ?_)
        cases r with
        | brk s L1 => rfl
        | go s L1 =>
          simp only at hr ⊢
          refine R.bind_mono hr (fun ks _ hk => ?_)
          have hp : parseExpr o P n ks.2.2 ≠ .crash := by
            intro hcr; rw [hcr] at hk; exact hk rfl
          rw [ih1 _ hp]
          exact R.bind_mono hk (fun p _ h1 => ih3 _ _ _ _ h1)

/-- **more fuel does not change a result** -/
theorem parseExpr_fuel (o : Opts) (P : Params) (L : Lx) (n m : Nat) (h : parseExpr o P n L ≠ .crash) (hm : n ≤ m) :
    parseExpr o P m L = parseExpr o P n L := by
  induction m with
  | zero => have : n = 0 := by omega
            subst this; rfl
  | succ m ih =>
    by_cases hnm : n = m + 1
    · subst hnm; rfl
    · have := ih (by omega)
      rw [← this]
      exact (fuel_mono_step o P m).1 L (by rw [this]; exact h)

end EsbuildModel.Json
