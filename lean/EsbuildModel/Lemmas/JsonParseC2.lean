import EsbuildModel.Lemmas.JsonParseC1
/-
Completeness of the parser, definitions: the pieces of `elements` / `members` after their leading white space, the
relation between a derivation and the expression `ParseJSON` builds for it, unfolding of the parser loops.
-/
namespace EsbuildModel.Json
open EsbuildModel.Spec.Json

def elemsS1 : Elems → List SepItem
  | .last s1 _ _ _ => s1
  | .cons s1 _ _ _ => s1

/-- `elements` without the white space in front of the first value -/
def elemsTail : Elems → List Char
  | .last _ v s2 tr => v.render ++ (Sep.render s2 ++ trailingRender tr)
  | .cons _ v s2 rest => v.render ++ (Sep.render s2 ++ (',' :: rest.render))

theorem elems_render (es : Elems) : es.render = Sep.render (elemsS1 es) ++ elemsTail es := by
  cases es <;> simp [Elems.render, elemsS1, elemsTail]

def membersS1 : Members → List SepItem
  | .last s1 _ _ _ _ _ _ => s1
  | .cons s1 _ _ _ _ _ _ => s1

/-- `members` without the white space in front of the first key -/
def membersTail : Members → List Char
  | .last _ k s2 s3 v s4 tr =>
    strTok k ++ (Sep.render s2 ++ (':' :: (Sep.render s3 ++ (v.render ++ (Sep.render s4 ++ trailingRender tr)))))
  | .cons _ k s2 s3 v s4 rest =>
    strTok k ++ (Sep.render s2 ++ (':' :: (Sep.render s3 ++ (v.render ++ (Sep.render s4 ++ (',' :: rest.render))))))

theorem members_render (ms : Members) : ms.render = Sep.render (membersS1 ms) ++ membersTail ms := by
  cases ms <;> simp [Members.render, membersS1, membersTail]

section
variable (R : Rat → F64) (objExt : Bool)

def propOf (k : List SChar) (a : Ast) : List Nat × Bool × Ast :=
  (strUnits k, decide (strUnits k = protoKey) && objExt, a)

mutual
/-- the expression `ParseJSON` builds for a derivation (`IsSingleLine` aside) -/
def RepV : Val → Ast → Prop
  | .null, a => a = .null
  | .tt, a => a = .bool true
  | .ff, a => a = .bool false
  | .num n, a => a = .num (n.value R)
  | .str cs, a => a = .str (strUnits cs)
  | .arr0 _, a => ∃ s, a = .arr [] s
  | .arr es, a => ∃ items s, a = .arr items s ∧ RepE es items
  | .obj0 _, a => ∃ s, a = .obj [] s
  | .obj ms, a => ∃ props s, a = .obj props s ∧ RepM ms props
def RepE : Elems → List Ast → Prop
  | .last _ v _ _, l => ∃ a, l = [a] ∧ RepV v a
  | .cons _ v _ rest, l => ∃ a t, l = a :: t ∧ RepV v a ∧ RepE rest t
def RepM : Members → List (List Nat × Bool × Ast) → Prop
  | .last _ k _ _ v _ _, l => ∃ a, l = [propOf objExt k a] ∧ RepV v a
  | .cons _ k _ _ v _ rest, l => ∃ a t, l = propOf objExt k a :: t ∧ RepV v a ∧ RepM rest t
end
end

/-! ## the loops, one round -/

theorem arrLoop_succ (o : Opts) (P : Params) (n : Nat) (L : Lx) (items : List Ast) (single : Bool) :
    arrLoop o P (n + 1) L items single =
      if L.tok = .closeBracket then
        (closeStep o P L .closeBracket single).bind fun (s, L1) => .ok (.arr items s, L1)
      else
        (sepStep o P L .closeBracket (!items.isEmpty) single).bind fun r =>
          match r with
          | .brk s L1 => (closeStep o P L1 .closeBracket s).bind fun (s, L2) => .ok (.arr items s, L2)
          | .go s L1 => (parseExpr o P n L1).bind fun p => arrLoop o P n p.2 (items ++ [p.1]) s := by
  rw [arrLoop]
  split
  · rfl
  · cases h : sepStep o P L .closeBracket (!items.isEmpty) single with
    | ok r =>
      cases r with
      | brk s L1 => rfl
      | go s L1 =>
        simp only [R.bind_ok]
        cases parseExpr o P n L1 with
        | ok p => rfl
        | panic l => rfl
        | crash => rfl
    | panic l => rfl
    | crash => rfl

theorem objLoop_succ (o : Opts) (P : Params) (n : Nat) (L : Lx) (props : List (List Nat × Bool × Ast))
    (seen : List (List Nat)) (single : Bool) :
    objLoop o P (n + 1) L props seen single =
      if L.tok = .closeBrace then
        (closeStep o P L .closeBrace single).bind fun (s, L1) => .ok (.obj props s, L1)
      else
        (sepStep o P L .closeBrace (!props.isEmpty) single).bind fun r =>
          match r with
          | .brk s L1 => (closeStep o P L1 .closeBrace s).bind fun (s, L2) => .ok (.obj props s, L2)
          | .go s L1 =>
            (keyStep o P L1 seen).bind fun ks =>
              (parseExpr o P n ks.2.2).bind fun p =>
                objLoop o P n p.2 (props ++ [(ks.1, decide (ks.1 = protoKey) && o.objExt, p.1)]) ks.2.1 s := by
  rw [objLoop]
  split
  · rfl
  · cases h : sepStep o P L .closeBrace (!props.isEmpty) single with
    | ok r =>
      cases r with
      | brk s L1 => rfl
      | go s L1 =>
        simp only [R.bind_ok]
        cases keyStep o P L1 seen with
        | ok ks =>
          obtain ⟨key, seen', L2⟩ := ks
          simp only [R.bind_ok]
          cases parseExpr o P n L2 with
          | ok p => rfl
          | panic l => rfl
          | crash => rfl
        | panic l => rfl
        | crash => rfl
    | panic l => rfl
    | crash => rfl

end EsbuildModel.Json
