import EsbuildModel.Impl.SmParse
/-!
Helper lemmas about the `mappings` loop of `Impl/SmParse.lean`: a Hoare-style rule for one round (`Good`) and for
the loop (`loop_good`), instantiated later with the safety and the sortedness invariant.
-/
namespace EsbuildModel.SmParse
open Vlq

/-! ### int32 -/

def InI32 (x : Int) : Prop := -2147483648 ≤ x ∧ x < 2147483648

theorem wrap32_range (x : Int) : InI32 (wrap32 x) := by
  unfold InI32 wrap32; omega

theorem wrap32_id (x : Int) (h : InI32 x) : wrap32 x = x := by
  unfold InI32 at h; unfold wrap32; omega

theorem wrap32_nat (n : Nat) (h : n < 2147483648) : wrap32 (n : Int) = n := by
  apply wrap32_id; unfold InI32; omega

/-- adding a non-negative int32 to an int32: either no wrap, or the result is negative -/
theorem wrap32_add_nonneg (x d : Int) (hx : InI32 x) (hd : InI32 d) (h0 : 0 ≤ d) (hr : ¬ wrap32 (x + d) < 0) :
    wrap32 (x + d) = x + d := by
  unfold InI32 at hx hd; unfold wrap32 at *; omega

/-! ### `DecodeVLQUTF16` consumes at least one unit, never more than there are, and returns an int32 -/

theorem scan16_length (alpha : List Nat) (l : List Nat) : ∀ (shift : Nat) (vlq : BitVec 32) (r : BitVec 32) (rest : List Nat),
    scan16 alpha shift vlq l = some (r, rest) → rest.length < l.length := by
  induction l with
  | nil => intro shift vlq r rest h; simp [scan16] at h
  | cons u us ih =>
    intro shift vlq r rest h
    unfold scan16 at h
    simp only at h
    split at h
    · cases h
    · split at h
      · cases h; simp
      · have := ih _ _ _ _ h
        simp only [List.length_cons]; omega

theorem decodeUTF16_spec (alpha : List Nat) (l : List Nat) (v : Int) (n : Nat)
    (h : decodeUTF16 alpha l = some (v, n)) : 1 ≤ n ∧ n ≤ l.length ∧ InI32 v := by
  unfold decodeUTF16 at h
  split at h
  · cases h
  · next vlq rest hs =>
    have hl := scan16_length alpha l 0 0 vlq rest hs
    simp only [Option.some.injEq, Prod.mk.injEq] at h
    obtain ⟨hv, hn⟩ := h
    refine ⟨by omega, by omega, ?_⟩
    subst hv
    unfold InI32
    have h1 := @BitVec.toInt_lt 32 (if vlq &&& 1 ≠ 0 then -vlq.sshiftRight 1 else vlq.sshiftRight 1)
    have h2 := @BitVec.le_toInt 32 (if vlq &&& 1 ≠ 0 then -vlq.sshiftRight 1 else vlq.sshiftRight 1)
    simp only [Nat.reduceSub] at h1 h2
    constructor <;> omega

/-- what a successful `decAt` tells -/
theorem decAt_some (units : List Nat) (cur : Nat) (v : Int) (i : Nat)
    (h : decAt units cur = some (some (v, i))) : 1 ≤ i ∧ cur + i ≤ units.length ∧ InI32 v := by
  unfold decAt at h
  split at h
  · cases h
  · next hgt =>
    simp only [Option.some.injEq] at h
    have := decodeUTF16_spec _ _ _ _ h
    simp only [List.length_drop] at this
    refine ⟨this.1, by omega, this.2.2⟩

theorem decAt_ne_none (units : List Nat) (cur : Nat) (h : cur ≤ units.length) : decAt units cur ≠ none := by
  unfold decAt; split
  · omega
  · simp

/-! ### one round -/

/-- postcondition of one round that started at `current = cur0` -/
def Good (len cur0 : Nat) (P : Loop → Prop) : Step → Prop
  | .next s' => P s' ∧ cur0 < s'.current ∧ s'.current ≤ len
  | .done s' => P s' ∧ cur0 < s'.current ∧ s'.current ≤ len
  | .fail _ _ _ => True
  | .panic => False

/-- the mapping appended by `finish` -/
def mk (s : Loop) (name : Option Nat) : Mapping :=
  { genLine := s.genLine, genCol := s.genCol, srcIdx := s.srcIdx, origLine := s.origLine, origCol := s.origCol,
    name := name }

theorem finish_good (c : Consts) (s : Loop) (name : Option Nat) (P : Loop → Prop) (cur0 : Nat)
    (hcur : cur0 < s.current) (hle : s.current ≤ c.units.length)
    (hP : ∀ cur', s.current ≤ cur' → cur' ≤ c.units.length →
      P { s with current := cur', out := s.out ++ [mk s name] }) :
    Good c.units.length cur0 P (finish c s name) := by
  unfold finish
  by_cases hlt : s.current < c.units.length
  · simp only [hlt, if_true, List.getElem?_eq_getElem hlt]
    by_cases h44 : c.units[s.current] = 44
    · simp only [h44, if_true]
      exact ⟨hP (s.current + 1) (by omega) (by omega), by show cur0 < s.current + 1; omega, by show s.current + 1 ≤ _; omega⟩
    · simp only [h44, if_false]
      by_cases h59 : c.units[s.current] = 59
      · simp only [h59, ne_eq, not_true_eq_false, if_false]
        exact ⟨hP s.current (by omega) (by omega), hcur, hle⟩
      · simp only [ne_eq, h59, not_false_eq_true, if_true]
        trivial
  · simp only [hlt, if_false]
    exact ⟨hP s.current (by omega) (by omega), hcur, hle⟩


/-- `s'` is `t` plus one appended mapping that has passed all the checks of the round -/
def Appended (c : Consts) (t s' : Loop) : Prop :=
  s'.genLine = t.genLine ∧ s'.genCol = t.genCol ∧ s'.needSort = t.needSort ∧
  ∃ name, s'.out = t.out ++ [⟨t.genLine, t.genCol, s'.srcIdx, s'.origLine, s'.origCol, name⟩] ∧
    c.sourceOffset ≤ s'.srcIdx ∧ s'.srcIdx < wrap32 (c.sourceOffset + wrap32 c.sourcesLen) ∧
    0 ≤ s'.origLine ∧ 0 ≤ s'.origCol ∧
    (name = none ∨ (c.nameOffset ≤ s'.origName ∧ s'.origName < wrap32 (c.nameOffset + wrap32 c.namesLen) ∧
      name = index32 s'.origName))

/-- `s` differs from `t` only in `current` and the original-position variables -/
def Agree (t s : Loop) : Prop :=
  s.genLine = t.genLine ∧ s.genCol = t.genCol ∧ s.needSort = t.needSort ∧ s.out = t.out

theorem finish_char (c : Consts) (t s : Loop) (name : Option Nat) (cur0 : Nat) (hag : Agree t s)
    (hcur : cur0 < s.current) (hle : s.current ≤ c.units.length)
    (h1 : c.sourceOffset ≤ s.srcIdx) (h2 : s.srcIdx < wrap32 (c.sourceOffset + wrap32 c.sourcesLen))
    (h3 : 0 ≤ s.origLine) (h4 : 0 ≤ s.origCol)
    (h5 : name = none ∨ (c.nameOffset ≤ s.origName ∧ s.origName < wrap32 (c.nameOffset + wrap32 c.namesLen) ∧
      name = index32 s.origName)) :
    Good c.units.length cur0 (Appended c t) (finish c s name) := by
  apply finish_good c s name _ cur0 hcur hle
  intro cur' _ _
  obtain ⟨a1, a2, a3, a4⟩ := hag
  refine ⟨a1, a2, a3, name, ?_, h1, h2, h3, h4, h5⟩
  show s.out ++ [mk s name] = _
  rw [a4, mk, a1, a2]

theorem stepName_char (c : Consts) (t s : Loop) (cur0 : Nat) (hag : Agree t s)
    (hcur : cur0 < s.current) (hle : s.current ≤ c.units.length)
    (h1 : c.sourceOffset ≤ s.srcIdx) (h2 : s.srcIdx < wrap32 (c.sourceOffset + wrap32 c.sourcesLen))
    (h3 : 0 ≤ s.origLine) (h4 : 0 ≤ s.origCol) :
    Good c.units.length cur0 (Appended c t) (stepName c s) := by
  unfold stepName
  split
  · next h => exact absurd h (decAt_ne_none _ _ hle)
  · exact finish_char c t s none cur0 hag hcur hle h1 h2 h3 h4 (Or.inl rfl)
  · next delta i h =>
    have hd := decAt_some _ _ _ _ h
    simp only
    split
    · trivial
    · next hchk =>
      have hag' : Agree t { s with current := s.current + i, origName := wrap32 (s.origName + delta) } := hag
      apply finish_char c t _ _ cur0 hag' (by show cur0 < s.current + i; omega) (by show s.current + i ≤ _; omega) h1 h2 h3 h4
      right
      refine ⟨by show c.nameOffset ≤ wrap32 (s.origName + delta); omega,
        by show wrap32 (s.origName + delta) < _; omega, rfl⟩

theorem stepSource_char (c : Consts) (t : Loop) (cur0 : Nat)
    (hcur : cur0 < t.current) (hle : t.current ≤ c.units.length) :
    Good c.units.length cur0 (Appended c t) (stepSource c t) := by
  unfold stepSource
  split
  · next h => exact absurd h (decAt_ne_none _ _ hle)
  · trivial
  · next d1 i1 h =>
    have hd1 := decAt_some _ _ _ _ h
    simp only
    split
    · trivial
    · next hchk1 =>
      split
      · next h => exact absurd h (decAt_ne_none _ _ (by show t.current + i1 ≤ _; omega))
      · trivial
      · next d2 i2 h =>
        have hd2 := decAt_some _ _ _ _ h
        split
        · trivial
        · next hchk2 =>
          split
          · next h => exact absurd h (decAt_ne_none _ _ (by show t.current + i1 + i2 ≤ _; omega))
          · trivial
          · next d3 i3 h =>
            have hd3 := decAt_some _ _ _ _ h
            split
            · trivial
            · next hchk3 =>
              have key := stepName_char c t ⟨t.current + i1 + i2 + i3, t.genLine, t.genCol, wrap32 (t.srcIdx + d1),
                wrap32 (t.origLine + d2), wrap32 (t.origCol + d3), t.origName, t.needSort, t.out⟩ cur0 ⟨rfl, rfl, rfl, rfl⟩
              apply key
              · show cur0 < t.current + i1 + i2 + i3; omega
              · show t.current + i1 + i2 + i3 ≤ _; omega
              · show c.sourceOffset ≤ wrap32 (t.srcIdx + d1); omega
              · show wrap32 (t.srcIdx + d1) < _; omega
              · show 0 ≤ wrap32 (t.origLine + d2); omega
              · show 0 ≤ wrap32 (t.origCol + d3); omega


theorem Good.mono {len cur0 : Nat} {P Q : Loop → Prop} {r : Step} (h : Good len cur0 P r) (hpq : ∀ s, P s → Q s) :
    Good len cur0 Q r := by
  cases r with
  | next s => exact ⟨hpq _ h.1, h.2⟩
  | done s => exact ⟨hpq _ h.1, h.2⟩
  | fail => trivial
  | panic => exact h

/-- the generated column has been read and has passed its check -/
def ColRead (c : Consts) (s t : Loop) : Prop :=
  ∃ delta, InI32 delta ∧ t.genLine = s.genLine ∧ t.genCol = wrap32 (s.genCol + delta) ∧
    t.needSort = (s.needSort || decide (delta < 0)) ∧ t.out = s.out ∧
    ¬ ((t.genLine = c.lineOffset ∧ t.genCol < c.columnOffset) ∨ t.genCol < 0)

/-- what one round that does not fail does to the loop variables the invariants talk about -/
def StepRel (c : Consts) (s s' : Loop) : Prop :=
  (s'.genLine = wrap32 (s.genLine + 1) ∧ s'.genCol = 0 ∧ s'.needSort = s.needSort ∧ s'.out = s.out ∧
    s'.current = s.current + 1)
  ∨ ColRead c s s'
  ∨ ∃ t, ColRead c s t ∧ Appended c t s'

theorem step_char (c : Consts) (s : Loop) (hlt : s.current < c.units.length) :
    Good c.units.length s.current (StepRel c s) (step c s) := by
  unfold step
  simp only [List.getElem?_eq_getElem hlt]
  split
  · exact ⟨Or.inl ⟨rfl, rfl, rfl, rfl, rfl⟩, by show s.current < s.current + 1; omega, by show s.current + 1 ≤ _; omega⟩
  · split
    · next h => exact absurd h (decAt_ne_none _ _ (by omega))
    · trivial
    · next delta i h =>
      have hd := decAt_some _ _ _ _ h
      split
      · trivial
      · next hchk =>
        have hcr : ∀ cur', ColRead c s ⟨cur', s.genLine, wrap32 (s.genCol + delta), s.srcIdx, s.origLine, s.origCol,
            s.origName, s.needSort || decide (delta < 0), s.out⟩ :=
          fun cur' => ⟨delta, hd.2.2, rfl, rfl, rfl, rfl, hchk⟩
        split
        · exact ⟨Or.inr (Or.inl (hcr _)), by show s.current < s.current + i; omega, by show s.current + i ≤ _; omega⟩
        · next hne =>
          have hlt2 : s.current + i < c.units.length := by
            have : s.current + i ≠ c.units.length := hne
            omega
          simp only [List.getElem?_eq_getElem hlt2]
          split
          · exact ⟨Or.inr (Or.inl (hcr _)), by show s.current < s.current + i + 1; omega,
              by show s.current + i + 1 ≤ _; omega⟩
          · split
            · exact ⟨Or.inr (Or.inl (hcr _)), by show s.current < s.current + i; omega,
                by show s.current + i ≤ _; omega⟩
            · apply Good.mono (stepSource_char c _ s.current (by show s.current < s.current + i; omega)
                (by show s.current + i ≤ _; omega))
              intro s' hs'
              exact Or.inr (Or.inr ⟨_, hcr _, hs'⟩)

/-- postconditions as functions of the result (so that `split` looks inside the computation) -/
def LoopPost (Q : Loop → Prop) : LoopResult → Prop
  | .ok s => Q s
  | .err _ _ _ => True
  | .panic => False
  | .hang => False

def SecPost (Q : Acc → Prop) : SecResult → Prop
  | .ok a => Q a
  | .err _ _ _ => True
  | .panic => False
  | .hang => False

theorem LoopPost.mono {P Q : Loop → Prop} {r : LoopResult} (h : LoopPost P r) (hpq : ∀ s, P s → Q s) : LoopPost Q r := by
  cases r with
  | ok s => exact hpq s h
  | err => trivial
  | panic => exact h
  | hang => exact h

/-- Hoare rule for the loop: an invariant that survives every non-failing round holds at the end, and the loop
neither panics nor runs out of fuel -/
theorem loop_good (c : Consts) (P : Loop → Prop)
    (hstep : ∀ s s', P s → s.current < c.units.length → s.current < s'.current → s'.current ≤ c.units.length →
      StepRel c s s' → P s') :
    ∀ (fuel : Nat) (s : Loop), P s → s.current ≤ c.units.length → c.units.length - s.current < fuel →
      LoopPost P (loop c fuel s) := by
  intro fuel
  induction fuel with
  | zero => intro s _ _ h; omega
  | succ fuel ih =>
    intro s hP hle hfuel
    unfold loop
    by_cases hlt : s.current < c.units.length
    · simp only [hlt, if_true]
      have hg := step_char c s hlt
      cases hst : step c s with
      | next s' =>
        rw [hst] at hg
        obtain ⟨hrel, h1, h2⟩ := hg
        exact ih s' (hstep s s' hP hlt h1 h2 hrel) h2 (by omega)
      | done s' =>
        rw [hst] at hg
        obtain ⟨hrel, h1, h2⟩ := hg
        exact hstep s s' hP hlt h1 h2 hrel
      | fail s' e len => trivial
      | panic => rw [hst] at hg; exact hg
    · simp only [hlt, if_false]
      exact hP

end EsbuildModel.SmParse
