import EsbuildModel.Lemmas.CssBoxSide
/-
The semantic core of `mangleSide`: after recording a single-side declaration the invariant holds again and the cascade
of the rule list gained exactly the contribution of that declaration.
-/
namespace EsbuildModel.CssBox
open EsbuildModel.Spec.BoxCascade

section
variable {V : Type} {B : Browser Tok V} {F : Family} {ds : List CssBox.Decl}

theorem side_update (hB : CssFacts B F) {box : Tracker} {rules : List (Option CssBox.Decl)} (h : TInv B F ds box rules)
    (d : CssBox.Decl) (x : Side) (t : Token) (himp : box.important = d.important) (hk : d.key = .box F (.side x))
    (hv : d.value = [t]) (ht : TrackerAccepts F t) (hown : Own ds F rules.length) :
    TInv B F ds
      { box with sides := (box.sides.put x
          ({ token := sideToken (sideSafety (famAllowAuto F) t) t, unitSafety := sideSafety (famAllowAuto F) t,
             ruleIndex := rules.length, wasSingleRule := true } : BoxSide)) }
      (sideRules (box.sides.get x) (sideSafety (famAllowAuto F) t)
        (rules ++ [some { d with value := [sideToken (sideSafety (famAllowAuto F) t) t] }])) ∧
    ∀ s imp, LS B F (sideRules (box.sides.get x) (sideSafety (famAllowAuto F) t)
        (rules ++ [some { d with value := [sideToken (sideSafety (famAllowAuto F) t) t] }])) s imp =
      (cD B F s imp d).or (LS B F rules s imp) := by
  obtain ⟨ht', hok', hden', hsafe', hud', hcls'⟩ := sideToken_spec hB t ht
  generalize hU : sideSafety (famAllowAuto F) t = U at *
  generalize ht'' : sideToken U t = t' at *
  generalize he : ({ d with value := [t'] } : CssBox.Decl) = e
  have hek : e.key = .box F (.side x) := by rw [← he]; exact hk
  have hei : e.important = d.important := by rw [← he]
  have hev : e.value = [t'] := by rw [← he]
  -- contributions of the new slot
  have hce : ∀ s imp, cD B F s imp e =
      if d.important = imp ∧ okT B t' = true ∧ x = s then some (.known (B.den t'.core)) else none := by
    intro s imp; rw [cD_side hB s x imp e t' hek hev ht', hei]
  have hcd : ∀ s imp, cD B F s imp d = cD B F s imp e := by
    intro s imp; rw [hce, cD_side hB s x imp d t hk hv ht, hok', hden']
  generalize hold : box.sides.get x = old at *
  have hlen2 : (rules ++ [some e]).length = rules.length + 1 := by simp
  -- the removal condition and what it implies
  have hrem : (old.present = true ∧ old.wasSingleRule = true ∧ old.unitSafety.status = .safe ∧ U.status = .safe) →
      old.ruleIndex < rules.length ∧
      (∀ s imp, cAt B F rules s imp old.ruleIndex ≠ none → s = x ∧ box.important = imp) ∧ okT B t' = true := by
    intro hc
    have hp : (box.sides.get x).present = true := by rw [hold]; exact hc.1
    obtain ⟨v, _, _, h3⟩ := h.value x hp
    rw [hold] at h3
    refine ⟨by have := (h.pres x hp).1; rw [hold] at this; exact this, ?_, hsafe' hc.2.2.2⟩
    intro s imp hne
    refine ⟨?_, (h3 s imp hne).2⟩
    apply Classical.byContradiction
    intro hsx
    have := h.single x hp (by rw [hold]; exact hc.2.1) s imp hsx
    rw [hold] at this
    exact hne this
  -- contributions of the slots of the new list
  have hcat : ∀ s imp j, cAt B F (sideRules old U (rules ++ [some e])) s imp j =
      if (old.present = true ∧ old.wasSingleRule = true ∧ old.unitSafety.status = .safe ∧ U.status = .safe) ∧ j = old.ruleIndex
      then none
      else if j < rules.length then cAt B F rules s imp j
      else if j = rules.length then cD B F s imp e else none := by
    intro s imp j
    have hbase : cAt B F (rules ++ [some e]) s imp j =
        if j < rules.length then cAt B F rules s imp j else if j = rules.length then cD B F s imp e else none := by
      by_cases h1 : j < rules.length
      · rw [if_pos h1, cAt_append_left B F _ _ s imp j h1]
      · rw [if_neg h1]
        by_cases h2 : j = rules.length
        · rw [if_pos h2, h2, cAt_concat_last]; rfl
        · rw [if_neg h2]; exact cAt_ge B F _ s imp j (by simp; omega)
    unfold sideRules
    by_cases hc : old.present = true ∧ old.wasSingleRule = true ∧ old.unitSafety.status = .safe ∧ U.status = .safe
    · rw [if_pos hc, cAt_set]
      have hi := (hrem hc).1
      by_cases hj : j = old.ruleIndex
      · rw [if_pos ⟨hj.symm, by rw [hlen2]; omega⟩, if_pos ⟨hc, hj⟩]; rfl
      · rw [if_neg (fun h' => hj h'.1.symm), if_neg (fun h' => hj h'.2)]; exact hbase
    · rw [if_neg hc, if_neg (fun h' => hc h'.1)]; exact hbase
  refine ⟨⟨h.kt, h.aa, ?_, ?_, ?_, ?_, ?_, ?_⟩, ?_⟩
  · -- pres
    intro s hs
    simp only [Sides.get_put] at hs ⊢
    by_cases hsx : s = x
    · simp only [hsx, if_true]
      refine ⟨?_, hown, ht'⟩
      unfold sideRules; split <;> simp
    · simp only [hsx, if_false] at hs ⊢
      obtain ⟨a, c, e'⟩ := h.pres s hs
      refine ⟨?_, c, e'⟩
      unfold sideRules; split <;> simp <;> omega
  · -- latest
    intro s hs i hi imp
    simp only [Sides.get_put] at hs hi
    rw [hcat]
    by_cases hsx : s = x
    · simp only [hsx, if_true] at hi
      split
      · rfl
      · rw [if_neg (by omega), if_neg (by omega)]
    · simp only [hsx, if_false] at hs hi
      split
      · rfl
      · by_cases h1 : i < rules.length
        · rw [if_pos h1]; exact h.latest s hs i hi imp
        · rw [if_neg h1]
          by_cases h2 : i = rules.length
          · rw [if_pos h2, hce, if_neg (fun h' => hsx h'.2.2.symm)]
          · rw [if_neg h2]
  · -- value
    intro s hs
    simp only [Sides.get_put] at hs ⊢
    by_cases hsx : s = x
    · simp only [hsx, if_true]
      refine ⟨okT B t', hcls', ?_, ?_⟩
      · intro imp
        rw [hcat, if_neg (fun h' => by have := (hrem h'.1).1; omega), if_neg (by omega), if_pos rfl, hce, himp]
        by_cases hc : d.important = imp ∧ okT B t' = true <;> simp [hc]
      · intro s' imp hne
        rw [hcat, if_neg (fun h' => by have := (hrem h'.1).1; omega), if_neg (by omega), if_pos rfl, hce] at hne
        by_cases hc : d.important = imp ∧ okT B t' = true ∧ x = s'
        · exact ⟨hc.2.1, by rw [himp]; exact hc.1⟩
        · rw [if_neg hc] at hne; exact absurd rfl hne
    · simp only [hsx, if_false] at hs ⊢
      obtain ⟨v, h1, h2, h3⟩ := h.value s hs
      have hlt := (h.pres s hs).1
      by_cases hr : (old.present = true ∧ old.wasSingleRule = true ∧ old.unitSafety.status = .safe ∧ U.status = .safe) ∧
          (box.sides.get s).ruleIndex = old.ruleIndex
      · -- the slot of `s` is the removed single-side declaration of `x`: it never contributed to `s`
        have hnone : ∀ imp, cAt B F rules s imp (box.sides.get s).ruleIndex = none := by
          intro imp
          apply Classical.byContradiction
          intro hne
          rw [hr.2] at hne
          exact hsx ((hrem hr.1).2.1 s imp hne).1
        have hvf : v = false := by
          cases v with
          | false => rfl
          | true =>
            have := h2 box.important
            rw [hnone] at this
            simp at this
        refine ⟨v, h1, ?_, ?_⟩
        · intro imp; rw [hcat, if_pos hr, hvf]; simp
        · intro s' imp hne; rw [hcat, if_pos hr] at hne; exact absurd rfl hne
      · refine ⟨v, h1, ?_, ?_⟩
        · intro imp; rw [hcat, if_neg hr, if_pos hlt]; exact h2 imp
        · intro s' imp hne; rw [hcat, if_neg hr, if_pos hlt] at hne; exact h3 s' imp hne
  · -- single
    intro s hs hsingle s' imp hne
    simp only [Sides.get_put] at hs hsingle ⊢
    rw [hcat]
    by_cases hsx : s = x
    · simp only [hsx, if_true]
      split
      · rfl
      · simp only [Nat.lt_irrefl, if_false]
        rw [hce, if_neg (fun h' => hne (by rw [← h'.2.2, hsx]))]
    · simp only [hsx, if_false] at hs hsingle ⊢
      split
      · rfl
      · rw [if_pos (h.pres s hs).1]; exact h.single s hs hsingle s' imp hne
  · -- tokclass
    intro s hs
    simp only [Sides.get_put] at hs ⊢
    by_cases hsx : s = x
    · simp only [hsx, if_true]
      exact ⟨hsafe', fun hu => Or.inr (hud' hu)⟩
    · simp only [hsx, if_false] at hs ⊢
      exact h.tokclass s hs
  · -- witness
    intro s hs hst
    simp only [Sides.get_put] at hs hst ⊢
    by_cases hsx : s = x
    · simp only [hsx, if_true] at hst ⊢
      refine ⟨x, Or.inr (Or.inr ?_)⟩
      simp only [if_true]
      exact hud' hst
    · simp only [hsx, if_false] at hs hst ⊢
      obtain ⟨s', hs'⟩ := h.witness s hs hst
      refine ⟨s', ?_⟩
      by_cases hs'x : s' = x
      · simp only [hs'x, if_true]
        by_cases hsame : U.status = .unsafeSingle ∧ U.unit = (box.sides.get s).unitSafety.unit
        · right; right; rw [← hsame.2]; exact hud' hsame.1
        · right; left; exact hsame
      · simp only [hs'x, if_false]; exact hs'
  · -- the cascade
    intro s imp
    have hconcat : LS B F (rules ++ [some e]) s imp = (cD B F s imp d).or (LS B F rules s imp) := by
      rw [LS_concat, hcd]; rfl
    unfold sideRules
    by_cases hc : old.present = true ∧ old.wasSingleRule = true ∧ old.unitSafety.status = .safe ∧ U.status = .safe
    · rw [if_pos hc]
      obtain ⟨hi, hdom, hokt⟩ := hrem hc
      rw [LS_set_none_of_dominated (l := rules ++ [some e]) (i := old.ruleIndex) (n := rules.length) (by simp) hi ?_ s imp]
      · exact hconcat
      · intro s2 imp2 hne
        rw [cAt_append_left B F _ _ s2 imp2 _ hi] at hne
        obtain ⟨e1, e2⟩ := hdom s2 imp2 hne
        rw [cAt_concat_last]
        show cD B F s2 imp2 e ≠ none
        rw [hce, if_pos ⟨by rw [← himp]; exact e2, hokt, e1.symm⟩]
        simp
    · rw [if_neg hc]; exact hconcat

end
end EsbuildModel.CssBox
