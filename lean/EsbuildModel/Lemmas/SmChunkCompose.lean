import EsbuildModel.Lemmas.SmChunkRemap
import EsbuildModel.Lemmas.SmJoinDecode
import EsbuildModel.Lemmas.SmJoinLink
/-!
A whole `ChunkBuilder` run with an input source map denotes the composition of the printer's mappings with the
input map: `remap_is_lookup` lifted along `translate`, and `decode_encEvs` for the bytes.
-/
namespace EsbuildModel.SmChunk
open Spec.SourceMapCompose Spec.SourceMapV3 SmJoin

/-- what the PRINTER asks to record: at the generated position reached so far, the position in the file it read
(and the name it saw there; the empty string is "no name") -/
def stepsOf : Nat → Int → List PEv → List (Step Bytes)
  | _, _, [] => []
  | l, _, .newline :: es => stepsOf (l + 1) 0 es
  | l, c, .cols k :: es => stepsOf l (c + k) es
  | l, c, .call il ic n :: es => ⟨(l : Int), c, il, ic, if n = [] then none else some n⟩ :: stepsOf l c es

/-- a decoded segment of the chunk as an entry, its name looked up in the chunk's names -/
def segEntry (names : List Bytes) (s : Seg) : Option (Entry Int Bytes) :=
  s.orig.map fun o => ⟨(s.genLine : Int), s.genCol, o.src, o.line, o.col, o.name.bind fun i => names[i.toNat]?⟩

/-- no entry of `names` is the empty string -/
def NoEmptyNames (im : InputMap) : Prop := ∀ n ∈ im.names, n ≠ []

theorem coverEv_false (s : LSt) (b : Bool) : coverEv false s b = [] := by
  unfold coverEv
  split <;> simp

theorem getElem?_append_of_some {α : Type} {a : List α} {i : Nat} {x : α} (h : a[i]? = some x) (b : List α) :
    (a ++ b)[i]? = some x := by
  have : i < a.length := by
    rcases Nat.lt_or_ge i a.length with h' | h'
    · exact h'
    · rw [List.getElem?_eq_none h'] at h; cases h
  rw [List.getElem?_append_left this]; exact h

theorem lastLE_mem {σ ν : Type} (line col : Int) : ∀ (L : List (Entry σ ν)) (e : Entry σ ν),
    lastLE line col L = some e → e ∈ L := by
  intro L
  induction L with
  | nil => intro e h; simp [lastLE] at h
  | cons x rest ih =>
    intro e h
    simp only [lastLE] at h
    cases hr : lastLE line col rest with
    | some e' =>
      rw [hr] at h
      cases h
      exact List.mem_cons_of_mem _ (ih e hr)
    | none =>
      rw [hr] at h
      simp only at h
      split at h
      · cases h; exact List.mem_cons_self
      · cases h

theorem lookup_mem {σ ν : Type} (L : List (Entry σ ν)) (line col : Int) (e : Entry σ ν)
    (h : lookup L line col = some e) : e ∈ L := by
  unfold lookup at h
  cases hl : lastLE line col L with
  | none => rw [hl] at h; cases h
  | some e' =>
    rw [hl] at h
    simp only at h
    split at h
    · cases h; exact lastLE_mem line col L e hl
    · cases h

theorem denote_name_mem (im : InputMap) (e : Entry Int Bytes) (he : e ∈ denote im) (n : Bytes)
    (hn : e.name = some n) : n ∈ im.names := by
  simp only [denote, List.mem_map] at he
  obtain ⟨m, _, rfl⟩ := he
  simp only at hn
  cases hm : m.name with
  | none => rw [hm] at hn; cases hn
  | some i =>
    rw [hm] at hn
    simp only [Option.bind_some] at hn
    exact List.mem_of_getElem? hn

theorem compose_cons {σ ν : Type} (s : Step ν) (b : List (Step ν)) (a : List (Entry σ ν)) :
    compose (s :: b) a =
      match lookup a s.iline s.icol with
      | none => compose b a
      | some e => { gline := s.gline, gcol := s.gcol, source := e.source, oline := e.oline, ocol := e.ocol,
                    name := match e.name with
                      | some n => some n
                      | none => s.name } :: compose b a := by
  unfold compose
  rw [List.filterMap_cons]
  cases lookup a s.iline s.icol <;> rfl

theorem segsOf_allSrc : ∀ (evs : List Ev) (line : Nat), AllSrc evs → ∀ s ∈ segsOf line evs, s.orig.isSome = true := by
  intro evs
  induction evs with
  | nil => intro line _ s hs; simp [segsOf] at hs
  | cons e es ih =>
    intro line h s hs
    cases e with
    | nl => exact ih (line + 1) h s hs
    | seg c o =>
      simp only [segsOf, List.mem_cons] at hs
      rcases hs with rfl | hs
      · exact h.1
      · exact ih line h.2 s hs

/-- the name recorded for a call, read back through any later names table, is the name the composition gives -/
theorem name_agrees (im : InputMap) (he : NoEmptyNames im) (e : Entry Int Bytes) (hmem : e ∈ denote im)
    (n : Bytes) (r : Resolved) (names1 final : List Bytes) (hfin : ∃ ext, final = names1 ++ ext)
    (hname : if (match e.name with | some n' => n' | none => n) = [] then r.name = none ∧ True
             else ∃ i : Nat, r.name = some (i : Int) ∧ names1[i]? = some (match e.name with | some n' => n' | none => n)) :
    (r.name.bind fun i => final[i.toNat]?) =
      (match e.name with
       | some n' => some n'
       | none => if n = [] then none else some n) := by
  obtain ⟨ext, rfl⟩ := hfin
  cases hen : e.name with
  | none =>
    rw [hen] at hname
    simp only at hname
    by_cases hn : n = []
    · simp only [hn, if_true] at hname ⊢
      rw [hname.1]; rfl
    · simp only [hn, if_false] at hname ⊢
      obtain ⟨i, hi, hget⟩ := hname
      rw [hi]
      simp only [Option.bind_some, Int.toNat_natCast]
      exact getElem?_append_of_some hget ext
  | some n' =>
    rw [hen] at hname
    simp only at hname
    have hne : n' ≠ [] := he n' (denote_name_mem im e hmem n' hen)
    simp only [hne, if_false] at hname
    obtain ⟨i, hi, hget⟩ := hname
    rw [hi]
    simp only [Option.bind_some, Int.toNat_natCast]
    exact getElem?_append_of_some hget ext

theorem translate_compose (im : InputMap) (hs : SortedArr im.mappings) (hn : NamesInRange im)
    (he : NoEmptyNames im) :
    ∀ (evs : List PEv) (names : List Bytes) (line : Nat) (s : LSt),
    ∃ bevs names', translate (some im) names evs = some (bevs, names') ∧ (∃ ext, names' = names ++ ext) ∧
      ∀ final, (∃ ext, final = names' ++ ext) →
        (segsOf line (lowerFrom false s bevs)).filterMap (segEntry final) =
          compose (stepsOf line s.gc evs) (denote im) := by
  intro evs
  induction evs with
  | nil =>
    intro names line s
    exact ⟨[], names, rfl, ⟨[], by simp⟩, fun final _ => by simp [lowerFrom, segsOf, stepsOf, compose]⟩
  | cons ev es ih =>
    intro names line s
    cases ev with
    | newline =>
      obtain ⟨bevs, names', htr, hext, hP⟩ := ih names (line + 1) { s with gc := 0, lsm := false }
      refine ⟨.newline :: bevs, names', by simp [translate, htr], hext, ?_⟩
      intro final hf
      have := hP final hf
      simp only [lowerFrom, lowerStep, coverEv_false, List.nil_append, List.singleton_append, segsOf, stepsOf]
      exact this
    | cols k =>
      obtain ⟨bevs, names', htr, hext, hP⟩ := ih names line { s with gc := s.gc + k }
      refine ⟨.cols k :: bevs, names', by simp [translate, htr], hext, ?_⟩
      intro final hf
      have := hP final hf
      simp only [lowerFrom, lowerStep, List.nil_append, stepsOf]
      exact this
    | call il ic n =>
      obtain ⟨res, names1, hremap, ⟨ext1, hext1⟩, hmatch⟩ := remap_is_lookup im hs hn names il ic n
      cases hl : lookup (denote im) il ic with
      | none =>
        rw [hl] at hmatch
        simp only at hmatch
        obtain ⟨hres, hnames⟩ := hmatch
        subst hres
        subst hnames
        obtain ⟨bevs, names', htr, hext, hP⟩ := ih names1 line { s with lsm := true }
        refine ⟨.map none :: bevs, names', by simp [translate, hremap, htr], hext, ?_⟩
        intro final hf
        have := hP final hf
        simp only [lowerFrom, lowerStep, coverEv_false, List.nil_append, stepsOf]
        rw [compose_cons]
        simp only [hl]
        exact this
      | some e =>
        rw [hl] at hmatch
        simp only at hmatch
        obtain ⟨r, hres, h1, h2, h3, hname⟩ := hmatch
        subst hres
        obtain ⟨bevs, names', htr, ⟨ext2, hext2⟩, hP⟩ :=
          ih names1 line { s with lsm := true, prevOrig := some (r.src, r.line, r.col) }
        refine ⟨.map (some r) :: bevs, names', by simp [translate, hremap, htr],
          ⟨ext1 ++ ext2, by rw [hext2, hext1, List.append_assoc]⟩, ?_⟩
        intro final hf
        obtain ⟨ext3, hf3⟩ := hf
        have hrest := hP final ⟨ext3, hf3⟩
        have hfin1 : ∃ ext, final = names1 ++ ext := ⟨ext2 ++ ext3, by rw [hf3, hext2, List.append_assoc]⟩
        have hnm := name_agrees im he e (lookup_mem _ _ _ e hl) n r names1 final hfin1 (by
          cases hen : e.name with
          | none =>
            simp only [hen] at hname ⊢
            by_cases hc : n = []
            · rw [if_pos hc] at hname ⊢; exact ⟨hname.1, trivial⟩
            · rw [if_neg hc] at hname ⊢; exact hname
          | some n' =>
            simp only [hen] at hname ⊢
            by_cases hc : n' = []
            · rw [if_pos hc] at hname ⊢; exact ⟨hname.1, trivial⟩
            · rw [if_neg hc] at hname ⊢; exact hname)
        simp only [lowerFrom, lowerStep, coverEv_false, List.nil_append, List.singleton_append, segsOf, stepsOf,
          List.filterMap_cons]
        rw [compose_cons]
        simp only [hl, segEntry, Option.map_some]
        rw [hnm, h1, h2, h3]
        rw [h1, h2, h3] at hrest
        rw [hrest]
        cases e.name <;> rfl

/-- all segments recorded by a builder carry a source -/
theorem lower_all_orig (cover : Bool) (bevs : List BEv) : ∀ s ∈ segsOf 0 (lower cover bevs), s.orig.isSome = true :=
  segsOf_allSrc _ 0 (allSrc_lower cover bevs)

end EsbuildModel.SmChunk
