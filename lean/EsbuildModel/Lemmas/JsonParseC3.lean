import EsbuildModel.Lemmas.JsonParseC2
/-
Completeness of the parser: the values that are one token (`null`, `true`, `false`, strings) or a sign and a token
(numbers).
-/
namespace EsbuildModel.Json
open EsbuildModel.Spec.Json EsbuildModel.Spec.NumLit

theorem widths_cps_pos {l : List Char} (h : l ≠ []) : 0 < widths (cps l) := by
  cases l with
  | nil => exact absurd rfl h
  | cons c t => have := cpOf_w_pos c; simp only [cps_cons, widths_cons]; omega

/-- what completeness says for one value: the first token is lexed, `parseExpr` consumes exactly the value and ends
with the `Next` that reads the token after it, no error is logged -/
def ValDone (Rd : Rat → F64) (o : Opts) (P : Params) (n : Nat) (v : Val) (L0 : Lx) (sk : Sk) (rest : List Cp) : Prop :=
  ∃ L ast L1, lexAt o.flavor P L0 sk (cps v.render ++ rest) = .ok L ∧ L.tok ≠ .closeBracket ∧ L.tok ≠ .closeBrace ∧
    L.nl = sk.nl ∧ parseExpr o P n L = (next o.flavor P L1).bind (fun L' => .ok (ast, L')) ∧ L1.rest = rest ∧
    L1.log.Clean ∧ 0 < L1.end_ ∧ RepV Rd o.objExt v ast

section
variable {P : Params} {Rd : Rat → F64} (hP : ParamsOK P Rd) (o : Opts)
include hP

omit hP in
theorem simple_done (n : Nat) (v : Val) (L0 : Lx) (sk : Sk) (rest : List Cp) (t : Tok) (ast : Ast) (e : Nat)
    (hlex : lexAt o.flavor P L0 sk (cps v.render ++ rest) = .ok (L0.at sk t rest e))
    (ht : t ≠ .closeBracket ∧ t ≠ .closeBrace)
    (hparse : parseExpr o P (n + 1) (L0.at sk t rest e) = (next o.flavor P (L0.at sk t rest e)).bind (fun L' => .ok (ast, L')))
    (hcl : sk.log.Clean) (he : 0 < e) (hrep : RepV Rd o.objExt v ast) : ValDone Rd o P (n + 1) v L0 sk rest :=
  ⟨L0.at sk t rest e, ast, L0.at sk t rest e, hlex, ht.1, ht.2, rfl, hparse, rfl, hcl, he, hrep⟩

theorem word_done (n : Nat) (v : Val) (L0 : Lx) (sk : Sk) (rest : List Cp) (hv : v = .null ∨ v = .tt ∨ v = .ff)
    (hf : Follow rest) (hcl : sk.log.Clean) : ValDone Rd o P (n + 1) v L0 sk rest := by
  rcases hv with rfl | rfl | rfl
  · have := lexAt_word hP o.flavor L0 sk 'n' ['u', 'l', 'l'] .tNull rest (Or.inr (Or.inr ⟨rfl, rfl, rfl⟩)) hf
    have hw := widths_cps_pos (l := ['n', 'u', 'l', 'l']) (by simp)
    exact simple_done o n .null L0 sk rest .tNull .null _ this (by simp) (by simp [parseExpr, Lx.at]) hcl (by omega) rfl
  · have := lexAt_word hP o.flavor L0 sk 't' ['r', 'u', 'e'] .tTrue rest (Or.inl ⟨rfl, rfl, rfl⟩) hf
    have hw := widths_cps_pos (l := ['t', 'r', 'u', 'e']) (by simp)
    exact simple_done o n .tt L0 sk rest .tTrue (.bool true) _ this (by simp) (by simp [parseExpr, Lx.at]) hcl (by omega) rfl
  · have := lexAt_word hP o.flavor L0 sk 'f' ['a', 'l', 's', 'e'] .tFalse rest (Or.inr (Or.inl ⟨rfl, rfl, rfl⟩)) hf
    have hw := widths_cps_pos (l := ['f', 'a', 'l', 's', 'e']) (by simp)
    exact simple_done o n .ff L0 sk rest .tFalse (.bool false) _ this (by simp) (by simp [parseExpr, Lx.at]) hcl (by omega) rfl

omit hP in
theorem str_done (n : Nat) (cs : List SChar) (L0 : Lx) (sk : Sk) (rest : List Cp)
    (hok : strOk (dialectOf o.flavor) cs = true) (hcl : sk.log.Clean) : ValDone Rd o P (n + 1) (.str cs) L0 sk rest := by
  obtain ⟨L', L'', h1, h2, h3, h4⟩ := lexAt_string o.flavor P L0 sk cs hok rest
  have ht := Lx.view_tok h2
  have hw := widths_cps_pos (l := strTok cs) (by simp [strTok])
  refine ⟨L', .str (strUnits cs), L'', h1, by rw [ht]; simp, by rw [ht]; simp, Lx.view_nl h2, ?_, ?_, ?_, ?_, rfl⟩
  · simp only [parseExpr, ht, h3, Json.R.bind_ok]
  · rw [Lx.view_rest (h4.trans h2)]
  · rw [Lx.view_log (h4.trans h2)]; exact hcl
  · rw [Lx.view_end (h4.trans h2)]; simp only; omega

end
end EsbuildModel.Json
