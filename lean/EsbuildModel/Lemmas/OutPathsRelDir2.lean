import EsbuildModel.Lemmas.OutPathsRelDir
/-
From the relative path to the `[dir]` value, part 2: `relDirOf`.
-/
namespace EsbuildModel.OutPaths
open EsbuildModel.Spec.OutPath

/-- the replacement for a leading ".." -/
def usus : Str := ['_', '.', '.', '_']

/-- every name followed by a separator -/
def slashed (Y : List Str) : Str := (Y.map (· ++ ['/'])).flatten

theorem slashed_cons (y : Str) (Y : List Str) : slashed (y :: Y) = y ++ '/' :: slashed Y := by
  simp [slashed]

theorem joinSlash_slash {Y : List Str} (h : Y ≠ []) : joinSlash Y ++ ['/'] = slashed Y := by
  induction Y with
  | nil => exact absurd rfl h
  | cons y Y ih =>
    cases Y with
    | nil => simp [joinSlash_singleton, slashed]
    | cons z Y =>
      rw [joinSlash_cons_cons, slashed_cons, ← ih (by simp)]
      simp

theorem replaceBackslash_id {s : Str} (h : '\\' ∉ s) : replaceBackslash s = s := by
  unfold replaceBackslash
  induction s with
  | nil => rfl
  | cons c s ih =>
    have hc : c ≠ '\\' := fun e => h (by simp [e])
    simp only [List.map_cons, hc, if_false]
    rw [ih (fun e => h (by simp [e]))]

theorem countDotDot_valid (N : List Str) (hN : ∀ x ∈ N, ValidName x) :
    countDotDot (slashed N) = (0, slashed N) := by
  cases N with
  | nil => rfl
  | cons n N =>
    have hn := hN n (by simp)
    rw [slashed_cons]
    rcases n with _ | ⟨c1, _ | ⟨c2, _ | ⟨c3, n'⟩⟩⟩
    · exact absurd rfl hn.1
    · -- one character
      unfold countDotDot
      split
      · rename_i heq; simp at heq
      · rfl
    · unfold countDotDot
      split
      · rename_i heq
        simp only [List.cons_append, List.nil_append, List.cons.injEq] at heq
        exact absurd (by rw [heq.1, heq.2.1]) hn.2.2.2
      · rfl
    · unfold countDotDot
      split
      · rename_i heq
        simp only [List.cons_append, List.cons.injEq] at heq
        exact absurd (by rw [heq.2.2.1]; simp) hn.2.1
      · rfl

theorem countDotDot_slashed (j : Nat) (N : List Str) (hN : ∀ x ∈ N, ValidName x) :
    countDotDot (slashed (List.replicate j dd ++ N)) = (j, slashed N) := by
  induction j with
  | zero => simpa using countDotDot_valid N hN
  | succ j ih =>
    rw [List.replicate_succ, List.cons_append, slashed_cons]
    show countDotDot ('.' :: '.' :: '/' :: slashed (List.replicate j dd ++ N)) = _
    rw [countDotDot, ih]

theorem usus_slashed (j : Nat) (N : List Str) :
    (List.replicate j (lit "_.._/")).flatten ++ slashed N = slashed (List.replicate j usus ++ N) := by
  induction j with
  | zero => rfl
  | succ j ih =>
    rw [List.replicate_succ, List.flatten_cons, List.append_assoc, ih, List.replicate_succ, List.cons_append,
      slashed_cons]
    rfl

theorem stripTrailingSlashes_slashed {Y : List Str} (hne : Y ≠ []) (hY : ∀ y ∈ Y, Elem y) :
    stripTrailingSlashes (slashed Y) = joinSlash Y := by
  rw [← joinSlash_slash hne]
  unfold stripTrailingSlashes
  obtain ⟨init, l, rfl⟩ : ∃ init l, Y = init ++ [l] := ⟨Y.dropLast, Y.getLast hne, (List.dropLast_concat_getLast hne).symm⟩
  have hl := hY l (by simp)
  obtain ⟨c, l', hcl⟩ : ∃ c l', l.reverse = c :: l' := by
    cases h : l.reverse with
    | nil => exact absurd (by simpa using h) hl.1
    | cons c l' => exact ⟨c, l', rfl⟩
  have hc : c ≠ '/' := by
    intro e
    have : '/' ∈ l.reverse := by rw [hcl, e]; simp
    exact hl.2 (by simpa using this)
  have hrev : ∃ p, (joinSlash (init ++ [l])).reverse = c :: p := by
    by_cases hi : init = []
    · subst hi; exact ⟨l', by simp [joinSlash_singleton, hcl]⟩
    · rw [joinSlash_concat hi]; exact ⟨l' ++ '/' :: (joinSlash init).reverse, by simp [hcl]⟩
  obtain ⟨p, hp⟩ := hrev
  have : (joinSlash (init ++ [l]) ++ ['/']).reverse = '/' :: c :: p := by simp [hp]
  rw [this, List.dropWhile_cons]
  simp only [decide_true, if_true]
  rw [List.dropWhile_cons]
  simp only [hc, decide_false]
  rw [← hp]
  simp

/-- a path that ends in a real name does not end in "/." -/
theorem not_endsWith_slashDot {y : Str} (hy : Elem y) (hd : y ≠ ['.']) (p : Str) :
    (lit "/.").reverse.isPrefixOf (p ++ '/' :: y).reverse = false := by
  have hrev : (p ++ '/' :: y).reverse = y.reverse ++ '/' :: p.reverse := by simp
  rw [hrev]
  have hlit : (lit "/.").reverse = ['.', '/'] := rfl
  rw [hlit]
  rcases hyr : y.reverse with _ | ⟨c1, _ | ⟨c2, r⟩⟩
  · exact absurd (by simpa using hyr) hy.1
  · -- one character: it is not '.'
    have : y = [c1] := by simpa using congrArg List.reverse hyr
    have hc1 : c1 ≠ '.' := fun e => hd (by rw [this, e])
    have : ('.' == c1) = false := by simpa using fun e : '.' = c1 => hc1 e.symm
    simp [List.isPrefixOf, this]
  · have hc2 : c2 ≠ '/' := by
      intro e
      have : '/' ∈ y.reverse := by rw [hyr, e]; simp
      exact hy.2 (by simpa using this)
    have : ('/' == c2) = false := by simpa using fun e : '/' = c2 => hc2 e.symm
    simp [List.isPrefixOf, this]

theorem validName_usus : ValidName usus := by decide

/-- the `[dir]` value computed from a relative path: the leading ".." names become "_.._", the last
name (the file) is dropped, the rest is kept -/
theorem relDirOf_joinSlash (j : Nat) (N : List Str) (hN : ∀ x ∈ N, ValidName x)
    (hbs : ∀ x ∈ N, '\\' ∉ x) {l : Str} (hl : '/' ∉ l) :
    relDirOf (joinSlash ((List.replicate j dd ++ N) ++ [l])) = render (List.replicate j usus ++ N) := by
  unfold relDirOf
  rw [dir_joinSlash j N hN hl]
  by_cases hne : List.replicate j dd ++ N = []
  · have hj : j = 0 := by
      cases j with
      | zero => rfl
      | succ j => simp [List.replicate_succ] at hne
    have hNn : N = [] := by subst hj; simpa using hne
    subst hj hNn
    rfl
  · simp only [hne, if_false]
    rw [joinSlash_slash hne]
    have hnb : '\\' ∉ slashed (List.replicate j dd ++ N) := by
      intro hm
      unfold slashed at hm
      simp only [List.mem_flatten, List.mem_map] at hm
      obtain ⟨s, ⟨x, hx, rfl⟩, hc⟩ := hm
      rcases List.mem_append.mp hc with hc | hc
      · rcases List.mem_append.mp hx with hx | hx
        · rw [List.eq_of_mem_replicate hx] at hc; simp [dd] at hc
        · exact hbs x hx hc
      · simp at hc
    rw [replaceBackslash_id hnb, countDotDot_slashed j N hN]
    simp only
    have hY : ∀ y ∈ List.replicate j usus ++ N, ValidName y := by
      intro y hy
      rcases List.mem_append.mp hy with hy | hy
      · rw [List.eq_of_mem_replicate hy]; exact validName_usus
      · exact hN y hy
    have hYne : List.replicate j usus ++ N ≠ [] := by
      intro e
      apply hne
      have h1 : j = 0 := by
        cases j with
        | zero => rfl
        | succ j => simp [List.replicate_succ] at e
      subst h1
      simpa using e
    have hstr : (if j > 0 then (List.replicate j (lit "_.._/")).flatten ++ slashed N
        else slashed (List.replicate j dd ++ N)) = slashed (List.replicate j usus ++ N) := by
      by_cases hj : j > 0
      · simp only [hj, if_true]; exact usus_slashed j N
      · have : j = 0 := by omega
        subst this; rfl
    rw [hstr, stripTrailingSlashes_slashed hYne (fun y hy => ValidName.elem (hY y hy)), render_eq]
    obtain ⟨init, y, hiy⟩ : ∃ init y, List.replicate j usus ++ N = init ++ [y] :=
      ⟨_, _, (List.dropLast_concat_getLast hYne).symm⟩
    have hy := hY y (by rw [hiy]; simp)
    have hcheck : (lit "/.").reverse.isPrefixOf ('/' :: joinSlash (List.replicate j usus ++ N)).reverse = false := by
      rw [hiy]
      by_cases hi : init = []
      · subst hi
        simp only [List.nil_append, joinSlash_singleton]
        exact not_endsWith_slashDot (ValidName.elem hy) hy.2.2.1 []
      · rw [joinSlash_concat hi]
        have := not_endsWith_slashDot (ValidName.elem hy) hy.2.2.1 ('/' :: joinSlash init)
        simpa using this
    rw [hcheck]
    rfl

end EsbuildModel.OutPaths
