/-
Lemmas/MiniJSEq — MaybeSimplifyEqualityComparison, CheckEqualityIfNoSideEffects, TypeofWithoutSideEffects,
IsPrimitiveLiteral and ToNullOrUndefinedWithSideEffects are sound.
-/
import EsbuildModel.Lemmas.MiniJSUnused
namespace EsbuildModel.MiniJS

/-- the property of `typeof` results that the `> 'u'` trick relies on -/
def TypeofStr (t : JStr) : Prop :=
  strLt [117] t = (t == sUndefined) ∧ strLt t [117] = !(t == sUndefined)

theorem typeofVal_str (w : World) (v : Val) : TypeofStr (typeofVal w v) := by
  cases v <;> simp only [typeofVal] <;> (try split) <;> exact ⟨by decide, by decide⟩

theorem typeofRef_str (w : World) (tr : Trace) (x : Nat) : TypeofStr (typeofRef w tr x) := by
  simp only [typeofRef]
  split
  · exact typeofVal_str w _
  · exact ⟨by decide, by decide⟩

theorem eval_typeof_str (w : World) (f : Bool) (e : Expr) (tr tr' : Trace) (v : Val)
    (h : eval w (.unary (.typeof f) e) tr = (.val v, tr')) : ∃ t, v = .str t ∧ TypeofStr t := by
  simp only [eval] at h
  split at h
  · simp at h; obtain ⟨rfl, -⟩ := h; exact ⟨_, rfl, typeofRef_str w _ _⟩
  · rw [bind_eq_val] at h
    obtain ⟨u, tr1, -, h⟩ := h
    simp [applyUnary] at h; obtain ⟨rfl, -⟩ := h; exact ⟨_, rfl, typeofVal_str w _⟩

theorem isCompare_of_eq (op : BinOp) (h : op.isEquality = true) : op.isCompare = true := by
  simp [BinOp.isCompare, h]

theorem typeof_cmp (w : World) (op op2 : BinOp) (hc : op.isCompare = true) (hc2 : op2.isCompare = true)
    (f : Bool) (tv : Expr) (a b : JStr) (hab : ∀ t, TypeofStr t → strCmp op t a = strCmp op2 t b) :
    EvalEq w (.binary op (.unary (.typeof f) tv) (.str a)) (.binary op2 (.unary (.typeof f) tv) (.str b)) := by
  intro tr
  have e1 : ∀ (o : BinOp) (s : JStr), o.isCompare = true → eval w (.binary o (.unary (.typeof f) tv) (.str s)) tr =
      bind (eval w (.unary (.typeof f) tv) tr) fun va tr1 => applyBinary w o va (.str s) tr1 := by
    intro o s ho
    rw [eval]
    apply bind_congr; intro va tr1
    simp only [short_compare o ho, eval, bind_val]
  rw [e1 op a hc, e1 op2 b hc2]
  apply bind_congr'; intro va tr1 ha
  obtain ⟨t, rfl, ht⟩ := eval_typeof_str w f tv tr tr1 va ha
  rw [applyBinary_str w op hc, applyBinary_str w op2 hc2, hab t ht]

theorem typeof_cmp_swapped (w : World) (op op2 : BinOp) (hc : op.isCompare = true) (hc2 : op2.isCompare = true)
    (f : Bool) (tv : Expr) (a b : JStr) (hab : ∀ t, TypeofStr t → strCmp op a t = strCmp op2 b t) :
    EvalEq w (.binary op (.str a) (.unary (.typeof f) tv)) (.binary op2 (.str b) (.unary (.typeof f) tv)) := by
  intro tr
  have e1 : ∀ (o : BinOp) (s : JStr), o.isCompare = true → eval w (.binary o (.str s) (.unary (.typeof f) tv)) tr =
      bind (eval w (.unary (.typeof f) tv) tr) fun vb tr1 => applyBinary w o (.str s) vb tr1 := by
    intro o s ho
    rw [eval]
    simp only [eval, bind_val, short_compare o ho]
  rw [e1 op a hc, e1 op2 b hc2]
  apply bind_congr'; intro va tr1 ha
  obtain ⟨t, rfl, ht⟩ := eval_typeof_str w f tv tr tr1 va ha
  rw [applyBinary_str w op hc, applyBinary_str w op2 hc2, hab t ht]

theorem beq_comm_str (a b : JStr) : (a == b) = (b == a) := by
  by_cases h : a = b
  · subst h; rfl
  · rw [beq_eq_false_iff_ne.mpr h, beq_eq_false_iff_ne.mpr (Ne.symm h)]

theorem eqTypeofPart_sound (w : World) (op : BinOp) (hop : op.isEquality = true) (swapped : Bool)
    (value primitive x : Expr) (h : eqTypeofPart op swapped value primitive = some x) :
    EvalEq w (if swapped then .binary op primitive value else .binary op value primitive) x := by
  simp only [eqTypeofPart] at h
  split at h
  · rename_i uop tv
    split at h
    · rename_i hu
      have : ∃ f, uop = .typeof f := by cases uop <;> simp [sameUnOp] at hu; exact ⟨_, rfl⟩
      obtain ⟨f, rfl⟩ := this
      split at h
      · rename_i s hs
        have := strOf?_some _ _ hs; subst this
        split at h
        · rename_i hsu
          have : s = sUndefined := by simpa using hsu
          subst this
          cases op <;> simp [BinOp.isEquality] at hop <;> cases swapped <;> simp at h <;> subst h <;>
            simp only [Bool.false_eq_true, if_false, if_true]
          · exact typeof_cmp w _ _ rfl rfl f tv _ _ (fun t ht => by simp [strCmp, ht.1])
          · exact typeof_cmp_swapped w _ _ rfl rfl f tv _ _ (fun t ht => by simp [strCmp, ht.1, beq_comm_str sUndefined t])
          · exact typeof_cmp w _ _ rfl rfl f tv _ _ (fun t ht => by simp [strCmp, ht.2])
          · exact typeof_cmp_swapped w _ _ rfl rfl f tv _ _ (fun t ht => by simp [strCmp, ht.2, beq_comm_str sUndefined t])
          · exact typeof_cmp w _ _ rfl rfl f tv _ _ (fun t ht => by simp [strCmp, ht.1])
          · exact typeof_cmp_swapped w _ _ rfl rfl f tv _ _ (fun t ht => by simp [strCmp, ht.1, beq_comm_str sUndefined t])
          · exact typeof_cmp w _ _ rfl rfl f tv _ _ (fun t ht => by simp [strCmp, ht.2])
          · exact typeof_cmp_swapped w _ _ rfl rfl f tv _ _ (fun t ht => by simp [strCmp, ht.2, beq_comm_str sUndefined t])
        · simp at h
      · simp at h
    · simp at h
  · simp at h


-- ---------------------------------------------------------------- the boolean part

theorem applyBinary_bool (w : World) (op : BinOp) (hop : op.isEquality = true) (c b : Bool) (tr : Trace) :
    applyBinary w op (.bool c) (.bool b) tr =
      (.val (.bool (if b == (op == .looseNe || op == .strictNe) then !c else c)), tr) ∧
    applyBinary w op (.bool b) (.bool c) tr =
      (.val (.bool (if b == (op == .looseNe || op == .strictNe) then !c else c)), tr) := by
  cases op <;> simp [BinOp.isEquality] at hop <;> cases c <;> cases b <;>
    simp [applyBinary, strictEq, looseEq, looseEqPrim, boolToNum, Num.eq]

theorem has_boolean_inv (v : Val) (h : PType.boolean.has v = true) : ∃ b, v = .bool b := by
  cases v <;> simp_all [PType.has]

theorem eqBoolPart_sound (w : World) (op : BinOp) (hop : op.isEquality = true) (swapped : Bool) (value : Expr)
    (b : Bool) (hk : knownPrimitiveType value = .boolean) :
    EvalEq w (if swapped then .binary op (.bool b) value else .binary op value (.bool b))
      (if b == (op == .looseNe || op == .strictNe) then notExpr value else value) := by
  have hs := short_equality op hop
  have key : ∀ tr, eval w (if swapped then .binary op (.bool b) value else .binary op value (.bool b)) tr =
      bind (eval w value tr) fun v tr1 =>
        (.val (.bool (if b == (op == .looseNe || op == .strictNe) then !toBoolean v else toBoolean v)), tr1) := by
    intro tr
    cases swapped
    · simp only [Bool.false_eq_true, if_false, eval, hs, bind_val]
      apply bind_congr'; intro v tr1 hv
      have := kpt_sound w value tr tr1 v hv
      rw [hk] at this
      obtain ⟨c, rfl⟩ := has_boolean_inv v this
      simp only [(applyBinary_bool w op hop c b tr1).1, toBoolean]
    · simp only [if_true, eval, hs, bind_val]
      apply bind_congr'; intro v tr1 hv
      have := kpt_sound w value tr tr1 v hv
      rw [hk] at this
      obtain ⟨c, rfl⟩ := has_boolean_inv v this
      simp only [(applyBinary_bool w op hop c b tr1).2, toBoolean]
  by_cases hb : (b == (op == .looseNe || op == .strictNe)) = true
  · rw [if_pos hb]
    refine EvalEq.trans ?_ (notExpr_equiv w value).symm
    intro tr
    rw [key tr, eval_not, evalBool_eq, bind_assoc]
    simp only [hb, if_true, bind_val]
  · rw [if_neg hb]
    intro tr
    rw [key tr]
    simp only [hb, if_false]
    conv => rhs; rw [← bind_pure (eval w value tr)]
    apply bind_congr'; intro v tr1 hv
    have := kpt_sound w value tr tr1 v hv
    rw [hk] at this
    obtain ⟨c, rfl⟩ := has_boolean_inv v this
    rfl

/-- MaybeSimplifyEqualityComparison: the result evaluates exactly like the comparison -/
theorem maybeSimplifyEqualityComparison_sound (w : World) (typeofOK : Bool) (op : BinOp)
    (hop : op.isEquality = true) (l r x : Expr)
    (h : maybeSimplifyEqualityComparison typeofOK op l r = some x) : EvalEq w (.binary op l r) x := by
  simp only [maybeSimplifyEqualityComparison] at h
  cases hsw : isPrimitiveLiteral l
  · -- value = l, primitive = r
    simp only [hsw, Bool.false_eq_true, if_false] at h
    split at h
    · rename_i y hy
      simp at h; subst h
      split at hy
      · rename_i b hb
        have hp := boolOf?_some _ _ hb; subst hp
        split at hy
        · rename_i hk
          have := eqBoolPart_sound w op hop false l b hk
          simp only [Bool.false_eq_true, if_false] at this
          by_cases hc : (b == (op == .looseNe || op == .strictNe)) = true
          · rw [if_pos hc] at hy this; simp at hy; subst hy; exact this
          · rw [if_neg hc] at hy this; simp at hy; subst hy; exact this
        · simp at hy
      · simp at hy
    · split at h
      · have := eqTypeofPart_sound w op hop false _ _ x h
        simpa using this
      · simp at h
  · -- value = r, primitive = l
    simp only [hsw, if_true] at h
    split at h
    · rename_i y hy
      simp at h; subst h
      split at hy
      · rename_i b hb
        have hp := boolOf?_some _ _ hb; subst hp
        split at hy
        · rename_i hk
          have := eqBoolPart_sound w op hop true r b hk
          simp only [if_true] at this
          by_cases hc : (b == (op == .looseNe || op == .strictNe)) = true
          · rw [if_pos hc] at hy this; simp at hy; subst hy; exact this
          · rw [if_neg hc] at hy this; simp at hy; subst hy; exact this
        · simp at hy
      · simp at hy
    · split at h
      · have := eqTypeofPart_sound w op hop true _ _ x h
        simpa using this
      · simp at h

-- ---------------------------------------------------------------- small helpers of js_ast_helpers.go

/-- TypeofWithoutSideEffects: the literal's `typeof` is the announced string and evaluation is pure -/
theorem typeofWithoutSideEffects_sound (w : World) (e : Expr) (s : JStr)
    (h : typeofWithoutSideEffects e = some s) (tr : Trace) :
    eval w (.unary (.typeof false) e) tr = (.val (.str s), tr) := by
  cases e <;> simp [typeofWithoutSideEffects] at h <;> subst h <;>
    simp [eval, typeofIdent?, applyUnary, typeofVal]

/-- IsPrimitiveLiteral: a primitive literal evaluates to a primitive without any effect -/
theorem isPrimitiveLiteral_sound (w : World) (e : Expr) (h : isPrimitiveLiteral e = true) (tr : Trace) :
    ∃ v, eval w e tr = (.val v, tr) ∧ v.isObj = false := by
  cases e <;> simp [isPrimitiveLiteral] at h <;> exact ⟨_, rfl, rfl⟩

/-- CheckEqualityIfNoSideEffects on two literals: when `ok`, `equal` is the result of `===` (strict) or `==`
(loose) on their values -/
theorem checkEquality_sound (w : World) (a b : Expr) (strict : Bool)
    (hok : (checkEqualityIfNoSideEffects a b strict).2 = true) (tr : Trace) :
    eval w (.binary (if strict then .strictEq else .looseEq) a b) tr =
      (.val (.bool (checkEqualityIfNoSideEffects a b strict).1), tr) := by
  cases strict <;> cases a <;> cases b <;>
    simp [checkEqualityIfNoSideEffects, isPrimitiveLiteral] at hok ⊢ <;>
    simp [eval, BinOp.short, applyBinary, strictEq, looseEq, looseEqPrim, boolToNum, Val.nullish, val_str_beq]
  case false.bool.bool b1 b2 => cases b1 <;> cases b2 <;> rfl
  case false.bool.num b n =>
    cases b <;> cases n <;> simp [Num.eq, Num.isZero] <;> (rw [Bool.eq_iff_iff]; simp only [beq_iff_eq]; exact eq_comm)
  case false.num.bool n b => cases b <;> cases n <;> simp [Num.eq, Num.isZero]
  case true.bool.bool b1 b2 => cases b1 <;> cases b2 <;> rfl


-- ---------------------------------------------------------------- ToNullOrUndefinedWithSideEffects

theorem addPrim_nonnull (w : World) (pa pb v : Val) (h : addPrim w pa pb = .val v) : v.nullish = false := by
  cases pa <;> cases pb <;> simp [addPrim, toNumeric, toNumber, toStr] at h <;>
    (try split at h) <;> (try simp at h) <;> subst_vars <;> rfl

theorem applyUnary_nonnull (w : World) (op : UnOp) (hop : op ≠ .void) (u v : Val) (tr tr' : Trace)
    (h : applyUnary w op u tr = (.val v, tr')) : v.nullish = false := by
  have := applyUnary_type w op .unknown u v tr tr' (has_unknown u) h
  cases op <;> simp [kptUnary] at this hop <;> cases v <;> simp_all [PType.has, Val.nullish]
  all_goals (
    simp only [applyUnary, bind_eq_val] at h
    obtain ⟨n, tr1, -, h⟩ := h
    cases n <;> simp at h)

theorem applyBinary_nonnull (w : World) (op : BinOp)
    (hop : op = .add ∨ op = .sub ∨ op = .ushr ∨ op.isCompare = true) (a b v : Val) (tr tr' : Trace)
    (h : applyBinary w op a b tr = (.val v, tr')) : v.nullish = false := by
  cases op <;> simp [BinOp.isCompare, BinOp.isEquality, BinOp.isRelational] at hop
  case add =>
    simp only [applyBinary, bind_eq_val] at h
    obtain ⟨pa, t1, -, pb, t2, -, h⟩ := h
    simp only [Prod.mk.injEq] at h
    exact addPrim_nonnull w pa pb v h.1
  case sub =>
    have := arith_type w _ _ _ _ _ _ _ (by intro i j u hu; simp at hu; subst hu; rfl) h
    simp only [applyBinary, arith, bind_eq_val] at h
    obtain ⟨na, t1, -, nb, t2, -, h⟩ := h
    split at h <;> simp at h <;> obtain ⟨rfl, -⟩ := h <;> rfl
  case ushr =>
    simp only [applyBinary, arith, bind_eq_val] at h
    obtain ⟨na, t1, -, nb, t2, -, h⟩ := h
    split at h <;> simp at h
    obtain ⟨rfl, -⟩ := h; rfl
  all_goals (
    have := applyBinary_type w _ .unknown .unknown a b v tr tr' rfl (has_unknown a) (has_unknown b) h
    cases v <;> simp_all [kptBinary, PType.has, Val.nullish])

theorem tnu_sound (w : World) : ∀ (e : Expr), (toNullOrUndefinedWithSideEffects e).ok = true →
    (∀ tr v tr', eval w e tr = (.val v, tr') → v.nullish = (toNullOrUndefinedWithSideEffects e).value) ∧
    ((toNullOrUndefinedWithSideEffects e).noSE = true → e.wf = true → Pure w e)
  | .null, _ => ⟨by intro tr v tr' h; simp [eval] at h; obtain ⟨rfl, -⟩ := h; rfl, fun _ _ tr => ⟨_, rfl⟩⟩
  | .undef, _ => ⟨by intro tr v tr' h; simp [eval] at h; obtain ⟨rfl, -⟩ := h; rfl, fun _ _ tr => ⟨_, rfl⟩⟩
  | .bool b, _ => ⟨by intro tr v tr' h; simp [eval] at h; obtain ⟨rfl, -⟩ := h; rfl, fun _ _ tr => ⟨_, rfl⟩⟩
  | .num n, _ => ⟨by intro tr v tr' h; simp [eval] at h; obtain ⟨rfl, -⟩ := h; rfl, fun _ _ tr => ⟨_, rfl⟩⟩
  | .str s, _ => ⟨by intro tr v tr' h; simp [eval] at h; obtain ⟨rfl, -⟩ := h; rfl, fun _ _ tr => ⟨_, rfl⟩⟩
  | .unary op e, hok => by
    have hval : ∀ (hop : op ≠ .void) tr v tr', eval w (.unary op e) tr = (.val v, tr') → v.nullish = false := by
      intro hop tr v tr' h
      simp only [eval] at h
      split at h
      · simp at h; obtain ⟨rfl, -⟩ := h; rfl
      · rw [bind_eq_val] at h
        obtain ⟨u, tr1, -, h⟩ := h
        exact applyUnary_nonnull w op hop u v tr1 tr' h
    cases op with
    | void =>
      refine ⟨?_, by simp [toNullOrUndefinedWithSideEffects]⟩
      intro tr v tr' h
      simp only [eval, typeofIdent?, bind_eq_val] at h
      obtain ⟨u, tr1, -, h⟩ := h
      simp [applyUnary] at h; obtain ⟨rfl, -⟩ := h; rfl
    | typeof f =>
      refine ⟨hval (by simp), ?_⟩
      intro hf hwf
      simp [toNullOrUndefinedWithSideEffects] at hf; subst hf
      simp only [Expr.wf, Bool.and_eq_true] at hwf
      cases e <;> simp [isIdent] at hwf
      rename_i x
      intro tr
      exact ⟨.str (typeofRef w tr x), by simp only [eval, typeofIdent?]⟩
    | not => exact ⟨hval (by simp), by simp [toNullOrUndefinedWithSideEffects]⟩
    | neg => exact ⟨hval (by simp), by simp [toNullOrUndefinedWithSideEffects]⟩
    | pos => exact ⟨hval (by simp), by simp [toNullOrUndefinedWithSideEffects]⟩
    | cpl => exact ⟨hval (by simp), by simp [toNullOrUndefinedWithSideEffects]⟩
  | .binary op l r, hok => by
    have hval : ∀ (hop : op = .add ∨ op = .sub ∨ op = .ushr ∨ op.isCompare = true) tr v tr',
        eval w (.binary op l r) tr = (.val v, tr') → v.nullish = false := by
      intro hop tr v tr' h
      have hs : ∀ u, op.short u = none := by
        intro u; rcases hop with rfl | rfl | rfl | hc
        · rfl
        · rfl
        · rfl
        · exact short_compare op hc u
      simp only [eval, hs, bind_eq_val] at h
      obtain ⟨va, tr1, -, vb, tr2, -, h⟩ := h
      exact applyBinary_nonnull w op hop va vb v tr2 tr' h
    cases op
    case comma =>
      simp only [toNullOrUndefinedWithSideEffects] at hok ⊢
      split at hok
      · rename_i hk
        have ih := tnu_sound w r hk
        simp only [hk, if_true]
        refine ⟨?_, fun h => by cases h⟩
        intro tr v tr' h
        rw [eval_comma, bind_eq_val] at h
        obtain ⟨va, tr1, -, h⟩ := h
        exact ih.1 _ _ _ h
      · simp at hok
    case and => simp [toNullOrUndefinedWithSideEffects] at hok
    case or => simp [toNullOrUndefinedWithSideEffects] at hok
    case nullish => simp [toNullOrUndefinedWithSideEffects] at hok
    case add => exact ⟨hval (.inl rfl), by simp [toNullOrUndefinedWithSideEffects]⟩
    case sub => exact ⟨hval (.inr (.inl rfl)), by simp [toNullOrUndefinedWithSideEffects]⟩
    case ushr => exact ⟨hval (.inr (.inr (.inl rfl))), by simp [toNullOrUndefinedWithSideEffects]⟩
    all_goals exact ⟨hval (.inr (.inr (.inr rfl))), by simp [toNullOrUndefinedWithSideEffects]⟩
  | .ident _, hok => by simp [toNullOrUndefinedWithSideEffects] at hok
  | .cond _ _ _, hok => by simp [toNullOrUndefinedWithSideEffects] at hok
  | .call _ _, hok => by simp [toNullOrUndefinedWithSideEffects] at hok
  | .dot _ _, hok => by simp [toNullOrUndefinedWithSideEffects] at hok
  | .index _ _, hok => by simp [toNullOrUndefinedWithSideEffects] at hok

end EsbuildModel.MiniJS
