import EsbuildModel.Impl.OutTemplate
/-
The duplicate-output-path loop of `Compile`.
-/
namespace EsbuildModel.OutPaths

/-- two output files may share a path only if both can be merged and have the same contents -/
def Mergeable (f g : OutFile) : Prop := f.canBeMerged = true ∧ g.canBeMerged = true ∧ f.contents = g.contents

theorem dedupeLoop_cons (key : Str → Str) (f : OutFile) (rest kept : List OutFile) (errs : List Str) :
    dedupeLoop key (f :: rest) kept errs =
      match kept.reverse.find? (fun g => key g.absPath = key f.absPath) with
      | .none => dedupeLoop key rest (f :: kept) errs
      | some existing =>
        if existing.canBeMerged ∧ f.canBeMerged ∧ existing.contents = f.contents then
          dedupeLoop key rest kept errs
        else dedupeLoop key rest kept (f.absPath :: errs) := rfl

theorem dedupeLoop_errs_ne (key : Str → Str) (files : List OutFile) : ∀ (kept : List OutFile) (errs : List Str),
    errs ≠ [] → (dedupeLoop key files kept errs).2 ≠ [] := by
  induction files with
  | nil => intro kept errs h; simpa [dedupeLoop] using h
  | cons f rest ih =>
    intro kept errs h
    rw [dedupeLoop_cons]
    split
    · exact ih _ _ h
    · split
      · exact ih _ _ h
      · exact ih _ _ (by simp)

theorem nodup_reverse' {α} {l : List α} (h : l.Nodup) : l.reverse.Nodup := by
  unfold List.Nodup at *
  rw [List.pairwise_reverse]
  exact h.imp (fun hab => fun e => hab e.symm)

theorem inj_of_nodup_map {α β} (f : α → β) {l : List α} (h : (l.map f).Nodup) {a b : α}
    (ha : a ∈ l) (hb : b ∈ l) (e : f a = f b) : a = b := by
  induction l with
  | nil => simp at ha
  | cons x l ih =>
    rw [List.map_cons, List.nodup_cons] at h
    rcases List.mem_cons.mp ha with hax | ha
    · rcases List.mem_cons.mp hb with hbx | hb
      · rw [hax, hbx]
      · have : f x ∈ List.map f l := List.mem_map.mpr ⟨b, hb, by rw [← e, hax]⟩
        exact absurd this h.1
    · rcases List.mem_cons.mp hb with hbx | hb
      · have : f x ∈ List.map f l := List.mem_map.mpr ⟨a, ha, by rw [e, hbx]⟩
        exact absurd this h.1
      · exact ih h.2 ha hb

def keyOf (key : Str → Str) (f : OutFile) : Str := key f.absPath

theorem find_none_iff {key : Str → Str} {kept : List OutFile} {f : OutFile} :
    kept.reverse.find? (fun g => key g.absPath = key f.absPath) = none ↔ ∀ g ∈ kept, key g.absPath ≠ key f.absPath := by
  rw [List.find?_eq_none]
  simp

theorem dedupeLoop_nodup (key : Str → Str) (files : List OutFile) : ∀ (kept : List OutFile) (errs : List Str),
    (kept.map (keyOf key)).Nodup → ((dedupeLoop key files kept errs).1.map (keyOf key)).Nodup := by
  induction files with
  | nil =>
    intro kept errs h
    simp only [dedupeLoop, List.map_reverse]
    exact nodup_reverse' h
  | cons f rest ih =>
    intro kept errs h
    rw [dedupeLoop_cons]
    split
    · rename_i hnone
      apply ih
      rw [List.map_cons, List.nodup_cons]
      refine ⟨?_, h⟩
      intro hm
      obtain ⟨g, hg, hgk⟩ := List.mem_map.mp hm
      exact find_none_iff.mp hnone g hg hgk
    · split
      · exact ih _ _ h
      · exact ih _ _ h

/-- the kept files have pairwise different (canonical) paths -/
theorem dedupe_nodup (key : Str → Str) (files : List OutFile) :
    ((dedupe key files).1.map (keyOf key)).Nodup :=
  dedupeLoop_nodup key files [] [] (by simp)

theorem dedupeLoop_pairwise (key : Str → Str) (files : List OutFile) : ∀ (kept : List OutFile),
    (kept.map (keyOf key)).Nodup → (dedupeLoop key files kept []).2 = [] →
    (∀ f ∈ files, ∀ g ∈ kept, key g.absPath = key f.absPath → Mergeable g f) ∧
    files.Pairwise (fun f f' => key f.absPath = key f'.absPath → Mergeable f f') := by
  induction files with
  | nil => intro kept _ _; exact ⟨by simp, List.Pairwise.nil⟩
  | cons f rest ih =>
    intro kept hnd hno
    rw [dedupeLoop_cons] at hno
    split at hno
    · rename_i hnone
      have hnone' := find_none_iff.mp hnone
      have hnd' : ((f :: kept).map (keyOf key)).Nodup := by
        rw [List.map_cons, List.nodup_cons]
        refine ⟨?_, hnd⟩
        intro hm
        obtain ⟨g, hg, hgk⟩ := List.mem_map.mp hm
        exact hnone' g hg hgk
      obtain ⟨h1, h2⟩ := ih (f :: kept) hnd' hno
      refine ⟨?_, ?_⟩
      · intro f' hf' g hg hk
        rcases List.mem_cons.mp hf' with rfl | hf'
        · exact absurd hk (hnone' g hg)
        · exact h1 f' hf' g (by simp [hg]) hk
      · rw [List.pairwise_cons]
        exact ⟨fun f' hf' hk => h1 f' hf' f (by simp) hk, h2⟩
    · rename_i existing hsome
      split at hno
      · rename_i hmerge
        obtain ⟨h1, h2⟩ := ih kept hnd hno
        have hex : existing ∈ kept := by simpa using List.mem_of_find?_eq_some hsome
        have hexk : key existing.absPath = key f.absPath := by simpa using List.find?_some hsome
        -- the kept file with this key is unique
        have huniq : ∀ g ∈ kept, key g.absPath = key f.absPath → g = existing := by
          intro g hg hk
          exact inj_of_nodup_map (keyOf key) hnd hg hex (by simp [keyOf, hk, hexk])
        have hmf : Mergeable existing f := ⟨hmerge.1, hmerge.2.1, hmerge.2.2⟩
        refine ⟨?_, ?_⟩
        · intro f' hf' g hg hk
          rcases List.mem_cons.mp hf' with rfl | hf'
          · rw [huniq g hg hk]; exact hmf
          · exact h1 f' hf' g hg hk
        · rw [List.pairwise_cons]
          refine ⟨?_, h2⟩
          intro f' hf' hk
          have := h1 f' hf' existing hex (by rw [hexk, hk])
          exact ⟨hmf.2.1, this.2.1, by rw [← hmf.2.2, this.2.2]⟩
      · exact absurd hno (dedupeLoop_errs_ne key rest kept _ (by simp))

/-- if no "Two output files share the same path" error is reported then any two output files with the same
(canonical) path are both mergeable and have the same contents -/
theorem dedupe_collision_reported (key : Str → Str) (files : List OutFile) (h : (dedupe key files).2 = []) :
    files.Pairwise (fun f f' => key f.absPath = key f'.absPath → Mergeable f f') :=
  (dedupeLoop_pairwise key files [] (by simp) h).2

end EsbuildModel.OutPaths
