import EsbuildModel.Lemmas.CssImportLayerSem
/-!
The forward pass over the `@layer` entries (`layerPass`) and the merge of adjacent `@layer` entries (`mergeLayers`):
neither fails (no index of the duplicate lists is ever out of range), and under the pairwise hypothesis on the
redundancy hits the style sheet keeps its cascade in every context.
-/
namespace EsbuildModel.CssImport
open EsbuildModel.Spec.CssCascade

-- ------------------------------------------------------------------ phase 4

theorem mergeStep_dupEq (g : Graph) (decl : Nat → Decl) (ext : Nat → List Item) (wip : List Entry) (e : Entry) :
    DupEq (semN g decl ext (mergeStep wip e)) (semN g decl ext (wip ++ [e])) := by
  unfold mergeStep
  cases hl : wip.getLast? with
  | none => exact .refl _
  | some prev =>
    simp only
    split
    · rename_i hc
      simp only [Bool.and_eq_true, beq_iff_eq] at hc
      obtain ⟨⟨hk1, hk2⟩, hcs⟩ := hc
      obtain ⟨ys, hys⟩ := List.getLast?_eq_some_iff.1 hl
      subst hys
      simp only [List.dropLast_concat, semN_append, List.append_assoc]
      refine (DupEq.refl _).append ?_
      have e1 : semN g decl ext [{ prev with layers := prev.layers ++ e.layers }] =
          wrapN prev.conds (layerItems prev.layers ++ layerItems e.layers) := by
        simp [semN, semEntryN, entryContent, hk2, layerItems]
      have e2 : semN g decl ext [prev] ++ semN g decl ext [e] =
          wrapN prev.conds (layerItems prev.layers) ++ wrapN prev.conds (layerItems e.layers) := by
        simp [semN, semEntryN, entryContent, hk1, hk2, hcs]
      rw [e1, e2]
      exact wrapN_append _ _ _
    · exact .refl _

theorem mergeLayers_dupEq (g : Graph) (decl : Nat → Decl) (ext : Nat → List Item) (es : List Entry) :
    DupEq (semN g decl ext (mergeLayers es)) (semN g decl ext es) := by
  have : ∀ (es wip : List Entry), DupEq (semN g decl ext (es.foldl mergeStep wip)) (semN g decl ext (wip ++ es)) := by
    intro es
    induction es with
    | nil => intro wip; simpa using DupEq.refl _
    | cons e es ih =>
      intro wip
      simp only [List.foldl_cons]
      refine (ih _).trans ?_
      have h := (mergeStep_dupEq g decl ext wip e).append (DupEq.refl (semN g decl ext es))
      have e1 : semN g decl ext (wip ++ e :: es) = semN g decl ext (wip ++ [e]) ++ semN g decl ext es := by
        simp [semN]
      rw [semN_append, e1]
      exact h
  simpa [mergeLayers] using this es []

theorem mergeStep_conds (wip : List Entry) (e : Entry) :
    ∀ x ∈ mergeStep wip e, ∃ y, (y ∈ wip ∨ y = e) ∧ x.conds = y.conds := by
  intro x hx
  unfold mergeStep at hx
  cases hl : wip.getLast? with
  | none =>
    rw [hl] at hx
    simp only at hx
    rcases List.mem_append.1 hx with h | h
    · exact ⟨x, Or.inl h, rfl⟩
    · simp only [List.mem_singleton] at h; exact ⟨e, Or.inr rfl, by rw [h]⟩
  | some prev =>
    rw [hl] at hx
    simp only at hx
    obtain ⟨ys, hys⟩ := List.getLast?_eq_some_iff.1 hl
    split at hx
    · rcases List.mem_append.1 hx with h | h
      · exact ⟨x, Or.inl (by rw [hys] at h ⊢; simp only [List.dropLast_concat] at h; simp [h]), rfl⟩
      · simp only [List.mem_singleton] at h
        exact ⟨prev, Or.inl (by rw [hys]; simp), by rw [h]⟩
    · rcases List.mem_append.1 hx with h | h
      · exact ⟨x, Or.inl h, rfl⟩
      · simp only [List.mem_singleton] at h; exact ⟨e, Or.inr rfl, by rw [h]⟩

theorem mergeLayers_noAnon {es : List Entry} (h : NoAnonEntries es) : NoAnonEntries (mergeLayers es) := by
  have : ∀ (es wip : List Entry), NoAnonEntries wip → NoAnonEntries es → NoAnonEntries (es.foldl mergeStep wip) := by
    intro es
    induction es with
    | nil => intro wip hw _; exact hw
    | cons e es ih =>
      intro wip hw he
      simp only [List.foldl_cons]
      apply ih
      · intro x hx
        obtain ⟨y, hy, hc⟩ := mergeStep_conds wip e x hx
        rw [hc]
        rcases hy with hy | rfl
        · exact hw y hy
        · exact he _ (List.mem_cons_self ..)
      · exact fun x hx => he x (List.mem_cons_of_mem _ hx)
  exact this es [] (fun x hx => by cases hx) h

-- ------------------------------------------------------------------ phase 3: bookkeeping

/-- the key under which an entry is recorded in `layerDuplicates` -/
def keyOf (g : Graph) (e : Entry) : List LayerName := if e.kind == .file then postOf g e.src else e.layers

/-- every recorded index is in range and points at an entry with the record's key -/
def Inv3 (g : Graph) (wip : List Entry) (d : LayerDups) : Prop :=
  ∀ rec ∈ d, ∀ idx ∈ rec.2, ∃ y, wip[idx]? = some y ∧ keyOf g y = rec.1

theorem findKey_spec (d : LayerDups) (key : List LayerName) :
    ∃ rec, (findKey d key).2[(findKey d key).1]? = some rec ∧ rec.1 = key ∧
      ∀ x ∈ (findKey d key).2, x ∈ d ∨ x = (key, []) := by
  unfold findKey
  cases h : d.findIdx? (fun r => r.1 == key) with
  | some i =>
    simp only
    obtain ⟨hlt, hp, _⟩ := List.findIdx?_eq_some_iff_getElem.1 h
    exact ⟨d[i], List.getElem?_eq_getElem hlt, by simpa using hp, fun x hx => Or.inl hx⟩
  | none =>
    simp only
    refine ⟨(key, []), by simp, rfl, ?_⟩
    intro x hx
    rcases List.mem_append.1 hx with h' | h'
    · exact Or.inl h'
    · exact Or.inr (by simpa using h')

theorem mem_setIndices {d : LayerDups} {i : Nat} {v : List Nat} {x : List LayerName × List Nat}
    (hx : x ∈ setIndices d i v) : x ∈ d ∨ ∃ r, d[i]? = some r ∧ x = (r.1, v) := by
  unfold setIndices at hx
  rw [List.mem_mapIdx] at hx
  obtain ⟨k, hk, he⟩ := hx
  by_cases hki : k = i
  · subst hki
    simp only [↓reduceIte] at he
    exact Or.inr ⟨d[k], List.getElem?_eq_getElem hk, he.symm⟩
  · simp only [hki, ↓reduceIte] at he
    exact Or.inl (he ▸ List.getElem_mem hk)

theorem scanDups_spec (conds : List Cond) (wip : List Entry) (rev : List Nat) (first : Bool)
    (hvalid : ∀ idx ∈ rev, ∃ y, wip[idx]? = some y) :
    match scanDups conds wip rev first with
    | .panic => False
    | .miss => True
    | .hit _ idx => idx ∈ rev ∧ ∃ y, wip[idx]? = some y ∧ isRedundant conds y.conds = true := by
  induction rev generalizing first with
  | nil => simp [scanDups]
  | cons idx rest ih =>
    obtain ⟨y, hy⟩ := hvalid idx (List.mem_cons_self ..)
    simp only [scanDups, hy]
    by_cases hr : isRedundant conds y.conds = true
    · simp only [hr, ↓reduceIte]
      exact ⟨List.mem_cons_self .., y, hy, hr⟩
    · simp only [hr, Bool.false_eq_true, ↓reduceIte]
      have := ih false (fun i hi => hvalid i (List.mem_cons_of_mem _ hi))
      split <;> rename_i hs <;> rw [hs] at this
      · exact this
      · trivial
      · exact ⟨List.mem_cons_of_mem _ this.1, this.2⟩

theorem getElem?_append_singleton_lt {α : Type} (l : List α) (x : α) {i : Nat} {y : α} (h : l[i]? = some y) :
    (l ++ [x])[i]? = some y := by
  have hlt : i < l.length := (List.getElem?_eq_some_iff.1 h).1
  rw [List.getElem?_append_left hlt]; exact h

theorem inv3_append {g : Graph} {wip : List Entry} {d : LayerDups} (h : Inv3 g wip d) (e : Entry) :
    Inv3 g (wip ++ [e]) d := by
  intro rec hrec idx hidx
  obtain ⟨y, hy, hk⟩ := h rec hrec idx hidx
  exact ⟨y, getElem?_append_singleton_lt wip e hy, hk⟩

theorem content_subset_of_key (g : Graph) (decl : Nat → Decl) {ext : Nat → List Item} {y : Entry}
    (hclean : y.kind = .ext → y.layers = []) :
    ∀ it ∈ layerItems (keyOf g y), it ∈ entryContent g decl ext y := by
  intro it hit
  unfold keyOf at hit
  unfold entryContent
  cases hk : y.kind with
  | layers => simpa [hk] using hit
  | ext => simp [hk, hclean hk, layerItems] at hit
  | file =>
    simp only [hk, beq_self_eq_true, ↓reduceIte, postOf] at hit
    simp only
    cases hf : g[y.src]? with
    | none => simp [hf, layerItems] at hit
    | some f =>
      simp only [hf] at hit
      simp only
      rw [← filter_isDeclare_bodyItems decl f] at hit
      exact (List.mem_filter.1 hit).1

theorem sameDecls_key_content (g : Graph) (decl : Nat → Decl) {ext : Nat → List Item} (hext : ExtNoLayers ext)
    {e : Entry} (hclean : e.kind = .ext → e.layers = []) :
    SameDecls (layerItems (keyOf g e)) (entryContent g decl ext e) := by
  unfold SameDecls keyOf entryContent
  cases hk : e.kind with
  | layers => simp
  | ext =>
    simp only [hclean hk, layerItems]
    simp only [reduceCtorEq, beq_iff_eq, ↓reduceIte, List.map_nil, List.filter_nil]
    symm
    rw [List.filter_eq_nil_iff]
    intro it hit
    simp [hext e.ext it hit]
  | file =>
    simp only [beq_self_eq_true, ↓reduceIte, postOf]
    cases hf : g[e.src]? with
    | none => rfl
    | some f =>
      simp only
      rw [filter_isDeclare_bodyItems, filter_isDeclare_layerItems]

end EsbuildModel.CssImport
