import EsbuildModel.Impl.VlqBytes
namespace EsbuildModel.Vlq

theorem and31 (x : Nat) : x &&& 31 = x % 32 := Nat.and_two_pow_sub_one_eq_mod x 5
theorem and1 (x : Nat) : x &&& 1 = x % 2 := Nat.and_two_pow_sub_one_eq_mod x 1
theorem shr5 (x : Nat) : x >>> 5 = x / 32 := by simp [Nat.shiftRight_eq_div_pow]
theorem shr1 (x : Nat) : x >>> 1 = x / 2 := by simp [Nat.shiftRight_eq_div_pow]
theorem or32 (d : Nat) (h : d < 32) : d ||| 32 = d + 32 := by
  have := Nat.shiftLeft_add_eq_or_of_lt (a := 1) (i := 5) (b := d) (by simpa using h)
  simp at this; rw [Nat.or_comm]; omega
theorem shl1or1 (n : Nat) : (n <<< 1) ||| 1 = 2 * n + 1 := by
  have := Nat.shiftLeft_add_eq_or_of_lt (a := n) (i := 1) (b := 1) (by decide)
  rw [← this, Nat.shiftLeft_eq]; omega
theorem and32 : ∀ d, d < 64 → d &&& 32 = if d < 32 then 0 else 32 := by decide

theorem or_shl (acc d shift : Nat) (hacc : acc < 2 ^ shift) : acc ||| (d <<< shift) = acc + d * 2 ^ shift := by
  rw [Nat.or_comm, ← Nat.shiftLeft_add_eq_or_of_lt hacc, Nat.shiftLeft_eq]; omega

theorem scan_encodeDigits (n shift acc : Nat) (rest : List Nat) (hacc : acc < 2 ^ shift) :
    scan shift acc (encodeDigits n ++ rest) = some (acc + n * 2 ^ shift, rest) := by
  fun_induction encodeDigits n generalizing shift acc with
  | case1 n digit vlq' h =>
    have hd : digit = n % 32 := and31 n
    have hv : n / 32 = 0 := by rw [← shr5]; exact h
    have hn : n < 32 := by omega
    have hdn : digit = n := by omega
    simp only [List.cons_append, List.nil_append, scan]
    rw [hdn]
    have h64 : ¬ n ≥ 64 := by omega
    have ha : n &&& 31 = n := by rw [and31]; omega
    have hb : n &&& 32 = 0 := by rw [and32 n (by omega)]; simp [hn]
    simp [h64, ha, hb, or_shl _ _ _ hacc]
  | case2 n digit vlq' h ih => 
    have hd : digit = n % 32 := and31 n
    have hv : vlq' = n / 32 := shr5 n
    have hdl : digit < 32 := by omega
    simp only [List.cons_append, scan]
    rw [or32 _ hdl]
    have h64 : ¬ digit + 32 ≥ 64 := by omega
    have ha : (digit + 32) &&& 31 = digit := by rw [and31]; omega
    have hb : ¬ ((digit + 32) &&& 32 = 0) := by rw [and32 _ (by omega)]; simp
    simp only [h64, ha, hb, ↓reduceIte]
    rw [or_shl _ _ _ hacc, ih]
    · congr 2
      have hn : n = 32 * vlq' + digit := by omega
      rw [Nat.pow_add, hn, Nat.add_mul]
      generalize 2 ^ shift = P
      have : vlq' * (P * 2 ^ 5) = 32 * vlq' * P := by
        rw [Nat.mul_comm P, ← Nat.mul_assoc, Nat.mul_comm vlq']
      omega
    · rw [Nat.pow_add]
      have : digit * 2 ^ shift + 2 ^ shift ≤ 32 * 2^shift := by
        have := Nat.mul_le_mul_right (2 ^ shift) (Nat.succ_le_of_lt hdl)
        rw [Nat.succ_mul] at this; exact this
      omega

theorem toVlq_eq (v : Int) : toVlq v = if v < 0 then 2 * (-v).toNat + 1 else 2 * v.toNat := by
  unfold toVlq; split
  · exact shl1or1 _
  · rw [Nat.shiftLeft_eq]; omega

theorem fromVlq_toVlq (v : Int) : fromVlq (toVlq v) = v := by
  rw [toVlq_eq]; unfold fromVlq; simp only [and1, shr1]
  split <;> rename_i h
  · have h1 : (2 * (-v).toNat + 1) % 2 ≠ 0 := by omega
    have h2 : (2 * (-v).toNat + 1) / 2 = (-v).toNat := by omega
    simp only [h1, h2, ne_eq, not_false_eq_true, ↓reduceIte]; omega
  · have h1 : ¬ ((2 * v.toNat) % 2 ≠ 0) := by omega
    have h2 : (2 * v.toNat) / 2 = v.toNat := by omega
    simp only [h1, h2, ↓reduceIte]; omega

theorem encode_eq (v : Int) : encode v = encodeDigits (toVlq v) := by
  unfold encode; simp only; split
  · rename_i h; rw [encodeDigits]; simp [h]
  · rfl


theorem decode_encode_digits (v : Int) (rest : List Nat) : decode (encode v ++ rest) = some (v, rest) := by
  unfold decode
  rw [encode_eq, scan_encodeDigits _ 0 0 rest (by decide)]
  simp [fromVlq_toVlq]

theorem encodeDigits_lt (n : Nat) : ∀ d ∈ encodeDigits n, d < 64 := by
  fun_induction encodeDigits n with
  | case1 n digit vlq' h =>
    intro d hd; simp at hd; subst hd
    have : digit = n % 32 := and31 n
    omega
  | case2 n digit vlq' h ih =>
    intro d hd; simp at hd
    rcases hd with hd | hd
    · subst hd
      have : digit = n % 32 := and31 n
      rw [or32 _ (by omega)]; omega
    · exact ih d hd

theorem encode_lt (v : Int) : ∀ d ∈ encode v, d < 64 := by
  rw [encode_eq]; exact encodeDigits_lt _

end EsbuildModel.Vlq
