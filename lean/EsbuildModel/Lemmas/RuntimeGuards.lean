import EsbuildModel.Impl.FeatureGates
/-! For ANY set of unsupported features: if every segment passes `segmentOK`, the selected runtime text contains no
scanned feature that is unsupported and reported by the parser. -/
namespace EsbuildModel.FeatureGates
open Gen.RuntimeGuards

theorem onlyBranches_not_marked {tbl : List Row} {f : String} (h : onlyBranches tbl f = true) : marked tbl f = false := by
  unfold onlyBranches at h
  unfold marked
  split at h
  · rename_i t m k heq
    simp only [Bool.and_eq_true, beq_iff_eq] at h
    simp [h.2]
  · cases h

theorem guarded_not_unsupported {u : List String} {seg : Segment} (hsel : selected u seg = true) {f : String}
    (hg : (guardsOf seg).contains f = true) : u.contains f = false := by
  simp only [guardsOf, List.contains_eq_mem, List.mem_flatMap, List.mem_filter, decide_eq_true_eq] at hg
  obtain ⟨c, ⟨hc, htrue⟩, hf⟩ := hg
  simp only [selected, List.all_eq_true] at hsel
  have := hsel c hc
  rw [htrue] at this
  simp only [beq_iff_eq, List.all_eq_true, Bool.not_eq_true'] at this
  exact this f hf

theorem predictedErrors_nil (tbl : List Row) (segs : List Segment) (hok : ∀ seg ∈ segs, segmentOK tbl seg = true)
    (u : List String) : predictedErrors tbl u segs = [] := by
  unfold predictedErrors
  rw [List.flatMap_eq_nil_iff]
  intro seg hseg
  obtain ⟨hmem, hsel⟩ := List.mem_filter.mp hseg
  rw [List.filter_eq_nil_iff]
  intro f hf
  have h1 := hok seg hmem
  simp only [segmentOK, List.all_eq_true, Bool.or_eq_true] at h1
  rcases h1 f hf with hg | hb
  · have hu : f ∉ u := by simpa using guarded_not_unsupported hsel hg
    simp [hu]
  · simp [onlyBranches_not_marked hb]

end EsbuildModel.FeatureGates
