import EsbuildModel.Lemmas.ExportMatchTrack
/-! The hypotheses of the main theorems, and what `ResolvedExports[o][a]` means for the request (o, a):
its entries are exactly the "holders" — files that export `a` themselves and are reachable from (o, a) through star
requests — and every binding reachable from (o, a) is reachable from a holder. -/
namespace EsbuildModel.ExportMatch
open EsbuildModel.Spec EsbuildModel.Spec.EsModules

/-- no named re-export leads back to itself, possibly through export stars and other re-exports
(`export {a as b} from "./x"` … `export {b as a} from "./y"` cycles) -/
def NoReexportCycle (T : EsModules.Table) : Prop :=
  ∀ m n m' n', node T m n = .ind m' n' → ¬ Reach T (m', n') (m, n)

/-- every indirect export entry of every module resolves to a binding (16.2.1.7.3.1 InitializeEnvironment step 7.a:
otherwise linking that module throws a SyntaxError) -/
def ReexportsLink (T : EsModules.Table) : Prop :=
  ∀ m module, T[m]? = some module → ∀ e ∈ module.indirectExportEntries,
    ∃ b, resolveExport T m e.exportName = some (.binding b)

theorem toSpec_length (t : Table) : (toSpec t).length = t.length := by simp [toSpec]

theorem findImport_mem {f : File} {r : Nat} {ni : NamedImport} (h : findImport f r = some ni) :
    ni ∈ f.imports ∧ ni.ref = r := by
  unfold findImport at h
  exact ⟨List.mem_of_find?_eq_some h, by simpa using List.find?_some h⟩

theorem toSpec_wellFormed {t : Table} (hwf : WF t) : WellFormed (toSpec t) := by
  intro module hmod
  obtain ⟨f, hf, rfl⟩ := List.mem_map.1 hmod
  rw [toSpec_length]
  refine ⟨?_, ?_, ?_⟩
  · intro e he
    simp only [toRecord, List.mem_filterMap] at he
    obtain ⟨x, _, hx⟩ := he
    unfold indirectOf at hx
    split at hx
    · rename_i ni hni
      simp only [Option.map_eq_some_iff] at hx
      obtain ⟨tg, htg, rfl⟩ := hx
      exact hwf.targets f hf ni (findImport_mem hni).1 tg htg
    · cases hx
  · intro e he
    simp only [toRecord, List.mem_filterMap] at he
    obtain ⟨s, hs, hse⟩ := he
    simp at hse; subst hse
    exact hwf.stars f hf e hs
  · intro e he
    simp only [toRecord, List.mem_filterMap] at he
    obtain ⟨ni, hni, hx⟩ := he
    simp only [Option.map_eq_some_iff] at hx
    obtain ⟨tg, htg, rfl⟩ := hx
    exact hwf.targets f hf ni hni tg htg

/-- an indirect request that links reaches exactly one binding -/
theorem link_unique {t : Table} (hwf : WF t) (hlink : ReexportsLink (toSpec t)) {m m' : Nat} {n n' : Name}
    (h : node (toSpec t) m n = .ind m' n') :
    ∃ b, Reaches (toSpec t) (m, n) b ∧ ∀ b', Reaches (toSpec t) (m, n) b' → b' = b := by
  have hm : m < (toSpec t).length := by
    cases hg : (toSpec t)[m]? with
    | none => simp [node, hg] at h
    | some _ => exact (List.getElem?_eq_some_iff.1 hg).1
  -- the entry that makes the request indirect
  have hent : ∃ module e, (toSpec t)[m]? = some module ∧ e ∈ module.indirectExportEntries ∧ e.exportName = n := by
    unfold node at h
    split at h
    · cases h
    · rename_i module hmod
      split at h
      · cases h
      · split at h
        · rename_i e he
          exact ⟨module, e, hmod, List.mem_of_find?_eq_some he, by simpa using List.find?_some he⟩
        · split at h <;> cases h
  obtain ⟨module, e, hmod, he, hen⟩ := hent
  obtain ⟨b, hb⟩ := hlink m module hmod e he
  rw [hen] at hb
  obtain ⟨r, hr, _, hbind, _⟩ := resolveExport_spec (toSpec_wellFormed hwf) hm n
  rw [hb] at hr; cases hr
  exact ⟨b, hbind b rfl⟩

/-- `d` is an export of name `a` (the entry of its file) reachable from request (o, a) -/
def IsHolder (t : Table) (o : Nat) (a : Name) (d : ImportData) : Prop :=
  (∃ fo e, t[d.src]? = some fo ∧ entry fo a = some e ∧ e.ref = d.ref ∧ e.loc = d.loc) ∧
    Reach (toSpec t) (o, a) (d.src, a)

theorem not_reaches_dflt {T : EsModules.Table} {m : Nat} {n : Name} (h : node T m n = .dflt) (b : ResolvedBinding) :
    ¬ Reaches T (m, n) b := by
  intro hr
  rcases hr.cases with ht | ⟨y, hy, _⟩
  · simp [term, h] at ht
  · simp [succ, h] at hy

theorem holders_of {t : Table} (hwf : WF t) (hesm : EsmOnly t) {o : Nat} (ho : o < t.length) {res : Resolved}
    (hres : resolvedExports t o = some res) (a : Name) :
    (res.lookup a = none → ∀ b, ¬ Reaches (toSpec t) (o, a) b) ∧
    (∀ ex, res.lookup a = some ex →
      (∀ d ∈ (⟨ex.src, ex.ref, ex.loc⟩ : ImportData) :: ex.ambs, IsHolder t o a d) ∧
      (∀ b, Reaches (toSpec t) (o, a) b →
        ∃ d ∈ (⟨ex.src, ex.ref, ex.loc⟩ : ImportData) :: ex.ambs, Reaches (toSpec t) (d.src, a) b)) := by
  have hf : t[o]? = some t[o] := List.getElem?_eq_getElem ho
  cases he : entry t[o] a with
  | some e =>
    have hl := resolvedExports_own hf hres he
    refine ⟨fun h => (by rw [hl] at h; cases h), ?_⟩
    intro ex hex
    rw [hl] at hex; cases hex
    refine ⟨?_, ?_⟩
    · intro d hd
      simp at hd; subst hd
      exact ⟨⟨t[o], e, hf, he, rfl, rfl⟩, .refl _⟩
    · intro b hb
      exact ⟨⟨o, e.ref, e.loc⟩, by simp, hb⟩
  | none =>
    obtain ⟨hext, hcomp⟩ := resolvedExports_star hf hres he
    by_cases hd : a = "default"
    · have hnode : node (toSpec t) o a = .dflt := by
        rw [node_toSpec hwf.aliases]
        subst hd
        simp [nodeOf, hf, he]
      have hnone : res.lookup a = none := by
        cases hl : res.lookup a with
        | none => rfl
        | some ex => rw [hl] at hext; exact absurd hd hext.1.ne_default
      exact ⟨fun _ => not_reaches_dflt hnode, fun ex hex => (by rw [hnone] at hex; cases hex)⟩
    · have hlacks : Lacks t a o := ⟨_, hf, he⟩
      refine ⟨?_, ?_⟩
      · intro hnone b hb
        obtain ⟨d, hfinds, _⟩ := reaches_finds hwf hesm hd hlacks hb
        obtain ⟨ex, hex, _⟩ := hcomp d hfinds
        rw [hnone] at hex; cases hex
      · intro ex hex
        rw [hex] at hext hcomp
        have hall : ∀ d ∈ (⟨ex.src, ex.ref, ex.loc⟩ : ImportData) :: ex.ambs, Finds t a [] o d := by
          intro d hd'
          rcases List.mem_cons.1 hd' with rfl | hd'
          · exact hext.1
          · exact hext.2 d hd'
        refine ⟨?_, ?_⟩
        · intro d hd'
          have hfd := hall d hd'
          obtain ⟨fo, e, hfo, hemem, hea, her, hel⟩ := hfd.entry
          have hn := hwf.aliases fo (List.mem_of_getElem? hfo)
          exact ⟨⟨fo, e, hfo, entry_unique hn hemem hea, her, hel⟩, finds_reach hwf hfd⟩
        · intro b hb
          obtain ⟨d, hfinds, hr⟩ := reaches_finds hwf hesm hd hlacks hb
          obtain ⟨ex', hex', hsrc⟩ := hcomp d hfinds
          cases hex'
          rcases hsrc with hsrc | ⟨d', hd', hsrc⟩
          · exact ⟨⟨ex.src, ex.ref, ex.loc⟩, by simp, by simpa [hsrc] using hr⟩
          · exact ⟨d', by simp [hd'], by rw [hsrc]; exact hr⟩

end EsbuildModel.ExportMatch
