import EsbuildModel.Lemmas.FsCacheStep
/-
The operational hypothesis (honest edits, time only passes, resolution fits the gap) implies the semantic one.
-/
namespace EsbuildModel.FsCache
open EsbuildModel.StatCache

/-- a time stamp taken from the clock now is fresh now, when the resolution fits the gap -/
theorem stamp_fresh {cfg : Cfg} (hfit : ResFits cfg) (t : Int) : Fresh cfg t (stamp cfg.res t) := by
  obtain ⟨hpos, hle⟩ := hfit
  have h1 := stamp_gt cfg.res t hpos
  unfold Fresh
  cases hp : cfg.plat with
  | unix =>
    simp only [hp, slack] at hle
    simp only [keyTime]
    omega
  | other =>
    simp only [hp, slack, nsPerSec] at hle
    simp only [keyTime, secOf, nsPerSec]
    omega

theorem honest_edit_ok {cfg : Cfg} (hfit : ResFits cfg) (t : Int) (seen : List Nat) (old : Option File) (e : Edit)
    (he : e.Honest = true) : StepOK cfg t seen old (e.result cfg.res t old) := by
  have hfresh := stamp_fresh hfit t
  cases e with
  | write p c =>
    cases old with
    | none => simp [Edit.result, StepOK]
    | some f => simp only [Edit.result, Option.map, StepOK]; exact Or.inl hfresh
  | create p ino mode uid c =>
    cases old with
    | none => simp only [Edit.result, StepOK]; exact Or.inl hfresh
    | some f => simp only [Edit.result, StepOK]; exact Or.inl hfresh
  | replace p ino mode uid c => simp only [Edit.result, StepOK]; exact Or.inl hfresh
  | touch p =>
    cases old with
    | none => simp [Edit.result, StepOK]
    | some f => simp only [Edit.result, Option.map, StepOK]; exact Or.inl hfresh
  | chmod p mode =>
    cases old with
    | none => simp [Edit.result, StepOK]
    | some f =>
      simp only [Edit.result, Option.map, StepOK]
      exact Or.inr (Or.inr ⟨f, rfl, rfl, Int.le_refl _, fun _ => rfl⟩)
  | chown p uid =>
    cases old with
    | none => simp [Edit.result, StepOK]
    | some f =>
      simp only [Edit.result, Option.map, StepOK]
      exact Or.inr (Or.inr ⟨f, rfl, rfl, Int.le_refl _, fun _ => rfl⟩)
  | delete p => simp [Edit.result, StepOK]
  | chtimes p m => simp [Edit.Honest] at he
  | moveIn p f => simp [Edit.Honest] at he

theorem honest_act_ok {cfg : Cfg} (hfit : ResFits cfg) (s : State) (a : Act) (ha : a.Honest = true) : ActOK cfg s a := by
  cases a with
  | edit e => exact honest_edit_ok hfit _ _ _ e ha
  | tick d => trivial
  | setClock t => simp [Act.Honest] at ha

theorem honest_acts_ok {cfg : Cfg} (hfit : ResFits cfg) (s : State) (as : List Act) (ha : as.all Act.Honest = true) :
    ActsOK cfg s as := by
  induction as generalizing s with
  | nil => trivial
  | cons a as ih =>
    simp only [List.all_cons, Bool.and_eq_true] at ha
    exact ⟨honest_act_ok hfit s a ha.1, ih _ ha.2⟩

theorem honest_op_ok {cfg : Cfg} (hfit : ResFits cfg) (s : State) (op : Op) (h : op.Honest = true) : OpOK cfg s op := by
  cases op with
  | act a => exact honest_act_ok hfit s a h
  | read p mids => exact honest_acts_ok hfit _ mids h
  | rawRead p => trivial
  | newBuild => trivial

theorem honest_trusted {cfg : Cfg} (hfit : ResFits cfg) (s : State) (ops : List Op) (h : ∀ op ∈ ops, op.Honest = true) :
    Trusted cfg s ops := by
  induction ops generalizing s with
  | nil => trivial
  | cons op ops ih =>
    exact ⟨honest_op_ok hfit s op (h op (List.mem_cons_self ..)), ih _ (fun o ho => h o (List.mem_cons_of_mem _ ho))⟩

end EsbuildModel.FsCache
