/-
In a class without heritage `super(...)` always throws, so what would happen after it returns (Ctx.onBind) is irrelevant
for everything evaluated in a constructor of such a class.
-/
import EsbuildModel.Spec.TsClass
namespace EsbuildModel.TsClass

theorem Res.bind_congr {α β : Type} (r : Res α) (f g : α → St → Res β) (h : ∀ a s, f a s = g a s) : r.bind f = r.bind g := by
  cases r <;> simp [Res.bind, h]

theorem superSem_none (ob : List Val → Nat → St → Res Unit) (S : List Nat) (ps : List Val) (v : Val) (t : Option Nat) (s : St) :
    superSem ⟨none, ob, S⟩ ps v t s = .threw s := rfl

mutual
theorem evalE_root (m : Mode) (ob ob' : List Val → Nat → St → Res Unit) (S : List Nat) :
    ∀ (e : Expr) (env : Env) (t : Option Nat) (s : St), evalE m e ⟨none, ob, S⟩ env t s = evalE m e ⟨none, ob', S⟩ env t s
  | .num _, _, _, _ => by simp [evalE]
  | .undef, _, _, _ => by simp [evalE]
  | .probe _, _, _, _ => by simp [evalE]
  | .param _, _, _, _ => by simp [evalE]
  | .allArgs, _, _, _ => by simp [evalE]
  | .thisGet _, _, _, _ => by simp [evalE]
  | .assignThis x e, env, t, s => by
    simp only [evalE]
    cases t with
    | none => rfl
    | some id => simp only [evalE_root m ob ob' S e env (some id) s]
  | .defineThis x h e, env, t, s => by
    simp only [evalE]
    cases t with
    | none => rfl
    | some id => simp only [evalE_root m ob ob' S e env (some id) s]
  | .superCall a, env, t, s => by
    simp only [evalE, evalE_root m ob ob' S a env t s, superSem_none]
  | .shimCall i a, env, t, s => by
    simp only [evalE]
    split
    · rfl
    · rw [evalE_root m ob ob' S a env t s]
  | .seq a b, env, t, s => by
    simp only [evalE, evalE_root m ob ob' S a env t s]
    exact Res.bind_congr _ _ _ fun r s1 => evalE_root m ob ob' S b env r.2 s1
  | .cond c a b, env, t, s => by
    simp only [evalE, evalE_root m ob ob' S c env t s]
    refine Res.bind_congr _ _ _ fun r s1 => ?_
    split
    · exact evalE_root m ob ob' S a env r.2 s1
    · exact evalE_root m ob ob' S b env r.2 s1
  | .arrow b, env, t, s => by
    simp only [evalE, evalE_root m ob ob' S b env t s]
  | .newC c a, env, t, s => by
    simp only [evalE, defineClass_root m ob ob' S c env t s]
    refine Res.bind_congr _ _ _ fun t1 s1 => ?_
    simp only [evalE_root m ob ob' S a env t1 s1]

theorem defineBase_root (m : Mode) (ob ob' : List Val → Nat → St → Res Unit) (S : List Nat) :
    ∀ (b : Base) (env : Env) (t : Option Nat) (s : St), defineBase m b ⟨none, ob, S⟩ env t s = defineBase m b ⟨none, ob', S⟩ env t s
  | .none, _, _, _ => by simp [defineBase]
  | .some pre c, env, t, s => by
    simp only [defineBase, evalE_root m ob ob' S pre env t s]
    exact Res.bind_congr _ _ _ fun r s1 => defineClass_root m ob ob' S c env r.2 s1

theorem defineClass_root (m : Mode) (ob ob' : List Val → Nat → St → Res Unit) (S : List Nat) :
    ∀ (c : Class) (env : Env) (t : Option Nat) (s : St), defineClass m c ⟨none, ob, S⟩ env t s = defineClass m c ⟨none, ob', S⟩ env t s
  | .mk base _ _ ms after, env, t, s => by
    simp only [defineClass, defineBase_root m ob ob' S base env t s]
end

mutual
theorem evalStmt_root (m : Mode) (ob ob' : List Val → Nat → St → Res Unit) (S : List Nat) :
    ∀ (st : Stmt) (env : Env) (t : Option Nat) (s : St), evalStmt m st ⟨none, ob, S⟩ env t s = evalStmt m st ⟨none, ob', S⟩ env t s
  | .expr e, env, t, s => by simp only [evalStmt, evalE_root m ob ob' S e env t s]
  | .retVoid, _, _, _ => by simp [evalStmt]
  | .retVal e, env, t, s => by simp only [evalStmt, evalE_root m ob ob' S e env t s]
  | .throw_ e, env, t, s => by simp only [evalStmt, evalE_root m ob ob' S e env t s]
  | .ifS c th el, env, t, s => by
    simp only [evalStmt, evalE_root m ob ob' S c env t s]
    refine Res.bind_congr _ _ _ fun r s1 => ?_
    split
    · exact evalStmts_root m ob ob' S th env r.2 s1
    · exact evalStmts_root m ob ob' S el env r.2 s1
  | .shimDecl _ _, _, _, _ => by simp [evalStmt]

theorem evalStmts_root (m : Mode) (ob ob' : List Val → Nat → St → Res Unit) (S : List Nat) :
    ∀ (ss : Stmts) (env : Env) (t : Option Nat) (s : St), evalStmts m ss ⟨none, ob, S⟩ env t s = evalStmts m ss ⟨none, ob', S⟩ env t s
  | .nil, _, _, _ => by simp [evalStmts]
  | .cons (.shimDecl i ins) r, env, t, s => by
    simp only [evalStmts, superSem_none, Res.bind]
    exact evalStmts_root m ob ob' S r _ t s
  | .cons (.expr e) r, env, t, s => by
    rw [evalStmts, evalStmts]
    · rw [evalStmt_root m ob ob' S (.expr e) env t s]
      exact Res.bind_congr _ _ _ fun r1 s1 => by
        split
        · exact evalStmts_root m ob ob' S r env r1.2 s1
        · rfl
    · intro i ins h; cases h
    · intro i ins h; cases h
  | .cons .retVoid r, env, t, s => by
    rw [evalStmts, evalStmts]
    · rw [evalStmt_root m ob ob' S .retVoid env t s]
      exact Res.bind_congr _ _ _ fun r1 s1 => by
        split
        · exact evalStmts_root m ob ob' S r env r1.2 s1
        · rfl
    · intro i ins h; cases h
    · intro i ins h; cases h
  | .cons (.retVal e) r, env, t, s => by
    rw [evalStmts, evalStmts]
    · rw [evalStmt_root m ob ob' S (.retVal e) env t s]
      exact Res.bind_congr _ _ _ fun r1 s1 => by
        split
        · exact evalStmts_root m ob ob' S r env r1.2 s1
        · rfl
    · intro i ins h; cases h
    · intro i ins h; cases h
  | .cons (.throw_ e) r, env, t, s => by
    rw [evalStmts, evalStmts]
    · rw [evalStmt_root m ob ob' S (.throw_ e) env t s]
      exact Res.bind_congr _ _ _ fun r1 s1 => by
        split
        · exact evalStmts_root m ob ob' S r env r1.2 s1
        · rfl
    · intro i ins h; cases h
    · intro i ins h; cases h
  | .cons (.ifS c th el) r, env, t, s => by
    rw [evalStmts, evalStmts]
    · rw [evalStmt_root m ob ob' S (.ifS c th el) env t s]
      exact Res.bind_congr _ _ _ fun r1 s1 => by
        split
        · exact evalStmts_root m ob ob' S r env r1.2 s1
        · rfl
    · intro i ins h; cases h
    · intro i ins h; cases h
end

theorem evalParams_root (m : Mode) (ob ob' : List Val → Nat → St → Res Unit) (S : List Nat) :
    ∀ (ps : Params) (i : Nat) (env : Env) (t : Option Nat) (s : St),
      evalParams m ps i ⟨none, ob, S⟩ env t s = evalParams m ps i ⟨none, ob', S⟩ env t s
  | .nil, _, _, _, _ => by simp [evalParams]
  | .cons _ hasD d r, i, env, t, s => by
    simp only [evalParams]
    generalize (if (i == 0) = true then env.rawArg else Val.undef) = v0
    by_cases hc : (hasD && v0 == Val.undef) = true
    · simp only [hc, if_true]
      rw [evalE_root m ob ob' S d env t s]
      exact Res.bind_congr _ _ _ fun r1 s1 => evalParams_root m ob ob' S r (i + 1) _ r1.2 s1
    · simp only [hc, if_false]
      exact evalParams_root m ob ob' S r (i + 1) _ t s

end EsbuildModel.TsClass
