import EsbuildModel.Impl.LexNum
import EsbuildModel.Spec.JsNumericLiteral
import EsbuildModel.Lemmas.JsNumber
/-
Helper lemmas for the lexer model `Impl/LexNum.lean`: the position bookkeeping (`St`), the "digits with single
separators" automaton `runOK` that the scanning loops implement and its relation to the grammar (`sepTail`,
`sepDigits` of Spec/JsNumericLiteral.lean), facts on `strip`.
-/
namespace EsbuildModel.LexNum
open EsbuildModel.Spec.Num EsbuildModel.Spec.NumLit

theorem isDig_eq (c : Char) : isDig c = Spec.Num.isDigit c := rfl
theorem hexValOf_eq (c : Char) : hexValOf c = hexVal? c := rfl

/-! ### positions -/

/-- the last underscore lies strictly before the current position -/
def Inv (s : St) : Prop := s.lastUS < s.end_

theorem inv_st1 : Inv st1 := by simp [Inv, st1]

theorem inv_step {s : St} (h : Inv s) : Inv s.step := by
  simp only [Inv, St.step] at *; omega

theorem inv_us_step {s : St} (_h : Inv s) : Inv s.us.step := by
  simp only [Inv, St.step, St.us] at *; omega

theorem prevUS_step {s : St} (h : Inv s) : s.step.prevUS = false := by
  simp only [Inv, St.step, St.prevUS] at *
  simp; intro _; omega

theorem prevUS_us_step {s : St} (h : Inv s) : s.us.step.prevUS = true := by
  simp only [Inv, St.step, St.us, St.prevUS] at *
  simp; omega

@[simp] theorem step_end (s : St) : s.step.end_ = s.end_ + 1 := rfl
@[simp] theorem step_usCount (s : St) : s.step.usCount = s.usCount := rfl
@[simp] theorem us_end (s : St) : s.us.end_ = s.end_ := rfl
@[simp] theorem us_usCount (s : St) : s.us.usCount = s.usCount + 1 := rfl

/-! ### the separator automaton -/

/-- run of digits (`isD`) and underscores without two underscores in a row; the Bool state is "the previous
character was an underscore"; the result is the final state -/
def runOK (isD : Char → Bool) : Bool → List Char → Option Bool
  | p, [] => some p
  | p, c :: r =>
    if isD c then runOK isD false r
    else if c = '_' then (if p then none else runOK isD true r)
    else none

theorem sepTail_cons (isD : Char → Bool) (c : Char) (r : List Char) :
    sepTail isD (c :: r) = if c = '_' then sepDigits isD r else (isD c && sepTail isD r) := by
  cases r with
  | nil => rw [sepTail]; split <;> simp_all [sepDigits, sepTail]
  | cons d r' => rw [sepTail]; split <;> simp_all [sepDigits]

theorem runOK_sep (isD : Char → Bool) (hus : isD '_' = false) (run : List Char) :
    (runOK isD false run = some false ↔ sepTail isD run = true) ∧
    (runOK isD true run = some false ↔ sepDigits isD run = true) := by
  induction run with
  | nil => simp [runOK, sepTail, sepDigits]
  | cons c r ih =>
    by_cases hd : isD c = true
    · have hc : c ≠ '_' := by rintro rfl; rw [hus] at hd; cases hd
      simp [runOK, sepTail_cons, sepDigits, hd, hc, ih.1]
    · by_cases hc : c = '_'
      · subst hc
        simp [runOK, sepTail_cons, sepDigits, hus, ih.2]
      · simp [runOK, sepTail_cons, sepDigits, hd, hc]

theorem runOK_all (isD : Char → Bool) {p p' : Bool} {run : List Char} (h : runOK isD p run = some p') :
    ∀ c ∈ run, isD c = true ∨ c = '_' := by
  induction run generalizing p with
  | nil => intro c hc; cases hc
  | cons c r ih =>
    intro x hx
    simp only [runOK] at h
    split at h
    · rename_i hd
      rcases List.mem_cons.1 hx with rfl | hx
      · exact Or.inl hd
      · exact ih h x hx
    · split at h
      · rename_i hc
        split at h
        · cases h
        · rcases List.mem_cons.1 hx with rfl | hx
          · exact Or.inr hc
          · exact ih h x hx
      · cases h

/-- a run without underscores is accepted from any state and ends in state `false` (if non-empty) -/
theorem runOK_digits (isD : Char → Bool) (p : Bool) {run : List Char} (h : ∀ c ∈ run, isD c = true) :
    runOK isD p run = some (if run = [] then p else false) := by
  induction run generalizing p with
  | nil => simp [runOK]
  | cons c r ih =>
    have hc := h c (List.mem_cons_self)
    simp only [runOK, hc, if_true]
    rw [ih false (fun x hx => h x (List.mem_cons_of_mem _ hx))]
    simp

theorem runOK_noUS (isD : Char → Bool) {p p' : Bool} {run : List Char} (h : runOK isD p run = some p')
    (hno : ∀ c ∈ run, c ≠ '_') : ∀ c ∈ run, isD c = true := by
  intro c hc
  rcases runOK_all isD h c hc with h | h
  · exact h
  · exact absurd h (hno c hc)

/-! ### strip -/

theorem strip_append (a b : List Char) : strip (a ++ b) = strip a ++ strip b := by simp [strip]

theorem strip_cons_ne {c : Char} (h : c ≠ '_') (l : List Char) : strip (c :: l) = c :: strip l := by
  simp [strip, h]

theorem strip_cons_us (l : List Char) : strip ('_' :: l) = strip l := by simp [strip]

theorem strip_of_noUS {l : List Char} (h : ∀ c ∈ l, c ≠ '_') : strip l = l := by
  simp only [strip]
  rw [List.filter_eq_self]
  intro c hc
  simp [h c hc]

theorem strip_noUS (l : List Char) : ∀ c ∈ strip l, c ≠ '_' := by
  intro c hc
  simp only [strip, List.mem_filter] at hc
  simpa using hc.2

theorem strip_strip (l : List Char) : strip (strip l) = strip l := strip_of_noUS (strip_noUS l)

theorem isDigit_ne_us {c : Char} (h : Spec.Num.isDigit c = true) : c ≠ '_' := by rintro rfl; revert h; decide

theorem strip_of_allDigits {l : List Char} (h : AllDigits l) : strip l = l :=
  strip_of_noUS (fun c hc => isDigit_ne_us (h c hc))

theorem stripUS_eq {n : Nat} {l : List Char} (h : n = l.count '_') : stripUS n l = strip l := by
  unfold stripUS
  split
  · rfl
  · have h0 : l.count '_' = 0 := by omega
    rw [strip_of_noUS]
    intro c hc hcu
    subst hcu
    have := List.count_pos_iff.2 hc
    omega

/-- the digits of a run accepted by the automaton, after stripping, are all digits -/
theorem strip_run_digits (isD : Char → Bool) {p p' : Bool} {run : List Char} (h : runOK isD p run = some p') :
    ∀ c ∈ strip run, isD c = true := by
  intro c hc
  have hne := strip_noUS run c hc
  simp only [strip, List.mem_filter] at hc
  rcases runOK_all isD h c hc.1 with h | h
  · exact h
  · exact absurd h hne

theorem sepTail_strip (isD : Char → Bool) (hus : isD '_' = false) {l : List Char} (h : sepTail isD l = true) :
    sepTail isD (strip l) = true ∧ ∀ c ∈ strip l, isD c = true := by
  have h1 := (runOK_sep isD hus l).1.2 h
  have hall := strip_run_digits isD h1
  refine ⟨?_, hall⟩
  have := runOK_digits isD false hall
  apply (runOK_sep isD hus (strip l)).1.1
  rw [this]; split <;> rfl

theorem sepDigits_strip (isD : Char → Bool) (hus : isD '_' = false) {l : List Char} (h : sepDigits isD l = true) :
    sepDigits isD (strip l) = true ∧ (∀ c ∈ strip l, isD c = true) ∧ strip l ≠ [] := by
  cases l with
  | nil => simp [sepDigits] at h
  | cons c r =>
    simp only [sepDigits, Bool.and_eq_true] at h
    have hc : c ≠ '_' := by rintro rfl; rw [hus] at h; exact absurd h.1 (by simp)
    rw [strip_cons_ne hc]
    obtain ⟨h1, h2⟩ := sepTail_strip isD hus h.2
    refine ⟨by simp [sepDigits, h.1, h1], ?_, by simp⟩
    intro x hx
    rcases List.mem_cons.1 hx with rfl | hx
    · exact h.1
    · exact h2 x hx

end EsbuildModel.LexNum
