import EsbuildModel.Lemmas.ExportMatchFinal
import EsbuildModel.Lemmas.EsModulesNames
/-! The KEYS of `ResolvedExports` against `GetExportedNames`, and the filtered alias list against the [[Exports]] of the
module namespace object. -/
namespace EsbuildModel.ExportMatch
open EsbuildModel.Spec EsbuildModel.Spec.EsModules

/-! ### specification side: a name that resolves is an exported name -/

theorem node_own {T : EsModules.Table} {m : ModuleId} {n : Name}
    (h : (∃ b, node T m n = .loc b) ∨ (∃ m', node T m n = .ns m') ∨ (∃ m' n', node T m n = .ind m' n')) :
    n ∈ ownOf T m := by
  unfold node at h
  unfold ownOf
  cases hm : T[m]? with
  | none => simp [hm] at h
  | some module =>
    simp only [hm] at h ⊢
    unfold ownNames
    rw [List.mem_append]
    cases hl : module.localExportEntries.find? (·.exportName = n) with
    | some e =>
      left
      exact List.mem_map.2 ⟨e, List.mem_of_find?_eq_some hl, by simpa using List.find?_some hl⟩
    | none =>
      simp only [hl] at h
      cases hi : module.indirectExportEntries.find? (·.exportName = n) with
      | some e =>
        right
        exact List.mem_map.2 ⟨e, List.mem_of_find?_eq_some hi, by simpa using List.find?_some hi⟩
      | none =>
        simp only [hi] at h
        split at h <;> simp at h

theorem node_stars {T : EsModules.Table} {m : ModuleId} {n : Name} {l : List ModuleId} (h : node T m n = .stars l) :
    n ≠ "default" ∧ starSucc T m = l := by
  unfold node at h
  unfold starSucc
  cases hm : T[m]? with
  | none => simp [hm] at h
  | some module =>
    simp only [hm] at h ⊢
    split at h
    · cases h
    · split at h
      · split at h <;> cases h
      · split at h
        · cases h
        · rename_i hd
          cases h
          exact ⟨hd, rfl⟩

/-- if request (m, n) reaches a binding then `n` is one of the names GetExportedNames lists for `m` -/
theorem reaches_exported {T : EsModules.Table} {x z : Node} (h : ReachH T x z) :
    ∀ b, term T z = some b →
      x.2 ∈ ownOf T x.1 ∨ (x.2 ≠ "default" ∧ ∃ s, StarReach T x.1 s ∧ x.2 ∈ ownOf T s) := by
  induction h with
  | refl x =>
    intro b hb
    left
    obtain ⟨m, n⟩ := x
    apply node_own
    unfold term at hb
    simp only at hb ⊢
    cases hk : node T m n with
    | loc b' => exact Or.inl ⟨b', rfl⟩
    | ns m' => exact Or.inr (Or.inl ⟨m', rfl⟩)
    | missing => rw [hk] at hb; cases hb
    | ind _ _ => rw [hk] at hb; cases hb
    | dflt => rw [hk] at hb; cases hb
    | stars _ => rw [hk] at hb; cases hb
  | @head x y z hy _ ih =>
    intro b hb
    obtain ⟨m, n⟩ := x
    unfold succ at hy
    simp only at hy ⊢
    cases hk : node T m n with
    | ind m' n' => exact Or.inl (node_own (Or.inr (Or.inr ⟨m', n', hk⟩)))
    | stars l =>
      rw [hk] at hy
      simp only [List.mem_map] at hy
      obtain ⟨s, hs, rfl⟩ := hy
      obtain ⟨hd, hsucc⟩ := node_stars hk
      right
      refine ⟨hd, ?_⟩
      have hstep : s ∈ starSucc T m := by rw [hsucc]; exact hs
      rcases ih b hb with h1 | ⟨_, s', hs', h2⟩
      · exact ⟨s, .step (.refl _) hstep, h1⟩
      · exact ⟨s', StarReach.head hstep hs', h2⟩
    | missing => rw [hk] at hy; simp at hy
    | loc _ => rw [hk] at hy; simp at hy
    | ns _ => rw [hk] at hy; simp at hy
    | dflt => rw [hk] at hy; simp at hy

/-- GetModuleNamespace's filter: the exported names whose resolution is a binding -/
theorem namespaceExports_spec {T : EsModules.Table} {m : ModuleId} {names : List Name}
    (hn : getExportedNames T m = some names) (hr : ∀ n ∈ names, ∃ r, resolveExport T m n = some r) :
    ∃ L, namespaceExports T m = some L ∧
      ∀ a, a ∈ L ↔ a ∈ names ∧ ∃ b, resolveExport T m a = some (.binding b) := by
  unfold namespaceExports
  rw [hn]
  simp only
  clear hn
  induction names with
  | nil => exact ⟨[], rfl, by simp⟩
  | cons n ns ih =>
    obtain ⟨L, hL, hmem⟩ := ih (fun n' hn' => hr n' (by simp [hn']))
    obtain ⟨r, hrn⟩ := hr n (by simp)
    simp only [List.foldr_cons, hL, hrn]
    cases r with
    | binding b =>
      refine ⟨n :: L, rfl, ?_⟩
      intro a
      simp only [List.mem_cons, hmem]
      constructor
      · rintro (rfl | ⟨h1, h2⟩)
        · exact ⟨Or.inl rfl, b, hrn⟩
        · exact ⟨Or.inr h1, h2⟩
      · rintro ⟨rfl | h1, h2⟩
        · exact Or.inl rfl
        · exact Or.inr ⟨h1, h2⟩
    | null =>
      refine ⟨L, rfl, ?_⟩
      intro a
      rw [hmem]
      constructor
      · rintro ⟨h1, h2⟩; exact ⟨by simp [h1], h2⟩
      · rintro ⟨h1, b, h2⟩
        rcases List.mem_cons.1 h1 with rfl | h1
        · rw [hrn] at h2; cases h2
        · exact ⟨h1, b, h2⟩
    | ambiguous =>
      refine ⟨L, rfl, ?_⟩
      intro a
      rw [hmem]
      constructor
      · rintro ⟨h1, h2⟩; exact ⟨by simp [h1], h2⟩
      · rintro ⟨h1, b, h2⟩
        rcases List.mem_cons.1 h1 with rfl | h1
        · rw [hrn] at h2; cases h2
        · exact ⟨h1, b, h2⟩

/-! ### the keys of `ResolvedExports` stay unique -/

theorem lookup_none_iff (res : Resolved) (a : Name) : res.lookup a = none ↔ a ∉ res.map (·.1) := by
  induction res with
  | nil => simp [List.lookup]
  | cons p res ih =>
    obtain ⟨k, v⟩ := p
    simp only [List.lookup, List.map_cons, List.mem_cons, not_or]
    by_cases h : a = k
    · subst h; simp
    · have : (a == k) = false := by simpa using h
      simp [this, h, ih]

theorem map_fst_setVal (a : Name) (v : ExportData) (res : Resolved) : (setVal a v res).map (·.1) = res.map (·.1) := by
  induction res with
  | nil => rfl
  | cons p res ih =>
    obtain ⟨k, w⟩ := p
    simp only [setVal]
    split <;> simp [ih]

theorem addAlias_keys {t : Table} {stack : List Nat} {o : Nat} {res res' : Resolved} {e : NamedExport}
    (h : addAlias t stack o res e = some res') (hn : (res.map (·.1)).Nodup) : (res'.map (·.1)).Nodup := by
  unfold addAlias at h
  split at h
  · cases h; exact hn
  · split at h
    · cases h
    · cases h; exact hn
    · split at h
      · rename_i hl
        cases h
        rw [List.map_append, List.nodup_append]
        refine ⟨hn, by simp, ?_⟩
        intro x hx y hy hxy
        simp at hy; subst hy; subst hxy
        exact (lookup_none_iff res _).1 hl hx
      · split at h
        · cases h; rw [map_fst_setVal]; exact hn
        · cases h; exact hn

theorem addAliases_keys {t : Table} {stack : List Nat} {o : Nat} : ∀ (es : List NamedExport) (res res' : Resolved),
    addAliases t stack o res es = some res' → (res.map (·.1)).Nodup → (res'.map (·.1)).Nodup := by
  intro es
  induction es with
  | nil => intro res res' h hn; simp only [addAliases] at h; cases h; exact hn
  | cons e es ih =>
    intro res res' h hn
    simp only [addAliases] at h
    split at h
    · cases h
    · rename_i r1 h1
      exact ih r1 res' h (addAlias_keys h1 hn)

theorem starsLoop_keys {t : Table} {stack : List Nat} (rec : Resolved → Nat → Option Resolved)
    (hrec : ∀ r o r', rec r o = some r' → (r.map (·.1)).Nodup → (r'.map (·.1)).Nodup) :
    ∀ (ss : List (Option Nat)) (res res' : Resolved), starsLoop t stack rec ss res = some res' →
      (res.map (·.1)).Nodup → (res'.map (·.1)).Nodup := by
  intro ss
  induction ss with
  | nil => intro res res' h hn; simp only [starsLoop] at h; cases h; exact hn
  | cons s ss ih =>
    intro res res' h hn
    cases s with
    | none => simp only [starsLoop] at h; exact ih res res' h hn
    | some o =>
      simp only [starsLoop] at h
      split at h
      · cases h
      · split at h
        · exact ih res res' h hn
        · split at h
          · cases h
          · rename_i r1 h1
            split at h
            · cases h
            · rename_i r2 h2
              exact ih r2 res' h (hrec r1 o r2 h2 (addAliases_keys _ _ _ h1 hn))

theorem addStar_keys {t : Table} : ∀ (fuel : Nat) (res : Resolved) (x : Nat) (S : List Nat) (res' : Resolved),
    addStar t fuel res x S = some res' → (res.map (·.1)).Nodup → (res'.map (·.1)).Nodup := by
  intro fuel
  induction fuel with
  | zero => intro res x S res' h; simp [addStar] at h
  | succ fuel ih =>
    intro res x S res' h hn
    rw [addStar] at h
    split at h
    · cases h; exact hn
    · split at h
      · cases h
      · exact starsLoop_keys _ (fun r o r' hr => ih r o _ r' hr) _ _ _ h hn

theorem resolvedExports_keys {t : Table} (hwf : WF t) {m : Nat} {res : Resolved}
    (h : resolvedExports t m = some res) : (res.map (·.1)).Nodup := by
  unfold resolvedExports at h
  split at h
  · cases h
  · rename_i f hf
    have hown : ((ownResolved m f).map (·.1)).Nodup := by
      have := hwf.aliases f (List.mem_of_getElem? hf)
      simpa [ownResolved, List.map_map, Function.comp_def] using this
    split at h
    · cases h; exact hown
    · exact addStar_keys _ _ _ _ _ h hown

theorem mem_iff_lookup {res : Resolved} (hn : (res.map (·.1)).Nodup) (a : Name) (ex : ExportData) :
    (a, ex) ∈ res ↔ res.lookup a = some ex := by
  induction res with
  | nil => simp [List.lookup]
  | cons p res ih =>
    obtain ⟨k, v⟩ := p
    simp only [List.map_cons, List.nodup_cons] at hn
    simp only [List.mem_cons, Prod.mk.injEq, List.lookup]
    by_cases h : a = k
    · subst h
      simp only [beq_self_eq_true, true_and, Option.some.injEq]
      constructor
      · rintro (h | h)
        · exact h.symm
        · exact absurd (List.mem_map.2 ⟨(a, ex), h, rfl⟩) hn.1
      · intro h; exact Or.inl h.symm
    · have hb : (a == k) = false := by simpa using h
      simp [hb, h, ih hn.2]

end EsbuildModel.ExportMatch
