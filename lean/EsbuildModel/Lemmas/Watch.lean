import EsbuildModel.Impl.Watch
/-! Helper lemmas for `Props/C09Watch.lean`: association lists, the lower-cased entry map, sorting,
the invariant that ties the recording state to the file system it was recorded on. -/
namespace EsbuildModel.Watch

/-! ### association lists -/
@[simp] theorem aget_nil {α : Type} (k : String) : aget ([] : List (String × α)) k = none := rfl

theorem aget_aset {α : Type} (m : List (String × α)) (k k' : String) (v : α) :
    aget (aset m k v) k' = if k = k' then some v else aget m k' := by
  simp [aset, aget]

@[simp] theorem aget_aset_self {α : Type} (m : List (String × α)) (k : String) (v : α) :
    aget (aset m k v) k = some v := by simp [aget_aset]

theorem aget_aset_ne {α : Type} (m : List (String × α)) {k k' : String} (v : α) (h : k ≠ k') :
    aget (aset m k v) k' = aget m k' := by simp [aget_aset, h]

theorem aget_mem_keys {α : Type} {m : List (String × α)} {k : String} {v : α} (h : aget m k = some v) :
    k ∈ m.map (·.1) := by
  induction m with
  | nil => simp at h
  | cons kv m ih =>
    obtain ⟨k', v'⟩ := kv
    simp only [aget] at h
    split at h
    · rename_i hk; simp [hk]
    · simp [ih h]

/-! ### the lower-cased entry map -/
theorem lookupLast_mem {l : List String} {k n : String} (h : lookupLast l k = some n) : n ∈ l ∧ lower n = k := by
  induction l with
  | nil => simp [lookupLast] at h
  | cons a rest ih =>
    simp only [lookupLast] at h
    split at h
    · rename_i m hm
      cases h
      exact ⟨List.mem_cons_of_mem _ (ih hm).1, (ih hm).2⟩
    · split at h
      · rename_i hk; cases h; exact ⟨List.mem_cons_self, hk⟩
      · cases h

theorem lookupLast_isSome_of_mem {l : List String} {n : String} (h : n ∈ l) : (lookupLast l (lower n)).isSome := by
  induction l with
  | nil => cases h
  | cons a rest ih =>
    simp only [lookupLast]
    rcases List.mem_cons.mp h with rfl | h'
    · split <;> simp
    · have := ih h'
      split
      · simp
      · rename_i hn; simp [hn] at this

theorem lookupLast_eq_none_iff {l : List String} {k : String} : lookupLast l k = none ↔ ∀ n ∈ l, lower n ≠ k := by
  constructor
  · intro h n hn hk
    have := lookupLast_isSome_of_mem hn
    rw [hk, h] at this
    cases this
  · intro h
    cases hl : lookupLast l k with
    | none => rfl
    | some n => exact absurd (lookupLast_mem hl).2 (h n (lookupLast_mem hl).1)

/-- on a list without two names of the same lower-cased key the map is just membership -/
theorem lookupLast_of_nodup {l : List String} (hnd : (l.map lower).Nodup) {n : String} (hn : n ∈ l) :
    lookupLast l (lower n) = some n := by
  induction l with
  | nil => cases hn
  | cons a rest ih =>
    simp only [List.map_cons, List.nodup_cons, List.mem_map, not_exists, not_and] at hnd
    simp only [lookupLast]
    rcases List.mem_cons.mp hn with rfl | h'
    · have : lookupLast rest (lower n) = none := lookupLast_eq_none_iff.mpr (fun m hm => hnd.1 m hm)
      simp [this]
    · rw [ih hnd.2 h']

theorem lookupLast_perm {l₁ l₂ : List String} (hp : l₁.Perm l₂) (hnd : (l₁.map lower).Nodup) (k : String) :
    lookupLast l₁ k = lookupLast l₂ k := by
  have hnd₂ : (l₂.map lower).Nodup := (hp.map lower).nodup_iff.mp hnd
  cases h₁ : lookupLast l₁ k with
  | none =>
    symm
    rw [lookupLast_eq_none_iff] at h₁ ⊢
    intro n hn
    exact h₁ n (hp.mem_iff.mpr hn)
  | some n =>
    obtain ⟨hn, hk⟩ := lookupLast_mem h₁
    rw [← hk]
    exact (lookupLast_of_nodup hnd₂ (hp.mem_iff.mp hn)).symm

theorem mem_dedupLast {l : List String} {n : String} (h : n ∈ dedupLast l) : n ∈ l := by
  induction l with
  | nil => simp [dedupLast] at h
  | cons a rest ih =>
    simp only [dedupLast] at h
    split at h
    · exact List.mem_cons_of_mem _ (ih h)
    · rcases List.mem_cons.mp h with rfl | h'
      · exact List.mem_cons_self
      · exact List.mem_cons_of_mem _ (ih h')

theorem dedupLast_nodup (l : List String) : ((dedupLast l).map lower).Nodup := by
  induction l with
  | nil => simp [dedupLast]
  | cons a rest ih =>
    simp only [dedupLast]
    split
    · exact ih
    · rename_i hany
      simp only [List.map_cons, List.nodup_cons, List.mem_map, not_exists, not_and]
      refine ⟨?_, ih⟩
      intro m hm hlow
      apply hany
      simp only [List.any_eq_true, decide_eq_true_eq]
      exact ⟨m, mem_dedupLast hm, hlow⟩

theorem lookupLast_dedupLast (l : List String) (k : String) : lookupLast (dedupLast l) k = lookupLast l k := by
  induction l with
  | nil => rfl
  | cons a rest ih =>
    simp only [dedupLast]
    split
    · rename_i hany
      simp only [List.any_eq_true, decide_eq_true_eq] at hany
      obtain ⟨m, hm, hlow⟩ := hany
      simp only [lookupLast]
      rw [ih]
      cases hr : lookupLast rest k with
      | some x => rfl
      | none =>
        have := lookupLast_eq_none_iff.mp hr m hm
        have hak : lower a ≠ k := fun h => this (hlow.trans h)
        simp [hak]
    · simp only [lookupLast, ih]

theorem dedupLast_of_nodup {l : List String} (hnd : (l.map lower).Nodup) : dedupLast l = l := by
  induction l with
  | nil => rfl
  | cons a rest ih =>
    simp only [List.map_cons, List.nodup_cons, List.mem_map, not_exists, not_and] at hnd
    simp only [dedupLast]
    split
    · rename_i hany
      simp only [List.any_eq_true, decide_eq_true_eq] at hany
      obtain ⟨m, hm, hlow⟩ := hany
      exact absurd hlow (hnd.1 m hm)
    · rw [ih hnd.2]

theorem insertStr_perm (a : String) (l : List String) : (insertStr a l).Perm (a :: l) := by
  induction l with
  | nil => exact List.Perm.refl _
  | cons b l ih =>
    simp only [insertStr]
    split
    · exact List.Perm.refl _
    · exact (List.Perm.cons b ih).trans (List.Perm.swap a b l)

theorem sortStrings_perm (l : List String) : (sortStrings l).Perm l := by
  induction l with
  | nil => exact List.Perm.refl _
  | cons a l ih =>
    simp only [sortStrings, List.foldr_cons]
    exact (insertStr_perm a _).trans (List.Perm.cons a ih)

/-- The all-entries comparison of `WatchData()` is exact: if the sorted new listing equals the recorded
`SortedKeys()`, then the new directory answers every `Get` and `SortedKeys` as the old one did. -/
theorem allEntries_sound {names names' : List String} (h : sortStrings names' = sortedKeysOf names) :
    (∀ k, lookupLast names' k = lookupLast names k) ∧ sortedKeysOf names' = sortedKeysOf names := by
  have hp : names'.Perm (dedupLast names) := by
    have h1 := (sortStrings_perm names').symm
    rw [h] at h1
    exact h1.trans (sortStrings_perm _)
  have hnd : (names'.map lower).Nodup := (hp.map lower).nodup_iff.mpr (dedupLast_nodup names)
  refine ⟨fun k => ?_, ?_⟩
  · rw [lookupLast_perm hp hnd k, lookupLast_dedupLast]
  · unfold sortedKeysOf
    rw [dedupLast_of_nodup hnd]
    exact h

end EsbuildModel.Watch
