import EsbuildModel.Lemmas.CssBoxCompact
/-
`mangleSide` preserves the tracker invariant and adds exactly the contribution of the new declaration.
-/
namespace EsbuildModel.CssBox
open EsbuildModel.Spec.BoxCascade

/-- the unit-safety tracker of a single-token declaration -/
def sideSafety (allowAuto : Bool) (t : Token) : Safety :=
  if (!allowAuto || t.kind.isNumeric) = true then ({} : Safety).includeUnitOf t else {}

/-- the token the tracker stores (zero lengths lose their unit when all units are safe) -/
def sideToken (U : Safety) (t : Token) : Token := if U.status = .safe then t.turn.1 else t

/-- the rule list after `updateSide` of a single-side declaration -/
def sideRules (old : BoxSide) (U : Safety) (R2 : List (Option CssBox.Decl)) : List (Option CssBox.Decl) :=
  if old.present = true ∧ old.wasSingleRule = true ∧ old.unitSafety.status = .safe ∧ U.status = .safe then
    R2.set old.ruleIndex none
  else R2

theorem mangleSide_accepted (box : Tracker) (rules : List (Option CssBox.Decl)) (d : CssBox.Decl) (mw : Bool) (x : Side)
    (t : Token) (hv : d.value = [t])
    (hacc : (t.kind.isNumeric || (t.kind == .ident && (syncImportant box d).allowAuto && lowerAscii t.text == b "auto")) = true)
    (hlt : ((syncImportant box d).sides.get x).present = true → ((syncImportant box d).sides.get x).ruleIndex < rules.length + 1) :
    mangleSide box { rules := rules ++ [some d], panic := false } d mw x =
      compactRules
        { syncImportant box d with
          sides := (syncImportant box d).sides.put x
            { token := sideToken (sideSafety (syncImportant box d).allowAuto t) t,
              unitSafety := sideSafety (syncImportant box d).allowAuto t, ruleIndex := rules.length, wasSingleRule := true } }
        { rules := sideRules ((syncImportant box d).sides.get x) (sideSafety (syncImportant box d).allowAuto t)
            (rules ++ [some { d with value := [sideToken (sideSafety (syncImportant box d).allowAuto t) t] }]),
          panic := false } mw := by
  unfold CssBox.mangleSide
  simp only [hv, hacc, if_true]
  generalize syncImportant box d = box1 at *
  have hU : (if (!box1.allowAuto || t.kind.isNumeric) = true then ({} : Safety).includeUnitOf t else {}) = sideSafety box1.allowAuto t := rfl
  rw [hU]
  generalize sideSafety box1.allowAuto t = U
  have hd : d = { d with value := [t] } := by cases d; simp_all
  -- the list after the optional in-place rewrite of the value
  have hR2 : ∀ (turned : Bool) (t' : Token), (turned = false → t' = t) →
      (if turned = true then ({ rules := rules ++ [some d], panic := false } : RS).setAt ((rules ++ [some d]).length - 1)
          (some { d with value := [t'] }) else { rules := rules ++ [some d], panic := false }) =
      ({ rules := rules ++ [some { d with value := [t'] }], panic := false } : RS) := by
    intro turned t' ht
    cases turned with
    | true => simp [RS.setAt]
    | false => simp only [Bool.false_eq_true, if_false]; rw [ht rfl, ← hd]
  have key : ∀ (turned : Bool) (t' : Token), (turned = false → t' = t) → t' = sideToken U t →
      (compactRules
        (updateSide box1
          (if turned = true then ({ rules := rules ++ [some d], panic := false } : RS).setAt ((rules ++ [some d]).length - 1)
              (some { d with value := [t'] }) else { rules := rules ++ [some d], panic := false })
          x { token := t', ruleIndex := (if turned = true then ({ rules := rules ++ [some d], panic := false } : RS).setAt
                ((rules ++ [some d]).length - 1) (some { d with value := [t'] })
                else { rules := rules ++ [some d], panic := false }).rules.length - 1,
              wasSingleRule := true, unitSafety := U }).1
        (updateSide box1
          (if turned = true then ({ rules := rules ++ [some d], panic := false } : RS).setAt ((rules ++ [some d]).length - 1)
              (some { d with value := [t'] }) else { rules := rules ++ [some d], panic := false })
          x { token := t', ruleIndex := (if turned = true then ({ rules := rules ++ [some d], panic := false } : RS).setAt
                ((rules ++ [some d]).length - 1) (some { d with value := [t'] })
                else { rules := rules ++ [some d], panic := false }).rules.length - 1,
              wasSingleRule := true, unitSafety := U }).2 mw) =
      compactRules { box1 with sides := box1.sides.put x { token := sideToken U t, unitSafety := U, ruleIndex := rules.length, wasSingleRule := true } }
        { rules := sideRules (box1.sides.get x) U (rules ++ [some { d with value := [sideToken U t] }]), panic := false } mw := by
    intro turned t' ht ht'
    rw [hR2 turned t' ht]
    subst ht'
    simp only [List.length_append, List.length_cons, List.length_nil, Nat.add_sub_cancel]
    unfold CssBox.updateSide sideRules
    simp only [Bool.not_true, Bool.false_or]
    have hiff : ((box1.sides.get x).token.kind != Kind.eof && (box1.sides.get x).wasSingleRule &&
          (box1.sides.get x).unitSafety.status == Status.safe && U.status == Status.safe) = true ↔
        ((box1.sides.get x).present = true ∧ (box1.sides.get x).wasSingleRule = true ∧
          (box1.sides.get x).unitSafety.status = .safe ∧ U.status = .safe) := by
      simp only [BoxSide.present, Bool.and_eq_true, beq_iff_eq, and_assoc]
    by_cases hc : (box1.sides.get x).present = true ∧ (box1.sides.get x).wasSingleRule = true ∧
        (box1.sides.get x).unitSafety.status = .safe ∧ U.status = .safe
    · have hl := hlt hc.1
      rw [if_pos (hiff.mpr hc), if_pos hc]
      simp only [RS.setAt, List.length_append, List.length_cons, List.length_nil, hl, if_true]
    · rw [if_neg (fun h => hc (hiff.mp h)), if_neg hc]
  by_cases hs : U.status = .safe
  · have hs' : (U.status == Status.safe) = true := by simp [hs]
    simp only [hs', if_true]
    rcases turn_fst_cases t with ⟨h1, h2⟩ | ⟨_, _, _, h2⟩
    · have := key false t.turn.1 (fun _ => h1) (by simp [sideToken, hs])
      rw [show t.turn = (t.turn.1, false) from by rw [← h2]]
      exact this
    · have := key true t.turn.1 (fun h => by cases h) (by simp [sideToken, hs])
      rw [show t.turn = (t.turn.1, true) from by rw [← h2]]
      exact this
  · have hs' : (U.status == Status.safe) = false := by simp [hs]
    simp only [hs', Bool.false_eq_true, if_false]
    exact key false t (fun _ => rfl) (by simp [sideToken, hs])


section
variable {V : Type} {B : Browser Tok V} {F : Family} {ds : List CssBox.Decl}

theorem sync_TInv {box : Tracker} {rules : List (Option CssBox.Decl)} (h : TInv B F ds box rules) (d : CssBox.Decl) :
    TInv B F ds (syncImportant box d) rules ∧ (syncImportant box d).important = d.important := by
  unfold syncImportant
  by_cases hi : box.important = d.important
  · have : (box.important != d.important) = false := by simp [hi]
    rw [this]
    exact ⟨h, hi⟩
  · have : (box.important != d.important) = true := by simp [hi]
    rw [this]
    exact ⟨TInv.empty B F ds box rules h.kt h.aa _, rfl⟩

theorem includeUnitOf_default_spec (t : Token) (hn : t.kind.isNumeric = true) :
    ((({} : Safety).includeUnitOf t).status = .safe → UnitSafe t) ∧
    ((({} : Safety).includeUnitOf t).status = .unsafeSingle → UDim (({} : Safety).includeUnitOf t).unit t) := by
  unfold Safety.includeUnitOf
  cases hk : t.kind with
  | eof => simp [hk, Kind.isNumeric] at hn
  | ident => simp [hk, Kind.isNumeric] at hn
  | other => simp [hk, Kind.isNumeric] at hn
  | number =>
    by_cases h0 : t.text = b "0"
    · simp [h0, UnitSafe, hk]
    · simp [h0]
  | percentage => simp [UnitSafe, hk]
  | dimension =>
    by_cases hs : t.unitIsSafeLength = true
    · simp [hs, UnitSafe, hk]
    · simp [hs, UDim, hk]

theorem sideSafety_spec (t : Token) (ht : TrackerAccepts F t) :
    ((sideSafety (famAllowAuto F) t).status = .safe → Accepted F t) ∧
    ((sideSafety (famAllowAuto F) t).status = .unsafeSingle → UDim (sideSafety (famAllowAuto F) t).unit t) := by
  unfold sideSafety
  by_cases hn : t.kind.isNumeric = true
  · have : (!famAllowAuto F || t.kind.isNumeric) = true := by simp [hn]
    rw [if_pos this]
    obtain ⟨h1, h2⟩ := includeUnitOf_default_spec t hn
    exact ⟨fun h => Or.inl ⟨hn, h1 h⟩, h2⟩
  · rcases ht with h | h
    · exact absurd h hn
    · have : ¬((!famAllowAuto F || t.kind.isNumeric) = true) := by simp [h.1, hn]
      rw [if_neg this]
      refine ⟨fun _ => Or.inr h, fun h' => ?_⟩
      simp at h'

theorem sideToken_spec (hB : CssFacts B F) (t : Token) (ht : TrackerAccepts F t) :
    TrackerAccepts F (sideToken (sideSafety (famAllowAuto F) t) t) ∧
    okT B (sideToken (sideSafety (famAllowAuto F) t) t) = okT B t ∧
    B.den (sideToken (sideSafety (famAllowAuto F) t) t).core = B.den t.core ∧
    ((sideSafety (famAllowAuto F) t).status = .safe → okT B (sideToken (sideSafety (famAllowAuto F) t) t) = true) ∧
    ((sideSafety (famAllowAuto F) t).status = .unsafeSingle →
      UDim (sideSafety (famAllowAuto F) t).unit (sideToken (sideSafety (famAllowAuto F) t) t)) ∧
    ClassOK B (sideSafety (famAllowAuto F) t) (okT B (sideToken (sideSafety (famAllowAuto F) t) t)) := by
  obtain ⟨h1, h2⟩ := sideSafety_spec (F := F) t ht
  unfold sideToken
  by_cases hs : (sideSafety (famAllowAuto F) t).status = .safe
  · rw [if_pos hs]
    have ha := h1 hs
    have ha' := Accepted_turn t ha
    have e1 : okT B t.turn.1 = true := hB.ok_safe _ ha'
    have e2 : okT B t = true := hB.ok_safe _ ha
    have hns : ¬ (sideSafety (famAllowAuto F) t).status = .unsafeSingle := by rw [hs]; simp
    exact ⟨ha'.tracker, by rw [e1, e2], den_turn hB t ha, fun _ => e1, fun h => absurd h hns,
      fun _ => e1, fun h => absurd h hns⟩
  · rw [if_neg hs]
    refine ⟨ht, rfl, rfl, fun h => absurd h hs, h2, fun h => absurd h hs, ?_⟩
    intro hu t2 ht2
    have hud := h2 hu
    exact hB.ok_unit t2 t ht2.1 hud.1 ht2.2.1 hud.2.1 (by rw [ht2.2.2, hud.2.2])


/-- removing a slot whose every contribution is also made by the last slot does not change the cascade -/
theorem LS_set_none_of_dominated (l : List (Option CssBox.Decl)) (i n : Nat) (hn : n + 1 = l.length) (hi : i < n)
    (hdom : ∀ s imp, cAt B F l s imp i ≠ none → cAt B F l s imp n ≠ none) (s : Side) (imp : Bool) :
    LS B F (l.set i none) s imp = LS B F l s imp := by
  by_cases h0 : cAt B F l s imp i = none
  · apply LS_congr B F _ _ s imp (by simp)
    intro j
    rw [cAt_set]
    by_cases hj : i = j ∧ j < l.length
    · rw [if_pos hj, ← hj.1, h0]; rfl
    · rw [if_neg hj]
  · have h1 := hdom s imp h0
    obtain ⟨v, hv⟩ := Option.ne_none_iff_exists'.mp h1
    have e1 : LS B F l s imp = some v :=
      LS_eq_some_of B F l s imp n v hv (fun k hk => cAt_ge B F l s imp k (by omega))
    have e2 : LS B F (l.set i none) s imp = some v := by
      apply LS_eq_some_of B F _ s imp n v
      · rw [cAt_set, if_neg (by omega)]; exact hv
      · intro k hk; exact cAt_ge B F _ s imp k (by simp; omega)
    rw [e1, e2]

end
end EsbuildModel.CssBox
