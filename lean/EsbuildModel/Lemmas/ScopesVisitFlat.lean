import EsbuildModel.Lemmas.ScopesAlign
import EsbuildModel.Lemmas.ScopesFlatSpec
/-!
The visit pass on a flat program against the walk of the spec (Spec/JsScopes.lean): every declaration is joined to the
symbol of each binding it declares, every reference to the symbol of the binding it resolves to.
-/
namespace EsbuildModel.Scopes
open JsScopes

theorem visitItems_append (full : Bool) : ∀ (a b : List Item) (c : VCtx),
    visitItems full (a ++ b) c = (visitItems full a c).bind (visitItems full b)
  | [], b, c => by simp [visitItems]
  | i :: a, b, c => by
    simp only [List.cons_append, visitItems]
    cases visitItem full i c with
    | none => rfl
    | some c1 => exact visitItems_append full a b c1

theorem visitItems_singleton (full : Bool) (i : Item) (c : VCtx) : visitItems full [i] c = visitItem full i c := by
  simp only [visitItems]
  cases visitItem full i c <;> rfl

theorem pinMembers_kept (f : Frame) (syms : Syms) : LinksKept syms (pinMembers f syms) ∧ SymsExt syms (pinMembers f syms) := by
  unfold pinMembers
  split
  · generalize f.members = ms
    induction ms generalizing syms with
    | nil => exact ⟨.refl _, .refl _⟩
    | cons m ms ih =>
      simp only [List.foldl_cons]
      have := ih (pin syms m.2)
      exact ⟨(LinksKept.pin syms m.2).trans this.1, (SymsExt.pin syms m.2).trans this.2⟩
  · exact ⟨.refl _, .refl _⟩

/-- the visit of a scope item (not a class name scope, no label): push, the items, pop -/
theorem visit_scope {k : ScK} {us : Bool} {body : List Item} {c c' : VCtx}
    (h : visitItem true (.scope k us none body) c = some c') (hk : k ≠ .className) (hp : c.pending = []) :
    ∃ f kids todo' r, c.todo = .node f kids :: todo' ∧ f.kind = k ∧
      visitItems true body ⟨f, kids, [], c.cur :: c.below, [], c.lastDecl, none, c.st⟩ = some r ∧
      (r.pending = [] → r.cls = none → ∃ cur' below', r.below = cur' :: below' ∧
        c' = ⟨cur', todo', c.done ++ [.node r.cur r.done], below', [], none, c.cls,
          { r.st with syms := pinMembers r.cur r.st.syms }⟩) := by
  simp only [visitItem] at h
  split at h
  · cases h
  · next f kids todo' hto =>
    split at h
    · cases h
    · next hfk =>
      simp only [labelStep, classNameStrict, hk, and_false, if_false, Sc.frame, Sc.children] at h
      split at h
      · cases h
      · next r hr =>
        refine ⟨f, kids, todo', r, hto, by simpa using hfk, hr, ?_⟩
        intro hrp hrc
        split at h
        · cases h
        · next r2 hr2 =>
          have hr2' : r2 = { r with pending := [] } := by
            unfold closeList at hr2
            split at hr2
            · unfold endList at hr2
              rw [hrp] at hr2
              simp only [relinkFns] at hr2
              cases hr2; rfl
            · cases hr2; rfl
          subst hr2'
          unfold popVisit at h
          simp only at h
          split at h
          · cases h
          · next cur' below' hb =>
            simp only [hrc, classEpilogue] at h
            cases h
            exact ⟨cur', below', hb, by rw [hp]⟩

-- paths --------------------------------------------------------------------------------------------------------------

theorem not_prefix_of_prefix {a pp : List Nat} {i : Nat} (h : a <+: pp) : ¬ (pp ++ [i] <+: a) := by
  intro h2
  have h1 := h.length_le
  have h3 := h2.length_le
  simp at h3; omega

theorem prefix_snoc {a pp : List Nat} (i : Nat) (h : a <+: pp) : a <+: pp ++ [i] :=
  h.trans (List.prefix_append _ _)

theorem prefix_sibling {a pp : List Nat} {i j : Nat} (h1 : pp ++ [i] <+: a) (h2 : pp ++ [j] <+: a) : i = j := by
  obtain ⟨t1, e1⟩ := h1
  obtain ⟨t2, e2⟩ := h2
  rw [← e2, List.append_assoc, List.append_assoc] at e1
  have := List.append_cancel_left e1
  simp at this
  exact this.1

-- pointwise relations on lists --------------------------------------------------------------------------------------

def All2 {α β : Type} (R : α → β → Prop) : List α → List β → Prop
  | [], [] => True
  | a :: as, b :: bs => R a b ∧ All2 R as bs
  | _, _ => False

theorem All2.append {α β : Type} {R : α → β → Prop} : ∀ {a : List α} {b : List β} {a' : List α} {b' : List β},
    All2 R a b → All2 R a' b' → All2 R (a ++ a') (b ++ b')
  | [], [], _, _, _, h => h
  | [], _ :: _, _, _, h, _ => by simp [All2] at h
  | _ :: _, [], _, _, h, _ => by simp [All2] at h
  | x :: a, y :: b, a', b', h, h' => by
    simp only [All2, List.cons_append] at h ⊢
    exact ⟨h.1, All2.append h.2 h'⟩

theorem All2.mono {α β : Type} {R S : α → β → Prop} (hrs : ∀ x y, R x y → S x y) : ∀ {a : List α} {b : List β},
    All2 R a b → All2 S a b
  | [], [], _ => trivial
  | [], _ :: _, h => by simp [All2] at h
  | _ :: _, [], h => by simp [All2] at h
  | x :: a, y :: b, h => by
    simp only [All2] at h ⊢
    exact ⟨hrs x y h.1, All2.mono hrs h.2⟩

theorem All2.length {α β : Type} {R : α → β → Prop} : ∀ {a : List α} {b : List β}, All2 R a b → a.length = b.length
  | [], [], _ => rfl
  | [], _ :: _, h => by simp [All2] at h
  | _ :: _, [], h => by simp [All2] at h
  | x :: a, y :: b, h => by simp only [All2] at h; simp [All2.length h.2]

theorem All2.get {α β : Type} {R : α → β → Prop} : ∀ {a : List α} {b : List β}, All2 R a b → ∀ (i : Nat) (x : α) (y : β),
    a[i]? = some x → b[i]? = some y → R x y
  | [], [], _, i, x, y, hx, _ => by simp at hx
  | [], _ :: _, h, _, _, _, _, _ => by simp [All2] at h
  | _ :: _, [], h, _, _, _, _, _ => by simp [All2] at h
  | x0 :: a, y0 :: b, h, i, x, y, hx, hy => by
    simp only [All2] at h
    cases i with
    | zero => simp at hx hy; subst hx; subst hy; exact h.1
    | succ j => simp at hx hy; exact All2.get h.2 j x y hx hy

theorem All2.split_right {α β : Type} {R : α → β → Prop} : ∀ {a : List α} {l1 l2 : List β}, All2 R a (l1 ++ l2) →
    ∃ a1 a2, a = a1 ++ a2 ∧ All2 R a1 l1 ∧ All2 R a2 l2
  | a, [], l2, h => ⟨[], a, rfl, trivial, h⟩
  | [], _ :: _, _, h => by simp [All2] at h
  | x :: a, y :: l1, l2, h => by
    simp only [List.cons_append, All2] at h
    obtain ⟨a1, a2, e, h1, h2⟩ := All2.split_right h.2
    exact ⟨x :: a1, a2, by rw [e]; rfl, ⟨h.1, h1⟩, h2⟩

theorem All2.map_right {α β γ : Type} {R : α → β → Prop} {S : α → γ → Prop} (f : β → γ) : ∀ {a : List α} {l : List β},
    All2 R a l → (∀ x y, y ∈ l → R x y → S x (f y)) → All2 S a (l.map f)
  | [], [], _, _ => trivial
  | [], _ :: _, h, _ => by simp [All2] at h
  | _ :: _, [], h, _ => by simp [All2] at h
  | x :: a, y :: l, h, hf => by
    simp only [All2, List.map_cons] at h ⊢
    exact ⟨hf x y (by simp) h.1, All2.map_right f h.2 (fun x' y' hy' => hf x' y' (by simp [hy']))⟩

-- what the theorem says about one declaration / one reference ----------------------------------------------------------

/-- the declaration declares one binding, and its symbol is joined to the symbol of that binding -/
def DeclOK (ρ : Rho) (syms : Syms) (d : Nat) (bs : List Binding) : Prop :=
  ∃ b, bs = [b] ∧ ∃ m', ρ b.env b.name = some m' ∧ Conn syms d m'

/-- the reference's symbol is joined to the symbol of the binding it resolves to; an unresolvable reference has an
unbound symbol -/
def RefOK (ρ : Rho) (syms : Syms) (r : Nat) : Option Binding → Prop
  | some b => ∃ m', ρ b.env b.name = some m' ∧ Conn syms r m' ∧ Known syms r
  | none => kindOf? syms r = some .unbound

theorem DeclOK.mono {ρ ρ' : Rho} {a b : Syms} {d : Nat} {bs : List Binding} (h : DeclOK ρ a d bs)
    (hk : LinksKept a b) (hag : ∀ bd, bd ∈ bs → ρ' bd.env = ρ bd.env) : DeclOK ρ' b d bs := by
  obtain ⟨bd, e, m', h1, h2⟩ := h
  exact ⟨bd, e, m', by rw [hag bd (by simp [e])]; exact h1, h2.mono hk⟩

theorem RefOK.mono {ρ ρ' : Rho} {a b : Syms} {r : Nat} {ob : Option Binding} (h : RefOK ρ a r ob)
    (hk : LinksKept a b) (he : SymsExt a b) (hag : ∀ bd, ob = some bd → ρ' bd.env = ρ bd.env) : RefOK ρ' b r ob := by
  cases ob with
  | none => exact kindOf_ext he h
  | some bd =>
    obtain ⟨m', h1, h2, h3⟩ := h
    exact ⟨m', by rw [hag bd rfl]; exact h1, h2.mono hk, h3.ext he⟩

-- the invariant of the visit pass --------------------------------------------------------------------------------------

def MemSub (a b : Members) : Prop := ∀ n m, lookup n a = some m → lookup n b = some m

theorem MemSub.refl (a : Members) : MemSub a a := fun _ _ h => h
theorem MemSub.trans {a b c : Members} (h1 : MemSub a b) (h2 : MemSub b c) : MemSub a c := fun n m h => h2 n m (h1 n m h)

/-- the visit pass stands at a statement whose context in the spec is `sc`: the scopes are aligned with the environments
(`L` over the module scope `root`), and the names in `lexP` / `varP` (those the statements here declare in
`sc.lexEnv` / `sc.varEnv`) have their member in the current scope -/
structure VRel (ρ : Rho) (L : Layers) (res : List Env) (root : Frame) (lexP varP : List Name) (c : VCtx) (sc : Ctx) :
    Prop where
  chain : c.cur :: c.below = framesOf L ++ [root]
  envs : sc.envs = envsOf L ++ res
  layers : LayersOK ρ c.st.syms L
  rootOK : RootOK ρ c.st.syms res root
  pending : c.pending = []
  cls : c.cls = none
  stop : sc.top = true → c.cur.kind.stopsHoisting = true
  lexAt : ∀ n, n ∈ lexP → ∃ m m', lookup n c.cur.members = some m ∧ ρ sc.lexEnv n = some m' ∧ Conn c.st.syms m m'
  varAt : ∀ n, n ∈ varP → ∃ m m', lookup n c.cur.members = some m ∧ ρ sc.varEnv n = some m' ∧ Conn c.st.syms m m'

/-- the environments of the context were created at or above the statement list at `pp` -/
structure POK (sc : Ctx) (pp : List Nat) : Prop where
  envs : ∀ e, e ∈ sc.envs → e.id.path <+: pp
  lex : sc.lexEnv.path <+: pp
  var : sc.varEnv.path <+: pp

theorem cur_of_chain {cur cur' : Frame} {below below' F : List Frame} {root root' : Frame}
    (h : cur :: below = F ++ [root]) (h' : cur' :: below' = F ++ [root']) :
    (F = [] ∧ cur = root ∧ cur' = root') ∨ (F ≠ [] ∧ cur' = cur) := by
  cases F with
  | nil => simp at h h'; exact Or.inl ⟨rfl, h.1, h'.1⟩
  | cons f F => simp at h h'; exact Or.inr ⟨by simp, h'.1.trans h.1.symm⟩

/-- a step of the visit pass that keeps the scopes below the module scope -/
theorem VRel.step {ρ ρ' : Rho} {L : Layers} {res : List Env} {root root' : Frame} {lexP varP : List Name} {c c' : VCtx}
    {sc : Ctx} {pp : List Nat} (h : VRel ρ L res root lexP varP c sc) (hp : POK sc pp)
    (hchain : c'.cur :: c'.below = framesOf L ++ [root'])
    (hk : LinksKept c.st.syms c'.st.syms) (he : SymsExt c.st.syms c'.st.syms)
    (hag : ∀ id : EnvId, id.path <+: pp → ρ' id = ρ id)
    (hroot : RootOK ρ' c'.st.syms res root') (hsub : MemSub root.members root'.members) (hrk : root'.kind = root.kind)
    (hpend : c'.pending = []) (hcls : c'.cls = none) : VRel ρ' L res root' lexP varP c' sc := by
  have hcur : MemSub c.cur.members c'.cur.members ∧ c'.cur.kind = c.cur.kind := by
    rcases cur_of_chain h.chain hchain with ⟨_, e1, e2⟩ | ⟨_, e⟩
    · rw [e1, e2]; exact ⟨hsub, hrk⟩
    · rw [e]; exact ⟨.refl _, rfl⟩
  refine ⟨hchain, h.envs, ?_, hroot, hpend, hcls, fun ht => by rw [hcur.2]; exact h.stop ht, ?_, ?_⟩
  · refine h.layers.mono hk he (fun e hel => hag e.id (hp.envs e ?_))
    rw [h.envs]; exact List.mem_append_left _ hel
  · intro n hn
    obtain ⟨m, m', h1, h2, h3⟩ := h.lexAt n hn
    exact ⟨m, m', hcur.1 n m h1, by rw [hag _ hp.lex]; exact h2, h3.mono hk⟩
  · intro n hn
    obtain ⟨m, m', h1, h2, h3⟩ := h.varAt n hn
    exact ⟨m, m', hcur.1 n m h1, by rw [hag _ hp.var]; exact h2, h3.mono hk⟩

/-- an environment of the context -/
def OuterId (sc : Ctx) (id : EnvId) : Prop := (∃ e, e ∈ sc.envs ∧ e.id = id) ∨ id = sc.lexEnv ∨ id = sc.varEnv

theorem OuterId.path {sc : Ctx} {pp : List Nat} (hp : POK sc pp) {id : EnvId} (h : OuterId sc id) : id.path <+: pp := by
  rcases h with ⟨e, he, rfl⟩ | rfl | rfl
  · exact hp.envs e he
  · exact hp.lex
  · exact hp.var

/-- what the induction over the statements proves: `Ch` = the environments the statement(s) may create -/
def Concl (Ch : EnvId → Prop) (pp : List Nat) (ρ : Rho) (L : Layers) (res : List Env) (root : Frame)
    (lexP varP : List Name) (c c' : VCtx) (sc : Ctx) (ds restD : List Nat) (restK : List Sc) (w : Walk) : Prop :=
  ∃ (ρ' : Rho) (root' : Frame) (rs : List Nat),
    (∀ id, ¬ Ch id → ρ' id = ρ id) ∧ VRel ρ' L res root' lexP varP c' sc ∧ MemSub root.members root'.members ∧
    root'.kind = root.kind ∧ LinksKept c.st.syms c'.st.syms ∧ SymsExt c.st.syms c'.st.syms ∧
    c'.st.declRefs = restD ∧ c'.todo = restK ∧ c'.st.refs = c.st.refs ++ rs ∧
    ∀ (ρ'' : Rho) (syms'' : Syms), (∀ id : EnvId, (OuterId sc id ∨ Ch id) → ρ'' id = ρ' id) →
      LinksKept c'.st.syms syms'' → SymsExt c'.st.syms syms'' →
      All2 (DeclOK ρ'' syms'') ds w.decls ∧ All2 (RefOK ρ'' syms'') rs w.refs

/-- the visit of a declaration that is not a block-level function -/
theorem visit_decl {k : SK} {n : Name} {c c' : VCtx} (h : visitItem true (.decl k n) c = some c')
    (hstop : (k = .hoistedFunction ∨ k = .generatorOrAsyncFunction) → c.cur.kind.stopsHoisting = true) :
    ∃ d rest, c.st.declRefs = d :: rest ∧
      c' = { c with st := { c.st with declRefs := rest }, lastDecl := some (d, false) } := by
  simp only [visitItem] at h
  split at h
  · cases h
  · next d rest hd =>
    refine ⟨d, rest, hd, ?_⟩
    split at h
    · next hc => have := hstop hc.2.1; simp [this] at hc
    · cases h; rfl

/-- a declaration statement (one `decl` item that declares `⟨E, n⟩`) -/
theorem decl_stmt {Ch : EnvId → Prop} {ρ : Rho} {L : Layers} {res : List Env} {root : Frame} {lexP varP : List Name}
    {c c' : VCtx} {sc : Ctx} {pp : List Nat} {k : SK} {n : Name} {E : EnvId} {syms0 : Syms} {mem0 : Members}
    {ds restD : List Nat} {ks restK : List Sc}
    (h : visitItems true [.decl k n] c = some c') (hv : VRel ρ L res root lexP varP c sc) (hp : POK sc pp)
    (hstop : (k = .hoistedFunction ∨ k = .generatorOrAsyncFunction) → c.cur.kind.stopsHoisting = true)
    (hf : factsItems syms0 mem0 [.decl k n] ds ks) (hk0 : LinksKept syms0 c.st.syms) (hsub : MemSub mem0 c.cur.members)
    (hdr : c.st.declRefs = ds ++ restD) (htd : c.todo = ks ++ restK) (hn : n ≠ argumentsName)
    (hE : OuterId sc E)
    (hat : ∃ m m', lookup n c.cur.members = some m ∧ ρ E n = some m' ∧ Conn c.st.syms m m') :
    Concl Ch pp ρ L res root lexP varP c c' sc ds restD restK ⟨[[⟨E, n⟩]], []⟩ := by
  rw [visitItems_singleton] at h
  obtain ⟨d, rest, hd, hc'⟩ := visit_decl h hstop
  have hfi := factsItems_singleton hf
  simp only [factsItem] at hfi
  obtain ⟨hks, d0, hds, hfact⟩ := hfi
  subst hks; subst hds
  rw [hd] at hdr
  simp only [List.singleton_append, List.cons.injEq] at hdr
  obtain ⟨hd0, hrest⟩ := hdr
  subst hd0
  refine ⟨ρ, root, [], fun _ _ => rfl, ?_, .refl _, rfl, by rw [hc']; exact .refl _, by rw [hc']; exact .refl _,
    by rw [hc']; exact hrest,
    by rw [hc']; simpa using htd, by rw [hc']; simp, ?_⟩
  · rw [hc']
    exact ⟨hv.chain, hv.envs, hv.layers, hv.rootOK, hv.pending, hv.cls, hv.stop, hv.lexAt, hv.varAt⟩
  · intro ρ'' syms'' hag hk2 _
    refine ⟨?_, trivial⟩
    simp only [All2, and_true]
    obtain ⟨m, m', h1, h2, h3⟩ := hat
    obtain ⟨m1, h4, h5⟩ := hfact hn
    have : m1 = m := by have := hsub n m1 h4; rw [h1] at this; cases this; rfl
    subst this
    refine ⟨⟨E, n⟩, rfl, m', ?_, ?_⟩
    · show ρ'' E n = some m'
      rw [hag E (Or.inl hE)]; exact h2
    · have hk1 : LinksKept c.st.syms c'.st.syms := by rw [hc']; exact .refl _
      exact ((h5.mono hk0).trans h3).mono (hk1.trans hk2)

/-- an identifier reference -/
theorem ref_stmt {Ch : EnvId → Prop} {ρ : Rho} {L : Layers} {res : List Env} {root : Frame} {lexP varP : List Name}
    {c c' : VCtx} {sc : Ctx} {pp : List Nat} {n : Name} {syms0 : Syms} {mem0 : Members}
    {ds restD : List Nat} {ks restK : List Sc}
    (h : visitItems true [.ref n] c = some c') (hv : VRel ρ L res root lexP varP c sc) (hp : POK sc pp)
    (hf : factsItems syms0 mem0 [.ref n] ds ks) (hdr : c.st.declRefs = ds ++ restD) (htd : c.todo = ks ++ restK) :
    Concl Ch pp ρ L res root lexP varP c c' sc ds restD restK ⟨[], [resolve n sc.envs]⟩ := by
  rw [visitItems_singleton] at h
  have hfi := factsItems_singleton hf
  simp only [factsItem] at hfi
  obtain ⟨hds, hks⟩ := hfi
  subst hds; subst hks
  simp only [List.nil_append] at hdr htd
  simp only [visitItem] at h
  rw [hv.chain] at h
  obtain ⟨hres, hunres⟩ := findSymbol_ok hv.layers hv.rootOK n
  have henv := hv.envs
  cases hr : resolve n sc.envs with
  | some b =>
    obtain ⟨m, m', e1, e2, e3, e4⟩ := hres b (by rw [← henv]; exact hr)
    rw [e1] at h
    simp only [setChain] at h
    have hch : framesOf L ++ [root] = c.cur :: c.below := hv.chain.symm
    rw [hch] at h
    simp only [Option.some.injEq] at h
    subst h
    refine ⟨ρ, root, [m], fun _ _ => rfl, ?_, .refl _, rfl, .refl _, .refl _, hdr, htd, rfl, ?_⟩
    · exact ⟨hv.chain, hv.envs, hv.layers, hv.rootOK, hv.pending, hv.cls, hv.stop, hv.lexAt, hv.varAt⟩
    · intro ρ'' syms'' hag hk2 he2
      refine ⟨trivial, ?_⟩
      simp only [All2, and_true]
      obtain ⟨e, hmem, hbe, _⟩ := resolve_mem hr
      refine ⟨m', ?_, e3.mono hk2, e4.ext he2⟩
      rw [hbe]
      show ρ'' e.id n = some m'
      rw [hag e.id (Or.inl (Or.inl ⟨e, hmem, rfl⟩))]
      rw [hbe] at e2; exact e2
  | none =>
    have hx := hunres (by rw [← henv]; exact hr)
    cases hx with
    | inl hx1 =>
      obtain ⟨m, e1, e2⟩ := hx1
      rw [e1] at h
      simp only [setChain] at h
      have hch : framesOf L ++ [root] = c.cur :: c.below := hv.chain.symm
      rw [hch] at h
      simp only [Option.some.injEq] at h
      subst h
      refine ⟨ρ, root, [m], fun _ _ => rfl, ?_, .refl _, rfl, .refl _, .refl _, hdr, htd, rfl, ?_⟩
      · exact ⟨hv.chain, hv.envs, hv.layers, hv.rootOK, hv.pending, hv.cls, hv.stop, hv.lexAt, hv.varAt⟩
      · intro ρ'' syms'' _ _ he2
        refine ⟨trivial, ?_⟩
        simp only [All2, and_true]
        exact kindOf_ext he2 e2
    | inr hx2 =>
      have e1 := hx2.1
      have e2 := hx2.2.1
      have e3 := hx2.2.2
      rw [e1] at h
      simp only [setChain] at h
      have hk1 := LinksKept.append c.st.syms [⟨.unbound, n, none, false⟩]
      have he1 := SymsExt.append c.st.syms [⟨.unbound, n, none, false⟩]
      have hsub : MemSub root.members (insert n c.st.syms.length root.members) := by
        intro n' m' hl
        by_cases hn : n' = n
        · subst hn; rw [e3] at hl; cases hl
        · rw [lookup_insert_ne hn]; exact hl
      cases hF : framesOf L ++ [{ root with members := insert n c.st.syms.length root.members }] with
      | nil => simp at hF
      | cons f0 F0 =>
        rw [hF] at h
        simp only [Option.some.injEq] at h
        subst h
        refine ⟨ρ, { root with members := insert n c.st.syms.length root.members }, [c.st.syms.length], fun _ _ => rfl, ?_,
          hsub, rfl, hk1, he1, hdr, htd, rfl, ?_⟩
        · exact hv.step hp hF.symm hk1 he1 (fun _ _ => rfl) (hv.rootOK.insert e2) hsub rfl hv.pending hv.cls
        · intro ρ'' syms'' _ _ he2
          refine ⟨trivial, ?_⟩
          simp only [All2, and_true]
          exact kindOf_ext he2 (by simp [kindOf?])

/-- entering a block-like scope: one new environment `E` for one new scope `f` -/
theorem VRel.pushBlock {ρ : Rho} {L : Layers} {res : List Env} {root : Frame} {lexP varP : List Name} {c : VCtx} {sc : Ctx}
    {pp : List Nat} (hv : VRel ρ L res root lexP varP c sc) (hp : POK sc pp) (E : Env) (f : Frame) (kids : List Sc)
    (hEp : ¬ E.id.path <+: pp) (hfk : f.kind ≠ .with_)
    (hhas : ∀ n, (lookup n f.members).isSome = E.names.contains n)
    (hknown : ∀ n m, lookup n f.members = some m → Known c.st.syms m)
    (sc1 : Ctx) (hs1 : sc1.envs = E :: sc.envs) (hs2 : sc1.lexEnv = E.id) (hs3 : sc1.varEnv = sc.varEnv)
    (hs4 : sc1.top = false) :
    VRel (fun id => if id = E.id then (fun n => lookup n f.members) else ρ id) (([E], [f]) :: L) res root E.names []
      ⟨f, kids, [], c.cur :: c.below, [], c.lastDecl, none, c.st⟩ sc1 := by
  have hag : ∀ id : EnvId, id.path <+: pp → (fun id => if id = E.id then (fun n => lookup n f.members) else ρ id) id = ρ id := by
    intro id hid
    have : id ≠ E.id := fun e => hEp (e ▸ hid)
    simp [this]
  refine ⟨?_, ?_, ?_, ?_, rfl, rfl, fun ht => (by rw [hs4] at ht; cases ht), ?_, fun _ h => (by cases h)⟩
  · simp only [framesOf_cons, List.cons_append]
    rw [hv.chain]; simp
  · rw [hs1, envsOf_cons, hv.envs]; rfl
  · intro l hl
    simp only [List.mem_cons] at hl
    rcases hl with hl | hl
    · subst hl
      refine ⟨fun g hg => by simp at hg; rw [hg]; exact hfk, fun n => ?_⟩
      have hh := hhas n
      simp only [resolve, findIn]
      cases hc : E.names.contains n with
      | true =>
        rw [hc] at hh
        cases hl : lookup n f.members with
        | none => rw [hl] at hh; cases hh
        | some m =>
          refine ⟨fun b hb => ?_, fun hb => by simp at hb⟩
          simp only [if_true, Option.some.injEq] at hb
          subst hb
          exact ⟨m, m, rfl, by simp [hl], .refl _, hknown n m hl⟩
      | false =>
        rw [hc] at hh
        cases hl : lookup n f.members with
        | none => exact ⟨fun b hb => by simp at hb, fun _ => rfl⟩
        | some m => rw [hl] at hh; cases hh
    · refine (hv.layers l hl).mono (.refl _) (.refl _) (fun e hel => hag e.id (hp.envs e ?_))
      rw [hv.envs]
      refine List.mem_append_left _ ?_
      simp only [envsOf, List.mem_flatten, List.mem_map]
      exact ⟨l.1, ⟨l, hl, rfl⟩, hel⟩
  · refine hv.rootOK.mono (.refl _) (.refl _) (fun e hel => hag e.id (hp.envs e ?_))
    rw [hv.envs]; exact List.mem_append_right _ hel
  · intro n hn
    have hh := hhas n
    have hc : E.names.contains n = true := by simpa using hn
    rw [hc] at hh
    cases hl : lookup n f.members with
    | none => rw [hl] at hh; cases hh
    | some m => exact ⟨m, m, rfl, by simp [hs2, hl], .refl _⟩

theorem prefix_snoc_cases {a b : List Nat} {x : Nat} (h : a <+: b ++ [x]) : a <+: b ∨ a = b ++ [x] := by
  rcases List.prefix_concat_iff.mp h with h1 | h1
  · exact Or.inr h1
  · exact Or.inl h1

/-- leaving a block-like scope: from what the induction gives for the statements inside to the statement itself -/
theorem pop_block {Ch ChI : EnvId → Prop} {ρ : Rho} {L : Layers} {res : List Env} {root : Frame} {lexP varP : List Name}
    {c c' r : VCtx} {sc sc1 : Ctx} {pp : List Nat} {E : Env} {f : Frame} {kids todo' : List Sc} {ds restD : List Nat}
    {w : Walk}
    (hv : VRel ρ L res root lexP varP c sc) (hp : POK sc pp)
    (hin : Concl ChI E.id.path (fun id => if id = E.id then (fun n => lookup n f.members) else ρ id) (([E], [f]) :: L) res root
      E.names [] ⟨f, kids, [], c.cur :: c.below, [], c.lastDecl, none, c.st⟩ r sc1 ds restD [] w)
    (hpop : ∃ cur' below', r.below = cur' :: below' ∧
        c' = ⟨cur', todo', c.done ++ [.node r.cur r.done], below', [], none, c.cls,
          { r.st with syms := pinMembers r.cur r.st.syms }⟩)
    (hE : Ch E.id) (hChI : ∀ id, ChI id → Ch id) (hout : ∀ id : EnvId, Ch id → ¬ id.path <+: pp)
    (hreg : ∀ id : EnvId, OuterId sc1 id → OuterId sc id ∨ Ch id) :
    Concl Ch pp ρ L res root lexP varP c c' sc ds restD todo' w := by
  obtain ⟨ρ2, root2, rs, hch, hr, hsub, hrk, hk, he, hdr, _, hrefs, hfacts⟩ := hin
  obtain ⟨cur', below', hb, hc'⟩ := hpop
  have hpin := pinMembers_kept r.cur r.st.syms
  have hag2 : ∀ id, ¬ Ch id → ρ2 id = ρ id := by
    intro id hid
    rw [hch id (fun h => hid (hChI id h))]
    have : id ≠ E.id := fun e => hid (e ▸ hE)
    simp [this]
  have hchain : r.below = framesOf L ++ [root2] := by
    have := hr.chain
    simp only [framesOf_cons, List.singleton_append, List.cons_append, List.nil_append, List.cons.injEq] at this
    exact this.2
  subst hc'
  refine ⟨ρ2, root2, rs, hag2, ?_, hsub, hrk, hk.trans hpin.1, he.trans hpin.2, hdr, rfl, hrefs, ?_⟩
  · refine hv.step hp (by rw [← hchain, hb]) (hk.trans hpin.1) (he.trans hpin.2)
      (fun id hid => hag2 id (fun h => hout id h hid)) (hr.rootOK.mono hpin.1 hpin.2 (fun _ _ => rfl)) hsub hrk rfl hv.cls
  · intro ρ'' syms'' hag hk2 he2
    refine hfacts ρ'' syms'' (fun id hid => ?_) (hpin.1.trans hk2) (hpin.2.trans he2)
    rcases hid with hid | hid
    · exact hag id (hreg id hid)
    · exact hag id (Or.inr (hChI id hid))

-- what the statements declare where ---------------------------------------------------------------------------------------

/-- the names a statement declares in the lexical environment of its list (`tim`: the top level of a module) -/
def lexDeclOf (tim : Bool) : Stmt → List Name
  | .lex _ n => [n]
  | .fn n _ _ _ _ => if tim then [n] else []
  | _ => []
/-- the names a statement declares in the variable environment -/
def varDeclOf (tim : Bool) : Stmt → List Name
  | .var_ n => [n]
  | .fn n _ _ _ _ => if tim then [] else [n]
  | _ => []

theorem lexDecl_lexNames {tim : Bool} {n : Name} : ∀ {ss : List Stmt} {s : Stmt}, s ∈ ss → n ∈ lexDeclOf tim s → n ∈ lexNames ss
  | [], _, h, _ => by simp at h
  | t :: ss, s, h, hn => by
    simp only [List.mem_cons] at h
    rcases h with h | h
    · subst h
      cases s <;> simp [lexDeclOf] at hn
      · subst hn; simp [lexNames]
      · rw [hn.2]; simp [lexNames]
    · have := lexDecl_lexNames h hn
      cases t <;> simp [lexNames, this]

theorem lexDecl_topLex {n : Name} : ∀ {ss : List Stmt} {s : Stmt}, s ∈ ss → n ∈ lexDeclOf false s → n ∈ topLexNames ss
  | [], _, h, _ => by simp at h
  | t :: ss, s, h, hn => by
    simp only [List.mem_cons] at h
    rcases h with h | h
    · subst h
      cases s <;> simp [lexDeclOf] at hn
      subst hn; simp [topLexNames]
    · have := lexDecl_topLex h hn
      cases t <;> simp [topLexNames, this]

theorem varDecl_top {tim : Bool} {n : Name} : ∀ {ss : List Stmt} {s : Stmt}, s ∈ ss → n ∈ varDeclOf tim s →
    n ∈ topVarNames ss ∨ (tim = false ∧ n ∈ topFnNames ss)
  | [], _, h, _ => by simp at h
  | t :: ss, s, h, hn => by
    simp only [List.mem_cons] at h
    rcases h with h | h
    · subst h
      cases s <;> simp [varDeclOf] at hn
      · subst hn; simp [topVarNames]
      · rw [hn.2]; simp [topFnNames, hn.1]
    · rcases varDecl_top h hn with h1 | h1
      · left; cases t <;> simp [topVarNames, h1]
      · right; refine ⟨h1.1, ?_⟩; cases t <;> simp [topFnNames, h1.2]

theorem varDecl_flat_block {s : Stmt} {tim : Bool} (h : s.flat false = true) : varDeclOf tim s = [] := by
  cases s <;> simp_all [varDeclOf, Stmt.flat]

theorem known_of_names {syms0 syms : Syms} {mem : Members} (hnm : MemNames syms0 mem) (ha : ArgsName syms0)
    (he : SymsExt syms0 syms) : ∀ n m, lookup n mem = some m → Known syms m := by
  intro n m hl
  obtain ⟨s, hs, _⟩ := hnm n m hl
  exact Known.ext he ⟨s.kind, by simp [kindOf?, hs], (ha m s hs).2⟩

/-- the members of the scope of a flat block -/
theorem block_has {syms : Syms} {mem : Members} {f : Frame} {b : List Stmt} (h : ScopeEqs syms mem .block f (listItems b))
    (hf : flatL false b = true) (n : Name) : (lookup n f.members).isSome = (lexNames b).contains n := by
  have := h.2.2.1 n
  rw [this, hasAfterL_eq, (list_declares n b false hf).1, (list_declares n b false hf).2, flat_block_decls b hf]
  simp

theorem VRel.congr {ρ : Rho} {L : Layers} {res : List Env} {root : Frame} {lexP varP : List Name} {c c' : VCtx} {sc : Ctx}
    (h : VRel ρ L res root lexP varP c sc) (h1 : c'.cur = c.cur) (h2 : c'.below = c.below) (h3 : c'.st.syms = c.st.syms)
    (h4 : c'.pending = c.pending) (h5 : c'.cls = c.cls) : VRel ρ L res root lexP varP c' sc :=
  ⟨by rw [h1, h2]; exact h.chain, h.envs, by rw [h3]; exact h.layers, by rw [h3]; exact h.rootOK, by rw [h4]; exact h.pending,
    by rw [h5]; exact h.cls, by rw [h1]; exact h.stop, by rw [h1, h3]; exact h.lexAt, by rw [h1, h3]; exact h.varAt⟩

/-- a context that differs only in the declarations still to come and in the latest declaration -/
structure SameBut (c c' : VCtx) : Prop where
  cur : c'.cur = c.cur
  below : c'.below = c.below
  todo : c'.todo = c.todo
  done : c'.done = c.done
  pending : c'.pending = c.pending
  cls : c'.cls = c.cls
  syms : c'.st.syms = c.st.syms
  refs : c'.st.refs = c.st.refs

/-- the visit of a sequence of declarations none of which is a block-level function -/
theorem decls_visit {syms0 : Syms} {mem0 : Members} : ∀ (dl : List (SK × Name)) (c c' : VCtx) (ds restD : List Nat)
    (ks : List Sc), visitItems true (dl.map (fun d => Item.decl d.1 d.2)) c = some c' →
    (c.cur.kind.stopsHoisting = true ∨ ∀ d, d ∈ dl → d.1 ≠ .hoistedFunction ∧ d.1 ≠ .generatorOrAsyncFunction) →
    factsItems syms0 mem0 (dl.map (fun d => Item.decl d.1 d.2)) ds ks → c.st.declRefs = ds ++ restD →
    SameBut c c' ∧ c'.st.declRefs = restD ∧ ks = [] ∧
    All2 (fun d (p : SK × Name) => p.2 ≠ argumentsName → ∃ m, lookup p.2 mem0 = some m ∧ Conn syms0 d m) ds dl
  | [], c, c', ds, restD, ks, h, _, hf, hdr => by
    simp only [List.map_nil, visitItems, Option.some.injEq] at h
    subst h
    simp only [List.map_nil, factsItems] at hf
    obtain ⟨e1, e2⟩ := hf
    subst e1; subst e2
    exact ⟨⟨rfl, rfl, rfl, rfl, rfl, rfl, rfl, rfl⟩, by simpa using hdr, rfl, trivial⟩
  | p :: dl, c, c', ds, restD, ks, h, hs, hf, hdr => by
    simp only [List.map_cons, visitItems] at h
    cases h1 : visitItem true (Item.decl p.1 p.2) c with
    | none => rw [h1] at h; cases h
    | some c1 =>
      rw [h1] at h
      simp only at h
      obtain ⟨d, rest, hd, hc1⟩ := visit_decl h1 (fun hk => by
        rcases hs with hs | hs
        · exact hs
        · have := hs p (by simp); rcases hk with hk | hk
          · exact absurd hk this.1
          · exact absurd hk this.2)
      simp only [List.map_cons, factsItems] at hf
      obtain ⟨d1, d2, k1, k2, e1, e2, hf1, hf2⟩ := hf
      simp only [factsItem] at hf1
      obtain ⟨hk1, d0, hd1, hfact⟩ := hf1
      subst hk1; subst hd1; subst e1; subst e2
      rw [hd] at hdr
      simp only [List.singleton_append, List.cons_append, List.cons.injEq] at hdr
      obtain ⟨hd0, hrest⟩ := hdr
      subst hd0
      have hc1k : c1.cur = c.cur := by rw [hc1]
      obtain ⟨hsb, hdr', hks, hall⟩ := decls_visit dl c1 c' d2 restD _ h
        (by rcases hs with hs | hs
            · left; rw [hc1k]; exact hs
            · right; exact fun d hd => hs d (by simp [hd]))
        hf2 (by rw [hc1]; exact hrest)
      refine ⟨⟨hsb.cur.trans hc1k, hsb.below.trans (by rw [hc1]), hsb.todo.trans (by rw [hc1]), hsb.done.trans (by rw [hc1]),
        hsb.pending.trans (by rw [hc1]), hsb.cls.trans (by rw [hc1]), hsb.syms.trans (by rw [hc1]),
        hsb.refs.trans (by rw [hc1])⟩, hdr', by simpa using hks, ?_⟩
      simp only [List.singleton_append, All2]
      exact ⟨hfact, hall⟩

theorem flatL_mem {top : Bool} {s : Stmt} : ∀ {ss : List Stmt}, flatL top ss = true → s ∈ ss → s.flat top = true
  | [], _, h => by simp at h
  | t :: ss, hf, h => by
    simp only [flatL, Bool.and_eq_true] at hf
    simp only [List.mem_cons] at h
    rcases h with h | h
    · subst h; exact hf.1
    · exact flatL_mem hf.2 h

/-- everything the induction carries about the parse pass -/
structure PFacts (syms0 : Syms) (mem0 : Members) (c : VCtx) : Prop where
  kept : LinksKept syms0 c.st.syms
  ext : SymsExt syms0 c.st.syms
  args : ArgsName syms0
  names : MemNames syms0 mem0
  sub : MemSub mem0 c.cur.members

/-- the statement of the induction for a fixed statement list (passed to the lemmas about single constructs) -/
def ListIH (ss : List Stmt) : Prop :=
  ∀ (pp : List Nat) (i0 : Nat) (sc : Ctx) (c c' : VCtx) (ρ : Rho) (L : Layers)
    (res : List Env) (root : Frame) (lexP varP : List Name) (syms0 : Syms) (mem0 : Members) (ds restD : List Nat)
    (ks restK : List Sc),
    visitItems true (listItems ss) c = some c' → flatL sc.top ss = true → VRel ρ L res root lexP varP c sc → POK sc pp →
    factsItems syms0 mem0 (listItems ss) ds ks → PFacts syms0 mem0 c →
    c.st.declRefs = ds ++ restD → c.todo = ks ++ restK →
    (∀ s, s ∈ ss → (∀ n, n ∈ lexDeclOf sc.topIsModule s → n ∈ lexP) ∧ (∀ n, n ∈ varDeclOf sc.topIsModule s → n ∈ varP)) →
    Concl (fun id => ∃ j, i0 ≤ j ∧ pp ++ [j] <+: id.path) pp ρ L res root lexP varP c c' sc ds restD restK
      (walkList pp i0 sc ss)

theorem Concl.mono {Ch Ch' : EnvId → Prop} {pp : List Nat} {ρ : Rho} {L : Layers} {res : List Env} {root : Frame}
    {lexP varP : List Name} {c c' : VCtx} {sc : Ctx} {ds restD : List Nat} {restK : List Sc} {w : Walk}
    (h : Concl Ch pp ρ L res root lexP varP c c' sc ds restD restK w) (hsub : ∀ id, Ch id → Ch' id) :
    Concl Ch' pp ρ L res root lexP varP c c' sc ds restD restK w := by
  obtain ⟨ρ', root', rs, h1, h2, h3, h4, h5, h6, h7, h8, h9, h10⟩ := h
  refine ⟨ρ', root', rs, fun id hid => h1 id (fun hc => hid (hsub id hc)), h2, h3, h4, h5, h6, h7, h8, h9, ?_⟩
  intro ρ'' syms'' hag
  exact h10 ρ'' syms'' (fun id hid => hag id (hid.imp (fun x => x) (hsub id)))

theorem Concl.pc {Ch : EnvId → Prop} {pp : List Nat} {ρ : Rho} {L : Layers} {res : List Env} {root : Frame}
    {lexP varP : List Name} {c c' : VCtx} {sc : Ctx} {ds restD : List Nat} {restK : List Sc} {w : Walk}
    (h : Concl Ch pp ρ L res root lexP varP c c' sc ds restD restK w) : c'.pending = [] ∧ c'.cls = none := by
  obtain ⟨_, _, _, _, hr, _⟩ := h
  exact ⟨hr.pending, hr.cls⟩

/-- one construct after another, when they create different environments -/
theorem Concl.seq {ChA ChB : EnvId → Prop} {pp : List Nat} {ρ : Rho} {L : Layers} {res : List Env} {root : Frame}
    {lexP varP : List Name} {c c1 c' : VCtx} {sc : Ctx} {dA dB restD : List Nat} {kB restK : List Sc} {wA wB : Walk}
    (hA : Concl ChA pp ρ L res root lexP varP c c1 sc dA (dB ++ restD) (kB ++ restK) wA)
    (hB : ∀ (ρ1 : Rho) (root1 : Frame), VRel ρ1 L res root1 lexP varP c1 sc → LinksKept c.st.syms c1.st.syms →
      SymsExt c.st.syms c1.st.syms → MemSub c.cur.members c1.cur.members →
      c1.st.declRefs = dB ++ restD → c1.todo = kB ++ restK →
      Concl ChB pp ρ1 L res root1 lexP varP c1 c' sc dB restD restK wB)
    (hvc : VRel ρ L res root lexP varP c sc)
    (hdisj : ∀ id, ChA id → ¬ ChB id) (houtB : ∀ id : EnvId, OuterId sc id → ¬ ChB id) :
    Concl (fun id => ChA id ∨ ChB id) pp ρ L res root lexP varP c c' sc (dA ++ dB) restD restK (wA.append wB) := by
  obtain ⟨ρ1, root1, rs1, a1, hv1, hs1, hrk1, hk1, he1, hdr1, htd1, hrf1, hfacts1⟩ := hA
  have hcs : MemSub c.cur.members c1.cur.members := by
    rcases cur_of_chain hvc.chain hv1.chain with ⟨_, e1, e2⟩ | ⟨_, e⟩
    · rw [e1, e2]; exact hs1
    · rw [e]; exact .refl _
  obtain ⟨ρ2, root2, rs2, a2, hv2, hs2, hrk2, hk2, he2, hdr2, htd2, hrf2, hfacts2⟩ := hB ρ1 root1 hv1 hk1 he1 hcs hdr1 htd1
  refine ⟨ρ2, root2, rs1 ++ rs2, ?_, hv2, hs1.trans hs2, hrk2.trans hrk1, hk1.trans hk2, he1.trans he2, hdr2, htd2,
    by rw [hrf2, hrf1, List.append_assoc], ?_⟩
  · intro id hid
    rw [a2 id (fun hb => hid (Or.inr hb)), a1 id (fun ha => hid (Or.inl ha))]
  · intro ρ'' syms'' hag hk3 he3
    have hf1' := hfacts1 ρ'' syms'' (fun id hid => by
      rw [hag id (hid.imp (fun x => x) Or.inl)]
      refine a2 id ?_
      rcases hid with hid | hid
      · exact houtB id hid
      · exact hdisj id hid) (hk2.trans hk3) (he2.trans he3)
    have hf2' := hfacts2 ρ'' syms'' (fun id hid => hag id (hid.imp (fun x => x) Or.inr)) hk3 he3
    simp only [Walk.append]
    exact ⟨hf1'.1.append hf2'.1, hf1'.2.append hf2'.2⟩

/-- a sequence of declarations in the environment `E` (no block-level function among them) -/
theorem decls_concl {ρ : Rho} {L : Layers} {res : List Env} {root : Frame} {lexP varP : List Name} {c c' : VCtx} {sc : Ctx}
    {pp : List Nat} {syms0 : Syms} {mem0 : Members} {ds restD : List Nat} {ks restK : List Sc} {E : EnvId}
    (dl : List (SK × Name)) (h : visitItems true (dl.map (fun d => Item.decl d.1 d.2)) c = some c')
    (hs : c.cur.kind.stopsHoisting = true ∨ ∀ d, d ∈ dl → d.1 ≠ .hoistedFunction ∧ d.1 ≠ .generatorOrAsyncFunction)
    (hv : VRel ρ L res root lexP varP c sc)
    (hf : factsItems syms0 mem0 (dl.map (fun d => Item.decl d.1 d.2)) ds ks) (hpf : PFacts syms0 mem0 c)
    (hdr : c.st.declRefs = ds ++ restD) (htd : c.todo = ks ++ restK) (hE : OuterId sc E)
    (hat : ∀ p, p ∈ dl → p.2 ≠ argumentsName ∧
      ∃ m m', lookup p.2 c.cur.members = some m ∧ ρ E p.2 = some m' ∧ Conn c.st.syms m m') :
    Concl (fun _ => False) pp ρ L res root lexP varP c c' sc ds restD restK ⟨dl.map (fun p => [⟨E, p.2⟩]), []⟩ := by
  obtain ⟨hsb, hdr', hks, hall⟩ := decls_visit dl c c' ds restD ks h hs hf hdr
  subst hks
  refine ⟨ρ, root, [], fun _ _ => rfl, hv.congr hsb.cur hsb.below hsb.syms hsb.pending hsb.cls, .refl _, rfl,
    by rw [hsb.syms]; exact .refl _, by rw [hsb.syms]; exact .refl _, hdr', by rw [hsb.todo]; simpa using htd,
    by rw [hsb.refs]; simp, ?_⟩
  intro ρ'' syms'' hag hk2 _
  refine ⟨?_, trivial⟩
  have hk02 : LinksKept c.st.syms syms'' := by rw [← hsb.syms]; exact hk2
  clear hf hdr h hs
  induction dl generalizing ds with
  | nil => cases ds <;> simp_all [All2]
  | cons p dl ih =>
    cases ds with
    | nil => simp [All2] at hall
    | cons d ds =>
      simp only [All2, List.map_cons] at hall ⊢
      refine ⟨?_, ih (fun q hq => hat q (by simp [hq])) hall.2⟩
      · obtain ⟨hn, m, m', h1, h2, h3⟩ := hat p (by simp)
        obtain ⟨m1, h4, h5⟩ := hall.1 hn
        have : m1 = m := by have := hpf.sub _ m1 h4; rw [h1] at this; cases this; rfl
        subst this
        refine ⟨⟨E, p.2⟩, rfl, m', ?_, ((h5.mono hpf.kept).trans h3).mono hk02⟩
        show ρ'' E p.2 = some m'
        rw [hag E (Or.inl hE)]; exact h2

/-- a block scope whose statement list is `b`, with environment path `q`, in a context at `pp` -/
theorem block_item {b : List Stmt} (ih : ListIH b) {Ch : EnvId → Prop} {ρ : Rho} {L : Layers} {res : List Env}
    {root : Frame} {lexP varP : List Name} {c c' : VCtx} {sc : Ctx} {pp q : List Nat} {syms0 : Syms} {mem0 : Members}
    {ds restD : List Nat} {ks restK : List Sc} (sc1 : Ctx)
    (h : visitItems true [.scope .block false none (listItems b)] c = some c') (hfl : flatL false b = true)
    (hv : VRel ρ L res root lexP varP c sc) (hp : POK sc pp)
    (hf : factsItems syms0 mem0 [.scope .block false none (listItems b)] ds ks) (hpf : PFacts syms0 mem0 c)
    (hdr : c.st.declRefs = ds ++ restD) (htd : c.todo = ks ++ restK)
    (hs1 : sc1.envs = ⟨⟨q, .lexical⟩, lexNames b⟩ :: sc.envs) (hs2 : sc1.lexEnv = ⟨q, .lexical⟩)
    (hs3 : sc1.varEnv = sc.varEnv) (hs4 : sc1.top = false)
    (hq : pp <+: q) (hE : Ch ⟨q, .lexical⟩) (hChI : ∀ (id : EnvId) (j : Nat), q ++ [j] <+: id.path → Ch id)
    (hout : ∀ id : EnvId, Ch id → ¬ id.path <+: pp) :
    Concl Ch pp ρ L res root lexP varP c c' sc ds restD restK (walkList q 0 sc1 b) := by
  have hreg : ∀ id : EnvId, OuterId sc1 id → OuterId sc id ∨ Ch id := by
    intro id hid
    rcases hid with ⟨e, he, rfl⟩ | h1 | h1
    · rw [hs1] at he
      simp only [List.mem_cons] at he
      rcases he with he | he
      · rw [he]; exact Or.inr hE
      · exact Or.inl (Or.inl ⟨e, he, rfl⟩)
    · rw [h1, hs2]; exact Or.inr hE
    · rw [h1, hs3]; exact Or.inl (Or.inr (Or.inr rfl))
  rw [visitItems_singleton] at h
  have hfi := factsItems_singleton hf
  simp only [factsItem] at hfi
  obtain ⟨f, kids, hks, hfk, _, hse, hfb⟩ := hfi
  subst hks
  obtain ⟨f', kids', todo', r, hto, _, hvis, hpop⟩ := visit_scope h (by decide) hv.pending
  rw [htd] at hto
  simp only [List.singleton_append, List.cons.injEq, Sc.node.injEq] at hto
  obtain ⟨⟨hf', hkids'⟩, hrest⟩ := hto
  subst hf'; subst hkids'; subst hrest
  have hEp : ¬ (⟨⟨q, .lexical⟩, lexNames b⟩ : Env).id.path <+: pp := hout _ hE
  have hv1 := hv.pushBlock hp ⟨⟨q, .lexical⟩, lexNames b⟩ f kids hEp (by rw [hfk]; decide) (block_has hse hfl)
    (known_of_names hse.1 hpf.args hpf.ext) sc1 hs1 hs2 hs3 hs4
  have hp1 : POK sc1 q :=
    ⟨fun e he => by
      rw [hs1] at he
      simp only [List.mem_cons] at he
      rcases he with he | he
      · rw [he]; exact List.prefix_refl _
      · exact (hp.envs e he).trans hq,
     by rw [hs2]; exact List.prefix_refl _, by rw [hs3]; exact hp.var.trans hq⟩
  have hin := ih q 0 sc1 _ r _ _ res root (lexNames b) [] syms0 f.members ds restD kids [] hvis (by rw [hs4]; exact hfl) hv1
    hp1 hfb ⟨hpf.kept, hpf.ext, hpf.args, hse.1, .refl _⟩ hdr (by simp)
    (fun s hs => ⟨fun n hn => lexDecl_lexNames hs hn, fun n hn => by
      rw [varDecl_flat_block (flatL_mem hfl hs)] at hn; exact hn⟩)
  obtain ⟨ρ2, root2, rs, h1, hr, h2⟩ := hin
  have hpop' := hpop hr.pending hr.cls
  exact pop_block (E := ⟨⟨q, .lexical⟩, lexNames b⟩) hv hp ⟨ρ2, root2, rs, h1, hr, h2⟩ hpop' hE
    (fun id ⟨j, _, hj⟩ => hChI id j hj) hout hreg

/-- the symbols of the bindings of a function at `q`: those of the body scope, the function's own name from the
argument scope -/
def rhoFn (ρ : Rho) (q : List Nat) (fA fB : Frame) : Rho := fun id =>
  if id = ⟨q, .lexical⟩ ∨ id = ⟨q, .variable⟩ then (fun n => lookup n fB.members)
  else if id = ⟨q, .fnName⟩ then (fun n => lookup n fA.members) else ρ id

theorem rhoFn_outer {ρ : Rho} {q pp : List Nat} {fA fB : Frame} (hq : ¬ q <+: pp) (id : EnvId) (hid : id.path <+: pp) :
    rhoFn ρ q fA fB id = ρ id := by
  have h1 : id ≠ ⟨q, .lexical⟩ := fun e => hq (by rw [e] at hid; exact hid)
  have h2 : id ≠ ⟨q, .variable⟩ := fun e => hq (by rw [e] at hid; exact hid)
  have h3 : id ≠ ⟨q, .fnName⟩ := fun e => hq (by rw [e] at hid; exact hid)
  simp [rhoFn, h1, h2, h3]

def nameEnv (q : List Nat) : Option JsScopes.Name → List Env
  | some n => [⟨⟨q, .fnName⟩, [n]⟩]
  | none => []

/-- entering a function: the body scope over the argument scope against the function's environments -/
theorem VRel.pushFn {ρ : Rho} {L : Layers} {res : List Env} {root : Frame} {lexP varP : List Name} {c : VCtx} {sc : Ctx}
    {pp : List Nat} (hv : VRel ρ L res root lexP varP c sc) (hp : POK sc pp) (q : List Nat) (hq : ¬ q <+: pp)
    (eLn eVn : List Name) (nm : Option Name) (fA fB : Frame) (kidsB : List Sc) (ld : Option (Nat × Bool)) (st : VSt)
    (hst : st.syms = c.st.syms) (hkA : fA.kind = .fnArgs) (hkB : fB.kind = .fnBody)
    (hasB : ∀ n, (lookup n fB.members).isSome = (eLn.contains n || eVn.contains n))
    (hasA : ∀ n, (lookup n fA.members).isSome = true → (lookup n fB.members).isSome = true ∨ nm = some n)
    (hasN : ∀ n, nm = some n → (lookup n fA.members).isSome = true)
    (hknA : ∀ n m, lookup n fA.members = some m → Known c.st.syms m)
    (hknB : ∀ n m, lookup n fB.members = some m → Known c.st.syms m)
    (scF : Ctx)
    (hs1 : scF.envs = ([⟨⟨q, .lexical⟩, eLn⟩, ⟨⟨q, .variable⟩, eVn⟩] ++ nameEnv q nm) ++ sc.envs)
    (hs2 : scF.lexEnv = ⟨q, .lexical⟩) (hs3 : scF.varEnv = ⟨q, .variable⟩) :
    VRel (rhoFn ρ q fA fB) (([⟨⟨q, .lexical⟩, eLn⟩, ⟨⟨q, .variable⟩, eVn⟩] ++ nameEnv q nm, [fB, fA]) :: L) res root eLn eVn
      ⟨fB, kidsB, [], fA :: c.cur :: c.below, [], ld, none, st⟩ scF := by
  have hag := fun id hid => rhoFn_outer (ρ := ρ) (fA := fA) (fB := fB) hq id hid
  have hL : rhoFn ρ q fA fB ⟨q, .lexical⟩ = fun n => lookup n fB.members := by simp [rhoFn]
  have hV : rhoFn ρ q fA fB ⟨q, .variable⟩ = fun n => lookup n fB.members := by simp [rhoFn]
  have hN : rhoFn ρ q fA fB ⟨q, .fnName⟩ = fun n => lookup n fA.members := by simp [rhoFn]
  refine ⟨?_, ?_, ?_, ?_, rfl, rfl, fun _ => (by rw [hkB]; rfl), ?_, ?_⟩
  · simp only [framesOf_cons, List.cons_append, List.nil_append]
    rw [hv.chain]
  · rw [hs1, envsOf_cons, hv.envs]; simp only [List.append_assoc]
  · intro l hl
    simp only [List.mem_cons] at hl
    rcases hl with hl | hl
    · subst hl
      refine ⟨fun g hg => ?_, fun n => ?_⟩
      · simp only [List.mem_cons, List.not_mem_nil, or_false] at hg
        rcases hg with hg | hg <;> rw [hg]
        · rw [hkB]; decide
        · rw [hkA]; decide
      · have hb := hasB n
        simp only [List.cons_append, List.nil_append, resolve, findIn, hst]
        cases hcL : eLn.contains n with
        | true =>
          rw [hcL] at hb
          cases hl : lookup n fB.members with
          | none => rw [hl] at hb; simp at hb
          | some m =>
            refine ⟨fun b hb' => ?_, fun hb' => by simp at hb'⟩
            simp only [if_true, Option.some.injEq] at hb'
            subst hb'
            exact ⟨m, m, rfl, by simp [hL, hl], .refl _, hknB n m hl⟩
        | false =>
          cases hcV : eVn.contains n with
          | true =>
            rw [hcL, hcV] at hb
            cases hl : lookup n fB.members with
            | none => rw [hl] at hb; simp at hb
            | some m =>
              refine ⟨fun b hb' => ?_, fun hb' => by simp at hb'⟩
              simp only [Bool.false_eq_true, if_false, if_true, Option.some.injEq] at hb'
              subst hb'
              exact ⟨m, m, rfl, by simp [hV, hl], .refl _, hknB n m hl⟩
          | false =>
            rw [hcL, hcV] at hb
            have hlB : lookup n fB.members = none := by
              cases hl : lookup n fB.members with
              | none => rfl
              | some m => rw [hl] at hb; simp at hb
            simp only [hlB, Bool.false_eq_true, if_false]
            cases nm with
            | none =>
              simp only [nameEnv, resolve]
              refine ⟨fun b hb' => (by cases hb'), fun _ => ?_⟩
              cases hlA : lookup n fA.members with
              | none => rfl
              | some m =>
                rcases hasA n (by simp [hlA]) with h1 | h1
                · simp [hlB] at h1
                · cases h1
            | some x =>
              simp only [nameEnv, resolve]
              by_cases hx : x = n
              · subst hx
                have := hasN x rfl
                cases hlA : lookup x fA.members with
                | none => rw [hlA] at this; simp at this
                | some m =>
                  refine ⟨fun b hb' => ?_, fun hb' => by simp at hb'⟩
                  simp only [List.contains_cons, beq_self_eq_true, Bool.true_or, if_true, Option.some.injEq] at hb'
                  subst hb'
                  exact ⟨m, m, rfl, by simp [hN, hlA], .refl _, hknA x m hlA⟩
              · have hc : ([x] : List JsScopes.Name).contains n = false := by
                  simp; exact fun e => hx e.symm
                simp only [hc, Bool.false_eq_true, if_false]
                refine ⟨fun b hb' => (by cases hb'), fun _ => ?_⟩
                cases hlA : lookup n fA.members with
                | none => rfl
                | some m =>
                  rcases hasA n (by simp [hlA]) with h1 | h1
                  · simp [hlB] at h1
                  · simp only [Option.some.injEq] at h1; exact absurd h1 hx
    · rw [hst]
      refine (hv.layers l hl).mono (.refl _) (.refl _) (fun e hel => hag e.id (hp.envs e ?_))
      rw [hv.envs]
      refine List.mem_append_left _ ?_
      simp only [envsOf, List.mem_flatten, List.mem_map]
      exact ⟨l.1, ⟨l, hl, rfl⟩, hel⟩
  · rw [hst]
    refine hv.rootOK.mono (.refl _) (.refl _) (fun e hel => hag e.id (hp.envs e ?_))
    rw [hv.envs]; exact List.mem_append_right _ hel
  · intro n hn
    have hb := hasB n
    have hc : eLn.contains n = true := by simpa using hn
    rw [hc] at hb
    cases hl : lookup n fB.members with
    | none => rw [hl] at hb; simp at hb
    | some m => exact ⟨m, m, rfl, by simp [hs2, hL, hl], .refl _⟩
  · intro n hn
    have hb := hasB n
    have hc : eVn.contains n = true := by simpa using hn
    rw [hc] at hb
    cases hl : lookup n fB.members with
    | none => rw [hl] at hb; simp at hb
    | some m => exact ⟨m, m, rfl, by simp [hs3, hV, hl], .refl _⟩

/-- the names of the variable environment of a function -/
def fnVarNames (strict isArrow : Bool) (ps : List JsScopes.Name) (body : List Stmt) : List JsScopes.Name :=
  ps ++ varNamesL body ++ topFnNames body ++ (if strict then [] else annexBFn ps body)
    ++ (if isArrow then [] else [JsScopes.argumentsName])

theorem fnEnvs_eq (q : List Nat) (strict isArrow : Bool) (name : Option JsScopes.Name) (ps : List JsScopes.Name)
    (body : List Stmt) :
    fnEnvs q strict isArrow name ps body =
      [⟨⟨q, .lexical⟩, topLexNames body⟩, ⟨⟨q, .variable⟩, fnVarNames strict isArrow ps body⟩] ++ nameEnv q name := by
  cases name <;> rfl

theorem fnNames_flat {body : List Stmt} (hfl : flatL true body = true) (strict hasArgs : Bool) (ps : List JsScopes.Name)
    (n : Name) :
    ((topLexNames body).contains n || (fnVarNames strict (!hasArgs) ps body).contains n) =
      (ps.contains n || (hasArgs && n == argumentsName) || ((declKinds body).map (·.2)).contains n) := by
  rw [Bool.eq_iff_iff]
  simp only [fnVarNames, flat_varNames_top body hfl, flat_annexBFn ps body true hfl, Bool.or_eq_true, List.contains_iff_mem,
    List.mem_append, Bool.and_eq_true, beq_iff_eq, mem_declKinds_top]
  cases hasArgs <;> cases strict <;>
    simp [JsScopes.argumentsName, Scopes.argumentsName, or_assoc, or_comm, or_left_comm]

theorem catchDecls_names (cp : CatchParam) : (catchDecls cp).map (·.2) = cp.bound := by
  cases cp <;> simp [catchDecls, CatchParam.bound, List.map_map, Function.comp_def]

/-- the members of the scope of a catch clause -/
theorem catch_has {syms : Syms} {mem : Members} {f : Frame} {cp : CatchParam} {its : List Item}
    (h : ScopeEqs syms mem .catchBinding f (catchItems cp ++ [.scope .block false none its])) (n : Name) :
    (lookup n f.members).isSome = cp.bound.contains n := by
  have := h.2.2.1 n
  rw [this, hasAfterL_eq, declaresL_append, hasDeclArgs_append, catchItems_eq, declaresL_decls, hasDeclArgs_decls,
    catchDecls_names]
  simp [declaresL, hasDeclArgs]

/-- the catch clause of a try statement at `q0`: the scope of the parameter with the handler block inside -/
theorem catch_item {hd : List Stmt} (ih : ListIH hd) {ρ : Rho} {L : Layers} {res : List Env}
    {root : Frame} {lexP varP : List Name} {c c' : VCtx} {sc : Ctx} {pp q0 : List Nat} {syms0 : Syms} {mem0 : Members}
    {ds restD : List Nat} {ks restK : List Sc} (cp : CatchParam) (sc2 : Ctx)
    (h : visitItems true [.scope .catchBinding false none (catchItems cp ++ [.scope .block false none (listItems hd)])] c
      = some c')
    (hfl : flatL false hd = true) (hcp : cp.avoids JsScopes.argumentsName = true)
    (hv : VRel ρ L res root lexP varP c sc) (hp : POK sc pp)
    (hf : factsItems syms0 mem0
      [.scope .catchBinding false none (catchItems cp ++ [.scope .block false none (listItems hd)])] ds ks)
    (hpf : PFacts syms0 mem0 c) (hdr : c.st.declRefs = ds ++ restD) (htd : c.todo = ks ++ restK)
    (hs1 : sc2.envs = ⟨⟨q0 ++ [1, 0], .lexical⟩, lexNames hd⟩ :: ⟨⟨q0 ++ [1], .catch_⟩, cp.bound⟩ :: sc.envs)
    (hs2 : sc2.lexEnv = ⟨q0 ++ [1, 0], .lexical⟩) (hs3 : sc2.varEnv = sc.varEnv) (hs4 : sc2.top = false)
    (hq : pp <+: q0) (hq' : ¬ q0 <+: pp) :
    Concl (fun id => q0 ++ [1] <+: id.path) pp ρ L res root lexP varP c c' sc ds restD restK
      ((⟨cp.bound.map (fun n => [⟨⟨q0 ++ [1], .catch_⟩, n⟩]), []⟩ : Walk).append (walkList (q0 ++ [1, 0]) 0 sc2 hd)) := by
  rw [visitItems_singleton] at h
  have hfi := factsItems_singleton hf
  simp only [factsItem] at hfi
  obtain ⟨f, kids, hks, hfk, _, hse, hfb⟩ := hfi
  subst hks
  obtain ⟨f', kids', todo', r, hto, _, hvis, hpop⟩ := visit_scope h (by decide) hv.pending
  rw [htd] at hto
  simp only [List.singleton_append, List.cons.injEq, Sc.node.injEq] at hto
  obtain ⟨⟨hf', hkids'⟩, hrest⟩ := hto
  subst hf'; subst hkids'; subst hrest
  -- the environment of the catch parameter, and the context between the parameter and the handler block
  let E : Env := ⟨⟨q0 ++ [1], .catch_⟩, cp.bound⟩
  let sc1 : Ctx := { sc with envs := E :: sc.envs, lexEnv := E.id, top := false }
  have hEp : ¬ E.id.path <+: pp := fun hh => hq' ((List.prefix_append _ _).trans hh)
  have hv1 := hv.pushBlock hp E f kids hEp (by rw [hfk]; decide) (catch_has hse)
    (known_of_names hse.1 hpf.args hpf.ext) sc1 rfl rfl rfl rfl
  have hp1 : POK sc1 (q0 ++ [1]) :=
    ⟨fun e he => by
      simp only [sc1, List.mem_cons] at he
      rcases he with he | he
      · rw [he]; exact List.prefix_refl _
      · exact ((hp.envs e he).trans hq).trans (List.prefix_append _ _),
     List.prefix_refl _, (hp.var.trans hq).trans (List.prefix_append _ _)⟩
  -- inside: the parameter's declarations, then the handler block
  rw [visitItems_append] at hvis
  cases hv2 : visitItems true (catchItems cp) ⟨f, kids, [], c.cur :: c.below, [], c.lastDecl, none, c.st⟩ with
  | none => rw [hv2] at hvis; cases hvis
  | some c2 =>
    rw [hv2] at hvis
    simp only [Option.bind_some] at hvis
    obtain ⟨d1, d2, k1, k2, hd12, hk12, hf1, hf2⟩ := factsItems_append _ _ _ _ hfb
    subst hd12; subst hk12
    rw [catchItems_eq] at hv2 hf1
    have hpf1 : PFacts syms0 f.members ⟨f, k1 ++ k2, [], c.cur :: c.below, [], c.lastDecl, none, c.st⟩ :=
      ⟨hpf.kept, hpf.ext, hpf.args, hse.1, .refl _⟩
    have hA := decls_concl (pp := q0 ++ [1]) (E := E.id) (restD := d2 ++ restD) (restK := k2 ++ []) (catchDecls cp) hv2
      (Or.inr (fun d hd => by cases cp <;> simp [catchDecls] at hd <;> (try rcases hd with ⟨_, _, rfl⟩) <;> simp_all))
      hv1 hf1 hpf1 (by simp only [hdr, List.append_assoc]) (by simp) (Or.inr (Or.inl rfl))
      (fun p hpm => by
        have hmem : p.2 ∈ cp.bound := by rw [← catchDecls_names]; exact List.mem_map_of_mem hpm
        refine ⟨?_, hv1.lexAt p.2 hmem⟩
        simp only [CatchParam.avoids, List.all_eq_true, bne_iff_ne, ne_eq] at hcp
        exact hcp p.2 hmem)
    have hin := Concl.seq (c := ⟨f, k1 ++ k2, [], c.cur :: c.below, [], c.lastDecl, none, c.st⟩) hA
      (fun ρ1 root1 hvv hkk hee hss hdd htt =>
        block_item ih (Ch := fun id => (q0 ++ [1]) ++ [0] <+: id.path) (q := (q0 ++ [1]) ++ [0]) sc2 hvis hfl hvv hp1 hf2
          ⟨hpf.kept.trans hkk, hpf.ext.trans hee, hpf.args, hse.1, hss⟩ hdd htt
          (by rw [hs1]; simp [sc1, E]) (by rw [hs2]; simp) hs3 hs4
          (List.prefix_append _ _) (List.prefix_refl _)
          (fun id j hj => (List.prefix_append _ _).trans hj)
          (fun id hid hh => not_prefix_of_prefix hh hid))
      hv1 (fun _ hf _ => hf) (fun id hid hh => not_prefix_of_prefix (hid.path hp1) hh)
    have hin' := hin.mono (Ch' := fun id => (q0 ++ [1]) ++ [0] <+: id.path)
      (fun id hid => hid.elim (fun hf => False.elim hf) (fun x => x))
    have hpop' := hpop hin'.pc.1 hin'.pc.2
    have hfin := pop_block (Ch := fun id => q0 ++ [1] <+: id.path) (E := E) hv hp hin' hpop' (List.prefix_refl _)
      (fun id hid => (List.prefix_append _ _).trans hid)
      (fun id hid hh => hEp (hid.trans hh))
      (fun id hid => by
        rcases hid with ⟨e, he, rfl⟩ | h1 | h1
        · simp only [sc1, List.mem_cons] at he
          rcases he with he | he
          · rw [he]; exact Or.inr (List.prefix_refl _)
          · exact Or.inl (Or.inl ⟨e, he, rfl⟩)
        · rw [h1]; exact Or.inr (List.prefix_refl _)
        · rw [h1]; exact Or.inl (Or.inr (Or.inr rfl)))
    have hw : (catchDecls cp).map (fun p => [(⟨E.id, p.2⟩ : Binding)]) =
        cp.bound.map (fun n => [(⟨⟨q0 ++ [1], .catch_⟩, n⟩ : Binding)]) := by
      rw [← catchDecls_names, List.map_map]; rfl
    rw [hw] at hfin
    simpa [List.append_assoc] using hfin

theorem memberKind_some_lookup {syms : Syms} {mem : Members} {n : Name} {k : SK} (h : memberKind syms mem n = some k) :
    ∃ m, lookup n mem = some m ∧ kindOf? syms m = some k := by
  unfold memberKind at h
  cases hl : lookup n mem with
  | none => rw [hl] at h; cases h
  | some m => rw [hl] at h; exact ⟨m, rfl, h⟩

theorem lookup_memberKind {syms : Syms} {mem : Members} (hnm : MemNames syms mem) {n : Name} {m : Nat}
    (h : lookup n mem = some m) : ∃ k, memberKind syms mem n = some k := by
  obtain ⟨s, hs, _⟩ := hnm n m h
  exact ⟨s.kind, by simp [memberKind, h, kindOf?, hs]⟩

def nameBinds (q : List Nat) : Option JsScopes.Name → List (List Binding)
  | some n => [[⟨⟨q, .fnName⟩, n⟩]]
  | none => []

theorem fnWalk_eq (q : List Nat) (name : Option JsScopes.Name) (ps : List JsScopes.Name) (bw : Walk) :
    fnWalk q name ps bw = ⟨(nameBinds q name ++ ps.map (fun n => [(⟨⟨q, .variable⟩, n⟩ : Binding)])) ++ bw.decls, bw.refs⟩ := by
  cases name <;> simp [fnWalk, Walk.append, nameBinds]

/-- the declarations of the name and the parameters of a function at `q` -/
theorem fn_decl_facts {ρ'' : Rho} {syms0 syms'' : Syms} {fA fB : Frame} {q : List Nat} {name : Option Name} {ps : List Name}
    {d1 : List Nat}
    (hall : All2 (fun d (p : SK × Name) => p.2 ≠ argumentsName → ∃ m, lookup p.2 fA.members = some m ∧ Conn syms0 d m) d1
      (nameDecl name ++ ps.map (fun p => (SK.hoisted, p))))
    (hk : LinksKept syms0 syms'') (hn : name ≠ some argumentsName) (hps : argumentsName ∉ ps)
    (hcopy : CopyConn syms0 fA.members fB) (hkB : fB.kind = .fnBody)
    (hkind : ∀ n, n ∈ ps → memberKind syms0 fA.members n = some .hoisted)
    (hN : ρ'' ⟨q, .fnName⟩ = fun n => lookup n fA.members) (hV : ρ'' ⟨q, .variable⟩ = fun n => lookup n fB.members) :
    All2 (DeclOK ρ'' syms'') d1 (nameBinds q name ++ ps.map (fun n => [(⟨⟨q, .variable⟩, n⟩ : Binding)])) := by
  obtain ⟨a1, a2, e, h1, h2⟩ := All2.split_right hall
  subst e
  refine All2.append ?_ ?_
  · cases name with
    | none =>
      simp only [nameDecl] at h1
      cases a1 with
      | nil => trivial
      | cons _ _ => simp [All2] at h1
    | some nm =>
      cases a1 with
      | nil => simp [nameDecl, All2] at h1
      | cons d a1 =>
        cases a1 with
        | cons _ _ => simp [nameDecl, All2] at h1
        | nil =>
          simp only [nameDecl, nameBinds, All2, and_true] at h1 ⊢
          obtain ⟨m, hm, hc⟩ := h1 (fun e => hn (by rw [e]))
          exact ⟨⟨⟨q, .fnName⟩, nm⟩, rfl, m, by simp [hN, hm], hc.mono hk⟩
  · have := All2.map_right (S := DeclOK ρ'' syms'') (fun p : SK × Name => [(⟨⟨q, .variable⟩, p.2⟩ : Binding)]) h2
      (fun d p hp hf => by
        simp only [List.mem_map] at hp
        obtain ⟨x, hx, rfl⟩ := hp
        have hxa : x ≠ argumentsName := fun e => hps (e ▸ hx)
        obtain ⟨mA, hmA, hc⟩ := hf hxa
        have hkA : kindOf? syms0 mA ≠ some .hoistedFunction := by
          have := hkind x hx
          simp only [memberKind, hmA, Option.bind_some] at this
          rw [this]; simp
        obtain ⟨mB, hmB, hc2⟩ := hcopy hkB x mA hxa hmA hkA
        exact ⟨⟨⟨q, .variable⟩, x⟩, rfl, mB, by simp [hV, hmB], (hc.trans hc2).mono hk⟩)
    simpa [List.map_map, Function.comp_def] using this

/-- a function (declaration without its own name, expression, arrow) at `q` -/
theorem fn_item {body : List Stmt} (ih : ListIH body) {ρ : Rho} {L : Layers} {res : List Env}
    {root : Frame} {lexP varP : List Name} {c c' : VCtx} {sc : Ctx} {pp q : List Nat} {syms0 : Syms} {mem0 : Members}
    {ds restD : List Nat} {ks restK : List Sc} (name : Option Name) (ps : List Name) (hasArgs us strict : Bool)
    (h : visitItems true [fnItems name ps hasArgs us (listItems body)] c = some c')
    (hfl : flatL true body = true) (hn : name ≠ some argumentsName) (hps : argumentsName ∉ ps)
    (hna : noArgDeclL (argsItems name ps hasArgs us (listItems body)) = true)
    (hv : VRel ρ L res root lexP varP c sc) (hp : POK sc pp)
    (hf : factsItems syms0 mem0 [fnItems name ps hasArgs us (listItems body)] ds ks)
    (hpf : PFacts syms0 mem0 c) (hdr : c.st.declRefs = ds ++ restD) (htd : c.todo = ks ++ restK)
    (hq : pp <+: q) (hq' : ¬ q <+: pp) :
    Concl (fun id => q <+: id.path) pp ρ L res root lexP varP c c' sc ds restD restK
      (fnWalk q name ps (walkList q 0 (fnCtx q strict (!hasArgs) name ps body sc.envs) body)) := by
  rw [visitItems_singleton, fnItems_eq] at h
  rw [fnItems_eq] at hf
  have hfi := factsItems_singleton hf
  simp only [factsItem] at hfi
  obtain ⟨fA, kidsA, hks, hkA, _, seA, hfA⟩ := hfi
  subst hks
  obtain ⟨fA', kidsA', todo', rA, hto, _, hvisA, hpopA⟩ := visit_scope h (by decide) hv.pending
  rw [htd] at hto
  simp only [List.singleton_append, List.cons.injEq, Sc.node.injEq] at hto
  obtain ⟨⟨hfA', hkidsA'⟩, hrest⟩ := hto
  subst hfA'; subst hkidsA'; subst hrest
  -- the declarations of the name and the parameters
  unfold argsItems at hvisA hfA
  rw [visitItems_append] at hvisA
  cases hv2 : visitItems true ((nameDecl name ++ ps.map (fun p => (SK.hoisted, p))).map (fun d => Item.decl d.1 d.2))
      ⟨fA, kidsA, [], c.cur :: c.below, [], c.lastDecl, none, c.st⟩ with
  | none => rw [hv2] at hvisA; cases hvisA
  | some c2 =>
  rw [hv2] at hvisA
  simp only [Option.bind_some] at hvisA
  obtain ⟨d1, d2, k1, k2, hd12, hk12, hf1, hf2⟩ := factsItems_append _ _ _ _ hfA
  subst hd12
  obtain ⟨hsb, hdr2, hk1, hall⟩ := decls_visit _ _ c2 d1 (d2 ++ restD) k1 hv2 (Or.inl (by rw [hkA]; rfl)) hf1
    (by simp only [hdr, List.append_assoc])
  subst hk1
  simp only [List.nil_append] at hk12
  subst hk12
  -- the `arguments` step
  rw [visitItems_append] at hvisA
  have hS : visitItems true (if hasArgs = true then [Item.declArgs] else []) c2 = some c2 := by
    cases hasArgs <;> simp [visitItems, visitItem]
  rw [hS] at hvisA
  simp only [Option.bind_some] at hvisA
  obtain ⟨d3, dB, k3, kB, hd3, hk3, hf3, hfB0⟩ := factsItems_append _ _ _ _ hf2
  have hS' : d3 = [] ∧ k3 = [] := by
    cases hasArgs
    · simpa [factsItems] using hf3
    · have := factsItems_singleton hf3
      simpa [factsItem] using this
  obtain ⟨e1, e2⟩ := hS'
  subst e1; subst e2
  simp only [List.nil_append] at hd3 hk3
  subst hd3; subst hk3
  -- the body scope
  have hfBi := factsItems_singleton hfB0
  simp only [factsItem] at hfBi
  obtain ⟨fB, kidsB, hkB', hkB, hcopy, seB, hfB⟩ := hfBi
  subst hkB'
  rw [visitItems_singleton] at hvisA
  obtain ⟨fB', kidsB', todo'', rB, hto2, _, hvisB, hpopB⟩ := visit_scope hvisA (by decide) (by rw [hsb.pending])
  rw [hsb.todo] at hto2
  simp only [List.cons.injEq, Sc.node.injEq] at hto2
  obtain ⟨⟨hfB', hkidsB'⟩, htodo''⟩ := hto2
  subst hfB'; subst hkidsB'; subst htodo''
  rw [hsb.cur, hsb.below] at hvisB
  simp only at hvisB
  -- the members of the two scopes
  have hfr := fn_frames seA seB hfl hn hps hna
  have hasB : ∀ n, (lookup n fB.members).isSome =
      ((topLexNames body).contains n || (fnVarNames strict (!hasArgs) ps body).contains n) := by
    intro n; rw [(hfr n).2, fnNames_flat hfl]
  have hasA : ∀ n, (lookup n fA.members).isSome = true → (lookup n fB.members).isSome = true ∨ name = some n := by
    intro n hl
    cases hlA : lookup n fA.members with
    | none => rw [hlA] at hl; cases hl
    | some m =>
      obtain ⟨k, hk⟩ := lookup_memberKind seA.1 hlA
      rw [(hfr n).1] at hk
      rw [(hfr n).2]
      by_cases h1 : n ∈ ps
      · left; simp [h1]
      · by_cases h2 : name = some n
        · exact Or.inr h2
        · by_cases h3 : hasArgs = true ∧ n = argumentsName
          · left; simp [h3.1, h3.2]
          · simp [h1, h2, h3] at hk
  have hasN : ∀ n, name = some n → (lookup n fA.members).isSome = true := by
    intro n hnm
    have := (hfr n).1
    by_cases h1 : n ∈ ps
    · simp only [h1, if_true] at this
      obtain ⟨m, hm, _⟩ := memberKind_some_lookup this; simp [hm]
    · simp only [h1, hnm, if_true, if_false] at this
      obtain ⟨m, hm, _⟩ := memberKind_some_lookup this; simp [hm]
  have hv1 := hv.pushFn hp q hq' (topLexNames body) (fnVarNames strict (!hasArgs) ps body) name fA fB kidsB c2.lastDecl c2.st
    hsb.syms hkA hkB hasB hasA hasN (known_of_names seA.1 hpf.args hpf.ext) (known_of_names seB.1 hpf.args hpf.ext)
    (fnCtx q strict (!hasArgs) name ps body sc.envs) (by simp only [fnCtx, fnEnvs_eq]) rfl rfl
  have hp1 : POK (fnCtx q strict (!hasArgs) name ps body sc.envs) q :=
    ⟨fun e he => by
      simp only [fnCtx, fnEnvs_eq, List.mem_append, List.mem_cons, List.not_mem_nil, or_false] at he
      rcases he with ((he | he) | he) | he
      · rw [he]; exact List.prefix_refl _
      · rw [he]; exact List.prefix_refl _
      · cases name with
        | none => simp [nameEnv] at he
        | some x => simp only [nameEnv, List.mem_cons, List.not_mem_nil, or_false] at he; rw [he]; exact List.prefix_refl _
      · exact (hp.envs e he).trans hq,
     List.prefix_refl _, List.prefix_refl _⟩
  have hin := ih q 0 (fnCtx q strict (!hasArgs) name ps body sc.envs) _ rB _ _ res root (topLexNames body)
    (fnVarNames strict (!hasArgs) ps body) syms0 fB.members d2 restD kidsB [] hvisB hfl hv1 hp1 hfB
    ⟨by rw [hsb.syms]; exact hpf.kept, by rw [hsb.syms]; exact hpf.ext, hpf.args, seB.1, .refl _⟩ hdr2 (by simp)
    (fun s hs => ⟨fun n hn' => lexDecl_topLex hs hn', fun n hn' => by
      simp only [fnVarNames, flat_varNames_top body hfl, List.mem_append]
      rcases varDecl_top hs hn' with h1 | h1
      · exact Or.inl (Or.inl (Or.inl (Or.inr h1)))
      · exact Or.inl (Or.inl (Or.inr h1.2))⟩)
  obtain ⟨ρ2, root2, rs, a2, hr, hsub, hrk, hk, he, hdrB, _, hrefs, hfacts⟩ := hin
  -- the two pops
  obtain ⟨cur', below', hb1, hrA⟩ := hpopB hr.pending hr.cls
  have hchain1 : rB.below = fA :: (framesOf L ++ [root2]) := by
    have := hr.chain
    simp only [framesOf_cons, List.cons_append, List.nil_append, List.cons.injEq] at this
    exact this.2
  rw [hchain1] at hb1
  simp only [List.cons.injEq] at hb1
  obtain ⟨hcur', hbelow'⟩ := hb1
  subst hcur'; subst hbelow'
  obtain ⟨cur'', below'', hb2, hc'⟩ := hpopA (by rw [hrA]) (by rw [hrA]; simp only; rw [hsb.cls])
  rw [hrA] at hb2
  simp only at hb2
  have hpin1 := pinMembers_kept rB.cur rB.st.syms
  have hpin2 := pinMembers_kept rA.cur rA.st.syms
  have hsymsA : rA.st.syms = pinMembers rB.cur rB.st.syms := by rw [hrA]
  have hk02 : LinksKept c.st.syms rB.st.syms := by rw [← hsb.syms]; exact hk
  have he02 : SymsExt c.st.syms rB.st.syms := by rw [← hsb.syms]; exact he
  have hkA2 : LinksKept rB.st.syms c'.st.syms := by
    rw [hc']; simp only; rw [hsymsA] at hpin2 ⊢; exact hpin1.1.trans hpin2.1
  have heA2 : SymsExt rB.st.syms c'.st.syms := by
    rw [hc']; simp only; rw [hsymsA] at hpin2 ⊢; exact hpin1.2.trans hpin2.2
  have hnotq : ∀ id : EnvId, ¬ q <+: id.path → ρ2 id = ρ id := by
    intro id hid
    rw [a2 id (fun ⟨j, _, hj⟩ => hid ((List.prefix_append _ _).trans hj))]
    have h1 : id ≠ ⟨q, .lexical⟩ := fun e => hid (by rw [e]; exact List.prefix_refl _)
    have h2 : id ≠ ⟨q, .variable⟩ := fun e => hid (by rw [e]; exact List.prefix_refl _)
    have h3 : id ≠ ⟨q, .fnName⟩ := fun e => hid (by rw [e]; exact List.prefix_refl _)
    simp [rhoFn, h1, h2, h3]
  have hρq : ∀ tag, ρ2 ⟨q, tag⟩ = rhoFn ρ q fA fB ⟨q, tag⟩ := by
    intro tag
    exact a2 _ (fun ⟨j, _, hj⟩ => by
      have := hj.length_le
      simp only [List.length_append, List.length_singleton] at this
      omega)
  refine ⟨ρ2, root2, rs, hnotq, ?_, hsub, hrk, hk02.trans hkA2, he02.trans heA2, ?_, ?_, ?_, ?_⟩
  · refine hv.step hp ?_ (hk02.trans hkA2) (he02.trans heA2) (fun id hid => hnotq id (fun hh => hq' (hh.trans hid)))
      (hr.rootOK.mono hkA2 heA2 (fun _ _ => rfl)) hsub hrk (by rw [hc']) (by rw [hc']; exact hv.cls)
    rw [hc']; simp only; exact hb2.symm
  · rw [hc']; simp only; rw [hrA]; exact hdrB
  · rw [hc']
  · rw [hc']; simp only; rw [hrA]; simp only; rw [hrefs, hsb.refs]
  · intro ρ'' syms'' hag hk3 he3
    have hbody := hfacts ρ'' syms'' (fun id hid => hag id (by
      rcases hid with hid | ⟨j, _, hj⟩
      · rcases hid with ⟨e, he', rfl⟩ | h1 | h1
        · simp only [fnCtx, fnEnvs_eq, List.mem_append, List.mem_cons, List.not_mem_nil, or_false] at he'
          rcases he' with ((he' | he') | he') | he'
          · rw [he']; exact Or.inr (List.prefix_refl _)
          · rw [he']; exact Or.inr (List.prefix_refl _)
          · cases name with
            | none => simp [nameEnv] at he'
            | some x =>
              simp only [nameEnv, List.mem_cons, List.not_mem_nil, or_false] at he'
              rw [he']; exact Or.inr (List.prefix_refl _)
          · exact Or.inl (Or.inl ⟨e, he', rfl⟩)
        · rw [h1]; exact Or.inr (List.prefix_refl _)
        · rw [h1]; exact Or.inr (List.prefix_refl _)
      · exact Or.inr ((List.prefix_append _ _).trans hj))) (hkA2.trans hk3) (heA2.trans he3)
    have hdecl := fn_decl_facts (ρ'' := ρ'') (syms'' := syms'') (q := q) hall
      (hpf.kept.trans (hk02.trans (hkA2.trans hk3))) hn hps hcopy hkB
      (fun n hn' => by rw [(hfr n).1]; simp [hn'])
      (by rw [hag _ (Or.inr (List.prefix_refl _)), hρq]; simp [rhoFn])
      (by rw [hag _ (Or.inr (List.prefix_refl _)), hρq]; simp [rhoFn])
    rw [fnWalk_eq]
    exact ⟨hdecl.append hbody.1, hbody.2⟩

theorem args_noArg (name : Option Name) (ps : List Name) (hasArgs us : Bool) (body : List Stmt)
    (hn : (match name with | some n => n != JsScopes.argumentsName | none => true) = true)
    (hps : ps.all (· != JsScopes.argumentsName) = true) (hfl : flatL true body = true) :
    noArgDeclL (argsItems name ps hasArgs us (listItems body)) = true ∧ name ≠ some argumentsName ∧ argumentsName ∉ ps := by
  obtain ⟨h1, h2, _⟩ := list_flatItems body true hfl
  have := (fn_flat name ps hasArgs us (listItems body) hn hps ⟨h1, h2⟩).1
  rw [fnItems_eq] at this
  simp only [flatItem] at this
  refine ⟨flatItems_noArg this, ?_, ?_⟩
  · intro e; subst e; simp [JsScopes.argumentsName, Scopes.argumentsName] at hn
  · intro hm
    simp only [List.all_eq_true, bne_iff_ne, ne_eq] at hps
    exact hps _ hm rfl

mutual
theorem visitStmt_flat : ∀ (s : Stmt) (pp : List Nat) (i : Nat) (sc : Ctx) (c c' : VCtx) (ρ : Rho) (L : Layers)
    (res : List Env) (root : Frame) (lexP varP : List Name) (syms0 : Syms) (mem0 : Members) (ds restD : List Nat)
    (ks restK : List Sc),
    visitItems true (stmtItems s) c = some c' → s.flat sc.top = true → VRel ρ L res root lexP varP c sc → POK sc pp →
    factsItems syms0 mem0 (stmtItems s) ds ks → PFacts syms0 mem0 c →
    c.st.declRefs = ds ++ restD → c.todo = ks ++ restK →
    (∀ n, n ∈ lexDeclOf sc.topIsModule s → n ∈ lexP) → (∀ n, n ∈ varDeclOf sc.topIsModule s → n ∈ varP) →
    Concl (fun id => pp ++ [i] <+: id.path) pp ρ L res root lexP varP c c' sc ds restD restK (s.walk (pp ++ [i]) sc)
  | .var_ n, pp, i, sc, c, c', ρ, L, res, root, lexP, varP, syms0, mem0, ds, restD, ks, restK, h, hfl, hv, hp, hf, hpf,
      hdr, htd, _, hvd => by
    simp only [Stmt.flat, Bool.and_eq_true, bne_iff_ne, ne_eq] at hfl
    simp only [stmtItems] at h hf
    simp only [Stmt.walk]
    exact decl_stmt h hv hp (fun hk => by rcases hk with hk | hk <;> cases hk) hf hpf.kept hpf.sub hdr htd hfl.2 (Or.inr (Or.inr rfl))
      (hv.varAt n (hvd n (by simp [varDeclOf])))
  | .lex k n, pp, i, sc, c, c', ρ, L, res, root, lexP, varP, syms0, mem0, ds, restD, ks, restK, h, hfl, hv, hp, hf, hpf,
      hdr, htd, hld, _ => by
    simp only [Stmt.flat, Bool.and_eq_true, bne_iff_ne, ne_eq] at hfl
    simp only [stmtItems, hfl.1, if_false] at h hf
    simp only [Stmt.walk]
    exact decl_stmt h hv hp (fun hk => by rcases hk with hk | hk <;> (cases k <;> simp [lexSK] at hk)) hf hpf.kept hpf.sub
      hdr htd hfl.2 (Or.inr (Or.inl rfl)) (hv.lexAt n (hld n (by simp [lexDeclOf])))
  | .ref n, pp, i, sc, c, c', ρ, L, res, root, lexP, varP, syms0, mem0, ds, restD, ks, restK, h, _, hv, hp, hf, _,
      hdr, htd, _, _ => by
    simp only [stmtItems] at h hf
    simp only [Stmt.walk]
    exact ref_stmt h hv hp hf hdr htd
  | .block b, pp, i, sc, c, c', ρ, L, res, root, lexP, varP, syms0, mem0, ds, restD, ks, restK, h, hfl, hv, hp, hf, hpf,
      hdr, htd, _, _ => by
    simp only [Stmt.flat] at hfl
    simp only [stmtItems] at h hf
    simp only [Stmt.walk]
    exact block_item (visitList_flat b) (sc.enterBlock (pp ++ [i]) [] sc.envs b) h hfl hv hp hf hpf hdr htd rfl rfl rfl rfl
      (List.prefix_append _ _) (List.prefix_refl _)
      (fun id j hj => (List.prefix_append _ _).trans hj)
      (fun id hid hh => not_prefix_of_prefix hh hid)
  | .try_ b cp hd, pp, i, sc, c, c', ρ, L, res, root, lexP, varP, syms0, mem0, ds, restD, ks, restK, h, hfl, hv, hp, hf, hpf,
      hdr, htd, _, _ => by
    simp only [Stmt.flat, Bool.and_eq_true] at hfl
    obtain ⟨⟨hfb, hcp⟩, hfh⟩ := hfl
    simp only [stmtItems] at h hf
    have hsplit : ∀ (x y : Item), [x, y] = [x] ++ [y] := fun _ _ => rfl
    rw [hsplit, visitItems_append] at h
    rw [hsplit] at hf
    cases h1 : visitItems true [Item.scope ScK.block false none (listItems b)] c with
    | none => rw [h1] at h; cases h
    | some c1 =>
      rw [h1] at h
      simp only [Option.bind_some] at h
      obtain ⟨d1, d2, k1, k2, hd12, hk12, hf1, hf2⟩ := factsItems_append _ _ _ _ hf
      subst hd12; subst hk12
      have hnp : ¬ pp ++ [i] <+: pp := not_prefix_of_prefix (List.prefix_refl pp)
      have hA := block_item (visitList_flat b) (Ch := fun id => (pp ++ [i]) ++ [0] <+: id.path) (q := (pp ++ [i]) ++ [0])
        (restD := d2 ++ restD) (restK := k2 ++ restK)
        (sc.enterBlock (pp ++ [i] ++ [0]) [] sc.envs b) h1 hfb hv hp hf1 hpf (by rw [hdr, List.append_assoc])
        (by rw [htd, List.append_assoc]) rfl rfl rfl rfl
        ((List.prefix_append _ _).trans (List.prefix_append _ _)) (List.prefix_refl _)
        (fun id j hj => (List.prefix_append _ _).trans hj)
        (fun id hid hh => hnp (((List.prefix_append _ _).trans hid).trans hh))
      have hAB := Concl.seq hA (fun ρ1 root1 hvv hkk hee hss hdd htt =>
          catch_item (visitList_flat hd) (q0 := pp ++ [i]) cp
            (sc.enterBlock (pp ++ [i] ++ [1, 0]) (if cp.isPattern then cp.bound else [])
              (⟨⟨pp ++ [i] ++ [1], .catch_⟩, cp.bound⟩ :: sc.envs) hd)
            h hfh hcp hvv hp hf2 ⟨hpf.kept.trans hkk, hpf.ext.trans hee, hpf.args, hpf.names, hpf.sub.trans hss⟩ hdd htt
            rfl rfl rfl rfl (List.prefix_append _ _) hnp)
        hv (fun id h0 h1' => by have := prefix_sibling h0 h1'; omega)
        (fun id hid hh => hnp (((List.prefix_append _ _).trans hh).trans (hid.path hp)))
      simp only [Stmt.walk]
      exact hAB.mono (fun id hid => by
        rcases hid with hid | hid
        · exact (List.prefix_append _ _).trans hid
        · exact (List.prefix_append _ _).trans hid)
  | .fn n gen ps us body, pp, i, sc, c, c', ρ, L, res, root, lexP, varP, syms0, mem0, ds, restD, ks, restK, h, hfl, hv, hp,
      hf, hpf, hdr, htd, hld, hvd => by
    simp only [Stmt.flat, Bool.and_eq_true, bne_iff_ne, ne_eq] at hfl
    obtain ⟨⟨⟨htop, hnn⟩, hps⟩, hfb⟩ := hfl
    obtain ⟨hna, hn', hps'⟩ := args_noArg none ps true us body rfl hps hfb
    rw [stmtItems_fn] at h hf
    have hsplit : ∀ (x y : Item), [x, y] = [x] ++ [y] := fun _ _ => rfl
    rw [hsplit, visitItems_append] at h
    rw [hsplit] at hf
    cases h1 : visitItems true [fnItems none ps true us (listItems body)] c with
    | none => rw [h1] at h; cases h
    | some c1 =>
      rw [h1] at h
      simp only [Option.bind_some] at h
      obtain ⟨d1, d2, k1, k2, hd12, hk12, hf1, hf2⟩ := factsItems_append _ _ _ _ hf
      subst hd12; subst hk12
      have hnp : ¬ pp ++ [i] <+: pp := not_prefix_of_prefix (List.prefix_refl pp)
      have hA := fn_item (visitList_flat body) (q := pp ++ [i]) (restD := d2 ++ restD) (restK := k2 ++ restK) none ps true us
        (sc.strict || us) h1 hfb hn' hps' hna hv hp hf1 hpf (by rw [hdr, List.append_assoc]) (by rw [htd, List.append_assoc])
        (List.prefix_append _ _) hnp
      have hAB := Concl.seq hA (fun ρ1 root1 hvv hkk hee hss hdd htt =>
          decl_stmt (Ch := fun _ => False) (E := if sc.topIsModule then sc.lexEnv else sc.varEnv) h hvv hp
            (fun _ => hvv.stop htop) hf2 (hpf.kept.trans hkk) (hpf.sub.trans hss) hdd htt hnn
            (by cases sc.topIsModule
                · exact Or.inr (Or.inr rfl)
                · exact Or.inr (Or.inl rfl))
            (by cases htm : sc.topIsModule
                · exact hvv.varAt n (hvd n (by simp [varDeclOf, htm]))
                · exact hvv.lexAt n (hld n (by simp [lexDeclOf, htm]))))
        hv (fun _ _ hf => hf) (fun _ _ hf => hf)
      have hw : (Stmt.fn n gen ps us body).walk (pp ++ [i]) sc =
          (fnWalk (pp ++ [i]) none ps (walkList (pp ++ [i]) 0
            (fnCtx (pp ++ [i]) (sc.strict || us) (!true) none ps body sc.envs) body)).append
            ⟨[[⟨if sc.topIsModule then sc.lexEnv else sc.varEnv, n⟩]], []⟩ := by
        simp only [Stmt.walk, htop, if_true, Bool.not_true]
        cases sc.topIsModule <;> rfl
      rw [hw]
      exact hAB.mono (fun id hid => hid.elim (fun x => x) (fun hf => False.elim hf))
  | .fnExpr n ps us body, pp, i, sc, c, c', ρ, L, res, root, lexP, varP, syms0, mem0, ds, restD, ks, restK, h, hfl, hv, hp,
      hf, hpf, hdr, htd, _, _ => by
    simp only [Stmt.flat, Bool.and_eq_true] at hfl
    obtain ⟨⟨hnn, hps⟩, hfb⟩ := hfl
    obtain ⟨hna, hn', hps'⟩ := args_noArg n ps true us body hnn hps hfb
    rw [stmtItems_fnExpr] at h hf
    have hnp : ¬ pp ++ [i] <+: pp := not_prefix_of_prefix (List.prefix_refl pp)
    simp only [Stmt.walk]
    exact fn_item (visitList_flat body) (q := pp ++ [i]) n ps true us (sc.strict || us) h hfb hn' hps' hna hv hp hf hpf hdr htd
      (List.prefix_append _ _) hnp
  | .arrow ps body, pp, i, sc, c, c', ρ, L, res, root, lexP, varP, syms0, mem0, ds, restD, ks, restK, h, hfl, hv, hp,
      hf, hpf, hdr, htd, _, _ => by
    simp only [Stmt.flat, Bool.and_eq_true] at hfl
    obtain ⟨hps, hfb⟩ := hfl
    obtain ⟨hna, hn', hps'⟩ := args_noArg none ps false false body rfl hps hfb
    rw [stmtItems_arrow] at h hf
    have hnp : ¬ pp ++ [i] <+: pp := not_prefix_of_prefix (List.prefix_refl pp)
    simp only [Stmt.walk]
    exact fn_item (visitList_flat body) (q := pp ++ [i]) none ps false false sc.strict h hfb hn' hps' hna hv hp hf hpf hdr htd
      (List.prefix_append _ _) hnp
theorem visitList_flat : ∀ (ss : List Stmt) (pp : List Nat) (i0 : Nat) (sc : Ctx) (c c' : VCtx) (ρ : Rho) (L : Layers)
    (res : List Env) (root : Frame) (lexP varP : List Name) (syms0 : Syms) (mem0 : Members) (ds restD : List Nat)
    (ks restK : List Sc),
    visitItems true (listItems ss) c = some c' → flatL sc.top ss = true → VRel ρ L res root lexP varP c sc → POK sc pp →
    factsItems syms0 mem0 (listItems ss) ds ks → PFacts syms0 mem0 c →
    c.st.declRefs = ds ++ restD → c.todo = ks ++ restK →
    (∀ s, s ∈ ss → (∀ n, n ∈ lexDeclOf sc.topIsModule s → n ∈ lexP) ∧ (∀ n, n ∈ varDeclOf sc.topIsModule s → n ∈ varP)) →
    Concl (fun id => ∃ j, i0 ≤ j ∧ pp ++ [j] <+: id.path) pp ρ L res root lexP varP c c' sc ds restD restK
      (walkList pp i0 sc ss)
  | [], pp, i0, sc, c, c', ρ, L, res, root, lexP, varP, syms0, mem0, ds, restD, ks, restK, h, _, hv, _, hf, _, hdr, htd, _ => by
    simp only [listItems, visitItems, Option.some.injEq] at h
    subst h
    simp only [listItems, factsItems] at hf
    obtain ⟨e1, e2⟩ := hf
    subst e1; subst e2
    refine ⟨ρ, root, [], fun _ _ => rfl, hv, .refl _, rfl, .refl _, .refl _, by simpa using hdr, by simpa using htd, by simp,
      fun _ _ _ _ _ => ?_⟩
    simp [walkList, Walk.empty, All2]
  | s :: ss, pp, i0, sc, c, c', ρ, L, res, root, lexP, varP, syms0, mem0, ds, restD, ks, restK, h, hfl, hv, hp, hf, hpf,
      hdr, htd, hdecl => by
    simp only [flatL, Bool.and_eq_true] at hfl
    simp only [listItems] at h hf
    rw [visitItems_append] at h
    cases h1 : visitItems true (stmtItems s) c with
    | none => rw [h1] at h; cases h
    | some c1 =>
      rw [h1] at h
      simp only [Option.bind_some] at h
      obtain ⟨d1, d2, k1, k2, hd, hk, hf1, hf2⟩ := factsItems_append _ _ _ _ hf
      subst hd; subst hk
      obtain ⟨ρ1, root1, rs1, a1, hv1, hs1, hrk1, hk1, he1, hdr1, htd1, hrf1, hfacts1⟩ :=
        visitStmt_flat s pp i0 sc c c1 ρ L res root lexP varP syms0 mem0 d1 (d2 ++ restD) k1 (k2 ++ restK) h1 hfl.1 hv hp hf1
          hpf (by rw [hdr, List.append_assoc]) (by rw [htd, List.append_assoc])
          (hdecl s (by simp)).1 (hdecl s (by simp)).2
      have hcs : MemSub c.cur.members c1.cur.members := by
        rcases cur_of_chain hv.chain hv1.chain with ⟨_, e1, e2⟩ | ⟨_, e⟩
        · rw [e1, e2]; exact hs1
        · rw [e]; exact .refl _
      obtain ⟨ρ2, root2, rs2, a2, hv2, hs2, hrk2, hk2, he2, hdr2, htd2, hrf2, hfacts2⟩ :=
        visitList_flat ss pp (i0 + 1) sc c1 c' ρ1 L res root1 lexP varP syms0 mem0 d2 restD k2 restK h hfl.2 hv1 hp hf2
          ⟨hpf.kept.trans hk1, hpf.ext.trans he1, hpf.args, hpf.names, hpf.sub.trans hcs⟩ hdr1 htd1
          (fun t ht => hdecl t (by simp [ht]))
      refine ⟨ρ2, root2, rs1 ++ rs2, ?_, hv2, hs1.trans hs2, hrk2.trans hrk1, hk1.trans hk2, he1.trans he2, hdr2, htd2,
        by rw [hrf2, hrf1, List.append_assoc], ?_⟩
      · intro id hid
        rw [a2 id (fun ⟨j, hj, hjp⟩ => hid ⟨j, by omega, hjp⟩), a1 id (fun hjp => hid ⟨i0, Nat.le_refl _, hjp⟩)]
      · intro ρ'' syms'' hag hk3 he3
        have hf1' := hfacts1 ρ'' syms'' (fun id hid => by
          rw [hag id (by
            rcases hid with hid | hid
            · exact Or.inl hid
            · exact Or.inr ⟨i0, Nat.le_refl _, hid⟩)]
          refine a2 id ?_
          rintro ⟨j, hj, hjp⟩
          rcases hid with hid | hid
          · exact not_prefix_of_prefix (hid.path hp) hjp
          · have := prefix_sibling hid hjp; omega) (hk2.trans hk3) (he2.trans he3)
        have hf2' := hfacts2 ρ'' syms'' (fun id hid => hag id (by
          rcases hid with hid | ⟨j, hj, hjp⟩
          · exact Or.inl hid
          · exact Or.inr ⟨j, by omega, hjp⟩)) hk3 he3
        simp only [walkList, Walk.append]
        exact ⟨hf1'.1.append hf2'.1, hf1'.2.append hf2'.2⟩
end

end EsbuildModel.Scopes
