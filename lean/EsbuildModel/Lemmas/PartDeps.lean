import EsbuildModel.Impl.PartDeps
import EsbuildModel.Impl.Shake
/-!
Helper lemmas for Props/C04PartDeps.lean: membership characterisations of the lists of Impl/PartDeps.lean and
projections of the well-formedness check.
-/
namespace EsbuildModel.PartDeps

theorem file?_some {s : State} {g : Nat} {G : File} (h : s.file? g = some G) : G ∈ s.files ∧ G.src = g := by
  unfold State.file? at h
  refine ⟨List.mem_of_find?_eq_some h, ?_⟩
  have := List.find?_some h
  simpa using this

theorem bind?_some {F : File} {r : Ref} {b : Bind} (h : F.bind? r = some b) : b ∈ F.binds ∧ b.key = r := by
  unfold File.bind? at h
  refine ⟨List.mem_of_find?_eq_some h, ?_⟩
  have := List.find?_some h
  simpa using this

theorem find?_src_of_mem : ∀ (l : List File) (F : File), (l.map (·.src)).Nodup → F ∈ l →
    l.find? (fun f => f.src == F.src) = some F
  | [], _, _, hF => by cases hF
  | G :: rest, F, hn, hF => by
    simp only [List.map_cons, List.nodup_cons, List.mem_map, not_exists, not_and] at hn
    rw [List.find?_cons]
    by_cases hg : G.src = F.src
    · rcases List.mem_cons.mp hF with h | h
      · subst h; simp
      · exact absurd hg (fun e => hn.1 F h e.symm)
    · rcases List.mem_cons.mp hF with h | h
      · subst h; exact absurd rfl hg
      · have : (G.src == F.src) = false := by simpa using hg
        rw [this]; exact find?_src_of_mem rest F hn.2 h

/-- with distinct source indices a file is found under its own index -/
theorem file?_of_mem {s : State} (hn : (s.files.map (·.src)).Nodup) {F : File} (hF : F ∈ s.files) :
    s.file? F.src = some F := find?_src_of_mem s.files F hn hF

-- ---------------------------------------------------------------- pfollow

theorem pfollow_of_plink_none {F : File} {r : Ref} (h : plink F r = none) (n : Nat) : pfollow F n r = some r := by
  cases n <;> simp [pfollow, h]

-- ---------------------------------------------------------------- tlsOf / tlsIn

theorem part_lt {F : File} {k : Nat} {P : Part} (hp : F.parts[k]? = some P) : k < F.parts.length := by
  rcases Nat.lt_or_ge k F.parts.length with h | h
  · exact h
  · rw [List.getElem?_eq_none h] at hp; cases hp

/-- a symbol without a parser link: the parts that declare it (and part 0 for the exports object) -/
theorem mem_tlsOf {F : File} {r : Ref} {k : Nat} (hl : plink F r = none) :
    k ∈ tlsOf F r ↔ (∃ P, F.parts[k]? = some P ∧ declares F P r = true) ∨ (r = F.exportsRef ∧ k = 0) := by
  unfold tlsOf
  rw [hl]
  simp only
  rw [List.mem_append, List.mem_filter, List.mem_range]
  constructor
  · rintro (⟨hk, h⟩ | h)
    · left
      cases hp : F.parts[k]? with
      | none => rw [hp] at h; cases h
      | some P => rw [hp] at h; exact ⟨P, rfl, h⟩
    · right
      by_cases he : r = F.exportsRef
      · simp [he] at h; exact ⟨he, h⟩
      · simp [he] at h
  · rintro (⟨P, hp, hd⟩ | ⟨he, hk⟩)
    · left; exact ⟨part_lt hp, by rw [hp]; exact hd⟩
    · right; simp [he, hk]

/-- a symbol with a parser link: the parser's parts that declare the end of its chain -/
theorem mem_tlsOf_alias {F : File} {r r' : Ref} {k : Nat} (hl : plink F r = some r') :
    k ∈ tlsOf F r ↔ ∃ e P, pfollow F F.fuel r = some e ∧ parserPart F k = true ∧ F.parts[k]? = some P ∧
      declares F P e = true := by
  unfold tlsOf
  rw [hl]
  simp only
  cases he : pfollow F F.fuel r with
  | none => simp
  | some e =>
    simp only [List.mem_filter, List.mem_range, Bool.and_eq_true, Option.some.injEq, exists_and_left, exists_eq_left']
    constructor
    · rintro ⟨_, hpp, h⟩
      cases hp : F.parts[k]? with
      | none => rw [hp] at h; cases h
      | some P => rw [hp] at h; exact ⟨hpp, P, rfl, h⟩
    · rintro ⟨hpp, P, hp, hd⟩
      exact ⟨part_lt hp, hpp, by rw [hp]; exact hd⟩

theorem mem_tlsIn {s : State} {g : Nat} {r : Ref} {d : Dep} :
    d ∈ tlsIn s g r ↔ ∃ G, s.file? g = some G ∧ d.src = g ∧ d.part ∈ tlsOf G r := by
  unfold tlsIn
  cases h : s.file? g with
  | none => simp
  | some G =>
    simp only [List.mem_map, Option.some.injEq, exists_eq_left']
    constructor
    · rintro ⟨q, hq, rfl⟩; exact ⟨rfl, hq⟩
    · rintro ⟨h1, h2⟩; exact ⟨d.part, h2, by cases d; simp_all⟩

theorem declares_iff {F : File} {P : Part} {r : Ref} :
    declares F P r = true ↔ ∃ d ∈ P.decls, d.top = true ∧ pfollow F F.fuel d.ref = some r := by
  unfold declares
  simp [List.any_eq_true]

-- ---------------------------------------------------------------- the four sources of edges

theorem mem_localDeps {s : State} {F : File} {P : Part} {d : Dep} :
    d ∈ localDeps s F P ↔ ∃ r ∈ P.uses, constSkip s F r = false ∧ d.src = F.src ∧ d.part ∈ tlsOf F r := by
  unfold localDeps
  simp only [List.mem_flatMap]
  constructor
  · rintro ⟨r, hr, h⟩
    cases hc : constSkip s F r with
    | true => simp [hc] at h
    | false =>
      simp only [hc, Bool.false_eq_true, ↓reduceIte, List.mem_map] at h
      obtain ⟨q, hq, rfl⟩ := h
      exact ⟨r, hr, hc, rfl, hq⟩
  · rintro ⟨r, hr, hc, h1, h2⟩
    refine ⟨r, hr, ?_⟩
    simp only [hc, Bool.false_eq_true, ↓reduceIte, List.mem_map]
    exact ⟨d.part, h2, by cases d; simp_all⟩

theorem mem_lpu {s : State} {F : File} {k : Ref} {q : Nat} :
    q ∈ localPartsWithUses s F k ↔
      F.nimps.contains k = true ∧ ∃ P, F.parts[q]? = some P ∧ k ∈ P.uses ∧ constSkip s F k = false := by
  unfold localPartsWithUses
  cases hn : F.nimps.contains k with
  | false => simp
  | true =>
    simp only [↓reduceIte, List.mem_filter, List.mem_range, true_and]
    constructor
    · rintro ⟨_, h⟩
      cases hp : F.parts[q]? with
      | none => rw [hp] at h; cases h
      | some P =>
        rw [hp] at h
        simp only [Bool.and_eq_true, List.contains_iff_mem, Bool.not_eq_true'] at h
        exact ⟨P, rfl, h.1, h.2⟩
    · rintro ⟨P, hp, hu, hc⟩
      have hk : q < F.parts.length := by
        rcases Nat.lt_or_ge q F.parts.length with h | h
        · exact h
        · rw [List.getElem?_eq_none h] at hp; cases hp
      refine ⟨hk, ?_⟩
      rw [hp]; simp [hu, hc]

theorem mem_bindDeps {s : State} {F : File} {q : Nat} {d : Dep} :
    d ∈ bindDeps s F q ↔ ∃ b ∈ F.binds, q ∈ localPartsWithUses s F b.key ∧ (d ∈ tlsIn s b.src b.ref ∨ d ∈ b.rx) := by
  unfold bindDeps
  simp only [List.mem_flatMap]
  constructor
  · rintro ⟨b, hb, h⟩
    split at h
    · rename_i hc
      exact ⟨b, hb, List.contains_iff_mem.mp hc, List.mem_append.mp h⟩
    · cases h
  · rintro ⟨b, hb, hq, h⟩
    refine ⟨b, hb, ?_⟩
    rw [if_pos (List.contains_iff_mem.mpr hq)]
    exact List.mem_append.mpr h

theorem mem_genDeps {s : State} {F : File} {q : Nat} {P : Part} {d : Dep} :
    d ∈ genDeps s F q P ↔ ∃ g ∈ gens s F q P, d ∈ tlsIn s g.src g.ref := by
  unfold genDeps; simp [List.mem_flatMap]

theorem mem_deps {s : State} {F : File} {q : Nat} {P : Part} {d : Dep} :
    d ∈ deps s F q P ↔ d ∈ baseDeps s F q ∨ d ∈ localDeps s F P ∨ d ∈ bindDeps s F q ∨ d ∈ genDeps s F q P := by
  unfold deps; simp [List.mem_append]

-- ---------------------------------------------------------------- projections of `wf`

structure WfFile (s : State) (F : File) : Prop where
  shape : File.shapeOk s F = true
  genBinds : File.genBindsOk s F = true
  otherBinds : File.otherBindsOk F = true
  foreignUses : File.foreignUsesOk s F = true
  rx : File.rxOk s F = true
  wrapper : File.wrapperOk F = true
  linkerUses : File.linkerUsesOk s F = true
  links : File.linksOk s F = true

theorem wf_nodup {s : State} (h : wf s = true) : (s.files.map (·.src)).Nodup := by
  unfold wf at h
  simp only [Bool.and_eq_true, decide_eq_true_eq] at h
  exact h.2

theorem wf_rt {s : State} (h : wf s = true) : rtOk s = true := by
  unfold wf at h
  simp only [Bool.and_eq_true] at h
  exact h.1.1.2

theorem wf_file {s : State} (h : wf s = true) {F : File} (hF : F ∈ s.files) : WfFile s F := by
  unfold wf at h
  simp only [Bool.and_eq_true, List.all_eq_true] at h
  have := h.1.2 F hF
  unfold File.wf at this
  simp only [Bool.and_eq_true] at this
  obtain ⟨⟨⟨⟨⟨⟨⟨h1, h2⟩, h3⟩, h4⟩, h5⟩, h6⟩, h7⟩, h8⟩ := this
  exact ⟨h1, h2, h3, h4, h5, h6, h7, h8⟩

theorem wf_file? {s : State} (h : wf s = true) {F : File} (hF : F ∈ s.files) : s.file? F.src = some F :=
  file?_of_mem (wf_nodup h) hF

structure ShapeFacts (s : State) (F : File) : Prop where
  exportsSrc : F.exportsRef.src = F.src
  wrapperSrc : F.wrapperRef.src = F.src
  exportsCanon : plink F F.exportsRef = none
  callLocal : ∀ P ∈ F.parts, ∀ cu ∈ P.callUses, cu.ref.src = F.src
  nimpLocal : ∀ k ∈ F.nimps, k.src = F.src
  bindSrc : ∀ b ∈ F.binds, b.ref.src = b.src
  rxRange : ∀ b ∈ F.binds, ∀ d ∈ b.rx, Dep.inRange s d = true
  exportSrc : ∀ e ∈ F.exports, e.2.src = e.1
  entryLt : ∀ e, F.entryPart = some e → e < F.parts.length
  wrapperLt : ∀ w, F.wrapperPart = some w → w < F.parts.length

theorem shapeFacts {s : State} {F : File} (h : File.shapeOk s F = true) : ShapeFacts s F := by
  unfold File.shapeOk at h
  simp only [Bool.and_eq_true, List.all_eq_true, beq_iff_eq] at h
  obtain ⟨⟨⟨⟨⟨⟨⟨⟨⟨⟨⟨⟨_, _⟩, hw⟩, he⟩, _⟩, h6⟩, _⟩, h8⟩, hx⟩, h9⟩, h10⟩, h11⟩, h12⟩ := h
  refine ⟨h6, h8, by simpa using hx, fun P hP cu hcu => (h9 P hP).2 cu hcu, h10, fun b hb => (h11 b hb).1, fun b hb => (h11 b hb).2, h12, ?_, ?_⟩
  · intro e hE; rw [hE] at he; simpa using he
  · intro w hW; rw [hW] at hw; simpa using hw

-- ---------------------------------------------------------------- generated uses name symbols of the file they are imported from

theorem target_file {s : State} {r : Rec} {o : File} (h : r.target.bind s.file? = some o) : o ∈ s.files := by
  cases ht : r.target with
  | none => rw [ht] at h; cases h
  | some t => rw [ht] at h; exact (file?_some h).1

theorem recGens_src {s : State} (hw : wf s = true) {r : Rec} {g : Gen} (hg : g ∈ recGens s r) : g.src = g.ref.src := by
  unfold recGens at hg
  split at hg
  · cases hg
  · split at hg
    · rename_i o ho
      have so := shapeFacts (wf_file hw (target_file ho)).shape
      split at hg
      · rcases List.mem_append.mp hg with h | h
        · simp only [List.mem_singleton] at h; subst h; exact so.wrapperSrc.symm
        · split at h
          · simp only [List.mem_singleton] at h; subst h; exact so.exportsSrc.symm
          · cases h
      · split at hg
        · simp only [List.mem_singleton] at hg; subst hg; exact so.exportsSrc.symm
        · cases hg
    · cases hg

theorem starGens_src {s : State} (hw : wf s = true) {F : File} (hF : F ∈ s.files) {g : Gen} (hg : g ∈ starGens s F) :
    g.src = g.ref.src := by
  have sf := shapeFacts (wf_file hw hF).shape
  have rt := wf_rt hw
  unfold rtOk at rt
  simp only [Bool.and_eq_true, beq_iff_eq] at rt
  unfold starGens at hg
  rcases List.mem_append.mp hg with h | h
  · obtain ⟨r, _, h⟩ := List.mem_flatMap.mp h
    rcases List.mem_append.mp h with h | h
    · split at h
      · rename_i o ho
        have so := shapeFacts (wf_file hw (target_file ho)).shape
        split at h
        · simp only [List.mem_singleton] at h; subst h; exact so.exportsSrc.symm
        · cases h
      · cases h
    · split at h
      · simp only [List.mem_singleton] at h; subst h; exact sf.exportsSrc.symm
      · cases h
  · split at h
    · simp only [List.mem_singleton] at h; subst h; exact rt.1.1.1.2.symm
    · cases h

theorem gens_src {s : State} (hw : wf s = true) {F : File} (hF : F ∈ s.files) {q : Nat} {P : Part} {g : Gen}
    (hg : g ∈ gens s F q P) : g.src = g.ref.src := by
  have rt := wf_rt hw
  unfold rtOk at rt
  simp only [Bool.and_eq_true, beq_iff_eq] at rt
  obtain ⟨⟨⟨⟨⟨⟨r1, r2⟩, r3⟩, _⟩, r5⟩, r6⟩, r7⟩ := rt
  unfold gens at hg
  simp only [List.mem_append] at hg
  rcases hg with ((((((h | h) | h) | h) | h) | h) | h) | h
  · obtain ⟨r, _, h⟩ := List.mem_flatMap.mp h
    exact recGens_src hw h
  · split at h
    · simp only [List.mem_singleton] at h; subst h; exact r1.symm
    · cases h
  · split at h
    · simp only [List.mem_singleton] at h; subst h; exact r2.symm
    · cases h
  · split at h
    · simp only [List.mem_singleton] at h; subst h; exact r3.symm
    · cases h
  · exact starGens_src hw hF h
  · split at h
    · simp only [List.mem_singleton] at h; subst h; exact r5.symm
    · cases h
  · split at h
    · split at h
      · simp only [List.mem_singleton] at h; subst h; exact r6.symm
      · split at h
        · simp only [List.mem_singleton] at h; subst h; exact r7.symm
        · cases h
    · cases h
  · split at h
    · simp only [List.mem_singleton] at h; subst h; exact r2.symm
    · cases h

-- ---------------------------------------------------------------- global part numbers (for the composition with Impl/Shake.lean)

/-- number of parts in the files before the file with source index `g` -/
def offsetOf : List File → Nat → Option Nat
  | [], _ => none
  | f :: fs, g => if f.src == g then some 0 else (offsetOf fs g).map (· + f.parts.length)

/-- the number of part `q` of file `g` when all parts are listed file by file (the numbering of Impl/Shake.lean) -/
def gidx (s : State) (g q : Nat) : Option Nat := (offsetOf s.files g).map (· + q)

def numbered {α : Type} : Nat → List α → List (Nat × α)
  | _, [] => []
  | n, a :: as => (n, a) :: numbered (n + 1) as

theorem length_numbered {α : Type} : ∀ (n : Nat) (l : List α), (numbered n l).length = l.length
  | _, [] => rfl
  | n, _ :: as => by simp [numbered, length_numbered (n + 1) as]

theorem getElem?_numbered {α : Type} : ∀ (n : Nat) (l : List α) (q : Nat),
    (numbered n l)[q]? = (l[q]?).map (fun a => (n + q, a))
  | _, [], _ => by simp [numbered]
  | n, a :: as, 0 => by simp [numbered]
  | n, a :: as, q + 1 => by
    simp only [numbered, List.getElem?_cons_succ]
    rw [getElem?_numbered (n + 1) as q]
    congr 1; funext a; congr 1; omega

/-- the tree-shaking state whose parts are the parts of the linker state, file by file, with the edges the linker
computes; everything the edges do not determine (flags, statement imports, files, entry points) comes from `base` / `tpl` -/
def toShake (s : State) (base : Shake.S) (tpl : Nat → Nat → Shake.Part) : Shake.S :=
  { base with parts := s.files.flatMap (fun F => (numbered 0 F.parts).map (fun qp =>
      { tpl F.src qp.1 with deps := (deps s F qp.1 qp.2).filterMap (fun d => gidx s d.src d.part) })) }

theorem offsetOf_some_of_find : ∀ (l : List File) (g : Nat) (F : File), l.find? (fun f => f.src == g) = some F →
    ∃ o, offsetOf l g = some o
  | [], _, _, h => by cases h
  | G :: rest, g, F, h => by
    unfold offsetOf
    by_cases hg : (G.src == g) = true
    · exact ⟨0, by simp [hg]⟩
    · have hg' : (G.src == g) = false := by simpa using hg
      rw [List.find?_cons, hg'] at h
      obtain ⟨o, ho⟩ := offsetOf_some_of_find rest g F h
      exact ⟨o + G.parts.length, by simp [hg', ho]⟩

theorem getElem?_flatMap_offset {β : Type} (f : File → List β) (hlen : ∀ F, (f F).length = F.parts.length) :
    ∀ (l : List File) (g : Nat) (F : File) (o q : Nat), l.find? (fun f => f.src == g) = some F → offsetOf l g = some o →
      q < F.parts.length → (l.flatMap f)[o + q]? = (f F)[q]?
  | [], _, _, _, _, h, _, _ => by cases h
  | G :: rest, g, F, o, q, h, ho, hq => by
    rw [List.flatMap_cons]
    unfold offsetOf at ho
    by_cases hg : (G.src == g) = true
    · rw [List.find?_cons, hg] at h
      simp only [hg, ↓reduceIte, Option.some.injEq] at ho
      cases h; subst ho
      rw [Nat.zero_add, List.getElem?_append_left (by rw [hlen]; exact hq)]
    · have hg' : (G.src == g) = false := by simpa using hg
      rw [List.find?_cons, hg'] at h
      simp only [hg', Bool.false_eq_true, ↓reduceIte, Option.map_eq_some_iff] at ho
      obtain ⟨o', ho', rfl⟩ := ho
      rw [List.getElem?_append_right (by rw [hlen]; omega), hlen]
      have : o' + G.parts.length + q - G.parts.length = o' + q := by omega
      rw [this]
      exact getElem?_flatMap_offset f hlen rest g F o' q h ho' hq

end EsbuildModel.PartDeps
