import EsbuildModel.Lemmas.StdioTotal
/-!
Fuel independence of the decoder model: once the fuel is enough for a result other than `outOfFuel`, more fuel
gives the same result. Together with `visit_good` this makes `decodePacket` independent of the fuel formula.
-/
namespace EsbuildModel.Stdio

theorem visit_mono_step (f : Nat)
    (hA : ∀ c bs, visitArr f c bs ≠ .outOfFuel → visitArr (f + 1) c bs = visitArr f c bs)
    (hM : ∀ c bs, visitMap f c bs ≠ .outOfFuel → visitMap (f + 1) c bs = visitMap f c bs)
    (bs : Bytes) (h : visit (f + 1) bs ≠ .outOfFuel) : visit (f + 2) bs = visit (f + 1) bs := by
  cases bs with
  | nil => rfl
  | cons kind bs =>
    simp only [visit] at h ⊢
    split at h
    · rfl
    · rfl
    · rfl
    · rfl
    · rfl
    · split at h
      · rfl
      · rename_i count next hr
        by_cases hx : visitArr f count next = .outOfFuel
        · simp [hx] at h
        · rw [hA _ _ hx]
    · split at h
      · rfl
      · rename_i count next hr
        by_cases hx : visitMap f count next = .outOfFuel
        · simp [hx] at h
        · rw [hM _ _ hx]
    · rfl

theorem visitArr_mono_step (f : Nat)
    (hV : ∀ bs, visit f bs ≠ .outOfFuel → visit (f + 1) bs = visit f bs)
    (hA : ∀ c bs, visitArr f c bs ≠ .outOfFuel → visitArr (f + 1) c bs = visitArr f c bs)
    (c : Nat) (bs : Bytes) (h : visitArr (f + 1) c bs ≠ .outOfFuel) :
    visitArr (f + 2) c bs = visitArr (f + 1) c bs := by
  cases c with
  | zero => simp [visitArr]
  | succ c =>
    simp only [visitArr] at h ⊢
    by_cases hx : visit f bs = .outOfFuel
    · simp [hx] at h
    · rw [hV _ hx]
      split
      · rename_i item rest heq
        rw [heq] at h
        simp only at h
        by_cases hy : visitArr f c rest = .outOfFuel
        · simp [hy] at h
        · rw [hA _ _ hy]
      · rfl
      · rfl
      · rfl

theorem visitMap_mono_step (f : Nat)
    (hV : ∀ bs, visit f bs ≠ .outOfFuel → visit (f + 1) bs = visit f bs)
    (hM : ∀ c bs, visitMap f c bs ≠ .outOfFuel → visitMap (f + 1) c bs = visitMap f c bs)
    (c : Nat) (bs : Bytes) (h : visitMap (f + 1) c bs ≠ .outOfFuel) :
    visitMap (f + 2) c bs = visitMap (f + 1) c bs := by
  cases c with
  | zero => simp [visitMap]
  | succ c =>
    simp only [visitMap] at h ⊢
    split
    · rfl
    · rename_i key next hk
      rw [hk] at h
      simp only at h
      by_cases hx : visit f next = .outOfFuel
      · simp [hx] at h
      · rw [hV _ hx]
        split
        · rename_i item rest heq
          rw [heq] at h
          simp only at h
          by_cases hy : visitMap f c rest = .outOfFuel
          · simp [hy] at h
          · rw [hM _ _ hy]
        · rfl
        · rfl
        · rfl

theorem visit_mono_all : ∀ f,
    (∀ bs, visit f bs ≠ .outOfFuel → visit (f + 1) bs = visit f bs) ∧
    (∀ c bs, visitArr f c bs ≠ .outOfFuel → visitArr (f + 1) c bs = visitArr f c bs) ∧
    (∀ c bs, visitMap f c bs ≠ .outOfFuel → visitMap (f + 1) c bs = visitMap f c bs)
  | 0 =>
    ⟨fun bs h => by simp [visit] at h,
     fun c bs h => by cases c <;> simp_all [visitArr],
     fun c bs h => by cases c <;> simp_all [visitMap]⟩
  | f + 1 =>
    have ih := visit_mono_all f
    ⟨visit_mono_step f ih.2.1 ih.2.2, visitArr_mono_step f ih.1 ih.2.1, visitMap_mono_step f ih.1 ih.2.2⟩

theorem visit_mono (bs : Bytes) (f k : Nat) (h : visit f bs ≠ .outOfFuel) : visit (f + k) bs = visit f bs := by
  induction k with
  | zero => rfl
  | succ k ih =>
    have h' : visit (f + k) bs ≠ .outOfFuel := by rw [ih]; exact h
    rw [← Nat.add_assoc, (visit_mono_all (f + k)).1 bs h', ih]

/-- any fuel ≥ `2 * len + 1` gives the same result as exactly `2 * len + 1` -/
theorem visit_fuel_irrelevant (bs : Bytes) (fuel : Nat) (h : 2 * bs.length + 1 ≤ fuel) :
    visit fuel bs = visit (2 * bs.length + 1) bs := by
  have hg := (visit_good bs (2 * bs.length + 1) (Nat.le_refl _)).1
  have := visit_mono bs (2 * bs.length + 1) (fuel - (2 * bs.length + 1)) hg
  rwa [show 2 * bs.length + 1 + (fuel - (2 * bs.length + 1)) = fuel by omega] at this

end EsbuildModel.Stdio
