import EsbuildModel.Lemmas.GlobImport
/-
ParseGlobPattern followed by the regexp loop of ResolveGlob renders the tokens of the specified glob dialect
(Spec/Glob.lean) with `?` read as an ordinary character — for patterns without a backslash.
-/
namespace EsbuildModel.Glob
open EsbuildModel.Spec.Glob (Tok tokOf)

theorem pgp_unfold (text : List Nat) :
    parseGlobPattern text =
      match text.dropWhile (· != 42) with
      | [] => [{ pre := text, wild := .none }]
      | _ :: afterFirst =>
        { pre := text.takeWhile (· != 42),
          wild := if decide (1 + (afterFirst.takeWhile (· == 42)).length > 1) &&
                      boundaryBefore (text.takeWhile (· != 42)) && boundaryAfter (afterFirst.dropWhile (· == 42))
                  then Wild.withSlash else Wild.noSlash } :: parseGlobPattern (afterFirst.dropWhile (· == 42)) := by
  rw [parseGlobPattern]
  split <;> simp_all

theorem Q_tokOf (c : Nat) : ofSpecTokQ (tokOf c) = CTok.lit c := by
  unfold tokOf
  split
  · rename_i h; subst h; rfl
  · rfl

theorem lex_cons0 (b : Bool) (c : Nat) (t : List Nat) (h : c ≠ 42) :
    EsbuildModel.Spec.Glob.lex b 0 (c :: t) = tokOf c :: EsbuildModel.Spec.Glob.lex (decide (c = 47)) 0 t := by
  rw [EsbuildModel.Spec.Glob.lex]; simp [h]

/-- where a segment starts after a star-free prefix -/
def segAfter (b : Bool) (pre : List Nat) : Bool :=
  match pre.getLast? with
  | none => b
  | some p => p == 47

theorem lex_nostar_prefix (pre rest : List Nat) (h : ∀ c ∈ pre, c ≠ 42) : ∀ b,
    (EsbuildModel.Spec.Glob.lex b 0 (pre ++ rest)).map ofSpecTokQ
      = pre.map CTok.lit ++ (EsbuildModel.Spec.Glob.lex (segAfter b pre) 0 rest).map ofSpecTokQ := by
  induction pre with
  | nil => intro b; rfl
  | cons c pre ih =>
    intro b
    rw [List.cons_append, lex_cons0 _ _ _ (h c (by simp)), List.map_cons, Q_tokOf,
      ih (fun x hx => h x (List.mem_cons_of_mem _ hx))]
    have : segAfter (decide (c = 47)) pre = segAfter b (c :: pre) := by
      cases pre with
      | nil => rw [Bool.eq_iff_iff]; simp [segAfter]
      | cons d pre =>
        cases hl : (d :: pre).getLast? with
        | none => simp at hl
        | some z => simp [segAfter, List.getLast?_cons_cons, hl]
    rw [this]
    rfl

theorem lex_nostar (t : List Nat) (h : ∀ c ∈ t, c ≠ 42) (b : Bool) :
    (EsbuildModel.Spec.Glob.lex b 0 t).map ofSpecTokQ = t.map CTok.lit := by
  have := lex_nostar_prefix t [] h b
  rw [List.append_nil] at this
  rw [this, lex_nil0]
  simp

theorem takeWhile_nostar (text : List Nat) : ∀ c ∈ text.takeWhile (· != 42), c ≠ 42 := by
  intro c hc
  have := mem_takeWhile_imp _ _ _ hc
  simpa using this

theorem dropWhile_head_star (text : List Nat) (x : Nat) (l : List Nat) (h : text.dropWhile (· != 42) = x :: l) : x = 42 := by
  have := List.head_dropWhile_not (· != 42) (l := text) (by rw [h]; simp)
  simp only [h, List.head_cons] at this
  simpa using this

theorem partsToks_single (wgs : Bool) (t : List Nat) :
    partsToks wgs [{ pre := t, wild := .none }] = (stripAfterGlobStar wgs t).map CTok.lit := by
  simp [partsToks]

theorem pgp_nil : parseGlobPattern [] = [{ pre := [], wild := .none }] := by
  rw [pgp_unfold]; rfl

/-- after a globstar the slash that follows is dropped: the same as starting afresh behind it -/
theorem partsToks_after_globstar (p : List Nat) :
    partsToks true (parseGlobPattern (47 :: p)) = partsToks false (parseGlobPattern p) := by
  rw [pgp_unfold (47 :: p), pgp_unfold p]
  have hd : (47 :: p).dropWhile (· != 42) = p.dropWhile (· != 42) := by simp
  have ht : (47 :: p).takeWhile (· != 42) = 47 :: p.takeWhile (· != 42) := by simp
  rw [hd, ht]
  cases hdw : p.dropWhile (· != 42) with
  | nil =>
    simp only [partsToks_single, strip_false]
    simp [stripAfterGlobStar, isSlashOrBackslash]
  | cons x afterFirst =>
    have hb : boundaryBefore (47 :: p.takeWhile (· != 42)) = boundaryBefore (p.takeWhile (· != 42)) := by
      cases htw : p.takeWhile (· != 42) with
      | nil => simp [boundaryBefore, isSlashOrBackslash]
      | cons y ys => simp [boundaryBefore, List.getLast?_cons_cons]
    simp only [hb]
    cases hG : (decide (1 + (afterFirst.takeWhile (· == 42)).length > 1) &&
        boundaryBefore (p.takeWhile (· != 42)) && boundaryAfter (afterFirst.dropWhile (· == 42))) with
    | true =>
      simp only [if_true]
      rw [partsToks, partsToks, strip_false]
      simp [stripAfterGlobStar, isSlashOrBackslash]
    | false =>
      simp only [Bool.false_eq_true, if_false]
      rw [partsToks, partsToks, strip_false]
      simp [stripAfterGlobStar, isSlashOrBackslash]

theorem boundaryBefore_eq (tw : List Nat) (h92 : 92 ∉ tw) (b : Bool) (hb : tw = [] → b = true) :
    boundaryBefore tw = segAfter b tw := by
  unfold boundaryBefore segAfter
  cases hl : tw.getLast? with
  | none =>
    have : tw = [] := by simpa using hl
    simp [hb this]
  | some z =>
    have hz : z ≠ 92 := fun h => h92 (h ▸ List.mem_of_getLast? hl)
    simp only [isSlashOrBackslash]
    rw [Bool.eq_iff_iff]; simp [hz]

/-- **entry-point globs**: ParseGlobPattern + the regexp loop render the spec tokens (with `?` literal) -/
theorem entry_toks : ∀ n text, text.length ≤ n → 92 ∉ text → ∀ b, (text.head? ≠ some 42 ∨ b = true) →
    partsToks false (parseGlobPattern text) = (EsbuildModel.Spec.Glob.lex b 0 text).map ofSpecTokQ := by
  intro n
  induction n with
  | zero =>
    intro text hlen _ b _
    have : text = [] := List.length_eq_zero_iff.mp (by omega)
    subst this
    rw [pgp_nil, partsToks_single, lex_nil0]; rfl
  | succ n ih =>
    intro text hlen h92 b hpre
    rw [pgp_unfold]
    have hsplit := List.takeWhile_append_dropWhile (p := (· != 42)) (l := text)
    cases hdw : text.dropWhile (· != 42) with
    | nil =>
      rw [hdw, List.append_nil] at hsplit
      simp only [partsToks_single, strip_false]
      rw [lex_nostar text (by rw [← hsplit]; exact takeWhile_nostar text) b]
    | cons x afterFirst =>
      have hx := dropWhile_head_star text x afterFirst hdw
      subst hx
      rw [hdw] at hsplit
      simp only
      generalize htw : text.takeWhile (· != 42) = tw at hsplit
      have htwns : ∀ c ∈ tw, c ≠ 42 := by rw [← htw]; exact takeWhile_nostar text
      have h92tw : 92 ∉ tw := fun h => h92 (by rw [← hsplit]; simp [h])
      have h92af : 92 ∉ afterFirst := fun h => h92 (by rw [← hsplit]; simp [h])
      -- the specification side
      have hspec : (EsbuildModel.Spec.Glob.lex b 0 text).map ofSpecTokQ
          = tw.map CTok.lit ++ (EsbuildModel.Spec.Glob.lex (segAfter b tw) (starsLen afterFirst + 1)
              (afterFirst.dropWhile (· == 42))).map ofSpecTokQ := by
        rw [← hsplit, lex_nostar_prefix tw _ htwns b]
        congr 2
        rw [EsbuildModel.Spec.Glob.lex]
        simp only [if_true]
        rw [lex_stars]
        congr 1; omega
      rw [hspec]
      have hbb : boundaryBefore tw = segAfter b tw := by
        apply boundaryBefore_eq tw h92tw b
        intro htwnil
        rcases hpre with hpre | hpre
        · exfalso; apply hpre; rw [← hsplit, htwnil]; rfl
        · exact hpre
      rw [hbb]
      have hcount : decide (1 + (afterFirst.takeWhile (· == 42)).length > 1) = decide (starsLen afterFirst + 1 ≥ 2) := by
        rw [Bool.eq_iff_iff, decide_eq_true_eq, decide_eq_true_eq]; unfold starsLen; omega
      rw [hcount]
      generalize starsLen afterFirst = m
      have hlenrest : (afterFirst.dropWhile (· == 42)).length < text.length := by
        have h2 := (List.dropWhile_sublist (l := afterFirst) (· == 42)).length_le
        rw [← hsplit]; simp; omega
      have hnot42 := head_dropWhile_star afterFirst
      have h92rest : 92 ∉ afterFirst.dropWhile (· == 42) :=
        fun h => h92af ((List.dropWhile_sublist (· == 42)).subset h)
      generalize afterFirst.dropWhile (· == 42) = rest at hlenrest hnot42 h92rest
      rw [partsToks, strip_false]
      congr 1
      cases rest with
      | nil =>
        rw [lex_pending_nil]
        simp only [boundaryAfter, List.head?_nil, Bool.and_true]
        cases hg : (decide (m + 1 ≥ 2) && segAfter b tw) with
        | true =>
          have : (segAfter b tw && decide (m + 1 ≥ 2)) = true := by rw [Bool.and_comm]; exact hg
          simp only [if_true, this, pgp_nil, partsToks_single]
          rfl
        | false =>
          have : (segAfter b tw && decide (m + 1 ≥ 2)) = false := by rw [Bool.and_comm]; exact hg
          simp only [Bool.false_eq_true, if_false, this, pgp_nil, partsToks_single, strip_false]
          rfl
      | cons c p =>
        have hc42 : c ≠ 42 := by simpa using hnot42
        have hc92 : c ≠ 92 := fun h => h92rest (by simp [h])
        rw [lex_pending_cons _ _ _ _ hc42]
        have hba : boundaryAfter (c :: p) = decide (c = 47) := by
          rw [Bool.eq_iff_iff]; simp [boundaryAfter, isSlashOrBackslash, hc92]
        rw [hba]
        cases hg : (decide (m + 1 ≥ 2) && segAfter b tw && decide (c = 47)) with
        | true =>
          have hg' : (segAfter b tw && decide (m + 1 ≥ 2) && decide (c = 47)) = true := by
            rw [Bool.and_comm (segAfter b tw)]; exact hg
          have hc47 : c = 47 := by
            simp only [Bool.and_eq_true, decide_eq_true_eq] at hg; exact hg.2
          simp only [if_true, hg']
          subst hc47
          rw [partsToks_after_globstar]
          rw [ih p (by simp at hlenrest; omega) (fun h => h92rest (List.mem_cons_of_mem _ h)) true (Or.inr rfl)]
          rfl
        | false =>
          have hg' : (segAfter b tw && decide (m + 1 ≥ 2) && decide (c = 47)) = false := by
            rw [Bool.and_comm (segAfter b tw)]; exact hg
          simp only [Bool.false_eq_true, if_false, hg']
          rw [ih (c :: p) (by omega) h92rest false (Or.inl (by simpa using hc42))]
          rw [lex_cons0 _ _ _ hc42]
          rfl
