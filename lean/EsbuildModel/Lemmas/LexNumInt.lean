import EsbuildModel.Lemmas.LexNumLoops
namespace EsbuildModel.LexNum
open EsbuildModel.Spec.Num EsbuildModel.Spec.NumLit

/-- which digit values the integer loop accepts -/
def digitOK (base : Nat) (legacy : Bool) (d : Nat) : Bool :=
  if d < 2 then true else if d < 8 then base != 2 else if d < 10 then legacy || !decide (base < 10) else base == 16

def d89 (d : Nat) : Bool := decide (8 ≤ d) && decide (d < 10)

theorem intLoop_cons (P : Params) (base : Nat) (legacy : Bool) (c : Char) (cs : List Char) (st : St)
    (isFirst inv : Bool) (x : F64) :
    intLoop P base legacy (c :: cs) st isFirst inv x =
      if c = '_' then
        (if st.prevUS || isFirst || legacy then .error st.end_ else intLoop P base legacy cs st.us.step false inv x)
      else match hexValOf c with
        | some d =>
          if digitOK base legacy d then
            intLoop P base legacy cs st.step false (inv || (legacy && d89 d)) (accStep P x base d)
          else .error st.end_
        | none => if isFirst then .error st.end_ else .ok (c :: cs, st, inv, x) := by
  rw [intLoop]
  by_cases hc : c = '_'
  · simp only [hc, if_true]
    cases st.prevUS <;> cases isFirst <;> cases legacy <;> simp
  · simp only [hc, if_false]
    cases hexValOf c with
    | none => rfl
    | some d =>
      simp only [digitOK, d89]
      by_cases h2 : d < 2
      · have : ¬ 8 ≤ d := by omega
        simp [h2, this]
      · by_cases h8 : d < 8
        · have : ¬ 8 ≤ d := by omega
          by_cases hb : base = 2 <;> simp [h2, h8, this, hb]
        · by_cases h10 : d < 10
          · have : 8 ≤ d := by omega
            cases legacy <;> by_cases hb : base < 10 <;> simp [h2, h8, h10, this, hb]
          · by_cases hb : base = 16 <;> simp [h2, h8, h10, hb]

/-- the characters the integer loop steps over as digits -/
def intD (base : Nat) (legacy : Bool) (c : Char) : Bool :=
  match hexValOf c with
  | some d => digitOK base legacy d
  | none => false

def isHexC (c : Char) : Bool := (hexValOf c).isSome

def is89 (c : Char) : Bool :=
  match hexValOf c with
  | some d => d89 d
  | none => false

/-- `lexer.Number` after the digits `ds` (separators already removed) -/
def accRun (P : Params) (base : Nat) (x : F64) (ds : List Char) : F64 :=
  ds.foldl (fun x c => accStep P x base ((hexValOf c).getD 0)) x

theorem intD_us (base : Nat) (legacy : Bool) : intD base legacy '_' = false := by
  have : hexValOf '_' = none := by decide
  simp [intD, this]

theorem intLoop_ok {P : Params} {base : Nat} {legacy : Bool} {cs : List Char} {st : St} {isFirst inv : Bool} {x : F64}
    {r : List Char} {st' : St} {inv' : Bool} {x' : F64}
    (hinv : Inv st) (h : intLoop P base legacy cs st isFirst inv x = .ok (r, st', inv', x')) :
    ∃ run, Seg cs st run r st' ∧ runOK (intD base legacy) (st.prevUS || isFirst) run = some st'.prevUS ∧
      (isFirst = true → run ≠ []) ∧ StopAt isHexC r ∧ (legacy = true → ∀ c ∈ run, c ≠ '_') ∧
      inv' = (inv || (legacy && run.any is89)) ∧ x' = accRun P base x (strip run) := by
  induction cs generalizing st isFirst inv x with
  | nil =>
    rw [intLoop] at h
    cases isFirst with
    | true => simp at h
    | false =>
      simp only [Bool.false_eq_true, if_false, Except.ok.injEq, Prod.mk.injEq] at h
      obtain ⟨rfl, rfl, rfl, rfl⟩ := h
      exact ⟨[], ⟨rfl, by simp, hinv, by simp⟩, by simp [runOK], by simp, stopAt_nil _, by simp, by simp,
        by simp [accRun, strip]⟩
  | cons c cs ih =>
    rw [intLoop_cons] at h
    by_cases hc : c = '_'
    · subst hc
      simp only [if_true] at h
      split at h
      · cases h
      · rename_i hcond
        simp only [Bool.or_eq_true, not_or, Bool.not_eq_true] at hcond
        obtain ⟨⟨hp, hf⟩, hl⟩ := hcond
        obtain ⟨run, hseg, hrun, _, hstop, hlus, hinv', hx'⟩ := ih (inv_us_step hinv) h
        rw [prevUS_us_step hinv] at hrun
        refine ⟨'_' :: run, ⟨by rw [hseg.split]; rfl, by rw [hseg.end_]; simp; omega, hseg.inv, ?_⟩, ?_, by simp, hstop,
          (by rw [hl]; intro h; cases h), ?_, ?_⟩
        · rw [hseg.count, List.count_cons]; simp; omega
        · simpa [runOK, intD_us, hp, hf] using hrun
        · rw [hinv', hl]; simp
        · rw [hx', strip_cons_us]
    · simp only [hc, if_false] at h
      cases hv : hexValOf c with
      | none =>
        rw [hv] at h
        cases isFirst with
        | true => simp at h
        | false =>
          simp only [Bool.false_eq_true, if_false, Except.ok.injEq, Prod.mk.injEq] at h
          obtain ⟨rfl, rfl, rfl, rfl⟩ := h
          refine ⟨[], ⟨rfl, by simp, hinv, by simp⟩, by simp [runOK], by simp, ?_, by simp, by simp,
            by simp [accRun, strip]⟩
          intro y r' hy
          cases hy
          exact ⟨by simp [isHexC, hv], hc⟩
      | some d =>
        rw [hv] at h
        simp only at h
        split at h
        · rename_i hok
          obtain ⟨run, hseg, hrun, _, hstop, hlus, hinv', hx'⟩ := ih (inv_step hinv) h
          rw [prevUS_step hinv] at hrun
          have hD : intD base legacy c = true := by simp [intD, hv, hok]
          refine ⟨c :: run, ⟨by rw [hseg.split]; rfl, by rw [hseg.end_]; simp; omega, hseg.inv, ?_⟩, ?_, by simp, hstop,
            ?_, ?_, ?_⟩
          · rw [hseg.count, List.count_cons]; simp [hc]
          · simpa [runOK, hD] using hrun
          · intro hl y hy
            rcases List.mem_cons.1 hy with rfl | hy
            · exact hc
            · exact hlus hl y hy
          · rw [hinv']
            simp only [List.any_cons, is89, hv]
            cases inv <;> cases legacy <;> cases d89 d <;> simp
          · rw [hx', strip_cons_ne hc]
            simp [accRun, hv]
        · cases h

theorem intLoop_complete {P : Params} {base : Nat} {legacy : Bool} {run r : List Char} {st : St}
    {isFirst inv : Bool} {x : F64} {p' : Bool} (hinv : Inv st)
    (hrun : runOK (intD base legacy) (st.prevUS || isFirst) run = some p') (hne : isFirst = true → run ≠ [])
    (hstop : StopAt isHexC r) (hl : legacy = true → ∀ c ∈ run, c ≠ '_') :
    ∃ st', intLoop P base legacy (run ++ r) st isFirst inv x =
        .ok (r, st', inv || (legacy && run.any is89), accRun P base x (strip run)) ∧
      Seg (run ++ r) st run r st' ∧ st'.prevUS = p' := by
  induction run generalizing st isFirst inv x with
  | nil =>
    have hf : isFirst = false := by
      cases isFirst with
      | false => rfl
      | true => exact absurd rfl (hne rfl)
    subst hf
    simp only [runOK, Bool.or_false, Option.some.injEq] at hrun
    refine ⟨st, ?_, ⟨rfl, by simp, hinv, by simp⟩, hrun⟩
    cases r with
    | nil => simp [intLoop, accRun, strip]
    | cons c r' =>
      obtain ⟨h1, h2⟩ := hstop c r' rfl
      have h1 : hexValOf c = none := by simpa [isHexC] using h1
      rw [List.nil_append, intLoop_cons]
      simp [h2, h1, accRun, strip]
  | cons c run ih =>
    simp only [runOK] at hrun
    cases hD : intD base legacy c with
    | true =>
      simp only [hD, if_true] at hrun
      have hc : c ≠ '_' := by rintro rfl; rw [intD_us] at hD; cases hD
      cases hv : hexValOf c with
      | none => simp [intD, hv] at hD
      | some d =>
        have hok : digitOK base legacy d = true := by simpa [intD, hv] using hD
        have hrun' : runOK (intD base legacy) (st.step.prevUS || false) run = some p' := by
          rw [prevUS_step hinv]; exact hrun
        obtain ⟨st', h1, hseg, hp⟩ := ih (x := accStep P x base d) (inv := inv || (legacy && d89 d)) (inv_step hinv) hrun'
          (by simp) (fun h y hy => hl h y (List.mem_cons_of_mem _ hy))
        refine ⟨st', ?_, ⟨rfl, by rw [hseg.end_]; simp; omega, hseg.inv, ?_⟩, hp⟩
        · rw [List.cons_append, intLoop_cons]
          simp only [hc, if_false, hv, hok, if_true, h1]
          congr 4
          · simp only [List.any_cons, is89, hv]
            cases inv <;> cases legacy <;> cases d89 d <;> simp
          · rw [strip_cons_ne hc]; simp [accRun, hv]
        · rw [hseg.count, List.count_cons]; simp [hc]
    | false =>
      simp only [hD] at hrun
      by_cases hc : c = '_'
      · subst hc
        simp only [if_true, Bool.false_eq_true, if_false] at hrun
        cases hp : (st.prevUS || isFirst) with
        | true => simp [hp] at hrun
        | false =>
          simp only [hp, Bool.false_eq_true, if_false] at hrun
          have hl0 : legacy = false := by
            cases legacy with
            | false => rfl
            | true => exact absurd rfl (hl rfl '_' List.mem_cons_self)
          subst hl0
          have hrun' : runOK (intD base false) (st.us.step.prevUS || false) run = some p' := by
            rw [prevUS_us_step hinv]; exact hrun
          obtain ⟨st', h1, hseg, hp'⟩ := ih (x := x) (inv := inv) (inv_us_step hinv) hrun' (by simp) (fun h => by cases h)
          refine ⟨st', ?_, ⟨rfl, by rw [hseg.end_]; simp; omega, hseg.inv, ?_⟩, hp'⟩
          · rw [List.cons_append, intLoop_cons]
            simp only [if_true, hp, Bool.or_false, Bool.false_eq_true, if_false, h1, strip_cons_us]
            simp
          · rw [hseg.count, List.count_cons]; simp; omega
      · simp [hc] at hrun

/-! ### the float64 accumulation -/

/-- what the theorems need of IEEE rounding of integers: exact below 2^53, and at least 2^53 from there on -/
structure RndOK (rnd : Nat → F64) : Prop where
  small : ∀ n, n < 2 ^ 53 → ∃ s m e, rnd n = .fin s m e ∧ F64.truncAbs m e = n
  small_lt : ∀ n, n < 2 ^ 53 → ge53 (rnd n) = false
  large_ge : ∀ n, 2 ^ 53 ≤ n → ge53 (rnd n) = true
  large_trunc : ∀ n, 2 ^ 53 ≤ n → ∀ s m e, rnd n = .fin s m e → 2 ^ 53 ≤ F64.truncAbs m e

/-- `x` is `lexer.Number` when the digits read so far have the exact value `N` -/
def AccInv (rnd : Nat → F64) (x : F64) (N : Nat) : Prop :=
  ∃ n', x = rnd n' ∧ (N < 2 ^ 53 → n' = N) ∧ (2 ^ 53 ≤ N → 2 ^ 53 ≤ n')

theorem accInv_zero (rnd : Nat → F64) : AccInv rnd (rnd 0) 0 := ⟨0, rfl, fun _ => rfl, fun h => h⟩

theorem accStep_inv {P : Params} (hr : RndOK P.rnd) {x : F64} {N : Nat} (h : AccInv P.rnd x N) (base d : Nat)
    (hb : 1 ≤ base) : AccInv P.rnd (accStep P x base d) (N * base + d) := by
  obtain ⟨n', hx, h1, h2⟩ := h
  have hmono : N ≤ N * base := Nat.le_mul_of_pos_right N hb
  by_cases hN : N < 2 ^ 53
  · have := h1 hN
    subst this
    obtain ⟨s, m, e, hfin, ht⟩ := hr.small n' hN
    rw [hx, hfin]
    simp only [accStep, ht]
    exact ⟨n' * base + d, rfl, fun _ => rfl, fun h => h⟩
  · have hN' : 2 ^ 53 ≤ N := Nat.le_of_not_lt hN
    have hn' := h2 hN'
    have hbig : 2 ^ 53 ≤ N * base + d := by omega
    cases hfin : P.rnd n' with
    | nan => rw [hx, hfin]; exact ⟨n', hfin.symm, fun h => by omega, fun _ => hn'⟩
    | inf neg => rw [hx, hfin]; exact ⟨n', hfin.symm, fun h => by omega, fun _ => hn'⟩
    | fin s m e =>
      rw [hx, hfin]
      simp only [accStep]
      have ht := hr.large_trunc n' hn' s m e hfin
      have hmono' : F64.truncAbs m e ≤ F64.truncAbs m e * base := Nat.le_mul_of_pos_right _ hb
      exact ⟨F64.truncAbs m e * base + d, rfl, fun h => by omega, fun _ => by omega⟩

theorem accRun_inv {P : Params} (hr : RndOK P.rnd) (base : Nat) (hb : 1 ≤ base) (ds : List Char) {x : F64} {N : Nat}
    (h : AccInv P.rnd x N) :
    AccInv P.rnd (accRun P base x ds) (ds.foldl (fun a c => a * base + (hexVal? c).getD 0) N) := by
  induction ds generalizing x N with
  | nil => exact h
  | cons c ds ih =>
    simp only [accRun, List.foldl_cons]
    exact ih (accStep_inv hr h base _ hb)

/-- the value after the exact re-conversion above 2^53 -/
theorem acc_final {rnd : Nat → F64} (hr : RndOK rnd) {x : F64} {N : Nat} (h : AccInv rnd x N) :
    (if ge53 x then rnd N else x) = rnd N ∧ (ge53 x = true ↔ 2 ^ 53 ≤ N) := by
  obtain ⟨n', hx, h1, h2⟩ := h
  by_cases hN : N < 2 ^ 53
  · have := h1 hN
    subst this
    have := hr.small_lt n' hN
    rw [hx, this]
    simp; omega
  · have hN' : 2 ^ 53 ≤ N := Nat.le_of_not_lt hN
    have := hr.large_ge n' (h2 hN')
    rw [hx, this]
    simp [hN']

theorem parseRadix_go {base : Nat} (ds : List Char) (a : Nat)
    (h : ∀ c ∈ ds, ∃ d, hexValOf c = some d ∧ d < base) :
    parseRadix.go base ds a = some (ds.foldl (fun a c => a * base + (hexVal? c).getD 0) a) := by
  induction ds generalizing a with
  | nil => rfl
  | cons c ds ih =>
    obtain ⟨d, hd, hlt⟩ := h c List.mem_cons_self
    simp only [parseRadix.go, hd, hlt, if_true, List.foldl_cons]
    rw [ih _ (fun y hy => h y (List.mem_cons_of_mem _ hy))]
    rw [← hexValOf_eq, hd]; rfl

theorem parseRadix_eq {base : Nat} {ds : List Char} (hne : ds ≠ [])
    (h : ∀ c ∈ ds, ∃ d, hexValOf c = some d ∧ d < base) : parseRadix base ds = some (radixMV base ds) := by
  cases ds with
  | nil => exact absurd rfl hne
  | cons c cs => simp only [parseRadix]; exact parseRadix_go _ 0 h

end EsbuildModel.LexNum
