import EsbuildModel.Impl.MetaImports
/-
Helper lemmas for Props/C19MetaImports.lean: `mapM` in `Option`, the order `strLe` and `sortStrs`, `substKeys`.
-/
namespace EsbuildModel.MetaImports

/-! ### `List.mapM` in `Option` -/

theorem mapM_option_cons {α β : Type} (f : α → Option β) (a : α) (l : List α) :
    (a :: l).mapM f = (f a).bind fun b => (l.mapM f).map fun r => b :: r := by
  rw [List.mapM_cons]
  cases f a <;> simp [Option.map]
  rename_i b
  cases l.mapM f <;> rfl

/-- `mapM f l = some r` says exactly that `r` lists the values of `f` along `l`, none of them missing -/
theorem mapM_eq_some_iff {α β : Type} (f : α → Option β) (l : List α) (r : List β) :
    l.mapM f = some r ↔ l.map f = r.map some := by
  induction l generalizing r with
  | nil => cases r <;> simp [List.mapM_nil, pure]
  | cons a t ih =>
    rw [mapM_option_cons]
    cases r with
    | nil =>
      cases f a with
      | none => simp
      | some b => cases t.mapM f <;> simp
    | cons c r' =>
      simp only [List.map_cons, List.cons.injEq]
      rw [← ih r']
      cases f a with
      | none => simp
      | some b => cases t.mapM f <;> simp

theorem mapM_some_length {α β : Type} {f : α → Option β} {l : List α} {r : List β} (h : l.mapM f = some r) :
    r.length = l.length := by
  have := congrArg List.length ((mapM_eq_some_iff f l r).mp h)
  simpa using this.symm

theorem mapM_some_getElem? {α β : Type} {f : α → Option β} {l : List α} {r : List β} (h : l.mapM f = some r) (i : Nat) :
    (l[i]?).bind f = r[i]? := by
  have h1 := (mapM_eq_some_iff f l r).mp h
  have h2 := congrArg (fun m => m[i]?) h1
  simp only [List.getElem?_map] at h2
  cases hl : l[i]? <;> cases hr : r[i]? <;> simp [hl, hr] at h2 ⊢
  exact h2

/-! ### the order on strings -/

theorem strLe_refl : ∀ a : Str, strLe a a = true
  | [] => rfl
  | x :: t => by simp [strLe, strLe_refl t]

theorem strLe_total : ∀ a b : Str, strLe a b = true ∨ strLe b a = true
  | [], _ => Or.inl rfl
  | _ :: _, [] => Or.inr rfl
  | x :: s, y :: t => by
    simp only [strLe, Bool.or_eq_true, decide_eq_true_eq, Bool.and_eq_true, beq_iff_eq]
    rcases Nat.lt_trichotomy x y with h | h | h
    · exact Or.inl (Or.inl h)
    · subst h
      rcases strLe_total s t with h | h
      · exact Or.inl (Or.inr ⟨rfl, h⟩)
      · exact Or.inr (Or.inr ⟨rfl, h⟩)
    · exact Or.inr (Or.inl h)

theorem strLe_trans : ∀ a b c : Str, strLe a b = true → strLe b c = true → strLe a c = true
  | [], _, _, _, _ => by simp [strLe]
  | _ :: _, [], _, h, _ => by simp [strLe] at h
  | _ :: _, _ :: _, [], _, h => by simp [strLe] at h
  | x :: s, y :: t, z :: u, h1, h2 => by
    simp only [strLe, Bool.or_eq_true, decide_eq_true_eq, Bool.and_eq_true, beq_iff_eq] at h1 h2 ⊢
    rcases h1 with h1 | ⟨rfl, h1⟩
    · rcases h2 with h2 | ⟨rfl, _⟩
      · exact Or.inl (Nat.lt_trans h1 h2)
      · exact Or.inl h1
    · rcases h2 with h2 | ⟨rfl, h2⟩
      · exact Or.inl h2
      · exact Or.inr ⟨rfl, strLe_trans s t u h1 h2⟩

theorem strLe_antisymm : ∀ a b : Str, strLe a b = true → strLe b a = true → a = b
  | [], [], _, _ => rfl
  | [], _ :: _, _, h => by simp [strLe] at h
  | _ :: _, [], h, _ => by simp [strLe] at h
  | x :: s, y :: t, h1, h2 => by
    simp only [strLe, Bool.or_eq_true, decide_eq_true_eq, Bool.and_eq_true, beq_iff_eq] at h1 h2
    rcases h1 with h1 | ⟨rfl, h1⟩
    · rcases h2 with h2 | ⟨rfl, _⟩
      · omega
      · omega
    · rcases h2 with h2 | ⟨_, h2⟩
      · omega
      · rw [strLe_antisymm s t h1 h2]

def Sorted (l : List Str) : Prop := l.Pairwise fun a b => strLe a b = true

theorem insertStr_perm (a : Str) : ∀ l : List Str, (insertStr a l).Perm (a :: l)
  | [] => List.Perm.refl _
  | b :: t => by
    unfold insertStr
    split
    · exact List.Perm.refl _
    · exact ((insertStr_perm a t).cons b).trans (List.Perm.swap a b t)

theorem sortStrs_perm : ∀ l : List Str, (sortStrs l).Perm l
  | [] => List.Perm.refl _
  | a :: t => (insertStr_perm a (sortStrs t)).trans ((sortStrs_perm t).cons a)

theorem insertStr_sorted (a : Str) : ∀ l : List Str, Sorted l → Sorted (insertStr a l)
  | [], _ => by simp [insertStr, Sorted]
  | b :: t, h => by
    unfold insertStr
    have hb : ∀ c ∈ t, strLe b c = true := (List.pairwise_cons.mp h).1
    have ht : Sorted t := (List.pairwise_cons.mp h).2
    split
    · rename_i hab
      refine List.pairwise_cons.mpr ⟨?_, h⟩
      intro c hc
      rcases List.mem_cons.mp hc with rfl | hc
      · exact hab
      · exact strLe_trans _ _ _ hab (hb c hc)
    · rename_i hab
      have hba : strLe b a = true := (strLe_total a b).resolve_left hab
      refine List.pairwise_cons.mpr ⟨?_, insertStr_sorted a t ht⟩
      intro c hc
      rcases List.mem_cons.mp ((insertStr_perm a t).subset hc) with rfl | hc
      · exact hba
      · exact hb c hc

theorem sortStrs_sorted : ∀ l : List Str, Sorted (sortStrs l)
  | [] => by simp [sortStrs, Sorted]
  | a :: t => insertStr_sorted a _ (sortStrs_sorted t)

/-- a multiset of strings has only one sorted arrangement -/
theorem sorted_perm_unique : ∀ l₁ l₂ : List Str, Sorted l₁ → Sorted l₂ → l₁.Perm l₂ → l₁ = l₂
  | [], l₂, _, _, p => (List.Perm.nil_eq p)
  | a :: t, [], _, _, p => absurd p.symm.nil_eq (by simp)
  | a :: t, b :: u, h1, h2, p => by
    have ha := List.pairwise_cons.mp h1
    have hb := List.pairwise_cons.mp h2
    have hab : a = b := by
      have h3 : strLe a b = true := by
        rcases List.mem_cons.mp (p.symm.subset (List.mem_cons_self)) with h | h
        · rw [h]; exact strLe_refl _
        · exact ha.1 b h
      have h4 : strLe b a = true := by
        rcases List.mem_cons.mp (p.subset (List.mem_cons_self)) with h | h
        · rw [h]; exact strLe_refl _
        · exact hb.1 a h
      exact strLe_antisymm a b h3 h4
    subst hab
    rw [sorted_perm_unique t u ha.2 hb.2 (List.Perm.cons_inv p)]

/-! ### `substKeys` -/

theorem isPrefix_append (k s : Str) : isPrefix k (k ++ s) = true := by
  induction k with
  | nil => rfl
  | cons a t ih => simp [isPrefix, ih]

theorem isPrefix_iff (k s : Str) : isPrefix k s = true ↔ ∃ r, s = k ++ r := by
  induction k generalizing s with
  | nil => simp [isPrefix]
  | cons a t ih =>
    cases s with
    | nil => simp [isPrefix]
    | cons b u =>
      simp only [isPrefix, Bool.and_eq_true, beq_iff_eq, ih, List.cons_append, List.cons.injEq]
      constructor
      · rintro ⟨rfl, r, rfl⟩; exact ⟨r, rfl, rfl⟩
      · rintro ⟨r, rfl, rfl⟩; exact ⟨rfl, r, rfl⟩

/-- no key of the table starts at any position of `s` -/
def KeyFree (tbl : List (Str × Str)) : Str → Prop
  | [] => True
  | c :: rest => matchKey tbl (c :: rest) = none ∧ KeyFree tbl rest

theorem substGo_keyFree (tbl : List (Str × Str)) : ∀ (n : Nat) (s : Str), KeyFree tbl s → substGo tbl n s = s
  | 0, _, _ => rfl
  | _ + 1, [], _ => rfl
  | n + 1, c :: rest, h => by
    simp only [substGo, h.1]
    rw [substGo_keyFree tbl n rest h.2]

/-- a text that holds no key is left alone -/
theorem substKeys_keyFree (tbl : List (Str × Str)) (s : Str) (h : KeyFree tbl s) : substKeys tbl s = s :=
  substGo_keyFree tbl _ s h

/-- the table maps `k` to `f`, and no entry in front of it has a key that starts `k ++ rest` -/
def FirstMatch : List (Str × Str) → Str → Str → Str → Prop
  | [], _, _, _ => False
  | (k', f') :: tbl, k, f, s =>
    (k' = k ∧ f' = f) ∨ ((k' = [] ∨ isPrefix k' s = false) ∧ FirstMatch tbl k f s)

theorem matchKey_first (tbl : List (Str × Str)) (k f rest : Str) (hk : k ≠ [])
    (h : FirstMatch tbl k f (k ++ rest)) : matchKey tbl (k ++ rest) = some (f, k.length) := by
  induction tbl with
  | nil => exact absurd h (by simp [FirstMatch])
  | cons e tbl ih =>
    obtain ⟨k', f'⟩ := e
    rcases h with ⟨rfl, rfl⟩ | ⟨hno, h⟩
    · simp [matchKey, hk, isPrefix_append]
    · have : ¬ (k' ≠ [] ∧ isPrefix k' (k ++ rest) = true) := by
        rintro ⟨h1, h2⟩
        rcases hno with h3 | h3
        · exact h1 h3
        · rw [h3] at h2; cases h2
      simp only [matchKey, this, ↓reduceIte]
      exact ih h

set_option linter.unusedSimpArgs false in
/-- a text that IS a key becomes the replacement of that key -/
theorem substKeys_key (tbl : List (Str × Str)) (k f : Str) (hk : k ≠ []) (h : FirstMatch tbl k f k) :
    substKeys tbl k = f := by
  cases k with
  | nil => exact absurd rfl hk
  | cons c t =>
    have hm := matchKey_first tbl (c :: t) f [] hk (by simpa using h)
    simp only [List.append_nil] at hm
    simp only [substKeys, List.length_cons, substGo, hm, List.drop_succ_cons, List.drop_length]
    cases (t.length + 1) <;> simp [substGo]

end EsbuildModel.MetaImports
