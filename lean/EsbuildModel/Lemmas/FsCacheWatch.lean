import EsbuildModel.Lemmas.FsCacheHonest
/-
The watch-data slot of a file path that is read through `FSCache.ReadFile`: invariant and its preservation.
-/
namespace EsbuildModel.FsCache
open EsbuildModel.StatCache

/-- what a slot in state `st` promises about the answer `r` of the last read of `p` in this build -/
def WCase (cfg : Cfg) (s : State) (p : Nat) (d : WD) (r : ReadRes) : WState → Prop
  | .hasModKey => d.modKey = ModKey.zero ∨ ∃ C, r = .ok C ∧ Trusts cfg s.clock (s.seen p) (s.world p) d.modKey C
  | .unusable => ∃ C, r = .ok C ∧ d.fileContents = C ∧ ∃ e, s.cache p = some e ∧ e.contents = C
  | .missing => s.sawMissing p = true ∧ (s.flip p = true ∨ r = .err)
  | .needModKey => False
  | .none => False

def WInvAt (cfg : Cfg) (s : State) (p : Nat) : Prop :=
  ∀ d, s.wd p = some d → ∃ r, s.lastRead p = some r ∧ WCase cfg s p d r d.state

def WInv (cfg : Cfg) (s : State) : Prop := ∀ p, WInvAt cfg s p

theorem WInv_init (cfg : Cfg) (clock : Int) (w : World) : WInv cfg (State.init clock w) := by
  intro p d hd; simp [State.init] at hd

theorem WInvAt_stepAct {cfg : Cfg} {s : State} {a : Act} {p : Nat} (hok : ActOK cfg s a) (h : WInvAt cfg s p) :
    WInvAt cfg (stepAct cfg s a) p := by
  intro d hd
  rw [stepAct_wd] at hd
  obtain ⟨r, hr, hc⟩ := h d hd
  refine ⟨r, by rw [stepAct_lastRead]; exact hr, ?_⟩
  cases hst : d.state <;> rw [hst] at hc <;> simp only [WCase, stepAct_cache, stepAct_sawMissing, stepAct_flip] at hc ⊢
  · rcases hc with hz | ⟨C, hC, ht⟩
    · exact Or.inl hz
    · exact Or.inr ⟨C, hC, Trusts_stepAct hok ht⟩
  · exact hc
  · exact hc

theorem WInvAt_runActs {cfg : Cfg} {s : State} {as : List Act} {p : Nat} (hok : ActsOK cfg s as) (h : WInvAt cfg s p) :
    WInvAt cfg (runActs cfg s as) p := by
  induction as generalizing s with
  | nil => exact h
  | cons a as ih => exact ih hok.2 (WInvAt_stepAct hok.1 h)

/-- the state the slot is in after `realFS.ModKey` recorded `kr` -/
theorem wdModKey_state (slot : Option WD) (kr : KeyRes) :
    (wdModKey slot kr).modKey = kr.key ∧
    (match slot with
     | none => (wdModKey slot kr).state = (match kr with | .unusable => WState.unusable | .err => .missing | .ok _ => .hasModKey)
     | some d => (wdModKey slot kr).state = (if d.state = .needModKey then .hasModKey else d.state) ∧
                 (wdModKey slot kr).fileContents = d.fileContents) := by
  cases slot with
  | none => exact ⟨rfl, rfl⟩
  | some d => exact ⟨rfl, rfl, rfl⟩

end EsbuildModel.FsCache

namespace EsbuildModel.FsCache
open EsbuildModel.StatCache

/-! ## `stepRead` in closed form, per case -/

theorem stepRead_hit {cfg : Cfg} {s : State} {p : Nat} {mids : List Act} {c : Contents}
    (h : hitOf (s.cache p) (modKey cfg.plat cfg.gapSec s.clock (s.world p)) = some c) :
    stepRead cfg s p mids =
      { statPhase cfg s p with
        log := s.log ++ [LogEntry.mk p true (.ok c) (s.world p) (s.world p)],
        lastRead := upd s.lastRead p (some (.ok c)),
        flip := upd s.flip p (s.flip p || (statPhase cfg s p).sawMissing p) } := by
  simp only [stepRead, statPhase_cache, h, statPhase_log, statPhase_lastRead, statPhase_flip]

theorem stepRead_miss_err {cfg : Cfg} {s : State} {p : Nat} {mids : List Act}
    (h : hitOf (s.cache p) (modKey cfg.plat cfg.gapSec s.clock (s.world p)) = none)
    (hw : (runActs cfg (statPhase cfg s p) mids).world p = none) :
    stepRead cfg s p mids =
      { runActs cfg (statPhase cfg s p) mids with
        wd := upd (statPhase cfg s p).wd p (some (wdReadFile ((statPhase cfg s p).wd p) .err)),
        log := s.log ++ [LogEntry.mk p false .err (s.world p) none],
        lastRead := upd s.lastRead p (some .err),
        sawMissing := upd (statPhase cfg s p).sawMissing p true } := by
  simp only [stepRead, statPhase_cache, h, hw, resOf, runActs_wd, runActs_log, runActs_lastRead, runActs_sawMissing,
    statPhase_log, statPhase_lastRead]

theorem stepRead_miss_ok {cfg : Cfg} {s : State} {p : Nat} {mids : List Act} {f : File}
    (h : hitOf (s.cache p) (modKey cfg.plat cfg.gapSec s.clock (s.world p)) = none)
    (hw : (runActs cfg (statPhase cfg s p) mids).world p = some f) :
    stepRead cfg s p mids =
      { runActs cfg (statPhase cfg s p) mids with
        wd := upd (statPhase cfg s p).wd p (some (wdReadFile ((statPhase cfg s p).wd p) (.ok f.contents))),
        log := s.log ++ [LogEntry.mk p false (.ok f.contents) (s.world p) (some f)],
        lastRead := upd s.lastRead p (some (.ok f.contents)),
        cache := upd s.cache p (some (entryOf f.contents (modKey cfg.plat cfg.gapSec s.clock (s.world p)))),
        flip := upd s.flip p (s.flip p || (statPhase cfg s p).sawMissing p) } := by
  simp only [stepRead, statPhase_cache, h, hw, resOf, runActs_wd, runActs_log, runActs_lastRead, runActs_sawMissing,
    runActs_cache, runActs_flip, statPhase_log, statPhase_lastRead, statPhase_flip]

end EsbuildModel.FsCache

namespace EsbuildModel.FsCache
open EsbuildModel.StatCache

theorem WCase_transfer {cfg : Cfg} {s s' : State} {q : Nat} {d : WD} {r : ReadRes} {st : WState}
    (ht : ∀ K C, Trusts cfg s.clock (s.seen q) (s.world q) K C → Trusts cfg s'.clock (s'.seen q) (s'.world q) K C)
    (hc : s'.cache q = s.cache q) (hm : s'.sawMissing q = s.sawMissing q) (hf : s'.flip q = s.flip q)
    (h : WCase cfg s q d r st) : WCase cfg s' q d r st := by
  cases st <;> simp only [WCase] at h ⊢
  · rcases h with hz | ⟨C, hC, htr⟩
    · exact Or.inl hz
    · exact Or.inr ⟨C, hC, ht _ _ htr⟩
  · rw [hm, hf]; exact h
  · rw [hc]; exact h

/-- other paths are not disturbed by a read of `p` -/
theorem WInvAt_stepRead_other {cfg : Cfg} {s : State} {p q : Nat} {mids : List Act} (hq : q ≠ p)
    (hok : ActsOK cfg (statPhase cfg s p) mids) (h : WInvAt cfg s q) : WInvAt cfg (stepRead cfg s p mids) q := by
  have hwd : (statPhase cfg s p).wd q = s.wd q := by simp only [statPhase]; exact upd_other _ _ hq
  have hsm : (statPhase cfg s p).sawMissing q = s.sawMissing q := by simp only [statPhase]; exact upd_other _ _ hq
  have htr : ∀ K C, Trusts cfg s.clock (s.seen q) (s.world q) K C →
      Trusts cfg (runActs cfg (statPhase cfg s p) mids).clock ((runActs cfg (statPhase cfg s p) mids).seen q)
        ((runActs cfg (statPhase cfg s p) mids).world q) K C := fun K C ht => Trusts_runActs hok ht
  cases hhit : hitOf (s.cache p) (modKey cfg.plat cfg.gapSec s.clock (s.world p)) with
  | some c =>
    rw [stepRead_hit hhit]
    intro d hd
    simp only at hd
    rw [hwd] at hd
    obtain ⟨r, hr, hc⟩ := h d hd
    refine ⟨r, by simp only; rw [upd_other _ _ hq]; exact hr, ?_⟩
    refine WCase_transfer (s := s) (fun K C ht => ht) rfl ?_ ?_ hc
    · simp only; exact hsm
    · simp only; exact upd_other _ _ hq
  | none =>
    cases hw : (runActs cfg (statPhase cfg s p) mids).world p with
    | none =>
      rw [stepRead_miss_err hhit hw]
      intro d hd
      simp only at hd
      rw [upd_other _ _ hq, hwd] at hd
      obtain ⟨r, hr, hc⟩ := h d hd
      refine ⟨r, by simp only; rw [upd_other _ _ hq]; exact hr, ?_⟩
      refine WCase_transfer (s := s) htr ?_ ?_ ?_ hc
      · simp only [runActs_cache, statPhase_cache]
      · simp only; rw [upd_other _ _ hq]; exact hsm
      · simp only [runActs_flip, statPhase_flip]
    | some f =>
      rw [stepRead_miss_ok hhit hw]
      intro d hd
      simp only at hd
      rw [upd_other _ _ hq, hwd] at hd
      obtain ⟨r, hr, hc⟩ := h d hd
      refine ⟨r, by simp only; rw [upd_other _ _ hq]; exact hr, ?_⟩
      refine WCase_transfer (s := s) htr ?_ ?_ ?_ hc
      · simp only; exact upd_other _ _ hq
      · simp only [runActs_sawMissing]; exact hsm
      · simp only; exact upd_other _ _ hq

end EsbuildModel.FsCache

namespace EsbuildModel.FsCache
open EsbuildModel.StatCache

theorem statPhase_wd_same (cfg : Cfg) (s : State) (p : Nat) :
    (statPhase cfg s p).wd p = some (wdModKey (s.wd p) (modKey cfg.plat cfg.gapSec s.clock (s.world p))) := by
  simp only [statPhase]; exact upd_same _ _ _

theorem statPhase_sawMissing_same (cfg : Cfg) (s : State) (p : Nat) :
    (statPhase cfg s p).sawMissing p = (s.sawMissing p || decide (modKey cfg.plat cfg.gapSec s.clock (s.world p) = .err)) := by
  simp only [statPhase]; exact upd_same _ _ _

/-- the slot of `p` after a HIT -/
theorem WInvAt_stepRead_hit {cfg : Cfg} {s : State} {p : Nat} {mids : List Act} {c : Contents}
    (hinv : Inv cfg s) (h : WInvAt cfg s p)
    (hhit : hitOf (s.cache p) (modKey cfg.plat cfg.gapSec s.clock (s.world p)) = some c) :
    WInvAt cfg (stepRead cfg s p mids) p := by
  rw [stepRead_hit hhit]
  obtain ⟨e, K, he, hu, hkr, hK, hc⟩ := hitOf_some hhit
  have htr : Trusts cfg s.clock (s.seen p) (s.world p) K c := by
    have := hinv.cache p e he hu
    rw [hK, ← hc] at this
    exact this
  intro d hd
  simp only at hd
  rw [statPhase_wd_same, hkr] at hd
  injection hd with hd
  refine ⟨.ok c, by simp only; exact upd_same _ _ _, ?_⟩
  cases hslot : s.wd p with
  | none =>
    rw [hslot] at hd
    subst hd
    simp only [wdModKey, WCase, KeyRes.key]
    exact Or.inr ⟨c, rfl, htr⟩
  | some d0 =>
    rw [hslot] at hd
    obtain ⟨r0, hr0, hc0⟩ := h d0 hslot
    subst hd
    cases hst : d0.state <;> rw [hst] at hc0 <;> simp only [WCase] at hc0
    · -- hasModKey stays
      simp only [wdModKey, hst, WCase, KeyRes.key]
      exact Or.inr ⟨c, rfl, htr⟩
    · -- missing stays: the ghost bit flips
      simp only [wdModKey, hst, WCase]
      refine ⟨?_, Or.inl ?_⟩
      · rw [statPhase_sawMissing_same, hc0.1]; rfl
      · rw [upd_same, statPhase_sawMissing_same, hc0.1]; simp
    · -- unusable stays: the entry that was hit is the one whose contents the slot holds
      obtain ⟨C, hC, hfc, e', he', hce⟩ := hc0
      rw [he] at he'
      injection he' with he'
      subst he'
      simp only [wdModKey, hst, WCase, statPhase_cache]
      exact ⟨c, rfl, by rw [hfc, ← hce, hc], e, he, hc.symm⟩

end EsbuildModel.FsCache

namespace EsbuildModel.FsCache
open EsbuildModel.StatCache

/-- the slot of `p` after a MISS whose `fs.ReadFile` failed -/
theorem WInvAt_stepRead_miss_err {cfg : Cfg} {s : State} {p : Nat} {mids : List Act}
    (hhit : hitOf (s.cache p) (modKey cfg.plat cfg.gapSec s.clock (s.world p)) = none)
    (hw : (runActs cfg (statPhase cfg s p) mids).world p = none) :
    WInvAt cfg (stepRead cfg s p mids) p := by
  rw [stepRead_miss_err hhit hw]
  intro d hd
  simp only at hd
  rw [upd_same] at hd
  injection hd with hd
  refine ⟨.err, by simp only; exact upd_same _ _ _, ?_⟩
  have hst : d.state = .missing := by
    rw [← hd]
    cases (statPhase cfg s p).wd p <;> rfl
  rw [hst]
  simp only [WCase]
  exact ⟨upd_same _ _ _, Or.inr trivial⟩

/-- the slot of `p` after a MISS whose `fs.ReadFile` succeeded -/
theorem WInvAt_stepRead_miss_ok {cfg : Cfg} {s : State} {p : Nat} {mids : List Act} {f : File}
    (hinv : Inv cfg s) (h : WInvAt cfg s p) (hok : ActsOK cfg (statPhase cfg s p) mids)
    (hhit : hitOf (s.cache p) (modKey cfg.plat cfg.gapSec s.clock (s.world p)) = none)
    (hw : (runActs cfg (statPhase cfg s p) mids).world p = some f) :
    WInvAt cfg (stepRead cfg s p mids) p := by
  rw [stepRead_miss_ok hhit hw]
  have hseen1 : SeenInv (statPhase cfg s p) := hinv.seen
  -- a key that `stat` found usable can be trusted with the contents read afterwards
  have hnew : ∀ K, modKey cfg.plat cfg.gapSec s.clock (s.world p) = .ok K →
      Trusts cfg (runActs cfg (statPhase cfg s p) mids).clock ((runActs cfg (statPhase cfg s p) mids).seen p)
        ((runActs cfg (statPhase cfg s p) mids).world p) K f.contents :=
    fun K hk => new_key_trusted hseen1 hok hk hw
  intro d hd
  simp only at hd
  rw [upd_same, statPhase_wd_same] at hd
  injection hd with hd
  refine ⟨.ok f.contents, by simp only; exact upd_same _ _ _, ?_⟩
  -- the ghost bit after this read
  have hflip : s.sawMissing p = true ∨ modKey cfg.plat cfg.gapSec s.clock (s.world p) = .err →
      (statPhase cfg s p).sawMissing p = true ∧
      upd s.flip p (s.flip p || (statPhase cfg s p).sawMissing p) p = true := by
    intro hm
    have : (statPhase cfg s p).sawMissing p = true := by
      rw [statPhase_sawMissing_same]
      rcases hm with hm | hm
      · rw [hm]; rfl
      · rw [hm]; simp
    exact ⟨this, by rw [upd_same, this]; simp⟩
  cases hslot : s.wd p with
  | none =>
    rw [hslot] at hd
    subst hd
    cases hkr : modKey cfg.plat cfg.gapSec s.clock (s.world p) with
    | ok K =>
      simp only [wdModKey, wdReadFile, WCase, KeyRes.key]
      exact Or.inr ⟨f.contents, rfl, hnew K hkr⟩
    | unusable =>
      simp only [wdModKey, wdReadFile, WCase]
      exact ⟨f.contents, rfl, rfl, _, upd_same _ _ _, rfl⟩
    | err =>
      simp only [wdModKey, wdReadFile, WCase, runActs_sawMissing]
      have := hflip (Or.inr hkr)
      exact ⟨this.1, Or.inl this.2⟩
  | some d0 =>
    rw [hslot] at hd
    obtain ⟨r0, hr0, hc0⟩ := h d0 hslot
    subst hd
    cases hst : d0.state <;> rw [hst] at hc0 <;> simp only [WCase] at hc0
    · -- hasModKey stays; the key is the one `stat` just gave (or ModKey{})
      simp only [wdModKey, hst, wdReadFile, WCase]
      cases hkr : modKey cfg.plat cfg.gapSec s.clock (s.world p) with
      | ok K => exact Or.inr ⟨f.contents, rfl, hnew K hkr⟩
      | unusable => exact Or.inl rfl
      | err => exact Or.inl rfl
    · -- missing stays
      simp only [wdModKey, hst, wdReadFile, WCase, runActs_sawMissing]
      have := hflip (Or.inl hc0.1)
      exact ⟨this.1, Or.inl this.2⟩
    · -- unusable stays; contents and entry are replaced together
      simp only [wdModKey, hst, wdReadFile, WCase]
      exact ⟨f.contents, rfl, rfl, _, upd_same _ _ _, rfl⟩

theorem WInv_stepRead {cfg : Cfg} {s : State} {p : Nat} {mids : List Act}
    (hinv : Inv cfg s) (h : WInv cfg s) (hok : ActsOK cfg (statPhase cfg s p) mids) :
    WInv cfg (stepRead cfg s p mids) := by
  intro q
  by_cases hq : q = p
  · subst hq
    cases hhit : hitOf (s.cache q) (modKey cfg.plat cfg.gapSec s.clock (s.world q)) with
    | some c => exact WInvAt_stepRead_hit hinv (h q) hhit
    | none =>
      cases hw : (runActs cfg (statPhase cfg s q) mids).world q with
      | none => exact WInvAt_stepRead_miss_err hhit hw
      | some f => exact WInvAt_stepRead_miss_ok hinv (h q) hok hhit hw
  · exact WInvAt_stepRead_other hq hok (h q)

theorem WInv_step {cfg : Cfg} {s : State} {op : Op} (hinv : Inv cfg s) (h : WInv cfg s)
    (hok : OpOK cfg s op) (hvia : op.viaCache = true) : WInv cfg (step cfg s op) := by
  cases op with
  | act a => exact fun p => WInvAt_stepAct hok (h p)
  | read p mids => exact WInv_stepRead hinv h hok
  | rawRead p => simp [Op.viaCache] at hvia
  | newBuild => intro p d hd; simp [step] at hd

theorem WInv_run {cfg : Cfg} {s : State} {ops : List Op} (hinv : Inv cfg s) (h : WInv cfg s)
    (hok : Trusted cfg s ops) (hvia : ∀ op ∈ ops, op.viaCache = true) :
    Inv cfg (run cfg s ops) ∧ WInv cfg (run cfg s ops) := by
  induction ops generalizing s with
  | nil => exact ⟨hinv, h⟩
  | cons op ops ih =>
    exact ih (Inv_step hok.1 hinv) (WInv_step hinv h hok.1 (hvia op (List.mem_cons_self ..))) hok.2
      (fun o ho => hvia o (List.mem_cons_of_mem _ ho))

end EsbuildModel.FsCache
