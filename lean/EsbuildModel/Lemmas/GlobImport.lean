import EsbuildModel.Lemmas.GlobSpec
import EsbuildModel.Lemmas.GlobUtf8
import EsbuildModel.Lemmas.GlobSync
import EsbuildModel.Spec.GlobImport
/-
Lemmas for Props/C04GlobImport.lean: the regexp text of ResolveGlob, the parts loop of handleGlobPattern.
-/
namespace EsbuildModel.Glob
open EsbuildModel.Spec.MiniRegex
open EsbuildModel.Spec.Glob (starLoop dirsLoop deepLoop)
open EsbuildModel.Spec.GlobImport (Frag fillMatch holeLoop holesAfterSlash)

/-! ## the regexp text -/

theorem isSpecialByte_eq_isMeta (b : Nat) : isSpecialByte b = isMeta b := by
  rw [Bool.eq_iff_iff, isMeta_true_iff]
  simp only [isSpecialByte, Bool.and_eq_true, decide_eq_true_eq, Bool.or_eq_true]
  omega

theorem quoteMeta_eq (s : List Nat) : quoteMeta s = (s.map CTok.lit).flatMap tokText := by
  induction s with
  | nil => rfl
  | cons b s ih =>
    unfold quoteMeta at ih ⊢
    rw [List.flatMap_cons, ih, List.map_cons, List.flatMap_cons]
    simp only [tokText, isSpecialByte_eq_isMeta]

theorem globRegexLoop_eq (parts : List Part) : ∀ wgs sb cm,
    globRegexLoop parts wgs sb cm
      = (sb ++ (partsToks wgs parts).flatMap tokText ++ [36], cm || parts.any (fun p => p.wild == .withSlash)) := by
  induction parts with
  | nil => intro wgs sb cm; simp [globRegexLoop, partsToks]
  | cons p ps ih =>
    intro wgs sb cm
    rw [globRegexLoop, partsToks]
    cases hw : p.wild with
    | withSlash => simp [ih, quoteMeta_eq, tokText, hw]
    | noSlash =>
      have : (Wild.noSlash == Wild.withSlash) = false := by decide
      simp [ih, quoteMeta_eq, tokText, hw, this]
    | none =>
      have : (Wild.none == Wild.withSlash) = false := by decide
      simp [ih, quoteMeta_eq, hw, this]

/-- the text ResolveGlob compiles: `^`, the text of `partsToks`, `$`; `canMatchOnSlash` = "some part is a globstar" -/
theorem globRegexText_eq (parts : List Part) :
    globRegexText parts
      = ([94] ++ (partsToks false parts).flatMap tokText ++ [36], parts.any (fun p => p.wild == .withSlash)) := by
  unfold globRegexText
  rw [globRegexLoop_eq]
  simp

/-! ## the parts loop of handleGlobPattern, as a token stream -/

/-- the tokens of a template; state `some T` = literal text `T` pending, `none` = right after a hole -/
def tplToks : Option (List Nat) → List Piece → List CTok
  | some T, [] => T.map .lit
  | none, [] => []
  | some T, .hole :: fs =>
    T.map .lit ++ (if T.getLast? = some 47 then [CTok.gstar, CTok.star] else [CTok.star]) ++ tplToks none fs
  | none, .hole :: fs => tplToks none fs
  | st, .text t :: fs =>
    if t = [] then tplToks st fs
    else match st with
      | some T => tplToks (some (T ++ t)) fs
      | none => tplToks (some t) fs

/-- the loop only ever appends to `parts` -/
theorem templateLoop_parts (fs : List Piece) : ∀ parts last,
    templateLoop fs parts last = (parts ++ (templateLoop fs [] last).1, (templateLoop fs [] last).2) := by
  induction fs with
  | nil => intro parts last; simp [templateLoop]
  | cons f fs ih =>
    intro parts last
    cases f with
    | hole =>
      simp only [templateLoop]
      split
      · split
        · exact ih _ _
        · rw [ih (parts ++ _), ih ([] ++ _)]; simp
      · exact ih _ _
    | text t =>
      simp only [templateLoop]
      split
      · split
        · rw [ih (parts ++ _), ih ([] ++ _)]; simp
        · exact ih _ _
      · exact ih _ _

theorem strip_false (pre : List Nat) : stripAfterGlobStar false pre = pre := by
  cases pre <;> simp [stripAfterGlobStar]

/-- tokens of everything the loop still produces, started with `last` after parts that leave `wasGlobStar = W` -/
def loopToks (W : Bool) (last : Part) (fs : List Piece) : List CTok :=
  partsToks W ((templateLoop fs [] last).1 ++ [(templateLoop fs [] last).2])

theorem loopToks_both (fs : List Piece) :
    (∀ T, loopToks false { pre := T, wild := .none } fs = tplToks (some T) fs) ∧
    (∀ W pre, loopToks W { pre := pre, wild := .noSlash } fs
        = (stripAfterGlobStar W pre).map .lit ++ CTok.star :: tplToks none fs) := by
  induction fs with
  | nil =>
    constructor
    · intro T; simp [loopToks, templateLoop, partsToks, strip_false, tplToks]
    · intro W pre; simp [loopToks, templateLoop, partsToks, tplToks]
  | cons f fs ih =>
    obtain ⟨ih1, ih2⟩ := ih
    cases f with
    | hole =>
      constructor
      · intro T
        unfold loopToks
        simp only [templateLoop, tplToks, if_true]
        by_cases hs : T.getLast? = some 47
        · simp only [hs, ne_eq, not_true_eq_false, if_false, if_true]
          rw [templateLoop_parts]
          have h2 := ih2 true [47]
          unfold loopToks at h2
          simp only [List.nil_append, List.cons_append, partsToks, strip_false, h2]
          simp [stripAfterGlobStar, isSlashOrBackslash]
        · simp only [hs, ne_eq, not_false_eq_true, if_true, if_false]
          have h2 := ih2 false T
          unfold loopToks at h2
          rw [h2, strip_false]
          simp
      · intro W pre
        unfold loopToks
        simp only [templateLoop, tplToks]
        have h2 := ih2 W pre
        unfold loopToks at h2
        simpa using h2
    | text t =>
      constructor
      · intro T
        unfold loopToks
        simp only [templateLoop, tplToks]
        by_cases ht : t = []
        · simp only [ht, ne_eq, not_true_eq_false, if_false, if_true]
          have := ih1 T; unfold loopToks at this; exact this
        · simp only [ht, ne_eq, not_false_eq_true, if_true, if_false, not_true_eq_false]
          have := ih1 (T ++ t); unfold loopToks at this; exact this
      · intro W pre
        unfold loopToks
        simp only [templateLoop, tplToks]
        by_cases ht : t = []
        · simp only [ht, ne_eq, not_true_eq_false, if_false, if_true]
          have := ih2 W pre; unfold loopToks at this; exact this
        · simp only [ht, ne_eq, not_false_eq_true, if_true, if_false]
          have hne : (Wild.noSlash ≠ Wild.none) := by decide
          simp only [hne]
          rw [templateLoop_parts]
          have h1 := ih1 t
          unfold loopToks at h1
          simp only [not_false_eq_true, if_true, List.nil_append, List.cons_append, partsToks, h1]

/-- the parts handleGlobPattern hands to ResolveGlob render the token stream `tplToks` -/
theorem templateParts_toks (fs : List Piece) (parts : List Part) (h : templateParts fs = some parts) :
    partsToks false parts = tplToks (some []) fs := by
  have key : parts = (templateLoop fs [] { pre := [], wild := .none }).1 ++ [(templateLoop fs [] { pre := [], wild := .none }).2] := by
    unfold templateParts at h
    simp only at h
    split at h
    · split at h
      · cases h
      · split at h
        · injection h with h; rw [← h]
        · cases h
    · split at h
      · injection h with h; rw [← h]
      · cases h
    · cases h
  rw [key]
  exact (loopToks_both fs).1 []

/-! ## what the token stream of a template matches -/

theorem codeMatch_lits_prefix (T : List Nat) (ts : List CTok) : ∀ w,
    codeMatch (T.map CTok.lit ++ ts) w = (T.isPrefixOf w && codeMatch ts (w.drop T.length)) := by
  induction T with
  | nil => intro w; simp
  | cons c T ih =>
    intro w
    rw [List.map_cons, List.cons_append, codeMatch_lit]
    cases w with
    | nil => simp [List.isPrefixOf]
    | cons x xs =>
      simp only [ih, List.isPrefixOf, List.length_cons, List.drop_succ_cons, Bool.and_assoc]
      congr 1
      exact BEq.comm

theorem isPrefixOf_append (T t : List Nat) : ∀ w,
    (T ++ t).isPrefixOf w = (T.isPrefixOf w && t.isPrefixOf (w.drop T.length)) := by
  induction T with
  | nil => intro w; simp
  | cons c T ih =>
    intro w
    cases w with
    | nil => simp [List.isPrefixOf]
    | cons x xs => simp only [List.cons_append, List.isPrefixOf, ih, List.length_cons, List.drop_succ_cons, Bool.and_assoc]

/-- `**` directly followed by `*` : anything -/
theorem codeMatch_gstar_star (ts : List CTok) (w : List Nat) :
    codeMatch (.gstar :: .star :: ts) w = deepLoop (codeMatch ts) w := by
  rw [Bool.eq_iff_iff, codeMatch_gstar, Bool.or_eq_true, dirsLoop_iff, deepLoop_iff]
  simp only [codeMatch_star, starLoop_iff]
  constructor
  · rintro (⟨w1, w2, rfl, _, w3, w4, rfl, _, hk⟩ | ⟨w3, w4, h, _, hk⟩)
    · exact ⟨w1 ++ w3, w4, by simp, hk⟩
    · have h' := h.symm
      rw [List.append_eq_nil_iff] at h'
      rw [h'.2] at hk
      exact ⟨w, [], by simp, hk⟩
  · rintro ⟨u, w2, rfl, hk⟩
    obtain ⟨d, seg, rfl, hd, hseg⟩ := split_last_slash u
    left
    refine ⟨d, seg ++ w2, by simp, ?_, seg, w2, rfl, hseg, hk⟩
    rcases hd with hd | hd
    · exact Or.inl ⟨hd, trivial⟩
    · exact Or.inr hd

theorem holeLoop_iff (perm : Bool) (k : List Nat → Bool) (w : List Nat) :
    holeLoop perm k w = true ↔ ∃ w1 w2, w = w1 ++ w2 ∧ (perm = true ∨ ∀ c ∈ w1, c ≠ 47) ∧ k w2 = true := by
  cases perm with
  | true => simp [holeLoop, deepLoop_iff]
  | false => simp [holeLoop, starLoop_iff]

theorem holeLoop_idem (perm : Bool) (k : List Nat → Bool) (w : List Nat) :
    holeLoop perm (holeLoop perm k) w = holeLoop perm k w := by
  rw [Bool.eq_iff_iff, holeLoop_iff, holeLoop_iff]
  constructor
  · rintro ⟨w1, w2, rfl, h1, h⟩
    rw [holeLoop_iff] at h
    obtain ⟨w3, w4, rfl, h3, hk⟩ := h
    refine ⟨w1 ++ w3, w4, by simp, ?_, hk⟩
    rcases h1 with h1 | h1
    · exact Or.inl h1
    · rcases h3 with h3 | h3
      · exact Or.inl h3
      · right
        intro c hc
        rcases List.mem_append.mp hc with hc | hc
        · exact h1 c hc
        · exact h3 c hc
  · rintro ⟨w1, w2, rfl, h1, hk⟩
    refine ⟨w1, w2, rfl, h1, ?_⟩
    rw [holeLoop_iff]
    exact ⟨[], w2, rfl, Or.inr (by simp), hk⟩

theorem holeLoop_congr (perm : Bool) (k k' : List Nat → Bool) (h : ∀ w, k w = k' w) (w : List Nat) :
    holeLoop perm k w = holeLoop perm k' w := by
  have : k = k' := funext h
  rw [this]

theorem fillMatch_nil (r : Bool) (acc : List Nat) (cur : Option Bool) (p : List Nat) :
    fillMatch r acc cur [] p = p.isEmpty := rfl
theorem fillMatch_text (r : Bool) (acc : List Nat) (cur : Option Bool) (t : List Nat) (fs : List Frag) (p : List Nat) :
    fillMatch r acc cur (.text t :: fs) p =
      (if t = [] then fillMatch r acc cur fs p
       else t.isPrefixOf p && fillMatch r (if cur.isSome then t else acc ++ t) none fs (p.drop t.length)) := rfl
theorem fillMatch_hole (r : Bool) (acc : List Nat) (cur : Option Bool) (fs : List Frag) :
    fillMatch r acc cur (.hole :: fs) =
      holeLoop (!r || cur.getD (decide (acc.getLast? = some 47)))
        (fillMatch r acc (some (!r || cur.getD (decide (acc.getLast? = some 47)))) fs) := rfl

/-- the token stream of a template matches what the documented glob of the expression names -/
theorem tplToks_sem (fs : List Piece) :
    (∀ T w, codeMatch (tplToks (some T) fs) w
        = (T.isPrefixOf w && fillMatch true T none (fs.map toFrag) (w.drop T.length))) ∧
    (∀ perm A w, holeLoop perm (codeMatch (tplToks none fs)) w
        = holeLoop perm (fillMatch true A (some perm) (fs.map toFrag)) w) := by
  induction fs with
  | nil =>
    constructor
    · intro T w
      have := codeMatch_lits_prefix T [] w
      simpa [tplToks, fillMatch_nil, codeMatch_nil] using this
    · intro perm A w
      apply holeLoop_congr
      intro v; rfl
  | cons f fs ih =>
    obtain ⟨ih1, ih2⟩ := ih
    cases f with
    | hole =>
      constructor
      · intro T w
        simp only [tplToks, List.map_cons, toFrag, fillMatch_hole, Bool.not_true, Bool.false_or, Option.getD_none,
          List.append_assoc]
        rw [codeMatch_lits_prefix]
        congr 1
        by_cases hs : T.getLast? = some 47
        · simp only [hs, if_true, decide_true, List.cons_append, List.nil_append]
          rw [codeMatch_gstar_star]
          exact ih2 true T _
        · simp only [hs, if_false, decide_false, List.cons_append, List.nil_append]
          rw [codeMatch_star]
          exact ih2 false T _
      · intro perm A w
        simp only [tplToks, List.map_cons, toFrag, fillMatch_hole, Bool.not_true, Bool.false_or, Option.getD_some]
        rw [holeLoop_idem]
        exact ih2 perm A w
    | text t =>
      constructor
      · intro T w
        simp only [tplToks, List.map_cons, toFrag, fillMatch_text]
        by_cases ht : t = []
        · simp only [ht, if_true]; exact ih1 T w
        · simp only [ht, if_false, Option.isSome_none, Bool.false_eq_true]
          rw [ih1 (T ++ t) w, isPrefixOf_append, List.length_append, ← List.drop_drop, Bool.and_assoc]
      · intro perm A w
        by_cases ht : t = []
        · subst ht
          have h1 : tplToks none (Piece.text [] :: fs) = tplToks none fs := by simp [tplToks]
          have h2 : fillMatch true A (some perm) ((Piece.text [] :: fs).map toFrag)
              = fillMatch true A (some perm) (fs.map toFrag) :=
            funext (fun p => by rw [List.map_cons, toFrag, fillMatch_text]; simp)
          rw [h1, h2]
          exact ih2 perm A w
        · apply holeLoop_congr
          intro v
          simp only [tplToks, List.map_cons, toFrag, fillMatch_text, ht, if_false, Option.isSome_some, if_true]
          exact ih1 t v

/-- the documented glob names only paths the expression can evaluate to -/
theorem fillMatch_mono (fs : List Frag) : ∀ acc cur acc' cur' p,
    fillMatch true acc cur fs p = true → fillMatch false acc' cur' fs p = true := by
  induction fs with
  | nil => intro _ _ _ _ p h; exact h
  | cons f fs ih =>
    intro acc cur acc' cur' p h
    cases f with
    | text t =>
      rw [fillMatch_text] at h ⊢
      by_cases ht : t = []
      · simp only [ht, if_true] at h ⊢; exact ih _ _ _ _ p h
      · simp only [ht, if_false, Bool.and_eq_true] at h ⊢
        exact ⟨h.1, ih _ _ _ _ _ h.2⟩
    | hole =>
      rw [fillMatch_hole, holeLoop_iff] at h
      rw [fillMatch_hole, holeLoop_iff]
      obtain ⟨w1, w2, rfl, _, hk⟩ := h
      exact ⟨w1, w2, rfl, Or.inl (by simp), ih _ _ _ _ _ hk⟩

/-- when every hole comes right after a slash, the documented glob names EVERY path the expression can evaluate to -/
theorem fillMatch_after_slash (fs : List Frag) : ∀ acc cur, holesAfterSlash acc cur fs = true →
    ∀ p, fillMatch true acc cur fs p = fillMatch false acc cur fs p := by
  induction fs with
  | nil => intro _ _ _ p; rfl
  | cons f fs ih =>
    intro acc cur h p
    cases f with
    | text t =>
      rw [fillMatch_text, fillMatch_text]
      by_cases ht : t = []
      · simp only [ht, if_true]
        exact ih acc cur (by simpa [holesAfterSlash, ht] using h) p
      · simp only [ht, if_false]
        rw [ih _ none (by simpa [holesAfterSlash, ht] using h)]
    | hole =>
      have h' : cur.getD (decide (acc.getLast? = some 47)) = true ∧
          holesAfterSlash acc (some (cur.getD (decide (acc.getLast? = some 47)))) fs = true := by
        simpa [holesAfterSlash] using h
      rw [fillMatch_hole, fillMatch_hole]
      simp only [h'.1, Bool.not_true, Bool.false_or, Bool.not_false, Bool.true_or]
      apply holeLoop_congr
      intro v
      have := h'.2
      rw [h'.1] at this
      exact ih acc (some true) this v

/-! ## ASCII patterns -/

theorem strip_subset (w : Bool) (pre : List Nat) : ∀ c ∈ stripAfterGlobStar w pre, c ∈ pre := by
  intro c hc
  cases pre with
  | nil => simp [stripAfterGlobStar] at hc
  | cons x t =>
    simp only [stripAfterGlobStar] at hc
    split at hc
    · exact List.mem_cons_of_mem _ hc
    · exact hc

theorem partsToks_text_ascii (parts : List Part) (h : ∀ p ∈ parts, ∀ c ∈ p.pre, c < 128) :
    ∀ w, ∀ x ∈ (partsToks w parts).flatMap tokText, x < 128 := by
  induction parts with
  | nil => intro w x hx; simp [partsToks] at hx
  | cons p ps ih =>
    intro w x hx
    have ih' := ih (fun q hq => h q (List.mem_cons_of_mem _ hq))
    rw [partsToks, List.flatMap_append, List.mem_append] at hx
    rcases hx with hx | hx
    · rw [List.mem_flatMap] at hx
      obtain ⟨t, ht, hxt⟩ := hx
      rw [List.mem_map] at ht
      obtain ⟨c, hc, rfl⟩ := ht
      have hc128 := h p (by simp) c (strip_subset w p.pre c hc)
      simp only [tokText] at hxt
      split at hxt
      · simp only [List.mem_cons, List.not_mem_nil, or_false] at hxt
        rcases hxt with rfl | rfl <;> omega
      · simp only [List.mem_singleton] at hxt; omega
    · cases hw : p.wild with
      | withSlash =>
        simp only [hw, List.flatMap_cons, List.mem_append] at hx
        rcases hx with hx | hx
        · exact gsText_ascii x (by simpa [tokText] using hx)
        · exact ih' _ x hx
      | noSlash =>
        simp only [hw, List.flatMap_cons, List.mem_append] at hx
        rcases hx with hx | hx
        · exact starText_ascii x (by simpa [tokText] using hx)
        · exact ih' _ x hx
      | none =>
        simp only [hw] at hx
        exact ih' _ x hx

/-! ## all byte strings -/

/-- the same for the text ResolveGlob writes: never outside the fragment -/
theorem compile_parts_any (parts : List Part) :
    compile (globRegexText parts).1 =
      if validUTF8 (globRegexText parts).1 then .ok (reOf (decodeGo [] (partsToks false parts))) else .invalidUTF8 := by
  rw [globRegexText_eq]
  exact compile_tokens_any _

theorem findIdx?_lt (p : Nat → Bool) (l : List Nat) (i : Nat) (h : l.findIdx? p = some i) : i < l.length := by
  rw [List.findIdx?_eq_some_iff_findIdx_eq] at h
  exact h.1

/-- "Handle leading directories in the pattern": the loop terminates with an index inside the prefix -/
theorem dirPrefixLoop_total (fp : List Nat) : ∀ fuel dp, dp ≤ fp.length → fp.length - dp < fuel →
    ∃ r, dirPrefixLoop fp fuel dp = .ok r ∧ r ≤ fp.length := by
  intro fuel
  induction fuel with
  | zero => intro dp _ h; omega
  | succ k ih =>
    intro dp hdp hf
    rw [dirPrefixLoop]
    simp only [show ¬ dp > fp.length by omega, if_false]
    cases hs : (fp.drop dp).findIdx? isSlashOrBackslash with
    | none => exact ⟨dp, rfl, hdp⟩
    | some slash =>
      have hlt := findIdx?_lt _ _ _ hs
      rw [List.length_drop] at hlt
      simp only
      cases hst : (fp.drop dp).findIdx? (· == 42) with
      | none => exact ih (dp + slash + 1) (by omega) (by omega)
      | some star =>
        simp only
        split
        · exact ⟨dp, rfl, hdp⟩
        · exact ih (dp + slash + 1) (by omega) (by omega)

/-- ResolveGlob never panics, whatever bytes the parts contain -/
theorem resolveGlob_total (files : List (List Nat)) (sourceDir : List Nat) (parts : List Part) (isEntryPoint : Bool) :
    ∃ r, resolveGlob files sourceDir parts isEntryPoint = .ok r := by
  unfold resolveGlob
  cases parts with
  | nil => exact ⟨none, rfl⟩
  | cons p0 ps =>
    simp only
    split
    · exact ⟨none, rfl⟩
    · rename_i fp _
      obtain ⟨dp, hdp, _⟩ := dirPrefixLoop_total fp (fp.length + 1) 0 (by omega) (by omega)
      rw [hdp]
      simp only
      split <;>
      · split
        · exact ⟨none, rfl⟩
        · rw [compile_parts_any]
          generalize validUTF8 _ = v
          cases v <;> exact ⟨_, rfl⟩

end EsbuildModel.Glob
