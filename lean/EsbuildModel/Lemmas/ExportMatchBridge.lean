import EsbuildModel.Lemmas.ExportMatchHolders
/-!
Bridge between `Finds` (what `addExportsForExportStar` records: simple star paths, shadowing checked against the whole
stack) and the request graph of `toSpec t` (arbitrary paths through star requests):

* `finds_reach`: a recorded export's file is reachable from the request through star requests;
* `reaches_finds`: every binding reachable from a star request is reachable from some recorded export's file
  (loops in a path are cut at the LAST visit of a file, which gives a simple path that the traversal explores).
-/
namespace EsbuildModel.ExportMatch
open EsbuildModel.Spec EsbuildModel.Spec.EsModules

def Lacks (t : Table) (a : Name) (x : Nat) : Prop := ∃ f, t[x]? = some f ∧ entry f a = none
def Has (t : Table) (a : Name) (o : Nat) : Prop := ∃ fo e, t[o]? = some fo ∧ entry fo a = some e

theorem lacks_not_has {t : Table} {a : Name} {x : Nat} (h1 : Lacks t a x) (h2 : Has t a x) : False := by
  obtain ⟨f, hf, he⟩ := h1
  obtain ⟨f', e, hf', he'⟩ := h2
  rw [hf] at hf'; cases hf'
  rw [he] at he'; cases he'

theorem nodeOf_lacks {t : Table} {a : Name} {x : Nat} {f : File} (hf : t[x]? = some f) (he : entry f a = none)
    (hd : a ≠ "default") : nodeOf t x a = .stars (f.stars.filterMap id) := by
  simp [nodeOf, hf, he, hd]

theorem succ_lacks {t : Table} (hwf : WF t) {a : Name} {x : Nat} {f : File} (hf : t[x]? = some f)
    (he : entry f a = none) (hd : a ≠ "default") :
    succ (toSpec t) (x, a) = (f.stars.filterMap id).map (fun s => (s, a)) := by
  simp [succ, node_toSpec hwf.aliases, nodeOf_lacks hf he hd]

theorem starEdge_succ {t : Table} (hwf : WF t) {a : Name} {x o : Nat} (hx : Lacks t a x) (hd : a ≠ "default")
    (h : StarEdge t x o) : (o, a) ∈ succ (toSpec t) (x, a) := by
  obtain ⟨f, hf, he⟩ := hx
  obtain ⟨f', _, hf', hmem, _⟩ := h
  rw [hf] at hf'; cases hf'
  rw [succ_lacks hwf hf he hd]
  exact List.mem_map.2 ⟨o, List.mem_filterMap.2 ⟨some o, hmem, rfl⟩, rfl⟩

theorem succ_starEdge {t : Table} (hwf : WF t) (hesm : EsmOnly t) {a : Name} {x : Nat} {y : Node} (hx : Lacks t a x)
    (hd : a ≠ "default") (h : y ∈ succ (toSpec t) (x, a)) : y.2 = a ∧ StarEdge t x y.1 := by
  obtain ⟨f, hf, he⟩ := hx
  rw [succ_lacks hwf hf he hd] at h
  obtain ⟨o, ho, rfl⟩ := List.mem_map.1 h
  obtain ⟨s, hs, hso⟩ := List.mem_filterMap.1 ho
  simp at hso; subst hso
  have hfm := List.mem_of_getElem? hf
  have holt : o < t.length := hwf.stars f hfm o hs
  refine ⟨rfl, f, t[o], hf, hs, List.getElem?_eq_getElem holt, ?_⟩
  rw [hesm.kind _ (List.getElem_mem holt)]
  simp

theorem finds_reach {t : Table} (hwf : WF t) {a : Name} {S : List Nat} {x : Nat} {d : ImportData}
    (h : Finds t a S x d) : Reach (toSpec t) (x, a) (d.src, a) := by
  induction h with
  | @here S x o d hx hedge hf =>
    have hcl := shadowed_false hf.2.2.1 x (by simp)
    rw [hf.1]
    exact Reach.head (starEdge_succ hwf hcl hf.2.1 hedge) (.refl _)
  | @deeper S x o d hx hedge hfinds ih =>
    have hcl := hfinds.clear x (by simp)
    exact Reach.head (starEdge_succ hwf hcl hfinds.ne_default hedge) ih

/-! ### from arbitrary paths to the simple paths the traversal explores -/

/-- a path of star requests from `x` to a file `o` that exports the name; all files before `o` lack it and avoid `S` -/
inductive PW (t : Table) (a : Name) (S : List Nat) : Nat → Nat → Prop
  | done {o : Nat} : Has t a o → PW t a S o o
  | cons {x y o : Nat} : x ∉ S → Lacks t a x → StarEdge t x y → PW t a S y o → PW t a S x o

/-- the same, but a file is never visited twice (it joins the avoided set) -/
inductive SP (t : Table) (a : Name) : List Nat → Nat → Nat → Prop
  | done {S : List Nat} {o : Nat} : Has t a o → SP t a S o o
  | cons {S : List Nat} {x y o : Nat} : x ∉ S → Lacks t a x → StarEdge t x y → SP t a (S ++ [x]) y o → SP t a S x o

/-- the part of a path after the last visit of `x` -/
theorem PW.after_last {t : Table} {a : Name} {S : List Nat} {y o : Nat} (h : PW t a S y o) (x : Nat) :
    PW t a (S ++ [x]) y o ∨ ∃ y', StarEdge t x y' ∧ PW t a (S ++ [x]) y' o := by
  induction h with
  | done ho => exact Or.inl (.done ho)
  | @cons y z o hy hl hedge _ ih =>
    rcases ih with ih | ih
    · by_cases hxy : y = x
      · subst hxy
        exact Or.inr ⟨z, hedge, ih⟩
      · exact Or.inl (.cons (by simp [hy, hxy]) hl hedge ih)
    · exact Or.inr ih

theorem PW.simple {t : Table} {a : Name} : ∀ (k : Nat) (S : List Nat) (x o : Nat), S.Nodup → (∀ p ∈ S, p < t.length) →
    t.length ≤ k + S.length → PW t a S x o → SP t a S x o := by
  intro k
  induction k with
  | zero =>
    intro S x o hn hs hk h
    cases h with
    | done ho => exact .done ho
    | cons hx hl _ _ =>
      exfalso
      obtain ⟨f, hf, _⟩ := hl
      have hxlt : x < t.length := by
        have := List.getElem?_eq_some_iff.1 hf
        exact this.1
      have hn1 : (x :: S).Nodup := List.nodup_cons.2 ⟨hx, hn⟩
      have := List.Nodup.length_le_of_subset (l₂ := List.range t.length) hn1 (by
        intro p hp
        rcases List.mem_cons.1 hp with rfl | hp
        · exact List.mem_range.2 hxlt
        · exact List.mem_range.2 (hs p hp))
      simp at this
      omega
  | succ k ih =>
    intro S x o hn hs hk h
    cases h with
    | done ho => exact .done ho
    | @cons _ y _ hx hl hedge hrest =>
      have hxlt : x < t.length := by
        obtain ⟨f, hf, _⟩ := hl
        exact (List.getElem?_eq_some_iff.1 hf).1
      have hn1 : (S ++ [x]).Nodup := by
        rw [List.nodup_append]
        refine ⟨hn, by simp, ?_⟩
        intro p hp q hq hpq
        simp at hq; subst hq; subst hpq
        exact hx hp
      have hs1 : ∀ p ∈ S ++ [x], p < t.length := by
        intro p hp
        rcases List.mem_append.1 hp with hp | hp
        · exact hs p hp
        · simp at hp; subst hp; exact hxlt
      have hk1 : t.length ≤ k + (S ++ [x]).length := by simp; omega
      rcases hrest.after_last x with h1 | ⟨y', hedge', h1⟩
      · exact .cons hx hl hedge (ih _ _ _ hn1 hs1 hk1 h1)
      · exact .cons hx hl hedge' (ih _ _ _ hn1 hs1 hk1 h1)

theorem SP.finds {t : Table} {a : Name} (hd : a ≠ "default") {S : List Nat} {x o : Nat}
    (h : SP t a S x o) (hx : Lacks t a x) (hcl : ∀ p ∈ S, Lacks t a p) :
    ∃ d, d.src = o ∧ Finds t a S x d := by
  induction h with
  | done ho => exact absurd ho (fun h => lacks_not_has hx h)
  | @cons S x y o hxS hl hedge hrest ih =>
    have hcl1 : ∀ p ∈ S ++ [x], Lacks t a p := by
      intro p hp
      rcases List.mem_append.1 hp with hp | hp
      · exact hcl p hp
      · simp at hp; subst hp; exact hl
    cases hrest with
    | done ho =>
      obtain ⟨fo, e, hfo, he⟩ := ho
      obtain ⟨hemem, hea⟩ := entry_some he
      exact ⟨⟨y, e.ref, e.loc⟩, rfl, .here hxS hedge ⟨rfl, hd, shadowed_of_clear hcl1, fo, e, hfo, hemem, hea, rfl, rfl⟩⟩
    | cons h1 h2 h3 h4 =>
      obtain ⟨d, hds, hf⟩ := ih h2 hcl1
      exact ⟨d, hds, .deeper hxS hedge hf⟩

/-- head-recursive version of `Reach` -/
inductive ReachH (T : EsModules.Table) : Node → Node → Prop
  | refl (x : Node) : ReachH T x x
  | head {x y z : Node} : y ∈ succ T x → ReachH T y z → ReachH T x z

theorem ReachH.snoc {T : EsModules.Table} {x y z : Node} (h : ReachH T x y) (hz : z ∈ succ T y) : ReachH T x z := by
  induction h with
  | refl => exact .head hz (.refl _)
  | head h1 _ ih => exact .head h1 (ih hz)

theorem reach_toH {T : EsModules.Table} {x y : Node} (h : Reach T x y) : ReachH T x y := by
  induction h with
  | refl => exact .refl _
  | step _ hz ih => exact ih.snoc hz

theorem ReachH.toReach {T : EsModules.Table} {x y : Node} (h : ReachH T x y) : Reach T x y := by
  induction h with
  | refl => exact .refl _
  | head h1 _ ih => exact Reach.head h1 ih

/-- a file of the table either lacks the name or exports it -/
theorem lacks_or_has {t : Table} {a : Name} {x : Nat} (hx : x < t.length) : Lacks t a x ∨ Has t a x := by
  have hf : t[x]? = some t[x] := List.getElem?_eq_getElem hx
  cases he : entry t[x] a with
  | none => exact Or.inl ⟨_, hf, he⟩
  | some e => exact Or.inr ⟨_, e, hf, he⟩

theorem reachH_pw {t : Table} (hwf : WF t) (hesm : EsmOnly t) {a : Name} (hd : a ≠ "default") {x z : Node}
    (h : ReachH (toSpec t) x z) : ∀ b, term (toSpec t) z = some b → x.2 = a → Lacks t a x.1 →
    ∃ o, PW t a [] x.1 o ∧ Reaches (toSpec t) (o, a) b := by
  induction h with
  | refl x =>
    intro b hb ha hl
    obtain ⟨f, hf, he⟩ := hl
    obtain ⟨x1, x2⟩ := x
    simp only at ha hf; subst ha
    have : term (toSpec t) (x1, x2) = none := by
      simp [term, node_toSpec hwf.aliases, nodeOf_lacks hf he hd]
    rw [this] at hb; cases hb
  | @head x y z hy hrest ih =>
    intro b hb ha hl
    obtain ⟨x1, x2⟩ := x
    simp only at ha hl
    rw [ha] at hy
    obtain ⟨hy2, hedge⟩ := succ_starEdge hwf hesm hl hd hy
    obtain ⟨y1, y2⟩ := y
    simp only at hy2 hedge
    have hylt : y1 < t.length := by
      obtain ⟨_, fo, _, _, hfo, _⟩ := hedge
      exact (List.getElem?_eq_some_iff.1 hfo).1
    rcases lacks_or_has (t := t) (a := a) hylt with hyl | hyh
    · obtain ⟨o, hpw, hr⟩ := ih b hb hy2 hyl
      exact ⟨o, .cons (by simp) hl hedge hpw, hr⟩
    · refine ⟨y1, .cons (by simp) hl hedge (.done hyh), z, ?_, hb⟩
      rw [← hy2]
      exact hrest.toReach

/-- every binding reachable from a star request is reachable from the file of some export the traversal records -/
theorem reaches_finds {t : Table} (hwf : WF t) (hesm : EsmOnly t) {a : Name} (hd : a ≠ "default") {m : Nat}
    (hl : Lacks t a m) {b : ResolvedBinding} (h : Reaches (toSpec t) (m, a) b) :
    ∃ d, Finds t a [] m d ∧ Reaches (toSpec t) (d.src, a) b := by
  obtain ⟨z, hz, hb⟩ := h
  obtain ⟨o, hpw, hr⟩ := reachH_pw hwf hesm hd (reach_toH hz) b hb rfl hl
  have hsp := PW.simple t.length [] m o List.nodup_nil (by simp) (by simp) hpw
  obtain ⟨d, hds, hf⟩ := hsp.finds hd hl (by simp)
  exact ⟨d, hf, hds ▸ hr⟩

end EsbuildModel.ExportMatch
