import EsbuildModel.Lemmas.JsonStr
/-
`tryToDecodeEscapeSequences` and the string scanner on the JavaScript escape forms the tsconfig flavour takes:
`\v`, identity escapes, `\xHH`, `\u{…}`, legacy octal escapes, line continuations.
-/
namespace EsbuildModel.Json
open EsbuildModel.Spec.Json

/-- the `default:` of the escape switch -/
theorem decodeEsc_default (fl : Flavor) (b c2 : Cp) (r : List Cp) (pos : Nat) (hb : b.c = '\\')
    (h1 : c2.c ≠ 'b' ∧ c2.c ≠ 'f' ∧ c2.c ≠ 'n' ∧ c2.c ≠ 'r' ∧ c2.c ≠ 't' ∧ c2.c ≠ 'v')
    (h2 : ¬ (48 ≤ c2.c.toNat ∧ c2.c.toNat ≤ 57)) (h3 : c2.c ≠ 'x' ∧ c2.c ≠ 'u')
    (h4 : c2.c ≠ '\r' ∧ c2.c ≠ '\n' ∧ c2.c.toNat ≠ 0x2028 ∧ c2.c.toNat ≠ 0x2029)
    (h5 : fl = .json → (c2.c = '"' ∨ c2.c = '\\' ∨ c2.c = '/')) :
    decodeEsc fl .normal (b :: c2 :: r) pos = (decodeEsc fl .normal r (pos + b.w + c2.w)).cons (unitsOf c2.c.toNat) := by
  have h89 : ¬ (c2.c = '8' ∨ c2.c = '9') := by
    rintro (h | h) <;> (rw [h] at h2; exact h2 (by decide))
  have h07 : ¬ (48 ≤ c2.c.toNat ∧ c2.c.toNat ≤ 55) := by omega
  have h5' : ¬ (fl = .json ∧ ¬ (c2.c = '"' ∨ c2.c = '\\' ∨ c2.c = '/')) := by
    rintro ⟨hj, hn⟩; exact hn (h5 hj)
  rw [decodeEsc.eq_4]
  simp only [hb, h1.1, h1.2.1, h1.2.2.1, h1.2.2.2.1, h1.2.2.2.2.1, h1.2.2.2.2.2, h89, h07, h3.1, h3.2, h4.1, h4.2.1,
    h4.2.2.1, h4.2.2.2, h5', if_false, or_self, Char.reduceEq]
  simp

theorem decodeEsc_v (b c2 : Cp) (r : List Cp) (pos : Nat) (hb : b.c = '\\') (hv : c2.c = 'v') :
    decodeEsc .tsconfig .normal (b :: c2 :: r) pos = (decodeEsc .tsconfig .normal r (pos + b.w + c2.w)).cons [11] := by
  rw [decodeEsc.eq_4]
  simp [hb, hv]

theorem decodeEsc_x (b x h1 h2 : Cp) (r : List Cp) (pos : Nat) (hb : b.c = '\\') (hx : x.c = 'x') (d1 d2 : Nat)
    (e1 : hexVal h1.c = some d1) (e2 : hexVal h2.c = some d2) :
    decodeEsc .tsconfig .normal (b :: x :: h1 :: h2 :: r) pos =
      (decodeEsc .tsconfig .normal r (pos + b.w + x.w + h1.w + h2.w)).cons (unitsOf (d1 * 16 + d2)) := by
  rw [decodeEsc.eq_4]
  simp [hb, hx, e1, e2]

/-- line continuations -/
theorem decodeEsc_cont1 (b c2 : Cp) (r : List Cp) (pos : Nat) (hb : b.c = '\\')
    (hc : c2.c = '\n' ∨ c2.c.toNat = 0x2028 ∨ c2.c.toNat = 0x2029) :
    decodeEsc .tsconfig .normal (b :: c2 :: r) pos = decodeEsc .tsconfig .normal r (pos + b.w + c2.w) := by
  have hne : ∀ x : Char, x.toNat < 0x2028 → x ≠ '\n' → c2.c ≠ x := by
    intro x hx hxn heq
    rcases hc with h | h | h
    · exact hxn (heq ▸ h)
    · rw [heq] at h; omega
    · rw [heq] at h; omega
  have h07 : ¬ (48 ≤ c2.c.toNat ∧ c2.c.toNat ≤ 55) := by
    rcases hc with h | h | h
    · rw [h]; decide
    · omega
    · omega
  rw [decodeEsc.eq_4]
  simp only [hb, hne 'b' (by decide) (by decide), hne 'f' (by decide) (by decide), hne 'n' (by decide) (by decide),
    hne 'r' (by decide) (by decide), hne 't' (by decide) (by decide), hne 'v' (by decide) (by decide),
    hne '8' (by decide) (by decide), hne '9' (by decide) (by decide), hne 'x' (by decide) (by decide),
    hne 'u' (by decide) (by decide), hne '\r' (by decide) (by decide), h07, hc, if_false, if_true, or_self, Char.reduceEq]
  simp

theorem decodeEsc_contCRLF (b c2 d : Cp) (r : List Cp) (pos : Nat) (hb : b.c = '\\') (hc : c2.c = '\r') (hd : d.c = '\n') :
    decodeEsc .tsconfig .normal (b :: c2 :: d :: r) pos = decodeEsc .tsconfig .normal r (pos + b.w + c2.w + d.w) := by
  rw [decodeEsc.eq_4]
  simp [hb, hc, hd, headIs]

theorem decodeEsc_contCR (b c2 : Cp) (r : List Cp) (pos : Nat) (hb : b.c = '\\') (hc : c2.c = '\r')
    (hn : headIs r (· == '\n') = false) :
    decodeEsc .tsconfig .normal (b :: c2 :: r) pos = decodeEsc .tsconfig .normal r (pos + b.w + c2.w) := by
  rw [decodeEsc.eq_4]
  simp [hb, hc, hn]

/-- the loop inside `\u{…}` -/
def hexAcc (v : Nat) (ds : List Char) : Nat := ds.foldl (fun a c => a * 16 + hexD c) v

theorem hexAcc_ge (v : Nat) (ds : List Char) : v ≤ hexAcc v ds := by
  induction ds generalizing v with
  | nil => exact Nat.le_refl _
  | cons c t ih =>
    simp only [hexAcc, List.foldl_cons]
    have := ih (v * 16 + hexD c)
    simp only [hexAcc] at this
    omega

theorem decodeEsc_brace (ds : List Char) (hds : ∀ c ∈ ds, isHexDigit c = true) (r : List Cp) :
    ∀ (v : Nat) (isFirst : Bool) (hs pos : Nat), hexAcc v ds ≤ 0x10FFFF → (isFirst = true → ds ≠ []) →
    decodeEsc .tsconfig (.brace v false isFirst hs) (cps ds ++ cpOf '}' :: r) pos =
      (decodeEsc .tsconfig .normal r (pos + widths (cps ds) + (cpOf '}').w)).cons (unitsOf (hexAcc v ds)) := by
  induction ds with
  | nil =>
    intro v isFirst hs pos _ hf
    have : isFirst = false := by cases isFirst <;> simp_all
    subst this
    simp [decodeEsc, hexVal, LexNum.hexValOf, hexAcc]
  | cons c t ih =>
    intro v isFirst hs pos hle _
    have hc := hds c (by simp)
    have hle' : hexAcc (v * 16 + hexD c) t ≤ 0x10FFFF := by simpa [hexAcc] using hle
    have hge := hexAcc_ge (v * 16 + hexD c) t
    simp only [cps_cons, List.cons_append, decodeEsc, cpOf_c, hexVal_of_isHexDigit hc]
    have : decide (v * 16 + hexD c > 0x10FFFF) = false := by simp; omega
    simp only [this, Bool.or_false]
    rw [ih (fun x hx => hds x (List.mem_cons_of_mem _ hx)) _ false hs _ hle' (by simp)]
    simp [hexAcc, Nat.add_assoc]

theorem hexAcc_zero (ds : List Char) : hexAcc 0 ds = hexMV ds := rfl

theorem decodeEsc_ubrace (b u br : Cp) (ds : List Char) (hds : ∀ c ∈ ds, isHexDigit c = true) (hne : ds ≠ [])
    (hle : hexMV ds ≤ 0x10FFFF) (r : List Cp) (pos : Nat) (hb : b.c = '\\') (hu : u.c = 'u') (hbr : br.c = '{') :
    decodeEsc .tsconfig .normal (b :: u :: br :: (cps ds ++ cpOf '}' :: r)) pos =
      (decodeEsc .tsconfig .normal r (pos + b.w + u.w + br.w + widths (cps ds) + (cpOf '}').w)).cons (unitsOf (hexMV ds)) := by
  rw [decodeEsc.eq_4]
  simp only [hb, hu, hbr]
  simp only [Char.reduceEq, if_false, if_true, or_self, show ¬ (48 ≤ ('u' : Char).toNat ∧ ('u' : Char).toNat ≤ 55) by decide,
    ne_eq, not_true_eq_false, not_false_eq_true]
  rw [decodeEsc_brace ds hds r 0 true _ _ (by rw [hexAcc_zero]; exact hle) (fun _ => hne)]
  simp [hexAcc_zero, Nat.add_assoc]

theorem headIs_cons (c : Cp) (r : List Cp) (p : Char → Bool) : headIs (c :: r) p = p c.c := rfl

theorem oct_not_letters {c : Char} (h : isOct c = true) :
    c ≠ 'b' ∧ c ≠ 'f' ∧ c ≠ 'n' ∧ c ≠ 'r' ∧ c ≠ 't' ∧ c ≠ 'v' ∧ ¬ (c = '8' ∨ c = '9') ∧ (48 ≤ c.toNat ∧ c.toNat ≤ 55) := by
  have hr : 48 ≤ c.toNat ∧ c.toNat ≤ 55 := by simpa [isOct] using h
  refine ⟨?_, ?_, ?_, ?_, ?_, ?_, ?_, hr⟩
  any_goals (rintro rfl; revert hr; decide)
  rintro (rfl | rfl) <;> (revert hr; decide)

theorem decodeEsc_oct1 (b c2 : Cp) (r : List Cp) (pos : Nat) (hb : b.c = '\\') (h2 : isOct c2.c = true)
    (hn : headIs r isOct = false) :
    decodeEsc .tsconfig .normal (b :: c2 :: r) pos =
      (decodeEsc .tsconfig .normal r (pos + b.w + c2.w)).cons (unitsOf (c2.c.toNat - 48)) := by
  obtain ⟨a1, a2, a3, a4, a5, a6, a7, a8⟩ := oct_not_letters h2
  rw [decodeEsc.eq_4]
  simp [hb, a1, a2, a3, a4, a5, a6, a7, a8, hn]

theorem decodeEsc_oct2 (b c2 c3 : Cp) (r : List Cp) (pos : Nat) (hb : b.c = '\\') (h2 : isOct c2.c = true)
    (h3 : isOct c3.c = true)
    (hn : headIs r (fun c4 => isOct c4 && decide (((c2.c.toNat - 48) * 8 + (c3.c.toNat - 48)) * 8 + (c4.toNat - 48) < 256)) = false) :
    decodeEsc .tsconfig .normal (b :: c2 :: c3 :: r) pos =
      (decodeEsc .tsconfig .normal r (pos + b.w + c2.w + c3.w)).cons (unitsOf ((c2.c.toNat - 48) * 8 + (c3.c.toNat - 48))) := by
  obtain ⟨a1, a2, a3, a4, a5, a6, a7, a8⟩ := oct_not_letters h2
  rw [decodeEsc.eq_4]
  simp [hb, a1, a2, a3, a4, a5, a6, a7, a8, headIs_cons, h3, hn]

theorem decodeEsc_oct3 (b c2 c3 c4 : Cp) (r : List Cp) (pos : Nat) (hb : b.c = '\\') (h2 : isOct c2.c = true)
    (h3 : isOct c3.c = true) (h4 : isOct c4.c = true)
    (hlt : ((c2.c.toNat - 48) * 8 + (c3.c.toNat - 48)) * 8 + (c4.c.toNat - 48) < 256) :
    decodeEsc .tsconfig .normal (b :: c2 :: c3 :: c4 :: r) pos =
      (decodeEsc .tsconfig .normal r (pos + b.w + c2.w + c3.w + c4.w)).cons
        (unitsOf (((c2.c.toNat - 48) * 8 + (c3.c.toNat - 48)) * 8 + (c4.c.toNat - 48))) := by
  obtain ⟨a1, a2, a3, a4, a5, a6, a7, a8⟩ := oct_not_letters h2
  rw [decodeEsc.eq_4]
  simp [hb, a1, a2, a3, a4, a5, a6, a7, a8, headIs_cons, h3, h4, hlt]

/-! ## the scanner on `\` CR -/

theorem scanStr_crlf (q : Char) (c d e : Cp) (r : List Cp) (pos : Nat) (h1 : c.c = '\\') (h2 : d.c = '\r') (h3 : e.c = '\n') :
    scanStr .tsconfig q (c :: d :: e :: r) pos = (scanStr .tsconfig q r (pos + c.w + d.w + e.w)).cons [c, d, e] true := by
  simp [scanStr, h1, h2, h3, headIs]

theorem scanStr_cr (q : Char) (c d : Cp) (r : List Cp) (pos : Nat) (h1 : c.c = '\\') (h2 : d.c = '\r')
    (hn : headIs r (· == '\n') = false) :
    scanStr .tsconfig q (c :: d :: r) pos = (scanStr .tsconfig q r (pos + c.w + d.w)).cons [c, d] true := by
  rcases r with _ | ⟨e, r⟩ <;> simp [scanStr, h1, h2, hn]

/-- a run of ordinary ASCII characters -/
theorem scanStr_plains (fl : Flavor) (l : List Char) (hl : ∀ c ∈ l, c ≠ '\\' ∧ c ≠ '\r' ∧ c ≠ '\n' ∧ c ≠ '"' ∧
    c.toNat < 0x80 ∧ ¬ c.toNat < 0x20) (rest : List Cp) :
    ∀ pos, scanStr fl '"' (cps l ++ rest) pos = (scanStr fl '"' rest (pos + widths (cps l))).cons (cps l) false := by
  induction l with
  | nil => intro pos; simp
  | cons c t ih =>
    intro pos
    obtain ⟨a1, a2, a3, a4, a5, a6⟩ := hl c (by simp)
    simp only [cps_cons, List.cons_append]
    rw [scanStr_plain fl (cpOf c) _ pos a1 a2 a3 a4 (Or.inr (fun h => a6 h.2)), ih (fun x hx => hl x (List.mem_cons_of_mem _ hx))]
    simp [StrScan.cons_cons, Nat.not_le.mpr a5, Nat.add_assoc]

theorem hex_plain_facts {x : Char} (hx : isHexDigit x = true) :
    x ≠ '\\' ∧ x ≠ '\r' ∧ x ≠ '\n' ∧ x ≠ '"' ∧ x.toNat < 0x80 ∧ ¬ x.toNat < 0x20 := by
  simp only [isHexDigit, Spec.Num.hexVal?] at hx
  have hr : (48 ≤ x.toNat ∧ x.toNat ≤ 57) ∨ (97 ≤ x.toNat ∧ x.toNat ≤ 102) ∨ (65 ≤ x.toNat ∧ x.toNat ≤ 70) := by
    by_cases h1 : 48 ≤ x.toNat ∧ x.toNat ≤ 57
    · exact Or.inl h1
    · by_cases h2 : 97 ≤ x.toNat ∧ x.toNat ≤ 102
      · exact Or.inr (Or.inl h2)
      · by_cases h3 : 65 ≤ x.toNat ∧ x.toNat ≤ 70
        · exact Or.inr (Or.inr h3)
        · simp [h1, h2, h3] at hx
  refine ⟨?_, ?_, ?_, ?_, by omega, by omega⟩ <;> (rintro rfl; revert hr; decide)

theorem oct_plain_facts {x : Char} (hx : Spec.Json.isOctDigit x = true) :
    x ≠ '\\' ∧ x ≠ '\r' ∧ x ≠ '\n' ∧ x ≠ '"' ∧ x.toNat < 0x80 ∧ ¬ x.toNat < 0x20 := by
  have hr : 48 ≤ x.toNat ∧ x.toNat ≤ 55 := by simpa [Spec.Json.isOctDigit] using hx
  refine ⟨?_, ?_, ?_, ?_, by omega, by omega⟩ <;> (rintro rfl; revert hr; decide)

theorem headIs_cps (tl : List Char) (p : Char → Bool) : headIs (cps tl) p = (tl.head?.map p).getD false := by
  cases tl <;> rfl

end EsbuildModel.Json
