import EsbuildModel.Lemmas.Stdio
/-!
The fuel of the decoder model is never exhausted: with fuel `2 * len + 1` the model always comes out with one of
the three results the Go code can produce (`ok`, `ok == false`, run-time panic), and a successful `visit` always
consumes at least one byte.
-/
namespace EsbuildModel.Stdio

/-- not out of fuel, and on success fewer than `n` bytes are left -/
def Good {α : Type} (r : Res α) (n : Nat) : Prop :=
  r ≠ .outOfFuel ∧ ∀ a rest, r = .ok a rest → rest.length < n

theorem Good.ok {α : Type} {a : α} {rest : Bytes} {n : Nat} (h : rest.length < n) : Good (.ok a rest) n :=
  ⟨by simp, by intro a' rest' h'; cases h'; exact h⟩
theorem Good.fail {α : Type} {n : Nat} : Good (.fail : Res α) n := ⟨by simp, by simp⟩
theorem Good.panic {α : Type} {n : Nat} : Good (.panic : Res α) n := ⟨by simp, by simp⟩

theorem visit_step (f : Nat)
    (ihA : ∀ c bs, 2 * bs.length + 2 ≤ f → Good (visitArr f c bs) (bs.length + 1))
    (ihM : ∀ c bs, 2 * bs.length + 2 ≤ f → Good (visitMap f c bs) (bs.length + 1))
    (bs : Bytes) (hf : 2 * bs.length + 1 ≤ f + 1) : Good (visit (f + 1) bs) bs.length := by
  cases bs with
  | nil => exact Good.panic
  | cons kind bs =>
    simp only [List.length_cons] at hf ⊢
    simp only [visit]
    split
    · exact Good.ok (by omega)
    · split
      · exact Good.panic
      · exact Good.ok (by simp only [List.length_cons]; omega)
    · split
      · exact Good.fail
      · rename_i n next hr
        have := readUint32_length hr
        exact Good.ok (by omega)
    · split
      · exact Good.fail
      · rename_i s next hr
        have := readLPS_length hr
        exact Good.ok (by omega)
    · split
      · exact Good.fail
      · rename_i s next hr
        have := readLPS_length hr
        exact Good.ok (by omega)
    · split
      · exact Good.fail
      · rename_i count next hr
        have hlen := readUint32_length hr
        have ih := ihA count next (by omega)
        split
        · rename_i xs rest heq
          exact Good.ok (by have := ih.2 _ _ heq; omega)
        · exact Good.fail
        · exact Good.panic
        · rename_i heq; exact absurd heq ih.1
    · split
      · exact Good.fail
      · rename_i count next hr
        have hlen := readUint32_length hr
        have ih := ihM count next (by omega)
        split
        · rename_i xs rest heq
          exact Good.ok (by have := ih.2 _ _ heq; omega)
        · exact Good.fail
        · exact Good.panic
        · rename_i heq; exact absurd heq ih.1
    · exact Good.panic

theorem visitArr_step (f : Nat)
    (ihV : ∀ bs, 2 * bs.length + 1 ≤ f → Good (visit f bs) bs.length)
    (ihA : ∀ c bs, 2 * bs.length + 2 ≤ f → Good (visitArr f c bs) (bs.length + 1))
    (c : Nat) (bs : Bytes) (hf : 2 * bs.length + 2 ≤ f + 1) : Good (visitArr (f + 1) c bs) (bs.length + 1) := by
  cases c with
  | zero => simp only [visitArr]; exact Good.ok (by omega)
  | succ c =>
    simp only [visitArr]
    have ihv := ihV bs (by omega)
    split
    · rename_i item rest heq
      have hr := ihv.2 _ _ heq
      have iha := ihA c rest (by omega)
      split
      · rename_i items rest' heq'
        exact Good.ok (by have := iha.2 _ _ heq'; omega)
      · exact Good.fail
      · exact Good.panic
      · rename_i heq'; exact absurd heq' iha.1
    · exact Good.fail
    · exact Good.panic
    · rename_i heq; exact absurd heq ihv.1

theorem visitMap_step (f : Nat)
    (ihV : ∀ bs, 2 * bs.length + 1 ≤ f → Good (visit f bs) bs.length)
    (ihM : ∀ c bs, 2 * bs.length + 2 ≤ f → Good (visitMap f c bs) (bs.length + 1))
    (c : Nat) (bs : Bytes) (hf : 2 * bs.length + 2 ≤ f + 1) : Good (visitMap (f + 1) c bs) (bs.length + 1) := by
  cases c with
  | zero => simp only [visitMap]; exact Good.ok (by omega)
  | succ c =>
    simp only [visitMap]
    split
    · exact Good.fail
    · rename_i key next hk
      have hlen := readLPS_length hk
      have ihv := ihV next (by omega)
      split
      · rename_i item rest heq
        have hr := ihv.2 _ _ heq
        have ihm := ihM c rest (by omega)
        split
        · rename_i items rest' heq'
          exact Good.ok (by have := ihm.2 _ _ heq'; omega)
        · exact Good.fail
        · exact Good.panic
        · rename_i heq'; exact absurd heq' ihm.1
      · exact Good.fail
      · exact Good.panic
      · rename_i heq; exact absurd heq ihv.1

theorem visit_good_all : ∀ fuel,
    (∀ bs, 2 * bs.length + 1 ≤ fuel → Good (visit fuel bs) bs.length) ∧
    (∀ c bs, 2 * bs.length + 2 ≤ fuel → Good (visitArr fuel c bs) (bs.length + 1)) ∧
    (∀ c bs, 2 * bs.length + 2 ≤ fuel → Good (visitMap fuel c bs) (bs.length + 1))
  | 0 => ⟨fun _ h => by omega, fun _ _ h => by omega, fun _ _ h => by omega⟩
  | f + 1 =>
    have ih := visit_good_all f
    ⟨visit_step f ih.2.1 ih.2.2, visitArr_step f ih.1 ih.2.1, visitMap_step f ih.1 ih.2.2⟩

theorem visit_good (bs : Bytes) (fuel : Nat) (h : 2 * bs.length + 1 ≤ fuel) : Good (visit fuel bs) bs.length :=
  (visit_good_all fuel).1 bs h

end EsbuildModel.Stdio
