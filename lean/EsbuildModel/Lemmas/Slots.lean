import EsbuildModel.Impl.Slots
/-!
Helper lemmas for Props/C15Slots.lean, part A (AssignNestedScopeSlots).
-/
namespace EsbuildModel.Slots

abbrev St := List (Option Nat)

/-- what one pass over some scopes does to the slot table, with `D` the symbols it may touch and `[lo, hi)` the
range of slot numbers it hands out per namespace -/
structure Step0 (ns : List Nat) (D : List Nat) (st st' : St) (lo hi : Counts) : Prop where
  len : st'.length = st.length
  frame : ∀ j : Nat, j ∉ D → st'[j]? = st[j]?
  stable : ∀ (j : Nat) (v : Nat), st[j]? = some (some v) → st'[j]? = some (some v)
  gets : ∀ j : Nat, j ∈ D → ∀ n : Nat, ns[j]? = some n → n ≠ 4 → st[j]? = some none → ∃ v, st'[j]? = some (some v)
  range : ∀ (j : Nat) (v : Nat), st[j]? = some none → st'[j]? = some (some v) → ∃ n, ns[j]? = some n ∧ n ≠ 4 ∧ lo n ≤ v ∧ v < hi n

/-- every slot number in `[lo, hi)` of every namespace is handed to a symbol of `D` that had none -/
def Onto (ns : List Nat) (D : List Nat) (st st' : St) (lo hi : Counts) : Prop :=
  ∀ (k v : Nat), lo k ≤ v → v < hi k → ∃ j : Nat, j ∈ D ∧ ns[j]? = some k ∧ st[j]? = some none ∧ st'[j]? = some (some v)

/-- two symbols that both receive a slot in this pass and live in the same namespace receive different slots -/
def Inj (ns : List Nat) (st st' : St) : Prop :=
  ∀ (i j a : Nat), st[i]? = some none → st[j]? = some none → st'[i]? = some (some a) → st'[j]? = some (some a) →
    ns[i]? = ns[j]? → i = j

theorem Step0.refl (ns : List Nat) (st : St) (c : Counts) : Step0 ns [] st st c c :=
  ⟨rfl, fun _ _ => rfl, fun _ _ h => h, fun _ h => by simp at h, fun j v h1 h2 => by simp [h1] at h2⟩

/-- in range after ⇒ in range before, and the other way round -/
theorem Step0.some_of_some {ns D st st' lo hi} (h : Step0 ns D st st' lo hi) {j : Nat} {x : Option Nat}
    (hx : st'[j]? = some x) : ∃ y, st[j]? = some y := by
  have hl : j < st'.length := by
    rcases Nat.lt_or_ge j st'.length with h | h
    · exact h
    · rw [List.getElem?_eq_none h] at hx; cases hx
  rw [h.len] at hl
  exact ⟨st[j], List.getElem?_eq_getElem hl⟩

theorem Step0.some_of_some' {ns D st st' lo hi} (h : Step0 ns D st st' lo hi) {j : Nat} {x : Option Nat}
    (hx : st[j]? = some x) : ∃ y, st'[j]? = some y := by
  have hl : j < st.length := by
    rcases Nat.lt_or_ge j st.length with h | h
    · exact h
    · rw [List.getElem?_eq_none h] at hx; cases hx
  rw [← h.len] at hl
  exact ⟨st'[j], List.getElem?_eq_getElem hl⟩

/-- unassigned after ⇒ unassigned before -/
theorem Step0.none_of_none {ns D st st' lo hi} (h : Step0 ns D st st' lo hi) {j : Nat}
    (hx : st'[j]? = some none) : st[j]? = some none := by
  obtain ⟨y, hy⟩ := h.some_of_some hx
  cases y with
  | none => exact hy
  | some w => have := h.stable j w hy; rw [hx] at this; cases this

/-- sequential or parallel composition: the second pass starts from the table the first one left -/
theorem Step0.comp {ns D1 D2 st st1 st2 lo1 hi1 lo2 hi2 lo hi}
    (h1 : Step0 ns D1 st st1 lo1 hi1) (h2 : Step0 ns D2 st1 st2 lo2 hi2)
    (hlo1 : ∀ k, lo k ≤ lo1 k) (hlo2 : ∀ k, lo k ≤ lo2 k) (hhi1 : ∀ k, hi1 k ≤ hi k) (hhi2 : ∀ k, hi2 k ≤ hi k) :
    Step0 ns (D1 ++ D2) st st2 lo hi := by
  refine ⟨by rw [h2.len, h1.len], ?_, ?_, ?_, ?_⟩
  · intro j hj
    simp only [List.mem_append, not_or] at hj
    rw [h2.frame j hj.2, h1.frame j hj.1]
  · intro j v hv
    exact h2.stable j v (h1.stable j v hv)
  · intro j hj n hn hn4 hu
    obtain ⟨x, hx⟩ := h1.some_of_some' hu
    cases x with
    | some w => exact ⟨w, h2.stable j w hx⟩
    | none =>
      rcases List.mem_append.mp hj with hj | hj
      · obtain ⟨v, hv⟩ := h1.gets j hj n hn hn4 hu
        rw [hx] at hv; cases hv
      · exact h2.gets j hj n hn hn4 hx
  · intro j v hu hv
    obtain ⟨x, hx⟩ := h1.some_of_some' hu
    cases x with
    | some w =>
      have := h2.stable j w hx
      rw [hv] at this
      cases this
      obtain ⟨n, hn, hn4, ha, hb⟩ := h1.range j v hu hx
      exact ⟨n, hn, hn4, Nat.le_trans (hlo1 n) ha, Nat.lt_of_lt_of_le hb (hhi1 n)⟩
    | none =>
      obtain ⟨n, hn, hn4, ha, hb⟩ := h2.range j v hx hv
      exact ⟨n, hn, hn4, Nat.le_trans (hlo2 n) ha, Nat.lt_of_lt_of_le hb (hhi2 n)⟩

theorem Step0.congr {ns D D' st st' lo hi} (h : Step0 ns D st st' lo hi) (hD : ∀ j, j ∈ D ↔ j ∈ D') :
    Step0 ns D' st st' lo hi :=
  ⟨h.len, fun j hj => h.frame j (fun hj' => hj ((hD j).mp hj')), h.stable,
   fun j hj => h.gets j ((hD j).mpr hj), h.range⟩

theorem Onto.congr {ns D D' st st' lo hi} (h : Onto ns D st st' lo hi) (hD : ∀ j, j ∈ D → j ∈ D') :
    Onto ns D' st st' lo hi := by
  intro k v h1 h2
  obtain ⟨j, hj, r⟩ := h k v h1 h2
  exact ⟨j, hD j hj, r⟩

/-- sequential composition of `Onto`: ranges `[lo, mid)` then `[mid, hi)` -/
theorem Onto.comp {ns D1 D2 st st1 st2 lo mid hi lo1 hi1 lo2 hi2}
    (s1 : Step0 ns D1 st st1 lo1 hi1) (s2 : Step0 ns D2 st1 st2 lo2 hi2)
    (h1 : Onto ns D1 st st1 lo mid) (h2 : Onto ns D2 st1 st2 mid hi) :
    Onto ns (D1 ++ D2) st st2 lo hi := by
  intro k v ha hb
  rcases Nat.lt_or_ge v (mid k) with hm | hm
  · obtain ⟨j, hj, hn, hu, hv⟩ := h1 k v ha hm
    exact ⟨j, List.mem_append_left _ hj, hn, hu, s2.stable j v hv⟩
  · obtain ⟨j, hj, hn, hu, hv⟩ := h2 k v hm hb
    exact ⟨j, List.mem_append_right _ hj, hn, s1.none_of_none hu, hv⟩

-- ------------------------------------------------------------------------------------------------
-- one symbol, a list of symbols

theorem assignSym_cases {ns : List Nat} {st st' : St} {c c' : Counts} {i : Nat}
    (h : assignSym ns st c i = some (st', c')) :
    ∃ n sl, ns[i]? = some n ∧ st[i]? = some sl ∧
      ((n ≠ 4 ∧ sl = none ∧ st' = st.set i (some (c n)) ∧ c' = bump c n) ∨ (¬(n ≠ 4 ∧ sl = none) ∧ st' = st ∧ c' = c)) := by
  unfold assignSym at h
  split at h
  · next n sl hn hs =>
    refine ⟨n, sl, hn, hs, ?_⟩
    split at h
    · next hc =>
      simp only [Option.some.injEq, Prod.mk.injEq] at h
      exact Or.inl ⟨hc.1, hc.2, h.1.symm, h.2.symm⟩
    · next hc =>
      simp only [Option.some.injEq, Prod.mk.injEq] at h
      exact Or.inr ⟨hc, h.1.symm, h.2.symm⟩
  · cases h

theorem bump_le (c : Counts) (n k : Nat) : c k ≤ bump c n k := by
  unfold bump; split <;> omega

theorem assignSym_mono {ns : List Nat} {st st' : St} {c c' : Counts} {i : Nat}
    (h : assignSym ns st c i = some (st', c')) (k : Nat) : c k ≤ c' k := by
  obtain ⟨n, sl, _, _, h | h⟩ := assignSym_cases h
  · rw [h.2.2.2]; exact bump_le c n k
  · rw [h.2.2]; exact Nat.le_refl _

theorem assignSym_step {ns : List Nat} {st st' : St} {c c' : Counts} {i : Nat}
    (h : assignSym ns st c i = some (st', c')) :
    Step0 ns [i] st st' c c' ∧ Onto ns [i] st st' c c' ∧ Inj ns st st' := by
  obtain ⟨n, sl, hn, hs, h | h⟩ := assignSym_cases h
  · obtain ⟨hn4, hsl, hst, hc⟩ := h
    subst hsl hst hc
    have hi : i < st.length := by
      rcases Nat.lt_or_ge i st.length with h | h
      · exact h
      · rw [List.getElem?_eq_none h] at hs; cases hs
    refine ⟨⟨by simp, ?_, ?_, ?_, ?_⟩, ?_, ?_⟩
    · intro j hj
      simp only [List.mem_singleton] at hj
      rw [List.getElem?_set_ne (Ne.symm hj)]
    · intro j v hv
      by_cases hji : j = i
      · subst hji; rw [hs] at hv; cases hv
      · rw [List.getElem?_set_ne (Ne.symm hji)]; exact hv
    · intro j hj m hm hm4 hu
      simp only [List.mem_singleton] at hj
      subst hj
      exact ⟨c n, by rw [List.getElem?_set_self hi]⟩
    · intro j v hu hv
      by_cases hji : j = i
      · subst hji
        rw [List.getElem?_set_self hi] at hv
        simp only [Option.some.injEq] at hv
        subst hv
        exact ⟨n, hn, hn4, Nat.le_refl _, by simp [bump]⟩
      · rw [List.getElem?_set_ne (Ne.symm hji), hu] at hv; cases hv
    · intro k v ha hb
      by_cases hk : k = n
      · subst hk
        have : v = c k := by simp [bump] at hb; omega
        subst this
        exact ⟨i, by simp, hn, hs, by rw [List.getElem?_set_self hi]⟩
      · simp [bump, hk] at hb; omega
    · intro a b v ha hb hva hvb _
      by_cases hai : a = i
      · by_cases hbi : b = i
        · rw [hai, hbi]
        · rw [List.getElem?_set_ne (Ne.symm hbi), hb] at hvb; cases hvb
      · rw [List.getElem?_set_ne (Ne.symm hai), ha] at hva; cases hva
  · obtain ⟨hneg, hst, hc⟩ := h
    subst hst hc
    refine ⟨⟨rfl, fun _ _ => rfl, fun _ _ h => h, ?_, ?_⟩, ?_, ?_⟩
    · intro j hj m hm hm4 hu
      simp only [List.mem_singleton] at hj
      subst hj
      rw [hn] at hm; rw [hs] at hu
      simp only [Option.some.injEq] at hm hu
      subst hm hu
      exact absurd (And.intro hm4 rfl) hneg
    · intro j v hu hv; rw [hu] at hv; cases hv
    · intro k v ha hb; omega
    · intro a b v ha _ hva _ _; rw [ha] at hva; cases hva

theorem Inj.comp {ns D1 D2 st st1 st2 lo1 hi1 lo2 hi2}
    (s1 : Step0 ns D1 st st1 lo1 hi1) (s2 : Step0 ns D2 st1 st2 lo2 hi2) (hsep : ∀ k, hi1 k ≤ lo2 k)
    (i1 : Inj ns st st1) (i2 : Inj ns st1 st2) : Inj ns st st2 := by
  intro i j a hi hj hia hja hns
  obtain ⟨x, hx⟩ := s1.some_of_some' hi
  obtain ⟨y, hy⟩ := s1.some_of_some' hj
  cases x with
  | some w =>
    have hw := s2.stable i w hx
    rw [hia] at hw; cases hw
    cases y with
    | some w' =>
      have hw' := s2.stable j w' hy
      rw [hja] at hw'; cases hw'
      exact i1 i j a hi hj hx hy hns
    | none =>
      obtain ⟨n, hn, _, _, hb⟩ := s1.range i a hi hx
      obtain ⟨n', hn', _, ha', _⟩ := s2.range j a hy hja
      rw [hn, hn'] at hns; cases hns
      have := hsep n; omega
  | none =>
    cases y with
    | some w' =>
      have hw' := s2.stable j w' hy
      rw [hja] at hw'; cases hw'
      obtain ⟨n, hn, _, _, hb⟩ := s1.range j a hj hy
      obtain ⟨n', hn', _, ha', _⟩ := s2.range i a hx hia
      rw [hn, hn'] at hns; cases hns
      have := hsep n; omega
    | none => exact i2 i j a hx hy hia hja hns

theorem assignSyms_step {ns : List Nat} : ∀ (is : List Nat) {st st' : St} {c c' : Counts},
    assignSyms ns st c is = some (st', c') →
    (∀ k, c k ≤ c' k) ∧ Step0 ns is st st' c c' ∧ Onto ns is st st' c c' ∧ Inj ns st st'
  | [], st, st', c, c', h => by
    simp only [assignSyms, Option.some.injEq, Prod.mk.injEq] at h
    obtain ⟨rfl, rfl⟩ := h
    refine ⟨fun _ => Nat.le_refl _, Step0.refl ns st c, ?_, ?_⟩
    · intro k v h1 h2; omega
    · intro i j a hi _ hia; rw [hi] at hia; cases hia
  | i :: is, st, st', c, c', h => by
    simp only [assignSyms] at h
    split at h
    · cases h
    · next st1 c1 h1 =>
      obtain ⟨m2, s2, o2, i2⟩ := assignSyms_step is h
      obtain ⟨s1, o1, i1⟩ := assignSym_step h1
      have m1 := assignSym_mono h1
      refine ⟨fun k => Nat.le_trans (m1 k) (m2 k), ?_, ?_, ?_⟩
      · exact Step0.comp (D1 := [i]) s1 s2 (fun _ => Nat.le_refl _) m1 m2 (fun _ => Nat.le_refl _)
      · exact Onto.comp (D1 := [i]) s1 s2 o1 o2
      · exact Inj.comp s1 s2 (fun _ => Nat.le_refl _) i1 i2

theorem assignSyms_append {ns : List Nat} : ∀ (xs ys : List Nat) (st : St) (c : Counts),
    assignSyms ns st c (xs ++ ys) =
      match assignSyms ns st c xs with
      | none => none
      | some (st1, c1) => assignSyms ns st1 c1 ys
  | [], ys, st, c => by simp [assignSyms]
  | x :: xs, ys, st, c => by
    simp only [List.cons_append, assignSyms]
    cases assignSym ns st c x with
    | none => rfl
    | some p => exact assignSyms_append xs ys p.1 p.2

-- ------------------------------------------------------------------------------------------------
-- the tree walk with the label treated like a member (equal to the real walk when labels are declared once)

mutual
def helper' (ns : List Nat) : Scope → St → Counts → Option (St × Counts)
  | ⟨m, g, l, ch⟩, st, c =>
    match assignSyms ns st c (sortNat m ++ g ++ l.toList) with
    | none => none
    | some (st1, c1) => helperList' ns ch st1 c1 c1
def helperList' (ns : List Nat) : List Scope → St → Counts → Counts → Option (St × Counts)
  | [], st, _, acc => some (st, acc)
  | s :: rest, st, c, acc =>
    match helper' ns s st c with
    | none => none
    | some (st', r) => helperList' ns rest st' c (unionMax acc r)
end

theorem le_unionMax_left (a b : Counts) (k : Nat) : a k ≤ unionMax a b k := by
  unfold unionMax; split <;> omega
theorem le_unionMax_right (a b : Counts) (k : Nat) : b k ≤ unionMax a b k := by
  unfold unionMax; split <;> omega
theorem lt_unionMax (a b : Counts) (k v : Nat) (h : v < unionMax a b k) : v < a k ∨ v < b k := by
  unfold unionMax at h; split at h <;> omega

theorem mem_insertNat (a j : Nat) : ∀ l : List Nat, j ∈ insertNat a l ↔ j = a ∨ j ∈ l
  | [] => by simp [insertNat]
  | b :: bs => by
    simp only [insertNat]
    split
    · simp
    · simp only [List.mem_cons, mem_insertNat a j bs]
      constructor
      · rintro (h | h | h)
        · exact Or.inr (Or.inl h)
        · exact Or.inl h
        · exact Or.inr (Or.inr h)
      · rintro (h | h | h)
        · exact Or.inr (Or.inl h)
        · exact Or.inl h
        · exact Or.inr (Or.inr h)

theorem insertNat_sorted (a : Nat) : ∀ l : List Nat, l.Pairwise (· ≤ ·) → (insertNat a l).Pairwise (· ≤ ·)
  | [], _ => by simp [insertNat]
  | b :: bs, h => by
    simp only [insertNat]
    rw [List.pairwise_cons] at h
    split
    · next hab =>
      rw [List.pairwise_cons]
      refine ⟨fun x hx => ?_, List.pairwise_cons.mpr h⟩
      rcases List.mem_cons.mp hx with rfl | hx
      · exact hab
      · exact Nat.le_trans hab (h.1 x hx)
    · next hab =>
      rw [List.pairwise_cons]
      refine ⟨fun x hx => ?_, insertNat_sorted a bs h.2⟩
      rcases (mem_insertNat a x bs).mp hx with rfl | hx
      · omega
      · exact h.1 x hx

theorem insertNat_perm (a : Nat) : ∀ l : List Nat, (insertNat a l).Perm (a :: l)
  | [] => by simp [insertNat]
  | b :: bs => by
    simp only [insertNat]
    split
    · exact List.Perm.refl _
    · exact ((insertNat_perm a bs).cons b).trans (List.Perm.swap a b bs)

/-- `sortNat` is sort.Ints: the result is ascending and a rearrangement of the input -/
theorem sortNat_sorted (l : List Nat) : (sortNat l).Pairwise (· ≤ ·) := by
  unfold sortNat
  induction l with
  | nil => simp
  | cons a l ih => exact insertNat_sorted a _ ih

theorem sortNat_perm (l : List Nat) : (sortNat l).Perm l := by
  unfold sortNat
  induction l with
  | nil => simp
  | cons a l ih => exact (insertNat_perm a _).trans (ih.cons a)

theorem mem_sortNat (l : List Nat) (j : Nat) : j ∈ sortNat l ↔ j ∈ l := by
  unfold sortNat
  induction l with
  | nil => simp
  | cons a l ih => simp only [List.foldr_cons, mem_insertNat, ih, List.mem_cons]

mutual
theorem helper'_step {ns : List Nat} : (sc : Scope) → ∀ {st st' : St} {c r : Counts},
    helper' ns sc st c = some (st', r) →
    (∀ k, c k ≤ r k) ∧ Step0 ns (sc.all declA) st st' c r ∧ Onto ns (sc.all declA) st st' c r
  | ⟨m, g, l, ch⟩, st, st', c, r, h => by
    simp only [helper'] at h
    split at h
    · cases h
    · next st1 c1 h1 =>
      obtain ⟨m1, s1, o1, _⟩ := assignSyms_step _ h1
      obtain ⟨m2, s2, o2⟩ := helperList'_step ch h (fun _ => Nat.le_refl _)
      have hD : ∀ j, j ∈ (sortNat m ++ g ++ l.toList) ++ allList declA ch ↔ j ∈ Scope.all declA ⟨m, g, l, ch⟩ := by
        intro j; simp [Scope.all, declA, mem_sortNat]
      refine ⟨fun k => Nat.le_trans (m1 k) (m2 k), ?_, ?_⟩
      · exact (Step0.comp s1 s2 (fun _ => Nat.le_refl _) m1 m2 (fun _ => Nat.le_refl _)).congr hD
      · exact (Onto.comp s1 s2 o1 o2).congr (fun j hj => (hD j).mp hj)
theorem helperList'_step {ns : List Nat} : (ch : List Scope) → ∀ {st st' : St} {c acc r : Counts},
    helperList' ns ch st c acc = some (st', r) → (∀ k, c k ≤ acc k) →
    (∀ k, acc k ≤ r k) ∧ Step0 ns (allList declA ch) st st' c r ∧ Onto ns (allList declA ch) st st' acc r
  | [], st, st', c, acc, r, h, hc => by
    simp only [helperList', Option.some.injEq, Prod.mk.injEq] at h
    obtain ⟨rfl, rfl⟩ := h
    refine ⟨fun _ => Nat.le_refl _, ?_, ?_⟩
    · simp only [allList]
      exact ⟨rfl, fun _ _ => rfl, fun _ _ h => h, fun _ h => by simp at h, fun j v h1 h2 => by simp [h1] at h2⟩
    · intro k v h1 h2; omega
  | x :: cs, st, st', c, acc, r, h, hc => by
    simp only [helperList'] at h
    split at h
    · cases h
    · next st1 r1 h1 =>
      obtain ⟨m1, s1, o1⟩ := helper'_step x h1
      obtain ⟨m2, s2, o2⟩ := helperList'_step cs h
        (fun k => Nat.le_trans (hc k) (le_unionMax_left acc r1 k))
      have hacc : ∀ k, acc k ≤ r k := fun k => Nat.le_trans (le_unionMax_left acc r1 k) (m2 k)
      have hr1 : ∀ k, r1 k ≤ r k := fun k => Nat.le_trans (le_unionMax_right acc r1 k) (m2 k)
      refine ⟨hacc, ?_, ?_⟩
      · simp only [allList]
        exact Step0.comp s1 s2 (fun _ => Nat.le_refl _) (fun _ => Nat.le_refl _) hr1 (fun _ => Nat.le_refl _)
      · intro k v ha hb
        simp only [allList]
        rcases Nat.lt_or_ge v (unionMax acc r1 k) with hlt | hge
        · have hv : v < r1 k := by
            rcases lt_unionMax acc r1 k v hlt with h | h
            · omega
            · exact h
          obtain ⟨j, hj, hn, hu, hjv⟩ := o1 k v (Nat.le_trans (hc k) ha) hv
          exact ⟨j, List.mem_append_left _ hj, hn, hu, s2.stable j v hjv⟩
        · obtain ⟨j, hj, hn, hu, hjv⟩ := o2 k v hge hb
          exact ⟨j, List.mem_append_right _ hj, hn, s1.none_of_none hu, hjv⟩
end

/-- the part of `helperList'_step` that needs no relation between `c` and `acc` -/
theorem helperList'_step' {ns : List Nat} (ch : List Scope) {st st' : St} {c acc r : Counts}
    (h : helperList' ns ch st c acc = some (st', r)) :
    ∃ lo hi, Step0 ns (allList declA ch) st st' lo hi := by
  induction ch generalizing st acc with
  | nil =>
    simp only [helperList', Option.some.injEq, Prod.mk.injEq] at h
    obtain ⟨rfl, rfl⟩ := h
    exact ⟨c, c, by simp only [allList]; exact Step0.refl ns st c⟩
  | cons x cs ih =>
    simp only [helperList'] at h
    split at h
    · cases h
    · next st1 r1 h1 =>
      obtain ⟨_, s1, _⟩ := helper'_step x h1
      obtain ⟨lo, hi, s2⟩ := ih h
      refine ⟨fun k => min (c k) (lo k), fun k => max (r1 k) (hi k), ?_⟩
      simp only [allList]
      exact Step0.comp s1 s2 (fun k => Nat.min_le_left _ _) (fun k => Nat.min_le_right _ _)
        (fun k => Nat.le_max_left _ _) (fun k => Nat.le_max_right _ _)

-- ------------------------------------------------------------------------------------------------
-- separation

theorem mem_allList {d : Scope → List Nat} {j : Nat} : ∀ {ch : List Scope} {x : Scope}, x ∈ ch → j ∈ x.all d → j ∈ allList d ch
  | c :: cs, x, hx, hj => by
    simp only [allList, List.mem_append]
    rcases List.mem_cons.mp hx with rfl | hx
    · exact Or.inl hj
    · exact Or.inr (mem_allList hx hj)

theorem mem_all_of_decl {d : Scope → List Nat} {j : Nat} : ∀ {sc : Scope}, j ∈ d sc → j ∈ sc.all d
  | ⟨_, _, _, _⟩, h => by simp only [Scope.all, List.mem_append]; exact Or.inl h

theorem mem_all_of_child {d : Scope → List Nat} {j : Nat} : ∀ {sc x : Scope}, x ∈ sc.children → j ∈ x.all d → j ∈ sc.all d
  | ⟨_, _, _, _⟩, _, hx, h => by
    simp only [Scope.all, List.mem_append]; exact Or.inr (mem_allList hx h)

theorem Vis.mem_all {d : Scope → List Nat} {sc : Scope} {s t : Nat} (h : Vis d sc s t) : s ∈ sc.all d ∧ t ∈ sc.all d := by
  induction h with
  | here hs ht => exact ⟨mem_all_of_decl hs, mem_all_of_decl ht⟩
  | inner hc ht hs => exact ⟨mem_all_of_child hc hs, mem_all_of_decl ht⟩
  | deeper hc _ ih => exact ⟨mem_all_of_child hc ih.1, mem_all_of_child hc ih.2⟩

theorem Vis.inv {d : Scope → List Nat} {sc : Scope} {s t : Nat} (h : Vis d sc s t) :
    (s ∈ d sc ∧ t ∈ d sc) ∨ (∃ c, c ∈ sc.children ∧ t ∈ d sc ∧ s ∈ c.all d) ∨ (∃ c, c ∈ sc.children ∧ Vis d c s t) := by
  cases h with
  | here hs ht => exact Or.inl ⟨hs, ht⟩
  | inner hc ht hs => exact Or.inr (Or.inl ⟨_, hc, ht, hs⟩)
  | deeper hc hv => exact Or.inr (Or.inr ⟨_, hc, hv⟩)

/-- every renameable symbol of the enclosing scopes (and of the top level) has a slot already -/
def CtxDone (ns : List Nat) (ctx : List Nat) (st : St) : Prop :=
  ∀ i : Nat, i ∈ ctx → ∀ n : Nat, ns[i]? = some n → n ≠ 4 → st[i]? ≠ some none

theorem CtxDone.step {ns ctx D st st' lo hi} (h : CtxDone ns ctx st) (s : Step0 ns D st st' lo hi) :
    CtxDone ns (ctx ++ D) st' := by
  intro i hi n hn hn4 hu
  have hu0 := s.none_of_none hu
  rcases List.mem_append.mp hi with hi | hi
  · exact h i hi n hn hn4 hu0
  · obtain ⟨v, hv⟩ := s.gets i hi n hn hn4 hu0
    rw [hu] at hv; cases hv

theorem CtxDone.mono {ns ctx D st st' lo hi} (h : CtxDone ns ctx st) (s : Step0 ns D st st' lo hi) :
    CtxDone ns ctx st' := by
  intro i hi n hn hn4 hu
  exact (h.step s) i (List.mem_append_left _ hi) n hn hn4 hu

mutual
theorem helper'_sep {ns : List Nat} : (sc : Scope) → ∀ {st st' : St} {c r : Counts} {ctx : List Nat} {s t n : Nat},
    helper' ns sc st c = some (st', r) → sc.WF declA ctx → CtxDone ns ctx st → Vis declA sc s t → s ≠ t →
    ns[s]? = some n → ns[t]? = some n → n ≠ 4 → st[s]? = some none → st[t]? = some none →
    ∃ a b, st'[s]? = some (some a) ∧ st'[t]? = some (some b) ∧ a ≠ b
  | ⟨m, g, l, ch⟩, st, st', c, r, ctx, s, t, n, h, hwf, hctx, hvis, hst, hns, hnt, hn4, hus, hut => by
    simp only [helper'] at h
    split at h
    · cases h
    · next st1 c1 h1 =>
      obtain ⟨m1, s1', _, i1⟩ := assignSyms_step _ h1
      have hD : ∀ j, j ∈ (sortNat m ++ g ++ l.toList) ↔ j ∈ declA ⟨m, g, l, ch⟩ := by
        intro j; simp [declA, mem_sortNat]
      have s1 := s1'.congr hD
      obtain ⟨m2, s2, _⟩ := helperList'_step ch h (fun _ => Nat.le_refl _)
      obtain ⟨hs_all, ht_all⟩ := hvis.mem_all
      simp only [Scope.all, List.mem_append] at hs_all ht_all
      obtain ⟨x, hx⟩ := s1.some_of_some' hus
      obtain ⟨y, hy⟩ := s1.some_of_some' hut
      -- a symbol still without a slot after this scope's own symbols is declared further down only
      have below : ∀ j, (j ∈ declA ⟨m, g, l, ch⟩ ∨ j ∈ allList declA ch) → ns[j]? = some n → st[j]? = some none →
          st1[j]? = some none → ∃ b, st'[j]? = some (some b) ∧ c1 n ≤ b := by
        intro j hj hnj hu0 hu1
        have hjl : j ∈ allList declA ch := by
          rcases hj with hj | hj
          · obtain ⟨v, hv⟩ := s1.gets j hj n hnj hn4 hu0
            rw [hu1] at hv; cases hv
          · exact hj
        obtain ⟨b, hb⟩ := s2.gets j hjl n hnj hn4 hu1
        obtain ⟨n', hn', _, hlo, _⟩ := s2.range j b hu1 hb
        rw [hnj] at hn'; cases hn'
        exact ⟨b, hb, hlo⟩
      have above : ∀ (j a : Nat), ns[j]? = some n → st[j]? = some none → st1[j]? = some (some a) →
          st'[j]? = some (some a) ∧ a < c1 n := by
        intro j a hnj hu0 hu1
        obtain ⟨n', hn', _, _, hhi⟩ := s1.range j a hu0 hu1
        rw [hnj] at hn'; cases hn'
        exact ⟨s2.stable j a hu1, hhi⟩
      cases x with
      | some a =>
        obtain ⟨ha', ha⟩ := above s a hns hus hx
        cases y with
        | some b =>
          obtain ⟨hb', _⟩ := above t b hnt hut hy
          refine ⟨a, b, ha', hb', fun hab => ?_⟩
          subst hab
          exact hst (i1 s t a hus hut hx hy (by rw [hns, hnt]))
        | none =>
          obtain ⟨b, hb', hb⟩ := below t ht_all hnt hut hy
          exact ⟨a, b, ha', hb', by omega⟩
      | none =>
        cases y with
        | some b =>
          obtain ⟨hb', hb⟩ := above t b hnt hut hy
          obtain ⟨a, ha', ha⟩ := below s hs_all hns hus hx
          exact ⟨a, b, ha', hb', by omega⟩
        | none =>
          have hsd : s ∉ declA ⟨m, g, l, ch⟩ := fun hj => by
            obtain ⟨v, hv⟩ := s1.gets s hj n hns hn4 hus
            rw [hx] at hv; cases hv
          have htd : t ∉ declA ⟨m, g, l, ch⟩ := fun hj => by
            obtain ⟨v, hv⟩ := s1.gets t hj n hnt hn4 hut
            rw [hy] at hv; cases hv
          rcases hvis.inv with ⟨hs, _⟩ | ⟨_, _, ht, _⟩ | ⟨x, hc, hv⟩
          · exact absurd hs hsd
          · exact absurd ht htd
          · simp only [Scope.WF] at hwf
            exact helperList'_sep ch h hwf (hctx.step s1) hc hv hst hns hnt hn4 hx hy
theorem helperList'_sep {ns : List Nat} : (ch : List Scope) → ∀ {st st' : St} {c acc r : Counts} {ctx : List Nat} {x : Scope} {s t n : Nat},
    helperList' ns ch st c acc = some (st', r) → WFList declA ctx ch → CtxDone ns ctx st → x ∈ ch → Vis declA x s t → s ≠ t →
    ns[s]? = some n → ns[t]? = some n → n ≠ 4 → st[s]? = some none → st[t]? = some none →
    ∃ a b, st'[s]? = some (some a) ∧ st'[t]? = some (some b) ∧ a ≠ b
  | [], _, _, _, _, _, _, _, _, _, _, _, _, _, hx, _, _, _, _, _, _, _ => by cases hx
  | y :: cs, st, st', c, acc, r, ctx, x, s, t, n, h, hwf, hctx, hx, hvis, hst, hns, hnt, hn4, hus, hut => by
    simp only [helperList'] at h
    split at h
    · cases h
    · next st1 r1 h1 =>
      obtain ⟨_, s1, _⟩ := helper'_step y h1
      simp only [WFList] at hwf
      obtain ⟨hwfy, hwfcs, hcross⟩ := hwf
      rcases List.mem_cons.mp hx with hxy | hx
      · rw [hxy] at hvis
        obtain ⟨a, b, ha, hb, hab⟩ := helper'_sep y h1 hwfy hctx hvis hst hns hnt hn4 hus hut
        obtain ⟨_, _, s2⟩ := helperList'_step' cs h
        have keep := s2.stable
        exact ⟨a, b, keep s a ha, keep t b hb, hab⟩
      · obtain ⟨hs_all, ht_all⟩ := hvis.mem_all
        have notin : ∀ j, j ∈ x.all declA → ns[j]? = some n → st[j]? = some none → st1[j]? = some none := by
          intro j hj hnj hu
          have hjy : j ∉ y.all declA := fun hjy => by
            have := hcross j hjy (mem_allList hx hj)
            exact hctx j this n hnj hn4 hu
          rw [s1.frame j hjy]; exact hu
        exact helperList'_sep cs h hwfcs (hctx.mono s1) hx hvis hst hns hnt hn4
          (notin s hs_all hns hus) (notin t ht_all hnt hut)
end

-- ------------------------------------------------------------------------------------------------
-- the real walk equals the walk with labels as members when every label is declared exactly once

mutual
theorem labels_sub_all : (sc : Scope) → ∀ {l : Nat}, l ∈ sc.labels → l ∈ sc.all declA
  | ⟨m, g, lab, ch⟩, l, h => by
    simp only [Scope.labels, List.mem_append] at h
    simp only [Scope.all, declA, List.mem_append]
    rcases h with h | h
    · exact Or.inl (Or.inr h)
    · exact Or.inr (labelsList_sub_all ch h)
theorem labelsList_sub_all : (ch : List Scope) → ∀ {l : Nat}, l ∈ labelsList ch → l ∈ allList declA ch
  | [], l, h => by simp [labelsList] at h
  | x :: cs, l, h => by
    simp only [labelsList, List.mem_append] at h
    simp only [allList, List.mem_append]
    rcases h with h | h
    · exact Or.inl (labels_sub_all x h)
    · exact Or.inr (labelsList_sub_all cs h)
end

/-- every label symbol is of label kind, has no slot yet and is declared exactly once in the tree -/
def LabOK (ns : List Nat) (st : St) (labels all : List Nat) : Prop :=
  ∀ l : Nat, l ∈ labels → ns[l]? = some 1 ∧ st[l]? = some none ∧ all.count l = 1

theorem count_split {l : Nat} {A B : List Nat} (h : (A ++ B).count l = 1) (hl : l ∈ A) : A.count l = 1 ∧ l ∉ B := by
  rw [List.count_append] at h
  have := List.count_pos_iff.mpr hl
  have hB : B.count l = 0 := by omega
  exact ⟨by omega, List.count_eq_zero.mp hB⟩

theorem count_split' {l : Nat} {A B : List Nat} (h : (A ++ B).count l = 1) (hl : l ∈ B) : B.count l = 1 ∧ l ∉ A := by
  rw [List.count_append] at h
  have := List.count_pos_iff.mpr hl
  have hA : A.count l = 0 := by omega
  exact ⟨by omega, List.count_eq_zero.mp hA⟩

theorem assignLabel_eq {ns : List Nat} {st : St} {c : Counts} : ∀ (l : Option Nat),
    (∀ x, x ∈ l.toList → ns[x]? = some 1 ∧ st[x]? = some none) → assignLabel st c l = assignSyms ns st c l.toList
  | none, _ => by simp [assignLabel, assignSyms]
  | some x, h => by
    obtain ⟨h1, h2⟩ := h x (by simp)
    simp [assignLabel, assignSyms, assignSym, h1, h2]

mutual
theorem helper_eq {ns : List Nat} : (sc : Scope) → ∀ {st : St} {c : Counts},
    LabOK ns st sc.labels (sc.all declA) → helper ns sc st c = helper' ns sc st c
  | ⟨m, g, l, ch⟩, st, c, hlab => by
    simp only [helper, helper', assignSyms_append]
    cases h1 : assignSyms ns st c (sortNat m) with
    | none => rfl
    | some p1 =>
      obtain ⟨st1, c1⟩ := p1
      simp only
      cases h2 : assignSyms ns st1 c1 g with
      | none => rfl
      | some p2 =>
        obtain ⟨st2, c2⟩ := p2
        simp only
        obtain ⟨_, s1, _, _⟩ := assignSyms_step _ h1
        obtain ⟨_, s2, _, _⟩ := assignSyms_step _ h2
        have hl : ∀ x, x ∈ l.toList → ns[x]? = some 1 ∧ st2[x]? = some none := by
          intro x hx
          have hxl : x ∈ Scope.labels ⟨m, g, l, ch⟩ := by simp only [Scope.labels, List.mem_append]; exact Or.inl hx
          obtain ⟨hn, hu, hc⟩ := hlab x hxl
          refine ⟨hn, ?_⟩
          simp only [Scope.all, declA] at hc
          rw [List.append_assoc, List.append_assoc] at hc
          have hxm : x ∉ m ∧ x ∉ g := by
            rw [List.count_append, List.count_append, List.count_append] at hc
            have := List.count_pos_iff.mpr hx
            constructor
            · apply List.count_eq_zero.mp; omega
            · apply List.count_eq_zero.mp; omega
          rw [s2.frame x hxm.2, s1.frame x (fun h => hxm.1 ((mem_sortNat m x).mp h))]
          exact hu
        rw [assignLabel_eq l hl]
        cases h3 : assignSyms ns st2 c2 l.toList with
        | none => rfl
        | some p3 =>
          obtain ⟨st3, c3⟩ := p3
          simp only
          obtain ⟨_, s3, _, _⟩ := assignSyms_step _ h3
          apply helperList_eq ch
          intro x hx
          have hxl : x ∈ Scope.labels ⟨m, g, l, ch⟩ := by simp only [Scope.labels, List.mem_append]; exact Or.inr hx
          obtain ⟨hn, hu, hc⟩ := hlab x hxl
          simp only [Scope.all] at hc
          obtain ⟨hc', hnd⟩ := count_split' hc (labelsList_sub_all ch hx)
          refine ⟨hn, ?_, hc'⟩
          simp only [declA, List.mem_append, not_or] at hnd
          rw [s3.frame x hnd.2, s2.frame x hnd.1.2, s1.frame x (fun h => hnd.1.1 ((mem_sortNat m x).mp h))]
          exact hu
theorem helperList_eq {ns : List Nat} : (ch : List Scope) → ∀ {st : St} {c acc : Counts},
    LabOK ns st (labelsList ch) (allList declA ch) → helperList ns ch st c acc = helperList' ns ch st c acc
  | [], st, c, acc, _ => by simp [helperList, helperList']
  | y :: cs, st, c, acc, hlab => by
    simp only [helperList, helperList']
    have hy : helper ns y st c = helper' ns y st c := by
      apply helper_eq y
      intro x hx
      obtain ⟨hn, hu, hc⟩ := hlab x (by simp only [labelsList, List.mem_append]; exact Or.inl hx)
      simp only [allList] at hc
      exact ⟨hn, hu, (count_split hc (labels_sub_all y hx)).1⟩
    rw [hy]
    cases h1 : helper' ns y st c with
    | none => rfl
    | some p =>
      obtain ⟨st1, r1⟩ := p
      simp only
      obtain ⟨_, s1, _⟩ := helper'_step y h1
      apply helperList_eq cs
      intro x hx
      obtain ⟨hn, hu, hc⟩ := hlab x (by simp only [labelsList, List.mem_append]; exact Or.inr hx)
      simp only [allList] at hc
      obtain ⟨hc', hny⟩ := count_split' hc (labelsList_sub_all cs hx)
      exact ⟨hn, by rw [s1.frame x hny]; exact hu, hc'⟩
end

-- ------------------------------------------------------------------------------------------------
-- the marking loops over the module scope, and the whole of AssignNestedScopeSlots

theorem setSlots_spec {v : Option Nat} : ∀ (is : List Nat) {st st' : St}, setSlots v st is = some st' →
    st'.length = st.length ∧ (∀ j : Nat, j ∉ is → st'[j]? = st[j]?) ∧ (∀ j : Nat, j ∈ is → st'[j]? = some v)
  | [], st, st', h => by
    simp only [setSlots, Option.some.injEq] at h
    subst h
    exact ⟨rfl, fun _ _ => rfl, fun _ h => by simp at h⟩
  | i :: is, st, st', h => by
    simp only [setSlots] at h
    split at h
    · cases h
    · next x hx =>
      have hi : i < st.length := by
        rcases Nat.lt_or_ge i st.length with h | h
        · exact h
        · rw [List.getElem?_eq_none h] at hx; cases hx
      obtain ⟨hl, hf, hs⟩ := setSlots_spec is h
      refine ⟨by rw [hl]; simp, ?_, ?_⟩
      · intro j hj
        simp only [List.mem_cons, not_or] at hj
        rw [hf j hj.2, List.getElem?_set_ne (Ne.symm hj.1)]
      · intro j hj
        by_cases hji : j ∈ is
        · exact hs j hji
        · rcases List.mem_cons.mp hj with rfl | hj
          · rw [hf j hji, List.getElem?_set_self hi]
          · exact absurd hj hji

/-- the facts about a run of AssignNestedScopeSlots that the property theorems are read off from -/
theorem assignNested_facts {ns : List Nat} {module : Scope} {st0 st' : St} {r : Counts}
    (h : assignNested ns module st0 = some (st', r))
    (hlen : ns.length = st0.length)
    (hfresh : ∀ (j : Nat) (x : Option Nat), st0[j]? = some x → x = none)
    (hkind : ∀ l : Nat, l ∈ labelsList module.children → ns[l]? = some 1)
    (honce : ∀ l : Nat, l ∈ labelsList module.children → (declB module ++ allList declA module.children).count l = 1) :
    ∃ st1 st2, helperList' ns module.children st1 zero zero = some (st2, r) ∧
      (∀ j : Nat, j ∉ declB module → st1[j]? = st0[j]?) ∧
      (∀ j : Nat, j ∈ declB module → st1[j]? = some (some 1)) ∧
      (∀ j : Nat, j ∉ declB module → st'[j]? = st2[j]?) ∧
      (∀ j : Nat, j ∈ declB module → st'[j]? = some none) := by
  unfold assignNested at h
  split at h
  · cases h
  · next st1 h1 =>
    split at h
    · cases h
    · next st2 r' h2 =>
      split at h
      · cases h
      · next st3 h3 =>
        simp only [Option.some.injEq, Prod.mk.injEq] at h
        obtain ⟨rfl, rfl⟩ := h
        obtain ⟨_, f1, m1⟩ := setSlots_spec _ h1
        obtain ⟨_, f3, m3⟩ := setSlots_spec _ h3
        refine ⟨st1, st2, ?_, f1, m1, f3, m3⟩
        rw [← helperList_eq module.children ?_]
        · exact h2
        · intro l hl
          have hc := honce l hl
          obtain ⟨hc', hnd⟩ := count_split' hc (labelsList_sub_all _ hl)
          refine ⟨hkind l hl, ?_, hc'⟩
          rw [f1 l hnd]
          have hl' : l < st0.length := by
            rw [← hlen]
            rcases Nat.lt_or_ge l ns.length with h | h
            · exact h
            · have := hkind l hl; rw [List.getElem?_eq_none h] at this; cases this
          rw [List.getElem?_eq_getElem hl']
          congr 1
          exact hfresh l _ (List.getElem?_eq_getElem hl')

/-- the namespace column of a symbol table -/
abbrev nsOf (syms : List Sym) (i : Nat) : Option Nat := (syms[i]?).map (·.ns)

theorem assignNestedScopeSlots_facts {module : Scope} {syms : List Sym} {st' : St} {r : Counts}
    (h : assignNestedScopeSlots module syms = some (st', r))
    (hfresh : ∀ sym, sym ∈ syms → sym.slot = none)
    (hkind : ∀ l, l ∈ labelsList module.children → nsOf syms l = some 1)
    (honce : ∀ l, l ∈ labelsList module.children → (declB module ++ allList declA module.children).count l = 1) :
    ∃ st1 st2, helperList' (syms.map (·.ns)) module.children st1 zero zero = some (st2, r) ∧
      (∀ j : Nat, j ∉ declB module → st1[j]? = (syms[j]?).map (fun _ => none)) ∧
      (∀ j : Nat, j ∈ declB module → st1[j]? = some (some 1)) ∧
      (∀ j : Nat, j ∉ declB module → st'[j]? = st2[j]?) ∧
      (∀ j : Nat, j ∈ declB module → st'[j]? = some none) := by
  have hfresh' : ∀ (j : Nat) (x : Option Nat), (syms.map (·.slot))[j]? = some x → x = none := by
    intro j x hx
    rw [List.getElem?_map] at hx
    cases hs : syms[j]? with
    | none => rw [hs] at hx; cases hx
    | some sym =>
      rw [hs] at hx
      simp only [Option.map_some, Option.some.injEq] at hx
      rw [← hx]
      exact hfresh sym (List.mem_of_getElem? hs)
  obtain ⟨st1, st2, h2, f1, m1, f3, m3⟩ := assignNested_facts h (by simp)
    hfresh' (fun l hl => by have := hkind l hl; simpa [nsOf, List.getElem?_map] using this) honce
  refine ⟨st1, st2, h2, ?_, m1, f3, m3⟩
  intro j hj
  rw [f1 j hj, List.getElem?_map]
  cases hs : syms[j]? with
  | none => rfl
  | some sym => simp [hfresh sym (List.mem_of_getElem? hs)]


end EsbuildModel.Slots
