import EsbuildModel.Lemmas.LexNumSound
/-
Character-level facts of the integer branch: which characters each radix accepts.
-/
namespace EsbuildModel.LexNum
open EsbuildModel.Spec.Num EsbuildModel.Spec.NumLit

theorem digitOK_2 (d : Nat) : digitOK 2 false d = decide (d < 2) := by
  unfold digitOK
  by_cases h2 : d < 2 <;> by_cases h8 : d < 8 <;> by_cases h10 : d < 10 <;> simp [h2, h8, h10]
theorem digitOK_8 (d : Nat) : digitOK 8 false d = decide (d < 8) := by
  unfold digitOK
  by_cases h2 : d < 2 <;> by_cases h8 : d < 8 <;> by_cases h10 : d < 10 <;> simp [h2, h8, h10] <;> omega
theorem digitOK_16 (d : Nat) : digitOK 16 false d = true := by
  unfold digitOK
  by_cases h2 : d < 2 <;> by_cases h8 : d < 8 <;> by_cases h10 : d < 10 <;> simp [h2, h8, h10]
theorem digitOK_legacy (d : Nat) : digitOK 8 true d = decide (d < 10) := by
  unfold digitOK
  by_cases h2 : d < 2 <;> by_cases h8 : d < 8 <;> by_cases h10 : d < 10 <;> simp [h2, h8, h10] <;> omega

theorem hexValOf_cases (c : Char) :
    (48 ≤ c.toNat ∧ c.toNat ≤ 57 ∧ hexValOf c = some (c.toNat - 48)) ∨
    (97 ≤ c.toNat ∧ c.toNat ≤ 102 ∧ hexValOf c = some (c.toNat - 87)) ∨
    (65 ≤ c.toNat ∧ c.toNat ≤ 70 ∧ hexValOf c = some (c.toNat - 55)) ∨
    (hexValOf c = none ∧ ¬ (48 ≤ c.toNat ∧ c.toNat ≤ 57) ∧ ¬ (97 ≤ c.toNat ∧ c.toNat ≤ 102) ∧ ¬ (65 ≤ c.toNat ∧ c.toNat ≤ 70)) := by
  unfold hexValOf
  by_cases h1 : 48 ≤ c.toNat ∧ c.toNat ≤ 57
  · simp [h1]
  · by_cases h2 : 97 ≤ c.toNat ∧ c.toNat ≤ 102
    · simp [h1, h2]
    · by_cases h3 : 65 ≤ c.toNat ∧ c.toNat ≤ 70
      · simp [h1, h2, h3]
      · simp [h1, h2, h3]

theorem intD_radix (r : Radix) (c : Char) : intD r.base false c = r.isDigit c := by
  have hh : isHexDigit c = (hexValOf c).isSome := rfl
  rcases hexValOf_cases c with ⟨h1, h2, h3⟩ | ⟨h1, h2, h3⟩ | ⟨h1, h2, h3⟩ | ⟨h3, h4, h5, h6⟩
  · cases r
    · simp only [intD, h3, Radix.base, Radix.isDigit, digitOK_2, isBinDigit]
      by_cases h : c.toNat - 48 < 2
      · simp [h]; omega
      · simp [h]; omega
    · simp only [intD, h3, Radix.base, Radix.isDigit, digitOK_8, isOctDigit]
      by_cases h : c.toNat - 48 < 8
      · simp [h]; omega
      · simp [h]; omega
    · simp only [intD, h3, Radix.base, Radix.isDigit, digitOK_16, hh]; rfl
  · cases r
    · simp only [intD, h3, Radix.base, Radix.isDigit, digitOK_2, isBinDigit]
      have : ¬ c.toNat - 87 < 2 := by omega
      simp [this]; omega
    · simp only [intD, h3, Radix.base, Radix.isDigit, digitOK_8, isOctDigit]
      have : ¬ c.toNat - 87 < 8 := by omega
      simp [this]; omega
    · simp only [intD, h3, Radix.base, Radix.isDigit, digitOK_16, hh]; rfl
  · cases r
    · simp only [intD, h3, Radix.base, Radix.isDigit, digitOK_2, isBinDigit]
      have : ¬ c.toNat - 55 < 2 := by omega
      simp [this]; omega
    · simp only [intD, h3, Radix.base, Radix.isDigit, digitOK_8, isOctDigit]
      have : ¬ c.toNat - 55 < 8 := by omega
      simp [this]; omega
    · simp only [intD, h3, Radix.base, Radix.isDigit, digitOK_16, hh]; rfl
  · cases r
    · simp only [intD, h3, Radix.isDigit, isBinDigit]; simp; omega
    · simp only [intD, h3, Radix.isDigit, isOctDigit]; simp; omega
    · simp only [intD, h3, Radix.isDigit, hh]; rfl

theorem intD_legacy (c : Char) : intD 8 true c = isDig c := by
  rcases hexValOf_cases c with ⟨h1, h2, h3⟩ | ⟨h1, h2, h3⟩ | ⟨h1, h2, h3⟩ | ⟨h3, h4, h5, h6⟩
  · simp only [intD, h3, digitOK_legacy, isDig]
    have : c.toNat - 48 < 10 := by omega
    simp [this, h1, h2]
  · simp only [intD, h3, digitOK_legacy, isDig]
    have : ¬ c.toNat - 87 < 10 := by omega
    simp [this]; omega
  · simp only [intD, h3, digitOK_legacy, isDig]
    have : ¬ c.toNat - 55 < 10 := by omega
    simp [this]; omega
  · simp only [intD, h3, isDig]; simp; omega

theorem intD_lt (r : Radix) {c : Char} (h : intD r.base false c = true) : ∃ d, hexValOf c = some d ∧ d < r.base := by
  cases hv : hexValOf c with
  | none => simp [intD, hv] at h
  | some d =>
    refine ⟨d, rfl, ?_⟩
    simp only [intD, hv] at h
    have hd16 : d < 16 := by
      rcases hexValOf_cases c with ⟨h1, h2, h3⟩ | ⟨h1, h2, h3⟩ | ⟨h1, h2, h3⟩ | ⟨h3, _⟩ <;> rw [hv] at h3
      · simp only [Option.some.injEq] at h3; omega
      · simp only [Option.some.injEq] at h3; omega
      · simp only [Option.some.injEq] at h3; omega
      · cases h3
    cases r
    · simpa [Radix.base, digitOK_2] using h
    · simpa [Radix.base, digitOK_8] using h
    · exact hd16

theorem is89_iff (c : Char) : is89 c = (c == '8' || c == '9') := by
  by_cases h8 : c = '8'
  · subst h8; decide
  · by_cases h9 : c = '9'
    · subst h9; decide
    · have e8 : (c == '8') = false := by simpa using h8
      have e9 : (c == '9') = false := by simpa using h9
      rw [e8, e9]
      have n8 : c.toNat ≠ 56 := fun h => h8 (char_of_toNat h)
      have n9 : c.toNat ≠ 57 := fun h => h9 (char_of_toNat h)
      rcases hexValOf_cases c with ⟨h1, h2, h3⟩ | ⟨h1, h2, h3⟩ | ⟨h1, h2, h3⟩ | ⟨h3, h4, h5, h6⟩
      · simp only [is89, h3, d89]; simp; omega
      · simp only [is89, h3, d89]; simp; omega
      · simp only [is89, h3, d89]; simp; omega
      · simp only [is89, h3]; rfl

/-- a decimal digit that is not 8 or 9 is an octal digit -/
theorem octal_of_not89 {c : Char} (hd : isDig c = true) (h : is89 c = false) :
    isOctDigit c = true ∧ ∃ d, hexValOf c = some d ∧ d < 8 := by
  simp only [isDig, Bool.and_eq_true, decide_eq_true_eq] at hd
  rcases hexValOf_cases c with ⟨h1, h2, h3⟩ | ⟨h1, h2, h3⟩ | ⟨h1, h2, h3⟩ | ⟨h3, h4, h5, h6⟩
  · simp only [is89, h3, d89] at h
    have hlt : c.toNat - 48 < 8 := by
      simp only [Bool.and_eq_false_iff, decide_eq_false_iff_not] at h; omega
    exact ⟨by simp [isOctDigit]; omega, _, h3, hlt⟩
  · omega
  · omega
  · exact absurd hd h4

end EsbuildModel.LexNum
