import EsbuildModel.Spec.JsonDialects
/-
Dialects are ordered: a derivation that is well-formed in a dialect is well-formed, with the same text and the same
value, in every dialect that allows at least as much.  In particular RFC 8259 ⊆ `esbuildStrict` ⊆ `esbuildTsconfig`.
-/
namespace EsbuildModel.Spec.Json

theorem rfc_le_strict : Dialect.le rfc8259 esbuildStrict := by
  constructor <;> simp [rfc8259]

theorem strict_le_tsconfig : Dialect.le esbuildStrict esbuildTsconfig := by
  constructor <;> simp [esbuildStrict, esbuildTsconfig, rfc8259]

section
variable {a b : Dialect} (h : Dialect.le a b)
include h

theorem Sep.ok_mono : ∀ (fin nl : Bool) (s : List SepItem), Sep.ok a fin nl s = true → Sep.ok b fin nl s = true := by
  intro fin nl s
  induction s generalizing nl with
  | nil => intro _; rfl
  | cons it t ih =>
    intro hs
    cases it with
    | ws c =>
      simp only [Sep.ok, Bool.and_eq_true, Bool.or_eq_true] at hs ⊢
      exact ⟨hs.1.imp id (h.extraWs c), ih _ hs.2⟩
    | line x =>
      simp only [Sep.ok, Bool.and_eq_true] at hs ⊢
      exact ⟨⟨⟨h.lineComments hs.1.1.1, hs.1.1.2⟩, hs.1.2⟩, ih _ hs.2⟩
    | block x =>
      simp only [Sep.ok, Bool.and_eq_true] at hs ⊢
      exact ⟨⟨h.blockComments hs.1.1, hs.1.2⟩, ih _ hs.2⟩
    | htmlOpen x =>
      simp only [Sep.ok, Bool.and_eq_true] at hs ⊢
      exact ⟨⟨⟨h.htmlComments hs.1.1.1, hs.1.1.2⟩, hs.1.2⟩, ih _ hs.2⟩
    | htmlClose x =>
      simp only [Sep.ok, Bool.and_eq_true] at hs ⊢
      exact ⟨⟨⟨⟨h.htmlComments hs.1.1.1.1, hs.1.1.1.2⟩, hs.1.1.2⟩, hs.1.2⟩, ih _ hs.2⟩

theorem SChar.ok_mono (next : Option Char) (c : SChar) (hc : c.ok a next = true) : c.ok b next = true := by
  cases c with
  | lit x =>
    simp only [SChar.ok, Bool.and_eq_true] at hc ⊢
    refine ⟨hc.1, ?_⟩
    cases hb : b.jsStrings with
    | false =>
      cases ha : a.jsStrings with
      | false => simpa [ha] using hc.2
      | true => rw [h.jsStrings ha] at hb; cases hb
    | true =>
      cases ha : a.jsStrings with
      | true => simpa [ha] using hc.2
      | false =>
        have : x.toNat ≥ 0x20 := by simpa [ha] using hc.2
        simp only [if_true, Bool.not_eq_true', Bool.or_eq_false_iff, beq_eq_false_iff_ne, ne_eq]
        constructor <;> (rintro rfl; revert this; decide)
  | esc x =>
    simp only [SChar.ok, Bool.or_eq_true, Bool.and_eq_true] at hc ⊢
    rcases hc with (hc | hc) | hc
    · exact Or.inl (Or.inl hc)
    · exact Or.inl (Or.inr ⟨h.escape89 hc.1, hc.2⟩)
    · exact Or.inr ⟨h.jsStrings hc.1, hc.2⟩
  | u _ _ _ _ => exact hc
  | x _ _ =>
    simp only [SChar.ok, Bool.and_eq_true] at hc ⊢
    exact ⟨⟨h.jsStrings hc.1.1, hc.1.2⟩, hc.2⟩
  | ubrace ds =>
    simp only [SChar.ok, Bool.and_eq_true] at hc ⊢
    exact ⟨⟨⟨h.jsStrings hc.1.1.1, hc.1.1.2⟩, hc.1.2⟩, hc.2⟩
  | oct ds =>
    simp only [SChar.ok, Bool.and_eq_true] at hc ⊢
    exact ⟨⟨h.jsStrings hc.1.1, hc.1.2⟩, hc.2⟩
  | cont lt =>
    simp only [SChar.ok, Bool.and_eq_true] at hc ⊢
    exact ⟨h.jsStrings hc.1, hc.2⟩

theorem strOk_mono (cs : List SChar) (hc : strOk a cs = true) : strOk b cs = true := by
  induction cs with
  | nil => rfl
  | cons c t ih =>
    simp only [strOk, Bool.and_eq_true] at hc ⊢
    exact ⟨SChar.ok_mono h _ c hc.1, ih hc.2⟩

theorem JNum.ok_mono (n : JNum) (hn : n.ok a = true) : n.ok b = true := by
  simp only [JNum.ok, Bool.or_eq_true, Bool.and_eq_true] at hn ⊢
  rcases hn with ⟨h1, h2⟩ | ⟨⟨⟨⟨h1, h2⟩, h3⟩, h4⟩, h5⟩
  · left
    refine ⟨?_, h2⟩
    cases hl : n.lit with
    | dec i f e =>
      rw [hl] at h1
      simp only [rfcLit, Bool.and_eq_true, Bool.or_eq_true] at h1 ⊢
      exact ⟨⟨h1.1.1.imp id (fun x => ⟨h.leadingZero89 x.1, x.2⟩), h1.1.2⟩, h1.2⟩
    | legacyOctal ds => rw [hl] at h1; simp [rfcLit] at h1
    | nonDec r u ds => rw [hl] at h1; simp [rfcLit] at h1
    | bigDec ds => rw [hl] at h1; simp [rfcLit] at h1
    | bigNonDec r u ds => rw [hl] at h1; simp [rfcLit] at h1
  · right
    refine ⟨⟨⟨⟨h.jsNumbers h1, h2⟩, h3⟩, h4⟩, ?_⟩
    rcases h5 with h5 | h5
    · exact Or.inl h5
    · exact Or.inr ⟨h5.1, Sep.ok_mono h _ _ _ h5.2⟩

theorem trailingOk_mono (tr : Option (List SepItem)) (ht : trailingOk a tr = true) : trailingOk b tr = true := by
  cases tr with
  | none => rfl
  | some s =>
    simp only [trailingOk, Bool.and_eq_true] at ht ⊢
    exact ⟨h.trailingCommas ht.1, Sep.ok_mono h _ _ _ ht.2⟩

mutual
theorem Val.ok_mono (v : Val) (hv : v.ok a = true) : v.ok b = true := by
  cases v with
  | null => rfl
  | tt => rfl
  | ff => rfl
  | num n => exact JNum.ok_mono h n hv
  | str cs => exact strOk_mono h cs hv
  | arr0 s => exact Sep.ok_mono h _ _ s hv
  | arr es => exact Elems.ok_mono es hv
  | obj0 s => exact Sep.ok_mono h _ _ s hv
  | obj ms => exact Members.ok_mono ms hv
theorem Elems.ok_mono (es : Elems) (he : es.ok a = true) : es.ok b = true := by
  cases es with
  | last s1 v s2 tr =>
    simp only [Elems.ok, Bool.and_eq_true] at he ⊢
    exact ⟨⟨⟨Sep.ok_mono h _ _ _ he.1.1.1, Val.ok_mono v he.1.1.2⟩, Sep.ok_mono h _ _ _ he.1.2⟩, trailingOk_mono h _ he.2⟩
  | cons s1 v s2 rest =>
    simp only [Elems.ok, Bool.and_eq_true] at he ⊢
    exact ⟨⟨⟨Sep.ok_mono h _ _ _ he.1.1.1, Val.ok_mono v he.1.1.2⟩, Sep.ok_mono h _ _ _ he.1.2⟩, Elems.ok_mono rest he.2⟩
theorem Members.ok_mono (ms : Members) (hm : ms.ok a = true) : ms.ok b = true := by
  cases ms with
  | last s1 k s2 s3 v s4 tr =>
    simp only [Members.ok, Bool.and_eq_true] at hm ⊢
    obtain ⟨⟨⟨⟨⟨⟨h1, h2⟩, h3⟩, h4⟩, h5⟩, h6⟩, h7⟩ := hm
    exact ⟨⟨⟨⟨⟨⟨Sep.ok_mono h _ _ _ h1, strOk_mono h _ h2⟩, Sep.ok_mono h _ _ _ h3⟩, Sep.ok_mono h _ _ _ h4⟩,
      Val.ok_mono v h5⟩, Sep.ok_mono h _ _ _ h6⟩, trailingOk_mono h _ h7⟩
  | cons s1 k s2 s3 v s4 rest =>
    simp only [Members.ok, Bool.and_eq_true] at hm ⊢
    obtain ⟨⟨⟨⟨⟨⟨h1, h2⟩, h3⟩, h4⟩, h5⟩, h6⟩, h7⟩ := hm
    exact ⟨⟨⟨⟨⟨⟨Sep.ok_mono h _ _ _ h1, strOk_mono h _ h2⟩, Sep.ok_mono h _ _ _ h3⟩, Sep.ok_mono h _ _ _ h4⟩,
      Val.ok_mono v h5⟩, Sep.ok_mono h _ _ _ h6⟩, Members.ok_mono rest h7⟩
end

theorem Doc.ok_mono (t : Doc) (ht : t.ok a = true) : t.ok b = true := by
  simp only [Doc.ok, Bool.and_eq_true] at ht ⊢
  exact ⟨⟨Sep.ok_mono h _ _ _ ht.1.1, Val.ok_mono h t.v ht.1.2⟩, Sep.ok_mono h _ _ _ ht.2⟩

/-- a text of dialect `a` is a text of dialect `b`, with the same value -/
theorem Parses.mono {R : Rat → F64} {text : List Char} {v : JsVal} (hp : Parses a R text v) : Parses b R text v := by
  obtain ⟨t, h1, h2, h3⟩ := hp
  exact ⟨t, Doc.ok_mono h t h1, h2, h3⟩

end
end EsbuildModel.Spec.Json
