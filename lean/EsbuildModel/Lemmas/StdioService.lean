import EsbuildModel.Lemmas.StdioFraming
import EsbuildModel.Lemmas.StdioRoundtrip
/-!
The synchronous part of `handleIncomingPacket` and the whole `runService` loop.
-/
namespace EsbuildModel.Stdio

/-- the two shapes of a synchronous response value -/
def IsResponseValue (v : Val) : Prop := v = .map [] ∨ ∃ msg, v = .map [(ascii "error", .str msg)]

theorem withKey_respond {request : List (Bytes × Val)} {k : Handled} {f : Bytes}
    (h : withKey request k = .respond f) : k = .respond f := by
  unfold withKey at h
  split at h
  · exact h
  · cases h

theorem handle_respond_form {body f : Bytes} (h : handle body = .respond f) :
    ∃ p rest, decodePacket body = .ok p rest ∧ p.isRequest = true ∧
      ∃ v, IsResponseValue v ∧ f = encodePacket ⟨v, p.id, false⟩ := by
  unfold handle at h
  split at h
  · cases h
  · cases h
  · cases h
  · rename_i p rest hd
    refine ⟨p, rest, hd, ?_⟩
    split at h
    · cases h
    · rename_i hreq
      refine ⟨by simpa using hreq, ?_⟩
      split at h
      · split at h
        · repeat' split at h
          all_goals first
            | (cases h; done)
            | (have h' := withKey_respond h; simp only [errorResponse, emptyResponse, Handled.respond.injEq] at h'
               exact ⟨_, by simp [IsResponseValue], h'.symm⟩)
            | (simp only [errorResponse, Handled.respond.injEq] at h
               exact ⟨_, by simp [IsResponseValue], h.symm⟩)
            | (cases h; exact ⟨_, by simp [IsResponseValue], rfl⟩)
        · cases h
      · cases h

theorem decodePacket_id_lt {body rest : Bytes} {p : Packet} (hb : ∀ b ∈ body, b < 256)
    (h : decodePacket body = .ok p rest) : p.id < 2147483648 := by
  unfold decodePacket at h
  split at h
  · cases h
  · rename_i w bs hr
    have hw := readUint32_lt hb hr
    split at h
    · split at h
      · cases h
      · simp only [Res.ok.injEq] at h
        rw [← h.1]
        simp only
        omega
    · cases h
    · cases h
    · cases h

theorem IsResponseValue.sorted {v : Val} (h : IsResponseValue v) : MapsSorted v := by
  rcases h with rfl | ⟨msg, rfl⟩
  · simp [MapsSorted, KeysSorted, AllSortedKV]
  · simp [MapsSorted, KeysSorted, AllSortedKV]

theorem IsResponseValue.wire {v : Val} (h : IsResponseValue v) : wireV v = v := by
  rcases h with rfl | ⟨msg, rfl⟩
  · simp [wireV, wireKVs]
  · simp [wireV, wireKVs]

/-- a synchronous response is a well-formed packet that decodes to a RESPONSE carrying the id of the request -/
theorem handle_respond_id {body f : Bytes} (hb : ∀ b ∈ body, b < 256) (hf : f.length < 4294967296)
    (h : handle body = .respond f) :
    ∃ p rest v fb, decodePacket body = .ok p rest ∧ p.isRequest = true ∧
      readLPS f = some (fb, []) ∧ decodePacket fb = .ok ⟨v, p.id, false⟩ [] := by
  obtain ⟨p, rest, hd, hreq, v, hv, hfe⟩ := handle_respond_form h
  have hid := decodePacket_id_lt hb hd
  subst hfe
  have hlen : (encBody ⟨v, p.id, false⟩).length < 4294967296 := by
    simp only [encodePacket, List.length_append, u32le_length] at hf; omega
  refine ⟨p, rest, v, encBody ⟨v, p.id, false⟩, hd, hreq, ?_, ?_⟩
  · have := readLPS_encodePacket ⟨v, p.id, false⟩ [] hlen
    rwa [List.append_nil] at this
  · have := decodePacket_encBody ⟨v, p.id, false⟩ hv.sorted (by rw [encBody_length] at hlen; simp only at hlen ⊢; omega)
    rw [this]
    simp only [hv.wire, Nat.mod_eq_of_lt hid]

/-! ### the loop -/

/-- output of one batch of packets followed by another: a panic in the first batch ends everything -/
def seqOut (a b : List Bytes × Ending) : List Bytes × Ending :=
  match a with
  | (out, .eof) => (out ++ b.1, b.2)
  | (out, e) => (out, e)

theorem handleAll_append (ps qs : List Bytes) : handleAll (ps ++ qs) = seqOut (handleAll ps) (handleAll qs) := by
  induction ps with
  | nil => simp [handleAll, seqOut]
  | cons p ps ih =>
    simp only [List.cons_append, handleAll]
    split
    · exact ih
    · rw [ih]
      rcases handleAll ps with ⟨out, e⟩
      cases e <;> simp [seqOut]
    · simp [seqOut]
    · simp [seqOut]
    · simp [seqOut]

theorem runFraming_total : ∀ (chunks : List Bytes) (stream : Bytes), runFraming stream chunks ≠ none
  | [], _ => by simp [runFraming]
  | c :: cs, stream => by
    simp only [runFraming]
    split
    · simp
    · split
      · rename_i h; exact absurd h (frames_total _)
      · rename_i ps left _
        split
        · rename_i h; exact absurd h (runFraming_total cs left)
        · simp

/-- `runService` = split the stream (chunk by chunk), hand every packet to the handler in order -/
theorem serve_eq : ∀ (chunks : List Bytes) (stream : Bytes),
    serve stream chunks = match runFraming stream chunks with
      | none => none
      | some (ps, _) => some (handleAll ps)
  | [], stream => by simp [serve, runFraming, handleAll]
  | c :: cs, stream => by
    simp only [serve, runFraming]
    split
    · simp [handleAll]
    · cases hfr : frames (stream ++ c) with
      | none => rfl
      | some r =>
        obtain ⟨ps, left⟩ := r
        simp only
        have ih := serve_eq cs left
        cases hrf : runFraming left cs with
        | none => exact absurd hrf (runFraming_total cs left)
        | some r' =>
          obtain ⟨qs, left'⟩ := r'
          rw [hrf] at ih
          simp only at ih ⊢
          rw [handleAll_append]
          rcases hha : handleAll ps with ⟨out, e⟩
          cases e
          · simp only [ih, seqOut]
          all_goals simp [seqOut]

end EsbuildModel.Stdio
