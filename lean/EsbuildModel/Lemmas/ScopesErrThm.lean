import EsbuildModel.Lemmas.ScopesSpecErr
/-!
Assembling: a redeclaration error reported by the model of the parser on a program of Spec/JsScopes.lean implies an
ECMAScript early error.
-/
namespace EsbuildModel.Scopes
open JsScopes

mutual
/-- Scope.RecursiveSetStrictMode at the level of kinds -/
def aSetStrictRec (m : Strict) : AT → AT
  | .node f kids => if f.strict = 0 then .node { f with strict := m } (aSetStrictRecList m kids) else .node f kids
def aSetStrictRecList (m : Strict) : List AT → List AT
  | [] => []
  | k :: ks => aSetStrictRec m k :: aSetStrictRecList m ks
end

mutual
theorem setStrictRec_rel (m : Strict) {syms : Syms} : ∀ {sc : Sc} {at_ : AT}, RelT syms sc at_ →
    RelT syms (setStrictRec m sc) (aSetStrictRec m at_)
  | .node f ks, .node af aks, h => by
    simp only [RelT] at h
    simp only [setStrictRec, aSetStrictRec]
    rw [← h.1.strict]
    split
    · simp only [RelT]
      exact ⟨⟨h.1.kind, rfl, h.1.mem, h.1.rep⟩, setStrictRecList_rel m h.2⟩
    · simp only [RelT]; exact h
theorem setStrictRecList_rel (m : Strict) {syms : Syms} : ∀ {ks : List Sc} {aks : List AT}, RelTs syms ks aks →
    RelTs syms (setStrictRecList m ks) (aSetStrictRecList m aks)
  | [], [], _ => trivial
  | k :: ks, a :: aks, h => by
    simp only [RelTs] at h
    simp only [setStrictRecList, aSetStrictRecList, RelTs]
    exact ⟨setStrictRec_rel m h.1, setStrictRecList_rel m h.2⟩
  | [], _ :: _, h => by simp [RelTs] at h
  | _ :: _, [], h => by simp [RelTs] at h
end

/-- two scopes that differ at most in their strictness -/
def SameK (a b : AFrame) : Prop := a.kind = b.kind ∧ a.mem = b.mem ∧ a.replaced = b.replaced

def SameKs : List AFrame → List AFrame → Prop
  | [], [] => True
  | a :: as, b :: bs => SameK a b ∧ SameKs as bs
  | _, _ => False

theorem SameKs.cons {x y : AFrame} {a b : List AFrame} (hf : SameK x y) (h : SameKs a b) : SameKs (x :: a) (y :: b) := by
  simp only [SameKs]; exact ⟨hf, h⟩

theorem varBlocked_sameK (n : Name) : ∀ {a b : List AFrame}, SameKs a b → varBlocked n a = varBlocked n b
  | [], [], _ => rfl
  | x :: xs, y :: ys, h => by
    simp only [varBlocked, badFor, h.1.1, h.1.2.1, varBlocked_sameK n h.2]
  | [], _ :: _, h => h.elim
  | _ :: _, [], h => h.elim

theorem e34_sameK {af bf : AFrame} {a b : List AFrame} (hf : SameK af bf) (h : SameKs a b) :
    (e3Top af a || e4 af a) = (e3Top bf b || e4 bf b) := by
  have h4 : e4 af a = e4 bf b := by
    simp only [e4, hf.2.1]
    congr 1
    funext p
    rw [varBlocked_sameK p.1 h]
  have h3 : e3Top af a = e3Top bf b := by
    cases a with
    | nil => cases b with
      | nil => rfl
      | cons _ _ => exact h.elim
    | cons x xs => cases b with
      | nil => exact h.elim
      | cons y ys => simp only [e3Top, e3, hf.2.1, h.1.1, h.1.2.1]
  rw [h3, h4]

mutual
theorem se34_setStrict (m : Strict) : ∀ (t : AT) (a b : List AFrame), SameKs a b →
    (aSetStrictRec m t).se34 a = t.se34 b
  | .node f kids, a, b, h => by
    simp only [aSetStrictRec]
    split
    · rw [se34_node, se34_node]
      have hf : SameK { f with strict := m } f := ⟨rfl, rfl, rfl⟩
      rw [e34_sameK hf h, kidsSe34_setStrict m kids _ _ (SameKs.cons hf h)]
    · rw [se34_node, se34_node]
      have hf : SameK f f := ⟨rfl, rfl, rfl⟩
      rw [e34_sameK hf h, kidsSe34_sameK kids _ _ (SameKs.cons hf h)]
theorem kidsSe34_setStrict (m : Strict) : ∀ (ks : List AT) (a b : List AFrame), SameKs a b →
    kidsSe34 a (aSetStrictRecList m ks) = kidsSe34 b ks
  | [], _, _, _ => rfl
  | k :: ks, a, b, h => by
    simp only [aSetStrictRecList, kidsSe34, se34_setStrict m k a b h, kidsSe34_setStrict m ks a b h]
theorem se34_sameK : ∀ (t : AT) (a b : List AFrame), SameKs a b → t.se34 a = t.se34 b
  | .node f kids, a, b, h => by
    rw [se34_node, se34_node]
    have hf : SameK f f := ⟨rfl, rfl, rfl⟩
    rw [e34_sameK hf h, kidsSe34_sameK kids _ _ (SameKs.cons hf h)]
theorem kidsSe34_sameK : ∀ (ks : List AT) (a b : List AFrame), SameKs a b → kidsSe34 a ks = kidsSe34 b ks
  | [], _, _, _ => rfl
  | k :: ks, a, b, h => by
    simp only [kidsSe34, se34_sameK k a b h, kidsSe34_sameK ks a b h]
end

mutual
theorem noDup_setStrict (m : Strict) : ∀ (t : AT), t.noDup → (aSetStrictRec m t).noDup
  | .node f kids, h => by
    rw [noDup_node] at h
    simp only [aSetStrictRec]
    split
    · rw [noDup_node]
      exact ⟨h.1, kidsNoDup_setStrict m kids h.2⟩
    · rw [noDup_node]; exact h
theorem kidsNoDup_setStrict (m : Strict) : ∀ (ks : List AT), kidsNoDup ks → kidsNoDup (aSetStrictRecList m ks)
  | [], _ => trivial
  | k :: ks, h => by
    simp only [kidsNoDup] at h
    simp only [aSetStrictRecList, kidsNoDup]
    exact ⟨noDup_setStrict m k h.1, kidsNoDup_setStrict m ks h.2⟩
end

mutual
/-- no static error below the root when there is no catch / var collision and no strict block replaced a function -/
theorem staticErr_of_parts (esm : Bool) : ∀ (t : AT) (aanc : List AFrame), aanc ≠ [] → t.se34 aanc = false →
    (t.noDup ∨ (esm = false ∧ t.dupOK)) → t.staticErr esm aanc = false
  | .node af kids, aanc, hne, h34, hd => by
    rw [se34_node, Bool.or_eq_false_iff] at h34
    simp only [AT.staticErr, Bool.or_eq_false_iff]
    refine ⟨⟨?_, h34.1⟩, kidsStaticErr_of_parts esm kids (af :: aanc) (by simp) h34.2 ?_⟩
    · have hemp : aanc.isEmpty = false := by cases aanc <;> simp_all
      simp only [e2, hemp, Bool.false_and, Bool.or_false, Bool.and_eq_false_iff]
      rcases hd with hd | ⟨he, hd⟩
      · rw [noDup_node] at hd
        by_cases hk : af.kind = .block
        · right; exact hd.1 hk
        · left; simp [hk]
      · rw [dupOK_node] at hd
        by_cases hk : af.kind = .block
        · cases hr : replacedAny af with
          | false => right; exact hr
          | true => left; simp [hd.1 hk hr]
        · left; simp [hk]
    · rcases hd with hd | ⟨he, hd⟩
      · rw [noDup_node] at hd; exact Or.inl hd.2
      · rw [dupOK_node] at hd; exact Or.inr ⟨he, hd.2⟩
theorem kidsStaticErr_of_parts (esm : Bool) : ∀ (ks : List AT) (aanc : List AFrame), aanc ≠ [] → kidsSe34 aanc ks = false →
    (kidsNoDup ks ∨ (esm = false ∧ kidsDupOK ks)) → kidsStaticErr esm aanc ks = false
  | [], _, _, _, _ => rfl
  | k :: ks, aanc, hne, h34, hd => by
    simp only [kidsSe34, Bool.or_eq_false_iff] at h34
    simp only [kidsStaticErr, Bool.or_eq_false_iff]
    constructor
    · apply staticErr_of_parts esm k aanc hne h34.1
      rcases hd with hd | ⟨he, hd⟩
      · simp only [kidsNoDup] at hd; exact Or.inl hd.1
      · simp only [kidsDupOK] at hd; exact Or.inr ⟨he, hd.1⟩
    · apply kidsStaticErr_of_parts esm ks aanc hne h34.2
      rcases hd with hd | ⟨he, hd⟩
      · simp only [kidsNoDup] at hd; exact Or.inl hd.2
      · simp only [kidsDupOK] at hd; exact Or.inr ⟨he, hd.2⟩
end

theorem noPairItems_append : ∀ (a b : List Item), noPairItems (a ++ b) = (noPairItems a && noPairItems b)
  | [], b => by simp [noPairItems]
  | i :: a, b => by simp [noPairItems, noPairItems_append a b, Bool.and_assoc]

theorem noPairItems_params (ps : List Name) : noPairItems (ps.map (Item.decl .hoisted)) = true := by
  induction ps with
  | nil => rfl
  | cons p ps ih => simp only [List.map_cons, noPairItems, noPairItem, ih, Bool.and_true]; rfl

mutual
theorem noPair_stmt : ∀ (s : Stmt), noPairItems (stmtItems s) = true
  | .var_ n => by simp [stmtItems, noPairItems, noPairItem, SK.noPair]
  | .lex k n => by
    simp only [stmtItems]
    split
    · simp [noPairItems, noPairItem, SK.noPair]
    · cases k <;> simp [noPairItems, noPairItem, SK.noPair, lexSK]
  | .fn n gen ps us body => by
    simp only [stmtItems, noPairItems, noPairItem, noPairItems_append, noPairItems_params, noPair_list body, Bool.and_true,
      Bool.true_and]
    cases gen <;> rfl
  | .ref _ => by simp [stmtItems, noPairItems, noPairItem]
  | .block b => by simp [stmtItems, noPairItems, noPairItem, noPair_list b]
  | .try_ b c h => by
    have hc : noPairItems (catchItems c) = true := by
      cases c with
      | none => rfl
      | ident n => simp [catchItems, noPairItems, noPairItem, SK.noPair]
      | pattern ns =>
        simp only [catchItems]
        induction ns with
        | nil => rfl
        | cons x xs ih => simp only [List.map_cons, noPairItems, noPairItem, ih, Bool.and_true]; rfl
    simp [stmtItems, noPairItems, noPairItem, noPair_list b, noPair_list h, noPairItems_append, hc]
  | .fnExpr n ps us body => by
    cases n with
    | none => simp [stmtItems, noPairItems, noPairItem, noPairItems_append, noPairItems_params, noPair_list body]
    | some m =>
      simp [stmtItems, noPairItems, noPairItem, noPairItems_append, noPairItems_params, noPair_list body, SK.noPair]
  | .arrow ps body => by
    simp [stmtItems, noPairItems, noPairItem, noPairItems_append, noPairItems_params, noPair_list body]
theorem noPair_list : ∀ (ss : List Stmt), noPairItems (listItems ss) = true
  | [] => rfl
  | s :: ss => by simp [listItems, noPairItems_append, noPair_stmt s, noPair_list ss]
end

theorem aDeclare_replace_mem (f : AFrame) (k ek : SK) (n : Name) (hl : alookup n f.mem = some ek)
    (hc : canMergeSymbols f.kind ek k = .replaceWithNew) : alookup n (aDeclare f k n).1.mem = some k := by
  unfold aDeclare
  rw [hl]
  simp only [hc, alookup_ainsert, if_true]

/-- a scope that starts empty and replaced a function by a function has two lexical declarations of one name -/
theorem replacedAny_two (f0 : AFrame) (hm : f0.mem = []) (hr : f0.replaced = []) (ds : List (SK × Name))
    (hnp : noPairDecls ds) (hk : ∀ k n, (k, n) ∈ ds → k.isFunction = true → isLexKind k = true)
    (h : replacedAny (declFold f0 ds).1 = true) : ∃ n, 2 ≤ (namesWhere isLexKind ds).count n := by
  simp only [replacedAny, List.any_eq_true, Bool.and_eq_true] at h
  obtain ⟨⟨n, ek⟩, hp, hf, hmem⟩ := h
  simp only at hf hmem
  rcases declFold_replaced' _ _ _ hnp hp with h1 | ⟨pre, k, post, hds, hlk, hcm⟩
  · rw [hr] at h1; simp at h1
  · simp only at hds hlk hcm
    have hnpre : noPairDecls pre := fun d hd => hnp d (by rw [hds]; simp [hd])
    have hnpost : noPairDecls post := fun d hd => hnp d (by rw [hds]; simp [hd])
    have hekpre : (ek, n) ∈ pre := by
      rcases declFold_lookup pre f0 n ek hnpre hlk with h2 | h2
      · rw [hm] at h2; simp [alookup] at h2
      · exact h2
    -- the scope after the replacing declaration, and at the end
    have hfold : (declFold f0 ds).1 = (declFold (aDeclare (declFold f0 pre).1 k n).1 post).1 := by
      rw [hds, declFold_append]; simp only [declFold]
    have hafter : alookup n (aDeclare (declFold f0 pre).1 k n).1.mem = some k :=
      aDeclare_replace_mem _ k ek n hlk (by rw [(declFold_kind _ _).1]; exact hcm)
    cases hfin : alookup n (declFold f0 ds).1.mem with
    | none => rw [hfin] at hmem; cases hmem
    | some k' =>
      rw [hfin] at hmem
      simp only at hmem
      rw [hfold] at hfin
      refine ⟨n, ?_⟩
      have hek : isLexKind ek = true := hk ek n (by rw [hds]; simp [hekpre]) hf
      have h1 := count_pos_namesWhere (p := isLexKind) hekpre hek
      rw [hds, namesWhere_append, List.count_append]
      have e2 : namesWhere isLexKind ((k, n) :: post) = (if isLexKind k then [n] else []) ++ namesWhere isLexKind post := by
        simp only [namesWhere, List.filterMap_cons]
        split <;> simp_all
      rw [e2, List.count_append]
      rcases declFold_lookup post _ n k' hnpost hfin with h2 | h2
      · rw [hafter] at h2
        cases h2
        have hk' : isLexKind k = true := hk k n (by rw [hds]; simp) hmem
        simp [hk']; omega
      · have hk' : isLexKind k' = true := hk k' n (by rw [hds]; simp [h2]) hmem
        have := count_pos_namesWhere (p := isLexKind) h2 hk'
        omega

theorem topLex_sub_lex (ss : List Stmt) (n : Name) (h : n ∈ topLexNames ss) : n ∈ lexNames ss := by
  rw [topLexNames_eq, mem_namesWhere] at h
  obtain ⟨k, hk, hp⟩ := h
  rw [lexNames_eq, mem_namesWhere]
  refine ⟨k, hk, ?_⟩
  simp only [isTopLexKind, Bool.or_eq_true, beq_iff_eq] at hp
  rcases hp with (rfl | rfl) | rfl <;> rfl

/-- the kind-level run of a program without early error: no error at the declarations, no static error condition -/
theorem spec_ok_static (p : Program) (hne : p.earlyError = false) :
    let root0 : AFrame := ⟨.entry, if p.strict then 1 else 0, [], []⟩
    let r := aList p.body root0
    r.2.2 = [] ∧
    (if p.module then aSetStrictRec 3 (.node r.1 r.2.1) else .node r.1 r.2.1).staticErr p.module [] = false := by
  intro root0 r
  have hrk : (declFold root0 (declKinds p.body)).1.kind = .entry := (declFold_kind _ _).1
  have hcov : Cov ((declFold root0 (declKinds p.body)).1 :: []) (topLexNames p.body) :=
    Cov.stop (by rw [hrk]; rfl) (stop_bad .entry (Or.inr rfl) root0 rfl p.body (fun n ek h => by simp [root0, alookup] at h))
  unfold Program.earlyError at hne
  by_cases hmod : p.module = true
  · -- a module
    simp only [hmod, if_true, Bool.or_eq_false_iff] at hne ⊢
    obtain ⟨⟨hdup, hlv⟩, hl⟩ := hne
    have hB : ∀ n, n ∈ varNamesL p.body → n ∉ topLexNames p.body :=
      fun n hn hm => inter_false hlv n (topLex_sub_lex p.body n hm) hn
    have ok := list_ok p.body root0 true (declFold root0 (declKinds p.body)).1 [] (topLexNames p.body) hl (fun _ => rfl)
      (by rw [hrk]; decide) hcov hB
    have hnoerr := declFold_noerr (declKinds p.body) root0 (module_pairsOK _ p.body hdup hlv)
    refine ⟨by show (aList p.body root0).2.2 = []; rw [ok.errs]; exact hnoerr, ?_⟩
    -- the root of a module replaced no function by a function
    have hroot : replacedAny (aList p.body root0).1 = false := by
      cases hr : replacedAny (aList p.body root0).1 with
      | false => rfl
      | true =>
        exfalso
        rw [ok.frame] at hr
        obtain ⟨n, hn⟩ := replacedAny_two root0 rfl rfl (declKinds p.body) (declKinds_noPair p.body)
          (fun k n _ hf => by cases k <;> simp_all [SK.isFunction, isLexKind]) hr
        have := hasDup_false hdup n
        rw [lexNames_eq] at this
        omega
    have hkids34 : ∀ root' : AFrame, SameK root' (aList p.body root0).1 → ∀ ks', (ks' = aSetStrictRecList 3 (aList p.body root0).2.1 ∨
        ks' = (aList p.body root0).2.1) → kidsSe34 [root'] ks' = false := by
      intro root' hs ks' hks
      have h0 : kidsSe34 [(declFold root0 (declKinds p.body)).1] (aList p.body root0).2.1 = false := ok.se34
      rw [← ok.frame] at h0
      have hsk : SameKs [root'] [(aList p.body root0).1] := by simp only [SameKs]; exact ⟨hs, trivial⟩
      rcases hks with rfl | rfl
      · rw [kidsSe34_setStrict 3 _ _ _ hsk]; exact h0
      · rw [kidsSe34_sameK _ _ _ hsk]; exact h0
    show (aSetStrictRec 3 (AT.node (aList p.body root0).1 (aList p.body root0).2.1)).staticErr true [] = false
    simp only [aSetStrictRec]
    have hstop : (aList p.body root0).1.kind.stopsHoisting = true := by rw [ok.frame, hrk]; rfl
    split
    · simp only [AT.staticErr, List.isEmpty_nil, hstop, Bool.not_true, Bool.false_and, Bool.or_false, Bool.or_eq_false_iff]
      refine ⟨?_, kidsStaticErr_of_parts true _ _ (by simp)
        (hkids34 { (aList p.body root0).1 with strict := 3 } ⟨rfl, rfl, rfl⟩ _ (Or.inl rfl))
        (Or.inl (kidsNoDup_setStrict 3 _ (ok.noDup rfl)))⟩
      simp only [e2, Bool.and_eq_false_iff]
      right
      exact hroot
    · simp only [AT.staticErr, List.isEmpty_nil, hstop, Bool.not_true, Bool.false_and, Bool.or_false, Bool.or_eq_false_iff]
      refine ⟨?_, kidsStaticErr_of_parts true _ _ (by simp) (hkids34 _ ⟨rfl, rfl, rfl⟩ _ (Or.inr rfl)) (Or.inl (ok.noDup rfl))⟩
      simp only [e2, Bool.and_eq_false_iff]
      right
      exact hroot
  · -- a script
    have hmod' : p.module = false := by simpa using hmod
    simp only [hmod', Bool.false_eq_true, if_false] at hne ⊢
    have hne' := hne
    simp only [fnError, Bool.or_eq_false_iff] at hne
    obtain ⟨⟨⟨hdup, hlv⟩, _⟩, hl⟩ := hne
    have hB : ∀ n, n ∈ varNamesL p.body → n ∉ topLexNames p.body :=
      fun n hn hm => inter_false hlv n hm (by simp [hn])
    have hS : root0.strict ≠ 0 → p.strict = true := by
      simp only [root0]
      cases p.strict <;> simp
    have ok := list_ok p.body root0 p.strict (declFold root0 (declKinds p.body)).1 [] (topLexNames p.body) hl hS
      (by rw [hrk]; decide) hcov hB
    have hnoerr := declFold_noerr (declKinds p.body) root0
      (stop_pairsOK .entry (Or.inr rfl) root0 [] p.body (fun n ek h => by simp [root0, alookup] at h) hdup hlv (by simp [inter]))
    refine ⟨by show (aList p.body root0).2.2 = []; rw [ok.errs]; exact hnoerr, ?_⟩
    show (AT.node (aList p.body root0).1 (aList p.body root0).2.1).staticErr false [] = false
    have hstop : (aList p.body root0).1.kind.stopsHoisting = true := by rw [ok.frame, hrk]; rfl
    have hk : (aList p.body root0).1.kind = .entry := by rw [ok.frame, hrk]
    simp only [AT.staticErr, List.isEmpty_nil, hstop, Bool.not_true, Bool.false_and, Bool.or_false, Bool.or_eq_false_iff]
    refine ⟨?_, kidsStaticErr_of_parts false _ _ (by simp) (by rw [ok.frame]; exact ok.se34) (Or.inr ⟨rfl, ok.dupOK⟩)⟩
    simp [e2, hk]

/-- the model of the parser reports no redeclaration error on a program without an early error -/
theorem run_errs_nil (p : Program) (r : Result) (h : runProgram p = some r) (hne : p.earlyError = false) : r.errs = [] := by
  obtain ⟨herr0, hstat⟩ := spec_ok_static p hne
  unfold runProgram run at h
  simp only at h
  split at h
  · cases h
  · next pc hp =>
    -- the parse pass against its kind-level version
    have hrel0 : RelC ⟨⟨.entry, if p.strict = true then 1 else 0, [], [], [], none, false⟩, [], ⟨[], [], []⟩⟩
        ⟨⟨.entry, if p.strict = true then 1 else 0, [], []⟩, [], []⟩ :=
      ⟨⟨rfl, rfl, rfl, rfl⟩, trivial, rfl⟩
    have habs := parseItems_abs (listItems p.body) _ _ (noPair_list p.body) hrel0
    rw [hp, aParse_list] at habs
    simp only [OptRelC, List.nil_append] at habs
    obtain ⟨hrc, _⟩ := habs
    have hperr : pc.st.errs = [] := by rw [hrc.errs]; exact herr0
    have hrt : RelT pc.st.syms (Sc.node pc.cur pc.kids)
        (AT.node (aList p.body ⟨.entry, if p.strict = true then 1 else 0, [], []⟩).1
          (aList p.body ⟨.entry, if p.strict = true then 1 else 0, [], []⟩).2.1) := by
      simp only [RelT]; exact ⟨hrc.cur, hrc.kids⟩
    split at h
    · cases h
    · next anc2 tree2 hst hh =>
      have hrt1 : RelT pc.st.syms (if p.module = true then setStrictRec 3 (Sc.node pc.cur pc.kids) else Sc.node pc.cur pc.kids)
          (if p.module = true then aSetStrictRec 3 (AT.node (aList p.body ⟨.entry, if p.strict = true then 1 else 0, [], []⟩).1
              (aList p.body ⟨.entry, if p.strict = true then 1 else 0, [], []⟩).2.1)
            else AT.node (aList p.body ⟨.entry, if p.strict = true then 1 else 0, [], []⟩).1
              (aList p.body ⟨.entry, if p.strict = true then 1 else 0, [], []⟩).2.1) := by
        split
        · exact setStrictRec_rel 3 hrt
        · exact hrt
      obtain ⟨_, _, es, hes, hes2⟩ := hoistSc_kinds p.module _ _ [] [] _ _ _ _ hh hrt1 trivial
      have hes0 : es = [] := by
        cases hese : es with
        | nil => rfl
        | cons x xs =>
          have := hes2 (by rw [hese]; simp)
          rw [hstat] at this
          cases this
      split at h
      · cases h
      · cases h
        simp only
        rw [hes, hes0, hperr]
        rfl

end EsbuildModel.Scopes
