import EsbuildModel.Lemmas.Lower3RestWr
/-!
`visit` of lowerObjectRestHelper is right: the assignments it emits for `pattern = init` do what the pattern
does (ECMA-262 destructuring with a rest element), unless the source run leaves the model.
-/
namespace EsbuildModel.Lower3

/-- `visit` is right for the lowered target t' of the source target t₀: whatever the initialiser -/
def VisitOK (w : World) (B : Nat) (t' t₀ : Pat) : Prop :=
  ∀ (n : Nat) (init' : E) (I : TState → Res × TState) (s s' : TState), B ≤ n → init'.wr (ltB n) = true → s.h = s'.h →
    RelR (evalE w true init' s) (I s') →
    RelQ (fun (_ : Val) _ => True) (runAL w true (visitPat t' init' [] n).1 s)
      (bindR (I s') fun v s1' => bindPat w true t₀ v s1')

/-- what the proof needs of a lowered target -/
structure PatOK (w : World) (B : Nat) (t' t₀ : Pat) : Prop where
  wr : t'.wr (ltB B) = true
  native : ∀ v s s', s.h = s'.h → RelR (bindPat w true t' v s) (bindPat w true t₀ v s')
  visit : VisitOK w B t' t₀

/-- … and of a lowered property list -/
inductive PropsOK (w : World) (B : Nat) : PPL → PPL → Prop where
  | nil : PropsOK w B .nil .nil
  | cons {k : KK} {ke' ke₀ : E} {t' t₀ : Pat} {hd : Bool} {d' d₀ : E} {tl' tl₀ : PPL} :
      SimB w ke' ke₀ → ke'.wr (ltB B) = true → ke'.asId = ke₀.asId → (∀ j, ke' ≠ .tmp j) →
      SimB w d' d₀ → d'.wr (ltB B) = true → PatOK w B t' t₀ → PropsOK w B tl' tl₀ →
      PropsOK w B (.prop k ke' t' hd d' tl') (.prop k ke₀ t₀ hd d₀ tl₀)

theorem PropsOK.wr {w : World} {B : Nat} {a b : PPL} (h : PropsOK w B a b) : a.wr (ltB B) = true := by
  induction h with
  | nil => rfl
  | cons _ h2 _ _ _ h6 h7 _ ih => simp [PPL.wr, h2, h6, h7.wr, ih]

theorem PropsOK.isNil {w : World} {B : Nat} {a b : PPL} (h : PropsOK w B a b) : a.isNil = b.isNil := by
  cases h <;> rfl

/-- the source side of the claim about the loop of `visit`: the value v of the initialiser is matched against
the remaining properties (`done₀` have been passed, `todo₀` are still to come), starting from the excluded names
`ex0`; `chk`: the test for undefined / null is still to be made -/
def srcTail (w : World) (chk : Bool) (done₀ todo₀ : PPL) (rest : Option Nat) (ex0 : List Ex) (v : Val) (s' : TState) :
    Res × TState :=
  if chk && v.nullish then
    (if (done₀.append todo₀).isNil && rest.isSome then (.err (.outside .nullRest), s') else (.err .typeError, s'))
  else
    bindR (bindPPL w true (done₀.append todo₀) rest.isSome v ex0 s') fun ex s1 =>
      match rest with
      | none => (.ok .undef, s1)
      | some r => restStep w true r v ex s1

theorem srcTail_start (w : World) (ps : PPL) (rest : Option Nat) (v : Val) (s' : TState) :
    srcTail w true .nil ps rest [] v s' = bindPat w true (.obj ps rest) v s' := by
  cases rest <;> simp only [srcTail, bindPat, PPL.append, Bool.true_and] <;> rfl

-- ---------------------------------------------------------------- the two shapes of a step of the loop

theorem visitPPL_pass (done' : PPL) (k : KK) (ke : E) (t : Pat) (hd : Bool) (d : E) (tl : PPL) (rest : Option Nat)
    (init : E) (cap : List CK) (n : Nat) (ht : t.hasRest = false) :
    visitPPL done' (.prop k ke t hd d tl) rest init cap n =
      visitPPL (done'.append (.prop k (keyCap rest.isSome k ke n).1 t hd d .nil)) tl rest init
        (if rest.isSome = true then cap ++ [(keyCap rest.isSome k ke n).2.1] else cap) (keyCap rest.isSome k ke n).2.2 := by
  have e1 : (if rest.isSome = true then captureKey k ke n else (ke, CK.str "", n)) = keyCap rest.isSome k ke n := rfl
  simp only [visitPPL, e1, ht, Bool.false_eq_true, if_false]

/-- splitObjectPattern with properties (or the rest element) after the split -/
theorem visitPPL_split_more (done' : PPL) (k : KK) (ke : E) (t : Pat) (hd : Bool) (d : E) (tl : PPL) (rest : Option Nat)
    (init : E) (cap : List CK) (n : Nat) (ht : t.hasRest = true) (hm : (!tl.isNil || rest.isSome) = true) :
    (visitPPL done' (.prop k ke t hd d tl) rest init cap n).1 =
      [(Pat.tmp (keyCap rest.isSome k ke n).2.2, init)] ++
      [(Pat.obj (done'.append (.prop k (keyCap rest.isSome k ke n).1 (.tmp ((keyCap rest.isSome k ke n).2.2 + 1)) hd d .nil)) none,
        E.tmp (keyCap rest.isSome k ke n).2.2)] ++
      (visitPat t (.tmp ((keyCap rest.isSome k ke n).2.2 + 1)) [] ((keyCap rest.isSome k ke n).2.2 + 1 + 1)).1 ++
      (visitPPL .nil tl rest (.tmp (keyCap rest.isSome k ke n).2.2)
        (if rest.isSome = true then cap ++ [(keyCap rest.isSome k ke n).2.1] else cap)
        (visitPat t (.tmp ((keyCap rest.isSome k ke n).2.2 + 1)) [] ((keyCap rest.isSome k ke n).2.2 + 1 + 1)).2).1 := by
  have e1 : (if rest.isSome = true then captureKey k ke n else (ke, CK.str "", n)) = keyCap rest.isSome k ke n := rfl
  simp only [visitPPL, e1, ht, hm, if_true]

/-- splitObjectPattern when the split property is the last one and there is no rest element -/
theorem visitPPL_split_last (done' : PPL) (k : KK) (ke : E) (t : Pat) (hd : Bool) (d : E) (tl : PPL) (rest : Option Nat)
    (init : E) (cap : List CK) (n : Nat) (ht : t.hasRest = true) (hm : (!tl.isNil || rest.isSome) = false) :
    (visitPPL done' (.prop k ke t hd d tl) rest init cap n).1 =
      [(Pat.obj (done'.append (.prop k (keyCap rest.isSome k ke n).1 (.tmp (keyCap rest.isSome k ke n).2.2) hd d .nil)) none, init)] ++
      (visitPat t (.tmp (keyCap rest.isSome k ke n).2.2) [] ((keyCap rest.isSome k ke n).2.2 + 1)).1 := by
  have e1 : (if rest.isSome = true then captureKey k ke n else (ke, CK.str "", n)) = keyCap rest.isSome k ke n := rfl
  simp only [visitPPL, e1, ht, hm, if_true, Bool.false_eq_true, if_false, List.nil_append]

-- ---------------------------------------------------------------- key, GetV and default of one property

/-- the part of a property before its target: PropertyName, GetV, default -/
def propHead (w : World) (stop : Bool) (k : KK) (ev : TState → Res × TState) (hd : Bool) (dv : TState → Res × TState)
    (v : Val) (s : TState) : R ((Key × Val) × Val) × TState :=
  bindR (keyOf w stop k ev s) fun kv s1 =>
    bindR (liftH (getV w v kv.1) s1) fun pv s2 =>
      bindR (if hd && pv == .undef then dv s2 else (.ok pv, s2)) fun pv' s3 => (.ok (kv, pv'), s3)

theorem bindPPL_head (w : World) (g : Bool) (k : KK) (ke : E) (t : Pat) (hd : Bool) (d : E) (tl : PPL) (hr : Bool)
    (v : Val) (ex : List Ex) (s : TState) :
    bindPPL w g (.prop k ke t hd d tl) hr v ex s =
      bindR (propHead w (g && hr) k (evalE w g ke) hd (evalE w g d) v s) fun x s3 =>
        bindR (bindPat w g t x.2 s3) fun _ s4 =>
          bindPPL w g tl hr v (ex ++ [⟨x.1.1, x.1.2, if k = .comp then ke.asId else none⟩]) s4 := by
  simp only [bindPPL, propHead, bindR_assoc, bindR_ok]

/-- the lowered head (key in capturing form) against the source head: same key, same value for the target; the
captured key is tied to the excluded name; temporaries from B on other than the captured one are left alone -/
theorem head_sim (w : World) (B m : Nat) (hr : Bool) (k : KK) (ke' ke₀ : E) (hd : Bool) (d' d₀ : E)
    (hke : SimB w ke' ke₀) (hkw : ke'.wr (ltB B) = true) (hid : ∀ x, ke' = .id x → ke₀.asId = some x)
    (htmp : ∀ j, ke' ≠ .tmp j) (hsd : SimB w d' d₀) (hdw : d'.wr (ltB B) = true) (hBm : B ≤ m)
    (v : Val) (s s' : TState) (hh : s.h = s'.h) :
    RelP (fun x sF =>
        (hr = true → CKRel (keyCap hr k ke' m).2.1 ⟨x.1.1, x.1.2, if k = .comp then ke₀.asId else none⟩ sF.tm ∧
          Ex.ok ⟨x.1.1, x.1.2, if k = .comp then ke₀.asId else none⟩) ∧
        ∀ j, B ≤ j → (j < m ∨ (keyCap hr k ke' m).2.2 ≤ j) → sF.tm j = s.tm j)
      (propHead w (true && false) k (evalE w true (keyCap hr k ke' m).1) hd (evalE w true d') v s)
      (propHead w (true && hr) k (evalE w true ke₀) hd (evalE w true d₀) v s') := by
  unfold propHead
  have hkf : ∀ j, B ≤ j → (j < m ∨ (keyCap hr k ke' m).2.2 ≤ j) →
      (keyOf w (true && false) k (evalE w true (keyCap hr k ke' m).1) s).2.tm j = s.tm j := by
    intro j hj hjm
    refine keyOf_tm w _ k _ s j ?_
    refine evalE_frame w true _ j ?_ _ s (keyCap_wr hr k ke' m B hkw)
    simp only [Bool.or_eq_false_iff, Bool.and_eq_false_iff, decide_eq_false_iff_not]
    omega
  cases key_sim w m hr k ke' ke₀ hke hid htmp s s' hh with
  | inl h => exact Or.inl (outside_bind _ _ h)
  | inr hk =>
    obtain ⟨k1, k2, k3⟩ := hk
    rcases ha : keyOf w (true && false) k (evalE w true (keyCap hr k ke' m).1) s with ⟨ra, sa⟩
    rcases hb : keyOf w (true && hr) k (evalE w true ke₀) s' with ⟨rb, sb⟩
    rw [ha] at k1 k2 k3 hkf
    rw [hb] at k1 k2 k3
    simp only at k1 k2 k3 hkf
    subst k1
    cases ra with
    | err x => exact Or.inr ⟨rfl, k2, fun y hy => by simp at hy⟩
    | ok kv =>
      simp only [bindR_ok]
      have hg1 : (liftH (getV w v kv.1) sa).1 = (liftH (getV w v kv.1) sb).1 ∧
          (liftH (getV w v kv.1) sa).2.h = (liftH (getV w v kv.1) sb).2.h := by simp only [liftH, k2, and_self]
      rcases hga : liftH (getV w v kv.1) sa with ⟨rg, sa2⟩
      rcases hgb : liftH (getV w v kv.1) sb with ⟨rg', sb2⟩
      have hta : sa2.tm = sa.tm := by
        have := congrArg (fun r => r.2.tm) hga
        simpa using this.symm
      rw [hga, hgb] at hg1
      simp only at hg1
      obtain ⟨g1, g2⟩ := hg1
      subst g1
      cases rg with
      | err x => exact Or.inr ⟨rfl, g2, fun y hy => by simp at hy⟩
      | ok pv =>
        simp only [bindR_ok]
        have hdef : RelR (if (hd && pv == .undef) = true then evalE w true d' sa2 else (.ok pv, sa2))
            (if (hd && pv == .undef) = true then evalE w true d₀ sb2 else (.ok pv, sb2)) := by
          split
          · exact hsd sa2 sb2 g2
          · exact Or.inr ⟨rfl, g2⟩
        have hdf : ∀ j, B ≤ j →
            (if (hd && pv == .undef) = true then evalE w true d' sa2 else (.ok pv, sa2)).2.tm j = sa2.tm j := by
          intro j hj
          split
          · exact evalE_frame w true (ltB B) j (by simp [ltB]; omega) d' sa2 hdw
          · rfl
        cases hdef with
        | inl h => exact Or.inl (outside_bind _ _ h)
        | inr hdef =>
          rcases hda : (if (hd && pv == .undef) = true then evalE w true d' sa2 else (.ok pv, sa2)) with ⟨rd, sa3⟩
          rcases hdb : (if (hd && pv == .undef) = true then evalE w true d₀ sb2 else (.ok pv, sb2)) with ⟨rd', sb3⟩
          rw [hda] at hdf
          rw [hda, hdb] at hdef
          simp only at hdef hdf
          obtain ⟨d1, d2⟩ := hdef
          subst d1
          cases rd with
          | err x => exact Or.inr ⟨rfl, d2, fun y hy => by simp at hy⟩
          | ok pv' =>
            refine Or.inr ⟨rfl, d2, fun y hy => ?_⟩
            simp only [bindR_ok, R.ok.injEq] at hy
            rw [← hy]
            simp only [bindR_ok]
            refine ⟨fun hhr => ?_, fun j hj hjm => by rw [hdf j hj, hta, hkf j hj hjm]⟩
            obtain ⟨q1, q2⟩ := k3 kv rfl hhr
            refine ⟨?_, q2⟩
            generalize hck : (keyCap hr k ke' m).2.1 = ck at q1 ⊢
            cases ck with
            | temp j =>
              simp only [CKRel] at q1 ⊢
              rcases keyCap_next hr k ke' m with ⟨_, _, h3⟩ | ⟨_, _, h3⟩
              · exact absurd (h3 j hck) (htmp j)
              · have hjm : j = m := by
                  rw [hck] at h3
                  injection h3
                subst hjm
                rw [hdf j hBm, hta]
                exact q1
            | str t => exact q1
            | num n => exact q1
            | ident x => exact q1

-- ---------------------------------------------------------------- the call of __objRest

theorem noReread_of_any {ex : List Ex} {env : Env}
    (h : ¬ (ex.any (fun e => match e.isId with | some x => env x != e.raw | none => false)) = true) : noReread ex env := by
  intro e he x hx
  simp only [List.any_eq_true, not_exists, not_and] at h
  have := h e he
  simp only [hx, bne_iff_ne, ne_eq, Decidable.not_not] at this
  exact this

/-- `r = __objRest(v, [captured keys])` against the rest element of the source pattern -/
theorem rest_call (w : World) (hq : Quiet w) (r : Nat) (cap : List CK) (exA : List Ex) (v : Val) (hv : v.nullish = false)
    (sa sb : TState) (hh : sa.h = sb.h) (hc : CapT sa.tm cap exA) :
    RelQ (fun (_ : Val) _ => True)
      (bindR (bindR (evalCKs w cap sa) fun ks s2 => liftH (objRestH w v ks) s2) fun v2 s3 =>
        bindR (bindPat w true (.var r) v2 s3) fun _ s4 => ((.ok .undef : Res), s4))
      (restStep w true r v exA sb) := by
  unfold restStep
  simp only [Bool.true_and]
  split
  · exact Or.inl trivial
  · rename_i hany
    have hnr : noReread exA sa.h.env := by rw [hh]; exact noReread_of_any hany
    rw [evalCKs_ok w cap exA sa hc hnr]
    simp only [bindR_ok]
    have hspec := objRestH_spec w hq v hv (exA.map (·.key)) sa.h
    have hsb : sb.h = sa.h := hh.symm
    simp only [liftH, hsb, bindPat]
    generalize copyDataProps w true true v (List.map (fun x => x.key) exA) Rec.empty sa.h = X at hspec ⊢
    obtain ⟨rc, hc2⟩ := X
    cases hspec with
    | inl ho =>
      cases rc with
      | ok t => exact absurd ho (by simp)
      | err x =>
        refine Or.inl (outside_bind _ _ ?_)
        cases x <;> first | exact ho.elim | trivial
    | inr he =>
      rw [he]
      cases rc with
      | err x => exact Or.inr ⟨rfl, rfl, fun y hy => by simp at hy⟩
      | ok t => exact Or.inr ⟨rfl, by simp [setVar], fun _ _ => trivial⟩

end EsbuildModel.Lower3
