import EsbuildModel.Lemmas.RegexLexPrint
/-! Lemmas about the unsupported-feature scanner `patScan` / `flagScan` against the item reading of a pattern. -/
namespace EsbuildModel.RegexLex
open Spec.JsRegExpLiteral

theorem patScan_nil (u : Unsup) (uni inClass : Bool) (d i : Nat) : patScan u uni inClass [] d i = .none := by
  cases inClass <;> simp only [patScan]

theorem patScan_true_cons (u : Unsup) (uni : Bool) (c : Nat) (tail : List Nat) (depth i : Nat) :
    patScan u uni true (c :: tail) depth i =
      if c = 93 then patScan u uni false tail depth (i + 1)
      else if c = 92 then
        match tail with
        | [] => .none
        | _ :: r => patScan u uni true r depth (i + 2)
      else patScan u uni true tail depth (i + 1) := by
  cases tail <;> simp only [patScan]

theorem patScan_false_cons (u : Unsup) (uni : Bool) (c : Nat) (tail : List Nat) (depth i : Nat) :
    patScan u uni false (c :: tail) depth i =
      if c = 91 then patScan u uni true tail depth (i + 1)
      else if c = 40 then
        if hasPrefix [63, 60, 61] tail || hasPrefix [63, 60, 33] tail then
          if u.lookbehind then .lookbehind else patScan u uni false tail (depth + 1) (i + 1)
        else if hasPrefix [63, 60] tail then
          if u.named && tail.contains 62 then .named else patScan u uni false tail (depth + 1) (i + 1)
        else patScan u uni false tail (depth + 1) (i + 1)
      else if c = 41 then
        if depth = 0 then .parenError i else patScan u uni false tail (depth - 1) (i + 1)
      else if c = 92 then
        if uni && (hasPrefix [112, 123] tail || hasPrefix [80, 123] tail) && u.propEsc && tail.contains 125 then
          .propEscape
        else
          match tail with
          | [] => .none
          | _ :: r => patScan u uni false r depth (i + 2)
      else patScan u uni false tail depth (i + 1) := by
  cases tail <;> simp only [patScan]

/-- the `class:` loop walks over the atoms of a class and leaves at its `]` -/
theorem patScan_atoms (u : Unsup) (uni : Bool) : ∀ (atoms : List ClassAtom), (∀ a ∈ atoms, a.WF) → ∀ (T : List Nat) (d i : Nat),
    ∃ i', patScan u uni true (atoms.flatMap ClassAtom.text ++ 93 :: T) d i = patScan u uni false T d i' := by
  intro atoms
  induction atoms with
  | nil =>
    intro _ T d i
    exact ⟨i + 1, by simp [patScan_true_cons]⟩
  | cons a rest ih =>
    intro hwf T d i
    have hrest : ∀ a ∈ rest, a.WF := fun x hx => hwf x (List.mem_cons_of_mem _ hx)
    cases a with
    | chr c =>
      have hc : c ≠ 92 ∧ c ≠ 93 := hwf (.chr c) (by simp)
      obtain ⟨i', hi'⟩ := ih hrest T d (i + 1)
      exact ⟨i', by simp [ClassAtom.text, patScan_true_cons, hc.1, hc.2, hi']⟩
    | esc c =>
      obtain ⟨i', hi'⟩ := ih hrest T d (i + 2)
      exact ⟨i', by simp [ClassAtom.text, patScan_true_cons, hi']⟩

/-- what makes the scanner stop at an item (`T` = the text after it) -/
inductive Trigger (u : Unsup) (uni : Bool) (it : Item) (T : List Nat) (d i : Nat) : Feat → Prop
  | lookbehind : it = .chr 40 → (hasPrefix [63, 60, 61] T = true ∨ hasPrefix [63, 60, 33] T = true) → u.lookbehind = true →
      Trigger u uni it T d i .lookbehind
  | named : it = .chr 40 → hasPrefix [63, 60, 61] T = false → hasPrefix [63, 60, 33] T = false → hasPrefix [63, 60] T = true →
      u.named = true → T.contains 62 = true → Trigger u uni it T d i .named
  | paren : it = .chr 41 → d = 0 → Trigger u uni it T d i (.parenError i)
  | prop (x : Nat) : it = .esc x → (x = 112 ∨ x = 80) → uni = true → T.head? = some 123 → u.propEsc = true →
      T.contains 125 = true → Trigger u uni it T d i .propEscape

theorem Trigger.ne_none {u : Unsup} {uni : Bool} {it : Item} {T : List Nat} {d i : Nat} {f : Feat}
    (h : Trigger u uni it T d i f) : f ≠ .none := by
  cases h <;> simp

/-- one item: the scanner either stops with a trigger or goes on behind the item -/
theorem patScan_item (u : Unsup) (uni : Bool) (it : Item) (hwf : it.WF) (T : List Nat) (d i : Nat) :
    (∃ d' i', patScan u uni false (it.text ++ T) d i = patScan u uni false T d' i') ∨
    (∃ f, Trigger u uni it T d i f ∧ patScan u uni false (it.text ++ T) d i = f) := by
  cases it with
  | cls atoms =>
    left
    obtain ⟨i', hi'⟩ := patScan_atoms u uni atoms hwf T d (i + 1)
    refine ⟨d, i', ?_⟩
    have : Item.text (.cls atoms) ++ T = 91 :: (atoms.flatMap ClassAtom.text ++ 93 :: T) := by simp [Item.text]
    rw [this, patScan_false_cons]
    simp [hi']
  | esc x =>
    have ht : Item.text (.esc x) ++ T = 92 :: x :: T := by simp [Item.text]
    rw [ht, patScan_false_cons]
    simp only [show (92 : Nat) ≠ 91 by decide, show (92 : Nat) ≠ 40 by decide, show (92 : Nat) ≠ 41 by decide, if_false, if_true]
    by_cases hc : (uni && (hasPrefix [112, 123] (x :: T) || hasPrefix [80, 123] (x :: T)) && u.propEsc && (x :: T).contains 125) = true
    · right
      refine ⟨.propEscape, ?_, by rw [if_pos hc]⟩
      simp only [Bool.and_eq_true, Bool.or_eq_true] at hc
      obtain ⟨⟨⟨h1, h2⟩, h3⟩, h4⟩ := hc
      have hx : (x = 112 ∨ x = 80) ∧ T.head? = some 123 := by
        cases T with
        | nil => simp [hasPrefix, List.isPrefixOf] at h2
        | cons t ts =>
          simp [hasPrefix, List.isPrefixOf] at h2
          rcases h2 with ⟨rfl, rfl⟩ | ⟨rfl, rfl⟩ <;> simp
      refine .prop x rfl hx.1 h1 hx.2 h3 ?_
      rcases hx.1 with rfl | rfl <;> simpa using h4
    · left
      exact ⟨d, i + 2, by rw [if_neg hc]⟩
  | chr c =>
    have hc : c ≠ 92 ∧ c ≠ 91 := hwf
    have ht : Item.text (.chr c) ++ T = c :: T := by simp [Item.text]
    rw [ht, patScan_false_cons]
    simp only [hc.2, hc.1, if_false]
    by_cases h40 : c = 40
    · subst h40
      simp only [if_true]
      by_cases hlb : (hasPrefix [63, 60, 61] T || hasPrefix [63, 60, 33] T) = true
      · simp only [hlb, if_true]
        cases hu : u.lookbehind with
        | true => exact .inr ⟨.lookbehind, .lookbehind rfl (by simpa using hlb) hu, by simp⟩
        | false => exact .inl ⟨d + 1, i + 1, by simp⟩
      · simp only [hlb, Bool.false_eq_true, if_false]
        have hlb' := hlb
        simp only [Bool.or_eq_true, not_or, Bool.not_eq_true] at hlb'
        by_cases hn : hasPrefix [63, 60] T = true
        · simp only [hn, if_true]
          by_cases hnn : (u.named && T.contains 62) = true
          · right
            have hnn' := hnn
            simp only [Bool.and_eq_true] at hnn'
            exact ⟨.named, .named rfl hlb'.1 hlb'.2 hn hnn'.1 hnn'.2, by rw [if_pos hnn]⟩
          · exact .inl ⟨d + 1, i + 1, by rw [if_neg hnn]⟩
        · exact .inl ⟨d + 1, i + 1, by simp [hn]⟩
    · simp only [h40, if_false]
      by_cases h41 : c = 41
      · subst h41
        simp only [if_true]
        by_cases hd : d = 0
        · exact .inr ⟨.parenError i, .paren rfl hd, by simp [hd]⟩
        · exact .inl ⟨d - 1, i + 1, by simp [hd]⟩
      · exact .inl ⟨d, i + 1, by simp [h41]⟩

/-- a verdict of the pattern scan comes from a trigger at some item outside every class -/
theorem patScan_items_sound (u : Unsup) (uni : Bool) : ∀ (items : List Item), (∀ it ∈ items, it.WF) → ∀ (d i : Nat) (f : Feat),
    patScan u uni false (items.flatMap Item.text) d i = f → f ≠ .none →
    ∃ a it b d' i', items = a ++ it :: b ∧ Trigger u uni it (b.flatMap Item.text) d' i' f := by
  intro items
  induction items with
  | nil =>
    intro _ d i f h hf
    simp [patScan_nil] at h
    exact absurd h.symm hf
  | cons it rest ih =>
    intro hwf d i f h hf
    have hrest : ∀ x ∈ rest, x.WF := fun x hx => hwf x (List.mem_cons_of_mem _ hx)
    rw [List.flatMap_cons] at h
    rcases patScan_item u uni it (hwf it (by simp)) (rest.flatMap Item.text) d i with ⟨d', i', hstep⟩ | ⟨f', htr, hstep⟩
    · rw [hstep] at h
      obtain ⟨a, it', b, d'', i'', rfl, htr⟩ := ih hrest d' i' f h hf
      exact ⟨it :: a, it', b, d'', i'', by simp, htr⟩
    · rw [hstep] at h
      subst h
      exact ⟨[], it, rest, d, i, by simp, htr⟩

/-- if the scanner stops at an item whatever the depth and position, it stops for the whole pattern -/
theorem patScan_items_complete (u : Unsup) (uni : Bool) (it : Item) (b : List Item)
    (hstop : ∀ d i, patScan u uni false (it.text ++ b.flatMap Item.text) d i ≠ .none) :
    ∀ (a : List Item), (∀ x ∈ a, x.WF) → ∀ d i, patScan u uni false ((a ++ it :: b).flatMap Item.text) d i ≠ .none := by
  intro a
  induction a with
  | nil => intro _ d i; simpa using hstop d i
  | cons x xs ih =>
    intro hwf d i
    have hxs : ∀ y ∈ xs, y.WF := fun y hy => hwf y (List.mem_cons_of_mem _ hy)
    rw [List.cons_append, List.flatMap_cons]
    rcases patScan_item u uni x (hwf x (by simp)) ((xs ++ it :: b).flatMap Item.text) d i with ⟨d', i', hstep⟩ | ⟨f', htr, hstep⟩
    · rw [hstep]; exact ih hxs d' i'
    · rw [hstep]; exact htr.ne_none

/-- plain characters at the start of the text are plain-character items -/
theorem items_hasPrefix : ∀ (p : List Nat), (∀ c ∈ p, c ≠ 92 ∧ c ≠ 91) → ∀ (items : List Item), (∀ it ∈ items, it.WF) →
    hasPrefix p (items.flatMap Item.text) = true → ∃ b, items = p.map Item.chr ++ b := by
  intro p
  induction p with
  | nil => intro _ items _ _; exact ⟨items, by simp⟩
  | cons c p ih =>
    intro hp items hwf h
    have hc := hp c (by simp)
    cases items with
    | nil => simp [hasPrefix, List.isPrefixOf] at h
    | cons it rest =>
      cases it with
      | chr x =>
        simp only [List.flatMap_cons, Item.text, List.singleton_append, hasPrefix, List.isPrefixOf, Bool.and_eq_true,
          beq_iff_eq] at h
        obtain ⟨b, hb⟩ := ih (fun y hy => hp y (List.mem_cons_of_mem _ hy)) rest
          (fun y hy => hwf y (List.mem_cons_of_mem _ hy)) h.2
        exact ⟨b, by simp [h.1, hb]⟩
      | esc x =>
        simp only [List.flatMap_cons, Item.text, List.cons_append, hasPrefix, List.isPrefixOf, Bool.and_eq_true,
          beq_iff_eq] at h
        exact absurd h.1 hc.1
      | cls atoms =>
        simp only [List.flatMap_cons, Item.text, List.cons_append, hasPrefix, List.isPrefixOf, Bool.and_eq_true,
          beq_iff_eq] at h
        exact absurd h.1 hc.2

/-- the first character of the text of well-formed items that do not start with a given plain-character item -/
theorem items_head_ne (c : Nat) (hc : c ≠ 92 ∧ c ≠ 91) (items : List Item) (hwf : ∀ it ∈ items, it.WF)
    (h : items.head? ≠ some (.chr c)) : (items.flatMap Item.text).head? ≠ some c := by
  cases items with
  | nil => simp
  | cons it rest =>
    cases it with
    | chr x =>
      simp only [List.head?_cons, ne_eq, Option.some.injEq, Item.chr.injEq] at h
      simp [Item.text, h]
    | esc x => simp [Item.text]; exact fun e => hc.1 e.symm
    | cls atoms => simp [Item.text]; exact fun e => hc.2 e.symm

/-! ### the flags -/

/-- which flag needs which feature (`g i m`: ES5, always supported; an unknown flag is never supported) -/
def flagNeeds (u : Unsup) (c : Nat) : Bool :=
  if c = 103 ∨ c = 105 ∨ c = 109 then false
  else if c = 115 then u.dotAll
  else if c = 121 ∨ c = 117 then u.stickyUnicode
  else if c = 100 then u.matchIndices
  else if c = 118 then u.setNotation
  else true

theorem flagScan_cons (u : Unsup) (c : Nat) (rest : List Nat) :
    flagScan u (c :: rest) = if flagNeeds u c = true then .flag c else flagScan u rest := by
  rw [flagScan.eq_2]
  unfold flagNeeds
  by_cases h1 : c = 103 ∨ c = 105 ∨ c = 109
  · simp [h1]
  · simp only [h1, if_false]
    by_cases h2 : c = 115
    · cases hd : u.dotAll <;> simp [h2, hd]
    · simp only [h2, if_false]
      by_cases h3 : c = 121 ∨ c = 117
      · cases hd : u.stickyUnicode <;> simp [h3, hd]
      · simp only [h3, if_false]
        by_cases h4 : c = 100
        · cases hd : u.matchIndices <;> simp [h4, hd]
        · simp only [h4, if_false]
          by_cases h5 : c = 118
          · cases hd : u.setNotation <;> simp [h5, hd]
          · simp [h5]

theorem flagScan_none_iff (u : Unsup) (flags : List Nat) :
    flagScan u flags = .none ↔ ∀ c ∈ flags, flagNeeds u c = false := by
  induction flags with
  | nil => simp [flagScan]
  | cons c rest ih =>
    rw [flagScan_cons]
    simp only [List.mem_cons, forall_eq_or_imp, ← ih]
    cases flagNeeds u c <;> simp

/-- the reported flag is the first one that needs an unsupported feature -/
theorem flagScan_flag (u : Unsup) : ∀ (flags : List Nat) (c : Nat), flagScan u flags = .flag c →
    ∃ a b, flags = a ++ c :: b ∧ flagNeeds u c = true ∧ ∀ x ∈ a, flagNeeds u x = false := by
  intro flags
  induction flags with
  | nil => intro c h; simp [flagScan] at h
  | cons x rest ih =>
    intro c h
    rw [flagScan_cons] at h
    cases hx : flagNeeds u x with
    | true =>
      simp only [hx, if_true, Feat.flag.injEq] at h
      subst h
      exact ⟨[], rest, by simp, hx, by simp⟩
    | false =>
      simp only [hx, Bool.false_eq_true, if_false] at h
      obtain ⟨a, b, rfl, hc, ha⟩ := ih c h
      refine ⟨x :: a, b, by simp, hc, ?_⟩
      intro y hy
      rcases List.mem_cons.1 hy with rfl | hy
      · exact hx
      · exact ha y hy

theorem flagScan_cases (u : Unsup) (flags : List Nat) : flagScan u flags = .none ∨ ∃ c, flagScan u flags = .flag c := by
  induction flags with
  | nil => left; simp [flagScan]
  | cons x rest ih =>
    rw [flagScan_cons]
    cases flagNeeds u x with
    | true => right; exact ⟨x, by simp⟩
    | false => simpa using ih

/-- the verdict is the pattern scan's if it has one, else the flag scan's -/
theorem scanFeatures_cases (u : Unsup) (pattern flags : List Nat) :
    (patScan u (flags.contains 117) false pattern 0 1 ≠ .none ∧
      scanFeatures u pattern flags = patScan u (flags.contains 117) false pattern 0 1) ∨
    (patScan u (flags.contains 117) false pattern 0 1 = .none ∧ scanFeatures u pattern flags = flagScan u flags) := by
  unfold scanFeatures
  cases h : patScan u (flags.contains 117) false pattern 0 1 <;> simp

/-! ### every lexically valid body has an item reading -/

theorem classChars_reading {s : List Nat} (h : ClassChars s) :
    ∃ atoms : List ClassAtom, s = atoms.flatMap ClassAtom.text ∧ ∀ a ∈ atoms, a.WF := by
  induction h with
  | empty => exact ⟨[], by simp, by simp⟩
  | snoc a b _ hb ih =>
    obtain ⟨atoms, rfl, hwf⟩ := ih
    cases hb with
    | plain c h1 h2 h3 =>
      refine ⟨atoms ++ [.chr c], by simp [ClassAtom.text], ?_⟩
      intro x hx
      rcases List.mem_append.1 hx with hx | hx
      · exact hwf x hx
      · simp at hx; subst hx; exact ⟨h3, h2⟩
    | esc s hs =>
      cases hs with
      | mk c hc =>
        refine ⟨atoms ++ [.esc c], by simp [ClassAtom.text], ?_⟩
        intro x hx
        rcases List.mem_append.1 hx with hx | hx
        · exact hwf x hx
        · simp at hx; subst hx; exact True.intro

theorem chars_reading {s : List Nat} (h : Chars s) : ∃ items, Reads s items := by
  induction h with
  | empty => exact ⟨[], by simp [Reads]⟩
  | snoc a b _ hb ih =>
    obtain ⟨items, rfl, hwf⟩ := ih
    have step : ∀ it : Item, it.WF → b = it.text → ∃ items', Reads (items.flatMap Item.text ++ b) items' := by
      intro it hit e
      refine ⟨items ++ [it], by simp [e], ?_⟩
      intro x hx
      rcases List.mem_append.1 hx with hx | hx
      · exact hwf x hx
      · simp at hx; subst hx; exact hit
    cases hb with
    | plain c h1 h2 h3 h4 => exact step (.chr c) ⟨h2, h4⟩ rfl
    | esc s hs =>
      cases hs with
      | mk c hc => exact step (.esc c) True.intro rfl
    | cls s hs =>
      cases hs with
      | mk cc hcc =>
        obtain ⟨atoms, rfl, hwfa⟩ := classChars_reading hcc
        exact step (.cls atoms) hwfa rfl

end EsbuildModel.RegexLex
