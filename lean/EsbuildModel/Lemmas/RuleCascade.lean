/-
Lemmas about the specification Spec/RuleCascade.lean alone: the cascade priority is a total preorder, `later` is an
associative "maximum, later wins ties", `best` of an appended list, and an observational equivalence of rule lists
that is a congruence for the rule constructors.
-/
import EsbuildModel.Spec.RuleCascade

namespace EsbuildModel.Spec.RuleCascade

variable {Elem Env Pr Val : Type}

/-! ### the order -/

theorem Specificity.le_iff (x y : Specificity) :
    x.le y = true ↔ (x.a < y.a ∨ (x.a = y.a ∧ (x.b < y.b ∨ (x.b = y.b ∧ x.c ≤ y.c)))) := by
  simp [Specificity.le]

theorem Specificity.le_refl (x : Specificity) : x.le x = true := by
  rw [Specificity.le_iff]; omega

theorem Specificity.le_total (x y : Specificity) : x.le y = true ∨ y.le x = true := by
  rw [Specificity.le_iff, Specificity.le_iff]; omega

theorem Specificity.le_trans {x y z : Specificity} (h1 : x.le y = true) (h2 : y.le z = true) : x.le z = true := by
  rw [Specificity.le_iff] at *; omega

theorem Specificity.le_antisymm {x y : Specificity} (h1 : x.le y = true) (h2 : y.le x = true) : x = y := by
  rw [Specificity.le_iff] at *
  cases x; cases y; simp at *; omega

theorem Prio.le_iff (x y : Prio) :
    x.le y = true ↔ ((x.important = false ∧ y.important = true) ∨
      (x.important = y.important ∧ (x.layer < y.layer ∨ (x.layer = y.layer ∧ x.spec.le y.spec = true)))) := by
  simp [Prio.le]

theorem Prio.le_refl (x : Prio) : x.le x = true := by
  rw [Prio.le_iff]; simp [Specificity.le_refl]

theorem Prio.le_total (x y : Prio) : x.le y = true ∨ y.le x = true := by
  rw [Prio.le_iff, Prio.le_iff]
  have hs := Specificity.le_total x.spec y.spec
  have ht : x.layer < y.layer ∨ x.layer = y.layer ∨ y.layer < x.layer := by omega
  cases hx : x.important <;> cases hy : y.important <;> simp
  all_goals
    rcases ht with ht | ht | ht
    · left; left; exact ht
    · rcases hs with hs | hs
      · left; right; exact ⟨ht, hs⟩
      · right; right; exact ⟨ht.symm, hs⟩
    · right; left; exact ht

theorem Prio.le_trans {x y z : Prio} (h1 : x.le y = true) (h2 : y.le z = true) : x.le z = true := by
  rw [Prio.le_iff] at *
  cases hx : x.important <;> cases hy : y.important <;> cases hz : z.important <;> simp [hx, hy, hz] at h1 h2 ⊢
  all_goals
    rcases h1 with h1 | ⟨e1, s1⟩ <;> rcases h2 with h2 | ⟨e2, s2⟩
    · left; omega
    · left; omega
    · left; omega
    · right; exact ⟨by omega, Specificity.le_trans s1 s2⟩

theorem Prio.le_antisymm {x y : Prio} (h1 : x.le y = true) (h2 : y.le x = true) : x = y := by
  rw [Prio.le_iff] at *
  cases x with | mk xi xl xs => cases y with | mk yi yl ys =>
  cases xi <;> cases yi <;> simp at h1 h2 ⊢
  all_goals
    rcases h1 with h1 | ⟨e1, s1⟩ <;> rcases h2 with h2 | ⟨e2, s2⟩ <;> try omega
    exact ⟨e1, Specificity.le_antisymm s1 s2⟩

/-! ### `later` -/

@[simp] theorem later_none_left (b : Option (Prio × Val)) : later none b = b := by
  cases b <;> rfl

@[simp] theorem later_none_right (a : Option (Prio × Val)) : later a none = a := by
  cases a <;> rfl

theorem later_some_le {x y : Prio × Val} (h : x.1.le y.1 = true) : later (some x) (some y) = some y := by
  simp [later, h]

theorem later_some_not_le {x y : Prio × Val} (h : x.1.le y.1 = false) : later (some x) (some y) = some x := by
  simp [later, h]

theorem later_self (a : Option (Prio × Val)) : later a a = a := by
  cases a with
  | none => rfl
  | some x => exact later_some_le (Prio.le_refl _)

theorem later_assoc (a b c : Option (Prio × Val)) : later (later a b) c = later a (later b c) := by
  cases a with
  | none => simp
  | some x =>
  cases b with
  | none => simp
  | some y =>
  cases c with
  | none => simp
  | some z =>
    cases hxy : x.1.le y.1 <;> cases hyz : y.1.le z.1
    · -- x > y > z
      rw [later_some_not_le hxy, later_some_not_le hyz, later_some_not_le hxy]
      cases hxz : x.1.le z.1
      · rw [later_some_not_le hxz]
      · exfalso
        have := Prio.le_total y.1 x.1
        rcases this with h | h
        · have := Prio.le_trans h hxz; simp [hyz] at this
        · simp [hxy] at h
    · rw [later_some_not_le hxy, later_some_le hyz]
    · rw [later_some_le hxy, later_some_not_le hyz, later_some_le hxy]
    · rw [later_some_le hxy, later_some_le hyz, later_some_le (Prio.le_trans hxy hyz)]

/-- `b` is at least as strong as `a` and stands later -/
def Dominates (b a : Option (Prio × Val)) : Prop := later a b = b

theorem dominates_none (b : Option (Prio × Val)) : Dominates b none := by simp [Dominates]

theorem dominates_self (a : Option (Prio × Val)) : Dominates a a := later_self a

/-- `later x (later m x) = later m x` -/
theorem dominates_later_right (m x : Option (Prio × Val)) : Dominates (later m x) x := by
  unfold Dominates
  cases x with
  | none => simp
  | some x =>
  cases m with
  | none => simp [later_self]
  | some m =>
    cases h : m.1.le x.1
    · rw [later_some_not_le h]
      rcases Prio.le_total m.1 x.1 with h' | h'
      · simp [h] at h'
      · exact later_some_le h'
    · rw [later_some_le h]; exact later_self _

/-- something that stands before does not disturb domination -/
theorem Dominates.later_left {a b : Option (Prio × Val)} (h : Dominates b a) (c : Option (Prio × Val)) :
    Dominates (later c b) a := by
  unfold Dominates at *
  cases a with
  | none => simp
  | some x =>
  cases b with
  | none => simp at h
  | some y =>
  cases c with
  | none => simpa using h
  | some z =>
    have hxy : x.1.le y.1 = true := by
      cases hxy : x.1.le y.1
      · rw [later_some_not_le hxy] at h
        have : x = y := by simpa using h
        subst this; simp [Prio.le_refl] at hxy
      · rfl
    cases hzy : z.1.le y.1
    · rw [later_some_not_le hzy]
      rcases Prio.le_total z.1 y.1 with h' | h'
      · simp [hzy] at h'
      · exact later_some_le (Prio.le_trans hxy h')
    · rw [later_some_le hzy]; exact later_some_le hxy

theorem Dominates.later_right {a b : Option (Prio × Val)} (h : Dominates b a) (c : Option (Prio × Val)) :
    Dominates (later b c) a := by
  unfold Dominates at *
  rw [← later_assoc, h]

/-! ### `best` -/

theorem best_cons_aux (strength : Bool → LayerPath → Nat) (cs : List (Cand Val)) (acc : Option (Prio × Val)) :
    cs.foldl (fun acc c => later acc (some (prioOf strength c, c.value))) acc =
      later acc (cs.foldl (fun acc c => later acc (some (prioOf strength c, c.value))) none) := by
  induction cs generalizing acc with
  | nil => simp
  | cons c cs ih =>
    simp only [List.foldl_cons]
    rw [ih, ih (later none _), later_none_left, later_assoc]

@[simp] theorem best_nil (strength : Bool → LayerPath → Nat) : best strength ([] : List (Cand Val)) = none := rfl

theorem best_append (strength : Bool → LayerPath → Nat) (xs ys : List (Cand Val)) :
    best strength (xs ++ ys) = later (best strength xs) (best strength ys) := by
  unfold best
  rw [List.foldl_append, best_cons_aux]

theorem best_cons (strength : Bool → LayerPath → Nat) (c : Cand Val) (cs : List (Cand Val)) :
    best strength (c :: cs) = later (some (prioOf strength c, c.value)) (best strength cs) := by
  have := best_append strength [c] cs
  simpa [best] using this

theorem best_eq_none {strength : Bool → LayerPath → Nat} {cs : List (Cand Val)} (h : best strength cs = none) :
    cs = [] := by
  cases cs with
  | nil => rfl
  | cons c cs =>
    rw [best_cons] at h
    cases hb : best strength cs <;> simp [hb, later] at h
    split at h <;> simp at h

/-- the winner is one of the candidates -/
theorem best_mem {strength : Bool → LayerPath → Nat} {cs : List (Cand Val)} {r : Prio × Val}
    (h : best strength cs = some r) : ∃ c ∈ cs, prioOf strength c = r.1 ∧ c.value = r.2 := by
  induction cs generalizing r with
  | nil => simp at h
  | cons c cs ih =>
    rw [best_cons] at h
    cases hb : best strength cs with
    | none =>
      rw [hb] at h; simp at h
      exact ⟨c, by simp, by rw [← h], by rw [← h]⟩
    | some y =>
      rw [hb] at h
      cases hle : (prioOf strength c).le y.1
      · rw [later_some_not_le (by simpa using hle)] at h
        simp at h
        exact ⟨c, by simp, by rw [← h], by rw [← h]⟩
      · rw [later_some_le (by simpa using hle)] at h
        simp at h
        obtain ⟨c', hc', h1, h2⟩ := ih hb
        exact ⟨c', by simp [hc'], by rw [← h, h1], by rw [← h, h2]⟩

/-- no candidate is strictly stronger than the winner -/
theorem best_ge {strength : Bool → LayerPath → Nat} {cs : List (Cand Val)} {c : Cand Val} (hc : c ∈ cs) :
    ∃ r, best strength cs = some r ∧ (prioOf strength c).le r.1 = true := by
  induction cs with
  | nil => simp at hc
  | cons d cs ih =>
    rw [best_cons]
    rcases List.mem_cons.mp hc with rfl | hc
    · cases hb : best strength cs with
      | none => exact ⟨(prioOf strength c, c.value), by simp, Prio.le_refl _⟩
      | some y =>
        cases hle : (prioOf strength c).le y.1
        · exact ⟨_, later_some_not_le (by simpa using hle), Prio.le_refl _⟩
        · exact ⟨_, later_some_le (by simpa using hle), hle⟩
    · obtain ⟨r, hr, hle⟩ := ih hc
      rw [hr]
      cases hd : (prioOf strength d).le r.1
      · refine ⟨_, later_some_not_le (by simpa using hd), ?_⟩
        rcases Prio.le_total (prioOf strength d) r.1 with h | h
        · simp [hd] at h
        · exact Prio.le_trans hle h
      · exact ⟨_, later_some_le (by simpa using hd), hle⟩

/-! ### rule lists -/

theorem declaredRules_append (env : Env) (ctx : LayerPath) (a b : List (SRule Elem Env Pr Val)) :
    declaredRules env ctx (a ++ b) = declaredRules env ctx a ++ declaredRules env ctx b := by
  induction a with
  | nil => simp [declaredRules]
  | cons r a ih => simp [declaredRules, ih]

theorem candsRules_append (env : Env) (e : Elem) (p : Pr) (ctx : LayerPath) (a b : List (SRule Elem Env Pr Val)) :
    candsRules env e p ctx (a ++ b) = candsRules env e p ctx a ++ candsRules env e p ctx b := by
  induction a with
  | nil => simp [candsRules]
  | cons r a ih => simp [candsRules, ih]

@[simp] theorem declaredRules_singleton (env : Env) (ctx : LayerPath) (r : SRule Elem Env Pr Val) :
    declaredRules env ctx [r] = declaredRule env ctx r := by simp [declaredRules]

@[simp] theorem candsRules_singleton (env : Env) (e : Elem) (p : Pr) (ctx : LayerPath) (r : SRule Elem Env Pr Val) :
    candsRules env e p ctx [r] = candsRule env e p ctx r := by simp [candsRules]

theorem declares_append (ctx a b : LayerPath) : declares ctx (a ++ b) = declares ctx a ++ declares (ctx ++ a) b := by
  induction a generalizing ctx with
  | nil => simp [declares]
  | cons s a ih => simp [declares, ih]

/-! ### observational equivalence of rule lists

Two rule lists are equivalent on the environments satisfying `P` when, put at the same place of any style sheet
(inside any layer `ctx`), they declare the same layers in the same order and give the same winner – WITH its priority,
so that the comparison with the rest of the sheet cannot tell them apart – for every element, property and layer
strength function. -/

def EquivOn (P : Env → Prop) (a b : List (SRule Elem Env Pr Val)) : Prop :=
  ∀ env, P env → ∀ ctx, declaredRules env ctx a = declaredRules env ctx b ∧
    ∀ (strength : Bool → LayerPath → Nat) (e : Elem) (p : Pr),
      best strength (candsRules env e p ctx a) = best strength (candsRules env e p ctx b)

theorem EquivOn.refl (P : Env → Prop) (a : List (SRule Elem Env Pr Val)) : EquivOn P a a :=
  fun _ _ _ => ⟨rfl, fun _ _ _ => rfl⟩

theorem EquivOn.symm {P : Env → Prop} {a b : List (SRule Elem Env Pr Val)} (h : EquivOn P a b) : EquivOn P b a :=
  fun env hp ctx => ⟨(h env hp ctx).1.symm, fun s e p => ((h env hp ctx).2 s e p).symm⟩

theorem EquivOn.trans {P : Env → Prop} {a b c : List (SRule Elem Env Pr Val)} (h1 : EquivOn P a b) (h2 : EquivOn P b c) :
    EquivOn P a c :=
  fun env hp ctx => ⟨(h1 env hp ctx).1.trans (h2 env hp ctx).1,
    fun s e p => ((h1 env hp ctx).2 s e p).trans ((h2 env hp ctx).2 s e p)⟩

theorem EquivOn.mono {P Q : Env → Prop} {a b : List (SRule Elem Env Pr Val)} (h : EquivOn P a b)
    (hq : ∀ env, Q env → P env) : EquivOn Q a b :=
  fun env hp ctx => h env (hq env hp) ctx

theorem EquivOn.append {P : Env → Prop} {a a' b b' : List (SRule Elem Env Pr Val)} (h1 : EquivOn P a a')
    (h2 : EquivOn P b b') : EquivOn P (a ++ b) (a' ++ b') := by
  intro env hp ctx
  refine ⟨?_, fun s e p => ?_⟩
  · rw [declaredRules_append, declaredRules_append, (h1 env hp ctx).1, (h2 env hp ctx).1]
  · rw [candsRules_append, candsRules_append, best_append, best_append, (h1 env hp ctx).2, (h2 env hp ctx).2]

theorem EquivOn.cons {P : Env → Prop} {a b : List (SRule Elem Env Pr Val)} (r : SRule Elem Env Pr Val)
    (h : EquivOn P a b) : EquivOn P (r :: a) (r :: b) :=
  EquivOn.append (EquivOn.refl P [r]) h

theorem EquivOn.group {P : Env → Prop} {a b : List (SRule Elem Env Pr Val)} (cond : Env → Bool)
    (h : EquivOn (fun env => P env ∧ cond env = true) a b) : EquivOn P [.group cond a] [.group cond b] := by
  intro env hp ctx
  simp only [declaredRules_singleton, candsRules_singleton, declaredRule, candsRule]
  cases hc : cond env
  · simp
  · simp only [if_true]
    exact h env ⟨hp, hc⟩ ctx

theorem EquivOn.layerBlock {P : Env → Prop} {a b : List (SRule Elem Env Pr Val)} (name : LayerPath)
    (h : EquivOn P a b) : EquivOn P [.layerBlock name a] [.layerBlock name b] := by
  intro env hp ctx
  simp only [declaredRules_singleton, candsRules_singleton, declaredRule, candsRule]
  exact ⟨by rw [(h env hp (ctx ++ name)).1], (h env hp (ctx ++ name)).2⟩

/-- equivalent sheets have the same winners -/
theorem EquivOn.winner_eq {a b : List (SRule Elem Env Pr Val)} (h : EquivOn (fun _ => True) a b)
    (env : Env) (e : Elem) (p : Pr) : winner a env e p = winner b env e p := by
  unfold winner
  rw [(h env trivial []).1, (h env trivial []).2]

/-! ### equivalences of the specification that the minifier relies on -/

/-- a rule that neither declares a layer nor contributes a declaration, in the environments of `P` -/
def Silent (P : Env → Prop) (r : SRule Elem Env Pr Val) : Prop :=
  ∀ env, P env → ∀ ctx, declaredRule env ctx r = [] ∧ ∀ e p, candsRule env e p ctx r = []

theorem Silent.equiv_nil {P : Env → Prop} {r : SRule Elem Env Pr Val} (h : Silent P r) : EquivOn P [r] [] := by
  intro env hp ctx
  simp only [declaredRules_singleton, candsRules_singleton]
  exact ⟨by simp [(h env hp ctx).1, declaredRules], fun s e p => by simp [(h env hp ctx).2, candsRules]⟩

theorem silent_inert (P : Env → Prop) : Silent P (.inert : SRule Elem Env Pr Val) :=
  fun _ _ _ => ⟨rfl, fun _ _ => rfl⟩

theorem silent_style_nil (P : Env → Prop) (sels : List (Selector Elem)) :
    Silent P (.style sels [] : SRule Elem Env Pr Val) := by
  intro env _ ctx
  refine ⟨rfl, fun e p => ?_⟩
  simp only [candsRule]
  split
  · split <;> simp
  · rfl

theorem silent_group_nil (P : Env → Prop) (cond : Env → Bool) :
    Silent P (.group cond [] : SRule Elem Env Pr Val) := by
  intro env _ ctx
  exact ⟨by simp [declaredRule, declaredRules], fun e p => by simp [candsRule, candsRules]⟩

theorem listSpec_none_of_no_match {sels : List (Selector Elem)} {e : Elem}
    (h : ∀ s ∈ sels, s.applies e = false) : listSpec sels e = none := by
  unfold listSpec
  have : sels.filter (fun s => s.applies e) = [] := by
    apply List.filter_eq_nil_iff.mpr
    intro s hs; simp [h s hs]
  rw [this]; rfl

/-- a style rule none of whose selectors matches anything -/
theorem silent_style_dead (P : Env → Prop) (sels : List (Selector Elem)) (decls : List (Decl Pr Val))
    (h : ∀ s ∈ sels, ∀ e, s.applies e = false) : Silent P (.style sels decls : SRule Elem Env Pr Val) := by
  intro env _ ctx
  refine ⟨rfl, fun e p => ?_⟩
  simp only [candsRule]
  split
  · rw [listSpec_none_of_no_match (fun s hs => h s hs e)]
  · rfl

/-- `@media M { … @media M { X } … }`: inside `M` the inner wrapper is redundant -/
theorem equiv_unwrap {P : Env → Prop} (cond : Env → Bool) (body : List (SRule Elem Env Pr Val))
    (h : ∀ env, P env → cond env = true) : EquivOn P [.group cond body] body := by
  intro env hp ctx
  refine ⟨?_, fun s e p => ?_⟩ <;> simp [declaredRule, candsRule, h env hp]

/-- `@layer a { @layer b { X } }` = `@layer a.b { X }` -/
theorem equiv_layer_collapse (P : Env → Prop) (n1 n2 : LayerPath) (body : List (SRule Elem Env Pr Val)) :
    EquivOn P [.layerBlock n1 [.layerBlock n2 body]] [.layerBlock (n1 ++ n2) body] := by
  intro env _ ctx
  refine ⟨?_, fun s e p => ?_⟩ <;>
    simp [declaredRule, candsRule, declares_append, declaredRules, candsRules]

/-- `@layer a { @layer b; }` = `@layer a.b;` -/
theorem equiv_layer_collapse_stmt (P : Env → Prop) (n1 n2 : LayerPath) :
    EquivOn P [(.layerBlock n1 [.layerStmt [n2]] : SRule Elem Env Pr Val)] [.layerStmt [n1 ++ n2]] := by
  intro env _ ctx
  refine ⟨?_, fun s e p => ?_⟩ <;>
    simp [declaredRule, candsRule, declares_append, declaredRules, candsRules]

/-- `@layer a {}` = `@layer a;` -/
theorem equiv_layer_empty (P : Env → Prop) (n : LayerPath) :
    EquivOn P [(.layerBlock n [] : SRule Elem Env Pr Val)] [.layerStmt [n]] := by
  intro env _ ctx
  refine ⟨?_, fun s e p => ?_⟩ <;>
    simp [declaredRule, candsRule, declaredRules, candsRules]

/-- A rule that declares no layer may be dropped in front of a list that dominates it: this is what makes the
removal of an EARLIER duplicate sound (the later copy has the same priority and stands later). -/
theorem equiv_drop_dominated {P : Env → Prop} (r : SRule Elem Env Pr Val) (t : List (SRule Elem Env Pr Val))
    (hd : ∀ env, P env → ∀ ctx, declaredRule env ctx r = [])
    (hdom : ∀ env, P env → ∀ ctx strength e p,
      Dominates (best strength (candsRules env e p ctx t)) (best strength (candsRule env e p ctx r))) :
    EquivOn P (r :: t) t := by
  intro env hp ctx
  refine ⟨by simp [declaredRules, hd env hp ctx], fun s e p => ?_⟩
  simp only [candsRules]
  rw [best_append]
  exact hdom env hp ctx s e p

/-- a list dominates each of its members -/
theorem dominates_of_mem (env : Env) (e : Elem) (p : Pr) (ctx : LayerPath) (strength : Bool → LayerPath → Nat)
    {r : SRule Elem Env Pr Val} {t : List (SRule Elem Env Pr Val)} (h : r ∈ t) :
    Dominates (best strength (candsRules env e p ctx t)) (best strength (candsRule env e p ctx r)) := by
  induction t with
  | nil => simp at h
  | cons x t ih =>
    simp only [candsRules]
    rw [best_append]
    rcases List.mem_cons.mp h with rfl | h
    · unfold Dominates
      rw [← later_assoc, later_self]
    · exact (ih h).later_left _

/-! ### merging two style rules with the same declarations -/

theorem maxSpec_eq_none {l : List Specificity} (h : maxSpec l = none) : l = [] := by
  cases l with
  | nil => rfl
  | cons s rest =>
    simp only [maxSpec] at h
    split at h
    · simp at h
    · split at h <;> simp at h

theorem maxSpec_mem {l : List Specificity} {m : Specificity} (h : maxSpec l = some m) :
    m ∈ l ∧ ∀ x ∈ l, x.le m = true := by
  induction l generalizing m with
  | nil => simp [maxSpec] at h
  | cons s rest ih =>
    simp only [maxSpec] at h
    split at h
    · rename_i hn
      have := maxSpec_eq_none hn
      subst this
      simp at h; subst h
      simp [Specificity.le_refl]
    · rename_i m' hm'
      obtain ⟨hmem, hmax⟩ := ih hm'
      split at h
      · rename_i hle
        simp at h; subst h
        refine ⟨by simp [hmem], fun x hx => ?_⟩
        rcases List.mem_cons.mp hx with rfl | hx
        · exact hle
        · exact hmax x hx
      · rename_i hle
        simp at h; subst h
        refine ⟨by simp, fun x hx => ?_⟩
        rcases List.mem_cons.mp hx with rfl | hx
        · exact Specificity.le_refl _
        · rcases Specificity.le_total s m' with h' | h'
          · exact absurd h' hle
          · exact Specificity.le_trans (hmax x hx) h'

/-- the greatest specificity of a list is determined by its members -/
theorem maxSpec_congr {l l' : List Specificity} (h : ∀ x, x ∈ l ↔ x ∈ l') : maxSpec l = maxSpec l' := by
  cases h1 : maxSpec l with
  | none =>
    have := maxSpec_eq_none h1; subst this
    cases h2 : maxSpec l' with
    | none => rfl
    | some m => exact absurd ((h m).mpr (maxSpec_mem h2).1) (by simp)
  | some m =>
    cases h2 : maxSpec l' with
    | none =>
      have := maxSpec_eq_none h2; subst this
      exact absurd ((h m).mp (maxSpec_mem h1).1) (by simp)
    | some m' =>
      obtain ⟨a1, b1⟩ := maxSpec_mem h1
      obtain ⟨a2, b2⟩ := maxSpec_mem h2
      rw [Specificity.le_antisymm (b2 m ((h m).mp a1)) (b1 m' ((h m').mpr a2))]

theorem maxSpec_of_isMax {l : List Specificity} {m : Specificity} (hm : m ∈ l) (hmax : ∀ x ∈ l, x.le m = true) :
    maxSpec l = some m := by
  cases h : maxSpec l with
  | none => have := maxSpec_eq_none h; subst this; simp at hm
  | some m' =>
    obtain ⟨a, b⟩ := maxSpec_mem h
    rw [Specificity.le_antisymm (hmax m' a) (b m hm)]

/-- the candidates of a declaration list at specificity `sp` -/
def declCands (decls : List (Decl Pr Val)) (p : Pr) (ctx : LayerPath) (sp : Specificity) : List (Cand Val) :=
  decls.filterMap (fun d => (d.sets p).map (fun v => ⟨d.important, ctx, sp, v⟩))

theorem mem_declCands {decls : List (Decl Pr Val)} {p : Pr} {ctx : LayerPath} {sp : Specificity} {c : Cand Val} :
    c ∈ declCands decls p ctx sp ↔ ∃ d ∈ decls, ∃ v, d.sets p = some v ∧ c = ⟨d.important, ctx, sp, v⟩ := by
  unfold declCands
  rw [List.mem_filterMap]
  constructor
  · rintro ⟨d, hd, h⟩
    cases hv : d.sets p with
    | none => simp [hv] at h
    | some v => simp [hv] at h; exact ⟨d, hd, v, hv, h.symm⟩
  · rintro ⟨d, hd, v, hv, rfl⟩
    exact ⟨d, hd, by simp [hv]⟩

theorem prio_le_of_spec_le (strength : Bool → LayerPath → Nat) (imp : Bool) (ctx : LayerPath) {a b : Specificity}
    (v w : Val) (h : a.le b = true) :
    (prioOf strength (⟨imp, ctx, a, v⟩ : Cand Val)).le (prioOf strength (⟨imp, ctx, b, w⟩ : Cand Val)) = true := by
  rw [Prio.le_iff]; right; simp [prioOf, h]

theorem spec_le_of_prio_le (strength : Bool → LayerPath → Nat) (imp : Bool) (ctx : LayerPath) {a b : Specificity}
    (v w : Val)
    (h : (prioOf strength (⟨imp, ctx, a, v⟩ : Cand Val)).le (prioOf strength (⟨imp, ctx, b, w⟩ : Cand Val)) = true) :
    a.le b = true := by
  rw [Prio.le_iff] at h
  simp [prioOf] at h
  exact h

theorem best_declCands_le (strength : Bool → LayerPath → Nat) (decls : List (Decl Pr Val)) (p : Pr) (ctx : LayerPath)
    {a b : Specificity} (h : a.le b = true) :
    later (best strength (declCands decls p ctx a)) (best strength (declCands decls p ctx b)) =
      best strength (declCands decls p ctx b) := by
  cases ha : best strength (declCands decls p ctx a) with
  | none => simp
  | some r =>
    obtain ⟨c, hc, hp, _⟩ := best_mem ha
    obtain ⟨d, hd, v, hv, rfl⟩ := mem_declCands.mp hc
    have hc' : (⟨d.important, ctx, b, v⟩ : Cand Val) ∈ declCands decls p ctx b :=
      mem_declCands.mpr ⟨d, hd, v, hv, rfl⟩
    obtain ⟨r', hr', hle⟩ := best_ge (strength := strength) hc'
    rw [hr']
    apply later_some_le
    rw [← hp]
    exact Prio.le_trans (prio_le_of_spec_le strength _ _ v v h) hle

theorem best_declCands_not_le (strength : Bool → LayerPath → Nat) (decls : List (Decl Pr Val)) (p : Pr)
    (ctx : LayerPath) {a b : Specificity} (h : a.le b = false) :
    later (best strength (declCands decls p ctx a)) (best strength (declCands decls p ctx b)) =
      best strength (declCands decls p ctx a) := by
  cases hb : best strength (declCands decls p ctx b) with
  | none => simp
  | some r' =>
    obtain ⟨c', hc', hp', _⟩ := best_mem hb
    obtain ⟨d, hd, v, hv, rfl⟩ := mem_declCands.mp hc'
    have hc : (⟨d.important, ctx, a, v⟩ : Cand Val) ∈ declCands decls p ctx a :=
      mem_declCands.mpr ⟨d, hd, v, hv, rfl⟩
    obtain ⟨r, hr, hle⟩ := best_ge (strength := strength) hc
    rw [hr]
    apply later_some_not_le
    cases hrr : r.1.le r'.1
    · rfl
    · exfalso
      rw [← hp'] at hrr
      have := spec_le_of_prio_le strength _ _ v v (Prio.le_trans hle hrr)
      simp [h] at this

theorem candsRule_style (env : Env) (e : Elem) (p : Pr) (ctx : LayerPath) (sels : List (Selector Elem))
    (decls : List (Decl Pr Val)) (hu : sels.all (·.understood) = true) :
    candsRule (Env := Env) env e p ctx (.style sels decls) =
      match listSpec sels e with
      | some sp => declCands decls p ctx sp
      | none => [] := by
  simp only [candsRule, hu, if_true, declCands]
  cases listSpec sels e <;> rfl

theorem candsRule_style_not_understood (env : Env) (e : Elem) (p : Pr) (ctx : LayerPath) (sels : List (Selector Elem))
    (decls : List (Decl Pr Val)) (hu : ∀ x ∈ sels, x.understood = false) :
    candsRule (Env := Env) env e p ctx (.style sels decls) = [] := by
  cases sels with
  | nil => simp [candsRule, listSpec, maxSpec]
  | cons x xs => simp [candsRule, hu x (by simp)]

/-- the selector list of a style rule only matters as a set -/
theorem equiv_style_congr (P : Env → Prop) (s s' : List (Selector Elem)) (decls : List (Decl Pr Val))
    (hmem : ∀ x, x ∈ s ↔ x ∈ s') :
    EquivOn P [(.style s decls : SRule Elem Env Pr Val)] [.style s' decls] := by
  intro env _ ctx
  refine ⟨by simp [declaredRule], fun strength e p => ?_⟩
  have hall : s.all (·.understood) = s'.all (·.understood) := by
    rw [Bool.eq_iff_iff, List.all_eq_true, List.all_eq_true]
    exact ⟨fun h x hx => h x ((hmem x).mpr hx), fun h x hx => h x ((hmem x).mp hx)⟩
  have hspec : listSpec s e = listSpec s' e := by
    unfold listSpec
    apply maxSpec_congr
    intro x
    simp only [List.mem_map, List.mem_filter]
    constructor
    · rintro ⟨y, ⟨hy, ha⟩, rfl⟩; exact ⟨y, ⟨(hmem y).mp hy, ha⟩, rfl⟩
    · rintro ⟨y, ⟨hy, ha⟩, rfl⟩; exact ⟨y, ⟨(hmem y).mpr hy, ha⟩, rfl⟩
  simp only [candsRules_singleton, candsRule, hall, hspec]

/-- `a{B} b{B}` = `a,b{B}` provided the user agent understands every selector of both lists (or none at all: then
all three rules are dropped); the merged list may be any list with the same members (duplicates dropped, any order) -/
theorem equiv_merge (P : Env → Prop) (s1 s2 s12 : List (Selector Elem)) (decls : List (Decl Pr Val))
    (hu : (∀ x ∈ s1 ++ s2, x.understood = true) ∨ (∀ x ∈ s1 ++ s2, x.understood = false))
    (hmem : ∀ x, x ∈ s12 ↔ x ∈ s1 ∨ x ∈ s2) :
    EquivOn P [(.style s1 decls : SRule Elem Env Pr Val), .style s2 decls] [.style s12 decls] := by
  have hnone : (∀ x ∈ s1 ++ s2, x.understood = false) →
      EquivOn P [(.style s1 decls : SRule Elem Env Pr Val), .style s2 decls] [.style s12 decls] := by
    intro hu env _ ctx
    refine ⟨by simp [declaredRules, declaredRule], fun strength e p => ?_⟩
    simp only [candsRules, List.append_nil]
    rw [candsRule_style_not_understood _ _ _ _ s1 _ (fun x hx => hu x (by simp [hx])),
      candsRule_style_not_understood _ _ _ _ s2 _ (fun x hx => hu x (by simp [hx])),
      candsRule_style_not_understood _ _ _ _ s12 _ (fun x hx => hu x (by
        rcases (hmem x).mp hx with h | h <;> simp [h]))]
    rfl
  rcases hu with hu | hu
  rotate_left
  · exact hnone hu
  have h1 : s1.all (·.understood) = true := by
    rw [List.all_eq_true]; exact fun x hx => hu x (by simp [hx])
  have h2 : s2.all (·.understood) = true := by
    rw [List.all_eq_true]; exact fun x hx => hu x (by simp [hx])
  have h12 : s12.all (·.understood) = true := by
    rw [List.all_eq_true] at *
    intro x hx
    rcases (hmem x).mp hx with h | h
    · exact h1 x h
    · exact h2 x h
  intro env _ ctx
  refine ⟨by simp [declaredRules, declaredRule], fun strength e p => ?_⟩
  simp only [candsRules, List.append_nil, candsRule_style _ _ _ _ _ _ h1, candsRule_style _ _ _ _ _ _ h2,
    candsRule_style _ _ _ _ _ _ h12]
  rw [best_append]
  -- the specificities of the matching selectors
  have hms : ∀ x, x ∈ (s12.filter (fun s => s.applies e)).map (·.spec) ↔
      x ∈ (s1.filter (fun s => s.applies e)).map (·.spec) ∨ x ∈ (s2.filter (fun s => s.applies e)).map (·.spec) := by
    intro x
    simp only [List.mem_map, List.mem_filter]
    constructor
    · rintro ⟨s, ⟨hs, ha⟩, rfl⟩
      rcases (hmem s).mp hs with h | h
      · exact Or.inl ⟨s, ⟨h, ha⟩, rfl⟩
      · exact Or.inr ⟨s, ⟨h, ha⟩, rfl⟩
    · rintro (⟨s, ⟨hs, ha⟩, rfl⟩ | ⟨s, ⟨hs, ha⟩, rfl⟩)
      · exact ⟨s, ⟨(hmem s).mpr (Or.inl hs), ha⟩, rfl⟩
      · exact ⟨s, ⟨(hmem s).mpr (Or.inr hs), ha⟩, rfl⟩
  cases ha : listSpec s1 e with
  | none =>
    have e1 := maxSpec_eq_none ha
    have : listSpec s12 e = listSpec s2 e := by
      unfold listSpec
      apply maxSpec_congr
      intro x; rw [hms, e1]; simp
    rw [this]; simp
  | some a =>
    cases hb : listSpec s2 e with
    | none =>
      have e2 := maxSpec_eq_none hb
      have : listSpec s12 e = some a := by
        rw [← ha]; unfold listSpec
        apply maxSpec_congr
        intro x; rw [hms, e2]; simp
      rw [this]; simp
    | some b =>
      obtain ⟨am, amax⟩ := maxSpec_mem ha
      obtain ⟨bm, bmax⟩ := maxSpec_mem hb
      cases hab : a.le b
      · have : listSpec s12 e = some a := by
          apply maxSpec_of_isMax ((hms a).mpr (Or.inl am))
          intro x hx
          rcases (hms x).mp hx with h | h
          · exact amax x h
          · rcases Specificity.le_total a b with h' | h'
            · simp [hab] at h'
            · exact Specificity.le_trans (bmax x h) h'
        rw [this]
        exact best_declCands_not_le strength decls p ctx hab
      · have : listSpec s12 e = some b := by
          apply maxSpec_of_isMax ((hms b).mpr (Or.inr bm))
          intro x hx
          rcases (hms x).mp hx with h | h
          · exact Specificity.le_trans (amax x h) hab
          · exact bmax x h
        rw [this]
        exact best_declCands_le strength decls p ctx hab

/-! ### dropping a dominated block of rules -/

theorem equiv_drop_dominated_list {P : Env → Prop} (x t : List (SRule Elem Env Pr Val))
    (hd : ∀ env, P env → ∀ ctx, declaredRules env ctx x = [])
    (hdom : ∀ env, P env → ∀ ctx strength e p,
      Dominates (best strength (candsRules env e p ctx t)) (best strength (candsRules env e p ctx x))) :
    EquivOn P (x ++ t) t := by
  intro env hp ctx
  refine ⟨by simp [declaredRules_append, hd env hp ctx], fun s e p => ?_⟩
  rw [candsRules_append, best_append]
  exact hdom env hp ctx s e p

theorem dominates_append_left (env : Env) (e : Elem) (p : Pr) (ctx : LayerPath) (strength : Bool → LayerPath → Nat)
    {b : Option (Prio × Val)} (a t : List (SRule Elem Env Pr Val))
    (h : Dominates (best strength (candsRules env e p ctx t)) b) :
    Dominates (best strength (candsRules env e p ctx (a ++ t))) b := by
  rw [candsRules_append, best_append]
  exact h.later_left _

theorem dominates_prefix (env : Env) (e : Elem) (p : Pr) (ctx : LayerPath) (strength : Bool → LayerPath → Nat)
    (x t : List (SRule Elem Env Pr Val)) :
    Dominates (best strength (candsRules env e p ctx (x ++ t))) (best strength (candsRules env e p ctx x)) := by
  rw [candsRules_append, best_append]
  unfold Dominates
  rw [← later_assoc, later_self]

end EsbuildModel.Spec.RuleCascade
