import EsbuildModel.Impl.JsonDenote
/-
Basic facts on the JSON model: the result monad, the log (messages only accumulate, errors never disappear), code
points with widths.
-/
namespace EsbuildModel.Json

@[simp] theorem R.bind_ok {α β : Type} (a : α) (f : α → R β) : (R.ok a).bind f = f a := rfl
@[simp] theorem R.bind_panic {α β : Type} (l : Log) (f : α → R β) : (R.panic l : R α).bind f = .panic l := rfl
@[simp] theorem R.bind_crash {α β : Type} (f : α → R β) : (R.crash : R α).bind f = .crash := rfl

theorem R.bind_assoc {α β γ : Type} (r : R α) (f : α → R β) (g : β → R γ) :
    (r.bind f).bind g = r.bind (fun a => (f a).bind g) := by
  cases r <;> rfl

theorem R.bind_eq_ok {α β : Type} {r : R α} {f : α → R β} {b : β} (h : r.bind f = .ok b) :
    ∃ a, r = .ok a ∧ f a = .ok b := by
  cases r with
  | ok a => exact ⟨a, rfl, h⟩
  | panic l => cases h
  | crash => cases h

theorem R.bind_ne_crash {α β : Type} {r : R α} {f : α → R β} (h1 : r ≠ .crash) (h2 : ∀ a, r = .ok a → f a ≠ .crash) :
    r.bind f ≠ .crash := by
  cases r with
  | ok a => exact h2 a rfl
  | panic l => intro h; cases h
  | crash => exact absurd rfl h1

/-! ## the log -/

@[simp] theorem Log.hasErrors_rangeError (l : Log) (off : Nat) : (l.rangeError off).hasErrors = true ∨
    (l.rangeError off) = l := by
  unfold Log.rangeError
  split
  · right; rfl
  · left; simp [Log.hasErrors]

theorem Log.hasErrors_error (l : Log) (off : Nat) : (l.error off).hasErrors = true := by
  simp [Log.error, Log.hasErrors]

theorem Log.hasErrors_warn (l : Log) (off : Nat) : (l.warn off).hasErrors = l.hasErrors := by
  simp [Log.warn, Log.hasErrors]

/-- errors never disappear -/
def Log.le (a b : Log) : Prop := a.hasErrors = true → b.hasErrors = true

theorem Log.le_refl (a : Log) : a.le a := fun h => h
theorem Log.le_trans {a b c : Log} (h1 : a.le b) (h2 : b.le c) : a.le c := fun h => h2 (h1 h)

theorem Log.le_rangeError (l : Log) (off : Nat) : l.le (l.rangeError off) := by
  intro h
  unfold Log.rangeError
  split
  · exact h
  · simp [Log.hasErrors]

theorem Log.le_error (l : Log) (off : Nat) : l.le (l.error off) := fun _ => Log.hasErrors_error l off
theorem Log.le_warn (l : Log) (off : Nat) : l.le (l.warn off) := by
  intro h; rw [Log.hasErrors_warn]; exact h

/-- `prevErrorLoc` is only ever set together with an error message: a log without errors has it unset or … -/
def Log.Clean (l : Log) : Prop := l.hasErrors = false ∧ l.prev = none

theorem Log.rangeError_hasErrors_of_clean {l : Log} (h : l.Clean) (off : Nat) : (l.rangeError off).hasErrors = true := by
  unfold Log.rangeError
  rw [h.2]
  simp [Log.hasErrors]

theorem Log.clean_warn {l : Log} (h : l.Clean) (off : Nat) : (l.warn off).Clean :=
  ⟨by rw [Log.hasErrors_warn]; exact h.1, h.2⟩

/-! ## code points -/

/-- a Unicode scalar value with the width of its UTF-8 encoding -/
def cpOf (c : Char) : Cp := ⟨c, (Spec.Unicode.utf8 c.toNat).length⟩

def cps (l : List Char) : List Cp := l.map cpOf

@[simp] theorem cps_nil : cps [] = [] := rfl
@[simp] theorem cps_cons (c : Char) (l : List Char) : cps (c :: l) = cpOf c :: cps l := rfl
@[simp] theorem cps_append (a b : List Char) : cps (a ++ b) = cps a ++ cps b := by simp [cps]
@[simp] theorem cpOf_c (c : Char) : (cpOf c).c = c := rfl
@[simp] theorem chars_cps (l : List Char) : chars (cps l) = l := by
  simp [chars, cps, Function.comp_def]
@[simp] theorem chars_nil : chars [] = [] := rfl
@[simp] theorem chars_cons (c : Cp) (l : List Cp) : chars (c :: l) = c.c :: chars l := rfl
@[simp] theorem chars_append (a b : List Cp) : chars (a ++ b) = chars a ++ chars b := by simp [chars]
@[simp] theorem cps_length (l : List Char) : (cps l).length = l.length := by simp [cps]

theorem cpOf_w_pos (c : Char) : 0 < (cpOf c).w := by
  simp only [cpOf, Spec.Unicode.utf8]
  split
  · simp
  · split
    · simp
    · split <;> simp

/-! ## what the parser and `Next` read of a lexer state -/

structure View where
  tok : Tok
  rest : List Cp
  end_ : Nat
  start : Nat
  nl : Bool
  log : Log

def Lx.view (L : Lx) : View := ⟨L.tok, L.rest, L.end_, L.start, L.nl, L.log⟩

@[simp] theorem Lx.view_at (L : Lx) (sk : Sk) (tok : Tok) (rest : List Cp) (e : Nat) :
    (L.at sk tok rest e).view = ⟨tok, rest, e, sk.pos, sk.nl, sk.log⟩ := rfl

theorem Lx.view_tok {L : Lx} {v : View} (h : L.view = v) : L.tok = v.tok := by subst h; rfl
theorem Lx.view_rest {L : Lx} {v : View} (h : L.view = v) : L.rest = v.rest := by subst h; rfl
theorem Lx.view_end {L : Lx} {v : View} (h : L.view = v) : L.end_ = v.end_ := by subst h; rfl
theorem Lx.view_start {L : Lx} {v : View} (h : L.view = v) : L.start = v.start := by subst h; rfl
theorem Lx.view_nl {L : Lx} {v : View} (h : L.view = v) : L.nl = v.nl := by subst h; rfl
theorem Lx.view_log {L : Lx} {v : View} (h : L.view = v) : L.log = v.log := by subst h; rfl

end EsbuildModel.Json
