import EsbuildModel.Lemmas.SmJoin
/-!
# Helper lemmas for `Props/C07Join.lean` — part 2: the Source Map v3 decoder inverts the sequential encoder
-/
namespace EsbuildModel.SmJoin
open Vlq
open Spec.SourceMapV3 (Ev Orig Seg segsOf St run step endSeg signed b64)

/-! ## one number -/

theorem run_append (st : St) (a b : Bytes) :
    run st (a ++ b) =
      match run st a with
      | none => none
      | some (s1, o1) =>
        match run s1 b with
        | none => none
        | some (s2, o2) => some (s2, o1 ++ o2) := by
  induction a generalizing st with
  | nil => simp [run]; cases run st b <;> simp
  | cons c cs ih =>
    simp only [List.cons_append, run]
    cases step st c with
    | none => rfl
    | some r =>
      obtain ⟨s1, o1⟩ := r
      simp only [ih]
      cases run s1 cs with
      | none => rfl
      | some r2 =>
        obtain ⟨s2, o2⟩ := r2
        simp only
        cases run s2 b with
        | none => rfl
        | some r3 => simp [List.append_assoc]

theorem step_digit (st : St) (d : Nat) (hd : d < 64) :
    step st (fromDigit Gen.base64 d) =
      (if d < 32 then
        some ({ st with fields := st.fields ++ [signed ((st.acc.getD (0, 1)).1 + (d % 32) * (st.acc.getD (0, 1)).2)],
                        acc := none }, [])
      else
        some ({ st with acc := some ((st.acc.getD (0, 1)).1 + (d % 32) * (st.acc.getD (0, 1)).2,
                                     (st.acc.getD (0, 1)).2 * 32) }, [])) := by
  have h := fromDigit_not_sep d hd
  unfold step
  simp only [h.2.1, h.2.2.1, ↓reduceIte, fromDigit_b64 d hd]

theorem mul_split (n w : Nat) : n % 32 * w + n / 32 * (w * 32) = n * w := by
  have h : n = 32 * (n / 32) + n % 32 := (Nat.div_add_mod n 32).symm
  generalize n / 32 = q at h ⊢
  generalize n % 32 = r at h ⊢
  subst h
  rw [Nat.add_mul, Nat.mul_comm w 32, ← Nat.mul_assoc, Nat.mul_comm q 32]
  omega

theorem run_digits (n : Nat) (st : St) :
    run st ((encodeDigits n).map (fromDigit Gen.base64)) =
      some ({ st with fields := st.fields ++ [signed ((st.acc.getD (0, 1)).1 + n * (st.acc.getD (0, 1)).2)],
                      acc := none }, []) := by
  fun_induction encodeDigits n generalizing st with
  | case1 n digit vlq' h =>
    have hv : n / 32 = 0 := by rw [← shr5]; exact h
    have hn : n < 32 := by omega
    have hdn : digit = n := by
      have : digit = n % 32 := and31 n
      omega
    rw [hdn]
    simp only [List.map_cons, List.map_nil, run, step_digit st n (by omega), hn, ↓reduceIte, List.append_nil]
    have : n % 32 = n := by omega
    rw [this]
  | case2 n digit vlq' h ih =>
    have hd : digit = n % 32 := and31 n
    have hv : vlq' = n / 32 := shr5 n
    have hdl : digit < 32 := by omega
    simp only [List.map_cons, run]
    rw [or32 _ hdl, step_digit st (digit + 32) (by omega)]
    have h32 : ¬ digit + 32 < 32 := by omega
    simp only [h32, ↓reduceIte, ih, List.nil_append, Option.getD_some]
    have hm : (digit + 32) % 32 = digit := by omega
    rw [hm, hd, hv, Nat.add_assoc, mul_split]

theorem signed_toVlq (v : Int) : signed (toVlq v) = v := by
  rw [toVlq_eq]; unfold signed
  split <;> rename_i h
  · have h1 : (2 * (-v).toNat + 1) % 2 = 1 := by omega
    have h2 : (2 * (-v).toNat + 1) / 2 = (-v).toNat := by omega
    simp only [h1, h2, ↓reduceIte]; omega
  · have h1 : ¬ (2 * v.toNat) % 2 = 1 := by omega
    have h2 : (2 * v.toNat) / 2 = v.toNat := by omega
    simp only [h1, h2, ↓reduceIte]; omega

/-- reading the characters `encodeVLQ` wrote for `v` adds the field `v` to the segment being read -/
theorem run_enc (st : St) (h : st.acc = none) (v : Int) :
    run st (enc v) = some ({ st with fields := st.fields ++ [v] }, []) := by
  unfold enc encodeBytes
  rw [encode_eq, run_digits, h]
  simp only [Option.getD_none, Nat.zero_add, Nat.mul_one, signed_toVlq]

theorem run_fields (st : St) (h : st.acc = none) (fs : List Int) :
    run st (fs.flatMap enc) = some ({ st with fields := st.fields ++ fs }, []) := by
  induction fs generalizing st with
  | nil => simp [run]
  | cons f fs ih =>
    simp only [List.flatMap_cons, run_append, run_enc st h f]
    rw [ih _ (by simpa using h)]
    simp [List.append_assoc]

/-! ## one segment -/

/-- the numbers `appendMappingToBuffer` writes -/
def fieldsOf (p c : State) (omitSrc : Bool) : List Int :=
  [c.genCol - p.genCol]
    ++ (if omitSrc then [] else [c.srcIdx - p.srcIdx, c.origLine - p.origLine, c.origCol - p.origCol])
    ++ (if c.hasName then [c.origName - p.origName] else [])

def commaOf (last : Nat) : Bytes := if NoComma last then [] else [44]

theorem amb_bytes (last : Nat) (p c : State) (o : Bool) :
    (appendMappingToBuffer [] last p c o).1 = commaOf last ++ (fieldsOf p c o).flatMap enc := by
  unfold appendMappingToBuffer commaOf fieldsOf NoComma
  by_cases h1 : last ≠ 0 ∧ last ≠ 59 ∧ last ≠ 34
  · have h1' : ¬ (last = 0 ∨ last = 59 ∨ last = 34) := by omega
    by_cases h2 : o = true <;> by_cases h3 : c.hasName = true <;> simp [h1, h2, h3]
  · have h1' : (last = 0 ∨ last = 59 ∨ last = 34) := by omega
    by_cases h2 : o = true <;> by_cases h3 : c.hasName = true <;> simp [h1, h1', h2, h3]

theorem fieldsOf_ne_nil (p c : State) (o : Bool) : fieldsOf p c o ≠ [] := by simp [fieldsOf]

theorem flatMap_enc_last (l : Nat) (fs : List Int) (h : fs ≠ []) : ¬ NoComma (lastAfter l (fs.flatMap enc)) := by
  obtain ⟨init, f, rfl⟩ : ∃ init f, fs = init ++ [f] := by
    cases hd : fs.getLast? with
    | none => simp [List.getLast?_eq_none_iff] at hd; exact absurd hd h
    | some f =>
      rcases List.getLast?_eq_some_iff.1 hd with ⟨ys, rfl⟩
      exact ⟨ys, f, rfl⟩
  simp only [List.flatMap_append, List.flatMap_cons, List.flatMap_nil, List.append_nil, lastAfter_append]
  have hm := lastAfter_mem (lastAfter l (List.flatMap enc init)) (enc f) (enc_ne_nil f)
  have := enc_not_sep f _ hm
  unfold NoComma; omega

theorem amb_last (last : Nat) (p c : State) (o : Bool) :
    ¬ NoComma (lastAfter last (appendMappingToBuffer [] last p c o).1) := by
  rw [amb_bytes, lastAfter_append]
  exact flatMap_enc_last _ _ (fieldsOf_ne_nil p c o)

/-! ## the decoder state that corresponds to an encoder state -/

def D (p : State) (line : Nat) : St :=
  { line := line, col := p.genCol, src := p.srcIdx, oline := p.origLine, ocol := p.origCol, name := p.origName }

/-- decoder state `st` after the bytes written so far: closing the segment being read (if any) gives `o` and
leaves the state that corresponds to the encoder's `p` on line `L`; there is a segment being read only if the last
byte written asks for a comma -/
structure Pending (st : St) (p : State) (L : Nat) (o : List Seg) (last : Nat) : Prop where
  flush : endSeg st = some (D p L, o)
  clean : NoComma last → st = D p L ∧ o = []

theorem endSeg_D (p : State) (L : Nat) : endSeg (D p L) = some (D p L, []) := rfl

theorem pending_clean (p : State) (L : Nat) (last : Nat) : Pending (D p L) p L [] last :=
  ⟨rfl, fun _ => ⟨rfl, rfl⟩⟩

theorem run_comma (st : St) (p : State) (L : Nat) (o : List Seg) (last : Nat) (h : Pending st p L o last) :
    run st (commaOf last) = some (D p L, o) := by
  unfold commaOf
  by_cases hc : NoComma last
  · obtain ⟨h1, h2⟩ := h.clean hc
    simp [hc, run, h1, h2]
  · simp [hc, run, step, h.flush]

theorem endSeg_fields (p : State) (L : Nat) (col : Int) (orig : Option Orig) :
    endSeg { D p L with fields := fieldsOf p (curOf p col orig) orig.isNone } =
      some (D (nextOf p (curOf p col orig)) L, [⟨L, col, orig⟩]) := by
  cases orig with
  | none =>
    simp only [fieldsOf, curOf, Option.isNone_none, ↓reduceIte, Bool.false_eq_true, List.append_nil, endSeg, D, nextOf]
    have : p.genCol + (col - p.genCol) = col := by omega
    simp [this]
  | some o =>
    obtain ⟨a, l, c, n⟩ := o
    have e1 : p.genCol + (col - p.genCol) = col := by omega
    have e2 : p.srcIdx + (a - p.srcIdx) = a := by omega
    have e3 : p.origLine + (l - p.origLine) = l := by omega
    have e4 : p.origCol + (c - p.origCol) = c := by omega
    cases n with
    | none =>
      simp [fieldsOf, curOf, endSeg, D, nextOf, e1, e2, e3, e4]
    | some n =>
      have e5 : p.origName + (n - p.origName) = n := by omega
      simp [fieldsOf, curOf, endSeg, D, nextOf, e1, e2, e3, e4, e5]

def nlCount : List Ev → Nat
  | [] => 0
  | .nl :: es => nlCount es + 1
  | .seg _ _ :: es => nlCount es

theorem decode_one (st : St) (p : State) (L : Nat) (o : List Seg) (last : Nat) (h : Pending st p L o last)
    (ev : Ev) :
    ∃ st' out o', run st (encOne p last ev).bytes = some (st', out) ∧
      Pending st' (encOne p last ev).st (L + nlCount [ev]) o' (encOne p last ev).last ∧
      out ++ o' = o ++ segsOf L [ev] := by
  cases ev with
  | nl =>
    refine ⟨D { p with genLine := p.genLine + 1, genCol := 0 } (L + 1), o, [], ?_, pending_clean _ _ _, ?_⟩
    · simp [encOne, run, step, h.flush, D]
    · simp [segsOf]
  | seg col orig =>
    refine ⟨{ D p L with fields := fieldsOf p (curOf p col orig) orig.isNone }, o, [⟨L, col, orig⟩], ?_, ?_, ?_⟩
    · simp only [encOne, amb_bytes, run_append, run_comma st p L o last h]
      rw [run_fields (D p L) rfl]
      simp [D]
    · constructor
      · simpa [nlCount, encOne] using endSeg_fields p L col orig
      · intro hc
        exact absurd hc (by simpa [encOne] using amb_last last p (curOf p col orig) orig.isNone)
    · simp [segsOf]

theorem nlCount_append (a b : List Ev) : nlCount (a ++ b) = nlCount a + nlCount b := by
  induction a with
  | nil => simp [nlCount]
  | cons e es ih => cases e <;> simp [nlCount, ih] <;> omega

theorem segsOf_append (L : Nat) (a b : List Ev) : segsOf L (a ++ b) = segsOf L a ++ segsOf (L + nlCount a) b := by
  induction a generalizing L with
  | nil => simp [segsOf, nlCount]
  | cons e es ih =>
    cases e with
    | nl => simp [segsOf, nlCount, ih]; congr 1; omega
    | seg c o => simp [segsOf, nlCount, ih]

theorem decode_all (evs : List Ev) (st : St) (p : State) (L : Nat) (o : List Seg) (last : Nat)
    (h : Pending st p L o last) :
    ∃ st' out o', run st (encEvs p last evs).bytes = some (st', out) ∧
      Pending st' (encEvs p last evs).st (L + nlCount evs) o' (encEvs p last evs).last ∧
      out ++ o' = o ++ segsOf L evs := by
  induction evs generalizing st p L o last with
  | nil => exact ⟨st, [], o, by simp [encEvs, run], by simpa [encEvs, nlCount] using h, by simp [segsOf]⟩
  | cons e es ih =>
    obtain ⟨s1, out1, o1, hr1, hp1, ho1⟩ := decode_one st p L o last h e
    obtain ⟨s2, out2, o2, hr2, hp2, ho2⟩ := ih s1 _ _ o1 _ hp1
    refine ⟨s2, out1 ++ out2, o2, ?_, ?_, ?_⟩
    · simp only [encEvs, run_append, hr1, hr2]
    · have : L + nlCount (e :: es) = L + nlCount [e] + nlCount es := by
        have := nlCount_append [e] es
        simp only [List.singleton_append] at this
        omega
      rw [this]; exact hp2
    · have hs := segsOf_append L [e] es
      simp only [List.singleton_append] at hs
      rw [hs, List.append_assoc, ho2, ← List.append_assoc, ho1, List.append_assoc]

/-- **Round trip of the sequential encoder**: whatever the last byte before (a leading comma is an empty segment),
the Source Map v3 decoder reads back exactly the segments that were encoded, with their absolute positions. -/
theorem decode_encEvs (evs : List Ev) (last : Nat) :
    Spec.SourceMapV3.decode (encEvs {} last evs).bytes = some (segsOf 0 evs) := by
  obtain ⟨st', out, o', hr, hp, ho⟩ := decode_all evs (D {} 0) {} 0 [] last (pending_clean _ _ _)
  have hD : (D {} 0 : St) = {} := rfl
  unfold Spec.SourceMapV3.decode
  rw [← hD, hr]
  simp only [hp.flush, ho, List.nil_append]

end EsbuildModel.SmJoin
