import EsbuildModel.Impl.SmChunk
/-!
`computeDataForSourceMapsInParallel`: which bytes can end up in `QuotedContents`.
-/
namespace EsbuildModel.SmChunk
open SmJoin

/-- every byte is below 0x80 -/
def AsciiBytes (b : Bytes) : Prop := ∀ c ∈ b, c < 128

instance (b : Bytes) : Decidable (AsciiBytes b) := by unfold AsciiBytes; infer_instance

theorem asciiBytes_of_isASCIIOnly {b : Bytes} (h : isASCIIOnly b = true) : AsciiBytes b := by
  intro c hc
  have := (List.all_eq_true.1 h) c hc
  simp only [Bool.not_eq_true', Bool.or_eq_false_iff, decide_eq_false_iff_not] at this
  omega

theorem asciiBytes_null : AsciiBytes nullBytes := by
  intro c hc
  simp only [nullBytes, List.mem_cons, List.not_mem_nil, or_false] at hc
  omega

/-- one entry under the ASCII charset, given that re-quoting yields ASCII -/
theorem quotedContentAt_ascii (sc : List SourceContent)
    (hre : ∀ v ∈ sc, v.hasValue = true → AsciiBytes v.requoted) (i : Nat) :
    AsciiBytes (quotedContentAt true sc i) := by
  unfold quotedContentAt
  split
  · exact asciiBytes_null
  · next v hv =>
    have hmem : v ∈ sc := List.mem_of_getElem? hv
    split
    · next h =>
      have h2 := h.2
      simp only [Bool.not_true, Bool.false_or] at h2
      exact asciiBytes_of_isASCIIOnly h2
    · split
      · next hval => exact hre v hmem hval
      · exact asciiBytes_null

/-- one entry without the ASCII charset: a quoted entry of the input map is passed through verbatim -/
theorem quotedContentAt_verbatim (sc : List SourceContent) (i : Nat) (v : SourceContent)
    (hv : sc[i]? = some v) (hq : v.quoted ≠ []) : quotedContentAt false sc i = v.quoted := by
  unfold quotedContentAt
  rw [hv]
  simp [hq]

/-- … and with the ASCII charset as well, if it is printable ASCII already -/
theorem quotedContentAt_verbatim_ascii (sc : List SourceContent) (i : Nat) (v : SourceContent)
    (hv : sc[i]? = some v) (hq : v.quoted ≠ []) (ha : isASCIIOnly v.quoted = true) :
    quotedContentAt true sc i = v.quoted := by
  unfold quotedContentAt
  rw [hv]
  simp [hq, ha]

end EsbuildModel.SmChunk
