import EsbuildModel.Lemmas.RealPath
/-
esbuild's `evalSymlinks` loop (`walk`) against POSIX resolution (`Resolves`): sound for every budget, complete when
the number of link expansions is within the budget; hence monotone in the budget.
-/
namespace EsbuildModel.RealPath
open EsbuildModel.PosixFS

/-- what happens at a link with budget `b` -/
def walkLink (t : Tree) : Nat → Path → List Name → Option Path
  | 0, _, _ => none
  | b + 1, d, r => walk t b d r

theorem walk_nil (t : Tree) (b : Nat) (dest : Path) : walk t b dest [] = some dest := by
  cases b <;> simp [walk, walkList]

theorem walk_cons (t : Tree) (b : Nat) (dest : Path) (c : Name) (rest : List Name) :
    walk t b dest (c :: rest) =
      if c = dotN then walk t b dest rest
      else if c = dotdotN then walk t b dest.dropLast rest
      else match t.raw (dest ++ [c]) with
        | none => none
        | some (.link abs tgt) => walkLink t b (if abs then [] else dest) (tgt ++ rest)
        | some .dir => walk t b (dest ++ [c]) rest
        | some .file => if rest = [] then some (dest ++ [c]) else none := by
  cases b with
  | zero =>
    simp only [walk, walkList, walkLink]
    split
    · rfl
    · split
      · rfl
      · cases t.raw (dest ++ [c]) with
        | none => rfl
        | some nd => cases nd <;> rfl
  | succ b =>
    simp only [walk, walkList, walkLink]
    split
    · rfl
    · split
      · rfl
      · cases t.raw (dest ++ [c]) with
        | none => rfl
        | some nd => cases nd <;> rfl

/-- inner induction of soundness, for a fixed budget whose link case is already known to be sound -/
theorem walk_sound_aux {t : Tree} (hwf : t.WF) (b : Nat)
    (hL : ∀ d r' res, t.raw d = some .dir → walkLink t b d r' = some res → ∃ n, n + 1 ≤ b ∧ Resolves t d r' res n) :
    ∀ (rest : List Name) (dest r : Path), (rest ≠ [] → t.raw dest = some .dir) → walk t b dest rest = some r →
      ∃ n, n ≤ b ∧ Resolves t dest rest r n := by
  intro rest
  induction rest with
  | nil =>
    intro dest r _ h
    rw [walk_nil] at h; cases h
    exact ⟨0, Nat.zero_le _, .done _⟩
  | cons c rest ih =>
    intro dest r hd h
    have hdir := hd (by simp)
    rw [walk_cons] at h
    by_cases hc1 : c = dotN
    · rw [if_pos hc1] at h
      obtain ⟨n, hn, hr⟩ := ih dest r (fun _ => hdir) h
      exact ⟨n, hn, hc1 ▸ .dot hdir hr⟩
    · rw [if_neg hc1] at h
      by_cases hc2 : c = dotdotN
      · rw [if_pos hc2] at h
        obtain ⟨n, hn, hr⟩ := ih dest.dropLast r (fun _ => wf_dropLast_dir hwf hdir) h
        exact ⟨n, hn, hc2 ▸ .dotdot hdir hr⟩
      · rw [if_neg hc2] at h
        cases hraw : t.raw (dest ++ [c]) with
        | none => rw [hraw] at h; cases h
        | some nd =>
          rw [hraw] at h
          cases nd with
          | file =>
            simp only at h
            by_cases hre : rest = []
            · rw [if_pos hre] at h; cases h; subst hre
              exact ⟨0, Nat.zero_le _, .step hc1 hc2 hdir hraw rfl (.done _)⟩
            · rw [if_neg hre] at h; cases h
          | dir =>
            simp only at h
            obtain ⟨n, hn, hr⟩ := ih (dest ++ [c]) r (fun _ => hraw) h
            exact ⟨n, hn, .step hc1 hc2 hdir hraw rfl hr⟩
          | link abs tgt =>
            simp only at h
            have hd' : t.raw (if abs then [] else dest) = some .dir := by
              cases abs
              · simpa using hdir
              · rfl
            obtain ⟨n, hn, hr⟩ := hL _ _ _ hd' h
            exact ⟨n + 1, hn, .link hc1 hc2 hdir hraw hr⟩

/-- **soundness of evalSymlinks**: whatever the loop returns is the POSIX resolution, with at most `b` link expansions -/
theorem walk_sound {t : Tree} (hwf : t.WF) : ∀ (b : Nat) (dest : Path) (rest : List Name) (r : Path),
    (rest ≠ [] → t.raw dest = some .dir) → walk t b dest rest = some r → ∃ n, n ≤ b ∧ Resolves t dest rest r n := by
  intro b
  induction b with
  | zero =>
    intro dest rest r hd h
    exact walk_sound_aux hwf 0 (fun d r' res _ h => by simp [walkLink] at h) rest dest r hd h
  | succ b ih =>
    intro dest rest r hd h
    refine walk_sound_aux hwf (b + 1) ?_ rest dest r hd h
    intro d r' res hdd hw
    simp only [walkLink] at hw
    obtain ⟨n, hn, hr⟩ := ih d r' res (fun _ => hdd) hw
    exact ⟨n, by omega, hr⟩

/-- **completeness of evalSymlinks**: a resolution with `n ≤ b` link expansions is found -/
theorem walk_complete {t : Tree} {cur : Path} {rest : List Name} {r : Path} {n : Nat}
    (h : Resolves t cur rest r n) : ∀ b, n ≤ b → walk t b cur rest = some r := by
  induction h with
  | done cur => intro b _; exact walk_nil t b cur
  | dot _ _ ih => intro b hb; rw [walk_cons, if_pos rfl]; exact ih b hb
  | dotdot _ _ ih =>
    intro b hb
    rw [walk_cons, if_neg (by decide), if_pos rfl]; exact ih b hb
  | @step cur c rest r n nd hc1 hc2 hd hr hl hres ih =>
    intro b hb
    rw [walk_cons, if_neg hc1, if_neg hc2, hr]
    cases nd with
    | file =>
      simp only
      cases hres with
      | done _ => simp
      | dot hd' _ => rw [hr] at hd'; cases hd'
      | dotdot hd' _ => rw [hr] at hd'; cases hd'
      | step _ _ hd' _ _ _ => rw [hr] at hd'; cases hd'
      | link _ _ hd' _ _ => rw [hr] at hd'; cases hd'
    | dir => exact ih b hb
    | link _ _ => simp [Node.isLink] at hl
  | @link cur c rest r n abs tgt hc1 hc2 hd hr hres ih =>
    intro b hb
    rw [walk_cons, if_neg hc1, if_neg hc2, hr]
    cases b with
    | zero => omega
    | succ b => simp only [walkLink]; exact ih b (by omega)

/-- a larger link budget never changes an answer -/
theorem walk_mono {t : Tree} (hwf : t.WF) {b b' : Nat} {dest : Path} {rest : List Name} {r : Path}
    (hd : rest ≠ [] → t.raw dest = some .dir) (h : walk t b dest rest = some r) (hb : b ≤ b') :
    walk t b' dest rest = some r := by
  obtain ⟨n, hn, hr⟩ := walk_sound hwf b dest rest r hd h
  exact walk_complete hr b' (by omega)

end EsbuildModel.RealPath
