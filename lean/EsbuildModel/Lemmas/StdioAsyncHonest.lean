import EsbuildModel.Lemmas.StdioAsyncLive
/-!
A trusted host never makes the service panic: the two invariants behind `C20Async.honest_host_never_panics`.

* answers: every response waiting in stdin belongs to an entry of `callbacks`, at most one response per entry;
* build keys: per build key, the handlers and the `activeBuilds` entry go through
  nothing → (entry, ctx = nil, one running build handler) → (entry with ctx) → (entry, ctx = nil, one dispose handler) → nothing,
  so `createActiveBuild` never finds the key and `destroyActiveBuild` always does.
-/
namespace EsbuildModel.StdioAsync
set_option linter.unusedSimpArgs false

/-- a `build` request for key `k` -/
def isBuildReq (k : Nat) : HostPkt → Bool
  | .request _ (.build _ _) key => key == k
  | _ => false

/-- what a trusted host does NOT do: write a response on its own (answers go through `hostAnswer`: one per
request of the service), or send a `build` request with a build key it has used before -/
def HonestAt (s : State) : Action → Prop
  | .hostSend (.response _) => False
  | .hostSend (.request _ (.build _ _) key) => (s.delivered ++ s.stdin).countP (isBuildReq key) = 0
  | _ => True

def HonestRun : State → List Action → Prop
  | _, [] => True
  | s, a :: as => HonestAt s a ∧ ∀ s', step s a = some s' → HonestRun s' as

/-! ## answers -/

def AnswersOk (s : State) : Prop :=
  ∀ id, s.stdin.count (.response id) ≤ s.callbacks.countP (·.id == id)

theorem answersOk_init (p : Bool) : AnswersOk (init p) := by intro id; simp [init]

theorem answersOk_internal {s s' : State} (h : Shape s [] s') (hi : AnswersOk s) : AnswersOk s' := by
  intro id'
  have hi' := hi id'
  cases h with
  | close => exact hi'
  | garbage rest hst =>
    simp only [hst, List.count_cons] at hi'
    simp only; simp at hi'; exact hi'
  | answer id rest c hst hf =>
    have hc := countP_eraseP_find (fun x : Callback => x.id == id) (fun x : Callback => x.id == id') s.callbacks c hf
    have hcid : c.id = id := by simpa using List.find?_some hf
    simp only [hst, List.count_cons] at hi'
    simp only
    by_cases he : id = id'
    · subst he; simp [hcid] at hi' hc ⊢; omega
    · have h1 : (HostPkt.response id == HostPkt.response id') = false := by simpa using he
      have h2 : (c.id == id') = false := by rw [hcid]; simpa using he
      simp [h1, h2] at hi' hc ⊢; omega
  | stale id rest hst hf =>
    simp only [hst, List.count_cons] at hi'
    simp only [panic_stdin, panic_callbacks]
    by_cases he : id = id'
    · subst he
      have : s.callbacks.countP (·.id == id) = 0 := by
        rw [List.countP_eq_zero]; intro c hc; simpa using List.find?_eq_none.1 hf c hc
      simp [this] at hi'
    · have h1 : (HostPkt.response id == HostPkt.response id') = false := by simpa using he
      simp [h1] at hi'; exact hi'
  | spawn id cmd key rest s1 t hst hsame h1 h2 h3 h4 =>
    simp only [hst, List.count_cons] at hi'
    simp only [addTask_stdin, addTask_callbacks, hsame.stdin, hsame.callbacks]
    simpa using hi'
  | refuse id cmd key rest s1 tag hst hsame h1 =>
    simp only [hst, List.count_cons] at hi'
    simp only [syncReply, enqueue_stdin, enqueue_callbacks, hsame.stdin, hsame.callbacks]
    simpa using hi'
  | started t a hf hst hb ha hk hc => exact hi'
  | dupKey t a hf hst hb ha => exact hi'
  | finish t s1 hold hf hout hsame hh =>
    simpa [reply, hsame.stdin, hsame.callbacks] using hi'
  | svcReq owner tag key =>
    simp only [svcSend, List.countP_append]
    omega
  | take isRequest id p hw hp => exact hi'
  | writeDone p hw => exact hi'
  | helpers hs => exact hi'

theorem hostWrote_nil_of {a : Action} (h1 : ∀ p, a ≠ .hostSend p) (h2 : ∀ id, a ≠ .hostAnswer id) : hostWrote a = [] := by
  cases a <;> simp_all [hostWrote]

theorem answersOk_step {s s' : State} {a : Action} (hs : step s a = some s') (hh : HonestAt s a) (hi : AnswersOk s) :
    AnswersOk s' := by
  by_cases h1 : ∃ p, a = .hostSend p
  · obtain ⟨p, rfl⟩ := h1
    have hnp := step_not_panicked hs
    simp only [step, hnp, Bool.false_eq_true, if_false] at hs
    split at hs
    · cases hs
    · cases hs
      intro id
      have := hi id
      cases p with
      | response _ => exact absurd hh (by simp [HonestAt])
      | garbage => simpa [List.count_append] using this
      | request i c k => simpa [List.count_append] using this
  · by_cases h2 : ∃ id, a = .hostAnswer id
    · obtain ⟨id, rfl⟩ := h2
      have hnp := step_not_panicked hs
      simp only [step, hnp, Bool.false_eq_true, if_false] at hs
      split at hs
      · cases hs
      · split at hs
        · rename_i hc
          cases hs
          simp only [Bool.and_eq_true, List.any_eq_true, Bool.not_eq_true'] at hc
          obtain ⟨⟨c, hcm, hcid⟩, hnot⟩ := hc
          intro id'
          have := hi id'
          simp only [List.count_append]
          by_cases he : id = id'
          · subst he
            have h0 : s.stdin.count (.response id) = 0 := by
              rw [List.count_eq_zero]; simpa using hnot
            have h1 : 0 < s.callbacks.countP (·.id == id) := List.countP_pos_iff.2 ⟨c, hcm, hcid⟩
            simp only [h0, List.count_cons, List.count_nil, beq_self_eq_true, if_true]
            omega
          · have h1 : (HostPkt.response id == HostPkt.response id') = false := by simpa using he
            simp [List.count_cons, h1]; exact this
        · cases hs
    · have hw := hostWrote_nil_of (fun p hp => h1 ⟨p, hp⟩) (fun id hp => h2 ⟨id, hp⟩)
      have hsh := step_shape s s' a hs
      rw [hw] at hsh
      exact answersOk_internal hsh hi


/-! ## build keys: the `ctx` flags of the `activeBuilds` entries of one key -/

def ctxs (k : Nat) : List Active → List Bool
  | [] => []
  | a :: as => if a.key = k then a.ctx :: ctxs k as else ctxs k as

theorem ctxs_append (k : Nat) (acts : List Active) (a : Active) :
    ctxs k (acts ++ [a]) = ctxs k acts ++ (if a.key = k then [a.ctx] else []) := by
  induction acts with
  | nil => simp [ctxs]
  | cons x xs ih =>
    simp only [List.cons_append, ctxs, ih]
    split <;> simp

theorem find_none_ctxs (k : Nat) : ∀ acts : List Active, acts.find? (·.key == k) = none ↔ ctxs k acts = []
  | [] => by simp [ctxs]
  | x :: xs => by
    by_cases hx : x.key = k
    · simp [ctxs, hx]
    · have := find_none_ctxs k xs
      simp [ctxs, hx, List.find?_cons, this]

theorem find_some_ctxs (k : Nat) : ∀ (acts : List Active) (a : Active), acts.find? (·.key == k) = some a →
    a.key = k ∧ ∃ rest, ctxs k acts = a.ctx :: rest
  | [], _, h => by simp at h
  | x :: xs, a, h => by
    by_cases hx : x.key = k
    · have hb : (x.key == k) = true := by simpa using hx
      simp only [List.find?_cons, hb, Option.some.injEq] at h
      subst h
      exact ⟨hx, ctxs k xs, by simp [ctxs, hx]⟩
    · have hb : (x.key == k) = false := by simpa using hx
      simp only [List.find?_cons, hb] at h
      obtain ⟨h1, rest, h2⟩ := find_some_ctxs k xs a h
      exact ⟨h1, rest, by simp [ctxs, hx, h2]⟩

theorem findActive_none_iff (s : State) (k : Nat) : findActive s k = none ↔ ctxs k s.actives = [] :=
  find_none_ctxs k s.actives

theorem findActive_some {s : State} {k : Nat} {a : Active} (h : findActive s k = some a) :
    a.key = k ∧ ∃ rest, ctxs k s.actives = a.ctx :: rest := find_some_ctxs k s.actives a h

/-- `setActive` with an entry of the same key: all entries of that key get the new flag, other keys are untouched -/
theorem ctxs_setActive (k : Nat) (a : Active) : ∀ acts : List Active,
    ctxs k (acts.map (fun b => if b.key == a.key then a else b)) =
      if a.key = k then (ctxs k acts).map (fun _ => a.ctx) else ctxs k acts
  | [] => by simp [ctxs]
  | x :: xs => by
    have ih := ctxs_setActive k a xs
    simp only [beq_iff_eq] at ih
    by_cases hxa : x.key = a.key
    · by_cases hak : a.key = k
      · have hxk : x.key = k := hxa.trans hak
        simp only [hak, if_true] at ih
        simp [ctxs, hxa, hak, ih]
      · have hxk : ¬ x.key = k := fun h => hak (hxa ▸ h)
        simp only [hak, if_false] at ih
        simp [ctxs, hxa, hak, ih]
    · by_cases hak : a.key = k
      · simp only [hak, if_true] at ih
        by_cases hxk : x.key = k
        · have hxa2 : ¬ x.key = a.key := hxa
          simp only [List.map_cons, beq_iff_eq, hxa2, if_false, ctxs, hxk, if_true, hak, ih]
        · simp only [List.map_cons, beq_iff_eq, hxa, if_false, ctxs, hxk, hak, if_true, ih]
      · simp only [hak, if_false] at ih
        by_cases hxk : x.key = k
        · simp only [List.map_cons, beq_iff_eq, hxa, if_false, ctxs, ih]
          simp only [hxk, if_true, hak, if_false]
        · simp only [List.map_cons, beq_iff_eq, hxa, if_false, ctxs, ih]
          simp only [hxk, if_false, hak]

/-- `removeActive`: the first entry of the key goes, other keys are untouched -/
theorem ctxs_eraseP (k key : Nat) : ∀ acts : List Active,
    ctxs k (acts.eraseP (·.key == key)) = if key = k then (ctxs k acts).tail else ctxs k acts
  | [] => by simp [ctxs]
  | x :: xs => by
    have ih := ctxs_eraseP k key xs
    by_cases hxe : x.key = key
    · have hb : (x.key == key) = true := by simpa using hxe
      by_cases hkk : key = k
      · have hxk : x.key = k := hxe.trans hkk
        simp [List.eraseP_cons, hb, hkk, ctxs, hxk]
      · have hxk : ¬ x.key = k := fun h => hkk (hxe ▸ h)
        simp [List.eraseP_cons, hb, hkk, ctxs, hxk]
    · have hb : (x.key == key) = false := by simpa using hxe
      by_cases hkk : key = k
      · have hxk : ¬ x.key = k := fun h => hxe (h.trans hkk.symm)
        simp only [hkk, if_true] at ih
        simp only [List.eraseP_cons, hb, cond_false, ctxs, ih]
        simp only [hxk, if_false, hkk, if_true, ih]
      · simp only [hkk, if_false] at ih
        by_cases hxk : x.key = k
        · simp only [List.eraseP_cons, hb, cond_false, ctxs, ih]
          simp only [hxk, if_true, hkk, if_false]
        · simp only [List.eraseP_cons, hb, cond_false, ctxs, ih]
          simp only [hxk, if_false, hkk]


theorem setActive_ctxs {s : State} {key : Nat} {a a' : Active} (hf : findActive s key = some a) (hk : a'.key = a.key)
    (hlen : (ctxs key s.actives).length ≤ 1) (k : Nat) :
    ctxs k (setActive s a').actives = if key = k then [a'.ctx] else ctxs k s.actives := by
  obtain ⟨hak, rest, hr⟩ := findActive_some hf
  have hrest : rest = [] := by
    rw [hr] at hlen
    cases rest with
    | nil => rfl
    | cons _ _ => simp at hlen
  subst hrest
  simp only [setActive]
  rw [ctxs_setActive, hk, hak]
  split
  · rename_i h; subst h; simp [hr]
  · rfl

theorem setActive_ctxs_same {s : State} {key : Nat} {a a' : Active} (hf : findActive s key = some a) (hk : a'.key = a.key)
    (hc : a'.ctx = a.ctx) (hlen : (ctxs key s.actives).length ≤ 1) (k : Nat) :
    ctxs k (setActive s a').actives = ctxs k s.actives := by
  rw [setActive_ctxs hf hk hlen]
  obtain ⟨_, rest, hr⟩ := findActive_some hf
  have hrest : rest = [] := by
    rw [hr] at hlen
    cases rest with
    | nil => rfl
    | cons _ _ => simp at hlen
  subst hrest
  split
  · rename_i h; subst h; rw [hr, hc]
  · rfl

/-- what a delivered request does to the handlers and to the `ctx` flags -/
inductive DeliverEffect (s : State) (id : Nat) (cmd : Cmd) (key : Nat) (s' : State) : Prop where
  | spawn (t : Task) : s'.tasks = s.tasks ++ [t] → t.cmd = cmd → t.key = key → t.started = false → cmd ≠ .dispose →
      (∀ k, ctxs k s'.actives = ctxs k s.actives) → DeliverEffect s id cmd key s'
  | nothing : s'.tasks = s.tasks → (∀ k, ctxs k s'.actives = ctxs k s.actives) → DeliverEffect s id cmd key s'
  | dispose (t : Task) : cmd = .dispose → ctxs key s.actives = [true] → s'.tasks = s.tasks ++ [t] → t.cmd = .dispose →
      t.key = key → (∀ k, ctxs k s'.actives = if key = k then [false] else ctxs k s.actives) →
      DeliverEffect s id cmd key s'

theorem deliverRequest_effect (s : State) (id : Nat) (cmd : Cmd) (key : Nat)
    (hlen : (ctxs key s.actives).length ≤ 1) :
    (deliverRequest s id cmd key).delivered = s.delivered ∧ (deliverRequest s id cmd key).stdin = s.stdin ∧
    (deliverRequest s id cmd key).panicked = s.panicked ∧ DeliverEffect s id cmd key (deliverRequest s id cmd key) := by
  have keep : ∀ (a a' : Active), findActive s key = some a → a'.key = a.key → a'.ctx = a.ctx →
      ∀ k, ctxs k (setActive s a').actives = ctxs k s.actives :=
    fun a a' hf hk hc k => setActive_ctxs_same hf hk hc hlen k
  unfold deliverRequest
  cases cmd with
  | simple => exact ⟨rfl, rfl, rfl, .spawn _ rfl rfl rfl rfl (by simp) (fun _ => rfl)⟩
  | invalid => exact ⟨rfl, rfl, rfl, .nothing rfl (fun _ => rfl)⟩
  | build c p => exact ⟨rfl, rfl, rfl, .spawn _ rfl rfl rfl rfl (by simp) (fun _ => rfl)⟩
  | resolve =>
    simp only
    split
    · split
      · exact ⟨rfl, rfl, rfl, .spawn _ rfl rfl rfl rfl (by simp) (fun _ => rfl)⟩
      · exact ⟨rfl, rfl, rfl, .nothing rfl (fun _ => rfl)⟩
    · exact ⟨rfl, rfl, rfl, .nothing rfl (fun _ => rfl)⟩
  | rebuild =>
    simp only
    split
    · rename_i a hf
      split
      · split
        · exact ⟨rfl, rfl, rfl, .spawn _ rfl rfl rfl rfl (by simp) (keep a _ hf rfl rfl)⟩
        · exact ⟨rfl, rfl, rfl, .spawn _ rfl rfl rfl rfl (by simp) (keep a _ hf rfl rfl)⟩
      · exact ⟨rfl, rfl, rfl, .nothing rfl (fun _ => rfl)⟩
    · exact ⟨rfl, rfl, rfl, .nothing rfl (fun _ => rfl)⟩
  | watch =>
    simp only
    split
    · rename_i a hf
      split
      · exact ⟨rfl, rfl, rfl, .spawn _ rfl rfl rfl rfl (by simp) (keep a _ hf rfl rfl)⟩
      · exact ⟨rfl, rfl, rfl, .nothing rfl (fun _ => rfl)⟩
    · exact ⟨rfl, rfl, rfl, .nothing rfl (fun _ => rfl)⟩
  | serve =>
    simp only
    split
    · rename_i a hf
      split
      · exact ⟨rfl, rfl, rfl, .spawn _ rfl rfl rfl rfl (by simp) (keep a _ hf rfl rfl)⟩
      · exact ⟨rfl, rfl, rfl, .nothing rfl (fun _ => rfl)⟩
    · exact ⟨rfl, rfl, rfl, .nothing rfl (fun _ => rfl)⟩
  | cancel =>
    simp only
    split
    · rename_i a hf
      have hk : ∀ k, ctxs k (setActive s (if a.within > 0 then { a with didGetCancel := true } else a)).actives
          = ctxs k s.actives := by
        intro k
        split
        · exact keep a { a with didGetCancel := true } hf rfl rfl k
        · exact keep a a hf rfl rfl k
      split
      · exact ⟨rfl, rfl, rfl, .spawn _ rfl rfl rfl rfl (by simp) hk⟩
      · exact ⟨rfl, rfl, rfl, .nothing rfl hk⟩
    · exact ⟨rfl, rfl, rfl, .nothing rfl (fun _ => rfl)⟩
  | dispose =>
    simp only
    split
    · rename_i a hf
      split
      · rename_i hc
        obtain ⟨_, rest, hr⟩ := findActive_some hf
        have hrest : rest = [] := by
          rw [hr] at hlen
          cases rest with
          | nil => rfl
          | cons _ _ => simp at hlen
        subst hrest
        refine ⟨rfl, rfl, rfl, .dispose _ rfl (by rw [hr, hc]) rfl rfl rfl ?_⟩
        intro k
        exact setActive_ctxs (a' := { a with ctx := false }) hf rfl hlen k
      · exact ⟨rfl, rfl, rfl, .nothing rfl (fun _ => rfl)⟩
    · exact ⟨rfl, rfl, rfl, .nothing rfl (fun _ => rfl)⟩


/-- a handler that owns the `activeBuilds` entry of its key: a build past `createActiveBuild`, or a dispose -/
def ownsKey (t : Task) : Prop := (isBuildCmd t.cmd = true ∧ t.started = true) ∨ t.cmd = .dispose

/-- what a finishing handler does to the `ctx` flags and to the panic flag -/
inductive FinishEffect (s : State) (t : Task) (s' : State) : Prop where
  | plain : ¬ ownsKey t → (∀ k, ctxs k s'.actives = ctxs k s.actives) → s'.panicked = s.panicked → FinishEffect s t s'
  | created : isBuildCmd t.cmd = true → t.started = true →
      (∀ k, ctxs k s'.actives = if t.key = k then [true] else ctxs k s.actives) → s'.panicked = s.panicked →
      FinishEffect s t s'
  | destroyed : ownsKey t → ctxs t.key s.actives ≠ [] →
      (∀ k, ctxs k s'.actives = if t.key = k then (ctxs k s.actives).tail else ctxs k s.actives) →
      s'.panicked = s.panicked → FinishEffect s t s'
  | missing : ownsKey t → ctxs t.key s.actives = [] → s'.panicked = true → FinishEffect s t s'

theorem destroy_effect (s : State) (key : Nat) :
    (ctxs key s.actives ≠ [] ∧ (destroy s key).panicked = s.panicked ∧
      ∀ k, ctxs k (destroy s key).actives = if key = k then (ctxs k s.actives).tail else ctxs k s.actives) ∨
    (ctxs key s.actives = [] ∧ (destroy s key).panicked = true) := by
  unfold destroy
  split
  · rename_i a hf
    obtain ⟨_, rest, hr⟩ := findActive_some hf
    refine .inl ⟨by rw [hr]; simp, rfl, fun k => ?_⟩
    simp only [removeActive]
    exact ctxs_eraseP k key s.actives
  · rename_i hf
    exact .inr ⟨(findActive_none_iff s key).1 hf, rfl⟩

theorem finishTask_effect (s s' : State) (t : Task) (ok : Bool) (h : finishTask s t ok = some s')
    (hlen : (ctxs t.key s.actives).length ≤ 1) :
    s'.delivered = s.delivered ∧ s'.stdin = s.stdin ∧ s'.tasks = s.tasks.eraseP (·.id == t.id) ∧
    FinishEffect s t s' := by
  have keep : ∀ (a a' : Active), findActive s t.key = some a → a'.key = a.key → a'.ctx = a.ctx →
      ∀ k, ctxs k (setActive s a').actives = ctxs k s.actives :=
    fun a a' hf hk hc k => setActive_ctxs_same hf hk hc hlen k
  unfold finishTask at h
  split at h
  · cases h
  · cases hc : t.cmd <;> simp only [hc] at h
    case simple =>
      cases h
      exact ⟨rfl, rfl, rfl, .plain (by simp [ownsKey, hc, isBuildCmd]) (fun _ => rfl) rfl⟩
    case invalid =>
      cases h
      exact ⟨rfl, rfl, rfl, .plain (by simp [ownsKey, hc, isBuildCmd]) (fun _ => rfl) rfl⟩
    case resolve =>
      cases h
      exact ⟨rfl, rfl, rfl, .plain (by simp [ownsKey, hc, isBuildCmd]) (fun _ => rfl) rfl⟩
    case watch =>
      cases h
      exact ⟨rfl, rfl, rfl, .plain (by simp [ownsKey, hc, isBuildCmd]) (fun _ => rfl) rfl⟩
    case serve =>
      cases h
      exact ⟨rfl, rfl, rfl, .plain (by simp [ownsKey, hc, isBuildCmd]) (fun _ => rfl) rfl⟩
    case cancel =>
      split at h
      · cases h
      · cases h
        exact ⟨rfl, rfl, rfl, .plain (by simp [ownsKey, hc, isBuildCmd]) (fun _ => rfl) rfl⟩
    case rebuild =>
      simp only [Option.some.injEq] at h
      subst h
      split
      · rename_i a hf
        split
        · exact ⟨rfl, rfl, rfl, .plain (by simp [ownsKey, hc, isBuildCmd])
            (keep a { a with within := 0, didGetCancel := false, group := none } hf rfl rfl) rfl⟩
        · exact ⟨rfl, rfl, rfl, .plain (by simp [ownsKey, hc, isBuildCmd])
            (keep a { a with within := a.within - 1 } hf rfl rfl) rfl⟩
      · exact ⟨rfl, rfl, rfl, .plain (by simp [ownsKey, hc, isBuildCmd]) (fun _ => rfl) rfl⟩
    case build c p =>
      split at h
      · rename_i hst
        cases h
        have hst' : t.started = false := by simpa using hst
        exact ⟨rfl, rfl, rfl, .plain (by simp [ownsKey, hc, hst']) (fun _ => rfl) rfl⟩
      · rename_i hst
        have hst' : t.started = true := by simpa using hst
        split at h
        · split at h
          · rename_i a hf
            cases h
            refine ⟨rfl, rfl, rfl, .created (by simp [hc, isBuildCmd]) hst' ?_ rfl⟩
            intro k
            exact setActive_ctxs (a' := { a with ctx := true }) hf rfl hlen k
          · cases h
        · cases h
          have hown : ownsKey t := .inl ⟨by simp [hc, isBuildCmd], hst'⟩
          rcases destroy_effect s t.key with ⟨h1, h2, h3⟩ | ⟨h1, h2⟩
          · exact ⟨by simp [reply], by simp [reply], by simp [reply], .destroyed hown h1 h3 h2⟩
          · exact ⟨by simp [reply], by simp [reply], by simp [reply], .missing hown h1 h2⟩
    case dispose =>
      split at h
      · cases h
      · cases h
        have hown : ownsKey t := .inr hc
        rcases destroy_effect s t.key with ⟨h1, h2, h3⟩ | ⟨h1, h2⟩
        · exact ⟨by simp [reply], by simp [reply], by simp [reply], .destroyed hown h1 h3 h2⟩
        · exact ⟨by simp [reply], by simp [reply], by simp [reply], .missing hown h1 h2⟩


/-! ## the per-key invariant -/

def iUn (k : Nat) (t : Task) : Bool := isBuildCmd t.cmd && t.key == k && !t.started
def iSt (k : Nat) (t : Task) : Bool := isBuildCmd t.cmd && t.key == k && t.started
def iDi (k : Nat) (t : Task) : Bool := t.cmd == .dispose && t.key == k

def nReq (k : Nat) (l : List HostPkt) : Nat := l.countP (isBuildReq k)

/-- the invariant of build key `k`, on the four components of the state it talks about -/
structure KeyOkC (k : Nat) (tasks : List Task) (acts : List Active) (delivered stdin : List HostPkt) : Prop where
  total : nReq k delivered + nReq k stdin ≤ 1
  le : tasks.countP (iUn k) + tasks.countP (iSt k) ≤ nReq k delivered
  shape :
    (ctxs k acts = [] ∧ tasks.countP (iSt k) = 0 ∧ tasks.countP (iDi k) = 0) ∨
    (ctxs k acts = [false] ∧ tasks.countP (iSt k) = 1 ∧ tasks.countP (iDi k) = 0) ∨
    (ctxs k acts = [true] ∧ tasks.countP (iUn k) + tasks.countP (iSt k) = 0 ∧ tasks.countP (iDi k) = 0 ∧
      nReq k delivered = 1) ∨
    (ctxs k acts = [false] ∧ tasks.countP (iUn k) + tasks.countP (iSt k) = 0 ∧ tasks.countP (iDi k) = 1 ∧
      nReq k delivered = 1)

def KeyOk (k : Nat) (s : State) : Prop := KeyOkC k s.tasks s.actives s.delivered s.stdin

theorem keyOk_init (p : Bool) (k : Nat) : KeyOk k (init p) :=
  ⟨by simp [init, nReq], by simp [init, nReq], .inl ⟨rfl, rfl, rfl⟩⟩

theorem KeyOkC.len {k : Nat} {ts : List Task} {acts : List Active} {d i : List HostPkt} (h : KeyOkC k ts acts d i) :
    (ctxs k acts).length ≤ 1 := by
  rcases h.shape with h | h | h | h <;> simp [h.1]

/-- the invariant only looks at the `ctx` flags of the key -/
theorem KeyOkC.congr {k : Nat} {ts : List Task} {acts acts' : List Active} {d i : List HostPkt}
    (h : KeyOkC k ts acts d i) (hc : ctxs k acts' = ctxs k acts) : KeyOkC k ts acts' d i :=
  ⟨h.total, h.le, by rw [hc]; exact h.shape⟩

theorem nReq_append (k : Nat) (l m : List HostPkt) : nReq k (l ++ m) = nReq k l + nReq k m := by
  simp [nReq, List.countP_append]

theorem nReq_cons (k : Nat) (p : HostPkt) (l : List HostPkt) :
    nReq k (p :: l) = nReq k l + (if isBuildReq k p then 1 else 0) := by
  simp [nReq, List.countP_cons]

theorem countP_setStarted_find (q : Task → Bool) {tid : Nat} : ∀ (l : List Task) (t : Task),
    l.find? (·.id == tid) = some t →
    (setStarted tid l).countP q + (if q t then 1 else 0) = l.countP q + (if q { t with started := true } then 1 else 0)
  | [], _, h => by simp at h
  | x :: xs, t, h => by
    unfold setStarted
    by_cases hx : (x.id == tid) = true
    · simp only [List.find?_cons, hx, Option.some.injEq] at h
      subst h
      simp only [hx, if_true, List.countP_cons]
      omega
    · have hx' : (x.id == tid) = false := by simpa using hx
      simp only [List.find?_cons, hx'] at h
      have ih := countP_setStarted_find q xs t h
      simp only [hx', Bool.false_eq_true, if_false, List.countP_cons]
      omega


theorem isBuildReq_request (k id : Nat) (cmd : Cmd) (key : Nat) :
    isBuildReq k (.request id cmd key) = (isBuildCmd cmd && key == k) := by
  cases cmd <;> simp [isBuildReq, isBuildCmd]

/-- the reader takes a packet that is not a build request for `k` and that changes no handler and no flag -/
theorem keyOk_pass {k : Nat} {ts : List Task} {acts : List Active} {d rest : List HostPkt} {p : HostPkt}
    (h : KeyOkC k ts acts d (p :: rest)) : KeyOkC k ts acts (d ++ [p]) rest := by
  obtain ⟨ht, hl, hs⟩ := h
  rw [nReq_cons] at ht
  have hd : nReq k (d ++ [p]) = nReq k d + (if isBuildReq k p then 1 else 0) := by
    rw [nReq_append, nReq_cons]; simp [nReq]
  refine ⟨by rw [hd]; omega, by rw [hd]; omega, ?_⟩
  rcases hs with h | h | h | h
  · exact .inl h
  · exact .inr (.inl h)
  · exact .inr (.inr (.inl ⟨h.1, h.2.1, h.2.2.1, by rw [hd]; omega⟩))
  · exact .inr (.inr (.inr ⟨h.1, h.2.1, h.2.2.1, by rw [hd]; omega⟩))

/-- … and spawns a handler that is not a dispose -/
theorem keyOk_spawn {k : Nat} {ts : List Task} {acts : List Active} {d rest : List HostPkt} {id : Nat} {cmd : Cmd}
    {key : Nat} {t : Task} (h : KeyOkC k ts acts d (.request id cmd key :: rest)) (h1 : t.cmd = cmd) (h2 : t.key = key)
    (h3 : t.started = false) (h4 : cmd ≠ .dispose) : KeyOkC k (ts ++ [t]) acts (d ++ [.request id cmd key]) rest := by
  obtain ⟨ht, hl, hs⟩ := h
  rw [nReq_cons, isBuildReq_request] at ht
  have hd : nReq k (d ++ [.request id cmd key]) = nReq k d + (if (isBuildCmd cmd && key == k) then 1 else 0) := by
    rw [nReq_append, nReq_cons, isBuildReq_request]; simp [nReq]
  have hun : (ts ++ [t]).countP (iUn k) = ts.countP (iUn k) + (if (isBuildCmd cmd && key == k) then 1 else 0) := by
    simp [List.countP_append, List.countP_cons, iUn, h1, h2, h3]
  have hst : (ts ++ [t]).countP (iSt k) = ts.countP (iSt k) := by
    simp [List.countP_append, List.countP_cons, iSt, h3]
  have hdi : (ts ++ [t]).countP (iDi k) = ts.countP (iDi k) := by
    simp [List.countP_append, List.countP_cons, iDi, h1, h4]
  refine ⟨by rw [hd]; omega, by rw [hd, hun, hst]; omega, ?_⟩
  rw [hun, hst, hdi, hd]
  rcases hs with h | h | h | h
  · exact .inl h
  · exact .inr (.inl h)
  · exact .inr (.inr (.inl ⟨h.1, by omega, h.2.2.1, by omega⟩))
  · exact .inr (.inr (.inr ⟨h.1, by omega, h.2.2.1, by omega⟩))

/-- … a dispose request that finds the context: its key goes from "context" to "being disposed" -/
theorem keyOk_dispose {k key : Nat} {ts : List Task} {acts acts' : List Active} {d rest : List HostPkt} {id : Nat}
    {t : Task} (h : KeyOkC k ts acts d (.request id .dispose key :: rest)) (h1 : t.cmd = .dispose) (h2 : t.key = key)
    (hc : ctxs key acts = [true]) (hc' : ctxs k acts' = if key = k then [false] else ctxs k acts) :
    KeyOkC k (ts ++ [t]) acts' (d ++ [.request id .dispose key]) rest := by
  have h0 := keyOk_pass h
  obtain ⟨ht, hl, hs⟩ := h0
  have hun : (ts ++ [t]).countP (iUn k) = ts.countP (iUn k) := by
    simp [List.countP_append, List.countP_cons, iUn, h1, isBuildCmd]
  have hst : (ts ++ [t]).countP (iSt k) = ts.countP (iSt k) := by
    simp [List.countP_append, List.countP_cons, iSt, h1, isBuildCmd]
  have hdi : (ts ++ [t]).countP (iDi k) = ts.countP (iDi k) + (if key = k then 1 else 0) := by
    simp [List.countP_append, List.countP_cons, iDi, h1, h2]
  refine ⟨ht, by rw [hun, hst]; exact hl, ?_⟩
  rw [hun, hst, hdi, hc']
  by_cases hk : key = k
  · subst hk
    simp only [if_true]
    rcases hs with h | h | h | h
    · rw [hc] at h; simp at h
    · rw [hc] at h; simp at h
    · exact .inr (.inr (.inr ⟨trivial, h.2.1, by omega, h.2.2.2⟩))
    · rw [hc] at h; simp at h
  · simp only [hk, if_false, Nat.add_zero]
    exact hs


/-- counts before and after `createActiveBuild` of the build handler `t` -/
theorem counts_start {tid : Nat} {ts : List Task} {t : Task} (hf : ts.find? (·.id == tid) = some t)
    (hst : t.started = false) (hb : isBuildCmd t.cmd = true) (k : Nat) :
    (setStarted tid ts).countP (iUn k) + (if t.key = k then 1 else 0) = ts.countP (iUn k) ∧
    (setStarted tid ts).countP (iSt k) = ts.countP (iSt k) + (if t.key = k then 1 else 0) ∧
    (setStarted tid ts).countP (iDi k) = ts.countP (iDi k) := by
  have h1 := countP_setStarted_find (iUn k) ts t hf
  have h2 := countP_setStarted_find (iSt k) ts t hf
  have h3 := countP_setStarted_find (iDi k) ts t hf
  simp only [iUn, iSt, iDi, hst, hb, Bool.true_and, Bool.not_false, Bool.and_true, Bool.not_true, Bool.and_false,
    Bool.false_eq_true, if_false, beq_iff_eq] at h1 h2
  have e : iDi k { t with started := true } = iDi k t := rfl
  rw [e] at h3
  exact ⟨by omega, by omega, by omega⟩

theorem keyOk_start {k tid : Nat} {ts : List Task} {acts : List Active} {d i : List HostPkt} {t : Task} {a : Active}
    (h : KeyOkC k ts acts d i) (hf : ts.find? (·.id == tid) = some t) (hst : t.started = false)
    (hb : isBuildCmd t.cmd = true) (hnone : ctxs t.key acts = []) (hak : a.key = t.key) (hac : a.ctx = false) :
    KeyOkC k (setStarted tid ts) (acts ++ [a]) d i := by
  obtain ⟨ht, hl, hs⟩ := h
  obtain ⟨c1, c2, c3⟩ := counts_start hf hst hb k
  have hctx : ctxs k (acts ++ [a]) = ctxs k acts ++ (if t.key = k then [false] else []) := by
    rw [ctxs_append, hak, hac]
  by_cases hk : t.key = k
  · subst hk
    simp only [if_true] at c1 c2 hctx
    rw [hnone] at hctx hs
    refine ⟨ht, by omega, ?_⟩
    rw [hctx]
    rcases hs with h | h | h | h
    · exact .inr (.inl ⟨by simp, by omega, by omega⟩)
    · simp at h
    · simp at h
    · simp at h
  · simp only [hk, if_false, Nat.add_zero, List.append_nil] at c1 c2 hctx
    refine ⟨ht, by omega, ?_⟩
    rw [hctx, c1, c2, c3]
    exact hs

/-- `createActiveBuild` never finds the key taken -/
theorem start_key_free {tid : Nat} {ts : List Task} {acts : List Active} {d i : List HostPkt} {t : Task}
    (h : KeyOkC t.key ts acts d i) (hf : ts.find? (·.id == tid) = some t) (hst : t.started = false)
    (hb : isBuildCmd t.cmd = true) : ctxs t.key acts = [] := by
  obtain ⟨ht, hl, hs⟩ := h
  have hpos : 0 < ts.countP (iUn t.key) :=
    List.countP_pos_iff.2 ⟨t, List.mem_of_find?_eq_some hf, by simp [iUn, hst, hb]⟩
  rcases hs with h | h | h | h
  · exact h.1
  · omega
  · omega
  · omega


theorem isBuildCmd_ne_dispose {c : Cmd} (h : isBuildCmd c = true) : (c == Cmd.dispose) = false := by
  cases c <;> simp_all [isBuildCmd]

/-- counts before and after a handler leaves the table -/
theorem counts_finish {ts : List Task} {t : Task} (hf : ts.find? (·.id == t.id) = some t) (k : Nat) :
    (ts.eraseP (·.id == t.id)).countP (iUn k) + (if iUn k t then 1 else 0) = ts.countP (iUn k) ∧
    (ts.eraseP (·.id == t.id)).countP (iSt k) + (if iSt k t then 1 else 0) = ts.countP (iSt k) ∧
    (ts.eraseP (·.id == t.id)).countP (iDi k) + (if iDi k t then 1 else 0) = ts.countP (iDi k) :=
  ⟨countP_eraseP_find _ _ ts t hf, countP_eraseP_find _ _ ts t hf, countP_eraseP_find _ _ ts t hf⟩

/-- the indicators of a handler that owns its key -/
theorem owns_ind {t : Task} (ho : ownsKey t) (k : Nat) :
    iUn k t = false ∧ ((iSt k t = (t.key == k) ∧ iDi k t = false) ∨ (iSt k t = false ∧ iDi k t = (t.key == k))) := by
  rcases ho with ⟨hb, hst⟩ | hd
  · refine ⟨by simp [iUn, hst], .inl ⟨by simp [iSt, hb, hst], by simp [iDi, isBuildCmd_ne_dispose hb]⟩⟩
  · refine ⟨by simp [iUn, hd, isBuildCmd], .inr ⟨by simp [iSt, hd, isBuildCmd], by simp [iDi, hd]⟩⟩

theorem not_owns_ind {t : Task} (ho : ¬ ownsKey t) (k : Nat) : iSt k t = false ∧ iDi k t = false := by
  refine ⟨?_, ?_⟩
  · cases h : iSt k t
    · rfl
    · exfalso; apply ho
      simp only [iSt, Bool.and_eq_true] at h
      exact .inl ⟨h.1.1, h.2⟩
  · cases h : iDi k t
    · rfl
    · exfalso; apply ho
      simp only [iDi, Bool.and_eq_true] at h
      exact .inr (by simpa using h.1)

theorem keyOk_finish_plain {k : Nat} {ts : List Task} {acts acts' : List Active} {d i : List HostPkt} {t : Task}
    (h : KeyOkC k ts acts d i) (hf : ts.find? (·.id == t.id) = some t) (ho : ¬ ownsKey t)
    (hc : ctxs k acts' = ctxs k acts) : KeyOkC k (ts.eraseP (·.id == t.id)) acts' d i := by
  obtain ⟨ht, hl, hs⟩ := h
  obtain ⟨c1, c2, c3⟩ := counts_finish hf k
  obtain ⟨e2, e3⟩ := not_owns_ind ho k
  simp only [e2, e3, Bool.false_eq_true, if_false, Nat.add_zero] at c2 c3
  have hle : (ts.eraseP (·.id == t.id)).countP (iUn k) ≤ ts.countP (iUn k) := by omega
  refine ⟨ht, by rw [c2]; omega, ?_⟩
  rw [hc, c2, c3]
  rcases hs with h | h | h | h
  · exact .inl h
  · exact .inr (.inl h)
  · exact .inr (.inr (.inl ⟨h.1, by omega, h.2.2.1, h.2.2.2⟩))
  · exact .inr (.inr (.inr ⟨h.1, by omega, h.2.2.1, h.2.2.2⟩))

/-- an owner's key is never without its `activeBuilds` entry -/
theorem owner_has_entry {ts : List Task} {acts : List Active} {d i : List HostPkt} {t : Task}
    (h : KeyOkC t.key ts acts d i) (hm : t ∈ ts) (ho : ownsKey t) : ctxs t.key acts ≠ [] := by
  intro hnil
  obtain ⟨_, _, hs⟩ := h
  obtain ⟨_, hind⟩ := owns_ind ho t.key
  rcases hs with h | h | h | h
  · rcases hind with ⟨h1, _⟩ | ⟨_, h2⟩
    · have : 0 < ts.countP (iSt t.key) := List.countP_pos_iff.2 ⟨t, hm, by simp [h1]⟩
      omega
    · have : 0 < ts.countP (iDi t.key) := List.countP_pos_iff.2 ⟨t, hm, by simp [h2]⟩
      omega
  · rw [hnil] at h; simp at h
  · rw [hnil] at h; simp at h
  · rw [hnil] at h; simp at h


theorem keyOk_finish_created {k : Nat} {ts : List Task} {acts acts' : List Active} {d i : List HostPkt} {t : Task}
    (h : KeyOkC k ts acts d i) (hf : ts.find? (·.id == t.id) = some t) (hb : isBuildCmd t.cmd = true)
    (hst : t.started = true) (hc : ctxs k acts' = if t.key = k then [true] else ctxs k acts) :
    KeyOkC k (ts.eraseP (·.id == t.id)) acts' d i := by
  obtain ⟨ht, hl, hs⟩ := h
  obtain ⟨c1, c2, c3⟩ := counts_finish hf k
  have e1 : iUn k t = false := by simp [iUn, hst]
  have e3 : iDi k t = false := by simp [iDi, isBuildCmd_ne_dispose hb]
  have e2 : iSt k t = (t.key == k) := by simp [iSt, hb, hst]
  simp only [e1, e3, e2, Bool.false_eq_true, if_false, Nat.add_zero, beq_iff_eq] at c1 c2 c3
  by_cases hk : t.key = k
  · simp only [hk, if_true] at c2 hc
    refine ⟨ht, by omega, ?_⟩
    rw [hc, c1, c3]
    rcases hs with h | h | h | h
    · omega
    · exact .inr (.inr (.inl ⟨rfl, by omega, h.2.2, by omega⟩))
    · omega
    · omega
  · simp only [hk, if_false, Nat.add_zero] at c2 hc
    refine ⟨ht, by omega, ?_⟩
    rw [hc, c1, c2, c3]
    exact hs

theorem keyOk_finish_destroyed {k : Nat} {ts : List Task} {acts acts' : List Active} {d i : List HostPkt} {t : Task}
    (h : KeyOkC k ts acts d i) (hf : ts.find? (·.id == t.id) = some t) (ho : ownsKey t)
    (hc : ctxs k acts' = if t.key = k then (ctxs k acts).tail else ctxs k acts) :
    KeyOkC k (ts.eraseP (·.id == t.id)) acts' d i := by
  obtain ⟨ht, hl, hs⟩ := h
  obtain ⟨c1, c2, c3⟩ := counts_finish hf k
  obtain ⟨e1, hind⟩ := owns_ind ho k
  simp only [e1, Bool.false_eq_true, if_false, Nat.add_zero] at c1
  by_cases hk : t.key = k
  · have hkb : (t.key == k) = true := by simpa using hk
    simp only [hk, if_true] at hc
    rcases hind with ⟨e2, e3⟩ | ⟨e2, e3⟩
    · -- a build past createActiveBuild ends without leaving a context
      simp only [e2, e3, hkb, if_true, Bool.false_eq_true, if_false, Nat.add_zero] at c2 c3
      refine ⟨ht, by omega, ?_⟩
      rw [hc, c1, c3]
      rcases hs with h | h | h | h
      · omega
      · exact .inl ⟨by rw [h.1]; rfl, by omega, h.2.2⟩
      · omega
      · omega
    · -- a dispose handler ends
      simp only [e2, e3, hkb, if_true, Bool.false_eq_true, if_false, Nat.add_zero] at c2 c3
      refine ⟨ht, by omega, ?_⟩
      rw [hc, c1, c2]
      rcases hs with h | h | h | h
      · omega
      · omega
      · omega
      · exact .inl ⟨by rw [h.1]; rfl, by omega, by omega⟩
  · have hkb : (t.key == k) = false := by simpa using hk
    simp only [hk, if_false] at hc
    have e2 : iSt k t = false := by rcases hind with ⟨e, _⟩ | ⟨e, _⟩ <;> simp [e, hkb]
    have e3 : iDi k t = false := by rcases hind with ⟨_, e⟩ | ⟨_, e⟩ <;> simp [e, hkb]
    simp only [e2, e3, Bool.false_eq_true, if_false, Nat.add_zero] at c2 c3
    refine ⟨ht, by omega, ?_⟩
    rw [hc, c1, c2, c3]
    exact hs


/-! ## the step -/

/-- one honest step keeps the key invariant and does not panic -/
theorem keys_step {s s' : State} {a : Action} (hs : step s a = some s') (hh : HonestAt s a) (ha : AnswersOk s)
    (hi : ∀ k, KeyOk k s) : (∀ k, KeyOk k s') ∧ s'.panicked = false := by
  have hnp := step_not_panicked hs
  cases a with
  | hostSend p =>
    simp only [step, hnp, Bool.false_eq_true, if_false] at hs
    split at hs
    · cases hs
    · cases hs
      refine ⟨fun k => ?_, rfl⟩
      obtain ⟨ht, hl, hsh⟩ := hi k
      refine ⟨?_, hl, hsh⟩
      show nReq k s.delivered + nReq k (s.stdin ++ [p]) ≤ 1
      rw [nReq_append, nReq_cons]
      simp only [nReq, List.countP_nil, Nat.zero_add]
      cases p with
      | response _ => exact absurd hh (by simp [HonestAt])
      | garbage => simp [isBuildReq]; exact ht
      | request i c key =>
        cases c with
        | build cx pl =>
          simp only [HonestAt, List.countP_append] at hh
          by_cases hk : key = k
          · subst hk
            have : nReq key s.delivered + nReq key s.stdin = 0 := hh
            simp [isBuildReq]; omega
          · have : (key == k) = false := by simpa using hk
            simp [isBuildReq, this]; exact ht
        | _ => simp [isBuildReq]; exact ht
  | hostAnswer id =>
    simp only [step, hnp, Bool.false_eq_true, if_false] at hs
    split at hs
    · cases hs
    · split at hs
      · cases hs
        refine ⟨fun k => ?_, rfl⟩
        obtain ⟨ht, hl, hsh⟩ := hi k
        refine ⟨?_, hl, hsh⟩
        show nReq k s.delivered + nReq k (s.stdin ++ [.response id]) ≤ 1
        rw [nReq_append, nReq_cons]
        simp [nReq, isBuildReq]; exact ht
      · cases hs
  | close =>
    simp only [step, hnp, Bool.false_eq_true, if_false] at hs
    split at hs
    · cases hs
    · cases hs; exact ⟨hi, rfl⟩
  | svcReq o tg ky =>
    simp only [step, hnp, Bool.false_eq_true, if_false] at hs
    repeat' split at hs
    all_goals first
      | (cases hs; done)
      | (simp only [Option.some.injEq] at hs; subst hs; exact ⟨hi, rfl⟩)
  | take r id =>
    simp only [step, hnp, Bool.false_eq_true, if_false] at hs
    repeat' split at hs
    all_goals first
      | (cases hs; done)
      | (cases hs; exact ⟨hi, rfl⟩)
  | writeDone =>
    simp only [step, hnp, Bool.false_eq_true, if_false] at hs
    split at hs
    · cases hs; exact ⟨hi, rfl⟩
    · cases hs
  | startCancel tid =>
    simp only [step, hnp, Bool.false_eq_true, if_false] at hs
    repeat' split at hs
    all_goals first
      | (cases hs; done)
      | (cases hs; exact ⟨hi, rfl⟩)
  | helperDone g =>
    simp only [step, hnp, Bool.false_eq_true, if_false] at hs
    split at hs
    · cases hs; exact ⟨hi, rfl⟩
    · cases hs
  | start tid =>
    simp only [step, hnp, Bool.false_eq_true, if_false] at hs
    split at hs
    · rename_i t ht
      split at hs
      · rename_i c pl hc
        split at hs
        · cases hs
        · rename_i hst
          have hst' : t.started = false := by simpa using hst
          have hb : isBuildCmd t.cmd = true := by simp [hc, isBuildCmd]
          have hfree := start_key_free (hi t.key) ht hst' hb
          split at hs
          · rename_i a hfa
            obtain ⟨_, rest, hr⟩ := findActive_some hfa
            rw [hr] at hfree; cases hfree
          · cases hs
            exact ⟨fun k => keyOk_start (hi k) ht hst' hb hfree rfl rfl, rfl⟩
      · cases hs
    · cases hs
  | finish tid ok =>
    simp only [step, hnp, Bool.false_eq_true, if_false] at hs
    split at hs
    · rename_i t ht
      have hid := findTask_id ht
      have hf : s.tasks.find? (·.id == t.id) = some t := by rw [hid]; exact ht
      obtain ⟨hd, hsi, hts, eff⟩ := finishTask_effect s s' t ok hs (hi t.key).len
      have key : ∀ k (acts' : List Active), KeyOkC k (s.tasks.eraseP (·.id == t.id)) acts' s.delivered s.stdin →
          s'.actives = acts' → KeyOk k s' := by
        intro k acts' h he
        unfold KeyOk; rw [hd, hsi, hts, he]; exact h
      cases eff with
      | plain ho hc hp =>
        exact ⟨fun k => key k _ (keyOk_finish_plain (hi k) hf ho (hc k)) rfl, by rw [hp]; exact hnp⟩
      | created hb hst hc hp =>
        exact ⟨fun k => key k _ (keyOk_finish_created (hi k) hf hb hst (hc k)) rfl, by rw [hp]; exact hnp⟩
      | destroyed ho hne hc hp =>
        exact ⟨fun k => key k _ (keyOk_finish_destroyed (hi k) hf ho (hc k)) rfl, by rw [hp]; exact hnp⟩
      | missing ho hnil hp =>
        exact absurd hnil (owner_has_entry (hi t.key) (List.mem_of_find?_eq_some ht) ho)
    · cases hs
  | deliver =>
    simp only [step, hnp, Bool.false_eq_true, if_false] at hs
    split at hs
    · cases hs
    · split at hs
      · cases hs
      · rename_i p rest hst
        have hi' : ∀ k, KeyOkC k s.tasks s.actives s.delivered (p :: rest) := by
          intro k; have := hi k; unfold KeyOk at this; rw [hst] at this; exact this
        cases p with
        | garbage =>
          simp only [Option.some.injEq] at hs; subst hs
          exact ⟨fun k => keyOk_pass (hi' k), rfl⟩
        | response id =>
          simp only at hs
          split at hs
          · simp only [Option.some.injEq] at hs; subst hs
            exact ⟨fun k => keyOk_pass (hi' k), rfl⟩
          · rename_i hnone
            exfalso
            have h1 := ha id
            rw [hst] at h1
            have h2 : s.callbacks.countP (·.id == id) = 0 := by
              rw [List.countP_eq_zero]; intro c hc; simpa using List.find?_eq_none.1 hnone c hc
            simp [List.count_cons, h2] at h1
        | request id cmd key =>
          simp only [Option.some.injEq] at hs; subst hs
          obtain ⟨hd, hsi, hp, eff⟩ := deliverRequest_effect
            { s with stdin := rest, delivered := s.delivered ++ [.request id cmd key], panicked := false } id cmd key
            (hi' key).len
          refine ⟨fun k => ?_, by rw [hp]⟩
          unfold KeyOk
          rw [hd, hsi]
          cases eff with
          | spawn t h1 h2 h3 h4 h5 h6 =>
            rw [h1]
            exact (keyOk_spawn (hi' k) h2 h3 h4 h5).congr (h6 k)
          | nothing h1 h2 =>
            rw [h1]
            exact (keyOk_pass (hi' k)).congr (h2 k)
          | dispose t h1 h2 h3 h4 h5 h6 =>
            subst h1
            rw [h3]
            exact keyOk_dispose (hi' k) h4 h5 h2 (h6 k)


theorem honest_run_inv : ∀ (as : List Action) (s s' : State), AnswersOk s → (∀ k, KeyOk k s) → s.panicked = false →
    HonestRun s as → run s as = some s' → s'.panicked = false ∧ AnswersOk s' ∧ ∀ k, KeyOk k s'
  | [], s, s', ha, hk, hp, _, hr => by
    simp only [run, Option.some.injEq] at hr; subst hr; exact ⟨hp, ha, hk⟩
  | a :: as, s, s', ha, hk, _, hh, hr => by
    simp only [run] at hr
    cases hst : step s a with
    | none => simp [hst] at hr
    | some s1 =>
      rw [hst] at hr
      obtain ⟨hk1, hp1⟩ := keys_step hst hh.1 ha hk
      exact honest_run_inv as s1 s' (answersOk_step hst hh.1 ha) hk1 hp1 (hh.2 s1 hst) hr


/-! ## a checker for `HonestRun` (for examples) -/

def honestAtB (s : State) : Action → Bool
  | .hostSend (.response _) => false
  | .hostSend (.request _ (.build _ _) key) => (s.delivered ++ s.stdin).countP (isBuildReq key) == 0
  | _ => true

theorem honestAtB_sound {s : State} {a : Action} (h : honestAtB s a = true) : HonestAt s a := by
  unfold honestAtB at h
  unfold HonestAt
  split <;> simp_all

def honestRunB : State → List Action → Bool
  | _, [] => true
  | s, a :: as => honestAtB s a && (match step s a with | some s' => honestRunB s' as | none => true)

theorem honestRunB_sound : ∀ (as : List Action) (s : State), honestRunB s as = true → HonestRun s as
  | [], _, _ => trivial
  | a :: as, s, h => by
    simp only [honestRunB, Bool.and_eq_true] at h
    refine ⟨honestAtB_sound h.1, fun s' hs => ?_⟩
    rw [hs] at h
    exact honestRunB_sound as s' h.2

end EsbuildModel.StdioAsync
