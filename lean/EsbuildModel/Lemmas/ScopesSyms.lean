import EsbuildModel.Lemmas.ScopesTree
/-!
How the visit pass changes the symbol table, as far as label symbols are concerned: kinds never change, links only
ever point to symbols that existed before the pass (`< L0`), and a label symbol created by the pass (`≥ L0`) is never
marked MustNotBeRenamed.
-/
namespace EsbuildModel.Scopes

/-- every link points below `L0` -/
def LinksOld (L0 : Nat) (syms : Syms) : Prop := ∀ (i : Nat) (s : Sym) (t : Nat), syms[i]? = some s → s.link = some t → t < L0

/-- `i` is a symbol whose kind is not SymbolLabel -/
def NotLab (syms : Syms) (i : Nat) : Prop := ∃ s, syms[i]? = some s ∧ s.kind ≠ .label

/-- `l` is a label symbol that may be renamed -/
def IsLab (syms : Syms) (l : Nat) : Prop := ∃ s, syms[l]? = some s ∧ s.kind = .label ∧ s.pinned = false

/-- an update of the symbol table by the visit pass -/
structure SUpd (L0 : Nat) (a b : Syms) : Prop where
  len : a.length ≤ b.length
  old : ∀ i s, a[i]? = some s → ∃ s', b[i]? = some s' ∧ s'.kind = s.kind ∧
    (L0 ≤ i → s.kind = .label → s'.pinned = s.pinned)
  links : LinksOld L0 a → LinksOld L0 b

theorem SUpd.refl (L0 : Nat) (a : Syms) : SUpd L0 a a :=
  ⟨Nat.le_refl _, fun _ s h => ⟨s, h, rfl, fun _ _ => rfl⟩, id⟩

theorem SUpd.trans {L0 : Nat} {a b c : Syms} (h1 : SUpd L0 a b) (h2 : SUpd L0 b c) : SUpd L0 a c := by
  refine ⟨Nat.le_trans h1.len h2.len, ?_, fun h => h2.links (h1.links h)⟩
  intro i s hs
  obtain ⟨s1, e1, k1, p1⟩ := h1.old i s hs
  obtain ⟨s2, e2, k2, p2⟩ := h2.old i s1 e1
  exact ⟨s2, e2, k2.trans k1, fun hi hk => (p2 hi (k1.trans hk)).trans (p1 hi hk)⟩

theorem SUpd.notLab {L0 : Nat} {a b : Syms} (h : SUpd L0 a b) {i : Nat} (hn : NotLab a i) : NotLab b i := by
  obtain ⟨s, hs, hk⟩ := hn
  obtain ⟨s', e, k, _⟩ := h.old i s hs
  exact ⟨s', e, by rw [k]; exact hk⟩

theorem SUpd.isLab {L0 : Nat} {a b : Syms} (h : SUpd L0 a b) {l : Nat} (hl : L0 ≤ l) (hn : IsLab a l) : IsLab b l := by
  obtain ⟨s, hs, hk, hp⟩ := hn
  obtain ⟨s', e, k, p⟩ := h.old l s hs
  exact ⟨s', e, k.trans hk, (p hl hk).trans hp⟩

/-- a new symbol without a link -/
theorem SUpd.append (L0 : Nat) (a : Syms) (k : SK) (n : Name) : SUpd L0 a (a ++ [⟨k, n, none, false⟩]) := by
  refine ⟨by simp, ?_, ?_⟩
  · intro i s hs
    have hi : i < a.length := by
      rcases Nat.lt_or_ge i a.length with h | h
      · exact h
      · rw [List.getElem?_eq_none h] at hs; cases hs
    exact ⟨s, by rw [List.getElem?_append_left hi]; exact hs, rfl, fun _ _ => rfl⟩
  · intro hl
    unfold LinksOld
    intro i s t hs ht
    rcases Nat.lt_or_ge i a.length with h | h
    · rw [List.getElem?_append_left h] at hs; exact hl i s t hs ht
    · rw [List.getElem?_append_right h] at hs
      cases hi : i - a.length with
      | zero => rw [hi] at hs; simp at hs; subst hs; cases ht
      | succ j => rw [hi] at hs; simp at hs

theorem getElem?_modify_self {f : Sym → Sym} {a : Syms} {i : Nat} {s : Sym} (h : a[i]? = some s) :
    (a.modify i f)[i]? = some (f s) := by
  rw [List.getElem?_modify]; simp [h]

theorem getElem?_modify_other {f : Sym → Sym} {a : Syms} {i j : Nat} (h : i ≠ j) :
    (a.modify i f)[j]? = a[j]? := by
  rw [List.getElem?_modify]; simp [h]

/-- an update of one symbol that keeps its kind -/
theorem SUpd.modify (L0 : Nat) (a : Syms) (t : Nat) (f : Sym → Sym) (hk : ∀ s, (f s).kind = s.kind)
    (hp : ∀ s, L0 ≤ t → s.kind = .label → a[t]? = some s → (f s).pinned = s.pinned)
    (hl : ∀ s x, (f s).link = some x → s.link = some x ∨ x < L0) : SUpd L0 a (a.modify t f) := by
  refine ⟨by simp, ?_, ?_⟩
  · intro i s hs
    by_cases hi : t = i
    · subst hi
      exact ⟨f s, getElem?_modify_self hs, hk s, fun h1 h2 => hp s h1 h2 hs⟩
    · exact ⟨s, by rw [getElem?_modify_other hi]; exact hs, rfl, fun _ _ => rfl⟩
  · intro hlo
    unfold LinksOld
    intro i s x hs hx
    by_cases hi : t = i
    · subst hi
      cases ha : a[t]? with
      | none =>
        rw [List.getElem?_modify] at hs; simp [ha] at hs
      | some s0 =>
        rw [getElem?_modify_self ha] at hs
        cases hs
        rcases hl s0 x hx with h | h
        · exact hlo t s0 x ha h
        · exact h
    · rw [getElem?_modify_other hi] at hs
      exact hlo i s x hs hx

/-- MustNotBeRenamed on a symbol that is old or not a label -/
theorem SUpd.pin {L0 : Nat} {a : Syms} {t : Nat} (h : t < L0 ∨ NotLab a t) : SUpd L0 a (pin a t) := by
  unfold Scopes.pin
  refine SUpd.modify L0 a t _ (fun _ => rfl) ?_ (fun s x hx => Or.inl hx)
  intro s ht hk hs
  rcases h with h | ⟨s', hs', hk'⟩
  · omega
  · rw [hs] at hs'; cases hs'; exact absurd hk hk'

theorem SUpd.setLink {L0 : Nat} (a : Syms) (i : Nat) {t : Nat} (h : t < L0) : SUpd L0 a (setLink a i (some t)) := by
  unfold Scopes.setLink
  refine SUpd.modify L0 a i _ (fun _ => rfl) (fun _ _ _ _ => rfl) ?_
  intro s x hx
  simp only [Option.some.injEq] at hx
  subst hx; exact Or.inr h

end EsbuildModel.Scopes
