import EsbuildModel.Impl.BrowserMap
import EsbuildModel.Spec.BrowserField
import EsbuildModel.Lemmas.PkgExportsStr
/-! Helper lemmas for Props/C11BrowserMap.lean: the nested early returns of `checkPath` / `checkBrowserMap`
are "the first candidate name that is a key of the map"; the map is only ever consulted through `lookup`. -/
namespace EsbuildModel.BrowserMap
open EsbuildModel.NodeExports (Str)
open EsbuildModel.PkgExports (hasPrefix goClean goJoin splitAt joinSlash)
open EsbuildModel.BrowserFieldSpec (firstPresent withExts forms formsNoExt indexOf isBare)

theorem lookup_eq_find (m : BMap) (k : Str) : lookup m k = (m.find? (·.1 = k)).map (·.2) := by
  induction m with
  | nil => rfl
  | cons kv rest ih =>
    obtain ⟨k0, v⟩ := kv
    simp only [lookup, List.find?_cons]
    by_cases h : k0 = k <;> simp [h, ih]

theorem firstPresent_cons (m : BMap) (k : Str) (ks : List Str) :
    firstPresent m (k :: ks) = match lookup m k with
      | some v => some (k, v)
      | none => firstPresent m ks := by
  simp only [firstPresent, lookup_eq_find]
  cases m.find? (·.1 = k) <;> rfl

theorem firstPresent_append (m : BMap) (a b : List Str) :
    firstPresent m (a ++ b) = match firstPresent m a with
      | some r => some r
      | none => firstPresent m b := by
  induction a with
  | nil => rfl
  | cons k ks ih =>
    simp only [List.cons_append, firstPresent_cons]
    cases lookup m k with
    | some v => rfl
    | none => exact ih

theorem tryExts_eq (m : BMap) (base : Str) (exts : List Str) :
    tryExts m base exts = firstPresent m (exts.map (base ++ ·)) := by
  induction exts with
  | nil => rfl
  | cons e es ih =>
    simp only [tryExts, List.map_cons, firstPresent_cons]
    cases lookup m (base ++ e) with
    | some v => rfl
    | none => exact ih

theorem isPackagePath_eq (p : Str) : isPackagePath p = isBare p := rfl

theorem indexPathOf_eq (p : Str) : indexPathOf p = indexOf goJoin p := rfl

/-- `checkPath` with implicit extensions = first hit among F3's names -/
theorem checkPath_true (m : BMap) (exts : List Str) (p : Str) :
    checkPath m exts p true = firstPresent m (forms goJoin exts p) := by
  simp only [checkPath, forms, withExts, if_true, firstPresent_append, firstPresent_cons, tryExts_eq,
    indexPathOf_eq]
  cases lookup m p with
  | some v => rfl
  | none =>
    simp only
    cases firstPresent m (exts.map (p ++ ·)) with
    | some r => rfl
    | none =>
      simp only
      cases lookup m (indexOf goJoin p) <;> rfl

/-- `checkPath` without implicit extensions -/
theorem checkPath_false (m : BMap) (exts : List Str) (p : Str) :
    checkPath m exts p false = firstPresent m (formsNoExt goJoin p) := by
  simp only [checkPath, formsNoExt, firstPresent_cons, indexPathOf_eq, Bool.false_eq_true, if_false]
  cases lookup m p with
  | some v => rfl
  | none =>
    simp only [firstPresent]
    cases lookup m (indexOf goJoin p) <;> rfl

/-! ## the map is a map: only `lookup` matters -/

def KeysNodup (m : BMap) : Prop := (m.map (·.1)).Nodup

theorem lookup_some_mem (m : BMap) (k : Str) (v : Option Str) (h : lookup m k = some v) : (k, v) ∈ m := by
  induction m with
  | nil => simp [lookup] at h
  | cons kv rest ih =>
    obtain ⟨k0, v0⟩ := kv
    simp only [lookup] at h
    by_cases hk : k0 = k
    · simp [hk] at h; subst h; simp [hk]
    · simp only [hk, if_false] at h; exact List.mem_cons_of_mem _ (ih h)

theorem lookup_none (m : BMap) (k : Str) : lookup m k = none ↔ ∀ v, (k, v) ∉ m := by
  induction m with
  | nil => simp [lookup]
  | cons kv rest ih =>
    obtain ⟨k0, v0⟩ := kv
    simp only [lookup]
    by_cases hk : k0 = k
    · subst hk; simp only [if_true]; constructor
      · intro h; cases h
      · intro h; exact absurd List.mem_cons_self (h v0)
    · simp only [hk, if_false, ih, List.mem_cons, Prod.mk.injEq, not_or]
      constructor
      · intro h v; exact ⟨fun e => hk e.1.symm, h v⟩
      · intro h v; exact (h v).2

theorem mem_unique (m : BMap) (hn : KeysNodup m) (k : Str) (v1 v2 : Option Str)
    (h1 : (k, v1) ∈ m) (h2 : (k, v2) ∈ m) : v1 = v2 := by
  induction m with
  | nil => cases h1
  | cons kv rest ih =>
    simp only [KeysNodup, List.map_cons, List.nodup_cons] at hn
    simp only [List.mem_cons] at h1 h2
    rcases h1 with h1 | h1 <;> rcases h2 with h2 | h2
    · rw [← h1] at h2; exact (Prod.mk.inj h2).2.symm
    · exfalso; apply hn.1; rw [← h1]; exact List.mem_map_of_mem (f := (·.1)) h2
    · exfalso; apply hn.1; rw [← h2]; exact List.mem_map_of_mem (f := (·.1)) h1
    · exact ih hn.2 h1 h2

/-- `m[key]` does not depend on the order of the entries -/
theorem lookup_perm {m1 m2 : BMap} (hp : m1.Perm m2) (hn : KeysNodup m1) (k : Str) : lookup m1 k = lookup m2 k := by
  have hn2 : KeysNodup m2 := (List.Perm.map (fun kv : Str × Option Str => kv.1) hp).nodup_iff.mp hn
  cases h1 : lookup m1 k with
  | none =>
    symm; rw [lookup_none]; intro v hm
    exact (lookup_none m1 k).mp h1 v (hp.mem_iff.mpr hm)
  | some v =>
    have hm := hp.mem_iff.mp (lookup_some_mem m1 k v h1)
    cases h2 : lookup m2 k with
    | none => exact absurd hm ((lookup_none m2 k).mp h2 v)
    | some v' => rw [mem_unique m2 hn2 k v v' hm (lookup_some_mem m2 k v' h2)]

theorem firstPresent_congr {m1 m2 : BMap} (h : ∀ k, lookup m1 k = lookup m2 k) (ks : List Str) :
    firstPresent m1 ks = firstPresent m2 ks := by
  induction ks with
  | nil => rfl
  | cons k ks ih => simp only [firstPresent_cons, h k, ih]

/-! ## the relative prefix of the package kind -/

theorem foldr_between (segs : List Str) (hne : segs ≠ []) (n : Str) :
    segs.foldr (fun d acc => d ++ '/' :: acc) n = joinSlash segs ++ '/' :: n := by
  induction segs with
  | nil => exact absurd rfl hne
  | cons s ss ih =>
    cases ss with
    | nil => simp [joinSlash]
    | cons s2 ss2 =>
      have := ih (by simp)
      simp only [List.foldr_cons] at this ⊢
      rw [this]
      simp [joinSlash]

theorem joinSlash_splitAt (r : Str) : joinSlash (splitAt (· = '/') r) = r := by
  rw [PkgExports.splitAt_eq, PkgExports.joinSlash_eq]
  exact PkgExports.joinWith_splitBy r

theorem backToFwd_id (r : Str) (h : '\\' ∉ r) : backToFwd r = r := by
  unfold backToFwd
  induction r with
  | nil => rfl
  | cons c cs ih =>
    simp only [List.mem_cons, not_or] at h
    have hc : ¬ c = '\\' := fun e => h.1 e.symm
    simp [List.map_cons, hc, ih h.2]

theorem any_eq_contains (l : List Str) (x : Str) : l.any (· = x) = l.contains x := by
  induction l with
  | nil => rfl
  | cons a as ih =>
    simp only [List.any_cons, List.contains_cons, ih]
    by_cases h : a = x
    · subst h; simp
    · have h' : (x == a) = false := by simpa using fun e => h e.symm
      simp [h, h']

/-! ## parsePackageJSON's loop over the "browser" object -/

theorem lookup_insert (m : BMap) (k' : Str) (v : Option Str) (k : Str) :
    lookup (insert m k' v) k = if k' = k then some v else lookup m k := by
  induction m with
  | nil => simp [insert, lookup]
  | cons kv rest ih =>
    obtain ⟨k0, v0⟩ := kv
    simp only [insert]
    by_cases h : k0 = k'
    · subst h; simp only [if_true, lookup]; split <;> rfl
    · simp only [h, if_false, lookup, ih]
      by_cases h2 : k0 = k
      · subst h2; simp [Ne.symm h]
      · simp [h2]

theorem insert_keys (m : BMap) (k : Str) (v : Option Str) :
    (insert m k v).map (·.1) = if k ∈ m.map (·.1) then m.map (·.1) else m.map (·.1) ++ [k] := by
  induction m with
  | nil => simp [insert]
  | cons kv rest ih =>
    obtain ⟨k0, v0⟩ := kv
    simp only [insert]
    by_cases h : k0 = k
    · subst h; simp
    · have h' : ¬ k = k0 := fun e => h e.symm
      simp only [h, if_false, List.map_cons, ih, List.mem_cons, h', false_or]
      split <;> simp

theorem insert_nodup (m : BMap) (k : Str) (v : Option Str) (hn : KeysNodup m) : KeysNodup (insert m k v) := by
  simp only [KeysNodup, insert_keys]
  split
  · exact hn
  · rename_i hnot
    exact List.nodup_append.mpr ⟨hn, by simp, by
      intro a ha b hb; simp only [List.mem_singleton] at hb; subst hb; intro e; subst e; exact hnot ha⟩

/-- the parsed "browser" object is a map: keys pairwise distinct -/
theorem parseBrowser_nodup (props : List (Str × BVal)) (m : BMap) (hn : KeysNodup m) :
    KeysNodup (parseBrowser m props) := by
  induction props generalizing m with
  | nil => exact hn
  | cons kv rest ih =>
    obtain ⟨k, v⟩ := kv
    cases v with
    | str s => exact ih _ (insert_nodup m k _ hn)
    | fls => exact ih _ (insert_nodup m k _ hn)
    | tru => exact ih m hn
    | other => exact ih m hn

/-- what one JSON property contributes: a string is a replacement, `false` disables, `true` and everything
else contribute nothing -/
def setting : BVal → Option (Option Str)
  | .str s => some (some s)
  | .fls => some none
  | .tru => none
  | .other => none

/-- the LAST property with key `k` that is a string or `false` -/
def lastSetting (props : List (Str × BVal)) (k : Str) : Option (Option Str) :=
  props.foldl (fun acc kv => if kv.1 = k then (match setting kv.2 with | some v => some v | none => acc) else acc) none

theorem parseBrowser_lookup_aux (props : List (Str × BVal)) (m : BMap) (k : Str) (acc : Option (Option Str))
    (h : lookup m k = acc) :
    lookup (parseBrowser m props) k =
      props.foldl (fun acc kv => if kv.1 = k then (match setting kv.2 with | some v => some v | none => acc) else acc) acc := by
  induction props generalizing m acc with
  | nil => exact h
  | cons kv rest ih =>
    obtain ⟨k', v⟩ := kv
    simp only [List.foldl_cons]
    cases v with
    | str s =>
      apply ih; rw [lookup_insert]
      by_cases hk : k' = k <;> simp [hk, setting, h]
    | fls =>
      apply ih; rw [lookup_insert]
      by_cases hk : k' = k <;> simp [hk, setting, h]
    | tru => apply ih; by_cases hk : k' = k <;> simp [hk, setting, h]
    | other => apply ih; by_cases hk : k' = k <;> simp [hk, setting, h]

/-! ## first hit: soundness and completeness -/

theorem firstPresent_mem (m : BMap) (ks : List Str) (k : Str) (v : Option Str)
    (h : firstPresent m ks = some (k, v)) : k ∈ ks ∧ (k, v) ∈ m := by
  induction ks with
  | nil => simp [firstPresent] at h
  | cons a as ih =>
    rw [firstPresent_cons] at h
    cases hl : lookup m a with
    | some w =>
      simp only [hl, Option.some.injEq, Prod.mk.injEq] at h
      obtain ⟨rfl, rfl⟩ := h
      exact ⟨List.mem_cons_self, lookup_some_mem m a w hl⟩
    | none =>
      simp only [hl] at h
      obtain ⟨h1, h2⟩ := ih h
      exact ⟨List.mem_cons_of_mem _ h1, h2⟩

theorem firstPresent_none (m : BMap) (ks : List Str) : firstPresent m ks = none ↔ ∀ k ∈ ks, ∀ v, (k, v) ∉ m := by
  induction ks with
  | nil => simp [firstPresent]
  | cons a as ih =>
    rw [firstPresent_cons]
    cases hl : lookup m a with
    | some w =>
      simp only [reduceCtorEq, List.mem_cons, forall_eq_or_imp, false_iff, not_and]
      intro h; exact absurd (lookup_some_mem m a w hl) (h w)
    | none =>
      simp only [ih, List.mem_cons, forall_eq_or_imp]
      exact ⟨fun h => ⟨(lookup_none m a).mp hl, h⟩, fun h => h.2⟩


end EsbuildModel.BrowserMap
