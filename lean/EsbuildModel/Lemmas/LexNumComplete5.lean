import EsbuildModel.Lemmas.LexNumComplete4
/-
Completeness for DecimalBigIntegerLiteral, and the assembled completeness statements.
-/
namespace EsbuildModel.LexNum
open EsbuildModel.Spec.Num EsbuildModel.Spec.NumLit

theorem stop_n (rest : List Char) : StopAt isDig ('n' :: rest) := by
  intro c r hc
  cases hc
  exact ⟨by decide, by decide⟩

theorem bigDec_complete {P : Params} {ds rest : List Char} (hv : (Lit.bigDec ds).valid = true) (hfol : FollowOK P rest) :
    lexNum P ((Lit.bigDec ds).render ++ rest) = .big (Lit.bigDec ds).render.length (strip ds) false := by
  have hpl : plainDecInt ds = true := hv
  cases ds with
  | nil => simp [plainDecInt] at hpl
  | cons c run1 =>
    have hi : decIntOk (c :: run1) = true := by simp [decIntOk, hpl]
    obtain ⟨hdig, hrun1, _⟩ := decIntOk_cons hi
    have hzero : c = '0' → run1 = [] := by
      intro h; subst h; simpa [plainDecInt] using hpl
    have hdot : c ≠ '.' := by rintro rfl; revert hdig; decide
    have hsrc : (Lit.bigDec (c :: run1)).render ++ rest = c :: (run1 ++ 'n' :: rest) := by simp [Lit.render]
    have hz : c = '0' → ∀ x r, run1 ++ 'n' :: rest = x :: r → NoBaseTrigger x := by
      intro h x r hx
      rw [hzero h] at hx
      cases hx
      unfold NoBaseTrigger; decide
    have hilf : (c == '0' && headIs (run1 ++ 'n' :: rest) (fun c => c == '8' || c == '9')) = false := by
      by_cases h : c = '0'
      · rw [hzero h]; subst h; rfl
      · simp [h]
    obtain ⟨s1, h1, hseg1, hp1⟩ := digLoop_complete
      (il := c == '0' && headIs (run1 ++ 'n' :: rest) (fun c => c == '8' || c == '9')) (st := st1) inv_st1
      (by rw [st1_prevUS]; exact hrun1) (stop_n rest) (by rw [hilf]; intro h; cases h)
    obtain ⟨s2, h2, hseg2, hp2⟩ := frac_complete hdot none rfl hseg1.inv hp1 (stop_n rest)
      (by intro _ x r hx; cases hx; decide)
    obtain ⟨s3, h3, hseg3, hp3⟩ := exp_complete none rfl hseg2.inv hp2 (stop_n rest)
      (by intro _ x r hx; cases hx; exact ⟨by decide, by decide⟩)
    simp only [fracText, expSText, List.nil_append, Option.isSome_none] at h2 h3 hseg2 hseg3
    obtain ⟨ht, hc, hl⟩ := ((hseg1.trans hseg2).trans hseg3).take (first := c) (isDig_ne_us hdig)
    simp only [List.append_nil] at ht hc hl
    have htext : stripUS s3.usCount ((c :: (run1 ++ 'n' :: rest)).take s3.end_) = strip (c :: run1) := by
      rw [ht, stripUS_eq hc]
    have hzz : (decide ((stripUS s3.usCount ((c :: (run1 ++ 'n' :: rest)).take s3.end_)).length > 1) && c == '0') = false := by
      rw [htext]
      by_cases h : c = '0'
      · rw [hzero h]; subst h; rfl
      · simp [h]
    rw [hsrc, lexNum_float_of hdot hdig hz, float_core_big h1 h2 h3 hp3 (follow_headIs hfol) hzz, htext, hilf]
    simp only [Res.big.injEq, and_true]
    rw [hl]; simp [Lit.render]

end EsbuildModel.LexNum
