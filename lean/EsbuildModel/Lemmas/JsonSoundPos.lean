import EsbuildModel.Lemmas.JsonSoundNum
/-
Soundness, bookkeeping: the input left after a token is a suffix of the input before it, and the end offset of a
token is positive when code points have positive widths.
-/
namespace EsbuildModel.Json
open EsbuildModel.Spec.Json

/-- `a` is what is left of `b` -/
def Suf (a b : List Cp) : Prop := ∃ p, b = p ++ a

theorem Suf.refl (a : List Cp) : Suf a a := ⟨[], rfl⟩
theorem Suf.cons {a b : List Cp} (c : Cp) (h : Suf a b) : Suf a (c :: b) := by
  obtain ⟨p, rfl⟩ := h; exact ⟨c :: p, rfl⟩
theorem Suf.trans {a b c : List Cp} (h1 : Suf a b) (h2 : Suf b c) : Suf a c := by
  obtain ⟨p, rfl⟩ := h1; obtain ⟨q, rfl⟩ := h2; exact ⟨q ++ p, by simp⟩
theorem Suf.mem {a b : List Cp} (h : Suf a b) {x : Cp} (hx : x ∈ a) : x ∈ b := by
  obtain ⟨p, rfl⟩ := h; exact List.mem_append_right _ hx
theorem Suf.drop (n : Nat) (l : List Cp) : Suf (l.drop n) l := ⟨l.take n, (List.take_append_drop n l).symm⟩
theorem Suf.dropWhile (p : Cp → Bool) (l : List Cp) : Suf (l.dropWhile p) l :=
  ⟨l.takeWhile p, (List.takeWhile_append_dropWhile).symm⟩

/-- every code point has a positive width (true of `decodeRunes`) -/
def PosW (l : List Cp) : Prop := ∀ c ∈ l, 0 < c.w

theorem PosW.suf {a b : List Cp} (h : PosW b) (hs : Suf a b) : PosW a := fun c hc => h c (hs.mem hc)

theorem posW_cps (t : List Char) : PosW (cps t) := by
  intro c hc
  simp only [cps, List.mem_map] at hc
  obtain ⟨x, _, rfl⟩ := hc
  exact cpOf_w_pos x

theorem skipSep_suf (fl : Flavor) (m : SMode) (l : List Cp) (sk : Sk) :
    ∀ sk' l', skipSep fl m l sk = .ok (sk', l') → Suf l' l ∧ sk.pos ≤ sk'.pos := by
  fun_induction skipSep fl m l sk <;> intro sk' l' h
  all_goals first
    | (cases h; exact ⟨Suf.refl _, Nat.le_refl _⟩)
    | (cases h; done)
    | (rename_i ih; obtain ⟨h1, h2⟩ := ih sk' l' h; simp only at h2
       exact ⟨by repeat (first | exact h1 | apply Suf.cons), by omega⟩)

theorem scanStr_suf (fl : Flavor) (q : Char) (l : List Cp) (pos : Nat) :
    ∀ t r e s, scanStr fl q l pos = .done t r e s → Suf r l ∧ pos ≤ e := by
  fun_induction scanStr fl q l pos <;> intro t r e s h
  all_goals first
    | (cases h; done)
    | (cases h; exact ⟨by repeat (first | exact Suf.refl _ | apply Suf.cons), by omega⟩)
    | (rename_i ih; obtain ⟨t', s', h'⟩ := StrScan.cons_done h; obtain ⟨h1, h2⟩ := ih _ _ _ _ h'
       exact ⟨by repeat (first | exact h1 | apply Suf.cons), by omega⟩)

end EsbuildModel.Json
